import PfVerif.Core.Sweep
import PfVerif.Core.RankCert
import PfVerif.Core.Strahler
import PfVerif.Core.FillCert
import PfVerif.Core.FirstOutlet
import PfVerif.Model.Core
