import PfVerif.Model.C14_riv
import Driver.Proto
/-! Driver ops of the extension C14_riv (`rivers.classify_estuary`, Manning branch of
`Flwdir.river_depth`, `dem.slope`). Every op returns `model.*` (loop-for-loop model) and `spec.*`
(independent declarative oracle: walks / brute force / padded-raster convolution). -/
namespace Pf.Ops
open Pf.Proto Pf.C14x

def fracsOut (pre : String) (v : Array (Int × Int)) : Out :=
  [(pre ++ ".num", v.map (·.1)), (pre ++ ".den", v.map (·.2))]

def opsC14riv : List (String × Op) := [
  ("c14x_estuary", fun a => do
    let ds ← a.nats "ds"
    let seq ← a.natList "seq"
    let pits ← a.natList "pits"
    let elev ← a.ints "elevtn"
    let maxElev ← a.int "max_elev"
    let P : EstParams := { rivdst := ← a.ints "rivdst", rivwth := ← a.ints "rivwth",
                           mcNum := ← a.int "mc_num", mcDen := ← a.int "mc_den" }
    let isOutlet := fun i => isPit ds i && decide (elev[i]! ≤ maxElev)
    let spec := (List.range ds.size).map fun i =>
      if isValid ds i then estSpec ds (estCond P ds) isOutlet i else 0
    pure [("model", classifyEstuary ds seq pits P elev maxElev), ("spec", spec.toArray),
          ("topo", ofBool (isTopo ds seq)), ("cover", ofBool (coversNet_c14 ds seq)),
          ("pits_ok", ofBool (pits == pitIndices ds))]),
  ("c14x_river_depth", fun a => do
    let ds ← a.nats "ds"
    let seq ← a.natList "seq"
    let P : RdParams := { zs := ← a.ints "zs", rivdst := ← a.ints "rivdst", K := ← a.int "K", S := ← a.int "S",
                          minNum := ← a.int "min_num", minDen := ← a.int "min_den" }
    let cn ← a.ints "cand_num"
    let cd ← a.ints "cand_den"
    let tab ← a.ints "pw"
    let minDph ← a.int "min_dph"
    let ndOut ← a.int "nd_out"
    let slope := rivslpFinal ds seq P
    let depth := riverDepth ds seq P (pwTable ds.size cn cd tab) minDph ndOut
    let spec := (Array.range ds.size).map fun j => rivslpSpec ds P j
    pure (fracsOut "model.slope" slope ++ [("model.depth", depth)] ++ fracsOut "spec.slope" spec ++
          [("exact", ofBool (riverExact ds P)), ("topo", ofBool (isTopo ds seq)),
           ("cover", ofBool (coversNet_c14 ds seq)),
           ("hyp", ofBool (decide (0 < P.S ∧ 0 < P.K ∧ 0 < P.minDen ∧ -9999 * P.minDen < P.minNum)))])),
  ("c14x_slope", fun a => do
    let nrow ← a.nat "nrow"
    let ncol ← a.nat "ncol"
    let elev ← a.ints "elev"
    let nd ← a.int "nodata"
    let xn ← a.int "xn"
    let xd ← a.int "xd"
    let yn ← a.int "yn"
    let yd ← a.int "yd"
    let g := slopeModel (fun _ gx gy => (gx, gy, (0 : Int))) (0, 0, 1) nrow ncol elev nd
    let h := slopeModel (hypExact xn xd yn yd) (-9999, 1, 2) nrow ncol elev nd
    let r := Array.range (nrow * ncol)
    pure [("model.gx", g.map (·.1)), ("model.gy", g.map (·.2.1)), ("model.nd", g.map (·.2.2)),
          ("model.num", h.map (·.1)), ("model.den", h.map (·.2.1)), ("model.exact", h.map (·.2.2)),
          ("spec.gx", r.map fun i => if elev[i]! = nd then 0 else slopeSpecGx nrow ncol elev nd i),
          ("spec.gy", r.map fun i => if elev[i]! = nd then 0 else slopeSpecGy nrow ncol elev nd i)])
]
end Pf.Ops
