import PfVerif.Model.C09
import Driver.Proto
/-! Driver ops for C09 (upscaling). `model.*` = output of the Lean model of the kernels,
`spec.*` = verdicts of the certificate checker `upscaleOK` / the declarative connection check on the
IMPLEMENTATION's output (`impl.*` arguments). -/
namespace Pf.Ops
open Pf.Proto

def geoOf (a : Args) : Except String Geo := do
  let sh ← a.nats "subshape"
  pure { subnrow := sh[0]!, subncol := sh[1]!, cs := (← a.nat "cs") }

def optArr (name : String) (o : Option (Array Nat)) : Out :=
  match o with
  | some v => [(name, ofNats v), (name ++ ".fuel", ofBool false)]
  | none => [(name, #[]), (name ++ ".fuel", ofBool true)]

/-- the verdict bits of the checker on one (coarse network, outlet) pair -/
def verdicts (pre : String) (ds : Array Nat) (g : Geo) (cds out : Array Nat) : Out :=
  let w := mkCert ds g cds out
  [(pre ++ "shape", ofBool (cds.size == g.ncell)),
   (pre ++ "d8", ofBool (okD8 cds g.ncol)),
   (pre ++ "target", ofBool (okTarget cds)),
   (pre ++ "rank", ofBool (okRank cds w.rk)),
   (pre ++ "validiff", ofBool (okValidIff cds out ds.size)),
   (pre ++ "outlets", ofBool (okOutlets ds out w.inv)),
   (pre ++ "cellvalid", ofBool (okCellValid ds out w.wit g.cell)),
   (pre ++ "owncell", ofBool (okOwnCell ds out g.cell)),
   (pre ++ "ok", ofBool (upscaleOK ds g cds out w))]

def opsC09 : List (String × Op) := [
  -- pure arithmetic kernels on explicit argument lists
  ("up_arith", fun a => do
    let subidx ← a.nats "subidx"
    let subncol ← a.nat "subncol"
    let cs ← a.nat "cs"
    let ncol ← a.nat "ncol"
    let i0 ← a.nats "idx0"
    let i1 ← a.nats "idx1"
    pure [("subidx_2_idx", ofNats (subidx.map fun p => subidx2idx p subncol cs ncol)),
          ("cell_edge", ofBools (subidx.map fun p => cellEdge p subncol cs)),
          ("in_d8", ofBools ((List.range i0.size).map fun k => inD8 i0[k]! i1[k]! ncol).toArray)]),
  -- every non-iterative kernel on one fine network
  ("up_kernels", fun a => do
    let ds ← a.nats "ds"
    let g ← geoOf a
    let upa ← a.ints "upa"
    let ea ← a.bools "ea"
    let dmmRep := dmmExitcell ds upa g.subncol g.cs g.ncol g.ncell
    let eamRep := eamRepcell ds upa ea g.subncol g.cs g.ncol g.ncell
    let ihuOut := ihuOutlets ds eamRep g.subncol g.cs g.ncol
    let ihuNext := match ihuOut with
      | some out => ihuNextidx ds out ea g.subncol g.cs g.ncol
      | none => none
    pure ([("shape", #[(g.nrow : Int), (g.ncol : Int)]),
           ("edges", mapCellEdge ds g.subncol g.cs),
           ("effare", mapEffare ds ea),
           ("dmm_exitcell", ofNats dmmRep),
           ("eam_repcell", ofNats eamRep)] ++
          optArr "dmm_nextidx" (dmmNextidx ds dmmRep g.subncol g.cs g.ncol) ++
          optArr "eam_nextidx" (eamNextidx ds eamRep ea g.subncol g.cs g.ncol) ++
          optArr "ihu_outlets" ihuOut ++
          optArr "ihu_nextidx" (ihuNext.map (·.1)) ++
          [("ihu_fix", ofNatList ((ihuNext.map (·.2)).getD []))])),
  -- kernels on arbitrary representative / outlet pixel arrays
  ("up_next", fun a => do
    let ds ← a.nats "ds"
    let g ← geoOf a
    let ea ← a.bools "ea"
    let rep ← a.nats "rep"
    let ihuNext := ihuNextidx ds rep ea g.subncol g.cs g.ncol
    pure (optArr "dmm_nextidx" (dmmNextidx ds rep g.subncol g.cs g.ncol) ++
          optArr "eam_nextidx" (eamNextidx ds rep ea g.subncol g.cs g.ncol) ++
          optArr "ihu_outlets" (ihuOutlets ds rep g.subncol g.cs g.ncol) ++
          optArr "ihu_nextidx" (ihuNext.map (·.1)) ++
          [("ihu_fix", ofNatList ((ihuNext.map (·.2)).getD []))])),
  -- the public wrapper: model pipelines (method 0 dmm, 1 eam, 2 eam_plus, 3 ihu = not modelled) and the
  -- certificate checker on the implementation's output
  ("upscale", fun a => do
    let ds ← a.nats "ds"
    let g ← geoOf a
    let upa ← a.ints "upa"
    let ea ← a.bools "ea"
    let method ← a.nat "method"
    let icds ← a.nats "impl.cds"
    let iout ← a.nats "impl.out"
    let model : Option (Array Nat × Array Nat) :=
      if method = 0 then dmmModel ds upa g
      else if method = 1 then eamModel ds upa ea g
      else if method = 2 then (eamPlusModel ds upa ea g).map fun r => (r.1, r.2.1)
      else none
    let mout : Out := match model with
      | some (cds, out) =>
        [("model.cds", ofNats cds), ("model.out", ofNats out), ("model.has", ofBool true)] ++
          verdicts "model." ds g cds out
      | none => [("model.has", ofBool false)]
    let hyps : Out := [("hyp.geo", ofBool (ds.size == g.subn && decide (0 < g.cs))),
      ("hyp.finewf", ofBool (chkFineWF ds)), ("hyp.fined8", ofBool (chkFineD8 ds g.subncol)),
      ("hyp.eacross", ofBool (chkEaCross g ea ds.size)), ("hyp.upamono", ofBool (chkUpaMono ds upa))]
    pure (mout ++ hyps ++ [("shape", #[(g.nrow : Int), (g.ncol : Int)])] ++ verdicts "spec." ds g icds iout)),
  -- the connection check
  ("up_error", fun a => do
    let ds ← a.nats "ds"
    let out ← a.nats "out"
    let cds ← a.nats "cds"
    let spec := ((List.range cds.size).map fun c => (errSpec ds out cds c : Int)).toArray
    match upscaleError ds out cds with
    | some f => pure [("model.flags", ofNats f), ("model.fix", ofNatList (upscaleErrorFix f)),
                      ("spec.flags", spec), ("fuel", ofBool false)]
    | none => pure [("model.flags", #[]), ("model.fix", #[]), ("spec.flags", spec), ("fuel", ofBool true)]),
  ("up_outlet_pix", fun a => do
    let ds ← a.nats "ds"
    let g ← geoOf a
    let idxs ← a.nats "idxs"
    let all := (← a.nat "all") != 0
    let mut out : Out := []
    let mut k := 0
    for idx in idxs do
      out := out ++ [(s!"pix{k}", ofNatList (outletPix ds idx g.ncol g.subncol g.cs all))]
      k := k + 1
    pure out),
  ("up_new_outlet", fun a => do
    let ds ← a.nats "ds"
    let g ← geoOf a
    let upa ← a.ints "upa"
    let streams ← a.ints "streams"
    let cds ← a.nats "cds"
    let out ← a.nats "out"
    let target := (a.optInt "target").map Int.toNat
    match newOutlet ds upa (← a.nat "idx0") (← a.nat "subidx0") streams cds out g.ncol g.subncol g.cs
        (← a.nat "min_num") (← a.nat "min_den") (← a.int "minupa") target with
    | some (s, c, o, f) =>
      pure [("streams", s), ("cds", ofNats c), ("out", ofNats o), ("found", ofBool f), ("fuel", ofBool false)]
    | none => pure [("fuel", ofBool true)]),
  ("up_check", fun a => do
    let ds ← a.nats "ds"
    let out ← a.nats "out"
    let cds ← a.nats "cds"
    match upscaleCheck ds out cds (← a.nat "min_num") (← a.nat "min_den") with
    | some (valid, streams, fix, short) =>
      pure [("valid", ofBools valid), ("streams", streams), ("fix", ofNatList fix),
            ("short", ofNatList short), ("fuel", ofBool false)]
    | none => pure [("fuel", ofBool true)])
]

end Pf.Ops
