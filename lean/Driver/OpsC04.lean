import PfVerif.Model.C04
import Driver.Proto
namespace Pf.Ops
open Pf.Proto

/-- marker for "the declarative walk did not end" (cell on a loop) -/
def c04NoEnd : Int := -999999999999

def opsC04 : List (String × Op) := [
  -- streams.accuflux / accuflux_ds behind Flwdir.accuflux(data, nodata, direction)
  ("accuflux", fun a => do
    let ds ← a.nats "ds"
    let seq ← a.natList "seq"
    let data ← a.ints "data"
    let nodata ← a.int "nodata"
    let dir ← a.nat "dir"
    if data.size ≠ ds.size then throw "size"
    let ok := linkOk ds data nodata
    let fuel := ds.size
    let model := if dir = 0 then accuflux ds seq data nodata else accufluxDs ds seq data nodata
    -- declarative oracle, independent of the cell order: brute-force catchment sum / walk to the pit
    let mut spec : Array Int := data
    for i in [0:ds.size] do
      if isValid ds i then
        if dir = 0 then spec := spec.setIfInBounds i (catchSumB ds ok data fuel i)
        else match pathSumG ds ok data (fuel + 1) i with
          | some v => spec := spec.setIfInBounds i v
          | none => spec := spec.setIfInBounds i c04NoEnd
    pure [("model", model), ("spec", spec), ("topo", ofBool (isTopo ds seq)),
          ("cover", ofBool (coversValid ds seq)), ("fuelok", ofBool (decide (seq.length ≤ fuel)))]),
  -- FlwdirRaster.upstream_area(unit) / Flwdir.upstream_area() given the cell-area vector
  ("upstream_area", fun a => do
    let ds ← a.nats "ds"
    let seq ← a.natList "seq"
    let area ← a.ints "area"
    let nodata ← a.int "nodata"
    if area.size ≠ ds.size then throw "size"
    let model := upstreamArea ds seq area nodata
    let mut spec : Array Int := Array.replicate ds.size nodata
    for i in [0:ds.size] do
      if isValid ds i then spec := spec.setIfInBounds i (catchSumB ds (fun _ => true) area ds.size i)
    pure [("model", model), ("spec", spec), ("topo", ofBool (isTopo ds seq)),
          ("cover", ofBool (coversValid ds seq)), ("fuelok", ofBool (decide (seq.length ≤ ds.size)))]),
  -- streams.upstream_area kernel
  ("upstream_area_kernel", fun a => do
    let ds ← a.nats "ds"
    let seq ← a.natList "seq"
    let ncol ← a.nat "ncol"
    let rowarea ← a.ints "rowarea"
    let nodata ← a.int "nodata"
    if ncol = 0 then throw "ncol"
    let model := upstreamAreaKernel ds seq ncol rowarea nodata
    let cell : Array Int := Array.ofFn (n := ds.size) fun i => rowarea[i.val / ncol]!
    let mut spec : Array Int := Array.replicate ds.size nodata
    for i in [0:ds.size] do
      if isValid ds i then spec := spec.setIfInBounds i (catchSumB ds (fun _ => true) cell ds.size i)
    pure [("model", model), ("spec", spec), ("topo", ofBool (isTopo ds seq)),
          ("cover", ofBool (coversValid ds seq)), ("fuelok", ofBool (decide (seq.length ≤ ds.size)))]),
  -- gis_utils.area_grid
  ("area_grid", fun a => do
    let nrow ← a.nat "nrow"
    let ncol ← a.nat "ncol"
    let rowarea ← a.ints "rowarea"
    pure [("model", areaGrid nrow ncol rowarea)]),
  -- binary64 model of accuflux (values travel as their 64-bit patterns)
  ("accuflux_f64", fun a => do
    let ds ← a.nats "ds"
    let seq ← a.natList "seq"
    let bits ← a.ints "bits"
    let nodata ← a.int "nodata"
    if bits.size ≠ ds.size then throw "size"
    let toF (x : Int) : Float := Float.ofBits (UInt64.ofNat (x % 18446744073709551616).toNat)  -- signed or unsigned pattern
    let out := accufluxF64 ds seq (bits.map toF) (toF nodata)
    pure [("model", out.map fun f => Int.ofNat f.toBits.toNat)])
]
end Pf.Ops
