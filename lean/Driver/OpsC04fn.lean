import PfVerif.Model.C04
import PfVerif.Model.C05
import PfVerif.Model.C14
import Driver.Proto
/-! Driver ops of the C04_fn extension (`c04fn.*`): the hand-written models of the single-loop sweep kernels that
`harness/extract_fn.py` also translates mechanically (`model.*`) and independent declarative definitions (`spec.*`:
brute-force catchment sum, walk to the pit, walk to the first valid value, brute-force inflow count, the
closed form of `upstream_sum`). The driver never imports `Generated`. -/
namespace Pf.Ops
open Pf.Proto

def c04fnNoEnd : Int := -999999999999

def opsC04fn : List (String × Op) := [
  /- `streams.accuflux`, `streams.accuflux_ds`, `core.fillnodata_upstream` on (idxs_ds, seq, data, nodata) -/
  ("c04fn.sweeps", fun a => do
    let ds ← a.nats "ds"
    let seq ← a.natList "seq"
    let data ← a.ints "data"
    let nodata ← a.int "nodata"
    if data.size ≠ ds.size then throw "size"
    if seq.any (fun i => i ≥ ds.size) then throw "seq-range"
    let ok := linkOk ds data nodata
    let fuel := ds.size
    let mut specUp : Array Int := data
    let mut specDown : Array Int := data
    let mut specFill : Array Int := data
    for i in seq do
      specUp := specUp.setIfInBounds i (catchSumB ds ok data fuel i)
      specDown := specDown.setIfInBounds i ((pathSumG ds ok data (fuel + 1) i).getD c04fnNoEnd)
      specFill := specFill.setIfInBounds i ((walkValid ds data nodata (fuel + 1) i).getD c04fnNoEnd)
    pure [("model.up", accuflux ds seq data nodata), ("model.down", accufluxDs ds seq data nodata),
          ("model.fill", fillnodataUpstream ds seq data nodata),
          ("spec.up", specUp), ("spec.down", specDown), ("spec.fill", specFill),
          ("topo", ofBool (isTopo ds seq)), ("cover", ofBool (coversValid ds seq))]),
  /- `core.upstream_count(idxs_ds, mv, mask)`, `arithmetics.upstream_sum(idxs_ds, data, nodata, mv)`,
     `core.main_upstream(idxs_ds, uparea, upa_min, mv)` -/
  ("c04fn.scans", fun a => do
    let ds ← a.nats "ds"
    let data ← a.ints "data"
    let nodata ← a.int "nodata"
    let upamin ← a.int "upamin"
    let mask := a.optBools "mask"
    if data.size ≠ ds.size then throw "size"
    if ds.any (fun d => d > ds.size) then throw "ds-range"
    match mask with
    | some m => if m.size ≠ ds.size then throw "mask-size"
    | none => pure ()
    let cells := List.range ds.size
    let specNup : List Int := cells.map fun j =>
      if ds[j]! = ds.size then -9
      else Int.ofNat ((cells.filter fun i => ds[i]! == j && i != j && maskAt mask i).length)
    pure [("model.nup", upstreamCount ds mask), ("spec.nup", specNup.toArray),
          ("model.upsum", upstreamSumModel ds data nodata),
          ("spec.upsum", (cells.map (upstreamSumExact ds data nodata)).toArray),
          ("model.usmain", ofNats (mainUpstream ds data upamin))])
]
end Pf.Ops
