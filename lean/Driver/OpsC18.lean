import PfVerif.Model.C18
import Driver.Proto
/-! Driver ops of C18 (sub-basins). Every op returns the model's output (`model.*`), the verdicts of
the declarative certificate predicates on the IMPLEMENTATION's output (`impl.*`, passed in as
`impl_labels` / `impl_idxs`) and on the model's own output (`self.*`, non-vacuity). -/
namespace Pf.Ops
open Pf.Proto

def sortNat (l : List Nat) : List Nat := (l.toArray.qsort (· < ·)).toList

def opsC18 : List (String × Op) := [
  ("c18_streamorder", fun a => do
    let ds ← a.nats "ds"
    let seq ← a.natList "seq"
    let strord ← a.ints "strord"
    let mask := a.optBools "mask"
    let minSto ← a.int "min_sto"
    let implL ← a.ints "impl_labels"
    let implO ← a.natList "impl_idxs"
    let (lab, outs) := subbasinsStreamorder ds seq strord mask minSto
    pure [("model.labels", lab), ("model.idxs", ofNatList outs),
          ("spec.outlets", ofNatList (soOutletSpec ds strord mask minSto)),
          ("impl.sub_ok", ofBool (subOK ds implO implL)),
          ("impl.ids_ok", ofBool (idsOK implO implL)),
          ("self.sub_ok", ofBool (subOK ds outs lab && idsOK outs lab)),
          ("topo", ofBool (isTopo ds seq))]),
  ("c18_area", fun a => do
    let ds ← a.nats "ds"
    let seq ← a.natList "seq"
    let usMain ← a.nats "usmain"
    let uparea ← a.ints "uparea"
    let amin ← a.int "area_min"
    let implL ← a.ints "impl_labels"
    let implO ← a.natList "impl_idxs"
    let (lab, outs) := subbasinsArea ds seq usMain uparea amin
    -- `area` (cell areas) is present only when `uparea` is their accumulation
    let sizeImpl := match a.optInts "area" with
      | some ar => areaSizeOK ds ar amin implO implL
      | none => true
    let sizeSelf := match a.optInts "area" with
      | some ar => areaSizeOK ds ar amin outs lab
      | none => true
    pure [("model.labels", lab), ("model.idxs", ofNatList outs),
          ("impl.sub_ok", ofBool (subOK ds implO implL)),
          ("impl.ids_ok", ofBool (idsOK implO implL)),
          ("impl.outlets_ok", ofBool (areaOutletsOK ds uparea amin implO)),
          ("impl.size_ok", ofBool sizeImpl),
          ("self.ok", ofBool (subOK ds outs lab && idsOK outs lab && areaOutletsOK ds uparea amin outs && sizeSelf)),
          ("usok", ofBool (usMainOK ds usMain)),
          ("rank_sorted", ofBool (rankOrderOK ds seq)),
          ("acc_ok", ofBool (match a.optInts "area" with
            | some ar => if ds.size ≤ 64 then accumOK ds seq ar uparea else true
            | none => true)),
          ("topo", ofBool (isTopo ds seq))]),
  ("c18_pfaf", fun a => do
    let ds ← a.nats "ds"
    let seq ← a.natList "seq"
    let pits ← a.natList "pits"
    let usMain ← a.nats "usmain"
    let uparea ← a.ints "uparea"
    let depth ← a.nat "depth"
    let mask := pfMask uparea (a.optInt "upa_min")
    let implL ← a.ints "impl_labels"
    let implO ← a.natList "impl_idxs"
    let refine := match a.optInts "impl_shallow" with
      | some sh => refineOK sh implL
      | none => true
    match subbasinsPfafstetter pits ds seq usMain uparea mask depth with
    | none => throw "fuel"
    | some (lab, outs, tie, ok) =>
      pure [("model.labels", lab), ("model.idxs", ofNatList outs), ("tie", ofBool tie), ("model.ib_ok", ofBool ok),
            ("impl.sub_ok", ofBool (subOK ds implO implL)),
            ("impl.digits_ok", ofBool (digitsOK depth implL)),
            ("impl.link_ok", ofBool (linkOK ds depth implL)),
            ("impl.refine_ok", ofBool refine),
            ("self.ok", ofBool (subOK ds outs lab && digitsOK depth lab && linkOK ds depth lab)),
            -- theorem `pfaf_refine`: the model's map for `depth - 1` is the model's map for `depth` divided by 10
            ("self.refine_ok", ofBool (if depth ≤ 1 then true else
              match subbasinsPfafstetter pits ds seq usMain uparea mask (depth - 1) with
              | none => false
              | some (sh, _, _, _) => refineOK sh lab)),
            ("usok", ofBool (usMainOK ds usMain)),
            -- hypotheses of theorem `pfaf_ok` (sound by `pfPreOK_sound`): with them `model.ib_ok` is 1 by the theorem
            ("pre_ok", ofBool (pfPreOK pits ds seq usMain uparea)),
            ("topo", ofBool (isTopo ds seq))]),
  ("c18_stream_order_classic", fun a => do
    let ds ← a.nats "ds"
    let seq ← a.natList "seq"
    let usMain ← a.nats "usmain"
    pure [("model", streamOrderClassic ds seq usMain (a.optBools "mask"))]),
  ("c18_tributaries", fun a => do
    let ds ← a.nats "ds"
    let seq ← a.natList "seq"
    let strord ← a.ints "strord"
    pure [("model", ofNatList (tributaries ds seq strord))])
]
end Pf.Ops
