import PfVerif.Model.C17
import PfVerif.Generated.Tables
import Driver.Proto
/-! Driver ops for C17 (coordinates, distances, areas).

Rationals travel as two integer arrays `<name>.n` / `<name>.d`.  `model.*` outputs come from the kernels
of `Model/C17.lean`; `spec.*` outputs come from the declarative definitions (`specCentre`, `specContains`
searched by brute force over the cells, centre-to-centre distances, edge-latitude areas) that
`Props/C17.lean` relates to the kernels. -/
namespace Pf.Ops
open Pf.Proto Pf.C17

def ratsArg (a : Args) (name : String) : Except String (Array Rat) := do
  let n ← a.ints (name ++ ".n")
  let d ← a.ints (name ++ ".d")
  if n.size ≠ d.size then throw s!"ratsize:{name}"
  let mut out : Array Rat := #[]
  for i in [0:n.size] do
    if d[i]! = 0 then throw s!"zeroden:{name}"
    out := out.push ((n[i]! : Rat) / (d[i]! : Rat))
  pure out

def ratOut (name : String) (v : List Rat) : Out :=
  [(name ++ ".n", (v.map fun q => q.num).toArray), (name ++ ".d", (v.map fun q => (q.den : Int)).toArray)]

def affArg (a : Args) (name : String) : Except String Aff := do
  let v ← ratsArg a name
  if v.size ≠ 6 then throw s!"affsize:{name}"
  pure ⟨v[0]!, v[1]!, v[2]!, v[3]!, v[4]!, v[5]!⟩

def roundOpOf : Nat → Except String RoundOp
  | 0 => pure .floor
  | 1 => pure .ceil
  | 2 => pure .round
  | _ => throw "badop"

/-- table lookup `key ↦ value` (the implementation's own values of a transcendental function) -/
def lookupQ (keys vals : Array Rat) (x : Rat) : Rat :=
  match keys.findIdx? (· == x) with
  | some i => vals[i]!
  | none => 0

def hasKey (keys : Array Rat) (x : Rat) : Bool := keys.any (· == x)

/-- the point `offset` of pixel `(row, col)` written down directly (no matrix product) -/
def specPoint (t : Aff) (off : Rat × Rat) (row col : Int) : Rat × Rat :=
  (t.c + ((col : Rat) + off.1) * t.a + ((row : Rat) + off.2) * t.b,
   t.f + ((col : Rat) + off.1) * t.d + ((row : Rat) + off.2) * t.e)

/-- brute force: is `(x, y)` contained in some cell of the raster? returns the linear index -/
def findCell (t : Aff) (nrow ncol : Nat) (x y : Rat) : Option Nat := Id.run do
  for r in [0:nrow] do
    for c in [0:ncol] do
      if specContains t (r : Int) (c : Int) x y then return some (r * ncol + c)
  return none

/-- unit codes: 0 m2, 1 ha, 2 km2, 3 cell, otherwise unknown -/
def unitName (code : Nat) : String :=
  match code with
  | 0 => "m2" | 1 => "ha" | 2 => "km2" | 3 => "cell" | _ => "?"

/-- what the model uses: the AREA_FACTORS table regenerated from /repo -/
def unitFactor (code : Nat) : Bool × Option Rat :=
  (unitName code == "cell", (Pf.Generated.areaFactors.lookup (unitName code)).map fun (n : Nat) => (n : Rat))

/-- what the oracle uses: square metres per unit, typed in from the definitions of the units
(1 ha = 10^4 m2, 1 km2 = 10^6 m2) and the mean earth radius 6371 km -/
def specUnitFactor (code : Nat) : Rat :=
  match code with
  | 1 => 10000 | 2 => 1000000 | _ => 1
def specR2 : Rat := 6371000 * 6371000

def opsC17 : List (String × Op) := [
  -- idxs_to_coords / FlwdirRaster.xy
  ("c17_xy", fun a => do
    let t ← affArg a "t"
    let nrow ← a.nat "nrow"
    let ncol ← a.nat "ncol"
    let idxs := (← a.ints "idxs").toList
    let offc ← a.nat "off"
    let specStatus : Int :=
      if idxs.any (fun i => i < 0 || i ≥ (nrow * ncol : Nat)) then Exc.indexError.code
      else if offc > 4 then Exc.valueError.code else 0
    match idxsToCoordsOff t nrow ncol offc idxs with
    | .error e => pure [("status", #[e.code]), ("spec.status", #[specStatus])]
    | .ok pts =>
      let off := (offsetOf offc).getD centre
      let spec := idxs.map fun i => specPoint t off (i / (ncol : Int)) (i % (ncol : Int))
      pure ([("status", #[0]), ("spec.status", #[specStatus])] ++ ratOut "model.x" (pts.map (·.1)) ++ ratOut "model.y" (pts.map (·.2))
        ++ ratOut "spec.x" (spec.map (·.1)) ++ ratOut "spec.y" (spec.map (·.2)))),
  -- rowcol (no range check)
  ("c17_rowcol", fun a => do
    let t ← affArg a "t"
    let xs ← ratsArg a "x"
    let ys ← ratsArg a "y"
    let op ← roundOpOf (← a.nat "op")
    let prec := a.optInt "prec"
    let mut rows : Array Int := #[]
    let mut cols : Array Int := #[]
    for k in [0:xs.size] do
      match rowcolM t op prec xs[k]! ys[k]! with
      | none => return [("status", #[Exc.notInvertible.code])]
      | some (r, c) =>
        rows := rows.push r
        cols := cols.push c
    -- certificate on the implementation's output (default op): every returned pixel contains its point
    let cert : Out := match a.optInts "impl.rows", a.optInts "impl.cols" with
      | some ir, some ic =>
        [("spec.contains", ofBool ((List.range xs.size).all fun k =>
          specContains t ir[k]! ic[k]! xs[k]! ys[k]!))]
      | _, _ => []
    pure ([("status", #[0]), ("model.rows", rows), ("model.cols", cols)] ++ cert)),
  -- coords_to_idxs / FlwdirRaster.index ; `impl.status`, `impl.idxs` = what the implementation did
  ("c17_index", fun a => do
    let t ← affArg a "t"
    let nrow ← a.nat "nrow"
    let ncol ← a.nat "ncol"
    let xs ← ratsArg a "x"
    let ys ← ratsArg a "y"
    let op ← roundOpOf (← a.nat "op")
    let prec := a.optInt "prec"
    let pts := (List.range xs.size).map fun k => (xs[k]!, ys[k]!)
    let model : Out := match coordsToIdxs t nrow ncol op prec pts with
      | .error e => [("status", #[e.code])]
      | .ok idxs => [("status", #[0]), ("model.idxs", idxs.toArray)]
    -- declarative oracle (default op only): brute-force search of the containing cell
    let found := pts.map fun p => findCell t nrow ncol p.1 p.2
    let spec : Out :=
      if found.all Option.isSome then
        [("spec.status", #[0]), ("spec.idxs", (found.map fun o => ((o.getD 0 : Nat) : Int)).toArray)]
      else [("spec.status", #[Exc.indexError.code])]
    pure (model ++ spec)),
  -- array_bounds / FlwdirRaster.bounds, extent ; `impl` = the implementation's bounds
  ("c17_bounds", fun a => do
    let t ← affArg a "t"
    let nrow ← a.nat "nrow"
    let ncol ← a.nat "ncol"
    let b := arrayBounds nrow ncol t
    let ex := extentOf b
    let impl ← ratsArg a "impl"
    if impl.size ≠ 4 then throw "implsize"
    -- every cell centre strictly inside the implementation's reported bounds (brute force over the cells)
    let mut inside := true
    for r in [0:nrow] do
      for c in [0:ncol] do
        let p := specCentre t (r : Int) (c : Int)
        if !(impl[0]! < p.1 && p.1 < impl[2]! && impl[1]! < p.2 && p.2 < impl[3]!) then inside := false
    -- bounding box of the four raster corners, written down directly
    let corners := [specPoint t (0, 0) 0 0, specPoint t (0, 0) 0 ncol, specPoint t (0, 0) nrow 0,
      specPoint t (0, 0) nrow ncol]
    let xsC := corners.map (·.1)
    let ysC := corners.map (·.2)
    let mn (l : List Rat) := l.foldl (fun m x => if x < m then x else m) (l.headD 0)
    let mx (l : List Rat) := l.foldl (fun m x => if m < x then x else m) (l.headD 0)
    pure (ratOut "model.bounds" [b.1, b.2.1, b.2.2.1, b.2.2.2] ++
      ratOut "model.extent" [ex.1, ex.2.1, ex.2.2.1, ex.2.2.2] ++
      ratOut "spec.bbox" [mn xsC, mn ysC, mx xsC, mx ysC] ++
      [("spec.centres_inside", ofBool inside), ("northup", ofBool (decide t.NorthUp))])),
  -- affine_to_coords
  ("c17_axes", fun a => do
    let t ← affArg a "t"
    let nrow ← a.nat "nrow"
    let ncol ← a.nat "ncol"
    let (xs, ys) := affineToCoords t nrow ncol
    let sx := (List.range ncol).map fun (j : Nat) => (specCentre t 0 (j : Int)).1
    let sy := (List.range nrow).map fun (i : Nat) => (specCentre t (i : Int) 0).2
    pure (ratOut "model.x" xs ++ ratOut "model.y" ys ++ ratOut "spec.x" sx ++ ratOut "spec.y" sy)),
  -- transform_from_origin / transform_from_bounds
  ("c17_transform", fun a => do
    let v ← ratsArg a "args"
    let kind ← a.nat "kind"
    if kind = 0 then
      if v.size ≠ 4 then throw "argsize"
      let t := transformFromOrigin v[0]! v[1]! v[2]! v[3]!
      pure (ratOut "model.t" [t.a, t.b, t.c, t.d, t.e, t.f] ++
        ratOut "spec.t" [v[2]!, 0, v[0]!, 0, -v[3]!, v[1]!])
    else
      if v.size ≠ 4 then throw "argsize"
      let width ← a.nat "width"
      let height ← a.nat "height"
      if width = 0 ∨ height = 0 then throw "zerosize"
      let t := transformFromBounds v[0]! v[1]! v[2]! v[3]! width height
      -- spec: the transform whose array_bounds are the requested bounds
      pure (ratOut "model.t" [t.a, t.b, t.c, t.d, t.e, t.f] ++
        ratOut "spec.t" [(v[2]! - v[0]!) / (width : Rat), 0, v[0]!, 0, (v[1]! - v[3]!) / (height : Rat), v[3]!])),
  -- distance for a list of pairs; `lat.*`, `dmy.*`, `dmx.*` = table of the implementation's
  -- degree_metres_y/x at the half-row latitudes (geographic only)
  ("c17_distance", fun a => do
    let t ← affArg a "t"
    let nrow ← a.nat "nrow"
    let ncol ← a.nat "ncol"
    let latlon := (← a.nat "latlon") ≠ 0
    let i0 ← a.nats "idx0"
    let i1 ← a.nats "idx1"
    if i0.size ≠ i1.size then throw "pairsize"
    let (keys, vy, vx) ← (if latlon then do
        let k ← ratsArg a "lat"
        let y ← ratsArg a "dmy"
        let x ← ratsArg a "dmx"
        if k.size ≠ y.size ∨ k.size ≠ x.size then throw "tablesize"
        -- the table must cover every half-row latitude of the raster
        for j in [0:2 * nrow + 1] do
          if !hasKey k (t.f + ((j : Nat) : Rat) / 2 * t.e) then throw "missing-key"
        pure (k, y, x)
      else pure (#[], #[], #[]) : Except String (Array Rat × Array Rat × Array Rat))
    let dmy := lookupQ keys vy
    let dmx := lookupQ keys vx
    let mut ly : List Rat := []
    let mut lx : List Rat := []
    let mut d2 : List Rat := []
    let mut s2 : List Rat := []
    for k in [0:i0.size] do
      if i0[k]! ≥ nrow * ncol ∨ i1[k]! ≥ nrow * ncol then throw "pair-out-of-range"
      let legs := distLegs dmy dmx t ncol latlon i0[k]! i1[k]!
      ly := ly ++ [legs.1]
      lx := lx ++ [legs.2]
      d2 := d2 ++ [dist2 legs]
      s2 := s2 ++ [if latlon then dist2 (specGeoLegs dmy dmx t ncol i0[k]! i1[k]!)
                   else specCentreDist2 t ncol i0[k]! i1[k]!]
    pure (ratOut "model.dy" ly ++ ratOut "model.dx" lx ++ ratOut "model.d2" d2 ++ ratOut "spec.d2" s2)),
  -- area_grid / FlwdirRaster.area ; `sinkey.*`, `sinval.*` = the implementation's sin(radians(edge latitude))
  ("c17_area", fun a => do
    let t ← affArg a "t"
    let nrow ← a.nat "nrow"
    let ncol ← a.nat "ncol"
    let latlon := (← a.nat "latlon") ≠ 0
    let (isCell, fac) := unitFactor (← a.nat "unit")
    let R2 : Rat := ((Pf.Generated.earthRadius * Pf.Generated.earthRadius : Nat) : Rat)
    let (pi180, keys, vals) ← (if latlon then do
        let p ← ratsArg a "pi180"
        if p.size ≠ 1 then throw "pisize"
        let k ← ratsArg a "sinkey"
        let v ← ratsArg a "sinval"
        if k.size ≠ v.size then throw "tablesize"
        for j in [0:nrow + 1] do
          if !hasKey k (t.f + ((j : Nat) : Rat) * t.e) then throw "missing-key"
        pure (p[0]!, k, v)
      else pure (0, #[], #[]) : Except String (Rat × Array Rat × Array Rat))
    let sinD := lookupQ keys vals
    match areaGrid (cellareaM R2 pi180 sinD) t nrow ncol latlon isCell fac with
    | .error e => pure [("status", #[e.code])]
    | .ok rows =>
      let f := specUnitFactor (← a.nat "unit")
      let R2 := specR2
      let spec : List Rat :=
        if isCell then List.replicate nrow 1
        else if latlon then (List.range nrow).map fun r => specRowArea R2 pi180 sinD t r / f
        else (List.range nrow).map fun (r : Nat) =>
          -- rectangle spanned by the corner coordinates of cell (r, 0)
          absQ ((specPoint t (1, 0) (r : Int) 0).1 - (specPoint t (0, 0) (r : Int) 0).1) *
          absQ ((specPoint t (0, 1) (r : Int) 0).2 - (specPoint t (0, 0) (r : Int) 0).2) / f
      pure ([("status", #[0])] ++ ratOut "model.rows" rows ++ ratOut "spec.rows" spec ++
        ratOut "model.total" [areaTotal ncol rows]))
]
end Pf.Ops
