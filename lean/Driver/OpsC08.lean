import PfVerif.Model.C08
import Driver.Proto
/-! Driver ops for C08 (stream orders). -/
namespace Pf.Ops
open Pf.Proto

def natsOut (a : Array Nat) : Array Int := a.map Int.ofNat

/-- every valid cell occurs in `seq` (the order covers the whole loop-free network) -/
def coversValid (ds : Array Nat) (seq : List Nat) : Bool :=
  let seen := seq.foldl (fun (s : Array Bool) i => s.setIfInBounds i true) (Array.replicate ds.size false)
  (List.range ds.size).all fun i => !(isValid ds i) || seen[i]!

def opsC08 : List (String × Op) := [
  -- streams.strahler_order(idxs_ds, seq, mask); `impl` = the implementation's output
  ("strahler_order", fun a => do
    let ds ← a.nats "ds"
    let seq ← a.natList "seq"
    let mask := a.optBools "mask"
    let impl ← a.nats "impl"
    let model := strahlerOrder ds seq mask
    let spec := (List.range ds.size).map (strahlerSpec ds mask)
    pure [("model", natsOut model), ("spec", ofNatList spec),
          ("cert", ofBool (strahlerCert ds mask impl)),
          ("cert.model", ofBool (strahlerCert ds mask model)),
          ("closed", ofBool (maskClosed ds mask)),
          ("topo", ofBool (isTopo ds seq)), ("cover", ofBool (coversValid ds seq))]),
  -- core.main_upstream + core.upstream_count(mask) + streams.stream_order.
  -- `usmain` = the implementation's idxs_us_main: the property leaves ties between equal upstream
  -- areas free, so the order is modelled/specified relative to the main stem actually chosen, and the
  -- choice itself is validated by `mainCert`; `model.main` is the model's (least index) choice.
  ("classic_order", fun a => do
    let ds ← a.nats "ds"
    let seq ← a.natList "seq"
    let mask := a.optBools "mask"
    let uparea ← a.ints "uparea"
    let upaMin ← a.int "upa_min"
    let usMain ← a.nats "usmain"
    let mainM := mainUpstream ds uparea upaMin
    let model := classicOrder ds seq usMain mask
    -- declarative: nup by counting, order by walking downstream
    let mainS := (List.range ds.size).map (mainSpec ds uparea upaMin)
    let nupS := ((List.range ds.size).map (nupSpec ds mask)).toArray
    let spec := (List.range ds.size).map fun i =>
      if isValid ds i then
        match classicWalk ds mask (nupS[·]!) (usMain[·]!) (ds.size + 1) i with
        | some v => Int.ofNat v
        | none => -1
      else 0
    pure [("model", natsOut model), ("model.u8", natsOut (classicOrderU8 ds seq usMain mask)),
          ("spec", spec.toArray),
          ("main.cert", ofBool (mainCert ds uparea upaMin usMain)),
          ("model.main", ofNats mainM), ("spec.main", ofNatList mainS),
          ("model.nup", upstreamCount ds mask), ("spec.nup", natsOut nupS),
          ("closed", ofBool (maskClosed ds mask)),
          ("topo", ofBool (isTopo ds seq)), ("cover", ofBool (coversValid ds seq))]),
  -- Flwdir.stream_order(type, mask): type 0 = strahler, 1 = classic
  ("stream_order", fun a => do
    let ds ← a.nats "ds"
    let seq ← a.natList "seq"
    let mask := a.optBools "mask"
    let uparea ← a.ints "uparea"
    let t ← a.nat "type"
    match streamOrder t ds seq mask uparea with
    | some o => pure [("model", natsOut o), ("raises", ofBool false)]
    | none => pure [("model", #[]), ("raises", ofBool true)])
]
end Pf.Ops
