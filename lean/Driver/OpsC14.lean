import PfVerif.Model.C14
import Driver.Proto
/-! Driver ops for C14 (along-network operators). Every op returns `model.*` (the loop-for-loop
model) and `spec.*` (independent declarative oracle: walks / brute-force sums / counting). -/
namespace Pf.Ops
open Pf.Proto

def pairsOut (pre : String) (v : Array (Int × Int)) : Out :=
  [(pre ++ ".num", v.map (·.1)), (pre ++ ".den", v.map (·.2))]

def optOrMissing (o : Option Int) : Int := match o with | some v => v | none => -999999

/-- `Model.Core.windowDown` reads `strord[ds c]` before testing `ds c = n`; the read of index `n`
yields the default 0 and is then discarded, but prints an out-of-bounds notice. One padding 0 at index
`n` (the same value) keeps the driver's stderr clean without changing any result. -/
def padOrd (o : Option (Array Int)) : Option (Array Int) := o.map fun s => s.push 0

/-- the main-stem array is locally sane: `usMain[d]` is none or an inflow cell of `d` -/
def usMainOK (ds usMain : Array Nat) : Bool := usMainOK_c14 ds usMain

/-- every window (as laid out by the model of `_window`) is duplicate-free and in range - the conclusion
of `C14.window_nodup` / `window_nodup_checked`, evaluated -/
def windowsDistinct (ds um : Array Nat) (strord : Option (Array Int)) (n : Nat) : Bool :=
  (List.range ds.size).all fun i =>
    let w := window ds um strord n i
    w.eraseDups.length == w.length && w.all fun k => decide (k < ds.size)

def opsC14 : List (String × Op) := [
  ("c14_downstream", fun a => do
    let ds ← a.nats "ds"
    let data ← a.ints "data"
    let spec := (List.range ds.size).map fun i => if isValid ds i then data[ds[i]!]! else data[i]!
    pure [("model", downstreamModel ds data), ("spec", spec.toArray)]),
  ("c14_upstream_sum", fun a => do
    let ds ← a.nats "ds"
    let data ← a.ints "data"
    let nd ← a.int "nodata"
    let r := List.range ds.size
    pure [("model", upstreamSumModel ds data nd),
          ("exact", (r.map fun j => upstreamSumExact ds data nd j).toArray),
          ("flagged", (r.map fun j => if upsumFlagged ds data nd j then (1 : Int) else 0).toArray),
          ("spec", (r.map fun j => upstreamSumSpec ds data nd j).toArray),
          ("fixed", (r.map fun j => if upstreamSumFixed ds data nd j then (1 : Int) else 0).toArray)]),
  ("c14_fill_up", fun a => do
    let ds ← a.nats "ds"
    let seq ← a.natList "seq"
    let data ← a.ints "data"
    let nd ← a.int "nodata"
    let spec := (List.range ds.size).map fun i =>
      if isValid ds i then optOrMissing (walkValid ds data nd (ds.size + 1) i) else data[i]!
    pure [("model", fillnodataUpstream ds seq data nd), ("spec", spec.toArray),
          ("topo", ofBool (isTopo ds seq))]),
  ("c14_fill_down", fun a => do
    let ds ← a.nats "ds"
    let seq ← a.natList "seq"
    let data ← a.ints "data"
    let nd ← a.int "nodata"
    let how ← a.nat "how"
    pure [("model", fillDownModel ds seq data nd how),
          ("spec", fillDownSpec ds data nd how), ("topo", ofBool (isTopo ds seq)),
          ("cover", ofBool (coversNet_c14 ds seq && data.size == ds.size && decide (how ≤ 2)))]),
  ("c14_window", fun a => do
    let ds ← a.nats "ds"
    let um ← a.nats "usmain"
    let strord := padOrd (a.optInts "strord")
    let n ← a.nat "n"
    -- all cells; each window padded to 2n+1 slots (`ds.size` = empty) exactly as `_window` lays it out
    let pad := fun (i : Nat) (up down : List Nat) =>
      List.replicate (n - up.length) ds.size ++ up ++ [i] ++ down ++ List.replicate (n - down.length) ds.size
    let mut m : List Nat := []
    let mut s : List Nat := []
    for i in [0:ds.size] do
      let s0 := strord0 strord i
      m := m ++ pad i (windowUp ds um n i []) (windowDown ds strord s0 n i [])
      s := s ++ pad i (windowSpecUp ds um n i).reverse (windowSpecDown ds strord n i)
    pure [("model", ofNatList m), ("spec", ofNatList s), ("usmain_ok", ofBool (usMainOK ds um)),
          ("nodup", ofBool (windowsDistinct ds um strord n))]),
  ("c14_main_upstream", fun a => do
    let ds ← a.nats "ds"
    let um := mainUpstream ds (← a.ints "uparea") (← a.int "upa_min")
    -- `ok` is 1 on every input (theorem `C14.main_upstream_ok`)
    pure [("model", ofNats um), ("ok", ofBool (usMainOK_c14 ds um))]),
  ("c14_moving_average", fun a => do
    let ds ← a.nats "ds"
    let um ← a.nats "usmain"
    let strord := padOrd (a.optInts "strord")
    let weights := a.optInts "weights"
    let data ← a.ints "data"
    let n ← a.nat "n"
    let nd ← a.int "nodata"
    let model := movingAverageModel ds um strord data weights n nd
    let spec := (Array.range data.size).map fun i =>
      if data[i]! == nd then (nd, (1 : Int)) else
      let cells := (windowSpec ds um strord n i).filter fun k => data[k]! != nd
      let v := (cells.map fun k => weightAt weights k * data[k]!).sum
      let w := (cells.map fun k => weightAt weights k).sum
      if w == 0 then (nd, 1) else (v, w)
    pure (pairsOut "model" model ++ pairsOut "spec" spec ++ [("usmain_ok", ofBool (usMainOK ds um))])),
  ("c14_moving_median", fun a => do
    let ds ← a.nats "ds"
    let um ← a.nats "usmain"
    let strord := padOrd (a.optInts "strord")
    let data ← a.ints "data"
    let n ← a.nat "n"
    let nd ← a.int "nodata"
    let model := movingMedianModel ds um strord data n nd
    let spec := (Array.range data.size).map fun i =>
      if data[i]! == nd then (nd, (1 : Int)) else
      (median2Spec (((windowSpec ds um strord n i).map fun k => data[k]!).filter fun v => v != nd), 2)
    pure (pairsOut "model" model ++ pairsOut "spec" spec ++ [("usmain_ok", ofBool (usMainOK ds um))])),
  ("c14_stream_distance", fun a => do
    let ds ← a.nats "ds"
    let seq ← a.natList "seq"
    let mask := a.optBools "mask"
    let real ← a.nat "real"
    let ncol ← a.nat "ncol"
    let xres ← a.int "xres"
    let yres ← a.int "yres"
    let step : Nat → Nat → Int := if real = 0 then fun _ _ => 1 else cellDist ncol xres yres
    let exact := real = 0 || (List.range ds.size).all fun i =>
      !isValid ds i || cellDistExact ncol xres yres i ds[i]!
    let spec := (List.range ds.size).map fun i =>
      if isValid ds i then optOrMissing (walkDist ds mask step (ds.size + 1) i) else -9999
    pure [("model", streamDistanceModel ds seq mask step), ("spec", spec.toArray),
          ("exact", ofBool exact), ("topo", ofBool (isTopo ds seq))]),
  ("c14_smooth_rivlen", fun a => do
    let ds ← a.nats "ds"
    let um ← a.nats "usmain"
    let seq ← a.natList "seq"
    let riv := (← a.ints "rivlen").map fun (v : Int) => (v : Rat)
    let minLen : Rat := ((← a.int "min_rivlen") : Int)
    let nd : Rat := ((← a.int "nodata") : Int)
    let mw ← a.nat "max_window"
    let (out, exact) := smoothRivlenModel ds um riv minLen mw nd
    let n := mw / 2
    let r := List.range ds.size
    -- cells that lie in the largest window ever tried (half-width n-1) of some cell holding a value
    let touch := r.map fun j => if r.any (fun i => riv[i]! != nd && (rivSlice ds um n (n - 1) i).contains j)
      then (1 : Int) else 0
    -- the hypotheses of `smooth_rivlen_total` (since the fourth stage a consequence of `topo`, `cover`,
    -- `usmain_ok`: `smooth_rivlen_total_checked`, `window_nodup_checked`)
    let nodup := r.all fun i => (window ds um none n i).eraseDups.length == (window ds um none n i).length
    let inb := r.all fun i => (window ds um none n i).all fun k => decide (k < ds.size)
    pure [("model.num", out.map fun q => q.num), ("model.den", out.map fun q => (q.den : Int)),
          ("exact", ofBool exact), ("touch", touch.toArray), ("nodup", ofBool (nodup && inb)),
          ("usmain_ok", ofBool (usMainOK ds um)), ("topo", ofBool (isTopo ds seq)),
          ("cover", ofBool (coversNet_c14 ds seq && riv.size == ds.size))]),
  ("c14_hand", fun a => do
    let ds ← a.nats "ds"
    let seq ← a.natList "seq"
    let drain ← a.bools "drain"
    let elev ← a.ints "elev"
    let spec := (List.range ds.size).map fun i =>
      if isValid ds i then optOrMissing (handSpec ds drain elev i) else -9999
    pure [("model", handModel ds seq drain elev), ("spec", spec.toArray), ("topo", ofBool (isTopo ds seq))]),
  ("c14_floodplains", fun a => do
    let ds ← a.nats "ds"
    let seq ← a.natList "seq"
    let P : FpParams := { elev := ← a.ints "elev", uparea := ← a.ints "uparea", upaMin := ← a.int "upa_min",
                          hnum := ← a.ints "hnum", hden := ← a.int "hden" }
    let spec := (List.range ds.size).map fun i => if isValid ds i then floodSpec ds P i else -1
    pure [("model", floodplainsModel ds seq P), ("spec", spec.toArray), ("topo", ofBool (isTopo ds seq))])
]
end Pf.Ops
