import PfVerif.Model.C10
import Driver.Proto
/-! Driver ops for C10 (unit catchments, sub-grid river segments). `model.*` = the loop-for-loop model,
`spec.*` = the declarative definition the theorems of `Props/C10.lean` relate the model to. -/
namespace Pf.Ops
open Pf.Proto Pf.C10

/-- order-independent label of cell `i`: declarative walk on valid cells, own seed elsewhere;
`-999999` when the walk does not end (cell on a loop) -/
def c10SpecLabel (ds : Array Nat) (outs : List Nat) (i : Nat) : Int :=
  if isValid ds i then
    match labelWalk ds outs (ds.size + 1) i with
    | some v => v
    | none => -999999
  else lastPos1 outs i

def c10SpecMap (ds : Array Nat) (outs : List Nat) : Array Int :=
  ((List.range ds.size).map (c10SpecLabel ds outs)).toArray

/-- brute-force per-outlet value: the sum of `w` over the cells carrying the outlet's label; an entry
whose pixel is listed again later is shadowed (nothing carries its label) and reports the pixel's own
weight; `-9999` for a missing outlet -/
def c10SpecAcc (n : Nat) (outs : List Nat) (lab : Array Int) (w : Nat → Int) : Array Int :=
  (outs.zipIdx.map fun (o, k) =>
    if o = n then (-9999 : Int)
    else if (outs.drop (k + 1)).contains o then w o
    else sumIf (List.range n) (fun i => lab[i]! == (k : Int) + 1) w).toArray

def flagVals {α : Type} (l : PerOutlet α) (f : α → Int) : Array Int :=
  (l.map fun x => match x with | some v => f v | none => 0).toArray
def flagOk {α : Type} (l : PerOutlet α) : Array Int :=
  (l.map fun x => match x with | some _ => (1 : Int) | none => 0).toArray

/-- declarative versions of the per-segment statistics (filter / map / sum instead of loops) -/
def specAvg (cells : List Nat) (data weights : Array Int) (nodata : Int) : Option (Int × Int) :=
  let cs := cells.filter fun c => data[c]! != nodata
  let num := (cs.map fun c => weights[c]! * data[c]!).sum
  let den := (cs.map fun c => weights[c]!).sum
  if den ≠ 0 then some (num, den) else none

def specSlope (cells : List Nat) (elevtn distnc : Array Int) (lstsq : Bool) : Int × Int :=
  match cells with
  | [] => (0, 1)
  | [_] => (0, 1)
  | first :: _ =>
    if lstsq then
      let n : Int := cells.length
      let x := fun c => distnc[c]!
      let y := fun c => elevtn[c]!
      (n * (cells.map fun c => x c * y c).sum - (cells.map x).sum * (cells.map y).sum,
       n * (cells.map fun c => x c * x c).sum - (cells.map x).sum * (cells.map x).sum)
    else
      let last := cells.getLast!
      (elevtn[first]! - elevtn[last]!, distnc[first]! - distnc[last]!)

/-- hypothesis of `Pf.C10.slope_den_pos`, evaluated on the cells of the declarative segment: the distances
along the cells are strictly monotone (1) or not (0) -/
def monoFlagC10 (cells : List Nat) (distnc : Array Int) : Int :=
  let xs := cells.map fun c => distnc[c]!
  if decide (xs.Pairwise (· < ·)) || decide (xs.Pairwise (· > ·)) then 1 else 0

def perOutletSpec {α : Type} (n : Nat) (outs : List Nat) (f : Nat → Option α) : Option (PerOutlet α) :=
  outs.mapM fun idx0 => if idx0 = n then some none else (f idx0).map some

def opsC10 : List (String × Op) := [
  ("c10.ucat_area", fun a => do
    let ds ← a.nats "ds"
    let seq ← a.natList "seq"
    let outs ← a.natList "outs"
    let area ← a.ints "area"
    let (m, are) := ucatArea ds seq outs area
    let smap := c10SpecMap ds outs
    let sare := c10SpecAcc ds.size outs smap (fun i => area[i]!)
    pure [("model.map", m), ("model.are", are), ("spec.map", smap), ("spec.are", sare),
          ("topo", ofBool (isTopo ds seq))]),
  ("c10.ucat_volume", fun a => do
    let ds ← a.nats "ds"
    let seq ← a.natList "seq"
    let outs ← a.natList "outs"
    let area ← a.ints "area"
    let hand ← a.ints "hand"
    let depths := (← a.ints "depths").toList
    let (m, vol) := ucatVolume ds seq outs hand area depths
    let smap := c10SpecMap ds outs
    let svol := depths.map fun d => c10SpecAcc ds.size outs smap (volW area hand d)
    pure [("model.map", m), ("model.vol", vol.foldl (· ++ ·) #[]), ("spec.map", smap),
          ("spec.vol", svol.foldl (· ++ ·) #[]), ("topo", ofBool (isTopo ds seq))]),
  ("c10.outlets", fun a => do
    let ds ← a.nats "ds"
    let upa ← a.ints "upa"
    let effare ← a.bools "effare"
    let dmm := (← a.int "dmm") != 0
    let subncol ← a.nat "subncol"
    let cellsize ← a.nat "cellsize"
    let nrowc ← a.nat "nrowc"
    let ncolc ← a.nat "ncolc"
    let impl ← a.natList "impl"
    -- the property's clauses evaluated on the IMPLEMENTATION's outlet pixels
    let inCell := (impl.zipIdx.all fun (o, c) =>
      o == ds.size || (o < ds.size && ds[o]! != ds.size && cellOf subncol cellsize ncolc o == c))
    let leaves := (impl.zipIdx.all fun (o, c) =>
      o == ds.size || ds[o]! == o || cellOf subncol cellsize ncolc ds[o]! != c)
    match outletsModel ds upa effare dmm subncol cellsize nrowc ncolc with
    | none => throw "fuel"
    | some o => pure [("model.outs", ofNatList o), ("spec.in_cell", ofBool inCell),
                      ("spec.leaves", ofBool leaves)]),
  ("c10.seg_length", fun a => do
    let nxt ← a.nats "nxt"
    let outs ← a.natList "outs"
    let distnc ← a.ints "distnc"
    let mask := a.optBools "mask"
    let isOut := outletFlags nxt.size outs
    let spec := perOutletSpec nxt.size outs fun s =>
      (segInclEndSpec nxt isOut mask s).map fun e => ((distnc[e]! - distnc[s]!).natAbs : Int)
    match segLength nxt outs distnc mask, spec with
    | some m, some s => pure [("model.val", flagVals m (fun v => (v : Int))), ("model.ok", flagOk m),
                              ("spec.val", flagVals s id), ("spec.ok", flagOk s)]
    | _, _ => throw "fuel"),
  ("c10.seg_average", fun a => do
    let nxt ← a.nats "nxt"
    let outs ← a.natList "outs"
    let data ← a.ints "data"
    let weights ← a.ints "weights"
    let nodata ← a.int "nodata"
    let mask := a.optBools "mask"
    let isOut := outletFlags nxt.size outs
    let spec := outs.mapM fun s => if s = nxt.size then some none
      else (segExclSpec nxt isOut mask s).map fun cells => specAvg cells data weights nodata
    match segAverage nxt outs data weights nodata mask, spec with
    | some m, some s => pure [("model.num", flagVals m (·.1)), ("model.den", flagVals m (·.2)),
                              ("model.ok", flagOk m), ("spec.num", flagVals s (·.1)),
                              ("spec.den", flagVals s (·.2)), ("spec.ok", flagOk s)]
    | _, _ => throw "fuel"),
  ("c10.seg_median", fun a => do
    let nxt ← a.nats "nxt"
    let outs ← a.natList "outs"
    let data ← a.ints "data"
    let nodata ← a.int "nodata"
    let mask := a.optBools "mask"
    let isOut := outletFlags nxt.size outs
    let spec := perOutletSpec nxt.size outs fun s =>
      (segExclSpec nxt isOut mask s).map fun cells =>
        median2 ((cells.filter fun c => data[c]! != nodata).map fun c => data[c]!)
    -- ok: 0 = nodata (missing outlet), 1 = value m2/2, 2 = NaN (every value on the segment is nodata)
    let enc := fun (l : PerOutlet (Option Int)) =>
      ((l.map fun x => match x with | some (some v) => v | _ => 0).toArray,
       (l.map fun x => match x with | some (some _) => (1 : Int) | some none => 2 | none => 0).toArray)
    match segMedian nxt outs data nodata mask, spec with
    | some m, some s => pure [("model.m2", (enc m).1), ("model.ok", (enc m).2),
                              ("spec.m2", (enc s).1), ("spec.ok", (enc s).2)]
    | _, _ => throw "fuel"),
  ("c10.seg_slope", fun a => do
    let nxt ← a.nats "nxt"
    let outs ← a.natList "outs"
    let elevtn ← a.ints "elevtn"
    let distnc ← a.ints "distnc"
    let lstsq := (← a.int "lstsq") != 0
    let mask := a.optBools "mask"
    let isOut := outletFlags nxt.size outs
    let spec := perOutletSpec nxt.size outs fun s =>
      (segExclSpec nxt isOut mask s).map fun cells => specSlope cells elevtn distnc lstsq
    let mono := perOutletSpec nxt.size outs fun s =>
      (segExclSpec nxt isOut mask s).map fun cells => monoFlagC10 cells distnc
    match segSlope nxt outs elevtn distnc lstsq mask, spec, mono with
    | some m, some s, some mo => pure [("model.num", flagVals m (·.1)), ("model.den", flagVals m (·.2)),
                              ("model.ok", flagOk m), ("spec.num", flagVals s (·.1)),
                              ("spec.den", flagVals s (·.2)), ("spec.ok", flagOk s),
                              ("spec.mono", flagVals mo id)]
    | _, _, _ => throw "fuel"),
  ("c10.fixed_length_slope", fun a => do
    let ds ← a.nats "ds"
    let us ← a.nats "usmain"
    let outs ← a.natList "outs"
    let elevtn ← a.ints "elevtn"
    let distnc ← a.ints "distnc"
    let half ← a.int "half"
    let lstsq := (← a.int "lstsq") != 0
    let mask := a.optBools "mask"
    let spec := perOutletSpec ds.size outs fun s =>
      (fixedLengthCellsSpec ds us distnc half mask s).map fun cells => specSlope cells elevtn distnc lstsq
    let mono := perOutletSpec ds.size outs fun s =>
      (fixedLengthCellsSpec ds us distnc half mask s).map fun cells => monoFlagC10 cells distnc
    match fixedLengthSlope ds us outs elevtn distnc half lstsq mask, spec, mono with
    | some m, some s, some mo => pure [("model.num", flagVals m (·.1)), ("model.den", flagVals m (·.2)),
                              ("model.ok", flagOk m), ("spec.num", flagVals s (·.1)),
                              ("spec.den", flagVals s (·.2)), ("spec.ok", flagOk s),
                              ("spec.mono", flagVals mo id)]
    | _, _, _ => throw "fuel")
]
end Pf.Ops
