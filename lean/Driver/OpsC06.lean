import PfVerif.Model.C06Depth
import Driver.Proto
/-! Driver ops for C06 (depression filling). `model.*` = executable model of the code,
`spec.*` = declarative definitions / the decidable certificate `fillCertOk` (proved sound in
`Props/C06.lean`) evaluated on the IMPLEMENTATION's output. -/
namespace Pf.Ops
open Pf.Proto Pf.C06

/-- declarative seed set: edge cells (not above `elv_max`) or the listed cells, then optionally the
lowest of them -/
def specSeeds (G : Grid) (conn : Nat) (elev : Array Int) (nod : Array Bool) (pits : Option (List Nat))
    (minMode : Bool) (elvMax : Option Int := none) : Array Bool :=
  let s0 := match pits with
    | none =>
      match elvMax with
      | none => specEdge G conn nod
      | some m => ((List.range G.n).map fun c => decide (IsEdge G conn nod c) && decide (elev[c]! ≤ m)).toArray
    | some p => ((List.range G.n).map fun c => decide (c ∈ p)).toArray
  if minMode then specMin G elev s0 else s0

def seedErrStr : SeedErr → String
  | .valueError => "ValueError"
  | .indexError => "IndexError"

/-- declarative properties of a depth-limited fill (`max_depth = md >= 0`) that hold for every run:
nodata untouched and coded 247, valid cells never coded 247, nothing lowered, nothing raised by
`md` or more -/
def depthOk (G : Grid) (elev : Array Int) (nod : Array Bool) (md : Int) (f : Array Int) (d8 : Array Nat) : Bool :=
  (List.range G.n).all fun c =>
    if nod[c]! then f[c]! == elev[c]! && d8[c]! == 247
    else d8[c]! != 247 && decide (elev[c]! ≤ f[c]!) && (f[c]! == elev[c]! || decide (f[c]! - elev[c]! < md))

/-- the outlets and the cells that had their too-deep event keep their input elevation
(`fillModelDepth_deep_cells_keep` in `Props/C06.lean`); `seed` is the declarative outlet set -/
def keepOk (G : Grid) (elev : Array Int) (seed : Array Bool) (evc : Array Nat) (f : Array Int) : Bool :=
  (List.range G.n).all fun c => !(seed[c]! || decide (1 ≤ evc[c]!)) || f[c]! == elev[c]!

/-- every non-zero direction at a valid cell decodes to an allowed valid neighbour
(`fillModelDepth_step_allowed`) -/
def stepOk (G : Grid) (conn : Nat) (nod : Array Bool) (d8 : Array Nat) : Bool :=
  (List.range G.n).all fun c => nod[c]! || d8[c]! == 0 || decide (Nbr G conn nod c (dsOf G d8 c))

/-- cells that end as a pit (code 0) although they are neither an outlet nor a too-deep cell and are
visibly part of the flooded area (raised, or some neighbour drains into them): the popped cell that was
re-opened by a too-deep neighbour met EARLIER in the neighbour loop and then visited itself at offset
(0, 0) (reported finding; counted, not judged) -/
def spuriousPits (G : Grid) (conn : Nat) (elev : Array Int) (nod seed : Array Bool) (evc : Array Nat)
    (f : Array Int) (d8 : Array Nat) : Nat :=
  ((List.range G.n).filter fun c =>
    !nod[c]! && d8[c]! == 0 && !seed[c]! && evc[c]! == 0 &&
      (f[c]! != elev[c]! ||
        (List.range G.n).any fun b => b != c && !nod[b]! && dsOf G d8 b == c && decide (Adj G conn b c))).length

/-- walk `ds` from `c`: every step is an allowed move between valid cells along which `f` does not
rise, and the walk ends (within `fuel` steps) at a fixed point that is a seed -/
def walkOk (G : Grid) (conn : Nat) (nod seed : Array Bool) (f : Array Int) (ds : Array Nat) :
    Nat → Nat → Bool
  | 0, _ => false
  | fuel + 1, c =>
    let d := ds[c]!
    if d = c then seed[c]!
    else decide (Nbr G conn nod c d) && decide (f[d]! ≤ f[c]!) && walkOk G conn nod seed f ds fuel d

def getGrid (a : Args) : Except String Grid := do
  pure { nrow := ← a.nat "nrow", ncol := ← a.nat "ncol" }

def getConn (a : Args) : Except String Nat := do
  let conn ← a.nat "conn"
  if conn ≠ 4 ∧ conn ≠ 8 then throw "ValueError" else pure conn

def optNatList (a : Args) (name : String) : Option (List Nat) :=
  (a.optInts name).map fun v => v.toList.map Int.toNat

def opsC06 : List (String × Op) := [
  ("c06_get_edge", fun a => do
    let G ← getGrid a
    let conn ← getConn a
    let nod ← a.bools "nod"
    if nod.size ≠ G.n then throw "shape"
    pure [("model.edge", ofBools (getEdge G conn nod)),
          ("spec.edge", ofBools (specEdge G conn nod))]),
  ("c06_fill", fun a => do
    let G ← getGrid a
    let conn ← getConn a
    let elev ← a.ints "elev"
    let nod ← a.bools "nod"
    let minMode := (← a.nat "min") != 0
    let pits := optNatList a "pits"
    let elvMax := a.optInt "elv_max"
    if nod.size ≠ G.n ∨ elev.size ≠ G.n then throw "shape"
    match a.optInt "max_depth" with
    | some md =>
      -- depth-limited fill (max_depth >= 0, scaled like the elevations; the harness sends ceil)
      if md < 0 then throw "domain"
      match fillModelDepth G conn elev nod pits minMode elvMax md with
      | .error e => throw (seedErrStr e)
      | .ok (f, d8, fin, ev, evc) =>
        if !fin then throw "fuel"
        let evmax := evc.foldl max 0
        let seedS := specSeeds G conn elev nod pits minMode elvMax
        let mut out : Out := [("model.f", f), ("model.d8", ofNats d8), ("model.ev", #[(ev : Int)]),
          ("model.evmax", #[(evmax : Int)]), ("spec.depth_model", ofBool (depthOk G elev nod md f d8)),
          ("spec.keep_model", ofBool (keepOk G elev seedS evc f)),
          ("spec.step_model", ofBool (stepOk G conn nod d8)),
          ("model.spurious_pits", #[((spuriousPits G conn elev nod seedS evc f d8 : Nat) : Int)])]
        -- when no too-deep event happened the run must be the unlimited fill
        if ev == 0 then
          match fillModelE G conn elev nod pits minMode elvMax with
          | .ok (f0, d80, _) => out := out ++ [("model.same_as_unlimited", ofBool (f0 == f && d80 == d8))]
          | .error _ => pure ()
        match a.optInts "impl.f", a.optInts "impl.d8" with
        | some fi, some di =>
          let di := di.map Int.toNat
          if fi.size ≠ G.n ∨ di.size ≠ G.n then throw "shape"
          out := out ++ [("spec.depth_impl", ofBool (depthOk G elev nod md fi di)),
                         ("spec.keep_impl", ofBool (keepOk G elev seedS evc fi)),
                         ("spec.step_impl", ofBool (stepOk G conn nod di))]
        | _, _ => pure ()
        pure out
    | none =>
    let seedM ← match seedsOfE G conn elev nod pits minMode elvMax with
      | .error e => throw (seedErrStr e)
      | .ok s => pure s
    let seedS := specSeeds G conn elev nod pits minMode elvMax
    match fillModelE G conn elev nod pits minMode elvMax with
    | .error e => throw (seedErrStr e)
    | .ok (f, d8, fin) =>
      if !fin then throw "fuel"
      let certModel := fillCertOk G conn elev nod seedS f d8 (rankOf G d8)
      let mut out : Out := [("model.f", f), ("model.d8", ofNats d8), ("model.seeds", ofBools seedM),
        ("spec.seeds", ofBools seedS), ("spec.cert_model", ofBool certModel)]
      match a.optInts "impl.f", a.optInts "impl.d8" with
      | some fi, some di =>
        let di := di.map Int.toNat
        if fi.size ≠ G.n ∨ di.size ≠ G.n then throw "shape"
        out := out ++ [("spec.cert_impl", ofBool (fillCertOk G conn elev nod seedS fi di (rankOf G di)))]
        -- second application (idempotence): certificate of (f -> f2) with the same seeds
        match a.optInts "impl.f2", a.optInts "impl.d82" with
        | some f2, some d2 =>
          let d2 := d2.map Int.toNat
          if f2.size ≠ G.n ∨ d2.size ≠ G.n then throw "shape"
          -- seeds of the second call are recomputed from the filled surface (matters for 'min')
          let seedS2 := specSeeds G conn fi nod pits minMode elvMax
          out := out ++ [("spec.cert_impl2", ofBool (fillCertOk G conn fi nod seedS2 f2 d2 (rankOf G d2))),
                         ("spec.seeds2", ofBools seedS2)]
        | _, _ => pure ()
      | _, _ => pure ()
      pure out),
  ("c06_from_dem", fun a => do
    let G ← getGrid a
    let elev ← a.ints "elev"
    let nod ← a.bools "nod"
    let minMode := (← a.nat "min") != 0
    let dsI ← a.nats "impl.ds"
    let fI ← a.ints "impl.f"
    let d8I ← a.nats "impl.d8"
    if nod.size ≠ G.n ∨ elev.size ≠ G.n ∨ dsI.size ≠ G.n ∨ fI.size ≠ G.n ∨ d8I.size ≠ G.n then throw "shape"
    match a.optInt "max_depth" with
    | some md =>
      -- depth-limited: only the decoding of the directions is compared
      if md < 0 then throw "domain"
      match fillModelDepth G 8 elev nod none minMode none md with
      | .error e => throw (seedErrStr e)
      | .ok (_, d8, fin, _, _) =>
        if !fin then throw "fuel"
        pure [("model.ds", ofNats (dsArray G d8)), ("spec.ds", ofNats (dsArray G d8I))]
    | none =>
    match fillModel G 8 elev nod none minMode with
    | none => throw "IndexError"
    | some (_, d8, fin) =>
      if !fin then throw "fuel"
      let seedS := specSeeds G 8 elev nod none minMode
      -- the implementation's network: nodata cells carry n; every cell connected to an outlet
      -- (= `Reached`, by `reached_iff_connected`) walks to an outlet; the others are their own pit
      let ok := (List.range G.n).all fun c =>
        if nod[c]! then dsI[c]! == G.n
        else if decide (Reached G nod seedS d8I c) then walkOk G 8 nod seedS fI dsI (G.n + 1) c
        else dsI[c]! == c
      pure [("model.ds", ofNats (dsArray G d8)), ("spec.ds", ofNats (dsArray G d8I)),
            ("spec.cert_impl", ofBool (fillCertOk G 8 elev nod seedS fI d8I (rankOf G d8I))),
            ("spec.net_ok", ofBool ok)])
]
end Pf.Ops
