import PfVerif.Model.C13_bounds
import Driver.Proto
/-! Driver ops of the C13 extension `C13_bounds`: the access-logging variants of the `core.py` models.
Every op returns the model result, `inb` (every logged index `<` the logged size) and, per array, the
indices touched (`log.<array>`, with multiplicity, newest first). -/
namespace Pf.Ops
open Pf.Proto Pf.C13b

def c13bArrs : List (String × Arr) :=
  [("ds", .ds), ("mask", .mask), ("nup", .nup), ("uparea", .uparea), ("upa_main", .upaMain),
   ("us_main", .usMain), ("ranks", .ranks), ("strord", .strord), ("nxt", .nxt), ("seq_out", .seqOut),
   ("win", .win)]

def c13bLog (log : List Acc) : Out :=
  [("inb", ofBool (decide (InB log))), ("nacc", #[(log.length : Int)])] ++
    c13bArrs.map fun p => ("log." ++ p.1, ofNatList (touched p.2 log))

def c13bStep1 (_ _ : Nat) : Int := 1

def opsC13bounds : List (String × Op) := [
  ("c13b_upstream_count", fun a => do
    let ds ← a.nats "ds"
    let r := upstreamCountL ds (a.optBools "mask")
    pure ([("model", r.1)] ++ c13bLog r.2)),
  ("c13b_main_upstream", fun a => do
    let ds ← a.nats "ds"
    let r := mainUpstreamL ds (← a.ints "uparea") (← a.int "upa_min")
    pure ([("model", ofNats r.1)] ++ c13bLog r.2)),
  ("c13b_pit_indices", fun a => do
    let ds ← a.nats "ds"
    let r := pitIndicesL ds
    pure ([("model", ofNatList r.1)] ++ c13bLog r.2)),
  ("c13b_trace", fun a => do
    let nxt ← a.nats "nxt"
    let start ← a.nat "start"
    let fuel ← a.nat "fuel"
    match traceFromL nxt (a.optBools "mask") (a.optInt "max_length") c13bStep1 fuel start with
    | none => throw "fuel"
    | some r => pure ([("model", ofNatList r.1.1), ("dist", #[r.1.2])] ++ c13bLog r.2)),
  ("c13b_window", fun a => do
    let ds ← a.nats "ds"
    let um ← a.nats "usmain"
    let r := windowL ds um (a.optInts "strord") (← a.nat "n") (← a.nat "idx0")
    pure ([("model", ofNatList r.1)] ++ c13bLog r.2)),
  ("c13b_window_bad", fun a => do     -- the historical evaluation order (negative control of the harness)
    let ds ← a.nats "ds"
    let n ← a.nat "n"
    let r := windowDownBadL ds (a.optInts "strord") (← a.int "strord0") n n (n + 1) (← a.nat "idx0") [] []
    pure ([("model", ofNatList r.1)] ++ c13bLog r.2)),
  ("c13b_rank", fun a => do
    let ds ← a.nats "ds"
    match rankL ds with
    | none => throw "fuel"
    | some r => pure ([("model", r.1.1), ("n", #[(r.1.2 : Int)])] ++ c13bLog r.2)),
  ("c13b_loop_indices", fun a => do
    let ds ← a.nats "ds"
    match loopIndicesL ds with
    | none => throw "fuel"
    | some r => pure ([("model", ofNatList r.1)] ++ c13bLog r.2)),
  ("c13b_idxs_seq", fun a => do
    let ds ← a.nats "ds"
    let r := idxsSeqL ds (← a.natList "pits")
    pure ([("model", ofNatList r.1)] ++ c13bLog (r.2 ++ (upsOfL ds 0).2)))
]

end Pf.Ops
