import PfVerif.Model.C01_ext
import Driver.Proto
/-! Driver ops of the C01 extension (`c01x.*`): per-cell helpers of the D8 / LDD / NEXTXY formats and
`core.headwater_indices` / `core.confluence_indices`. `model.*` = loop-for-loop model, `spec.*` = declarative
definitions over the hand-typed code tables of `Pf.Fd.Spec`. -/
namespace Pf.Ops
open Pf.Proto Pf.Fd

namespace C01x

/-- lists of lists travel as a length array and the concatenation -/
def nested (pre : String) (ls : List (List Nat)) : Out :=
  [(pre ++ ".len", (ls.map fun l => (l.length : Int)).toArray), (pre, (ls.flatten.map Int.ofNat).toArray)]

end C01x

open C01x in
def opsC01ext : List (String × Op) := [
  /- `core_d8|core_ldd._downstream_idx(idx0, flat, shape)` and `._upstream_idx(idx0, flat, shape)` for every
  cell `idx0` of one raster. `ft`: 1 = d8, 2 = ldd. `spec.defined[i]` = the property gives cell `i` a meaning for
  `_downstream_idx` (legal code other than nodata). -/
  ("c01x.cells", fun a => do
    let ft ← a.nat "ft"
    let nrow ← a.nat "nrow"
    let ncol ← a.nat "ncol"
    let codes ← a.nats "codes"
    let n := nrow * ncol
    let (drdc, us, read, alpha, mv) ←
      match ft with
      | 1 => pure (d8Drdc, d8Us, Spec.readD8 ncol codes, Spec.d8Alphabet, Spec.d8Nodata)
      | 2 => pure (lddDrdc, lddUs, Spec.readLdd ncol codes, Spec.lddAlphabet, Spec.lddNodata)
      | _ => throw "bad-ft"
    let cells := List.range n
    pure ([("model.down", ofNatList (cells.map (downstreamIdx drdc nrow ncol codes))),
           ("spec.down", ofNatList (cells.map (Spec.downOf nrow ncol read))),
           ("spec.defined", ofBools (cells.map fun i => alpha.contains codes[i]! && codes[i]! != mv).toArray)] ++
          nested "model.up" (cells.map (upstreamIdx us nrow ncol codes)) ++
          nested "spec.up" (cells.map (Spec.upOf nrow ncol read)))),
  /- `ispit` / `isnodata` of the three formats on arrays of values (`u8`: 0..255, `i32`: any) -/
  ("c01x.codes", fun a => do
    let u8 ← a.nats "u8"
    let i32 ← a.ints "i32"
    pure [("model.d8.ispit", ofBools (u8.map d8IsPit)), ("model.d8.isnodata", ofBools (u8.map d8IsNodata)),
          ("model.ldd.ispit", ofBools (u8.map lddIsPit)), ("model.ldd.isnodata", ofBools (u8.map lddIsNodata)),
          ("model.xy.ispit", ofBools (i32.map xyIsPit)), ("model.xy.isnodata", ofBools (i32.map xyIsNodata)),
          ("spec.d8.ispit", ofBools (u8.map fun v => Spec.d8Pits.contains v)),
          ("spec.d8.isnodata", ofBools (u8.map fun v => v == Spec.d8Nodata)),
          ("spec.ldd.ispit", ofBools (u8.map fun v => Spec.lddPits.contains v)),
          ("spec.ldd.isnodata", ofBools (u8.map fun v => v == Spec.lddNodata)),
          ("spec.xy.ispit", ofBools (i32.map fun v => Spec.xyPits.contains v)),
          ("spec.xy.isnodata", ofBools (i32.map fun v => v == Spec.xyNodata))]),
  /- `core.headwater_indices(idxs_ds, mask)` / `core.confluence_indices(idxs_ds, mask)`; `closed` = no cell of
  the network drains into a missing cell (then `spec.conf` is what the property fixes) -/
  ("c01x.degree", fun a => do
    let ds ← a.nats "ds"
    let mask := a.optBools "mask"
    let closed := (List.range ds.size).all fun i =>
      decide (ds[i]! ≤ ds.size) && (!decide (ds[i]! < ds.size) || decide (ds[ds[i]!]! < ds.size))
    pure [("model.head", ofNatList (headwaterIndices ds mask)), ("model.conf", ofNatList (confluenceIndices ds mask)),
          ("spec.head", ofNatList (Spec.headwaters ds mask)), ("spec.conf", ofNatList (Spec.confluences ds mask)),
          ("spec.inflow", ((List.range ds.size).map fun i => (Spec.inflowCount ds mask i : Int)).toArray),
          ("closed", ofBool closed)])
]
end Pf.Ops
