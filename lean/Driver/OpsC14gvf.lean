import PfVerif.Model.C14_gvf
import Driver.Proto
/-! Driver ops of the extension C14_gvf (`rivers.rivdph_gvf`, the `method='gvf'` branch of
`Flwdir.river_depth`). Floats travel as binary64 bit patterns (unsigned, `0 ≤ b < 2^64`).

* `c14g_gvf`: `model.*` = the loop-for-loop model fed with the recorded oracle answers (final depths, the
  predicted solver calls with all their arguments, accepted flags, number of missing / unused answers);
  `spec.*` = independent declarative definitions the theorems of `Props/C14_gvf.lean` relate to the model:
  `spec.cells` (the callers of `seq`, `n_iter` times), `spec.out` (last accepted call wins, read off the call
  list), `spec.rec` (iterating the shared `sweepDown` with the position-indexed answers), `spec.frame`.
* `c14g_farith`: the float layer alone (`a - b`, `a / b`, `<`, `<=`, Python `max`), validated against numpy. -/
namespace Pf.Ops
open Pf.Proto Pf.C14g

def opsC14gvf : List (String × Op) := [
  ("c14g_gvf", fun a => do
    let ds ← a.nats "ds"
    let seq ← a.natList "seq"
    let nIter ← a.nat "n_iter"
    let P : GvfParams := {
      zs := ← a.nats "zs", rivdst := ← a.nats "rivdst", qbankfull := ← a.nats "qbankfull",
      rivwth := ← a.nats "rivwth", manning := ← a.nats "manning",
      minSlp := ← a.nat "min_rivslp", minDph := ← a.nat "min_rivdph" }
    let rivdph ← a.nats "rivdph"
    let h1 ← a.nats "orc_h1"
    let ok ← a.bools "orc_ok"
    let orc : List (Ans Nat) := (List.range h1.size).map fun k => ⟨h1[k]!, ok[k]!⟩
    let K := gvfKernel P ds
    let s := rivdphGvf P ds seq nIter rivdph orc
    let evs := s.ev.toArray
    let m := (callers K ds seq).length
    -- spec: position-indexed iteration of the shared sweepDown
    let specRec := (List.range nIter).foldl
      (fun out t => sweepDown ds (gStep K ds seq (orc.drop (t * m))) seq out) rivdph
    let specOut := (Array.range rivdph.size).map fun i => valueAfter K rivdph s.ev i
    let frame := (List.range rivdph.size).all fun i =>
      (seq.contains i && eligible K ds i) || s.out[i]! == rivdph[i]!
    pure [("model.out", ofNats s.out),
          ("model.call.cell", ofNats (evs.map (·.cell))),
          ("model.call.h0", ofNats (evs.map (·.h0))),
          ("model.call.dx", ofNats (evs.map (·.ext.dx))),
          ("model.call.slp", ofNats (evs.map (·.ext.slp))),
          ("model.call.manning", ofNats (evs.map (·.ext.manning))),
          ("model.call.q", ofNats (evs.map (·.ext.q))),
          ("model.call.w", ofNats (evs.map (·.ext.w))),
          ("model.call.acc", ofBools (evs.map (·.acc))),
          ("model.missing", #[(missing s.ev : Int)]),
          ("model.unused", #[(s.orc.length : Int)]),
          ("spec.cells", ofNatList (repeatList nIter (callers K ds seq))),
          ("spec.out", ofNats specOut),
          ("spec.rec", ofNats specRec),
          ("spec.frame", ofBool frame),
          ("topo", ofBool (isTopo ds seq))]),
  ("c14g_farith", fun a => do
    let x ← a.nats "a"
    let y ← a.nats "b"
    let r := Array.range x.size
    pure [("sub", ofNats (r.map fun k => fSub x[k]! y[k]!)),
          ("div", ofNats (r.map fun k => fDiv x[k]! y[k]!)),
          ("lt", ofBools (r.map fun k => fLt x[k]! y[k]!)),
          ("le", ofBools (r.map fun k => fLe x[k]! y[k]!)),
          ("max", ofNats (r.map fun k => pyMax x[k]! y[k]!)),
          ("abs", ofNats (r.map fun k => fAbs x[k]!))])
]
end Pf.Ops
