import PfVerif.Model.C16_mach
import Driver.Proto
/-! Driver ops of the C16 extension `C16_mach`: the machine-level sweeps / trace and the index
arithmetic sites, run on the RAW machine values (sent as unsigned integers) of real NumPy index arrays,
next to the `Nat` models on the decoded arrays. -/
namespace Pf.Ops
open Pf.Proto Pf.C16m

def c16mTy (a : Args) : Except String IdxTy := do
  let w ← a.nat "w"
  let s ← a.nat "signed"
  pure ⟨w, s != 0⟩

def c16mBV (t : IdxTy) (v : Array Int) : Array (BitVec t.w) := v.map (BitVec.ofInt t.w)

def c16mRaw {w : Nat} (v : Array (BitVec w)) : Array Int := v.map fun x => (x.toNat : Int)

/-- every array entry is the sentinel or in range, every entry of the order is a cell, the dtype has
capacity, sizes agree -/
def c16mWf (t : IdxTy) (n : Nat) (dsM : Array (BitVec t.w)) (seqM : List (BitVec t.w)) : Bool :=
  decide (Cap t n) && dsM.size == n && dsM.all (fun v => decide (WfM t n v)) &&
    seqM.all (fun v => decide (v.toNat < n))

/-- the hypotheses `hseq`, `hsafe` of the refinement theorems on the decoded arrays -/
def c16mHyp (n : Nat) (ds : Array Nat) (seq : List Nat) (outSize : Nat) : Bool :=
  seq.all fun i => decide (i < n) && (decide (ds[i]! < n) || decide (outSize ≤ n))

def opsC16mach : List (String × Op) := [
  /- the three sweep kernels on one network under one dtype -/
  ("c16m_sweep", fun a => do
    let t ← c16mTy a
    let n ← a.nat "n"
    let dsM := c16mBV t (← a.ints "ds")
    let seqM := (c16mBV t (← a.ints "seq")).toList
    let data ← a.ints "data"
    let nodata ← a.int "nodata"
    let absDs ← a.nats "abs_ds"
    let absSeq ← a.natList "abs_seq"
    let ds := dsM.map (dec t n)
    let seq := seqM.map (dec t n)
    let encOk := absDs.map (enc t n) == dsM && absSeq.map (enc t n) == seqM
    let decOk := ds == absDs && seq == absSeq
    pure [("wf", ofBool (c16mWf t n dsM seqM)), ("enc_ok", ofBool encOk), ("dec_ok", ofBool decOk),
          ("hyp", ofBool (c16mHyp n ds seq data.size)), ("topo", ofBool (isTopo ds seq)),
          ("mv", #[(t.mv.toNat : Int)]), ("mv.val", #[val t t.mv]),
          ("mach.fill", fillnodataUpstreamM dsM seqM data nodata),
          ("nat.fill", fillnodataUpstream ds seq data nodata),
          ("mach.accu", accufluxM dsM seqM data nodata),
          ("nat.accu", accuflux ds seq data nodata),
          ("mach.accuds", accufluxDsM dsM seqM data nodata),
          ("nat.accuds", accufluxDs ds seq data nodata)]),
  /- `core._trace` on a machine array (downstream or main-upstream indices, missing values inside) -/
  ("c16m_trace", fun a => do
    let t ← c16mTy a
    let n ← a.nat "n"
    let nxtM := c16mBV t (← a.ints "nxt")
    let v0 := BitVec.ofInt t.w (← a.int "idx0")
    let mask := a.optBools "mask"
    let maxLen := a.optInt "maxlen"
    let fuel ← a.nat "fuel"
    let absNxt ← a.nats "abs_nxt"
    let nxt := nxtM.map (dec t n)
    let wf := decide (Cap t n) && nxtM.size == n && nxtM.all (fun v => decide (WfM t n v)) &&
      decide (v0.toNat < n)
    let encOk := absNxt.map (enc t n) == nxtM
    let m := traceFromM nxtM t.mv mask maxLen (fun _ _ => 1) fuel v0
    let s := traceFrom nxt mask maxLen (fun _ _ => 1) fuel (dec t n v0)
    let (mok, mp, md) := match m with
      | some (p, d) => (true, c16mRaw p.toArray, d)
      | none => (false, #[], 0)
    let (sok, sp, sd) := match s with
      | some (p, d) => (true, ofNatList p, d)
      | none => (false, #[], 0)
    let mdec : Array Int := match m with
      | some (p, _) => ofNatList (p.map (dec t n))
      | none => #[]
    pure [("wf", ofBool wf), ("enc_ok", ofBool encOk),
          ("mach.ok", ofBool mok), ("mach.path", mp), ("mach.path.dec", mdec), ("mach.dist", #[md]),
          ("nat.ok", ofBool sok), ("nat.path", sp), ("nat.dist", #[sd])]),
  /- the arithmetic sites on two machine values `a`, `b` (cells of a raster with `ncol` columns) -/
  ("c16m_arith", fun a => do
    let t ← c16mTy a
    let n ← a.nat "n"
    let va := BitVec.ofInt t.w (← a.int "a")
    let vb := BitVec.ofInt t.w (← a.int "b")
    let ncol ← a.nat "ncol"
    let dr ← a.int "dr"
    let dc ← a.int "dc"
    let subncol ← a.nat "subncol"
    let cellsize ← a.nat "cellsize"
    let cncol ← a.nat "cncol"
    let r ← a.nat "r"
    let c ← a.nat "c"
    let ncol64 := BitVec.ofNat 64 ncol
    let lin := linIdx64 (BitVec.ofNat 64 r) (BitVec.ofNat 64 c) ncol64
    let d4T := localD4T t va vb ncol
    let d4N := localD4N t va vb ncol64
    let unify : Int := match numpyPromote t i64 with
      | some u => if u = i64 then 1 else 2
      | none => 0
    let nbTT := numbaScalar t t
    let nbT64 := numbaScalar t i64
    let jit := absDiffJit t va vb
    pure [("cap", ofBool (decide (Cap t n))),
          ("dec.a", #[(dec t n va : Int)]), ("dec.b", #[(dec t n vb : Int)]),
          ("val.a", #[val t va]), ("val.b", #[val t vb]),
          ("lt", ofBool (ltM t va vb)), ("lt.mv", ofBool (ltM t t.mv va)),
          ("eq", ofBool (va == vb)), ("is_mv", ofBool (va == t.mv)),
          ("to_i64.a", #[(toI64 t va).toInt]), ("to_i64.mv", #[(toI64 t t.mv).toInt]),
          ("sub_T", #[((va - vb).toNat : Int)]), ("sub_T.val", #[val t (va - vb)]),
          ("sub_64", #[(toI64 t va - toI64 t vb).toInt]),
          ("absdiff_T", #[val t (absDiffT t va vb)]),
          ("absdiff_64", #[(absDiff64 t va vb).toInt]),
          ("row_T", #[val t (rowT t va ncol)]), ("col_T", #[val t (colT t va ncol)]),
          ("row_64", #[(row64 t va ncol64).toInt]), ("col_64", #[(col64 t va ncol64).toInt]),
          ("nbr_T", #[val t (nbrT t va ncol dr dc)]),
          ("nbr_64", #[(nbr64 t va ncol64 dr dc).toInt]),
          ("lin64", #[lin.toInt]), ("store", #[((storeIdx t lin).toNat : Int)]),
          ("store.mv", #[((storeIdx t (BitVec.ofInt 64 (-1))).toNat : Int)]),
          ("subidx_P", #[(subidx2idx t true va subncol cellsize cncol).toInt]),
          ("subidx_N", #[(subidx2idx t false va subncol cellsize cncol).toInt]),
          ("ind8", ofBool (inD8 t va vb ncol)),
          ("d4list_T", (d4List va (BitVec.ofNat t.w ncol)).toArray.map (val t)),
          ("diaglist_T", (diagList va (BitVec.ofNat t.w ncol)).toArray.map (val t)),
          ("d4_T.ok", ofBool d4T.isSome), ("d4_T", ((d4T.getD []).map (val t)).toArray),
          ("d4_N.ok", ofBool d4N.isSome), ("d4_N", ((d4N.getD []).map BitVec.toInt).toArray),
          ("unify", #[unify]),
          ("numba.TT", #[(nbTT.w : Int), if nbTT.signed then 1 else 0]),
          ("numba.T64", #[(nbT64.w : Int), if nbT64.signed then 1 else 0]),
          ("absdiff_jit", #[if t.signed then jit.toInt else (jit.toNat : Int)])])
]

end Pf.Ops
