/-! Line protocol of the model driver (core Lean only).

request : `<id> <op> <k> {<name> <len> <int>*}^k`
answer  : `<id> ok <k> {<name> <len> <int>*}^k`   or   `<id> err <token>`
All values are integers; rationals travel as two arrays `<name>.n` / `<name>.d`. -/
namespace Pf.Proto

structure Arg where
  name : String
  vals : Array Int
  deriving Repr

abbrev Args := List Arg
abbrev Out := List (String × Array Int)

def parseArgs : Nat → List String → Option Args
  | 0, _ => some []
  | k+1, name :: len :: rest =>
    match len.toNat? with
    | none => none
    | some l =>
      let (vs, rest') := (rest.take l, rest.drop l)
      if vs.length ≠ l then none else
      match vs.mapM String.toInt? with
      | none => none
      | some ints =>
        match parseArgs k rest' with
        | none => none
        | some more => some ({ name := name, vals := ints.toArray } :: more)
  | _, _ => none

def parseLine (line : String) : Option (String × String × Args) :=
  match (line.splitOn " ").filter (· ≠ "") with
  | id :: op :: k :: rest =>
    match k.toNat? with
    | none => none
    | some k => (parseArgs k rest).map fun a => (id, op, a)
  | _ => none

def Args.get? (a : Args) (name : String) : Option (Array Int) :=
  (a.find? (·.name == name)).map (·.vals)

def Args.ints (a : Args) (name : String) : Except String (Array Int) :=
  match Args.get? a name with
  | some v => pure v
  | none => throw s!"missing:{name}"

def Args.int (a : Args) (name : String) : Except String Int := do
  let v ← Args.ints a name
  if h : 0 < v.size then pure v[0] else throw s!"empty:{name}"

def Args.nat (a : Args) (name : String) : Except String Nat := do
  pure (← Args.int a name).toNat

def Args.nats (a : Args) (name : String) : Except String (Array Nat) := do
  pure ((← Args.ints a name).map Int.toNat)

def Args.natList (a : Args) (name : String) : Except String (List Nat) := do
  pure ((← Args.ints a name).toList.map Int.toNat)

def Args.bools (a : Args) (name : String) : Except String (Array Bool) := do
  pure ((← Args.ints a name).map (· != 0))

/-- optional array: absent ⇒ none -/
def Args.optBools (a : Args) (name : String) : Option (Array Bool) :=
  (Args.get? a name).map fun v => v.map (· != 0)

def Args.optInts (a : Args) (name : String) : Option (Array Int) := Args.get? a name

def Args.optInt (a : Args) (name : String) : Option Int :=
  match Args.get? a name with
  | some v => if h : 0 < v.size then some v[0] else none
  | none => none

def ofNats (v : Array Nat) : Array Int := v.map Int.ofNat
def ofNatList (v : List Nat) : Array Int := (v.map Int.ofNat).toArray
def ofBools (v : Array Bool) : Array Int := v.map fun b => if b then 1 else 0
def ofBool (b : Bool) : Array Int := #[if b then 1 else 0]

def renderOut (id : String) (o : Out) : String :=
  let parts := o.map fun (n, v) =>
    n ++ " " ++ toString v.size ++ v.foldl (fun s x => s ++ " " ++ toString x) ""
  id ++ " ok " ++ toString o.length ++ parts.foldl (fun s p => s ++ " " ++ p) ""

abbrev Op := Args → Except String Out

end Pf.Proto
