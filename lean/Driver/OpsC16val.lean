import PfVerif.Model.C16_val
import Driver.Proto
/-! Driver ops of the C16 extension `C16_val`: the unbounded kernel models next to the machine reading of
the fixed-width VALUE arrays (`store` / `load` / `Fits` of `Model/C16_val.lean`), run on the networks and on
the RAW stored values (sent as unsigned integers) of the real kernels' output arrays. -/
namespace Pf.Ops
open Pf.Proto Pf.C16m Pf.C16v

def c16vTy (a : Args) : Except String ValTy := do
  let w ← a.nat "w"
  let s ← a.nat "signed"
  pure ⟨w, s != 0⟩

/-- what the array of dtype `t` holds after the unbounded values have been stored -/
def c16vPred (t : ValTy) (v : Array Int) : Array Int := loadArr t (storeArr t v)

/-- raw machine values (unsigned) → numbers of the dtype -/
def c16vLoadRaw (t : ValTy) (raw : Array Int) : Array Int := raw.map fun x => load t (BitVec.ofInt t.w x)

def c16vMask (a : Args) : Option (Array Bool) := a.optBools "mask"

def c16vMaxNat (v : Array Nat) : Nat := v.foldl max 0

def opsC16val : List (String × Op) := [
  /- the primitive: store / load / fits / wrapZ of arbitrary integers at a value dtype -/
  ("c16v_store", fun a => do
    let t ← c16vTy a
    let v ← a.ints "vals"
    pure [("lo", #[lo t]), ("hi", #[hi t]),
          ("fits", v.map fun x => if decide (Fits t x) then 1 else 0),
          ("loaded", c16vPred t v), ("wrap", v.map (wrapZ t)),
          ("raw", (storeArr t v).map fun b => (b.toNat : Int)),
          ("inc", v.map fun x => load t (incM (store t x)))]),
  /- `core.rank`: model ranks, their bound, the predicted `int32` content, the certificate on the
  implementation's stored values, the machine counter at the largest rank -/
  ("c16v_rank", fun a => do
    let t ← c16vTy a
    let ds ← a.nats "ds"
    let raw ← a.ints "raw"
    let n := ds.size
    let impl := c16vLoadRaw t raw
    match rank ds with
    | none => pure [("model.ok", ofBool false)]
    | some (r, c) =>
      let mx := r.foldl max 0
      pure [("model.ok", ofBool true), ("model.rank", r), ("model.n", #[(c : Int)]),
            ("bound_ok", ofBool (r.all fun x => decide (-9999 ≤ x ∧ x ≤ (n : Int) - 1) && decide (c ≤ n))),
            ("fits", ofBool (fitsArrB t r)), ("pred", c16vPred t r),
            ("impl.loaded", impl), ("impl.cert", ofBool (checkRankCert ds impl)),
            ("max", #[mx]),
            ("counter", #[load t (chainCountM (store t (-1)) (mx.toNat + 1))]),
            ("dist.counter", #[load t (chainCountM (store t 0) mx.toNat)])]),
  /- `core.upstream_count` -/
  ("c16v_nup", fun a => do
    let t ← c16vTy a
    let ds ← a.nats "ds"
    let mask := c16vMask a
    let n := ds.size
    let nup := upstreamCount ds mask
    pure [("model.nup", nup), ("fits", ofBool (fitsArrB t nup)), ("pred", c16vPred t nup),
          ("bound_ok", ofBool (nup.all fun x => decide (-9 ≤ x ∧ x ≤ (n : Int))))]),
  /- `streams.stream_order` (classic; `uint8` loop = `classicOrderW 8`) and `streams.strahler_order` -/
  ("c16v_order", fun a => do
    let ds ← a.nats "ds"
    let seq ← a.natList "seq"
    let usMain ← a.nats "usmain"
    let w ← a.nat "w"
    let mask := c16vMask a
    let n := ds.size
    let t : ValTy := ⟨w, false⟩
    let cl := classicOrder ds seq usMain mask
    let clW := classicOrderW w ds seq usMain mask
    let st := strahlerOrder ds seq mask
    let clZ : Array Int := cl.map Int.ofNat
    let stZ : Array Int := st.map Int.ofNat
    pure [("topo", ofBool (isTopo ds seq)),
          ("classic", ofNats cl), ("classic.w", ofNats clW), ("classic.pred", c16vPred t clZ),
          ("classic.fits", ofBool (fitsArrB t clZ)), ("classic.max", #[(c16vMaxNat cl : Int)]),
          ("classic.bound_ok", ofBool (cl.all fun x => decide (x ≤ n))),
          ("strahler", ofNats st), ("strahler.pred", c16vPred t stZ), ("strahler.fits", ofBool (fitsArrB t stZ)),
          ("strahler.max", #[(c16vMaxNat st : Int)]),
          ("strahler.bound_ok", ofBool (st.all fun x => decide (x = 0 ∨ 2 ^ (x - 1) ≤ n)))]),
  /- Pfafstetter seeds `pfaf0 + (i+1) * 10^depth` of the given pit numbers -/
  ("c16v_pfaf_seed", fun a => do
    let t ← c16vTy a
    let depth ← a.nat "depth"
    let is ← a.nats "pits"
    let seeds : Array Int := is.map (pfafSeed depth)
    let stored := c16vPred t seeds
    pure [("base", #[pfBase depth]), ("seed", seeds),
          ("fits", seeds.map fun x => if decide (Fits t x) then 1 else 0),
          ("stored", stored), ("code", stored.map fun v => v % (10 : Int) ^ depth),
          ("code.unbounded", seeds.map fun v => v % (10 : Int) ^ depth)]),
  /- the whole Pfafstetter kernel (model of C18) with the capacity check of its `pfaf_branch` array -/
  ("c16v_pfaf_net", fun a => do
    let t ← c16vTy a
    let ds ← a.nats "ds"
    let seq ← a.natList "seq"
    let pits ← a.natList "pits"
    let usMain ← a.nats "usmain"
    let uparea ← a.ints "uparea"
    let depth ← a.nat "depth"
    let mask := c16vMask a
    match pfBranch pits ds seq usMain uparea mask depth, subbasinsPfafstetter pits ds seq usMain uparea mask depth with
    | some (br, _, _, _), some (lab, outl, tie, ok) =>
      pure [("model.ok", ofBool true), ("branch", br), ("branch.fits", ofBool (fitsArrB t br)),
            ("branch.pred", c16vPred t br), ("labels", lab), ("labels.fits", ofBool (fitsArrB t lab)),
            ("outlets", ofNatList outl), ("tie", ofBool tie), ("side", ofBool ok),
            ("seeds.fit", ofBool ((List.range pits.length).all fun i => decide (Fits t (pfafSeed depth i)))),
            ("topo", ofBool (isTopo ds seq))]
    | _, _ => pure [("model.ok", ofBool false)]),
  /- `basins.basins` with the default ids `arange(1, npits+1, dtype=uint32)` -/
  ("c16v_basins", fun a => do
    let t ← c16vTy a
    let ds ← a.nats "ds"
    let seq ← a.natList "seq"
    let pits ← a.natList "pits"
    let n := ds.size
    let seeded : Array Int := (pits.zipIdx).foldl (fun (b : Array Int) (p : Nat × Nat) => b.setIfInBounds p.1 ((p.2 : Int) + 1))
      (Array.replicate n 0)
    let lab := fillnodataUpstream ds seq seeded 0
    pure [("labels", lab), ("fits", ofBool (fitsArrB t lab)), ("pred", c16vPred t lab),
          ("bound_ok", ofBool (lab.all fun x => decide (0 ≤ x ∧ x ≤ (pits.length : Int)))),
          ("topo", ofBool (isTopo ds seq))])
]

end Pf.Ops
