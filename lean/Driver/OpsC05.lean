import PfVerif.Model.C05
import Driver.Proto
namespace Pf.Ops
open Pf.Proto

def sortPairs (l : List (Int × Nat)) : List (Int × Nat) :=
  (l.toArray.qsort fun a b => a.1 < b.1 || (a.1 == b.1 && a.2 < b.2)).toList

def opsC05 : List (String × Op) := [
  ("basins", fun a => do
    let ds ← a.nats "ds"
    let seq ← a.natList "seq"
    let outlets ← a.natList "outlets"
    let ids := (← a.ints "ids").toList
    let model := basinsModel ds seq outlets ids
    let seed := seedLabels ds.size outlets ids
    -- declarative oracle, independent of the cell order: walk downstream from every valid cell
    let mut spec : Array Int := Array.replicate ds.size 0
    for i in [0:ds.size] do
      if isValid ds i then
        match basinSpec ds outlets ids i with
        | some v => spec := spec.setIfInBounds i v
        | none => spec := spec.setIfInBounds i (-999999)   -- walk did not end: cell on a loop
      else spec := spec.setIfInBounds i seed[i]!
    pure [("model", model), ("spec", spec), ("topo", ofBool (isTopo ds seq))]),
  ("region_outlets", fun a => do
    let ds ← a.nats "ds"
    let seq ← a.natList "seq"
    let regions ← a.ints "regions"
    let m := sortPairs (regionOutletsRaw ds seq regions)
    let allValid := (List.range ds.size).filter (isValid ds)
    let s := sortPairs (regionOutletsRaw ds allValid regions)
    pure [("model.lbs", (m.map (·.1)).toArray), ("model.idxs", ofNatList (m.map (·.2))),
          ("spec.lbs", (s.map (·.1)).toArray), ("spec.idxs", ofNatList (s.map (·.2)))])
]
end Pf.Ops
