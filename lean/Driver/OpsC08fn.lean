import PfVerif.Model.C08
import PfVerif.Model.C18
import Driver.Proto
/-! Driver ops of the C08_fn extension (`c08fn.*`): the hand-written models of the kernels that `harness/extract_fn.py`
(fragment 2b) also translates mechanically (`model.*`: `streams.strahler_order`, `streams.stream_order`,
`core.pit_indices`, `basins._tributaries`) and independent declarative definitions (`spec.*`: Strahler recursion over
the upstream tree, classic order by the downstream walk with brute-force inflow counts). The driver never imports
`Generated`. -/
namespace Pf.Ops
open Pf.Proto

/-- every valid cell occurs in `seq` -/
def c08fnCovers (ds : Array Nat) (seq : List Nat) : Bool :=
  let seen := seq.foldl (fun (s : Array Bool) i => s.setIfInBounds i true) (Array.replicate ds.size false)
  (List.range ds.size).all fun i => !(isValid ds i) || seen[i]!

def opsC08fn : List (String × Op) := [
  /- `streams.strahler_order(idxs_ds, seq, mask)` and `streams.stream_order(idxs_ds, seq, idxs_us_main, mask, mv)` -/
  ("c08fn.orders", fun a => do
    let ds ← a.nats "ds"
    let seq ← a.natList "seq"
    let mask := a.optBools "mask"
    let usMain ← a.nats "usmain"
    if usMain.size ≠ ds.size then throw "size"
    if seq.any (fun i => i ≥ ds.size) then throw "seq-range"
    if ds.any (fun d => d > ds.size) then throw "ds-range"
    match mask with
    | some m => if m.size ≠ ds.size then throw "mask-size"
    | none => pure ()
    let cells := List.range ds.size
    let nupS := (cells.map (nupSpec ds mask)).toArray
    let specClassic : List Int := cells.map fun i =>
      if isValid ds i then
        match classicWalk ds mask (nupS[·]!) (usMain[·]!) (ds.size + 1) i with
        | some v => Int.ofNat v
        | none => -1
      else 0
    pure [("model.strahler", ofNats (strahlerOrder ds seq mask)),
          ("spec.strahler", ofNatList (cells.map (strahlerSpec ds mask))),
          ("model.classic", ofNats (classicOrder ds seq usMain mask)),
          ("model.classic18", streamOrderClassic ds seq usMain mask),
          ("spec.classic", specClassic.toArray),
          ("closed", ofBool (maskClosed ds mask)),
          ("topo", ofBool (isTopo ds seq)), ("cover", ofBool (c08fnCovers ds seq))]),
  /- `core.pit_indices(idxs_ds)`, `basins._tributaries(idxs_ds, seq, strord)` -/
  ("c08fn.scans", fun a => do
    let ds ← a.nats "ds"
    let seq ← a.natList "seq"
    let strord ← a.ints "strord"
    if strord.size ≠ ds.size then throw "size"
    if seq.any (fun i => i ≥ ds.size) then throw "seq-range"
    pure [("model.pits", ofNatList (pitIndices ds)), ("model.trib", ofNatList (tributaries ds seq strord))])
]
end Pf.Ops
