import PfVerif.Model.C11_fn
import Driver.Proto
/-! Driver op of the C11_fn extension (`c11fn.trace`): `core._trace` called with the CODE's own flags
(`real_length`, optional `ncol`, optional mask / `max_length`) - the hand-written model `traceFrom` with the step
function those flags select (`genStep`, `model.*`) and the declarative least-stopping-index specification
(`specTrace`, `spec.*`). `gis_utils.distance` is the projected closed form `distProj` when `xres`/`yres` are sent,
otherwise the table `steps` (one length per link `i → nxt[i]`: the implementation's own values, scaled).
The driver never imports `Generated`. -/
namespace Pf.Ops
open Pf.Proto

def opsC11fn : List (String × Op) := [
  ("c11fn.trace", fun a => do
    let nxt ← a.nats "nxt"
    let starts ← a.natList "starts"
    let mask := a.optBools "mask"
    let maxLen := a.optInt "max_length"
    let fuel ← a.nat "fuel"
    let real := (← a.nat "real") ≠ 0
    let one ← a.int "one"
    let ncol : Option Nat := (a.optInt "ncol").map Int.toNat
    match mask with
    | some m => if m.size ≠ nxt.size then throw "mask-size"
    | none => pure ()
    if starts.any (fun s => s ≥ nxt.size) then throw "start-range"
    let distance : Nat → Nat → Nat → Bool → Unit → Int ←
      match a.optInt "xres", a.optInt "yres" with
      | some xres, some yres => pure (fun i j c _ _ => distProj c xres yres i j)
      | _, _ => do
        let tab ← a.ints "steps"
        pure (fun i _ _ _ _ => tab[i]!)
    let step := genStep ncol real false () one distance
    let mut mok : Array Int := #[]
    let mut mpaths : Array Int := #[]
    let mut mplen : Array Int := #[]
    let mut mdist : Array Int := #[]
    let mut sok : Array Int := #[]
    let mut spaths : Array Int := #[]
    let mut splen : Array Int := #[]
    let mut sdist : Array Int := #[]
    for s in starts do
      match traceFrom nxt mask maxLen step fuel s with
      | none => mok := mok.push 0; mplen := mplen.push 0; mdist := mdist.push 0
      | some (p, d) =>
        mok := mok.push 1; mplen := mplen.push p.length; mdist := mdist.push d
        mpaths := mpaths ++ ofNatList p
      match specTrace nxt mask maxLen step fuel s with
      | none => sok := sok.push 0; splen := splen.push 0; sdist := sdist.push 0
      | some (p, d) =>
        sok := sok.push 1; splen := splen.push p.length; sdist := sdist.push d
        spaths := spaths ++ ofNatList p
    pure [("model.ok", mok), ("model.paths", mpaths), ("model.plen", mplen), ("model.dist", mdist),
          ("spec.ok", sok), ("spec.paths", spaths), ("spec.plen", splen), ("spec.dist", sdist)])
]
end Pf.Ops
