import PfVerif.Model.C17_ext
import PfVerif.Generated.Tables
import Driver.OpsC17
/-! Driver ops of the C17 extension (`reggrid_dx/dy/area`, bounds round trips, sums over `area_grid`,
`get_edge` with any structuring element).  Rationals travel as `<name>.n` / `<name>.d` (helpers of `OpsC17`). -/
namespace Pf.Ops
open Pf.Proto Pf.C17 Pf.C17x

def c17xFlat (g : List (List Rat)) : List Rat := g.foldr (· ++ ·) []

/-- resolution written down directly: `|last - first| / (n - 1)` (`none` for fewer than two entries) -/
def c17xSpecRes (v : Array Rat) : Option Rat :=
  if v.size < 2 then none else some (absQ ((v[v.size - 1]! - v[0]!) / ((v.size - 1 : Nat) : Rat)))

def opsC17ext : List (String × Op) := [
  -- reggrid_dx (kind 0) / reggrid_dy (kind 1): `key`, `val` = the implementation's degree_metres_x / _y at `lats`
  -- reggrid_area (kind 2): `key`, `val` = the implementation's sin(radians(.)) at lat +- yres/2, `pi180`
  ("c17x_reggrid", fun a => do
    let lats ← ratsArg a "lats"
    let lons ← ratsArg a "lons"
    let kind ← a.nat "kind"
    let keys ← ratsArg a "key"
    let vals ← ratsArg a "val"
    if keys.size ≠ vals.size then throw "tablesize"
    let f := lookupQ keys vals
    let sx := c17xSpecRes lons
    let sy := c17xSpecRes lats
    let R2 : Rat := ((Pf.Generated.earthRadius * Pf.Generated.earthRadius : Nat) : Rat)
    let (model, spec) ← (match kind with
      | 0 => do
        for l in lats do
          if !hasKey keys l then throw "missing-key"
        pure (reggridDx f lats.toList lons.toList,
          sx.map fun xr => lats.toList.map fun l => List.replicate lons.size (f l * xr))
      | 1 => do
        for l in lats do
          if !hasKey keys l then throw "missing-key"
        pure (reggridDy f lats.toList lons.toList,
          sy.map fun yr => lats.toList.map fun l => List.replicate lons.size (f l * yr))
      | _ => do
        let p ← ratsArg a "pi180"
        if p.size ≠ 1 then throw "pisize"
        match sx, sy with
        | some xr, some yr =>
          for l in lats do
            if !hasKey keys (l - yr / 2) || !hasKey keys (l + yr / 2) then throw "missing-key"
          -- spherical area between the cell's two edge latitudes, `xr` degrees wide, radius typed in
          pure (reggridArea (cellareaM R2 p[0]! f) lats.toList lons.toList,
            some (lats.toList.map fun l => List.replicate lons.size
              (specR2 * (p[0]! * xr) * (f (l + yr / 2) - f (l - yr / 2)))))
        | _, _ => pure (reggridArea (cellareaM R2 p[0]! f) lats.toList lons.toList, none)
      : Except String (Option (List (List Rat)) × Option (List (List Rat))))
    let enc (name : String) (g : Option (List (List Rat))) : Out :=
      match g with
      | none => [(name ++ ".nan", #[1])]
      | some g => [(name ++ ".nan", #[0])] ++ ratOut (name ++ ".grid") (c17xFlat g)
    pure (enc "model" model ++ enc "spec" spec)),
  -- round trips: kind 0 = from a transform (t, nrow, ncol), kind 1 = from bounds (args = W,S,E,N, width, height)
  ("c17x_roundtrip", fun a => do
    let kind ← a.nat "kind"
    let width ← a.nat "width"
    let height ← a.nat "height"
    if width = 0 ∨ height = 0 then throw "zerosize"
    let t4 (t : Aff) : List Rat := [t.a, t.b, t.c, t.d, t.e, t.f]
    let b4 (b : Rat × Rat × Rat × Rat) : List Rat := [b.1, b.2.1, b.2.2.1, b.2.2.2]
    if kind = 0 then
      let t ← affArg a "t"
      let b := arrayBounds height width t
      let back := transformFromBounds b.1 b.2.1 b.2.2.1 b.2.2.2 width height
      pure (ratOut "model.bounds" (b4 b) ++ ratOut "model.back" (t4 back) ++ ratOut "spec.back" (t4 t) ++
        ratOut "model.extent" (b4 (extentOf b)))
    else
      let v ← ratsArg a "args"
      if v.size ≠ 4 then throw "argsize"
      let t := transformFromBounds v[0]! v[1]! v[2]! v[3]! width height
      let b := arrayBounds height width t
      pure (ratOut "model.t" (t4 t) ++ ratOut "model.back" (b4 b) ++ ratOut "spec.back" v.toList)),
  -- sum over area_grid against the area of the bounding box; `sinkey`/`sinval`/`pi180` as in c17_area
  ("c17x_area_sum", fun a => do
    let t ← affArg a "t"
    let nrow ← a.nat "nrow"
    let ncol ← a.nat "ncol"
    let latlon := (← a.nat "latlon") ≠ 0
    let ucode ← a.nat "unit"
    let (isCell, fac) := unitFactor ucode
    let R2 : Rat := ((Pf.Generated.earthRadius * Pf.Generated.earthRadius : Nat) : Rat)
    let (pi180, keys, vals) ← (if latlon then do
        let p ← ratsArg a "pi180"
        if p.size ≠ 1 then throw "pisize"
        let k ← ratsArg a "sinkey"
        let v ← ratsArg a "sinval"
        if k.size ≠ v.size then throw "tablesize"
        for j in [0:nrow + 1] do
          if !hasKey k (t.f + ((j : Nat) : Rat) * t.e) then throw "missing-key"
        pure (p[0]!, k, v)
      else pure (0, #[], #[]) : Except String (Rat × Array Rat × Array Rat))
    let sinD := lookupQ keys vals
    match areaGrid (cellareaM R2 pi180 sinD) t nrow ncol latlon isCell fac with
    | .error e => pure [("status", #[e.code])]
    | .ok rows =>
      let g := expandRows ncol rows
      let b := arrayBounds nrow ncol t
      let f := specUnitFactor ucode
      let lo := if b.2.1 < b.2.2.2 then b.2.1 else b.2.2.2
      let hi := if b.2.1 < b.2.2.2 then b.2.2.2 else b.2.1
      let spec : Rat :=
        if isCell then ((nrow * ncol : Nat) : Rat)
        else if latlon then specR2 * (pi180 * absQ (b.2.2.1 - b.1)) * (sinD hi - sinD lo) / f
        else absQ (b.2.2.1 - b.1) * absQ (b.2.2.2 - b.2.1) / f
      pure ([("status", #[0])] ++ ratOut "model.grid" (c17xFlat g) ++ ratOut "model.sum" [gridSum g] ++
        ratOut "spec.sum" [spec])),
  -- get_edge(a, structure)
  ("c17x_edge", fun a => do
    let nrow ← a.nat "nrow"
    let ncol ← a.nat "ncol"
    let m ← a.bools "a"
    let st ← a.bools "st"
    if m.size ≠ nrow * ncol then throw "masksize"
    if st.size ≠ 9 then throw "structsize"
    let spec := (List.range (nrow * ncol)).map fun i => decide (IsEdgeS nrow ncol m st (i / ncol) (i % ncol))
    pure [("model.edge", ofBools (getEdgeS nrow ncol m st).toArray), ("spec.edge", ofBools spec.toArray)])
]
end Pf.Ops
