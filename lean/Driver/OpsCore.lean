import PfVerif.Model.Core
import Driver.Proto
/-! Driver ops for the kernels of `core.py`. -/
namespace Pf.Ops
open Pf.Proto

def step1 (_ _ : Nat) : Int := 1

def opsCore : List (String × Op) := [
  ("rank", fun a => do
    let ds ← a.nats "ds"
    match rank ds with
    | none => throw "fuel"
    | some (r, n) => pure [("rank", r), ("n", #[(n : Int)])]),
  ("upstream_count", fun a => do
    let ds ← a.nats "ds"
    pure [("nup", upstreamCount ds (a.optBools "mask"))]),
  ("idxs_seq_walk", fun a => do
    let ds ← a.nats "ds"
    pure [("seq", ofNatList (idxsSeq ds (← a.natList "pits")))]),
  ("is_topo", fun a => do
    let ds ← a.nats "ds"
    pure [("ok", ofBool (isTopo ds (← a.natList "seq")))]),
  ("pit_indices", fun a => do
    let ds ← a.nats "ds"
    pure [("pits", ofNatList (pitIndices ds))]),
  ("loop_indices", fun a => do
    let ds ← a.nats "ds"
    match loopIndices ds with
    | none => throw "fuel"
    | some l => pure [("loops", ofNatList l)]),
  ("fillnodata_up", fun a => do
    let ds ← a.nats "ds"
    pure [("out", fillnodataUpstream ds (← a.natList "seq") (← a.ints "data") (← a.int "nodata"))]),
  ("main_upstream", fun a => do
    let ds ← a.nats "ds"
    pure [("usmain", ofNats (mainUpstream ds (← a.ints "uparea") (← a.int "upa_min")))]),
  ("trace", fun a => do
    let nxt ← a.nats "nxt"
    let starts ← a.natList "starts"
    let mask := a.optBools "mask"
    let maxLen := a.optInt "max_length"
    let mut out : Out := []
    let mut k := 0
    for s in starts do
      match traceFrom nxt mask maxLen step1 (nxt.size + 1) s with
      | none => throw "fuel"
      | some (p, d) =>
        out := out ++ [(s!"path{k}", ofNatList p), (s!"dist{k}", #[d])]
        k := k + 1
    pure out),
  ("window", fun a => do
    let ds ← a.nats "ds"
    let um ← a.nats "usmain"
    pure [("idxs", ofNatList (window ds um (a.optInts "strord") (← a.nat "n") (← a.nat "idx0")))]),
  ("outflow_idxs", fun a => do
    let ds ← a.nats "ds"
    pure [("idxs", ofNatList (outflowIdxs ds (← a.natList "seq") (← a.bools "region")))]),
  ("inflow_idxs", fun a => do
    let ds ← a.nats "ds"
    pure [("idxs", ofNatList (inflowIdxs ds (← a.natList "seq") (← a.bools "region")))])
]

end Pf.Ops
