import PfVerif.Model.C03_ext
import Driver.Proto
/-! Driver ops of the C03 extension (construction and persistence of network objects).
`model.*` = loop-for-loop models of `Model/C03_ext.lean`; `spec.*` = independent declarative definitions
(`specLocIdx`, `Spec.pitsOf`, `specNup`, `specOutlets`/`specEdgePits` on the declarative reading of the code
tables, identity for the dump/load round trip, `specRank` for the node count). -/
namespace Pf.Ops
open Pf.Proto Pf.Fd Pf.C03x

namespace C03x

def dtypeOf (k : Nat) : Option Dtype :=
  match k with
  | 0 => some .i32 | 1 => some .i64 | 2 => some .u32 | 3 => some .u64 | _ => none

def dtypeCode : Dtype → Int
  | .i32 => 0 | .i64 => 1 | .u32 => 2 | .u64 => 3

def ftOf (k : Nat) : Option Ftype :=
  match k with
  | 1 => some .d8 | 2 => some .ldd | 3 => some .nextxy | _ => none

def ftCode : Ftype → Int
  | .d8 => 1 | .ldd => 2 | .nextxy => 3

def errCode (e : String) : Int :=
  if e == "ValueError" then 1 else if e == "IndexError" then 3 else 2

def optNatList (a : Args) (name : String) : Option (List Nat) :=
  (a.optInts name).map fun v => v.toList.map Int.toNat

def optOut (pre : String) (v : Option (List Nat)) : Out :=
  match v with
  | none => [(pre ++ ".some", #[0]), (pre, #[])]
  | some l => [(pre ++ ".some", #[1]), (pre, ofNatList l)]

def optNatOut (pre : String) (v : Option Nat) : Out :=
  match v with
  | none => [(pre, #[])]
  | some k => [(pre, #[(k : Int)])]

def getData (a : Args) : Except String Data := do
  let kind ← a.nat "kind"
  let nrow ← a.nat "nrow"
  let ncol ← a.nat "ncol"
  match kind with
  | 0 => pure (.u8 nrow ncol (← a.nats "codes"))
  | 1 => pure (.xy nrow ncol (← a.ints "xs") (← a.ints "ys"))
  | _ => pure .other

/-- the constructor call described by the arguments (canonical network `ds`) -/
def construct (a : Args) (dt : Dtype) (ds : Array Nat) : Except String (Except String Obj) := do
  let kind ← a.nat "cls"                    -- 0 = Flwdir, 1 = FlwdirRaster
  let pit := optNatList a "pit"
  let seq := optNatList a "seq"
  let outlet := optNatList a "outlet"
  let nnodes := (a.optInt "nnodes").map Int.toNat
  let cache := (a.optInt "cache").getD 1 != 0
  if kind = 0 then pure (ctorVec dt ds pit outlet seq nnodes cache)
  else
    let shape ← a.nats "shape"
    let ft ← a.nat "ftype"
    let tr ← a.ints "transform"
    let latlon := (a.optInt "latlon").getD 0 != 0
    pure (ctorRaster dt ds shape.toList (ftOf ft) pit outlet seq nnodes tr latlon cache)

def rastOut (pre : String) (r : Option RasterAttrs) : Out :=
  match r with
  | none => [(pre ++ ".raster", #[0]), (pre ++ ".shape", #[]), (pre ++ ".ftype", #[]),
             (pre ++ ".transform", #[]), (pre ++ ".latlon", #[])]
  | some r => [(pre ++ ".raster", #[1]), (pre ++ ".shape", #[(r.shape.1 : Int), (r.shape.2 : Int)]),
               (pre ++ ".ftype", #[ftCode r.ftype]), (pre ++ ".transform", r.transform),
               (pre ++ ".latlon", ofBool r.latlon)]

end C03x

open C03x in
def opsC03ext : List (String × Op) := [
  -- get_loc_idx / from_dataframe
  ("c03x_locidx", fun a => do
    let ids ← a.ints "ids"
    let dsids ← a.ints "dsids"
    let dt ← a.nat "dtype"
    match dtypeOf dt with
    | none => throw "bad-dtype"
    | some dt =>
      let m := getLocIdx ids dsids
      let s := specLocIdx ids dsids
      let mctor : Int := match fromDataframe dt ids dsids with
        | .ok _ => 0
        | .error e => errCode e
      let sctor : Int := if ids.size ≥ 2 ∧ !(Spec.pitsOf s).isEmpty then 0 else 1
      pure [("model.ds", ofNats m), ("spec.ds", ofNats s), ("distinct", ofBool (distinctB ids)),
            ("wf", ofBool (wfB m)), ("model.pits", ofNatList (pitIndices m)),
            ("spec.pits", ofNatList (Spec.pitsOf s)), ("model.ctor", #[mctor]), ("spec.ctor", #[sctor])]),
  -- constructors, `_mv`, `mask`, `n_upstream`, `idxs_pit`, `nnodes`, `__getitem__`
  ("c03x_ctor", fun a => do
    let raw ← a.ints "raw"
    let dt ← a.nat "dtype"
    let gi ← a.ints "getitem"
    match dtypeOf dt with
    | none => throw "bad-dtype"
    | some dt =>
      let ds := canon dt raw
      let n := ds.size
      let base : Out := [("model.mv", #[mvSel dt]), ("model.canon", ofNats ds), ("model.mask", ofBools (maskRaw dt raw)),
                         ("spec.mask", ofBools (ds.map fun x => x != n)), ("rawok", ofBool (rawOKB dt raw)),
                         ("wf", ofBool (wfB ds)),
                         ("spec.mv", #[castTo dt (-1)])]
      -- declarative expectation for the constructor
      let pitArg := optNatList a "pit"
      let specPits := Spec.pitsOf ds
      let cls ← a.nat "cls"
      let shapeOk : Bool ← (if cls = 0 then pure true else do
        let shape ← a.nats "shape"
        pure (shape.size == 2 && shape[0]! * shape[1]! == n))
      let ftOk : Bool ← (if cls = 0 then pure true else do pure (ftOf (← a.nat "ftype")).isSome)
      let trOk : Bool ← (if cls = 0 then pure true else do pure ((← a.ints "transform").size == 6))
      let pitsOk := match pitArg with
        | some p => !p.isEmpty
        | none => !specPits.isEmpty
      let specErr : Int := if decide (n ≥ 2) && pitsOk && shapeOk && ftOk && trOk then 0 else 1
      match ← construct a dt ds with
      | .error e =>
        pure (base ++ [("model.err", #[errCode e]), ("spec.err", #[specErr])])
      | .ok o =>
        let gout := gi.map fun idx => match o.getitem idx with
          | .ok v => (v : Int)
          | .error _ => -1
        let specNn : Int := match o.nnodes with
          | some k => k
          | none => (((List.range n).filter fun i => decide ((specRank ds)[i]! ≥ 0)).length : Int)
        pure (base ++ [("model.err", #[0]), ("spec.err", #[specErr]),
              ("model.pits", ofNatList o.idxsPit),
              ("spec.pits", ofNatList (match pitArg with | some p => p | none => specPits)),
              ("model.nup", o.nUpstream), ("spec.nup", ((List.range n).map (specNup ds)).toArray),
              ("model.omask", ofBools o.mask),
              ("model.getitem", gout)] ++ optNatOut "model.nnodes" o.nnodesP ++ [("spec.nnodes", #[specNn])])),
  -- dtype selection of from_array and the sentinels
  ("c03x_dtype", fun a => do
    let ns ← a.nats "n"
    pure [("model.dtype", ns.map fun n => dtypeCode (selectDtype n)),
          ("model.mv", #[mvSel .i32, mvSel .i64, mvSel .u32, mvSel .u64]),
          ("spec.mv", #[castTo .i32 (-1), castTo .i64 (-1), castTo .u32 (-1), castTo .u64 (-1)]),
          -- the dtype can hold every index and its sentinel is not an index
          ("spec.fits", ns.map fun n =>
            let d := selectDtype n
            if ((n : Int) - 1 ≤ d.maxVal) && (mvSel d < 0 || (n : Int) ≤ mvSel d) then 1 else 0)]),
  -- pyflwdir.from_array incl. idxs_outlet
  ("c03x_from_array", fun a => do
    let ft ← a.nat "ft"            -- 0 = "infer"
    let check := (← a.nat "check") != 0
    let data ← getData a
    let tr ← a.ints "transform"
    let latlon := (a.optInt "latlon").getD 0 != 0
    let mask : Option (List Nat × Array Bool) :=
      match a.optInts "mshape", a.optBools "mask" with
      | some sh, some m => some (sh.toList.map Int.toNat, m)
      | _, _ => none
    let mout : Out := match fromArray (ftOf ft) check data mask tr latlon with
      | .ok o => [("model.err", #[0]), ("model.ds", ofNats o.ds), ("model.pits", ofNatList o.idxsPit),
                  ("model.outlet", ofNatList (o.outlet.getD [])), ("model.dtype", #[dtypeCode o.dtype])] ++
                 rastOut "model" o.rast
      | .error e => [("model.err", #[errCode e])]
    let st : Option Ftype := match ftOf ft with
      | some t => some t
      | none => Spec.infer data
    let undefinedOut : Out := [("spec.defined", #[0])]
    let sout : Out := match st with
      | none => undefinedOut
      | some t =>
        match Spec.read t data with
        | none => undefinedOut
        | some (nrow, ncol, read) =>
          let n := nrow * ncol
          let (maskOk, mfun) : Bool × (Nat → Bool) := match mask with
            | none => (true, fun _ => true)
            | some (sh, m) =>
              if sh == [nrow, ncol] then (true, fun i => m[i]!)
              else if t == .nextxy && sh == [2, nrow, ncol] then
                (((List.range n).all fun i => m[i]! == m[n + i]!), fun i => m[i]!)
              else (false, fun _ => true)
          let rd := Spec.maskRead mfun read
          let g := Spec.graph nrow ncol rd
          let pits := Spec.pitsOf g
          let defined := Spec.valid t data && maskOk && decide (n ≥ 2) && !pits.isEmpty && tr.size == 6
          [("spec.defined", ofBool defined), ("spec.pits", ofNatList pits),
           ("spec.outlet", ofNatList (specOutlets nrow ncol rd)),
           ("spec.edge", ofNatList (specEdgePits nrow ncol rd))]
    pure (mout ++ sout)),
  -- dump / load: the object is first constructed from the arguments, then `_dict` and `load`
  ("c03x_dump", fun a => do
    let ds ← a.nats "ds"
    let dt ← a.nat "dtype"
    match dtypeOf dt with
    | none => throw "bad-dtype"
    | some dt =>
      match ← construct a dt ds with
      | .error e => pure [("model.err", #[errCode e])]
      | .ok o =>
        match dictOf o with
        | none => throw "fuel"
        | some (d, o1) =>
          let specNn : Int := match o.nnodes with
            | some k => k
            | none => (((List.range ds.size).filter fun i => decide ((specRank ds)[i]! ≥ 0)).length : Int)
          let dictOut : Out := [("model.dict.nnodes", #[(d.nnodes : Int)]), ("model.dict.ds", ofNats d.ds)] ++
            optOut "model.dict.seq" d.seq ++ optOut "model.dict.pit" d.pit ++ rastOut "model.dict" d.rast ++
            optNatOut "model.after.nnodes" o1.nnodes
          -- spec: the round trip is the identity on what the object shows
          let specOut : Out := [("spec.nnodes", #[specNn]), ("spec.ds", ofNats ds)] ++
            optOut "spec.seq" o.seq ++ optOut "spec.pit" (some o.idxsPit) ++ rastOut "spec" o.rast
          match load d with
          | .error e => pure ([("model.err", #[0]), ("model.load.err", #[errCode e])] ++ dictOut ++ specOut)
          | .ok o2 =>
            pure ([("model.err", #[0]), ("model.load.err", #[0])] ++ dictOut ++ specOut ++
              [("model.load.ds", ofNats o2.ds), ("model.load.dtype", #[dtypeCode o2.dtype]),
               ("model.load.cache", ofBool o2.cache)] ++
              optOut "model.load.seq" o2.seq ++ optOut "model.load.pit" o2.pit ++
              optOut "model.load.outlet" o2.outlet ++ optNatOut "model.load.nnodes" o2.nnodes ++
              rastOut "model.load" o2.rast ++
              [("model.sameview", ofBool (decide (o2.view = o.view)))]))
]

end Pf.Ops
