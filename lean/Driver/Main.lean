import Driver.Proto
import Driver.AllOps
/-! Model driver: one request per line on stdin, one answer per line on stdout. -/
open Pf.Proto

def answer (line : String) : String :=
  match parseLine line with
  | none => "? err parse"
  | some (id, op, args) =>
    match allOps.lookup op with
    | none => id ++ " err unknown-op"
    | some f =>
      match f args with
      | .ok o => renderOut id o
      | .error e => id ++ " err " ++ e

partial def loop (hin hout : IO.FS.Stream) : IO Unit := do
  let line ← hin.getLine
  if line.isEmpty then return ()
  let l := line.trimAscii.toString
  if l.isEmpty then loop hin hout else
  hout.putStrLn (answer l)
  loop hin hout

def main : IO Unit := do
  let hin ← IO.getStdin
  let hout ← IO.getStdout
  loop hin hout
  hout.flush
