import PfVerif.Model.C01
import Driver.Proto
/-! Driver ops for C01 (decoding D8 / LDD / NEXTXY). `model.*` = the loop-for-loop model of the code,
`spec.*` = the declarative reading of `Pf.Fd.Spec` (tables typed in from the property statement). -/
namespace Pf.Ops
open Pf.Proto Pf.Fd

namespace C01

def ftypeCode : Ftype → Int
  | .d8 => 1 | .ldd => 2 | .nextxy => 3

def ftypeOf (k : Nat) : Option Ftype :=
  match k with
  | 1 => some .d8 | 2 => some .ldd | 3 => some .nextxy | _ => none

/-- data container from the protocol: kind 0 = 2-D uint8, 1 = int32 (x, y) pair, 2 = anything else -/
def getData (a : Args) : Except String Data := do
  let kind ← a.nat "kind"
  let nrow ← a.nat "nrow"
  let ncol ← a.nat "ncol"
  match kind with
  | 0 => pure (.u8 nrow ncol (← a.nats "codes"))
  | 1 => pure (.xy nrow ncol (← a.ints "xs") (← a.ints "ys"))
  | _ => pure .other

def optCode (t : Option Ftype) : Int :=
  match t with
  | none => 0
  | some t => ftypeCode t

def graphOuts (pre : String) (ds : Array Nat) (pits : List Nat) (n : Nat) : Out :=
  [(pre ++ ".ds", ofNats ds), (pre ++ ".pits", ofNatList pits), (pre ++ ".n", #[(n : Int)])]

end C01

open C01 in
def opsC01 : List (String × Op) := [
  -- core level: `core_x.from_array(data)` -> (idxs_ds, idxs_pit, n)
  ("c01.decode", fun a => do
    let ft ← a.nat "ft"
    let data ← getData a
    match ftypeOf ft with
    | none => throw "bad-ft"
    | some t =>
      match decodeData t data, Spec.read t data with
      | .ok d, some (nrow, ncol, read) =>
        let g := Spec.graph nrow ncol read
        pure (graphOuts "model" d.ds d.pits.toList d.n ++
              graphOuts "spec" g (Spec.pitsOf g) (Spec.nvalidOf (nrow * ncol) read))
      | _, _ => throw "unmodelled"),
  -- API level: `pyflwdir.from_array(data, ftype, check_ftype, mask)`
  ("c01.from_array", fun a => do
    let ft ← a.nat "ft"            -- 0 = "infer"
    let check := (← a.nat "check") != 0
    let data ← getData a
    let mask : Option (List Nat × Array Bool) :=
      match a.optInts "mshape", a.optBools "mask" with
      | some sh, some m => some (sh.toList.map Int.toNat, m)
      | _, _ => none
    -- model
    let mout : Out := match fromArrayApi (ftypeOf ft) check data mask with
      | .ok p => [("model.err", #[0]), ("model.ftype", #[ftypeCode p.ftype]), ("model.ds", ofNats p.dec.ds),
                  ("model.pits", ofNats p.dec.pits), ("model.mask", ofBools p.dec.mask)]
      | .error e => [("model.err", #[if e == "ValueError" then 1 else 2]), ("model.ftype", #[0]),
                     ("model.ds", #[]), ("model.pits", #[]), ("model.mask", #[])]
    -- spec: the format is the given one or the first whose alphabet the raster satisfies; cells hidden by
    -- the mask are nodata; the graph is the declarative graph; pits are its self-draining cells.
    -- `spec.defined` = the property fixes the result (legal raster, fitting mask, >= 2 cells, >= 1 pit).
    let st : Option Ftype := match ftypeOf ft with
      | some t => some t
      | none => Spec.infer data
    let sout : Out := match st with
      | none => [("spec.defined", #[0]), ("spec.ftype", #[0]), ("spec.ds", #[]), ("spec.pits", #[]), ("spec.mask", #[])]
      | some t =>
        match Spec.read t data with
        | none => [("spec.defined", #[0]), ("spec.ftype", #[0]), ("spec.ds", #[]), ("spec.pits", #[]), ("spec.mask", #[])]
        | some (nrow, ncol, read) =>
          let n := nrow * ncol
          let (maskOk, mfun) : Bool × (Nat → Bool) := match mask with
            | none => (true, fun _ => true)
            | some (sh, m) =>
              if sh == [nrow, ncol] then (true, fun i => m[i]!)
              else if t == .nextxy && sh == [2, nrow, ncol] then
                -- a 3-D mask on NEXTXY data is only given a meaning when both layers coincide
                (((List.range n).all fun i => m[i]! == m[n + i]!), fun i => m[i]!)
              else (false, fun _ => true)
          let g := Spec.graph nrow ncol (Spec.maskRead mfun read)
          let pits := Spec.pitsOf g
          let defined := Spec.valid t data && maskOk && decide (n ≥ 2) && !pits.isEmpty
          [("spec.defined", ofBool defined), ("spec.ftype", #[ftypeCode t]), ("spec.ds", ofNats g),
           ("spec.pits", ofNatList pits), ("spec.mask", ofBools (g.map fun x => x != n))]
    pure (mout ++ sout)),
  -- `isvalid` of the three formats and `_infer_ftype`
  ("c01.isvalid", fun a => do
    let data ← getData a
    pure [("model.valid", ofBools #[isvalid .d8 data, isvalid .ldd data, isvalid .nextxy data]),
          ("model.infer", #[optCode (inferFtype data)]),
          ("spec.valid", ofBools #[Spec.valid .d8 data, Spec.valid .ldd data, Spec.valid .nextxy data]),
          ("spec.infer", #[optCode (Spec.infer data)])])
]
end Pf.Ops
