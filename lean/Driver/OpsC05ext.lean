import PfVerif.Model.C05_ext
import Driver.Proto
/-! Driver ops of the C05 extension (region and mask operations next to basin delineation). -/
namespace Pf.Ops
open Pf.Proto Pf.C05x

def c05xBoxes (l : List Box) : Array Int :=
  (l.foldl (fun (acc : List Int) b => acc ++ [(b.1 : Int), (b.2.1 : Int), (b.2.2.1 : Int), (b.2.2.2 : Int)]) []).toArray

def c05xBBoxes (l : List BBox) : Array Int :=
  (l.foldl (fun (acc : List Int) b => acc ++ [b.1, b.2.1, b.2.2.1, b.2.2.2]) []).toArray

def c05xOptNats (a : Args) (name : String) : Option (List Nat) :=
  (a.optInts name).map fun v => v.toList.map Int.toNat

def c05xErr : Err → Int
  | .valueError => 1
  | .indexError => 2
  | .fuel => 3

/-- sort + drop duplicates with the library sort (independent of `insertAsc`) -/
def c05xSortedPos (regions : Array Int) : List Int :=
  let s := ((regions.toList.filter (· > 0)).toArray.qsort (· < ·)).toList
  s.eraseDups

/-- spec labels of `basins` at given outlets: the order-independent first-outlet walk of C05 -/
def c05xBasinSpec (ds : Array Nat) (outlets : List Nat) (ids : List Int) : Array Int := Id.run do
  let seed := seedLabels ds.size outlets ids
  let mut spec : Array Int := Array.replicate ds.size 0
  for i in [0:ds.size] do
    if isValid ds i then
      match basinSpec ds outlets ids i with
      | some v => spec := spec.setIfInBounds i v
      | none => spec := spec.setIfInBounds i (-999999)
    else spec := spec.setIfInBounds i seed[i]!
  return spec

/-- hull of all cells with a positive label (spec of `total_bbox`) -/
def c05xTotalSpec (ncol : Nat) (x0 y0 xres yres : Int) (regions : Array Int) : Option BBox :=
  hullSpec ncol x0 y0 xres yres (regions.map fun v => if v > 0 then 1 else 0) 1

def c05xBoundsOut (ncol : Nat) (x0 y0 xres yres : Int) (regions : Option (Array Int))
    (res : Option (List Int × List BBox × BBox)) : Out :=
  let m : Out := match res with
    | none => [("model.ok", ofBool false), ("model.lbs", #[]), ("model.bboxes", #[]), ("model.total", #[])]
    | some (lbs, bbs, t) =>
      [("model.ok", ofBool true), ("model.lbs", lbs.toArray), ("model.bboxes", c05xBBoxes bbs),
       ("model.total", c05xBBoxes [t])]
  let s : Out := match regions with
    | none => [("spec.ok", ofBool false), ("spec.lbs", #[]), ("spec.bboxes", #[]), ("spec.total", #[])]
    | some reg =>
      let lbs := c05xSortedPos reg
      match c05xTotalSpec ncol x0 y0 xres yres reg with
      | none => [("spec.ok", ofBool false), ("spec.lbs", #[]), ("spec.bboxes", #[]), ("spec.total", #[])]
      | some t =>
        [("spec.ok", ofBool true), ("spec.lbs", lbs.toArray),
         ("spec.bboxes", c05xBBoxes (lbs.filterMap (hullSpec ncol x0 y0 xres yres reg))),
         ("spec.total", c05xBBoxes [t])]
  m ++ s

def opsC05ext : List (String × Op) := [
  /- `FlwdirRaster.outflow_idxs(region)` -/
  ("c05x_outflow", fun a => do
    let ds ← a.nats "ds"
    let seq ← a.natList "seq"
    let region ← a.bools "region"
    let topo := ofBool (isTopo ds seq)
    match outflowRaster ds seq region, checkData ds.size region with
    | some m, some r =>
      let (sok, s) := match outflowSpec ds r with
        | some l => (true, l)
        | none => (false, [])
      pure [("model.ok", ofBool true), ("model", ofNatList m), ("spec.ok", ofBool sok), ("spec", ofNatList s),
            ("topo", topo)]
    | _, _ => pure [("model.ok", ofBool false), ("model", #[]), ("spec.ok", ofBool true), ("spec", #[]), ("topo", topo)]),
  /- `FlwdirRaster.inflow_idxs(region)` -/
  ("c05x_inflow", fun a => do
    let ds ← a.nats "ds"
    let seq ← a.natList "seq"
    let region ← a.bools "region"
    let topo := ofBool (isTopo ds seq)
    match inflowRaster ds seq region, checkData ds.size region with
    | some m, some r =>
      pure [("model.ok", ofBool true), ("model", ofNatList m), ("spec.exact", ofNatList (inflowSpec ds seq r)),
            ("spec.must", ofNatList (inflowMust ds r)), ("spec.may", ofNatList (inflowMay ds r)), ("topo", topo)]
    | _, _ => pure [("model.ok", ofBool false), ("model", #[]), ("spec.exact", #[]), ("spec.must", #[]),
                    ("spec.may", #[]), ("topo", topo)]),
  /- `FlwdirRaster.interbasin_mask(region, stream)` -/
  ("c05x_interbasin", fun a => do
    let ds ← a.nats "ds"
    let seq ← a.natList "seq"
    let region ← a.bools "region"
    let stream := a.optBools "stream"
    let topo := ofBool (isTopo ds seq)
    match interbasinRaster ds seq region stream with
    | none => pure [("model.ok", ofBool false), ("model", #[]), ("spec", #[]), ("topo", topo)]
    | some m =>
      let r := (checkData ds.size region).getD region
      let s := stream.map fun s => (checkData ds.size s).getD s
      pure [("model.ok", ofBool true), ("model", ofBools m), ("spec", interbasinSpec ds r s), ("topo", topo)]),
  /- `regions.region_sum(data, regions)` -/
  ("c05x_region_sum", fun a => do
    let data ← a.ints "data"
    let regions ← a.ints "regions"
    let (lbs, sums) := regionSum data regions
    let slbs := c05xSortedPos regions
    let total := (((List.range regions.size).filter fun i => regions[i]! > 0).map fun i => data[i]!).sum
    pure [("model.lbs", lbs.toArray), ("model.sums", sums.toArray),
          ("spec.lbs", slbs.toArray), ("spec.sums", (slbs.map (labelSumSpec data regions)).toArray),
          ("spec.total", #[total])]),
  /- `regions.region_area(regions, transform, latlon)`: mode 0 projected (xres, yres), 1 rows (ncol, rowarea) -/
  ("c05x_region_area", fun a => do
    let regions ← a.ints "regions"
    let mode ← a.nat "mode"
    let slbs := c05xSortedPos regions
    if mode = 0 then
      let xres ← a.int "xres"
      let yres ← a.int "yres"
      let (lbs, areas) := regionAreaProj xres yres regions
      pure [("model.lbs", lbs.toArray), ("model.areas", areas.toArray), ("spec.lbs", slbs.toArray),
            ("spec.areas", (slbs.map fun l => (labelCount regions l : Int) * ((xres * yres).natAbs : Int)).toArray)]
    else
      let ncol ← a.nat "ncol"
      let rowArea ← a.ints "rowarea"
      let (lbs, areas) := regionAreaRows ncol rowArea regions
      let grid : Array Int := (Array.range regions.size).map fun i => rowArea[i / ncol]!
      pure [("model.lbs", lbs.toArray), ("model.areas", areas.toArray), ("spec.lbs", slbs.toArray),
            ("spec.areas", (slbs.map (labelSumSpec grid regions)).toArray)]),
  /- `regions.region_slices(regions)` and `regions.region_bounds(regions, transform)` -/
  ("c05x_region_bounds", fun a => do
    let regions ← a.ints "regions"
    let ncol ← a.nat "ncol"
    let x0 ← a.int "x0"
    let y0 ← a.int "y0"
    let xres ← a.int "xres"
    let yres ← a.int "yres"
    let sl : Out := match regionSlices ncol regions with
      | none => [("model.slices_ok", ofBool false), ("model.slices", #[])]
      | some (_, boxes) => [("model.slices_ok", ofBool true), ("model.slices", c05xBoxes boxes)]
    pure (sl ++ c05xBoundsOut ncol x0 y0 xres yres (some regions) (regionBounds ncol x0 y0 xres yres regions))),
  /- `FlwdirRaster.basin_bounds(basins)` -/
  ("c05x_basin_bounds", fun a => do
    let ds ← a.nats "ds"
    let seq ← a.natList "seq"
    let pits ← a.natList "pits"
    let basins := a.optInts "basins"
    let ncol ← a.nat "ncol"
    let x0 ← a.int "x0"
    let y0 ← a.int "y0"
    let xres ← a.int "xres"
    let yres ← a.int "yres"
    let reg : Option (Array Int) := match basins with
      | none => some (c05xBasinSpec ds pits (defaultIds pits.length))
      | some b => if b.size = 1 then some (Array.replicate ds.size b[0]!) else if b.size = ds.size then some b else none
    pure (c05xBoundsOut ncol x0 y0 xres yres reg (basinBounds ds seq pits basins ncol x0 y0 xres yres))),
  /- `FlwdirRaster.basins(idxs=… | xy=…, streams=…, ids=…)` -/
  ("c05x_basins_snap", fun a => do
    let ds ← a.nats "ds"
    let seq ← a.natList "seq"
    let pits ← a.natList "pits"
    let streams := a.optBools "streams"
    let ids := (a.optInts "ids").map (·.toList)
    let fuel ← a.nat "fuel"
    let topo := ofBool (isTopo ds seq)
    -- outlets: linear indices or coordinates
    let (res, outlets) : Except Err (Array Int) × Option (List Nat) ←
      match a.optInts "xs" with
      | some xs => do
        let ys ← a.ints "ys"
        let nrow ← a.nat "nrow"
        let ncol ← a.nat "ncol"
        let x0 ← a.int "x0"
        let y0 ← a.int "y0"
        let xres ← a.int "xres"
        let yres ← a.int "yres"
        let os := (xs.toList.zip ys.toList).mapM fun p => cellOf nrow ncol x0 y0 xres yres p.1 p.2
        pure (basinsRasterXY nrow ncol x0 y0 xres yres xs.toList ys.toList ds seq pits streams ids fuel, os)
      | none => pure (basinsRaster ds seq pits (c05xOptNats a "idxs") streams ids fuel, c05xOptNats a "idxs")
    -- spec: snap every outlet declaratively, then the order-independent first-outlet walk
    let sOut : Out := match outlets with
      | none => [("spec.snapped", ofNatList pits),
                 ("spec", c05xBasinSpec ds pits (ids.getD (defaultIds pits.length)))]
      | some os =>
        let sn : List Nat := match streams with
          | none => os
          | some s =>
            let s' := (checkData ds.size s).getD s
            os.map fun o => (snapSpec ds s' fuel o).getD ds.size
        [("spec.snapped", ofNatList sn), ("spec", c05xBasinSpec ds sn (ids.getD (defaultIds sn.length)))]
    match res with
    | .ok m => pure ([("model.err", #[0]), ("model", m), ("topo", topo)] ++ sOut)
    | .error e => pure ([("model.err", #[c05xErr e]), ("model", #[]), ("topo", topo)] ++ sOut))
]
end Pf.Ops
