import PfVerif.Model.C20
import Driver.Proto
/-! Driver ops for C20: `spread2d` and `region_dissolve`.

Rationals travel as two integer arrays `<name>.n` / `<name>.d`. The `spec.*` outputs are computed
by definitions that do not share code with the model of the algorithm: least costs by exhaustive
edge relaxation to a fixed point (`bfDist`), and the decidable certificate `spreadCert` evaluated on
the IMPLEMENTATION's output (`impl.*` arguments). -/
namespace Pf.Ops
open Pf.Proto

def ratsArg_c20 (a : Args) (name : String) : Except String (Array Rat) := do
  let ns ← a.ints (name ++ ".n")
  let ds ← a.ints (name ++ ".d")
  if ns.size ≠ ds.size then throw s!"size:{name}"
  pure ((ns.zip ds).map fun (p : Int × Int) => (p.1 : Rat) / (p.2 : Rat))

def ratArg (a : Args) (name : String) : Except String Rat := do
  let v ← ratsArg_c20 a name
  if h : 0 < v.size then pure v[0] else throw s!"empty:{name}"

def optRatsArg (a : Args) (name : String) : Except String (Option (Array Rat)) :=
  match a.get? (name ++ ".n") with
  | none => pure none
  | some _ => do pure (some (← ratsArg_c20 a name))

def outRats (name : String) (v : Array Rat) : Out :=
  [(name ++ ".n", v.map (·.num)), (name ++ ".d", v.map fun q => (q.den : Int))]

/-- geometry + optional mask / friction → `SpGrid` with empty observations; also returns the row
latitudes the model used (empty for projected grids) -/
def gridArg (a : Args) : Except String (SpGrid × Array Rat) := do
  let nrow ← a.nat "nrow"
  let ncol ← a.nat "ncol"
  let latlon := (← a.int "latlon") != 0
  let xres ← ratArg a "xres"
  let t4 ← ratArg a "t4"
  let north ← ratArg a "north"
  let frc ← optRatsArg a "frc"
  let msk := a.optBools "msk"
  let (geo, lats) ←
    if latlon then do
      let tl ← ratsArg_c20 a "tab.lat"
      let tx ← ratsArg_c20 a "tab.mx"
      let ty ← ratsArg_c20 a "tab.my"
      let tg ← ratsArg_c20 a "tab.dg"
      let tab : DegTable := (List.range tl.size).map fun i => (tl[i]!, tx[i]!, ty[i]!, tg[i]!)
      match geomLatLon nrow north xres t4 tab with
      | none => throw "domain:row-latitude-not-evaluated-by-implementation"
      | some g => pure (g, ((List.range nrow).map (rowLat north t4)).toArray)
    else do
      let dg ← ratArg a "dg"
      pure (geomProjected nrow xres t4 dg, #[])
  pure ({ nrow := nrow, ncol := ncol, obs := #[], msk := msk, nodata := 0, frc := frc,
          dxs := geo.1, dys := geo.2.1, dgs := geo.2.2 }, lats)

def optDist (D : Array (Option Rat)) : Array Rat := D.map fun x => x.getD 0
def optReach (D : Array (Option Rat)) : Array Int := D.map fun x => if x.isSome then 1 else 0

/-- least element of a list of optional distances (`none` = +∞) -/
def minOpt (l : List (Option Rat)) : Option Rat :=
  l.foldl (fun m x => match m, x with
    | none, x => x
    | some m, none => some m
    | some m, some x => some (if x < m then x else m)) none

/-- declarative check of a dissolve result `res` (sat: any nearest surviving region is accepted).
returns (only-dissolved-relabelled, every dissolved region uniformly relabelled to a nearest survivor) -/
def dissolveSpec (G0 : SpGrid) (regions : Array Int) (labels : List Int) (idxs : Option (List Nat))
    (res : Array Int) : Bool × Bool :=
  let G : SpGrid := { G0 with obs := dissolveSeeds regions labels, nodata := 0 }
  let cells := List.range G.n
  let keep := res.size == G.n && cells.all fun c => labels.contains regions[c]! || res[c]! == regions[c]!
  let D := bfDist G fun i => G.isSource i
  let near := (List.range labels.length).all fun k =>
    let lab := labels[k]!
    let reg := cells.filter fun c => regions[c]! == lab
    match reg with
    | [] => true
    | c0 :: _ =>
      let m := res[c0]!
      -- the places from which nearness is measured
      let locs := match idxs with
        | some l => [l[k]!]
        | none => reg
      let best := minOpt (locs.map fun c => D[c]!)
      let Dm := bfDist G fun i => G.isSource i && G.obs[i]! == m
      reg.all (fun c => res[c]! == m) && m != 0 && !(labels.contains m) &&
        best.isSome && minOpt (locs.map fun c => Dm[c]!) == best
  (keep, near)

/-- `ndimage.minimum_position` breaks ties between equally near cells of a region by an unstable
sort; the property leaves that choice free. For the `eq` comparison the model therefore reports, per
dissolved label, every value the model's own spreading result offers at a cell of least distance. -/
def dissolveCands (G0 : SpGrid) (regions : Array Int) (labels : List Int) (idxs : Option (List Nat)) :
    Option (List (Array Int)) :=
  let G : SpGrid := { G0 with obs := dissolveSeeds regions labels, nodata := 0 }
  match spread2d G with
  | none => none
  | some st => some ((List.range labels.length).map fun k =>
      match idxs with
      | some l => #[st.out[l[k]!]!]
      | none =>
        let reg := (List.range G.n).filter fun c => regions[c]! == labels[k]!
        match reg with
        | [] => #[st.out[0]!]
        | c0 :: t =>
          let best := t.foldl (fun m c => if st.dst[c]! < m then st.dst[c]! else m) st.dst[c0]!
          ((reg.filter fun c => st.dst[c]! == best).map fun c => st.out[c]!).toArray)

def opsC20 : List (String × Op) := [
  ("spread2d", fun a => do
    let (G0, lats) ← gridArg a
    let obs ← a.ints "obs"
    let nodata ← a.int "nodata"
    let G : SpGrid := { G0 with obs := obs, nodata := nodata }
    let D := bfDist G fun i => G.isSource i
    let specOut : Out := [("spec.reach", optReach D)] ++ outRats "spec.dst" (optDist D) ++
      [("geom", ofBool (geomOk G)), ("positive", ofBool (certPositive G))] ++ outRats "model.lats" lats
    let implOut : Out ←
      match a.get? "impl.src" with
      | none => pure []
      | some isrc => do
        let o : SpOut := { src := isrc, dst := (← ratsArg_c20 a "impl.dst"), out := (← a.ints "impl.out") }
        pure [("cert.impl", ofBool (spreadCert G o))]
    match spread2d G with
    | none => throw "fuel"
    | some st =>
      pure ([("model.src", st.src), ("model.out", st.out)] ++ outRats "model.dst" st.dst ++
        [("cert.model", ofBool (spreadCert G st.toOut))] ++ specOut ++ implOut)),
  ("region_dissolve", fun a => do
    let (G0, lats) ← gridArg a
    let regions ← a.ints "regions"
    let labels := (← a.ints "labels").toList
    let idxs := (a.get? "idxs").map fun v => v.toList.map Int.toNat
    let specImpl : Out :=
      match a.get? "impl.out" with
      | none => []
      | some r =>
        let (k, nr) := dissolveSpec G0 regions labels idxs r
        [("spec.keep", ofBool k), ("spec.near", ofBool nr)]
    match regionDissolve G0 regions labels idxs, dissolveCands G0 regions labels idxs with
    | none, _ => throw "fuel"
    | _, none => throw "fuel"
    | some m, some cands =>
      let (k, nr) := dissolveSpec G0 regions labels idxs m
      let candOut : Out := (List.range cands.length).map fun j => (s!"model.cand{j}", cands[j]!)
      pure (candOut ++ [("model.out", m), ("labels_ok", ofBool (labelsOk labels)),
             ("specm.keep", ofBool k), ("specm.near", ofBool nr)] ++ specImpl ++ outRats "model.lats" lats))
]
end Pf.Ops
