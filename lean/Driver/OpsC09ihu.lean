import PfVerif.Model.C09_ihu
import Driver.Proto
/-! Driver ops of the C09 extension (iterative stages of `ihu`). `model.*` = output of the Lean model,
`spec.*` = decidable invariants (theorems of `Props/C09_ihu.lean`) evaluated on the IMPLEMENTATION's output. -/
namespace Pf.Ops
open Pf.Proto Pf.C09ihu

def c09ihuEnv (a : Args) : Except String Env := do
  let sh ← a.nats "subshape"
  let cs ← a.nat "cs"
  pure { ds := (← a.nats "ds"), upa := (← a.ints "upa"), subncol := sh[1]!, cs := cs,
         nrow := ceilDiv sh[0]! cs, ncol := ceilDiv sh[1]! cs }

/-- the recorded `np.argsort` results: `sorts.len` = length of every permutation, `sorts.flat` = their concatenation -/
def c09ihuSorts (a : Args) : Except String Sorts := do
  let lens ← a.natList "sorts.len"
  let flat ← a.natList "sorts.flat"
  let r := lens.foldl (fun (st : List (List Nat) × List Nat) l => (st.1 ++ [st.2.take l], st.2.drop l)) ([], flat)
  pure { q := r.1, bad := 0 }

def c09ihuPar (a : Args) : Except String Par := do
  pure { minNum := (← a.nat "min_num"), minDen := (← a.nat "min_den"), minupa := (← a.int "minupa") }

def c09ihuSortOut (s : Sorts) : Out :=
  [("sort.bad", #[(s.bad : Int)]), ("sort.left", #[(s.q.length : Int)])]

/-- invariants of a (coarse network, outlet) pair the stages are proved to preserve, as verdict bits -/
def c09ihuInv (pre : String) (e : Env) (cds out : Array Nat) : Out :=
  [(pre ++ "sizes", ofBool (chkSizes e cds out)),
   (pre ++ "owncell", ofBool (chkOwnCell e out)),
   (pre ++ "range", ofBool (chkCdsRange cds)),
   (pre ++ "validiff", ofBool (chkValidIff e cds out)),
   (pre ++ "outletpix", ofBool (chkOutletPix e out)),
   (pre ++ "orpit", ofBool (chkOutletOrPit e out)),
   (pre ++ "d8", ofBool (chkD8 e cds)),
   (pre ++ "outvalid", ofBool (chkOutValid e out)),
   (pre ++ "linksok", ofBool (chkLinksOK e cds out))]

/-- hypotheses of the fourth-stage theorems (`Props/C09_ihuTotal.lean`) on the inputs of a stage: `EnvOK`
(`chkFineWF`, `chkEnvCells`), `ReachesPit` (`chkReach`), upstream area of missing pixels not above `minupa` -/
def c09ihuHyp (e : Env) (minupa : Option Int) (fix : Option (List Nat)) (out : Array Nat) : Out :=
  [("hyp.env", ofBool (chkFineWF e.ds && chkEnvCells e && chkReach e.ds)),
   ("hyp.upa", ofBool (match minupa with
     | some m => chkUpaNodata e m
     | none => true)),
   ("hyp.fix", ofBool (match fix with
     | some f => chkFixOK e f out
     | none => true))]

/-- `optimize_rivlen_sync` / `minimize_error_outlets_distinct`: `streams` in step with the outlet array before
(`sync.pre`, with the side conditions of the theorem) and, on the IMPLEMENTATION's arrays, after (`sync.post`) -/
def c09ihuSync (a : Args) (e : Env) (streams : Array Int) (out : Array Nat) (side : Bool) : Out :=
  match a.get? "impl.streams", a.get? "impl.out" with
  | some s', some o' =>
    [("sync.pre", ofBool (side && chkSync e streams out)),
     ("sync.post", ofBool (chkSync e s' (o'.map Int.toNat) && chkDistinct e (o'.map Int.toNat)))]
  | _, _ => []

def opsC09ihu : List (String × Op) := [
  -- core._d8_idx / core._upstream_d8_idx / next_outlet
  ("c09ihu_helpers", fun a => do
    let e ← c09ihuEnv a
    let cds ← a.nats "cds"
    let out ← a.nats "out"
    let idxs ← a.nats "idxs"
    let pix ← a.nats "pix"
    let mut o : Out := []
    let mut k := 0
    for idx in idxs do
      o := o ++ [(s!"d8.{k}", ofNatList (d8Idx idx e.nrow e.ncol)),
                 (s!"us.{k}", ofNatList (upstreamD8 cds idx e.nrow e.ncol))]
      k := k + 1
    k := 0
    for p in pix do
      match nextOutlet e out (e.ds.size + 1) p with
      | some (p1, idx1, outlet) => o := o ++ [(s!"next.{k}", #[(p1 : Int), (idx1 : Int), if outlet then 1 else 0])]
      | none => o := o ++ [(s!"next.{k}", #[])]
      k := k + 1
    pure o),
  ("c09ihu_relocate", fun a => do
    let e ← c09ihuEnv a
    let cds ← a.nats "cds"
    let out ← a.nats "out"
    let sorts ← c09ihuSorts a
    let icds ← a.nats "impl.cds"
    let iout ← a.nats "impl.out"
    -- `idxs_fix is None`: the erroneous cells of `upscale_error`
    let fix : Option (List Nat) := match a.get? "fix" with
      | some v => some (v.toList.map Int.toNat)
      | none => (upscaleError e.ds out cds).map upscaleErrorFix
    let pre := c09ihuInv "pre." e cds out
    let spec := c09ihuInv "spec." e icds iout
    let hyp := c09ihuHyp e none fix out
    match fix with
    | none => pure ([("fuel", ofBool true)] ++ pre ++ spec ++ hyp)
    | some fix =>
      match relocateOutlets e fix cds out sorts with
      | some r =>
        pure ([("model.cds", ofNats r.cds), ("model.out", ofNats r.out), ("model.fix", ofNatList r.fixOut),
               ("fuel", ofBool false)] ++ c09ihuSortOut r.sorts ++ pre ++ spec ++ hyp)
      | none => pure ([("fuel", ofBool true)] ++ pre ++ spec ++ hyp)),
  ("c09ihu_rivlen", fun a => do
    let e ← c09ihuEnv a
    let par ← c09ihuPar a
    let cds ← a.nats "cds"
    let out ← a.nats "out"
    let icds ← a.nats "impl.cds"
    let iout ← a.nats "impl.out"
    let pre := c09ihuInv "pre." e cds out
    let spec := c09ihuInv "spec." e icds iout
    let valid ← a.bools "valid"
    let streams ← a.ints "streams"
    let hyp := c09ihuHyp e (some par.minupa) none out ++ [("hyp.valid", ofBool (decide (valid.size ≤ e.ncell)))] ++
      c09ihuSync a e streams out (decide (valid.size ≤ out.size))
    match optimizeRivlen e par (← a.natList "short") valid (streams, cds, out) with
    | some (streams, cds, out) =>
      pure ([("model.streams", streams), ("model.cds", ofNats cds), ("model.out", ofNats out), ("fuel", ofBool false)]
            ++ pre ++ spec ++ hyp)
    | none => pure ([("fuel", ofBool true)] ++ pre ++ spec ++ hyp)),
  ("c09ihu_minerr", fun a => do
    let e ← c09ihuEnv a
    let par ← c09ihuPar a
    let cds ← a.nats "cds"
    let out ← a.nats "out"
    let icds ← a.nats "impl.cds"
    let iout ← a.nats "impl.out"
    let sorts ← c09ihuSorts a
    let poc ← a.nat "poc"
    let pre := c09ihuInv "pre." e cds out
    let spec := c09ihuInv "spec." e icds iout
    let fix ← a.natList "fix"
    let streams ← a.ints "streams"
    let hyp := c09ihuHyp e (some par.minupa) (some fix) out ++
      c09ihuSync a e streams out (e.nrow * e.ncol == out.size && fix.all fun c => decide (c < out.size))
    match minimizeError e par poc fix (streams, cds, out) sorts with
    | some ((streams, cds, out), sorts) =>
      pure ([("model.streams", streams), ("model.cds", ofNats cds), ("model.out", ofNats out), ("fuel", ofBool false)]
            ++ c09ihuSortOut sorts ++ pre ++ spec ++ hyp)
    | none => pure ([("fuel", ofBool true)] ++ pre ++ spec ++ hyp)),
  -- the whole of `ihu` (first pass + niter loop); `upa` in quarter units
  ("c09ihu_ihu", fun a => do
    let e ← c09ihuEnv a
    let sh ← a.nats "subshape"
    let g : Geo := { subnrow := sh[0]!, subncol := sh[1]!, cs := e.cs }
    let ea ← a.bools "ea"
    let o : IhuOpt := { niter := (← a.nat "niter"), optRivlen := (← a.nat "opt_rivlen") != 0,
                        minError := (← a.nat "min_error") != 0, poc := (← a.nat "poc") }
    -- hypotheses of `ihu_model_total` / `ihu_links` and the conclusion of `ihu_links` on the IMPLEMENTATION's output
    let hyp : Out := c09ihuHyp e (some (Int.ofNat (g.cs * g.cs))) none #[] ++
      [("hyp.geo", ofBool (e.ds.size == g.subnrow * g.subncol && decide (0 < g.cs))),
       ("hyp.d8ea", ofBool (chkFineD8 e.ds g.subncol && chkEaCross g ea e.ds.size))]
    let spec : Out := match a.get? "impl.cds", a.get? "impl.out" with
      | some c, some ot => [("spec.linksok", ofBool (chkLinksOK e (c.map Int.toNat) (ot.map Int.toNat))),
                            ("spec.distinct", ofBool (chkDistinct e (ot.map Int.toNat)))]
      | _, _ => []
    match ihuModel e.ds e.upa ea g o (← c09ihuSorts a) with
    | some (cds, out, sorts) =>
      pure ([("model.cds", ofNats cds), ("model.out", ofNats out), ("fuel", ofBool false)] ++ c09ihuSortOut sorts
            ++ hyp ++ spec)
    | none => pure ([("fuel", ofBool true)] ++ hyp ++ spec))
]

end Pf.Ops
