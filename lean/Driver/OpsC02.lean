import PfVerif.Model.C02
import Driver.Proto
/-! Driver ops for C02 (re-encoding, conversion, D8 ↔ LDD remapping). -/
namespace Pf.Ops
open Pf.Proto Pf.Fd

namespace C02
def ftOf (k : Nat) : Option Ftype :=
  match k with
  | 1 => some .d8 | 2 => some .ldd | 3 => some .nextxy | _ => none

def dataOut (pre : String) : Except String Data → Out
  | .ok (.u8 _ _ codes) => [(pre ++ ".err", #[0]), (pre ++ ".codes", ofNats codes), (pre ++ ".xs", #[]), (pre ++ ".ys", #[])]
  | .ok (.xy _ _ xs ys) => [(pre ++ ".err", #[0]), (pre ++ ".codes", #[]), (pre ++ ".xs", xs), (pre ++ ".ys", ys)]
  | _ => [(pre ++ ".err", #[1]), (pre ++ ".codes", #[]), (pre ++ ".xs", #[]), (pre ++ ".ys", #[])]

/-- declarative encoding -/
def specEncode (t : Ftype) (nrow ncol : Nat) (ds : Array Nat) : Except String Data :=
  match t with
  | .d8 => match Spec.encodeD8 ncol ds with
    | some c => .ok (.u8 nrow ncol c)
    | none => .error "ValueError"
  | .ldd => match Spec.encodeLdd ncol ds with
    | some c => .ok (.u8 nrow ncol c)
    | none => .error "ValueError"
  | .nextxy => .ok (.xy nrow ncol (Spec.encodeXY ncol ds).1 (Spec.encodeXY ncol ds).2)
end C02

open C02 in
def opsC02 : List (String × Op) := [
  -- `FlwdirRaster.to_array(ftype)` on a network given by idxs_ds (sentinel = n)
  ("c02.to_array", fun a => do
    let ds ← a.nats "ds"
    let nrow ← a.nat "nrow"
    let ncol ← a.nat "ncol"
    match ftOf (← a.nat "ft") with
    | none => throw "bad-ft"
    | some t =>
      let m := toArray t nrow ncol ds
      -- model round trip: decode the model's export again
      let rt : Out := match m with
        | .ok d => match decodeData t d with
          | .ok dec => [("model.rt.ds", ofNats dec.ds), ("model.rt.pits", ofNats dec.pits)]
          | .error _ => [("model.rt.ds", #[]), ("model.rt.pits", #[])]
        | .error _ => [("model.rt.ds", #[]), ("model.rt.pits", #[])]
      pure (dataOut "model" m ++ dataOut "spec" (specEncode t nrow ncol ds) ++ rt ++
        [("spec.d8links", ofBool (Spec.d8links ncol ds))])),
  -- export of a decoded raster to its own format = documented canonicalisation of the raster
  ("c02.canon", fun a => do
    let nrow ← a.nat "nrow"
    let ncol ← a.nat "ncol"
    match ftOf (← a.nat "ft") with
    | none => throw "bad-ft"
    | some .d8 =>
      let codes ← a.nats "codes"
      pure (dataOut "model" (toArray .d8 nrow ncol (fromArrayD8 nrow ncol codes).ds) ++
            dataOut "spec" (.ok (.u8 nrow ncol (Spec.canonTab 0 Spec.d8Nodata nrow ncol (Spec.readD8 ncol codes) codes))))
    | some .ldd =>
      let codes ← a.nats "codes"
      pure (dataOut "model" (toArray .ldd nrow ncol (fromArrayLdd nrow ncol codes).ds) ++
            dataOut "spec" (.ok (.u8 nrow ncol (Spec.canonTab 5 Spec.lddNodata nrow ncol (Spec.readLdd ncol codes) codes))))
    | some .nextxy =>
      let xs ← a.ints "xs"
      let ys ← a.ints "ys"
      let c := Spec.canonXY nrow ncol xs ys
      pure (dataOut "model" (toArray .nextxy nrow ncol (fromArrayXY nrow ncol xs ys).ds) ++
            dataOut "spec" (.ok (.xy nrow ncol c.1 c.2)))),
  -- `d8_to_ldd` (dir 0) / `ldd_to_d8` (dir 1); `impl` = the implementation's output, on which the
  -- meaning-preservation certificate is evaluated
  ("c02.remap", fun a => do
    let dir ← a.nat "dir"
    let codes ← a.nats "codes"
    let impl ← a.nats "impl"
    let f := if dir = 0 then d8ToLdd else lddToD8
    let msrc := if dir = 0 then Spec.meaningD8 else Spec.meaningLdd
    let mdst := if dir = 0 then Spec.meaningLdd else Spec.meaningD8
    let ok := impl.size == codes.size && (List.range codes.size).all fun i => mdst impl[i]! == msrc codes[i]!
    pure [("model.out", ofNats (codes.map f)), ("spec.meaning_ok", ofBool ok)])
]
end Pf.Ops
