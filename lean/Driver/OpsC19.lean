import PfVerif.Model.C19
import Driver.Proto
/-! Driver ops for C19 (stream vectorisation). Lists of index arrays travel as `lens` + `flat`. -/
namespace Pf.Ops
open Pf.Proto

def unflatten : List Nat → List Nat → List (List Nat)
  | [], _ => []
  | l :: ls, flat => flat.take l :: unflatten ls (flat.drop l)

def lensOf (ps : List (List Nat)) : Array Int := ofNatList (ps.map List.length)
def flatOf (ps : List (List Nat)) : Array Int := ofNatList ps.flatten

def optMask (a : Args) : Option (Array Bool) := a.optBools "mask"

/-- the seven clauses of `StreamsOK` as 0/1 flags (for diagnosis) -/
def certFlags (ds : Array Nat) (mask : Option (Array Bool)) (maxLen : Nat) (feats : List (List Nat)) :
    Array Int :=
  #[okLinked ds mask feats, okOnce feats, okCover ds mask feats, okInterior ds mask feats,
    okEnds ds mask maxLen feats, okPits ds mask feats, okSize maxLen feats].map fun b => if b then 1 else 0

def opsC19 : List (String × Op) := [
  ("streams", fun a => do
    let ds ← a.nats "ds"
    let seq ← a.natList "seq"
    let mask := optMask a
    let maxLen ← a.nat "max_len"
    let impl := unflatten (← a.natList "impl.lens") (← a.natList "impl.flat")
    match streamsModel ds seq mask maxLen with
    | none => throw "fuel"
    | some m =>
      pure [("model.lens", lensOf m), ("model.flat", flatOf m),
            ("topo", ofBool (isTopo ds seq)),
            ("closed", ofBool (dsClosed ds mask)),
            -- hypothesis of `streams_model_ok`: the order contains every stream cell
            ("covers", ofBool ((List.range ds.size).all fun i => !inStream ds mask i || seq.contains i)),
            ("spec.ok", ofBool (StreamsOK ds mask maxLen impl)),
            ("spec.flags", certFlags ds mask maxLen impl),
            ("model.ok", ofBool (StreamsOK ds mask maxLen m)),
            -- hypothesis linking `walk_spec` (array `upstream_count`) to the certificate's declarative `nupM`
            ("nup.ok", ofBool ((List.range ds.size).all fun v =>
              !isValid ds v || (upstreamCount ds mask)[v]! == (nupM ds mask v : Int)))]),
  ("split", fun a => do
    -- the split of a stream of `l` vertices 0..l-1 with maximum length `max_len`
    let l ← a.nat "l"
    let maxLen ← a.nat "max_len"
    let ps := splitPieces (List.range l) maxLen
    let (n, k) := splitNK l maxLen
    -- declarative facts of `split_arith`, evaluated (chain, cover, non-empty last, size bound)
    let chain := (ps.zip ps.tail).all fun (p, q) => p.getLast? == q.head? && p.getLast? != none
    let cover := ps.flatMap pairsOf == pairsOf (List.range l)
    let size := maxLen == 0 || ps.all fun p => 2 * p.length ≤ 3 * maxLen + 1
    let lastNonEmpty := ps.all fun p => p.length ≥ 1
    -- `split_concat`: the first piece followed by the later pieces without their first vertex
    let join := (match ps with | [] => [] | p :: rest => p ++ rest.flatMap List.tail) == List.range l
    pure [("model.lens", lensOf ps), ("model.flat", flatOf ps), ("n", #[(n : Int)]), ("k", #[(k : Int)]),
          ("spec.chain", ofBool chain), ("spec.cover", ofBool cover), ("spec.size", ofBool size),
          ("spec.nonempty", ofBool lastNonEmpty), ("spec.join", ofBool join)]),
  ("features", fun a => do
    let paths := unflatten (← a.natList "lens") (← a.natList "flat")
    let nmaps ← a.nat "nmaps"
    let mapsFlat ← a.ints "maps"
    let n ← a.nat "n"
    let maps := (List.range nmaps).map fun k => (mapsFlat.extract (k * n) ((k + 1) * n))
    let coord : Nat → Int × Int ←
      match a.optInts "xs", a.optInts "ys" with
      | some xs, some ys => pure fun i => (xs[i]!, ys[i]!)
      | _, _ => do
        let t ← a.ints "transform"
        let ncol ← a.nat "ncol"
        pure (centre2 ncol t)
    let fs := featuresModel paths coord maps
    -- declarative: one feature per path with at least two vertices, in order
    let kept := paths.filter (·.length ≥ 2)
    pure [("model.lens", lensOf (fs.map (·.cells))),
          ("model.x", ((fs.map fun f => f.coords.map (·.1)).flatten).toArray),
          ("model.y", ((fs.map fun f => f.coords.map (·.2)).flatten).toArray),
          ("model.idx", ofNatList (fs.map (·.idx))),
          ("model.idx_ds", ofNatList (fs.map (·.idxDs))),
          ("model.pit", (fs.map fun f => if f.pit then (1 : Int) else 0).toArray),
          ("model.props", ((fs.map (·.props)).flatten).toArray),
          ("spec.idx", ofNatList (kept.map (·.head!))),
          ("spec.idx_ds", ofNatList (kept.map (·.getLast!))),
          ("spec.props", ((kept.map fun p => maps.map (·[p.head!]!)).flatten).toArray),
          ("spec.cells", flatOf kept)]),
  ("vectorize", fun a => do
    let nxt ← a.nats "nxt"
    let mask := optMask a
    let ts := flwdirTuples nxt mask
    -- declarative: one (i, nxt i) per valid selected cell, increasing i
    let spec := (List.range nxt.size).filterMap fun i =>
      if nxt[i]! != nxt.size && maskAt mask i then some [i, nxt[i]!] else none
    pure [("model.flat", ofNatList (ts.flatMap fun p => [p.1, p.2])), ("spec.flat", flatOf spec)]),
  ("segment_indices", fun a => do
    let nxt ← a.nats "nxt"
    let idxsOut ← a.natList "idxs_out"
    let mask := optMask a
    let maxLen ← a.nat "max_len"
    -- hypotheses of `segment_indices_total` / `segment_indices_total_up` (third round), evaluated when the
    -- network `ds` and the order `seq` the implementation used are passed along
    let hyp : List (String × Array Int) :=
      match a.optInts "ds", a.optInts "seq" with
      | some dsI, some seqI =>
        let ds : Array Nat := dsI.map Int.toNat
        let seq : List Nat := (seqI.map Int.toNat).toList
        let covers := (List.range ds.size).all fun i => !isValid ds i || seq.contains i
        let link := nxt == ds ||
          (nxt.size == ds.size && (List.range ds.size).all fun c =>
            nxt[c]! == ds.size || (decide (nxt[c]! < ds.size) && ds[nxt[c]!]! == c && nxt[c]! != c))
        let outsOk := idxsOut.all fun c => decide (c ≤ ds.size)
        [("hyp.topo", ofBool (isTopo ds seq)), ("hyp.covers", ofBool covers), ("hyp.link", ofBool link),
         ("hyp.outs", ofBool outsOk)]
      | _, _ => []
    match segmentIndices idxsOut nxt mask maxLen with
    | none => throw "fuel"
    | some m => pure ([("model.lens", lensOf m), ("model.flat", flatOf m)] ++ hyp))
]
end Pf.Ops
