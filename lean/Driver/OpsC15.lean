import PfVerif.Model.C15
import Driver.Proto
/-! Driver ops of C15: `adjust1d`, `dem_adjust`, `dem_dig_d4`.
`model.*` = the loop-for-loop model; `spec.*` / `cert.*` = declarative predicates evaluated on the
IMPLEMENTATION's output (argument `impl`), written without reference to the model. -/
namespace Pf.Ops
open Pf.Proto

def countWhere (n : Nat) (p : Nat → Bool) : Int := (((List.range n).filter p).length : Int)

/-- geometric side adjacency on an `nrow × ncol` raster -/
def sideAdjGeo (ncol a b : Nat) : Bool :=
  let ra := a / ncol; let ca := a % ncol; let rb := b / ncol; let cb := b % ncol
  (ra == rb && (ca + 1 == cb || cb + 1 == ca)) || (ca == cb && (ra + 1 == rb || rb + 1 == ra))

def nonIncL : List Int → Bool
  | a :: b :: r => decide (b ≤ a) && nonIncL (b :: r)
  | _ => true

def opsC15 : List (String × Op) := [
  ("adjust1d", fun a => do
    let prof := (← a.ints "prof").toList
    let impl := (← a.ints "impl").toList
    let model := adjust1d prof
    let lo := prof.foldl min (prof.headD 0)
    let hi := prof.foldl max (prof.headD 0)
    pure [("model", model.toArray),
          ("cert.len", ofBool (impl.length == prof.length)),
          ("cert.mono", ofBool (nonIncL impl)),
          ("cert.last", ofBool (impl.getLast? == prof.getLast?)),
          ("cert.range", ofBool (impl.all fun x => decide (lo ≤ x ∧ x ≤ hi))),
          ("cert.id", ofBool (!(nonIncL prof) || impl == prof))]),
  ("dem_adjust", fun a => do
    let ds ← a.nats "ds"
    let seq ← a.natList "seq"
    let elev ← a.ints "elev"
    let impl ← a.ints "impl"
    let n := ds.size
    let model := adjustElevation ds seq elev
    let valid := (List.range n).filter (isValid ds)
    let vals := valid.map (elev[·]!)
    let lo := vals.foldl min (vals.headD 0)
    let hi := vals.foldl max (vals.headD 0)
    let conform := valid.all fun i => decide (elev[ds[i]!]! ≤ elev[i]!)
    pure [("model", model), ("topo", ofBool (isTopo ds seq)),
          ("spec.size", ofBool (impl.size == n && elev.size == n)),
          ("spec.uphill", #[countWhere n fun i => isValid ds i && decide (impl[ds[i]!]! > impl[i]!)]),
          ("spec.outside", #[countWhere n fun i => !(isValid ds i) && impl[i]! != elev[i]!]),
          ("spec.range", #[countWhere n fun i => isValid ds i && !(decide (lo ≤ impl[i]! ∧ impl[i]! ≤ hi))]),
          ("spec.conform", ofBool conform),
          ("spec.fix", ofBool (!conform || impl == elev))]),
  ("dem_dig_d4", fun a => do
    let ds ← a.nats "ds"
    let seq ← a.natList "seq"
    let nrow ← a.nat "nrow"
    let ncol ← a.nat "ncol"
    let elev ← a.ints "elev"
    let impl ← a.ints "impl"
    let nodata ← a.int "nodata"
    let mask := a.optBools "mask"
    let trunc ← a.nat "trunc"
    let dz ← a.int "dz"
    let n := ds.size
    let digf : Int → Int → Int := if trunc = 1 then digTrunc else digExact dz
    let model := digD4 digf ds seq nrow ncol mask nodata elev
    -- considered river cells: cells of the network selected by the mask
    let riv := (List.range n).filter fun i => isValid ds i && maskAt mask i
    let allowed (c : Nat) : Bool := riv.any fun i =>
      sideAdjGeo ncol i c || (isPit ds ds[i]! && sideAdjGeo ncol ds[i]! c)
    pure [("model", model), ("topo", ofBool (isTopo ds seq)),
          ("spec.size", ofBool (impl.size == n && elev.size == n)),
          ("spec.raised", #[countWhere n fun c => decide (impl[c]! > elev[c]!)]),
          ("spec.nodata", #[countWhere n fun c => elev[c]! == nodata && impl[c]! != elev[c]!]),
          ("spec.nonlocal", #[countWhere n fun c => impl[c]! != elev[c]! && !(allowed c)])])
]
end Pf.Ops
