import PfVerif.Model.C03
import Driver.Proto
/-! Driver ops for C03: `model.*` = loop-for-loop models of `core.rank`, `core.idxs_seq`,
`order_cells`, `loop_indices`, `isvalid`, `nnodes`, `repair_loops`; `spec.*` = the fuel-bounded walk
oracle (`specRank`), independent of the algorithms; `cert.*` / `topo` / `complete` = the decidable
certificates of `Props/C03.lean` evaluated on the IMPLEMENTATION's output. -/
namespace Pf.Ops
open Pf.Proto

def natI (n : Nat) : Array Int := #[(n : Int)]

/-- cells whose spec rank satisfies `p` -/
def specCells (ds : Array Nat) (p : Int → Bool) : List Nat :=
  let s := specRank ds
  (List.range ds.size).filter fun i => p s[i]!

def opsC03 : List (String × Op) := [
  -- rank: implementation's rank array `impl` is pushed through the certificate
  ("c03_rank", fun a => do
    let ds ← a.nats "ds"
    let impl ← a.ints "impl"
    match rank ds with
    | none => throw "fuel"
    | some (r, n) =>
      pure [("model.rank", r), ("model.n", natI n), ("spec.rank", specRank ds),
            ("spec.n", natI (specCells ds (fun v => decide (v ≥ 0))).length),
            ("cert.impl", ofBool (checkRankCert ds impl)),
            ("cert.model", ofBool (checkRankCert ds r)),
            ("wf", ofBool (wfB ds))]),
  -- loop_indices / isvalid / nnodes
  ("c03_loops", fun a => do
    let ds ← a.nats "ds"
    match loopIndices ds, isValidNet ds, nnodesRank ds with
    | some l, some v, some k =>
      let sl := specCells ds (fun v => v == -1)
      pure [("model.loops", ofNatList l), ("model.isvalid", ofBool v), ("model.nnodes", natI k),
            ("spec.loops", ofNatList sl), ("spec.isvalid", ofBool sl.isEmpty),
            ("spec.nnodes", natI (specCells ds (fun v => decide (v ≥ 0))).length)]
    | _, _, _ => throw "fuel"),
  -- order_cells: `seq` is the implementation's order
  ("c03_seq", fun a => do
    let ds ← a.nats "ds"
    let seq ← a.natList "seq"
    match rank ds, orderSort ds with
    | some (r, _), some srt =>
      let walk := orderWalk ds
      pure [("topo", ofBool (isTopo ds seq)), ("complete", ofBool (isCompleteTopo ds seq)),
            ("ranksorted", ofBool (rankSorted r seq)),
            ("model.walk", ofNatList walk), ("model.sort", ofNatList srt),
            ("complete.walk", ofBool (isCompleteTopo ds walk)),
            ("complete.sort", ofBool (isCompleteTopo ds srt)),
            ("spec.members", ofNatList (specCells ds (fun v => decide (v ≥ 0))))]
    | _, _ => throw "fuel"),
  -- repair_loops: `impl` = idxs_ds after the call, `implrank` = rank after the call
  ("c03_repair", fun a => do
    let ds ← a.nats "ds"
    let impl ← a.nats "impl"
    let implrank ← a.ints "implrank"
    match repairLoops ds with
    | none => throw "fuel"
    | some m =>
      let s := specRank ds
      let specDs : Array Nat := ((List.range ds.size).map fun i => if s[i]! == -1 then i else ds[i]!).toArray
      pure [("model.ds", ofNats m), ("spec.ds", ofNats specDs),
            ("spec.rank_before", s), ("spec.rank_after", specRank impl),
            ("cert.after", ofBool (checkRankCert impl implrank)),
            ("wf.after", ofBool (wfB impl))])
]

end Pf.Ops
