import PfVerif.Model.C11
import Driver.Proto
/-! Driver ops for C11 (paths and snapping). -/
namespace Pf.Ops
open Pf.Proto

/-- decode the step-length function of a request: `stepmode` 0 = constant `one` (cell units),
1 = projected raster (`ncol`, `xres`, `yres`), 2 = table `steps` (one length per link `i → nxt[i]`) -/
def c11Step (a : Args) : Except String (Nat → Nat → Int) := do
  let mode ← a.nat "stepmode"
  if mode = 0 then pure (stepConst (← a.int "one"))
  else if mode = 1 then pure (distProj (← a.nat "ncol") (← a.int "xres") (← a.int "yres"))
  else pure (stepTab (← a.ints "steps"))

def opsC11 : List (String × Op) := [
  /- `core.path` and `core.snap` on the next-cell array `nxt` (downstream indices or main-upstream
     indices), model (the loop) and spec (least stopping index / iterates / sum of steps) -/
  ("c11_trace", fun a => do
    let nxt ← a.nats "nxt"
    let starts ← a.natList "starts"
    let mask := a.optBools "mask"
    let maxLen := a.optInt "max_length"
    let fuel ← a.nat "fuel"
    let step ← c11Step a
    let mode ← a.nat "stepmode"
    let mut mok : Array Int := #[]
    let mut mpaths : Array Int := #[]
    let mut mplen : Array Int := #[]
    let mut mdist : Array Int := #[]
    let mut sok : Array Int := #[]
    let mut spaths : Array Int := #[]
    let mut splen : Array Int := #[]
    let mut sdist : Array Int := #[]
    let mut msnap : Array Int := #[]
    let mut msdist : Array Int := #[]
    let mut ssnap : Array Int := #[]
    let mut ssdist : Array Int := #[]
    let mut exact := true
    for s in starts do
      match traceFrom nxt mask maxLen step fuel s with
      | none => mok := mok.push 0; mplen := mplen.push 0; mdist := mdist.push 0
      | some (p, d) =>
        mok := mok.push 1; mplen := mplen.push p.length; mdist := mdist.push d
        mpaths := mpaths ++ ofNatList p
        if mode = 1 then
          let ncol ← a.nat "ncol"
          let xres ← a.int "xres"
          let yres ← a.int "yres"
          for (i, j) in p.zip p.tail do
            if !distProjExact ncol xres yres i j then exact := false
      match specTrace nxt mask maxLen step fuel s with
      | none => sok := sok.push 0; splen := splen.push 0; sdist := sdist.push 0
      | some (p, d) =>
        sok := sok.push 1; splen := splen.push p.length; sdist := sdist.push d
        spaths := spaths ++ ofNatList p
      match snapOne nxt mask maxLen step fuel s with
      | none => msnap := msnap.push (-1); msdist := msdist.push 0
      | some (i, d) => msnap := msnap.push i; msdist := msdist.push d
      match specSnap nxt mask maxLen step fuel s with
      | none => ssnap := ssnap.push (-1); ssdist := ssdist.push 0
      | some (i, d) => ssnap := ssnap.push i; ssdist := ssdist.push d
    pure [("model.ok", mok), ("model.paths", mpaths), ("model.plen", mplen), ("model.dist", mdist),
          ("spec.ok", sok), ("spec.paths", spaths), ("spec.plen", splen), ("spec.dist", sdist),
          ("model.snap", msnap), ("model.sdist", msdist), ("spec.snap", ssnap), ("spec.sdist", ssdist),
          ("exact", ofBool exact)]),
  /- `core.main_upstream`: model output, and the argmax certificate evaluated on the
     implementation's output `impl` and on the model's own output -/
  ("c11_main_upstream", fun a => do
    let ds ← a.nats "ds"
    let uparea ← a.ints "uparea"
    let upaMin ← a.int "upa_min"
    let impl ← a.nats "impl"
    let m := mainUpstream ds uparea upaMin
    pure [("model", ofNats m),
          ("spec.impl_ok", ofBool (isMainArgmax ds uparea upaMin impl)),
          ("spec.model_ok", ofBool (isMainArgmax ds uparea upaMin m))]),
  /- `coords_to_idxs` for an unrotated transform: cell containing each point (-1 = outside) -/
  ("c11_cellof", fun a => do
    let nrow ← a.nat "nrow"
    let ncol ← a.nat "ncol"
    let x0 ← a.int "x0"
    let y0 ← a.int "y0"
    let xres ← a.int "xres"
    let yres ← a.int "yres"
    let xs ← a.ints "xs"
    let ys ← a.ints "ys"
    let mut out : Array Int := #[]
    let mut inside : Array Int := #[]
    for (x, y) in xs.toList.zip ys.toList do
      match cellOf nrow ncol x0 y0 xres yres x y with
      | none => out := out.push (-1); inside := inside.push 0
      | some i =>
        out := out.push i
        -- declarative containment test of the returned cell's rectangle (half-open at the far edges)
        let r : Int := (i / ncol : Nat)
        let c : Int := (i % ncol : Nat)
        let inX := if xres > 0 then decide (x0 + c * xres ≤ x ∧ x < x0 + (c + 1) * xres)
                   else decide (x0 + (c + 1) * xres < x ∧ x ≤ x0 + c * xres)
        let inY := if yres > 0 then decide (y0 + r * yres ≤ y ∧ y < y0 + (r + 1) * yres)
                   else decide (y0 + (r + 1) * yres < y ∧ y ≤ y0 + r * yres)
        inside := inside.push (if inX && inY then 1 else 0)
    pure [("model", out), ("spec.inside", inside)])
]
end Pf.Ops
