import PfVerif.Model.C13_bounds2
import Driver.Proto
/-! Driver ops of the C13 extension `C13_bounds2`: access-logging variants of the sweep-shaped kernels outside
`core.py` and of the neighbour loop of `dem.fill_depressions`. Every sweep op returns the model result, `inb`
(every logged index `<` the logged size), `closed` (the sequence holds cells whose downstream entries are cells)
and, per array, the indices touched (`log.<array>`, with multiplicity, newest first). -/
namespace Pf.Ops
open Pf.Proto Pf.C13b2

def c13b2Arrs : List (String × Arr) :=
  [("ds", .ds), ("data", .data), ("out", .out), ("filled", .filled), ("mask", .mask), ("nup", .nup),
   ("us_main", .usMain), ("drain", .drain), ("elevtn", .elevtn), ("uparea", .uparea), ("drainz", .drainz),
   ("drainh", .drainh), ("strmax", .strmax)]

def c13b2Closed (ds : Array Nat) (seq : List Nat) : Bool :=
  seq.all fun i => decide (i < ds.size) && decide (ds[i]! < ds.size)

def c13b2Log (ds : Array Nat) (seq : List Nat) (log : List Acc) : Out :=
  [("inb", ofBool (decide (InB log))), ("closed", ofBool (c13b2Closed ds seq)), ("nacc", #[(log.length : Int)])] ++
    c13b2Arrs.map fun p => ("log." ++ p.1, ofNatList (touched p.2 log))

def c13b2Arrs2 : List (String × Arr2) :=
  [("elevtn", .elevtn), ("done", .done), ("queued", .queued), ("delv", .delv), ("elevtn_out", .elevOut),
   ("d8", .d8), ("isnodata", .isnodata)]

/-- 2-D logs travel as flat lists `r0 c0 r1 c1 …` (integers: a negative row / column is representable) -/
def c13b2Log2 (nrow ncol : Nat) (log : List Acc2) : Out :=
  [("inb", ofBool (decide (InB2 nrow ncol log))), ("nacc", #[(log.length : Int)])] ++
    c13b2Arrs2.map fun p =>
      ("log." ++ p.1, (((log.filter (·.arr == p.2)).map fun e => [e.r, e.c]).flatten).toArray)

def opsC13bounds2 : List (String × Op) := [
  ("c13b2_accuflux", fun a => do
    let ds ← a.nats "ds"
    let seq ← a.natList "seq"
    let r := accufluxL ds seq (← a.ints "data") (← a.int "nodata")
    pure ([("model", r.1)] ++ c13b2Log ds seq r.2)),
  ("c13b2_accuflux_ds", fun a => do
    let ds ← a.nats "ds"
    let seq ← a.natList "seq"
    let r := accufluxDsL ds seq (← a.ints "data") (← a.int "nodata")
    pure ([("model", r.1)] ++ c13b2Log ds seq r.2)),
  ("c13b2_upstream_area", fun a => do
    let ds ← a.nats "ds"
    let seq ← a.natList "seq"
    let r := upstreamAreaL ds seq (← a.nat "ncol") (← a.ints "row_area") (← a.int "nodata")
    pure ([("model", r.1)] ++ c13b2Log ds seq r.2)),
  ("c13b2_fillnodata_upstream", fun a => do
    let ds ← a.nats "ds"
    let seq ← a.natList "seq"
    let r := fillnodataUpstreamL ds seq (← a.ints "data") (← a.int "nodata")
    pure ([("model", r.1)] ++ c13b2Log ds seq r.2)),
  ("c13b2_fillnodata_downstream", fun a => do
    let ds ← a.nats "ds"
    let seq ← a.natList "seq"
    let r := fillnodataDownstreamL ds seq (← a.ints "data") (← a.int "nodata") (← a.nat "how")
    pure ([("model", r.1.map (·.1))] ++ c13b2Log ds seq r.2)),
  ("c13b2_stream_order", fun a => do
    let ds ← a.nats "ds"
    let seq ← a.natList "seq"
    let mask := a.optBools "mask"
    let r := classicOrderWithL ds seq (← a.nats "usmain") (upstreamCount ds mask) mask
    pure ([("model", ofNats r.1)] ++ c13b2Log ds seq r.2)),
  ("c13b2_stream_distance", fun a => do
    let ds ← a.nats "ds"
    let seq ← a.natList "seq"
    let r := streamDistanceL ds seq (a.optBools "mask") (fun _ _ => 1)
    pure ([("model", r.1)] ++ c13b2Log ds seq r.2)),
  ("c13b2_hand", fun a => do
    let ds ← a.nats "ds"
    let seq ← a.natList "seq"
    let r := handL ds seq (← a.bools "drain") (← a.ints "elev")
    pure ([("model", r.1)] ++ c13b2Log ds seq r.2)),
  ("c13b2_floodplains", fun a => do
    let ds ← a.nats "ds"
    let seq ← a.natList "seq"
    let P : FpParams := { elev := ← a.ints "elev", uparea := ← a.ints "uparea", upaMin := ← a.int "upa_min",
                          hnum := ← a.ints "hnum", hden := ← a.int "hden" }
    let r := floodL ds seq P
    pure ([("model", r.1.map (·.1))] ++ c13b2Log ds seq r.2)),
  ("c13b2_strahler", fun a => do
    let ds ← a.nats "ds"
    let seq ← a.natList "seq"
    let r := strahlerL ds seq (a.optBools "mask")
    pure ([("model", ofNats r.1.1)] ++ c13b2Log ds seq r.2)),
  ("c13b2_upstream_sum", fun a => do
    let ds ← a.nats "ds"
    let r := upstreamSumL ds (← a.ints "data") (← a.int "nodata")
    pure ([("model", r.1)] ++ c13b2Log ds [] r.2)),
  ("c13b2_fill_depressions", fun a => do
    let nrow ← a.nat "nrow"
    let ncol ← a.nat "ncol"
    let conn ← a.nat "conn"
    let elev ← a.ints "elev"
    let nod ← a.bools "nod"
    let md ← a.int "max_depth"
    let G : Pf.C06.Grid := ⟨nrow, ncol⟩
    let pits := (a.get? "pits").map fun v => v.toList.map Int.toNat
    let minMode := (← a.nat "min_mode") != 0
    let elvMax := a.optInt "elv_max"
    let lim := decide (md ≥ 0)
    match Pf.C06.seedsOfE G conn elev nod pits minMode elvMax with
    | .error _ => throw "seeds"
    | .ok queued =>
      let q0 := (Pf.C06.seeds0E G conn elev nod pits elvMax).getD queued
      let r := fillL G conn elev nod lim md (if lim then Pf.C06.fuelD G else G.n + 1) queued
      pure ([("model", r.1.f), ("d8", ofNats r.1.d8), ("empty", ofBool r.1.q.isEmpty)] ++
        c13b2Log2 nrow ncol (r.2 ++ initHeapLog G q0))),
  ("c13b2_adjust1d", fun a => do
    let prof ← a.ints "elev"
    let r := adjust1dL prof.toList
    pure ([("model", r.1.e)] ++ c13b2Log #[] [] r.2)),
  ("c13b2_fill_bad", fun a => do     -- the historical order (done[r, c] before the bounds test): negative control
    let nrow ← a.nat "nrow"
    let ncol ← a.nat "ncol"
    let conn ← a.nat "conn"
    let i0 ← a.nat "i0"
    let G : Pf.C06.Grid := ⟨nrow, ncol⟩
    let log := ((Pf.C06.offsets conn).map fun o => visitBadL G i0 o).flatten
    pure (c13b2Log2 nrow ncol log))
]

end Pf.Ops
