import PfVerif.Model.C01_fn
import PfVerif.Model.C09
import PfVerif.Model.C10
import PfVerif.Model.C01_ext
import Driver.Proto
/-! Driver ops of the C01_fn extension (`c01fn.*`): the hand-written models of the straight-line index helpers
(`model.*`: `Pf.subidx2idx` / `C10.cellOf`, `Pf.inD8`, `Pf.cellEdge` / `C10.cellEdge`, `Fd.downstreamIdx`) and the
division-free declarative definitions of `Model/C01_fn.lean` (`spec.*`). The driver never imports `Generated`. -/
namespace Pf.Ops
open Pf.Proto

def opsC01fn : List (String × Op) := [
  /- `upscale.subidx_2_idx(p, subncol, cs, ncol)` and `upscale.cell_edge(p, subncol, cs)` for every `p` of `subidx` -/
  ("c01fn.pixels", fun a => do
    let ps ← a.nats "subidx"
    let subncol ← a.nat "subncol"
    let cs ← a.nat "cs"
    let ncol ← a.nat "ncol"
    pure [("model.cell", ofNats (ps.map fun p => Pf.subidx2idx p subncol cs ncol)),
          ("model.cell10", ofNats (ps.map fun p => Pf.C10.cellOf subncol cs ncol p)),
          ("spec.cell", ofNats (ps.map fun p => Pf.FnSpec.cellOf p subncol cs ncol)),
          ("model.edge", ofBools (ps.map fun p => Pf.cellEdge p subncol cs)),
          ("model.edge10", ofBools (ps.map fun p => Pf.C10.cellEdge subncol cs p)),
          ("spec.edge", ofBools (ps.map fun p => Pf.FnSpec.onCellEdge p subncol cs))]),
  /- `upscale.in_d8(idx0[k], idxds[k], ncol)` -/
  ("c01fn.ind8", fun a => do
    let i0 ← a.nats "idx0"
    let i1 ← a.nats "idxds"
    let ncol ← a.nat "ncol"
    let ks := (List.range (min i0.size i1.size)).toArray
    pure [("model.ind8", ofBools (ks.map fun k => Pf.inD8 i0[k]! i1[k]! ncol)),
          ("spec.ind8", ofBools (ks.map fun k => Pf.FnSpec.near i0[k]! i1[k]! ncol))]),
  /- `core_d8|core_ldd._downstream_idx(idx0, flat, (nrow, ncol))` for every cell; `ft`: 1 = d8, 2 = ldd -/
  ("c01fn.down", fun a => do
    let ft ← a.nat "ft"
    let nrow ← a.nat "nrow"
    let ncol ← a.nat "ncol"
    let codes ← a.nats "codes"
    let (drdc, read, alpha, mv) ←
      match ft with
      | 1 => pure (Fd.d8Drdc, Fd.Spec.readD8 ncol codes, Fd.Spec.d8Alphabet, Fd.Spec.d8Nodata)
      | 2 => pure (Fd.lddDrdc, Fd.Spec.readLdd ncol codes, Fd.Spec.lddAlphabet, Fd.Spec.lddNodata)
      | _ => throw "bad-ft"
    let cells := List.range (nrow * ncol)
    pure [("model.down", ofNatList (cells.map (Fd.downstreamIdx drdc nrow ncol codes))),
          ("spec.down", ofNatList (cells.map (Fd.Spec.downOf nrow ncol read))),
          ("spec.defined", ofBools (cells.map fun i => alpha.contains codes[i]! && codes[i]! != mv).toArray)])
]
end Pf.Ops
