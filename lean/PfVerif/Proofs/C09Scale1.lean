import PfVerif.Proofs.C09Arith
import PfVerif.Proofs.C09Trace
import PfVerif.Proofs.C09Rep
/-! Scale factor 1 (C09): every kernel degenerates to the identity. Core Lean only. -/
namespace Pf

theorem Geo.ncol_one (g : Geo) (h1 : g.cs = 1) : g.ncol = g.subncol := by
  unfold Geo.ncol; rw [h1, ceilDiv_one]

theorem Geo.ncell_one (g : Geo) (ds : Array Nat) (hg : g.OK ds) (h1 : g.cs = 1) : g.ncell = ds.size := by
  unfold Geo.ncell Geo.nrow Geo.ncol; rw [h1, ceilDiv_one, ceilDiv_one, hg.size]; rfl

theorem Geo.cell_one (g : Geo) (h1 : g.cs = 1) (p : Nat) : g.cell p = p := by
  unfold Geo.cell; rw [g.ncol_one h1, h1]; exact subidx2idx_one p g.subncol

theorem Geo.cellfun_one (g : Geo) (h1 : g.cs = 1) :
    (fun q => subidx2idx q g.subncol g.cs g.ncol) = fun q => q :=
  funext fun q => g.cell_one h1 q

/-- at scale 1 every valid pixel with positive upstream area that is a candidate represents its own cell -/
theorem repCells_one (ds : Array Nat) (upa : Array Int) (cand : Nat → Bool) (g : Geo) (hg : g.OK ds)
    (h1 : g.cs = 1) (hupa : ∀ p, p < ds.size → ds[p]! ≠ ds.size → 0 < upa[p]!)
    (hcand : ∀ p, p < ds.size → ds[p]! ≠ ds.size → ds[p]! = p ∨ cand p = true) :
    ∀ c, c < ds.size →
      (repCells ds upa cand g.cell g.ncell)[c]! = if ds[c]! = ds.size then ds.size else c := by
  intro c hc
  obtain ⟨_, h2⟩ := repCells_spec ds upa cand g.cell g.ncell
  have hcn : c < g.ncell := by rw [g.ncell_one ds hg h1]; exact hc
  rcases h2 c hcn with ⟨a, b⟩ | ⟨a, b, c', _⟩
  · by_cases hv : ds[c]! = ds.size
    · rw [if_pos hv]; exact a
    · have := b c hc ⟨hv, hcand c hc hv⟩ (g.cell_one h1 c)
      have := hupa c hc hv
      omega
  · rw [g.cell_one h1] at c'
    rw [c'] at b ⊢
    rw [if_neg b.1]

/-- the degenerate window of `dmm_nextidx` at scale 1: a pixel is outside iff it is not the cell itself -/
theorem dmmOutside_one (n c q : Nat) (hn : 0 < n) :
    dmmOutside n 0 (2 * Int.ofNat (c / n)) (2 * Int.ofNat (c % n)) q = true ↔ q ≠ c := by
  unfold dmmOutside
  simp only [Bool.or_eq_true, decide_eq_true_eq, Int.ofNat_eq_natCast]
  constructor
  · rintro h rfl
    rcases h with h | h <;> omega
  · intro hne
    have h1 := Nat.div_add_mod q n
    have h2 := Nat.div_add_mod c n
    by_cases hd : q / n = c / n
    · right
      have : q % n ≠ c % n := by
        intro hm; rw [hd, hm] at h1; omega
      omega
    · left; omega

/-- the expected representative / outlet array at scale 1: every valid pixel is its own outlet -/
def identOut (ds : Array Nat) (c : Nat) : Nat := if ds[c]! = ds.size then ds.size else c

theorem eamNextidx_one (ds rep : Array Nat) (ea : Array Bool) (g : Geo) (h1 : g.cs = 1) (hwf : FineWF ds)
    (hrs : rep.size = ds.size) (hrep : ∀ c, c < ds.size → rep[c]! = identOut ds c)
    (hea : ∀ p, p < ds.size → ds[p]! ≠ ds.size → ea[p]! = true) :
    ∃ cds, eamNextidx ds rep ea g.subncol g.cs g.ncol = some cds ∧ cds.size = ds.size ∧
      ∀ c, c < ds.size → cds[c]! = ds[c]! := by
  unfold eamNextidx
  rw [g.cellfun_one h1, hrs]
  apply collect_eq
  intro c hc
  simp only [hrep c hc, identOut]
  by_cases hv : ds[c]! = ds.size
  · simp [hv]
  · have hnc : c ≠ ds.size := Nat.ne_of_lt hc
    have hv1 := hwf c hc hv
    simp only [hv, if_false, hnc, eamTrace, hea _ hv1.1 hv1.2, and_true]
    by_cases hp : ds[c]! = c <;> simp [hp]

theorem dmmTrace_one (ds : Array Nat) (outside : Nat → Bool) (c f : Nat) (hoc : outside c = false)
    (h : ds[c]! = c ∨ (outside ds[c]! = true ∧ ds[ds[c]!]! ≠ c)) :
    dmmTrace ds (fun q => q) outside c (f + 2) c c = some ds[c]! := by
  simp only [dmmTrace, hoc]
  by_cases hp : ds[c]! = c
  · simp [hp]
  · rcases h with h | ⟨h1, h2⟩
    · exact absurd h hp
    · simp [hp, h1, h2]

theorem dmmNextidx_one (ds rep : Array Nat) (g : Geo) (hn : 0 < g.subncol) (h1 : g.cs = 1) (hwf : FineWF ds)
    (hrs : rep.size = ds.size) (hrep : ∀ c, c < ds.size → rep[c]! = identOut ds c)
    (hno2 : ∀ p, p < ds.size → ds[p]! ≠ ds.size → ds[p]! ≠ p → ds[ds[p]!]! ≠ p) :
    ∃ cds, dmmNextidx ds rep g.subncol g.cs g.ncol = some cds ∧ cds.size = ds.size ∧
      ∀ c, c < ds.size → cds[c]! = ds[c]! := by
  unfold dmmNextidx
  rw [g.cellfun_one h1, hrs]
  apply collect_eq
  intro c hc
  simp only [hrep c hc, identOut, dmmCentre, if_pos h1, g.ncol_one h1]
  by_cases hv : ds[c]! = ds.size
  · simp [hv]
  · have hnc : c ≠ ds.size := Nat.ne_of_lt hc
    have hfu : ds.size + 1 = (ds.size - 1) + 2 := by omega
    have hoc : dmmOutside g.subncol 0 (2 * Int.ofNat (c / g.subncol)) (2 * Int.ofNat (c % g.subncol)) c = false := by
      cases hb : dmmOutside g.subncol 0 (2 * Int.ofNat (c / g.subncol)) (2 * Int.ofNat (c % g.subncol)) c
      · rfl
      · exact absurd rfl ((dmmOutside_one g.subncol c c hn).mp hb)
    simp only [hv, if_false, hnc]
    rw [hfu]
    apply dmmTrace_one _ _ _ _ hoc
    by_cases hp : ds[c]! = c
    · exact Or.inl hp
    · exact Or.inr ⟨(dmmOutside_one g.subncol c ds[c]! hn).mpr hp, hno2 c hc hv hp⟩

theorem ihuOutlets_one (ds rep : Array Nat) (g : Geo) (h1 : g.cs = 1)
    (hrs : rep.size = ds.size) (hrep : ∀ c, c < ds.size → rep[c]! = identOut ds c) :
    ∃ out, ihuOutlets ds rep g.subncol g.cs g.ncol = some out ∧ out.size = ds.size ∧
      ∀ c, c < ds.size → out[c]! = identOut ds c := by
  unfold ihuOutlets
  rw [g.cellfun_one h1, hrs]
  apply collect_eq
  intro c hc
  simp only [hrep c hc, identOut]
  by_cases hv : ds[c]! = ds.size
  · simp [hv]
  · have hnc : c ≠ ds.size := Nat.ne_of_lt hc
    simp only [hv, if_false, hnc, ihuOutTrace]
    by_cases hp : ds[c]! = c
    · simp [hp]
    · have : c ≠ ds[c]! := fun e => hp e.symm
      simp [this]

theorem get!_map_fst' (a : Array (Nat × Bool)) (c : Nat) (hc : c < a.size) : (a.map (·.1))[c]! = a[c]!.1 := by
  rw [getElem!_pos (a.map (·.1)) c (by simpa using hc), getElem!_pos a c hc, Array.getElem_map]

theorem ihuNextidx_one (ds out : Array Nat) (ea : Array Bool) (g : Geo) (h1 : g.cs = 1) (hwf : FineWF ds)
    (hos : out.size = ds.size) (hout : ∀ c, c < ds.size → out[c]! = identOut ds c)
    (hd8 : ∀ p, p < ds.size → ds[p]! ≠ ds.size → inD8 p ds[p]! g.subncol = true) :
    ∃ cds, ihuNextidx ds out ea g.subncol g.cs g.ncol = some (cds, []) ∧ cds.size = ds.size ∧
      ∀ c, c < ds.size → cds[c]! = ds[c]! := by
  have key : ∀ f : Nat → Option (Nat × Bool), (∀ c, c < out.size → f c = some (ds[c]!, false)) →
      ∃ cds, ((collect out.size f).map fun a =>
        (a.map (·.1), (List.range a.size).filter fun c => a[c]!.2)) = some (cds, []) ∧ cds.size = ds.size ∧
        ∀ c, c < ds.size → cds[c]! = ds[c]! := by
    intro f hf
    obtain ⟨a, ha, hsa, hva⟩ := collect_eq out.size f (fun c => (ds[c]!, false)) hf
    refine ⟨a.map (·.1), ?_, by simp [hsa, hos], fun c hc => ?_⟩
    · rw [ha, Option.map_some]
      congr 2
      rw [List.filter_eq_nil_iff]
      intro c hc
      rw [hva c (hsa ▸ List.mem_range.mp hc)]
      simp
    · rw [get!_map_fst' a c (by rw [hsa, hos]; exact hc), hva c (hos ▸ hc)]
  have hsub : ∀ q, subidx2idx q g.subncol g.cs g.subncol = q := fun q => by
    rw [h1]; exact subidx2idx_one q _
  unfold ihuNextidx
  simp only [g.ncol_one h1, hsub]
  apply key
  intro c hc
  rw [hos] at hc
  rw [hout c hc, hos]
  unfold identOut
  by_cases hv : ds[c]! = ds.size
  · simp [hv]
  · have hnc : c ≠ ds.size := Nat.ne_of_lt hc
    have hv1 := hwf c hc hv
    have ho1 : out[ds[c]!]! = ds[c]! := by rw [hout _ hv1.1]; unfold identOut; rw [if_neg hv1.2]
    simp only [hv, if_false, hnc, ihuNextTrace, ho1, true_or, if_true, hd8 c hc hv]
    simp

end Pf
