import PfVerif.Proofs.C18PfStem
/-! Pfafstetter, joint invariant (stage 4), part 2: the global invariant `PfG` of the worklist loop
(partition invariant + distinct outlets carry distinct codes + every coded cell has a coded downstream
cell), the chain structure of the cells carrying one code that follows from it, and its preservation by
a sub-basin fill (`step_sub`) and by an inter-basin fill (`step_int`). Core Lean only. -/
namespace Pf.C18
open Pf

theorem lt_size_of_get!_ne_zero {br : Array Int} {s : Nat} (h : br[s]! ≠ 0) : s < br.size := by
  by_cases hs : s < br.size
  · exact hs
  · exfalso; apply h
    simp [hs]

/-- global invariant of `pfaf_branch` / `idxs` -/
structure PfG (ds usMain : Array Nat) (so br : Array Int) (idxs : List Nat) : Prop where
  inv : PfafInv ds usMain so br idxs
  inj : ∀ o ∈ idxs, ∀ o' ∈ idxs, br[o]! = br[o']! → o = o'
  dn : ∀ s, s < ds.size → br[s]! ≠ 0 → br[ds[s]!]! ≠ 0

variable {ds usMain : Array Nat} {seq : List Nat} {uparea so br : Array Int} {idxs : List Nat}

theorem PfG.lt (g : PfG ds usMain so br idxs) {s : Nat} (h : br[s]! ≠ 0) : s < ds.size := by
  rw [← g.inv.size]; exact lt_size_of_get!_ne_zero h

theorem PfG.coded_mem (g : PfG ds usMain so br idxs) (c : PfCtx ds usMain seq uparea) {s : Nat}
    (h : br[s]! ≠ 0) : s ∈ seq :=
  c.hall s (g.lt h) (g.lt (g.dn s (g.lt h) h))

theorem PfG.init (ds usMain : Array Nat) (so : Array Int) :
    PfG ds usMain so (Array.replicate ds.size 0) [] where
  inv := PfafInv.init ds usMain so
  inj := by simp
  dn := fun s _ hs => absurd (replicate_get! ds.size 0 rfl s) hs

/-- **chain structure**: every coded cell is a main-upstream iterate of a returned outlet, and all
cells in between carry the same code -/
theorem PfG.chain (g : PfG ds usMain so br idxs) (c : PfCtx ds usMain seq uparea) :
    ∀ s ∈ seq, br[s]! ≠ 0 → ∃ o ∈ idxs, ∃ m, s = iterU usMain m o ∧
      ∀ k, k ≤ m → br[iterU usMain k o]! = br[s]! := by
  refine c.topo.induction _ (fun s hs ih hne => ?_)
  by_cases hmem : s ∈ idxs
  · refine ⟨s, hmem, 0, rfl, fun k hk => ?_⟩
    have : k = 0 := by omega
    subst this; rfl
  · obtain ⟨h1, h2, h3, _⟩ := g.inv.down s (c.hb s hs) hne hmem
    obtain ⟨o, ho, m, hm, hk⟩ := (ih h1).2 (by rw [h2]; exact hne)
    refine ⟨o, ho, m + 1, ?_, fun k hk' => ?_⟩
    · rw [iterU_succ', ← hm, h3]
    · by_cases hkm : k ≤ m
      · rw [hk k hkm, h2]
      · have : k = m + 1 := by omega
        subst this
        rw [iterU_succ', ← hm, h3]

/-- two cells with the same code: the one with the smaller (or equal) upstream area is the other one
or lies above it on the main stem, all cells in between carrying the code too -/
theorem PfG.chain_above (g : PfG ds usMain so br idxs) (c : PfCtx ds usMain seq uparea)
    {a d : Nat} {w : Int} (ha : a ∈ seq) (hd : d ∈ seq) (hw : w ≠ 0) (hca : br[a]! = w)
    (hcd : br[d]! = w) (hle : uparea[a]! ≤ uparea[d]!) :
    a = d ∨ ∃ j, a = iterU usMain j usMain[d]! ∧
      ∀ j', j' ≤ j → br[iterU usMain j' usMain[d]!]! = w := by
  obtain ⟨o, ho, m, hm, hk⟩ := g.chain c a ha (by rw [hca]; exact hw)
  obtain ⟨o', ho', m', hm', hk'⟩ := g.chain c d hd (by rw [hcd]; exact hw)
  have hoo : o = o' := by
    apply g.inj o ho o' ho'
    have h1 := hk 0 (Nat.zero_le _)
    have h2 := hk' 0 (Nat.zero_le _)
    simp only [iterU] at h1 h2
    rw [h1, h2, hca, hcd]
  subst hoo
  rw [hca] at hk
  rw [hcd] at hk'
  by_cases hmm : m ≤ m'
  · left
    have hd' : d = iterU usMain (m' - m) a := by
      rw [hm, ← iterU_add, hm']; congr 1; omega
    have hlt : ∀ k, k ≤ m' - m → iterU usMain k a < ds.size := by
      intro k hk2
      rw [hm, ← iterU_add]
      exact g.lt (by rw [hk' (m + k) (by omega)]; exact hw)
    have hu := c.upa_iterU (x := a) (m' - m) hlt
    rw [← hd'] at hu
    by_cases h0 : m' - m = 0
    · rw [h0] at hd'; exact hd'.symm
    · have := hu.2 (by omega); omega
  · right
    refine ⟨m - m' - 1, ?_, fun j' hj' => ?_⟩
    · have : a = iterU usMain (m - m' - 1 + 1) d := by
        rw [hm, hm', ← iterU_add]; congr 1; omega
      rw [this]; rfl
    · have : iterU usMain j' usMain[d]! = iterU usMain (m' + (j' + 1)) o := by
        rw [iterU_add, ← hm']; rfl
      rw [this]
      exact hk _ (by omega)

/-! ### a sub-basin (or pit) fill -/

theorem PfG.step_sub (g : PfG ds usMain so br idxs)
    (hus : ∀ i, i < ds.size → usMain[i]! < ds.size → usMain[i]! ≠ i ∧ ds[usMain[i]!]! = i)
    {x : Nat} (hx : x < ds.size) (hx0 : br[x]! = 0) (hdx : ds[x]! = x ∨ br[ds[x]!]! ≠ 0)
    {v : Int} (hv : v ≠ 0) (hfresh : ∀ s : Nat, br[s]! ≠ v) {f : Nat} {r : Array Int}
    (hr : stemFill usMain ds.size (fun u _ => so[u]! == 0) v f x (br.setIfInBounds x v) = some r) :
    PfG ds usMain so r (idxs ++ [x]) ∧
    (∀ s, r[s]! = br[s]! ∨ (r[s]! = v ∧ br[s]! = 0 ∧ (s = x ∨ (ds[s]! ≠ s ∧ br[ds[s]!]! = 0)))) ∧
    (∀ P : Nat → Prop, P x →
      (∀ s, s ≠ x → s < ds.size → ds[s]! < ds.size → br[s]! = 0 → P ds[s]! → usMain[ds[s]!]! = s →
        so[s]! ≠ 0 → P s) →
      ∀ s, r[s]! ≠ br[s]! → P s) := by
  have hsz1 : (br.setIfInBounds x v).size = ds.size := by simp [g.inv.size]
  have hset : (br.setIfInBounds x v)[x]! = v := by
    rw [get!_setIfInBounds]; simp [g.inv.size, hx]
  have hother : ∀ s, s ≠ x → (br.setIfInBounds x v)[s]! = br[s]! := by
    intro s hs
    rw [get!_setIfInBounds]
    have : ¬ (x = s ∧ x < br.size) := fun hc => hs hc.1.symm
    simp [this]
  obtain ⟨T, hTx, hTlt, hTout, hTin, hTw, _, hTk⟩ :=
    stemFill_spec2 ds usMain hus _ v f x _ r hx hsz1 hset hr
  have hrT : ∀ s, ¬ T s → r[s]! = br[s]! := fun s hs => by
    rw [hTout s hs, hother s (fun hc => hs (hc ▸ hTx))]
  have hk0 : ∀ k, (∀ j, j ≤ k → T (iterU usMain j x)) → br[iterU usMain k x]! = 0 := by
    intro k
    induction k with
    | zero => intro _; exact hx0
    | succ k ih =>
      intro hj
      have h0 := ih (fun j hj' => hj j (by omega))
      have hc := hTlt _ (hj k (by omega))
      have hs := hTlt _ (hj (k + 1) (Nat.le_refl _))
      rw [iterU_succ'] at hs ⊢
      obtain ⟨_, h2⟩ := hus _ hc hs
      apply Classical.byContradiction
      intro hne
      have := g.dn _ hs hne
      rw [h2] at this
      exact this h0
  have hTz : ∀ s, T s → br[s]! = 0 := by
    intro s hs
    obtain ⟨k, hk, hkj⟩ := hTk s hs
    rw [hk]; exact hk0 k hkj
  have hold : ∀ o ∈ idxs, ¬ T o := fun o ho ht => (g.inv.out o ho).2 (hTz o ht)
  refine ⟨⟨g.inv.step_sub hus hx hv hr, ?_, ?_⟩, fun s => ?_, fun P hPx hPs s hs => ?_⟩
  rotate_left 3
  · -- closure: every written cell is reached from `x` along main-upstream steps through stream cells
    have hTs : T s := Classical.byContradiction fun hn => hs (hrT s hn)
    obtain ⟨k, hk, hkj⟩ := hTk s hTs
    rw [hk]
    clear hk hs hTs
    induction k with
    | zero => exact hPx
    | succ k ih =>
      have h0 := ih (fun j hj' => hkj j (by omega))
      have hc := hTlt _ (hkj k (by omega))
      have hT1 := hkj (k + 1) (Nat.le_refl _)
      have hs1 := hTlt _ hT1
      rw [iterU_succ'] at hT1 hs1 ⊢
      by_cases hsx : usMain[iterU usMain k x]! = x
      · rw [hsx]; exact hPx
      · obtain ⟨_, h2⟩ := hus _ hc hs1
        obtain ⟨_, _, h5, h6⟩ := hTw _ hT1 hsx
        refine hPs _ hsx hs1 (by rw [h2]; exact hc) (hTz _ hT1) (by rw [h2]; exact h0) h5 ?_
        simpa using h6
  · intro o ho o' ho' heq
    simp only [List.mem_append, List.mem_singleton] at ho ho'
    rcases ho with ho | ho <;> rcases ho' with ho' | ho'
    · rw [hrT o (hold o ho), hrT o' (hold o' ho')] at heq
      exact g.inj o ho o' ho' heq
    · subst ho'
      rw [hrT o (hold o ho), hTin _ hTx] at heq
      exact absurd heq (hfresh o)
    · subst ho
      rw [hrT o' (hold o' ho'), hTin _ hTx] at heq
      exact absurd heq.symm (hfresh o')
    · rw [ho, ho']
  · intro s hs hne
    by_cases ht : T s
    · by_cases hsx : s = x
      · subst hsx
        rcases hdx with hd | hd
        · rw [hd]; exact hne
        · by_cases htd : T ds[s]!
          · rw [hTin _ htd]; exact hv
          · rw [hrT _ htd]; exact hd
      · rw [hTin _ (hTw s ht hsx).2.1]; exact hv
    · rw [hrT s ht] at hne
      have hd := g.dn s hs hne
      by_cases htd : T ds[s]!
      · rw [hTin _ htd]; exact hv
      · rw [hrT _ htd]; exact hd
  · by_cases ht : T s
    · right
      refine ⟨hTin s ht, hTz s ht, ?_⟩
      by_cases hsx : s = x
      · exact Or.inl hsx
      · obtain ⟨h1, h2, _, _⟩ := hTw s ht hsx
        exact Or.inr ⟨h1, hTz _ h2⟩
    · exact Or.inl (hrT s ht)

/-! ### an inter-basin fill -/

theorem PfG.step_int (g : PfG ds usMain so br idxs) (c : PfCtx ds usMain seq uparea)
    {d : Nat} (hd : d ∈ seq) (hu : usMain[d]! < ds.size) (hni : usMain[d]! ∉ idxs)
    {w v : Int} (hw : w ≠ 0) (hcd : br[d]! = w) (hv : v ≠ 0) (hfresh : ∀ s : Nat, br[s]! ≠ v)
    {f : Nat} {r : Array Int}
    (hr : stemFill usMain ds.size (fun _ y => y != w) v f usMain[d]!
      (br.setIfInBounds usMain[d]! v) = some r) :
    PfG ds usMain so r (idxs ++ [usMain[d]!]) ∧
    (br[usMain[d]!]! = 0 ∨ br[usMain[d]!]! = w) ∧
    (∀ s, r[s]! = br[s]! ∨
      (r[s]! = v ∧ (s = usMain[d]! ∨ br[s]! = w) ∧ uparea[s]! < uparea[d]!)) ∧
    (∀ a ∈ seq, br[a]! = w → uparea[a]! ≤ uparea[d]! → a = d ∨ r[a]! = v) ∧
    (∀ o ∈ idxs, r[o]! = br[o]!) ∧ r[usMain[d]!]! = v := by
  obtain ⟨x, hxe⟩ : ∃ x, x = usMain[d]! := ⟨_, rfl⟩
  rw [← hxe] at hu hni hr ⊢
  have hdlt := c.hb d hd
  have hxs : x ∈ seq ∧ ds[x]! = d ∧ x ≠ d ∧ uparea[x]! < uparea[d]! := by
    rw [hxe]; exact c.ustep hdlt (hxe ▸ hu)
  have hpre : br[x]! = 0 ∨ br[x]! = w := by
    by_cases hz : br[x]! = 0
    · exact Or.inl hz
    · right
      obtain ⟨_, h2, _, _⟩ := g.inv.down x hu hz hni
      rw [hxs.2.1] at h2
      rw [← h2]; exact hcd
  have hsz1 : (br.setIfInBounds x v).size = ds.size := by simp [g.inv.size]
  have hset : (br.setIfInBounds x v)[x]! = v := by
    rw [get!_setIfInBounds]; simp [g.inv.size, hu]
  have hother : ∀ s, s ≠ x → (br.setIfInBounds x v)[s]! = br[s]! := by
    intro s hs
    rw [get!_setIfInBounds]
    have : ¬ (x = s ∧ x < br.size) := fun hc => hs hc.1.symm
    simp [this]
  obtain ⟨T, hTx, hTlt, hTout, hTin, hTw, hTc, hTk⟩ :=
    stemFill_spec2 ds usMain c.hus _ v f x _ r hu hsz1 hset hr
  have hrT : ∀ s, ¬ T s → r[s]! = br[s]! := fun s hs => by
    rw [hTout s hs, hother s (fun hc => hs (hc ▸ hTx))]
  have hTcode : ∀ s, T s → s ≠ x → br[s]! = w := by
    intro s hs hsx
    have := (hTw s hs hsx).2.2.2
    rw [hother s hsx] at this
    simpa using this
  have hTupa : ∀ s, T s → uparea[s]! < uparea[d]! := by
    intro s hs
    obtain ⟨k, hk, hkj⟩ := hTk s hs
    have := (c.upa_iterU (x := x) k (fun j hj => hTlt _ (hkj j hj))).1
    rw [← hk] at this
    have := hxs.2.2.2
    omega
  have hold : ∀ o ∈ idxs, ¬ T o := by
    intro o ho ht
    have hox : o ≠ x := fun hc => hni (hc ▸ ho)
    have hco := hTcode o ht hox
    obtain ⟨o', ho', m, hm, hk⟩ := g.chain c d hd (by rw [hcd]; exact hw)
    rw [hcd] at hk
    have hoo : o' = o := by
      apply g.inj o' ho' o ho
      have h1 := hk 0 (Nat.zero_le _)
      simp only [iterU] at h1
      rw [h1, hco]
    subst hoo
    have := (c.upa_iterU (x := o') m (fun k hk' => g.lt (by rw [hk k hk']; exact hw))).1
    rw [← hm] at this
    have := hTupa o' ht
    omega
  have hne0 : ∀ s : Nat, br[s]! ≠ 0 → r[s]! ≠ 0 := by
    intro s hs
    by_cases ht : T s
    · rw [hTin s ht]; exact hv
    · rw [hrT s ht]; exact hs
  refine ⟨⟨g.inv.step_int c.hus hu hv hw hpre hr, ?_, ?_⟩, hpre, fun s => ?_, fun a ha hca hle => ?_,
    fun o ho => hrT o (hold o ho), hTin _ hTx⟩
  · intro o ho o' ho' heq
    simp only [List.mem_append, List.mem_singleton] at ho ho'
    rcases ho with ho | ho <;> rcases ho' with ho' | ho'
    · rw [hrT o (hold o ho), hrT o' (hold o' ho')] at heq
      exact g.inj o ho o' ho' heq
    · subst ho'
      rw [hrT o (hold o ho), hTin _ hTx] at heq
      exact absurd heq (hfresh o)
    · subst ho
      rw [hrT o' (hold o' ho'), hTin _ hTx] at heq
      exact absurd heq.symm (hfresh o')
    · rw [ho, ho']
  · intro s hs hne
    by_cases ht : T s
    · by_cases hsx : s = x
      · rw [hsx, hxs.2.1]
        exact hne0 d (by rw [hcd]; exact hw)
      · rw [hTin _ (hTw s ht hsx).2.1]; exact hv
    · rw [hrT s ht] at hne
      exact hne0 _ (g.dn s hs hne)
  · by_cases ht : T s
    · right
      refine ⟨hTin s ht, ?_, hTupa s ht⟩
      by_cases hsx : s = x
      · exact Or.inl hsx
      · exact Or.inr (hTcode s ht hsx)
    · exact Or.inl (hrT s ht)
  · rcases g.chain_above c ha hd hw hca hcd hle with h | ⟨j, hj, hjc⟩
    · exact Or.inl h
    · right
      rw [← hxe] at hj hjc
      have hall : ∀ j', j' ≤ j → T (iterU usMain j' x) := by
        intro j'
        induction j' with
        | zero => intro _; exact hTx
        | succ j' ih =>
          intro hj'
          have h1 := ih (by omega)
          have hcode := hjc (j' + 1) hj'
          rw [iterU_succ'] at hcode ⊢
          have hlt : usMain[iterU usMain j' x]! < ds.size := g.lt (by rw [hcode]; exact hw)
          by_cases hux : usMain[iterU usMain j' x]! = x
          · rw [hux]; exact hTx
          · rcases hTc _ h1 hlt with h2 | h2
            · exact h2
            · exfalso
              rw [hother _ hux, hcode] at h2
              simp at h2
      rw [hj]; exact hTin _ (hall j (Nat.le_refl _))

end Pf.C18
