import PfVerif.Proofs.C20Alg
/-! C20: termination of the spreading loop within its fuel (total correctness). Core Lean only.

This is where the pop order (Dijkstra) matters. A reached cell is *settled* when its current
`(dst, cell)` entry is not in the heap. Invariants: the heap has no duplicate entries; the distance
of every settled cell is at most every key in the heap. Then a settled cell is never updated again
(non-negative costs), every non-stale pop settles one more cell and pushes at most 8 entries, every
stale pop just shrinks the heap: `|heap| + 8 · #unsettled` decreases with every iteration. -/
namespace Pf
open SpGrid

/-- not settled: not reached, or the current entry is still in the heap -/
def unsettledB (st : SpState) (a : Nat) : Bool :=
  st.src[a]! == -1 || decide ((st.dst[a]!, a) ∈ st.heap)

theorem unsettledB_false (st : SpState) (a : Nat) :
    unsettledB st a = false ↔ st.src[a]! ≠ -1 ∧ (st.dst[a]!, a) ∉ st.heap := by
  simp [unsettledB]

def unsettledCount (G : SpGrid) (st : SpState) : Nat := (List.range G.n).countP (unsettledB st)

theorem heapMin_le : ∀ (h : List (Rat × Nat)) (e : Rat × Nat), heapMin h = some e → ∀ x ∈ h, e.1 ≤ x.1 := by
  intro h e he
  cases h with
  | nil => simp [heapMin] at he
  | cons x t =>
    simp only [heapMin, Option.some.injEq] at he
    subst he
    suffices ∀ (t : List (Rat × Nat)) (x : Rat × Nat), ∀ y ∈ x :: t,
        (t.foldl (fun m y => if keyLt y m then y else m) x).1 ≤ y.1 from this t x
    intro t
    induction t with
    | nil => intro x y hy; simp at hy; subst hy; simp
    | cons z t ih =>
      intro x y hy
      simp only [List.foldl_cons]
      have h0 := ih (if keyLt z x then z else x)
      have hle : (if keyLt z x then z else x).1 ≤ x.1 ∧ (if keyLt z x then z else x).1 ≤ z.1 := by
        by_cases hk : keyLt z x = true
        · simp only [hk, if_true]
          unfold keyLt at hk
          simp only [Bool.or_eq_true, Bool.and_eq_true, decide_eq_true_eq, beq_iff_eq] at hk
          constructor
          · rcases hk with h | h <;> grind
          · grind
        · simp only [hk]
          unfold keyLt at hk
          simp only [Bool.or_eq_true, Bool.and_eq_true, decide_eq_true_eq, beq_iff_eq, not_or, not_and] at hk
          constructor
          · grind
          · have := hk.1; grind
      have hm := h0 _ (List.mem_cons_self)
      rcases List.mem_cons.1 hy with rfl | hy
      · have := hle.1; grind
      · rcases List.mem_cons.1 hy with rfl | hy
        · have := hle.2; grind
        · exact h0 y (List.mem_cons_of_mem _ hy)

/-- invariant of the neighbour loop of the popped entry `(d0, a0)` -/
structure SpTermIn (G : SpGrid) (st : SpState) (d0 : Rat) : Prop where
  nodup : st.heap.Nodup
  low : ∀ a, a < G.n → unsettledB st a = false → st.dst[a]! ≤ d0
  keys : ∀ x ∈ st.heap, d0 ≤ x.1

theorem relax_term_step {G : SpGrid} {st : SpState} {a0 : Nat} {o : Int × Int}
    (hw : ∀ a d, 0 ≤ G.wgt a d) (hb : SpBase G st) (ht : SpTermIn G st st.dst[a0]!) :
    let st' := relax G a0 st.dst[a0]! st o
    SpTermIn G st' st.dst[a0]! ∧ (∀ a, a < G.n → unsettledB st' a = unsettledB st a) ∧
      st'.heap.length ≤ st.heap.length + 1 := by
  intro st'
  rcases relax_cases G a0 st.dst[a0]! st o with ⟨heq, _⟩ | ⟨b, hn, hab, hc, heq⟩
  · have : st' = st := heq
    rw [this]
    exact ⟨ht, fun _ _ => rfl, by omega⟩
  · have : st' = st.upd G a0 b (st.dst[a0]! + G.wgt a0 o) := heq
    rw [this]
    have hbn : b < G.n := G.nbrOf_lt hn
    have hw0 := hw a0 o
    -- b is not settled
    have hbu : unsettledB st b = true := by
      cases hu : unsettledB st b with
      | true => rfl
      | false =>
        have h1 := ht.low b hbn hu
        have h2 := ((unsettledB_false st b).1 hu).1
        rcases hc with h | h
        · exact absurd h h2
        · grind
    obtain ⟨us, ud, _⟩ := upd_self (a0 := a0) hb (st.dst[a0]! + G.wgt a0 o) hbn
    have hnew : (st.dst[a0]! + G.wgt a0 o, b) ∉ st.heap := by
      intro hmem
      obtain ⟨_, _, h3, h4⟩ := hb.heap _ hmem
      simp only [] at h3 h4
      rcases hc with h | h
      · exact h3 h
      · grind
    have hsame : ∀ a, a < G.n → unsettledB (st.upd G a0 b (st.dst[a0]! + G.wgt a0 o)) a = unsettledB st a := by
      intro a _
      by_cases hab' : a = b
      · subst hab'
        rw [hbu]
        unfold unsettledB
        rw [ud]
        simp [SpState.upd]
      · obtain ⟨e1, e2, _⟩ := upd_other (G := G) (st := st) (a0 := a0) (st.dst[a0]! + G.wgt a0 o) a hab'
        unfold unsettledB
        rw [e1, e2]
        have : ((st.dst[a]!, a) ∈ (st.upd G a0 b (st.dst[a0]! + G.wgt a0 o)).heap) ↔ ((st.dst[a]!, a) ∈ st.heap) := by
          simp only [SpState.upd, List.mem_cons]
          constructor
          · rintro (h | h)
            · exact absurd (congrArg Prod.snd h) hab'
            · exact h
          · exact Or.inr
        simp only [this]
    refine ⟨⟨?_, ?_, ?_⟩, hsame, by simp [SpState.upd]⟩
    · show ((st.dst[a0]! + G.wgt a0 o, b) :: st.heap).Nodup
      exact List.nodup_cons.2 ⟨hnew, ht.nodup⟩
    · intro a ha hu
      rw [hsame a ha] at hu
      have hab' : a ≠ b := by intro h; subst h; rw [hbu] at hu; exact absurd hu (by simp)
      obtain ⟨_, e2, _⟩ := upd_other (G := G) (st := st) (a0 := a0) (st.dst[a0]! + G.wgt a0 o) a hab'
      rw [e2]
      exact ht.low a ha hu
    · intro x hx
      have hx' : x = (st.dst[a0]! + G.wgt a0 o, b) ∨ x ∈ st.heap := by simpa [SpState.upd] using hx
      rcases hx' with rfl | hx'
      · simp only []; grind
      · exact ht.keys x hx'

/-- the neighbour loop: base invariant, pending invariant and termination invariant together -/
theorem relax_fold_term {G : SpGrid} {a0 : Nat} {d0 : Rat} (hw : ∀ a d, 0 ≤ G.wgt a d) (ha0 : a0 < G.n)
    (haa : G.allowed a0 = true) :
    ∀ (os : List (Int × Int)) (st : SpState), (∀ o ∈ os, o ∈ nbrOffsets) →
      SpBase G st → st.src[a0]! ≠ -1 → st.dst[a0]! = d0 → SpTermIn G st d0 →
      let st' := os.foldl (relax G a0 d0) st
      SpTermIn G st' d0 ∧ (∀ a, a < G.n → unsettledB st' a = unsettledB st a) ∧
        st'.heap.length ≤ st.heap.length + os.length := by
  intro os
  induction os with
  | nil => intro st _ _ _ _ ht; exact ⟨ht, fun _ _ => rfl, by simp⟩
  | cons o os ih =>
    intro st hos hb has hd ht
    -- base facts of one step (pending part is irrelevant here: use the trivial exclusion set)
    have hp : PendAll G st (fun _ => True) := fun a _ hex => absurd trivial hex
    have hstep : SpBase G (relax G a0 d0 st o) ∧ (relax G a0 d0 st o).src[a0]! ≠ -1 ∧
        (relax G a0 d0 st o).dst[a0]! = d0 := by
      rcases relax_cases G a0 d0 st o with ⟨heq, _⟩ | ⟨b, hn, hab, hc, heq⟩
      · rw [heq]; exact ⟨hb, has, hd⟩
      · rw [heq]
        rw [← hd] at hc ⊢
        obtain ⟨hne, hb'⟩ := upd_base hb ha0 haa has (hw a0 o) (hos o (by simp)) hn hab hc
        obtain ⟨e1, e2, _⟩ := upd_other (G := G) (st := st) (a0 := a0) (st.dst[a0]! + G.wgt a0 o) a0 hne.symm
        exact ⟨hb', by rw [e1]; exact has, e2⟩
    have hts := relax_term_step (o := o) hw hb (hd ▸ ht)
    simp only [] at hts
    rw [hd] at hts
    obtain ⟨t1, t2, t3⟩ := hts
    obtain ⟨g1, g2, g3⟩ := ih (relax G a0 d0 st o) (fun o' ho' => hos o' (by simp [ho'])) hstep.1 hstep.2.1
      hstep.2.2 t1
    simp only [List.foldl_cons]
    refine ⟨g1, fun a ha => by rw [g2 a ha, t2 a ha], ?_⟩
    simp only [List.length_cons]
    omega

/-- invariant of the main loop that gives termination -/
structure SpTerm (G : SpGrid) (st : SpState) : Prop where
  nodup : st.heap.Nodup
  mono : ∀ a, a < G.n → unsettledB st a = false → ∀ x ∈ st.heap, st.dst[a]! ≤ x.1

theorem nbrOffsets_length : nbrOffsets.length = 8 := rfl

theorem spLoop_total {G : SpGrid} (hw : ∀ a d, 0 ≤ G.wgt a d) :
    ∀ (fuel : Nat) (st : SpState), SpBase G st → SpTerm G st →
      st.heap.length + 8 * unsettledCount G st ≤ fuel → ∃ st', spLoop G fuel st = some st' := by
  intro fuel
  induction fuel with
  | zero =>
    intro st _ _ hm
    have : st.heap.length = 0 := by omega
    have : st.heap = [] := List.length_eq_zero_iff.1 this
    exact ⟨st, by simp [spLoop, this]⟩
  | succ fuel ih =>
    intro st hb ht hm
    simp only [spLoop]
    cases hmn : heapMin st.heap with
    | none => exact ⟨st, rfl⟩
    | some e =>
      simp only []
      have hem : e ∈ st.heap := heapMin_mem _ _ hmn
      have hmin := heapMin_le _ _ hmn
      obtain ⟨he1, he2, he3, he4⟩ := hb.heap e hem
      have hb1 : SpBase G { st with heap := st.heap.erase e } :=
        { hb with heap := fun e' he' => hb.heap e' (List.mem_of_mem_erase he') }
      have hlen : (st.heap.erase e).length = st.heap.length - 1 := List.length_erase_of_mem hem
      have hpos : 0 < st.heap.length := List.length_pos_of_mem hem
      have hnd1 : (st.heap.erase e).Nodup := ht.nodup.erase e
      split
      · -- stale
        rename_i hstale
        have hstale' : st.dst[e.2]! < e.1 := hstale
        have hsame : ∀ a, unsettledB { st with heap := st.heap.erase e } a = unsettledB st a := by
          intro a
          unfold unsettledB
          have : ((st.dst[a]!, a) ∈ st.heap.erase e) ↔ ((st.dst[a]!, a) ∈ st.heap) := by
            apply List.mem_erase_of_ne
            intro heq
            rw [← heq] at hstale'
            simp only [] at hstale'
            grind
          simp only [this]
        apply ih _ hb1
        · refine ⟨hnd1, ?_⟩
          intro a ha hu x hx
          rw [hsame a] at hu
          exact ht.mono a ha hu x (List.mem_of_mem_erase hx)
        · have : unsettledCount G { st with heap := st.heap.erase e } = unsettledCount G st := by
            unfold unsettledCount
            exact List.countP_congr fun a _ => by rw [hsame a]
          rw [this]
          show (st.heap.erase e).length + _ ≤ fuel
          omega
      · rename_i hns
        have hns' : ¬ st.dst[e.2]! < e.1 := hns
        have hd0 : st.dst[e.2]! = e.1 := by grind
        have hee : e = (st.dst[e.2]!, e.2) := by rw [hd0]
        -- after erasing, the popped cell is settled; others keep their status or were settled before
        have hu0 : unsettledB st e.2 = true := by
          unfold unsettledB
          rw [← hee]; simp [hem]
        have hu1 : unsettledB { st with heap := st.heap.erase e } e.2 = false := by
          rw [unsettledB_false]
          refine ⟨he3, ?_⟩
          show (st.dst[e.2]!, e.2) ∉ st.heap.erase e
          rw [← hee, ht.nodup.mem_erase_iff]
          exact fun h => h.1 rfl
        have himp : ∀ a, unsettledB { st with heap := st.heap.erase e } a = true → unsettledB st a = true := by
          intro a h
          unfold unsettledB at h ⊢
          simp only [Bool.or_eq_true, beq_iff_eq, decide_eq_true_eq] at h ⊢
          rcases h with h | h
          · exact Or.inl h
          · exact Or.inr (List.mem_of_mem_erase h)
        have hcnt : unsettledCount G { st with heap := st.heap.erase e } < unsettledCount G st := by
          unfold unsettledCount
          exact countP_lt_of_witness (a := e.2) (fun x _ => himp x) (List.mem_range.2 he1) hu1 hu0
        have ht1 : SpTermIn G { st with heap := st.heap.erase e } e.1 := by
          refine ⟨hnd1, ?_, fun x hx => hmin x (List.mem_of_mem_erase hx)⟩
          intro a ha hu
          by_cases hae : a = e.2
          · subst hae; show st.dst[e.2]! ≤ e.1; rw [hd0]; grind
          · have hu' : unsettledB st a = false := by
              rw [unsettledB_false] at hu ⊢
              refine ⟨hu.1, ?_⟩
              intro hmem
              apply hu.2
              show (st.dst[a]!, a) ∈ st.heap.erase e
              refine (List.mem_erase_of_ne ?_).2 hmem
              intro heq
              apply hae
              rw [← heq]
            exact ht.mono a ha hu' e hem
        have hf := relax_fold_term (d0 := e.1) hw he1 he2 nbrOffsets _ (fun o ho => ho) hb1 he3 hd0 ht1
        simp only [] at hf
        obtain ⟨f1, f2, f3⟩ := hf
        -- base invariant of the state after the loop (from the partial-correctness development)
        have hbase : SpBase G (nbrOffsets.foldl (relax G e.2 e.1) { st with heap := st.heap.erase e }) := by
          have hp1 : PendAll G { st with heap := st.heap.erase e } (fun _ => True) :=
            fun a _ hex => absurd trivial hex
          have hgen : ∀ (os : List (Int × Int)) (s : SpState), (∀ o ∈ os, o ∈ nbrOffsets) → SpBase G s →
              s.src[e.2]! ≠ -1 → s.dst[e.2]! = e.1 → SpBase G (os.foldl (relax G e.2 e.1) s) := by
            intro os
            induction os with
            | nil => intro s _ h _ _; exact h
            | cons o os ih2 =>
              intro s hos hbs hss hds
              simp only [List.foldl_cons]
              rcases relax_cases G e.2 e.1 s o with ⟨heq, _⟩ | ⟨b, hn, hab, hc, heq⟩
              · rw [heq]; exact ih2 s (fun o' ho' => hos o' (by simp [ho'])) hbs hss hds
              · rw [heq]
                rw [← hds] at hc ⊢
                obtain ⟨hne, hb'⟩ := upd_base hbs he1 he2 hss (hw e.2 o) (hos o (by simp)) hn hab hc
                obtain ⟨e1, e2, _⟩ := upd_other (G := G) (st := s) (a0 := e.2) (s.dst[e.2]! + G.wgt e.2 o) e.2 hne.symm
                have := ih2 _ (fun o' ho' => hos o' (by simp [ho'])) hb' (by rw [e1]; exact hss) (e2.trans hds)
                rw [hds] at this ⊢
                exact this
          exact hgen nbrOffsets _ (fun o ho => ho) hb1 he3 hd0
        apply ih _ hbase
        · refine ⟨f1.nodup, ?_⟩
          intro a ha hu x hx
          have h1 := f1.low a ha hu
          have h2 := f1.keys x hx
          grind
        · have hc2 : unsettledCount G (nbrOffsets.foldl (relax G e.2 e.1) { st with heap := st.heap.erase e }) =
              unsettledCount G { st with heap := st.heap.erase e } := by
            unfold unsettledCount
            exact List.countP_congr fun a ha => by rw [f2 a (List.mem_range.1 ha)]
          rw [hc2]
          have f3' : (nbrOffsets.foldl (relax G e.2 e.1) { st with heap := st.heap.erase e }).heap.length ≤
              (st.heap.erase e).length + 8 := f3
          omega

/-- **termination**: for non-negative step costs the loop ends within the fuel `10 n + 1` -/
theorem spread2d_total (G : SpGrid) (hobs : G.obs.size = G.n) (hw : ∀ a d, 0 ≤ G.wgt a d) :
    ∃ st, spread2d G = some st := by
  obtain ⟨hb0, _⟩ := spInit_inv G hobs
  have h := spInit_fold G G.n (Nat.le_refl _)
  rw [← spInit_eq] at h
  unfold spread2d
  apply spLoop_total hw _ _ hb0
  · refine ⟨h.nodup, ?_⟩
    intro a ha _ x hx
    have hx0 := ((h.heap x).1 hx).1
    have hd : (spInit G).dst[a]! = 0 := by rw [h.dst]; simp [ha]
    rw [hd, hx0]; grind
  · have h1 := h.len
    have h2 : unsettledCount G (spInit G) ≤ G.n := by
      unfold unsettledCount
      have := List.countP_le_length (p := unsettledB (spInit G)) (l := List.range G.n)
      simpa using this
    omega

end Pf
