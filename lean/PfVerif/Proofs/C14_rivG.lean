import PfVerif.Proofs.C14Mono
import PfVerif.Proofs.C14_rivF
import PfVerif.Proofs.C14_rivE
/-! Monotonicity of the slope a cell uses in `Flwdir.river_depth(method='manning')` - local slope,
`fillnodata(max)`, `max(min_rivslp, ·)` - in the water-surface drop `dz = zs - downstream(zs)`, and
hence antitonicity of the Manning depth. Core Lean only. -/
namespace Pf.C14x
open Pf

/-- `max(min_rivslp, v/S)` is monotone in `v` (as fractions with positive denominators) -/
theorem maxSlope_mono (P : RdParams) (hS : 0 < P.S) (hD : 0 < P.minDen) {v v' : Int} (h : v ≤ v') :
    (maxSlope P v).1 * (maxSlope P v').2 ≤ (maxSlope P v').1 * (maxSlope P v).2 := by
  have h1 : v * P.minDen ≤ v' * P.minDen := Int.mul_le_mul_of_nonneg_right h (Int.le_of_lt hD)
  have h2 : v * P.S ≤ v' * P.S := Int.mul_le_mul_of_nonneg_right h (Int.le_of_lt hS)
  by_cases c : P.minNum * P.S ≤ v * P.minDen
  · have c' : P.minNum * P.S ≤ v' * P.minDen := Int.le_trans c h1
    have e1 : maxSlope P v = (v, P.S) := by simp [maxSlope, c]
    have e2 : maxSlope P v' = (v', P.S) := by simp [maxSlope, c']
    rw [e1, e2]; exact h2
  · have e1 : maxSlope P v = (P.minNum, P.minDen) := by simp [maxSlope, c]
    by_cases c' : P.minNum * P.S ≤ v' * P.minDen
    · have e2 : maxSlope P v' = (v', P.S) := by simp [maxSlope, c']
      rw [e1, e2]; exact c'
    · have e2 : maxSlope P v' = (P.minNum, P.minDen) := by simp [maxSlope, c']
      rw [e1, e2]; exact Int.le_refl _

theorem maxSlope_congr (P P' : RdParams) (eS : P'.S = P.S) (eN : P'.minNum = P.minNum)
    (eD : P'.minDen = P.minDen) (v : Int) : maxSlope P' v = maxSlope P v := by
  unfold maxSlope; rw [eS, eN, eD]

/-- **the slope used is monotone in the local slope field**: two parameter sets with the same scale and
`min_rivslp` whose local slope fields have the same cells without a slope and satisfy `local ≤ local'`
give `slope ≤ slope'` at every cell (fractions with positive denominators, cross-multiplied) -/
theorem rivslpFinal_mono_local (ds : Array Nat) (seq : List Nat) (P P' : RdParams) (htopo : Topo ds seq)
    (hb : ∀ i ∈ seq, i < ds.size) (hS : 0 < P.S) (hD : 0 < P.minDen)
    (eS : P'.S = P.S) (eN : P'.minNum = P.minNum) (eD : P'.minDen = P.minDen)
    (hpat : ∀ j, j < ds.size → ((rivslpLocal ds P)[j]! = P.nd ↔ (rivslpLocal ds P')[j]! = P.nd))
    (hle : ∀ j, j < ds.size → (rivslpLocal ds P)[j]! ≠ P.nd → (rivslpLocal ds P)[j]! ≤ (rivslpLocal ds P')[j]!)
    (j : Nat) (hj : j < ds.size) :
    ((rivslpFinal ds seq P)[j]!).1 * ((rivslpFinal ds seq P')[j]!).2 ≤
      ((rivslpFinal ds seq P')[j]!).1 * ((rivslpFinal ds seq P)[j]!).2 := by
  have hnd : P'.nd = P.nd := by unfold RdParams.nd; rw [eS]
  have hsz : (rivslpLocal ds P).size = ds.size := rivslpLocal_size ds P
  have hsz' : (rivslpLocal ds P').size = (rivslpLocal ds P).size := by
    rw [rivslpLocal_size, rivslpLocal_size]
  have hfill : (rivslpFilled ds seq P)[j]! ≤ (rivslpFilled ds seq P')[j]! := by
    unfold rivslpFilled
    rw [hnd]
    exact fillDownModel_mono_c14 ds seq _ _ P.nd 0 htopo (fun i hi => hsz ▸ hb i hi) hsz'
      (fun k hk => hpat k (hsz ▸ hk)) (fun k hk => hle k (hsz ▸ hk)) j (hsz ▸ hj)
  rw [rivslpFinal_get ds seq P j hj, rivslpFinal_get ds seq P' j hj, maxSlope_congr P P' eS eN eD]
  exact maxSlope_mono P hS hD hfill

/-- a link of at least 1 m whose drop is not exactly `−9999·dx` has a local slope (exact divisions) -/
theorem rivslpLocal_nd_iff (ds : Array Nat) (P : RdParams) (hS : 0 < P.S) (hK : 0 < P.K)
    (hex : riverExact ds P = true)
    (hne : ∀ i, i < ds.size → rdDx ds P i ≥ P.K → rdDz ds P i ≠ -9999 * rdDx ds P i)
    (k : Nat) (hk : k < ds.size) : (rivslpLocal ds P)[k]! = P.nd ↔ ¬ rdDx ds P k ≥ P.K := by
  have h := (locFrac_iff ds P hS hK hex k hk).1
  rw [locFrac_eq ds P k hk] at h
  constructor
  · intro he hx
    have : ¬ (rivslpLocal ds P)[k]! ≠ P.nd := fun hn => hn he
    apply this
    rw [h, if_pos ⟨hx, hne k hk hx⟩]
    exact ⟨_, rfl⟩
  · intro hx
    apply Classical.byContradiction
    intro hn
    obtain ⟨q, hq⟩ := h.1 hn
    rw [if_neg (fun hc => hx hc.1)] at hq
    cases hq

/-- **the slope used is monotone in the water-surface drop.** Same network, order, distances, scale and
`min_rivslp`; two water-level fields whose drops to the downstream cell satisfy `dz ≤ dz'` on every link
of at least 1 m (exact divisions, no drop equal to the nodata slope `−9999`): every cell uses a slope
that is at most the slope it uses with `zs'`. -/
theorem rivslpFinal_mono_zs (ds : Array Nat) (seq : List Nat) (P P' : RdParams) (htopo : Topo ds seq)
    (hb : ∀ i ∈ seq, i < ds.size) (hS : 0 < P.S) (hK : 0 < P.K) (hD : 0 < P.minDen)
    (eS : P'.S = P.S) (eK : P'.K = P.K) (eN : P'.minNum = P.minNum) (eD : P'.minDen = P.minDen)
    (eR : P'.rivdst = P.rivdst)
    (hex : riverExact ds P = true) (hex' : riverExact ds P' = true)
    (hne : ∀ i, i < ds.size → rdDx ds P i ≥ P.K → rdDz ds P i ≠ -9999 * rdDx ds P i)
    (hne' : ∀ i, i < ds.size → rdDx ds P i ≥ P.K → rdDz ds P' i ≠ -9999 * rdDx ds P i)
    (hle : ∀ i, i < ds.size → rdDx ds P i ≥ P.K → rdDz ds P i ≤ rdDz ds P' i)
    (j : Nat) (hj : j < ds.size) :
    ((rivslpFinal ds seq P)[j]!).1 * ((rivslpFinal ds seq P')[j]!).2 ≤
      ((rivslpFinal ds seq P')[j]!).1 * ((rivslpFinal ds seq P)[j]!).2 := by
  have hdx : ∀ i, rdDx ds P' i = rdDx ds P i := by intro i; unfold rdDx; rw [eR]
  have hnd : P'.nd = P.nd := by unfold RdParams.nd; rw [eS]
  have hn1 := rivslpLocal_nd_iff ds P hS hK hex hne
  have hn2 := rivslpLocal_nd_iff ds P' (eS ▸ hS) (eK ▸ hK) hex'
    (fun i hi hx => by rw [hdx]; exact hne' i hi (by rw [hdx, eK] at hx; exact hx))
  refine rivslpFinal_mono_local ds seq P P' htopo hb hS hD eS eN eD ?_ ?_ j hj
  · intro k hk
    rw [hn1 k hk, ← hnd, hn2 k hk, hdx, eK]
  · intro k hk hv
    have hx : rdDx ds P k ≥ P.K := by
      apply Classical.byContradiction
      intro hx
      exact hv ((hn1 k hk).2 hx)
    have hpos : 0 < rdDx ds P k := by omega
    rw [rivslpLocal_get ds P k hk, rivslpLocal_get ds P' k hk, hdx, eK, eS, if_pos hx, if_pos hx]
    exact Int.ediv_le_ediv hpos (Int.mul_le_mul_of_nonneg_left (hle k hk hx) (Int.le_of_lt hS))

/-! ### the rational value of a slope fraction is monotone in the fraction order -/

theorem rat_frac_aux_c14x (A B C D Bi Di : Rat) (h1 : A * D ≤ C * B) (e1 : B * Bi = 1) (e2 : D * Di = 1)
    (hpos : 0 ≤ Bi * Di) : A * Bi ≤ C * Di := by
  have h2 := Rat.mul_le_mul_of_nonneg_right h1 hpos
  have l : A * D * (Bi * Di) = A * Bi := by
    have : A * D * (Bi * Di) = A * Bi * (D * Di) := by grind
    rw [this, e2, Rat.mul_one]
  have r : C * B * (Bi * Di) = C * Di := by
    have : C * B * (Bi * Di) = C * Di * (B * Bi) := by grind
    rw [this, e1, Rat.mul_one]
  rw [l, r] at h2
  exact h2

/-- `a/b ≤ c/d` over the rationals from the cross-multiplied integer inequality (`b, d > 0`) -/
theorem fracVal_mono (a b c d : Int) (hb : 0 < b) (hd : 0 < d) (h : a * d ≤ c * b) :
    (a : Rat) / (b : Rat) ≤ (c : Rat) / (d : Rat) := by
  have hB : (0 : Rat) < (b : Rat) := Rat.intCast_pos.2 hb
  have hD : (0 : Rat) < (d : Rat) := Rat.intCast_pos.2 hd
  have hBn : (b : Rat) ≠ 0 := fun e => by rw [e] at hB; exact Rat.lt_irrefl hB
  have hDn : (d : Rat) ≠ 0 := fun e => by rw [e] at hD; exact Rat.lt_irrefl hD
  have h1 : (a : Rat) * (d : Rat) ≤ (c : Rat) * (b : Rat) := by
    rw [← Rat.intCast_mul, ← Rat.intCast_mul]; exact Rat.intCast_le_intCast.2 h
  have hpos : (0 : Rat) ≤ (b : Rat)⁻¹ * (d : Rat)⁻¹ :=
    Rat.le_of_lt (Rat.mul_pos (Rat.inv_pos.2 hB) (Rat.inv_pos.2 hD))
  rw [Rat.div_def, Rat.div_def]
  exact rat_frac_aux_c14x _ _ _ _ _ _ h1 (Rat.mul_inv_cancel _ hBn) (Rat.mul_inv_cancel _ hDn) hpos

end Pf.C14x
