import PfVerif.Model.C16_val
import PfVerif.Proofs.C16_machArith
import PfVerif.Props.C03
import PfVerif.Props.C08
import PfVerif.Props.C18
/-! Helper lemmas of the C16 extension `C16_val` (capacity of the fixed-width value arrays). Core Lean only. -/
namespace Pf.C16v
open Pf Pf.C16m Pf.C03 Pf.C08 Pf.C18

/-! ## store / load -/

theorem load_store' (t : ValTy) (x : Int) : load t (store t x) = wrapZ t x := by
  unfold load store wrapZ val
  split
  · rw [BitVec.toInt_ofInt]
  · rw [BitVec.toNat_ofInt]
    have hp : (0 : Int) < ((2 ^ t.w : Nat) : Int) := by
      have := Nat.two_pow_pos t.w; omega
    exact Int.toNat_of_nonneg (Int.emod_nonneg _ (by omega))

theorem load_store_fits' {t : ValTy} (hw : 0 < t.w) {x : Int} (h : Fits t x) : load t (store t x) = x := by
  obtain ⟨h0, h1⟩ := h
  unfold lo at h0
  unfold hi at h1
  unfold load store val
  split
  · rename_i hs
    simp only [hs, if_true] at h0 h1
    exact toInt_ofInt_range hw x h0 (by omega)
  · rename_i hs
    simp only [hs] at h0 h1
    rw [BitVec.toNat_ofInt]
    have : x % ((2 ^ t.w : Nat) : Int) = x := Int.emod_eq_of_lt h0 (by simp at h1 ⊢; omega)
    rw [this]
    exact Int.toNat_of_nonneg h0

/-- whatever is in the array reads as a number of the dtype -/
theorem load_range' {t : ValTy} (hw : 0 < t.w) (v : BitVec t.w) : Fits t (load t v) := by
  unfold Fits lo hi load val
  split
  · have h1 := @BitVec.two_mul_toInt_lt t.w v
    have h2 := @BitVec.le_two_mul_toInt t.w v
    have h3 := pow_split hw
    have h4 : ((2 : Int) ^ t.w) = 2 * (2 : Int) ^ (t.w - 1) := by
      have := congrArg (Nat.cast : Nat → Int) h3
      push_cast at this
      exact this
    push_cast at h1 h2 ⊢
    constructor <;> omega
  · have := v.isLt
    constructor <;> omega

theorem load_store_iff' {t : ValTy} (hw : 0 < t.w) (x : Int) : load t (store t x) = x ↔ Fits t x :=
  ⟨fun h => h ▸ load_range' hw (store t x), load_store_fits' hw⟩

theorem get!_map_store (t : ValTy) (a : Array Int) (i : Nat) (hi : i < a.size) :
    (storeArr t a)[i]! = store t a[i]! := by
  unfold storeArr
  rw [getElem!_pos (a.map (store t)) i (by simpa using hi), getElem!_pos a i hi]
  simp

/-! ## the rank counter -/

theorem incM_store (t : ValTy) (x : Int) : incM (store t x) = store t (x + 1) := by
  unfold incM store
  rw [BitVec.ofInt_add]
  rfl

theorem chainCountM_store (t : ValTy) (s : Int) (k : Nat) :
    chainCountM (store t s) k = store t (s + k) := by
  induction k with
  | zero => simp [chainCountM]
  | succ k ih =>
    rw [chainCountM, ih, incM_store]
    congr 1
    omega

/-! ## rank: at most `n - 1` -/

/-- a cell of rank `k` heads a duplicate-free path of `k+1` cells (their ranks are `k, k-1, …, 0`) -/
theorem rank_path {ds : Array Nat} {rk : Array Int} (hc : RankCertA ds rk) :
    ∀ (k : Nat) (i : Nat), i < ds.size → rk[i]! = (k : Int) →
      ∃ l : List Nat, l.length = k + 1 ∧ l.Nodup ∧ ∀ x ∈ l, x < ds.size ∧ rk[x]! ≤ (k : Int) := by
  intro k
  induction k with
  | zero =>
    intro i hi hr
    exact ⟨[i], rfl, by simp, fun x hx => by simp at hx; subst hx; exact ⟨hi, by omega⟩⟩
  | succ k ih =>
    intro i hi hr
    have hnd : ds[i]! ≠ ds.size := fun h => by have := hc.nodata i hi h; omega
    have hnp : ds[i]! ≠ i := fun h => by have := hc.pit i hi h; omega
    have hlt := hc.lt i hi hnd
    rcases hc.step i hi hnd hnp with ⟨h1, _⟩ | ⟨h1, h2⟩
    · omega
    · obtain ⟨l, hl, hnd', hall⟩ := ih ds[i]! hlt (by omega)
      refine ⟨i :: l, by simp [hl], ?_, ?_⟩
      · rw [List.nodup_cons]
        refine ⟨fun hmem => ?_, hnd'⟩
        have := (hall i hmem).2
        omega
      · intro x hx
        rcases List.mem_cons.1 hx with rfl | hx
        · exact ⟨hi, by omega⟩
        · have := hall x hx
          exact ⟨this.1, by omega⟩

theorem rank_lt_size {ds : Array Nat} {rk : Array Int} (hc : RankCertA ds rk) (i : Nat) (hi : i < ds.size) :
    rk[i]! < (ds.size : Int) := by
  by_cases hneg : rk[i]! < 0
  · omega
  · obtain ⟨k, hk⟩ : ∃ k : Nat, rk[i]! = (k : Int) := ⟨rk[i]!.toNat, by omega⟩
    obtain ⟨l, hl, hnd, hall⟩ := rank_path hc k i hi hk
    have := List.Nodup.length_le_of_subset hnd (l₂ := List.range ds.size)
      (fun x hx => List.mem_range.2 (hall x hx).1)
    rw [List.length_range, hl] at this
    omega

theorem rank_ge {ds : Array Nat} {rk : Array Int} (hc : RankCertA ds rk) (i : Nat) (hi : i < ds.size) :
    -9999 ≤ rk[i]! := by
  have hs := (checkRankCert_sound ds rk ((checkRankCert_iff ds rk).2 hc))
  by_cases hv : Valid ds i
  · rcases (hs.2.1 i hv).2.2 with h | h <;> omega
  · have := hs.2.2 i hi hv; omega

/-! ## upstream count: at most `n` -/

theorem nupSpec_le (ds : Array Nat) (mask : Option (Array Bool)) (d : Nat) : nupSpec ds mask d ≤ ds.size := by
  unfold nupSpec inflowsM upsOf
  calc ((List.filter _ (List.range ds.size)).filter (maskAt mask)).length
      ≤ (List.filter _ (List.range ds.size)).length := List.length_filter_le _ _
    _ ≤ (List.range ds.size).length := List.length_filter_le _ _
    _ = ds.size := List.length_range

/-! ## classic order: at most the number of cells of the order -/

theorem classic_le_length (ds : Array Nat) (seq : List Nat) (usMain : Array Nat) (mask : Option (Array Bool))
    (htopo : Topo ds seq) (hb : ∀ i ∈ seq, i < ds.size) :
    ∀ i ∈ seq, (classicOrder ds seq usMain mask)[i]! ≤ seq.length := by
  obtain ⟨h1, h2, h3⟩ := classic_rec ds seq usMain mask htopo hb
  suffices hs : ∀ (pre : List Nat), Topo ds pre → (∀ i ∈ pre, i ∈ seq) →
      ∀ i ∈ pre, (classicOrder ds seq usMain mask)[i]! ≤ pre.length from hs seq htopo (fun _ h => h)
  intro pre hpre
  induction hpre with
  | nil => intro _ i hi; cases hi
  | @snoc pre i _ hi hds ih =>
    intro hsub j hj
    have ihp := ih (fun k hk => hsub k (by simp [hk]))
    simp only [List.mem_append, List.mem_singleton] at hj
    rw [List.length_append, List.length_singleton]
    rcases hj with hj | hj
    · have := ihp j hj; omega
    · subst hj
      have hjs := hsub j (by simp)
      by_cases hm : maskAt mask j = true
      · by_cases hp : ds[j]! = j
        · rw [h1 j hjs hm hp]; omega
        · rcases hds with hd | hd
          · exact absurd hd hp
          · rw [h2 j hjs hm hp]
            have := ihp _ hd
            split <;> omega
      · rw [h3 j (Or.inr (by simpa using hm))]; omega

theorem topo_length_le {ds : Array Nat} {seq : List Nat} (htopo : Topo ds seq)
    (hb : ∀ i ∈ seq, i < ds.size) : seq.length ≤ ds.size := by
  have := List.Nodup.length_le_of_subset htopo.nodup (l₂ := List.range ds.size)
    (fun x hx => List.mem_range.2 (hb x hx))
  rwa [List.length_range] at this

theorem classicOrderW_8 (ds : Array Nat) (seq : List Nat) (usMain : Array Nat) (mask : Option (Array Bool)) :
    classicOrderW 8 ds seq usMain mask = classicOrderU8 ds seq usMain mask := rfl

/-! ## Strahler: logarithmic -/

theorem pow_le_imp_le {a b : Nat} (h : 2 ^ a ≤ b) (w : Nat) (hb : b < 2 ^ w) : a < w := by
  apply Classical.byContradiction
  intro hn
  have : 2 ^ w ≤ 2 ^ a := Nat.pow_le_pow_right (by decide) (by omega)
  omega

/-! ## Pfafstetter seeds -/

theorem pfBase_succ (d : Nat) : pfBase (d + 1) = if d = 0 then pfBase d else pfBase d + (10 : Int) ^ d := by
  unfold pfBase
  rw [List.range_succ, List.foldl_append]
  simp only [List.foldl_cons, List.foldl_nil]

theorem pfBase_zero : pfBase 0 = 1 := rfl

/-- `pfaf0` is the repunit: `9 * pfaf0 + 1 = 10^depth` -/
theorem pfBase_repunit : ∀ d : Nat, 0 < d → 9 * pfBase d + 1 = (10 : Int) ^ d := by
  intro d
  induction d with
  | zero => intro h; cases h
  | succ d ih =>
    intro _
    rw [pfBase_succ]
    by_cases hd : d = 0
    · subst hd; simp [pfBase_zero]
    · simp only [hd, if_false]
      have := ih (Nat.pos_of_ne_zero hd)
      rw [Int.pow_succ]
      omega

theorem pfBase_pos : ∀ d : Nat, 1 ≤ pfBase d := by
  intro d
  induction d with
  | zero => rw [pfBase_zero]; omega
  | succ d ih =>
    rw [pfBase_succ]
    split
    · exact ih
    · have : (0 : Int) < (10 : Int) ^ d := Int.pow_pos (by decide)
      omega

theorem cap32_values : i32.cap = 2147483647 ∧ u32.cap = 4294967294 := by decide

theorem pow10_pos (d : Nat) : (0 : Int) < (10 : Int) ^ d := Int.pow_pos (by decide)

/-! ## labels of the sub-basin maps -/

theorem mem_getElem! {l : List Nat} {o : Nat} (h : o ∈ l) : ∃ k, k < l.length ∧ l[k]! = o := by
  obtain ⟨k, hk, he⟩ := List.getElem_of_mem h
  exact ⟨k, hk, by rw [getElem!_pos l k hk]; exact he⟩

end Pf.C16v
