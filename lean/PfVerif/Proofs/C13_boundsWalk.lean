import PfVerif.Proofs.C13_bounds
/-! The walk-shaped kernels of `core.py` (`_trace`, `_window`): logging variant = model, and every
logged access is in bounds. -/
namespace Pf.C13b
open Pf

/-- every entry is a slot of the array or the missing value (= size) -/
def IdxArr (a : Array Nat) : Prop := ∀ i, i < a.size → a[i]! ≤ a.size

theorem IdxArr.of_wf {ds : Array Nat} (hwf : WF ds) : IdxArr ds := fun i hi => (hwf i hi).1

theorem IdxArr.lt {a : Array Nat} (h : IdxArr a) {i : Nat} (hi : i < a.size) (hne : a[i]! ≠ a.size) :
    a[i]! < a.size := by
  have := h i hi
  omega

/-! ### `_trace` -/

theorem traceL_fst (nxt : Array Nat) (mask : Option (Array Bool)) (maxLen : Option Int) (step : Nat → Nat → Int) :
    ∀ (fuel idx0 : Nat) (acc0 : List Nat) (dist : Int) (log : List Acc),
      (traceL nxt mask maxLen step fuel idx0 acc0 dist log).map Prod.fst =
        trace nxt mask maxLen step fuel idx0 acc0 dist := by
  intro fuel
  induction fuel with
  | zero => intro _ _ _ _; rfl
  | succ f ih =>
    intro idx0 acc0 dist log
    unfold traceL trace
    cases mask <;> cases maxLen <;> dsimp only [accOpt] <;> (repeat' split) <;>
      (first | rfl | exact ih .. | (exfalso; simp_all <;> omega))

theorem traceL_inb (nxt : Array Nat) (hn : IdxArr nxt) (mask : Option (Array Bool))
    (hm : ∀ m, mask = some m → m.size = nxt.size) (maxLen : Option Int) (step : Nat → Nat → Int) :
    ∀ (fuel idx0 : Nat) (acc0 : List Nat) (dist : Int) (log : List Acc) (r : (List Nat × Int) × List Acc),
      idx0 < nxt.size → InB log → traceL nxt mask maxLen step fuel idx0 acc0 dist log = some r → InB r.2 := by
  intro fuel
  induction fuel with
  | zero => intro _ _ _ _ _ _ _ h; simp [traceL] at h
  | succ f ih =>
    intro idx0 acc0 dist log r hi hl h
    unfold traceL at h
    dsimp only at h
    have hl1 : InB (accOpt Arr.mask mask idx0 log) := InB_accOpt _ _ _ _ _ hm hi hl
    have hl2 : InB (acc Arr.nxt nxt idx0 :: accOpt Arr.mask mask idx0 log) := by
      simp only [InB_cons, acc_idx, acc_size, hi, hl1, and_self]
    have hnext : nxt[idx0]! ≠ nxt.size → nxt[idx0]! < nxt.size := hn.lt hi
    cases mask <;> cases maxLen <;> dsimp only [accOpt] at h hl1 hl2 <;> (repeat' split at h) <;>
      (first
        | (simp only [Option.some.injEq] at h; subst h; first | exact hl1 | exact hl2)
        | exact ih _ _ _ _ r (hnext (by simp_all)) hl2 h)

/-! ### `_window` -/

theorem windowDownL_fst (ds : Array Nat) (strord : Option (Array Int)) (s0 : Int) (w : Nat) :
    ∀ (k pos idx0 : Nat) (acc0 : List Nat) (log : List Acc),
      (windowDownL ds strord s0 w k pos idx0 acc0 log).1 = windowDown ds strord s0 k idx0 acc0 := by
  intro k
  induction k with
  | zero => intro _ _ _ _; rfl
  | succ k ih =>
    intro pos idx0 acc0 log
    unfold windowDownL windowDown
    cases strord <;> dsimp only [accOpt] <;> (repeat' split) <;>
      (first | rfl | exact ih .. | (exfalso; simp_all <;> omega))

theorem windowDownL_inb (ds : Array Nat) (hn : IdxArr ds) (strord : Option (Array Int))
    (hs : ∀ s, strord = some s → s.size = ds.size) (s0 : Int) (w : Nat) :
    ∀ (k pos idx0 : Nat) (acc0 : List Nat) (log : List Acc),
      idx0 < ds.size → pos + k ≤ 2 * w + 1 → InB log → InB (windowDownL ds strord s0 w k pos idx0 acc0 log).2 := by
  intro k
  induction k with
  | zero => intro _ _ _ _ _ _ hl; exact hl
  | succ k ih =>
    intro pos idx0 acc0 log hi hp hl
    unfold windowDownL
    dsimp only
    have hl1 : InB (acc Arr.ds ds idx0 :: log) := by
      simp only [InB_cons, acc_idx, acc_size, hi, hl, and_self]
    by_cases h1 : ds[idx0]! = idx0 ∨ ds[idx0]! = ds.size
    · rw [if_pos h1]; exact hl1
    · rw [if_neg h1]
      have hd : ds[idx0]! < ds.size := hn.lt hi (fun e => h1 (Or.inr e))
      have hl2 : InB (accOpt Arr.strord strord ds[idx0]! (acc Arr.ds ds idx0 :: log)) :=
        InB_accOpt _ _ _ _ _ hs hd hl1
      have hpos : pos < 2 * w + 1 := by omega
      (repeat' split) <;>
        (first
          | exact hl2
          | exact ih _ _ _ _ hd (by omega) (by simp only [InB_cons, hl2, and_true]; exact hpos))

theorem windowUpL_fst (ds usMain : Array Nat) (w : Nat) :
    ∀ (k idx0 : Nat) (acc0 : List Nat) (log : List Acc),
      (windowUpL ds usMain w k idx0 acc0 log).1 = windowUp ds usMain k idx0 acc0 := by
  intro k
  induction k with
  | zero => intro _ _ _; rfl
  | succ k ih =>
    intro idx0 acc0 log
    unfold windowUpL windowUp
    dsimp only
    split
    · rfl
    · exact ih ..

theorem windowUpL_inb (ds usMain : Array Nat) (hn : IdxArr usMain) (hsz : usMain.size = ds.size) (w : Nat) :
    ∀ (k idx0 : Nat) (acc0 : List Nat) (log : List Acc),
      idx0 < ds.size → k ≤ w → InB log → InB (windowUpL ds usMain w k idx0 acc0 log).2 := by
  intro k
  induction k with
  | zero => intro _ _ _ _ _ hl; exact hl
  | succ k ih =>
    intro idx0 acc0 log hi hk hl
    unfold windowUpL
    dsimp only
    have hl1 : InB (acc Arr.usMain usMain idx0 :: log) := by
      simp only [InB_cons, acc_idx, acc_size, hsz, hi, hl, and_self]
    split
    · exact hl1
    · rename_i hu
      have hu' : usMain[idx0]! < usMain.size := hn.lt (hsz ▸ hi) (hsz ▸ hu)
      refine ih _ _ _ (hsz ▸ hu') (by omega) ?_
      simp only [InB_cons, hl1, and_true]
      omega

end Pf.C13b
