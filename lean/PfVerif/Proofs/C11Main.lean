import PfVerif.Model.C11
/-! Helper lemmas for C11: invariant of the loop of `core.main_upstream`. Core Lean only. -/
namespace Pf

/-- state of `main_upstream` after the cells `< k` have been processed -/
def MainInv_c11 (ds : Array Nat) (uparea : Array Int) (upaMin : Int) (k : Nat) (st : Array Nat × Array Int) : Prop :=
  st.1.size = ds.size ∧ st.2.size = ds.size ∧ ∀ j, j < ds.size →
    (st.1[j]! = ds.size ∧ st.2[j]! = upaMin ∧ ∀ i, i < k → ds[i]! = j → i ≠ j → uparea[i]! ≤ upaMin) ∨
    (st.1[j]! < k ∧ ds[st.1[j]!]! = j ∧ st.1[j]! ≠ j ∧ st.2[j]! = uparea[st.1[j]!]! ∧ upaMin < st.2[j]! ∧
      (∀ i, i < k → ds[i]! = j → i ≠ j → uparea[i]! ≤ st.2[j]!) ∧
      (∀ i, i < st.1[j]! → ds[i]! = j → i ≠ j → uparea[i]! < st.2[j]!))

def mainStep_c11 (ds : Array Nat) (uparea : Array Int) (st : Array Nat × Array Int) (idx0 : Nat) :
    Array Nat × Array Int :=
  let (um, upa) := st
  let d := ds[idx0]!
  if d = idx0 ∨ d = ds.size then st
  else if uparea[idx0]! > upa[d]! then (um.setIfInBounds d idx0, upa.setIfInBounds d uparea[idx0]!)
  else st

theorem mainUpstream_eq_c11 (ds : Array Nat) (uparea : Array Int) (upaMin : Int) :
    mainUpstream ds uparea upaMin =
      ((List.range ds.size).foldl (mainStep_c11 ds uparea) (Array.replicate ds.size ds.size, Array.replicate ds.size upaMin)).1 := rfl

theorem mainInv_step_c11 (ds : Array Nat) (uparea : Array Int) (upaMin : Int) (k : Nat) (hk : k < ds.size)
    (st : Array Nat × Array Int) (h : MainInv_c11 ds uparea upaMin k st) :
    MainInv_c11 ds uparea upaMin (k+1) (mainStep_c11 ds uparea st k) := by
  obtain ⟨um, upa⟩ := st
  unfold MainInv_c11 at h ⊢
  obtain ⟨hs1, hs2, hinv⟩ := h
  dsimp only at hs1 hs2 hinv
  unfold mainStep_c11
  dsimp only
  by_cases hpit : ds[k]! = k ∨ ds[k]! = ds.size
  · rw [if_pos hpit]
    dsimp only
    refine ⟨hs1, hs2, fun j hj => ?_⟩
    have hnew : ∀ i, i < k + 1 → ds[i]! = j → i ≠ j → i < k := by
      intro i hi hd hne
      by_cases hik : i = k
      · subst hik; rcases hpit with h | h <;> omega
      · omega
    rcases hinv j hj with ⟨a, b, c⟩ | ⟨a, b, c, d, e, f, g⟩
    · exact Or.inl ⟨a, b, fun i hi hd hne => c i (hnew i hi hd hne) hd hne⟩
    · exact Or.inr ⟨by omega, b, c, d, e, fun i hi hd hne => f i (hnew i hi hd hne) hd hne, g⟩
  · rw [if_neg hpit]
    have hp1 : ds[k]! ≠ k := fun h => hpit (Or.inl h)
    have hp2 : ds[k]! ≠ ds.size := fun h => hpit (Or.inr h)
    by_cases hgt : uparea[k]! > upa[ds[k]!]!
    · rw [if_pos hgt]
      dsimp only
      refine ⟨by simp [hs1], by simp [hs2], fun j hj => ?_⟩
      simp only [get!_setIfInBounds, hs1, hs2]
      by_cases hdj : ds[k]! = j
      · have hjs : ds[k]! < ds.size := by omega
        rw [if_pos ⟨hdj, hjs⟩, if_pos ⟨hdj, hjs⟩]
        refine Or.inr ⟨by omega, hdj, by omega, rfl, ?_, ?_, ?_⟩
        · rw [hdj] at hgt
          rcases hinv j hj with ⟨_, b, _⟩ | ⟨_, _, _, _, e, _, _⟩ <;> omega
        · intro i hi hd hne
          rw [hdj] at hgt
          by_cases hik : i = k
          · subst hik; omega
          · rcases hinv j hj with ⟨_, b, c⟩ | ⟨_, _, _, _, _, f, _⟩
            · have := c i (by omega) hd hne; omega
            · have := f i (by omega) hd hne; omega
        · intro i hi hd hne
          rw [hdj] at hgt
          rcases hinv j hj with ⟨_, b, c⟩ | ⟨_, _, _, _, _, f, _⟩
          · have := c i (by omega) hd hne; omega
          · have := f i (by omega) hd hne; omega
      · rw [if_neg (fun h => hdj h.1), if_neg (fun h => hdj h.1)]
        have hnew : ∀ i, i < k + 1 → ds[i]! = j → i ≠ j → i < k := by
          intro i hi hd hne
          by_cases hik : i = k
          · subst hik; exact absurd hd hdj
          · omega
        rcases hinv j hj with ⟨a, b, c⟩ | ⟨a, b, c, d, e, f, g⟩
        · exact Or.inl ⟨a, b, fun i hi hd hne => c i (hnew i hi hd hne) hd hne⟩
        · exact Or.inr ⟨by omega, b, c, d, e, fun i hi hd hne => f i (hnew i hi hd hne) hd hne, g⟩
    · rw [if_neg hgt]
      dsimp only
      refine ⟨hs1, hs2, fun j hj => ?_⟩
      rcases hinv j hj with ⟨a, b, c⟩ | ⟨a, b, c, d, e, f, g⟩
      · refine Or.inl ⟨a, b, fun i hi hd hne => ?_⟩
        by_cases hik : i = k
        · subst hik; subst hd; omega
        · exact c i (by omega) hd hne
      · refine Or.inr ⟨by omega, b, c, d, e, fun i hi hd hne => ?_, g⟩
        by_cases hik : i = k
        · subst hik; subst hd; omega
        · exact f i (by omega) hd hne

theorem mainInv_fold (ds : Array Nat) (uparea : Array Int) (upaMin : Int) :
    ∀ k, k ≤ ds.size → MainInv_c11 ds uparea upaMin k
      ((List.range k).foldl (mainStep_c11 ds uparea) (Array.replicate ds.size ds.size, Array.replicate ds.size upaMin)) := by
  intro k
  induction k with
  | zero =>
    intro _
    refine ⟨by simp, by simp, fun j hj => Or.inl ⟨?_, ?_, fun i hi => by omega⟩⟩
    · simp [hj]
    · simp [hj]
  | succ k ih =>
    intro hk
    rw [List.range_succ, List.foldl_append]
    exact mainInv_step_c11 ds uparea upaMin k (by omega) _ (ih (by omega))

end Pf
