import PfVerif.Proofs.C05_extOut
/-! Helper lemmas for the C05 extension: `core.inflow_idxs` and upstream induction. Core Lean only. -/
namespace Pf.C05x
open Pf

/-- **upstream induction** along a downstream-first order: to prove `P` for every cell it suffices
to prove it for a cell assuming it for all cells of `seq` that drain into it. -/
theorem Topo.induction_up {ds : Array Nat} {seq : List Nat} (htopo : Topo ds seq) :
    ∀ (P : Nat → Prop), (∀ j, (∀ c ∈ seq, ds[c]! = j → c ≠ j → P c) → P j) → ∀ j, P j := by
  induction htopo with
  | nil => intro P h j; exact h j (fun c hc => by cases hc)
  | @snoc pre i hpre hi hds ih =>
    intro P h
    have hPi : P i := h i (fun c hc hci hne => by
      simp only [List.mem_append, List.mem_singleton] at hc
      rcases hc with hc | hc
      · exact absurd (hci ▸ Topo.ds_mem hpre c hc) hi
      · exact absurd hc hne)
    refine ih P (fun j hj => h j (fun c hc hcj hne => ?_))
    simp only [List.mem_append, List.mem_singleton] at hc
    rcases hc with hc | hc
    · exact hj c hc hcj hne
    · subst hc; exact hPi

theorem iterA_succ' (ds : Array Nat) (k i : Nat) : iterA ds (k+1) i = ds[iterA ds k i]! := by
  rw [iterA_add ds k 1 i]; rfl

variable {α : Type} [Inhabited α]

/-- a cell into which no cell of the list drains keeps its value during an up-to-downstream sweep -/
theorem sweepUp_untouched (ds : Array Nat) (upd : Nat → α → α → α) (l : List Nat) (m : Array α) (j : Nat)
    (h : ∀ c ∈ l, ds[c]! = j → c = j) : (sweepUp ds upd l m)[j]! = m[j]! := by
  induction l with
  | nil => rfl
  | cons a l ih =>
    have ih' := ih (fun c hc => h c (by simp [hc]))
    simp only [sweepUp, List.foldr_cons] at ih' ⊢
    simp only [stepUp]
    split
    · exact ih'
    · rename_i hne
      rw [get!_setIfInBounds]
      have : ¬ (ds[a]! = j ∧ ds[a]! < (List.foldr (stepUp ds upd) m l).size) := by
        rintro ⟨h1, _⟩
        have := h a (by simp) h1
        exact hne (by rw [h1, this])
      rw [if_neg this]; exact ih'

@[simp] theorem size_stepUp (ds : Array Nat) (upd : Nat → α → α → α) (i : Nat) (m : Array α) :
    (stepUp ds upd i m).size = m.size := by
  simp only [stepUp]; split <;> simp

@[simp] theorem size_sweepUp (ds : Array Nat) (upd : Nat → α → α → α) (l : List Nat) (m : Array α) :
    (sweepUp ds upd l m).size = m.size := by
  induction l with
  | nil => rfl
  | cons a l ih => simp only [sweepUp, List.foldr_cons] at ih ⊢; rw [size_stepUp, ih]

/-- a fold whose step ignores the accumulator returns the step of the last element -/
theorem foldr_ignore {β γ : Type} (f : β → γ) (a : γ) :
    ∀ l : List β, l.foldr (fun c _ => f c) a = match l with | [] => a | c :: _ => f c
  | [] => rfl
  | _ :: _ => rfl

/-! ### `inflow_idxs` -/

/-- update of the mask at the downstream cell (the old value there is ignored) -/
def updIn (ds : Array Nat) (region : Array Bool) (c : Nat) (_acc own : Bool) : Bool :=
  if own && region[ds[c]!]! && !region[c]! then false else own

/-- body of the loop of `core.inflow_idxs` -/
def inStep (ds : Array Nat) (region : Array Bool) (idx0 : Nat) (st : Array Bool × List Nat) :
    Array Bool × List Nat :=
  let (mask, acc) := st
  let d := ds[idx0]!
  if idx0 ≠ d then
    if mask[idx0]! && region[d]! && !region[idx0]! then (mask.setIfInBounds d false, idx0 :: acc)
    else (mask.setIfInBounds d mask[idx0]!, acc)
  else st

theorem inflowIdxs_eq (ds : Array Nat) (seq : List Nat) (region : Array Bool) :
    inflowIdxs ds seq region =
      ((seq.foldr (inStep ds region) (Array.replicate ds.size true, [])).2).reverse := rfl

theorem inStep_fst (ds : Array Nat) (region : Array Bool) (i : Nat) (m : Array Bool) (a : List Nat) :
    (inStep ds region i (m, a)).1 = stepUp ds (updIn ds region) i m := by
  simp only [inStep, stepUp, updIn]
  by_cases hp : ds[i]! = i
  · have : ¬ (i ≠ ds[i]!) := fun h => h hp.symm
    simp [hp]
  · have : i ≠ ds[i]! := fun h => hp h.symm
    simp only [this, ne_eq, not_false_eq_true, if_true, hp, if_false]
    split <;> simp_all

theorem inStep_snd (ds : Array Nat) (region : Array Bool) (i : Nat) (m : Array Bool) (a : List Nat) :
    (inStep ds region i (m, a)).2 =
      if (enterCell ds region i && m[i]!) = true then i :: a else a := by
  simp only [inStep, enterCell]
  by_cases hp : ds[i]! = i
  · have : ¬ (i ≠ ds[i]!) := fun h => h hp.symm
    simp [hp]
  · have : i ≠ ds[i]! := fun h => hp h.symm
    simp only [this, ne_eq, not_false_eq_true, if_true]
    have hbne : (ds[i]! != i) = true := by simp [hp]
    by_cases hc : (m[i]! && region[ds[i]!]! && !region[i]!) = true
    · have : (ds[i]! != i && region[ds[i]!]! && !region[i]! && m[i]!) = true := by
        simp only [Bool.and_eq_true] at hc ⊢; simp [hbne, hc.1.1, hc.1.2, hc.2]
      simp [hc, this]
    · have : ¬ (ds[i]! != i && region[ds[i]!]! && !region[i]! && m[i]!) = true := by
        intro h; apply hc
        simp only [Bool.and_eq_true] at h ⊢; exact ⟨⟨h.2, h.1.1.2⟩, h.1.2⟩
      simp [hc, this]

theorem inflow_fst (ds : Array Nat) (region : Array Bool) (seq : List Nat) (m0 : Array Bool) (a0 : List Nat) :
    (seq.foldr (inStep ds region) (m0, a0)).1 = sweepUp ds (updIn ds region) seq m0 := by
  induction seq with
  | nil => rfl
  | cons a l ih =>
    simp only [List.foldr_cons, sweepUp] at ih ⊢
    obtain ⟨st, hst⟩ : ∃ s, s = List.foldr (inStep ds region) (m0, a0) l := ⟨_, rfl⟩
    rw [← hst] at ih ⊢
    obtain ⟨m, acc⟩ := st
    rw [inStep_fst]; simp only at ih; rw [ih]

/-- the list built by `inflow_idxs` from any start state, along a downstream-first order -/
theorem inflow_gen (ds : Array Nat) (region : Array Bool) (seq : List Nat) (htopo : Topo ds seq)
    (hb : ∀ i ∈ seq, i < ds.size) :
    ∀ (m0 : Array Bool) (a0 : List Nat), m0.size = ds.size →
      ∃ L, (seq.foldr (inStep ds region) (m0, a0)).2 = L ++ a0 ∧ L.Sublist seq ∧
        ∀ x, x ∈ L ↔ x ∈ seq ∧ enterCell ds region x = true ∧
          (sweepUp ds (updIn ds region) seq m0)[x]! = true := by
  induction htopo with
  | nil => intro m0 a0 _; exact ⟨[], by simp, by simp, by simp⟩
  | @snoc pre i hpre hi hds ih =>
    intro m0 a0 hsz
    have hb' : ∀ j ∈ pre, j < ds.size := fun j hj => hb j (by simp [hj])
    rw [List.foldr_append, sweepUp_snoc]
    simp only [List.foldr_cons, List.foldr_nil]
    obtain ⟨st, hst⟩ : ∃ s, s = inStep ds region i (m0, a0) := ⟨_, rfl⟩
    have h1 : st.1 = stepUp ds (updIn ds region) i m0 := by rw [hst, inStep_fst]
    have h2 := inStep_snd ds region i m0 a0
    rw [← hst] at h2 ⊢
    obtain ⟨m1, a1⟩ := st
    simp only at h1 h2
    subst h1
    obtain ⟨L', hL1, hL2, hL3⟩ := ih hb' (stepUp ds (updIn ds region) i m0) a1 (by simp [hsz])
    -- the final mask value at `i` is the start value
    have hfin : (sweepUp ds (updIn ds region) pre (stepUp ds (updIn ds region) i m0))[i]! = m0[i]! := by
      rw [sweepUp_untouched ds _ pre _ i (fun c hc hci => absurd (hci ▸ Topo.ds_mem hpre c hc) hi)]
      simp only [stepUp]
      split
      · rfl
      · rename_i hne
        rw [get!_setIfInBounds]
        have : ¬ (ds[i]! = i ∧ ds[i]! < m0.size) := fun h => hne h.1
        rw [if_neg this]
    by_cases hc : (enterCell ds region i && m0[i]!) = true
    · rw [if_pos hc] at h2
      refine ⟨L' ++ [i], by rw [hL1, h2]; simp, List.Sublist.append hL2 (List.Sublist.refl _), ?_⟩
      intro x
      simp only [Bool.and_eq_true] at hc
      simp only [List.mem_append, List.mem_singleton, hL3 x]
      constructor
      · rintro (⟨h, h', h''⟩ | rfl)
        · exact ⟨Or.inl h, h', h''⟩
        · exact ⟨Or.inr rfl, hc.1, by rw [hfin]; exact hc.2⟩
      · rintro ⟨h | rfl, h', h''⟩
        · exact Or.inl ⟨h, h', h''⟩
        · exact Or.inr rfl
    · rw [if_neg hc] at h2
      refine ⟨L', by rw [hL1, h2], List.Sublist.trans hL2 (List.sublist_append_left _ _), ?_⟩
      intro x
      simp only [List.mem_append, List.mem_singleton, hL3 x]
      constructor
      · rintro ⟨h, h', h''⟩
        exact ⟨Or.inl h, h', h''⟩
      · rintro ⟨h | rfl, h', h''⟩
        · exact ⟨h, h', h''⟩
        · exfalso; apply hc
          rw [hfin] at h''
          simp [h', h'']

/-- recurrence of the final mask of `inflow_idxs`: the start value where no cell of `seq` drains
into `j`, otherwise the value of the first inflowing cell `c` of `seq`, reset if `c` enters the region -/
theorem inflow_mask_rec (ds : Array Nat) (region : Array Bool) (seq : List Nat) (htopo : Topo ds seq)
    (m0 : Array Bool) (hb : ∀ i ∈ seq, i < m0.size) (j : Nat) :
    (sweepUp ds (updIn ds region) seq m0)[j]! =
      match firstKid ds seq j with
      | none => m0[j]!
      | some c => (sweepUp ds (updIn ds region) seq m0)[c]! && !enterCell ds region c := by
  rw [sweepUp_spec ds (updIn ds region) seq htopo m0 hb j]
  simp only [kids, List.filter_reverse, List.foldl_reverse]
  have hfk : firstKid ds seq j = (seq.filter fun c => ds[c]! == j && c != j).head? := by
    simp [firstKid, List.head?_filter]
  rw [hfk]
  have := foldr_ignore (fun c => updIn ds region c true (sweepUp ds (updIn ds region) seq m0)[c]!) m0[j]!
    (seq.filter fun c => ds[c]! == j && c != j)
  simp only [updIn] at this ⊢
  rw [this]
  cases hl : seq.filter (fun c => ds[c]! == j && c != j) with
  | nil => simp
  | cons c rest =>
    have hc : c ∈ seq.filter (fun c => ds[c]! == j && c != j) := by rw [hl]; simp
    simp only [List.mem_filter, Bool.and_eq_true, beq_iff_eq, bne_iff_ne, ne_eq] at hc
    obtain ⟨_, hcj, hne⟩ := hc
    have hbne : (ds[c]! != c) = true := by simp [hcj, Ne.symm hne]
    simp only [List.head?_cons, enterCell, hbne, Bool.true_and]
    cases (sweepUp ds (updIn ds region) seq m0)[c]! <;> cases region[ds[c]!]! <;> cases region[c]! <;> rfl

theorem firstKid_some {ds : Array Nat} {seq : List Nat} {j c : Nat} (h : firstKid ds seq j = some c) :
    c ∈ seq ∧ ds[c]! = j ∧ c ≠ j := by
  have h1 := List.find?_some h
  have h2 := List.mem_of_find?_eq_some h
  simp only [Bool.and_eq_true, beq_iff_eq, bne_iff_ne, ne_eq] at h1
  exact ⟨h2, h1.1, h1.2⟩

/-- the final mask of `inflow_idxs` (start: all `true`) says that the first-kid chain is clear -/
theorem inflow_mask_iff (ds : Array Nat) (region : Array Bool) (seq : List Nat) (htopo : Topo ds seq)
    (hb : ∀ i ∈ seq, i < ds.size) (j : Nat) (hj : j < ds.size) :
    (sweepUp ds (updIn ds region) seq (Array.replicate ds.size true))[j]! = true ↔
      ChainClear ds seq region j := by
  have hb' : ∀ i ∈ seq, i < (Array.replicate ds.size true).size := by simpa using hb
  have hrec := inflow_mask_rec ds region seq htopo (Array.replicate ds.size true) hb'
  constructor
  · revert hj
    refine Topo.induction_up htopo (fun j => j < ds.size →
      (sweepUp ds (updIn ds region) seq (Array.replicate ds.size true))[j]! = true →
        ChainClear ds seq region j) (fun j ih hj hm => ?_) j
    rw [hrec j] at hm
    cases hk : firstKid ds seq j with
    | none => exact ChainClear.head j hk
    | some c =>
      rw [hk] at hm
      simp only [Bool.and_eq_true, Bool.not_eq_true'] at hm
      obtain ⟨hc1, hc2, hc3⟩ := firstKid_some hk
      exact ChainClear.up j c hk hm.2 (ih c hc1 hc2 hc3 (hb c hc1) hm.1)
  · intro h
    induction h with
    | head j hk => rw [hrec j, hk]; simp [hj]
    | up j c hk he _ ih =>
      obtain ⟨hc1, _, _⟩ := firstKid_some hk
      rw [hrec j, hk]
      simp [ih (hb c hc1), he]

/-- the executable chain walk decides `ChainClear` wherever it ends -/
theorem chainClear_sound (ds : Array Nat) (seq : List Nat) (region : Array Bool) :
    ∀ fuel j b, chainClear ds seq region fuel j = some b → (b = true ↔ ChainClear ds seq region j) := by
  intro fuel
  induction fuel with
  | zero => intro j b h; simp [chainClear] at h
  | succ f ih =>
    intro j b h
    simp only [chainClear] at h
    cases hk : firstKid ds seq j with
    | none =>
      rw [hk] at h
      simp only [Option.some.injEq] at h
      subst h
      simp [ChainClear.head j hk]
    | some c =>
      rw [hk] at h
      simp only at h
      by_cases he : enterCell ds region c = true
      · simp only [he, if_true, Option.some.injEq] at h
        subst h
        constructor
        · intro h; cases h
        · intro hcc
          cases hcc with
          | head _ h0 => rw [hk] at h0; cases h0
          | up _ c' h0 he' _ =>
            rw [hk] at h0
            simp only [Option.some.injEq] at h0
            subst h0
            rw [he] at he'; cases he'
      · have he' : enterCell ds region c = false := by simpa using he
        simp only [he', Bool.false_eq_true, if_false] at h
        rw [ih c b h]
        constructor
        · intro hcc; exact ChainClear.up j c hk he' hcc
        · intro hcc
          cases hcc with
          | head _ h0 => rw [hk] at h0; cases h0
          | up _ c' h0 _ hcc' =>
            rw [hk] at h0
            simp only [Option.some.injEq] at h0
            subst h0
            exact hcc'

/-- no entering cell strictly upstream ⇒ the first-kid chain is clear (whatever the order) -/
theorem chainClear_of_no_enter_up (ds : Array Nat) (region : Array Bool) (seq : List Nat)
    (htopo : Topo ds seq) (j : Nat)
    (h : ∀ y ∈ seq, ∀ k, iterA ds (k+1) y = j → enterCell ds region y = false) :
    ChainClear ds seq region j := by
  revert h
  refine Topo.induction_up htopo (fun j =>
    (∀ y ∈ seq, ∀ k, iterA ds (k+1) y = j → enterCell ds region y = false) →
      ChainClear ds seq region j) (fun j ih h => ?_) j
  cases hk : firstKid ds seq j with
  | none => exact ChainClear.head j hk
  | some c =>
    obtain ⟨hc1, hc2, hc3⟩ := firstKid_some hk
    refine ChainClear.up j c hk (h c hc1 0 (by simp [iterA, hc2])) (ih c hc1 hc2 hc3 ?_)
    intro y hy k hyk
    refine h y hy (k+1) ?_
    rw [iterA_succ', hyk, hc2]

end Pf.C05x
