import PfVerif.Proofs.C09_ihuRel2
import PfVerif.Proofs.C09_ihuNew
/-! Outlet pixels stay pairwise distinct through `ihu_optimize_rivlen` and `ihu_minimize_error`, also when
`pit_out_of_cell > 0` moves an outlet to a pit outside its cell: the `streams` array (`upscale_check`) records the cell of
every outlet pixel, the stages keep it in step with the outlet array, and a pixel that `streams` marks as an outlet is
never given to a second cell (C09 extension, fourth stage). Core Lean only. -/
namespace Pf.C09ihu
open Pf

/-- `streams` knows the outlet pixels: the entry of every (in-range) outlet pixel is its coarse cell -/
def SyncD (ds : Array Nat) (streams : Array Int) (out : Array Nat) : Prop :=
  ∀ c, c < out.size → out[c]! < ds.size → streams[out[c]!]! = Int.ofNat c

/-- in-range outlet pixels are pairwise distinct -/
def DistinctD (ds : Array Nat) (out : Array Nat) : Prop :=
  ∀ c c', c < out.size → c' < out.size → out[c]! < ds.size → out[c]! = out[c']! → c = c'

theorem SyncD.distinct {ds : Array Nat} {streams : Array Int} {out : Array Nat} (h : SyncD ds streams out) :
    DistinctD ds out := by
  intro c c' hc hc' hlt heq
  have h1 := h c hc hlt
  have h2 := h c' hc' (heq ▸ hlt)
  rw [heq, h2] at h1
  exact (Int.ofNat.inj h1).symm

theorem geti_set (a : Array Int) (i j : Nat) (v : Int) :
    (a.setIfInBounds i v)[j]! = if i = j ∧ i < a.size then v else a[j]! := get!_setIfInBounds a i j v

/-- the marking of a path (`streams[p] = max(streams[p], -1)`) leaves non-negative entries alone -/
theorem pathFold_get (path : List Nat) : ∀ (s : Array Int) (p : Nat), 0 ≤ s[p]! →
    (path.foldl (fun s q => s.setIfInBounds q (max s[q]! (-1))) s)[p]! = s[p]! := by
  induction path with
  | nil => intro s p _; rfl
  | cons q path ih =>
    intro s p hp
    rw [List.foldl_cons]
    have h1 : (s.setIfInBounds q (max s[q]! (-1)))[p]! = s[p]! := by
      rw [geti_set]
      split
      · rename_i hh
        rw [hh.1]
        omega
      · rfl
    rw [ih _ p (by rw [h1]; exact hp), h1]

theorem pathFold_size (path : List Nat) : ∀ (s : Array Int),
    (path.foldl (fun s q => s.setIfInBounds q (max s[q]! (-1))) s).size = s.size := by
  induction path with
  | nil => intro s; rfl
  | cons q path ih => intro s; rw [List.foldl_cons, ih]; simp

/-! ### `new_outlet` -/

theorem newOutlet_sync (ds : Array Nat) (upa : Array Int) (idx0 : Nat) (streams : Array Int)
    (cds out : Array Nat) (ncol subncol cs minNum minDen : Nat) (minupa : Int) (target : Option Nat)
    (s' : Array Int) (c' o' : Array Nat) (f : Bool)
    (h : newOutlet ds upa idx0 out[idx0]! streams cds out ncol subncol cs minNum minDen minupa target =
      some (s', c', o', f))
    (hsz : streams.size = ds.size) (hi : idx0 < out.size) (hs : SyncD ds streams out) :
    s'.size = ds.size ∧ o'.size = out.size ∧ SyncD ds s' o' ∧ ∀ c, c ≠ idx0 → o'[c]! = out[c]! := by
  -- other cells' outlet pixels differ from the outlet pixel of `idx0`
  have hother : ∀ c, c < out.size → c ≠ idx0 → out[c]! < ds.size → out[c]! ≠ out[idx0]! :=
    fun c hc hne hlt heq => hne (hs.distinct c idx0 hc hi hlt heq)
  unfold newOutlet at h
  simp only at h
  split at h
  · cases h
  · simp only [Option.some.injEq, Prod.mk.injEq] at h
    obtain ⟨rfl, _, rfl, _⟩ := h
    refine ⟨by simp [hsz], rfl, ?_, fun _ _ => rfl⟩
    intro c hc hlt
    rw [geti_set, geti_set]
    by_cases heq : out[idx0]! = out[c]!
    · have hci : c = idx0 := hs.distinct c idx0 hc hi hlt heq.symm
      rw [if_pos ⟨heq, by simp [hsz]; rw [heq]; exact hlt⟩, hci]
    · rw [if_neg (fun hh => heq hh.1), if_neg (fun hh => heq hh.1)]
      exact hs c hc hlt
  · rename_i x pout idxds path0 hres
    simp only [Option.some.injEq, Prod.mk.injEq] at h
    obtain ⟨rfl, _, rfl, _⟩ := h
    -- the selected pixel is a candidate that `streams` does not mark
    have key := foldlM_inv _
      (fun (st : Int × Option (Nat × Nat × List Nat)) =>
        ∀ a, st.2 = some a → a.1 ∈ outletPix ds idx0 ncol subncol cs false ∧
          (streams.setIfInBounds out[idx0]! (-1))[a.1]! = -9) _ ?_ _ _ ?_ hres
    · obtain ⟨hmem, hm9⟩ := key _ rfl
      simp only at hmem hm9
      have hplt : pout < ds.size := (outletPix_mem ds idx0 ncol subncol cs pout hmem).1
      refine ⟨by rw [pathFold_size]; simp [hsz], by simp, ?_, fun c hc => ?_⟩
      · intro c hc hlt
        simp only [Array.size_setIfInBounds] at hc
        rw [get!_setIfInBounds] at hlt ⊢
        by_cases hci : idx0 = c
        · subst hci
          rw [if_pos ⟨rfl, hi⟩]
          have h2 : ((streams.setIfInBounds out[idx0]! (-1)).setIfInBounds pout (Int.ofNat idx0))[pout]! =
              Int.ofNat idx0 := by
            rw [geti_set, if_pos ⟨rfl, by simp [hsz]; exact hplt⟩]
          rw [pathFold_get _ _ _ (by rw [h2]; exact Int.natCast_nonneg _), h2]
        · rw [if_neg (fun hh => hci hh.1)] at hlt ⊢
          have hne0 : out[c]! ≠ out[idx0]! := hother c hc (fun hh => hci hh.symm) hlt
          have h1 : (streams.setIfInBounds out[idx0]! (-1))[out[c]!]! = Int.ofNat c := by
            rw [geti_set, if_neg (fun hh => hne0 hh.1.symm)]; exact hs c hc hlt
          have hnp : pout ≠ out[c]! := by
            intro heq
            rw [heq, h1] at hm9
            have := Int.natCast_nonneg c
            simp only [Int.ofNat_eq_natCast] at hm9
            omega
          have h2 : ((streams.setIfInBounds out[idx0]! (-1)).setIfInBounds pout (Int.ofNat idx0))[out[c]!]! =
              Int.ofNat c := by
            rw [geti_set, if_neg (fun hh => hnp hh.1)]; exact h1
          rw [pathFold_get _ _ _ (by rw [h2]; exact Int.natCast_nonneg _), h2]
      · rw [get!_setIfInBounds, if_neg (fun hh => hc hh.1.symm)]
    · intro b cand b' hmem hb hstep
      split at hstep
      · cases hstep; exact hb
      · rename_i hskip
        simp only [not_or, Decidable.not_not] at hskip
        split at hstep
        · cases hstep
        · split at hstep <;> split at hstep <;>
            first
              | (cases hstep; exact hb)
              | (cases hstep; intro a ha; cases ha; exact ⟨hmem, hskip.1⟩)
    · intro a ha; cases ha

/-- moving the outlet pixel of `idx0` to a pixel `p` that is no other cell's outlet pixel keeps `streams` in step -/
theorem move_sync (ds : Array Nat) (s : Array Int) (out : Array Nat) (idx0 p : Nat) (hsz : s.size = ds.size)
    (hi : idx0 < out.size) (hs : SyncD ds s out)
    (hp : ∀ c, c < out.size → c ≠ idx0 → out[c]! < ds.size → out[c]! ≠ p) :
    SyncD ds ((s.setIfInBounds out[idx0]! (-1)).setIfInBounds p (Int.ofNat idx0)) (out.setIfInBounds idx0 p) := by
  intro c hc hlt
  simp only [Array.size_setIfInBounds] at hc
  have hoc : (out.setIfInBounds idx0 p)[c]! = if idx0 = c ∧ idx0 < out.size then p else out[c]! :=
    get!_setIfInBounds out idx0 c p
  rw [hoc] at hlt ⊢
  by_cases hci : idx0 = c
  · subst hci
    rw [if_pos ⟨rfl, hi⟩] at hlt ⊢
    rw [geti_set, if_pos ⟨rfl, by simp [hsz]; exact hlt⟩]
  · rw [if_neg (fun hh => hci hh.1)] at hlt ⊢
    have hcne : c ≠ idx0 := fun hh => hci hh.symm
    have h1 : out[c]! ≠ p := hp c hc hcne hlt
    have h2 : out[c]! ≠ out[idx0]! := fun heq => hcne (hs.distinct c idx0 hc hi hlt heq)
    rw [geti_set, if_neg (fun hh => h1 hh.1.symm), geti_set, if_neg (fun hh => h2 hh.1.symm)]
    exact hs c hc hlt

/-! ### the stages -/

/-- `streams` has one entry per pixel, the outlet array one per coarse cell, and they are in step -/
def TriSync (e : Env) (n : Nat) (st : Tri) : Prop :=
  st.1.size = e.ds.size ∧ st.2.2.size = n ∧ SyncD e.ds st.1 st.2.2

theorem newOutletE_sync (e : Env) (par : Par) (n idx0 : Nat) (streams : Array Int) (cds out : Array Nat)
    (target : Option Nat) (s' : Array Int) (c' o' : Array Nat) (f : Bool)
    (h : newOutletE e par idx0 out[idx0]! streams cds out target = some (s', c', o', f))
    (hs : TriSync e n (streams, cds, out)) (hi : idx0 < n) :
    TriSync e n (s', c', o') ∧ ∀ c, c ≠ idx0 → o'[c]! = out[c]! := by
  unfold newOutletE at h
  obtain ⟨h1, h2, h3⟩ := hs
  simp only at h1 h2 h3
  obtain ⟨a, b, c, d⟩ := newOutlet_sync _ _ _ _ _ _ _ _ _ _ _ _ _ _ _ _ _ h h1 (by rw [h2]; exact hi) h3
  exact ⟨⟨a, by rw [b, h2], c⟩, d⟩

theorem bool_get_lt' (valid : Array Bool) (i : Nat) (h : valid[i]! = true) : i < valid.size := by
  apply Classical.byContradiction
  intro hn
  rw [getElem!_neg valid i hn] at h
  cases h

theorem rivlenOne_sync (e : Env) (par : Par) (n : Nat) (valid : Array Bool) (hvs : valid.size ≤ n) (st st' : Tri)
    (idx0 : Nat) (b : Bool) (h : rivlenOne e par valid st idx0 = some (st', b)) (hs : TriSync e n st) :
    TriSync e n st' := by
  obtain ⟨streams, cds, out⟩ := st
  simp only [rivlenOne] at h
  split at h
  · simp only [Option.some.injEq, Prod.mk.injEq] at h; exact h.1 ▸ hs
  · rename_i hc1
    simp only [Bool.or_eq_true, beq_iff_eq, not_or, Bool.not_eq_false] at hc1
    have hi0 : idx0 < n := Nat.lt_of_lt_of_le (bool_get_lt' valid _ hc1.2) hvs
    split at h
    · split at h
      · cases h
      · rename_i s1 c1 o1 succ hnew
        obtain ⟨hs1, hsame⟩ := newOutletE_sync e par n idx0 streams cds out none s1 c1 o1 succ hnew hs hi0
        obtain ⟨hz1, hz2, hz3⟩ := hs
        simp only at hz1 hz2 hz3
        split at h
        · simp only [Option.some.injEq, Prod.mk.injEq] at h
          rw [← h.1]
          -- the loop over the upstream cells: links are re-pointed, or the old outlet pixel is restored
          have key := foldl_inv
            (fun (st : Tri) idx =>
              if valid[idx]! = true then (st.1, st.2.1.setIfInBounds idx cds[idx0]!, st.2.2)
              else if (st.2.1[idx0]! == idx) = true then
                ((st.1.setIfInBounds st.2.2[idx0]! (-1)).setIfInBounds out[idx0]! (Int.ofNat idx0),
                  st.2.1.setIfInBounds idx0 cds[idx0]!, st.2.2.setIfInBounds idx0 out[idx0]!)
              else st)
            (fun (st : Tri) => TriSync e n st ∧ ∀ c, c ≠ idx0 → st.2.2[c]! = out[c]!)
            (upstreamD8 cds idx0 e.nrow e.ncol) ?_ (s1, c1, o1) ⟨hs1, hsame⟩
          · exact key.1
          · intro st idx _ hst
            obtain ⟨s2, c2, o2⟩ := st
            obtain ⟨⟨hm1, hm2, hm3⟩, hm4⟩ := hst
            simp only at hm1 hm2 hm3 hm4
            dsimp only
            split
            · exact ⟨⟨hm1, hm2, hm3⟩, hm4⟩
            · split
              · refine ⟨⟨by simp [hm1], by simp [hm2], ?_⟩, fun c hc => ?_⟩
                · show SyncD e.ds ((s2.setIfInBounds o2[idx0]! (-1)).setIfInBounds out[idx0]! (Int.ofNat idx0))
                    (o2.setIfInBounds idx0 out[idx0]!)
                  apply move_sync e.ds s2 o2 idx0 out[idx0]! hm1 (by rw [hm2]; exact hi0) hm3
                  intro c hc hcne hlt heq
                  rw [hm4 c hcne] at hlt heq
                  exact hcne (SyncD.distinct hz3 c idx0 (by rw [hz2, ← hm2]; exact hc) (by rw [hz2]; exact hi0) hlt heq)
                · show (o2.setIfInBounds idx0 out[idx0]!)[c]! = out[c]!
                  rw [get!_setIfInBounds, if_neg (fun hh => hc hh.1.symm)]
                  exact hm4 c hc
              · exact ⟨⟨hm1, hm2, hm3⟩, hm4⟩
        · simp only [Option.some.injEq, Prod.mk.injEq] at h
          rw [← h.1]
          exact hs1
    · simp only [Option.some.injEq, Prod.mk.injEq] at h; exact h.1 ▸ hs

theorem optimizeRivlen_sync (e : Env) (par : Par) (n : Nat) (short : List Nat) (valid : Array Bool)
    (hvs : valid.size ≤ n) (st st' : Tri) (h : optimizeRivlen e par short valid st = some st')
    (hs : TriSync e n st) : TriSync e n st' := by
  unfold optimizeRivlen at h
  refine foldlM_inv _ (TriSync e n) _ ?_ _ _ hs h
  intro b i b' _ hb hstep
  simp only at hstep
  split at hstep
  · cases hstep
  · rename_i st1 h1
    simp only [Option.some.injEq] at hstep; subst hstep
    exact rivlenOne_sync e par n valid hvs b _ i true h1 hb
  · rename_i st1 h1
    have hb1 := rivlenOne_sync e par n valid hvs b st1 i false h1 hb
    cases h2 : rivlenOne e par valid st1 b.2.1[i]! with
    | none => rw [h2] at hstep; cases hstep
    | some r =>
      rw [h2] at hstep
      simp only [Option.map_some, Option.some.injEq] at hstep
      subst hstep
      obtain ⟨st2, b2⟩ := r
      exact rivlenOne_sync e par n valid hvs st1 st2 _ b2 h2 hb1

/-! ### `ihu_minimize_error` -/

theorem errPath_nonempty (e : Env) (streams : Array Int) (idx0 : Nat) :
    ∀ fuel subidx idxs r, errPath e streams idx0 fuel subidx idxs = some r → idxs ≠ [] → r.1 ≠ [] := by
  intro fuel
  induction fuel with
  | zero => intro subidx idxs r h; simp [errPath] at h
  | succ f ih =>
    intro subidx idxs r h hne
    simp only [errPath] at h
    split at h
    · cases h; exact hne
    · split at h
      · split at h
        · cases h; simp
        · exact ih _ _ _ h (by simp)
      · exact ih _ _ _ h hne

/-- if the first `while True` of `ihu_minimize_error` collects no cell, the pixel it stops at is the start pixel or a
pixel that `streams` does not mark as an outlet pixel -/
theorem errPath_empty (e : Env) (streams : Array Int) (idx0 : Nat) :
    ∀ fuel subidx r, errPath e streams idx0 fuel subidx [] = some r → r.1 = [] →
      r.2.1 = subidx ∨ ¬ (streams[r.2.1]! ≥ 0) := by
  intro fuel
  induction fuel with
  | zero => intro subidx r h; simp [errPath] at h
  | succ f ih =>
    intro subidx r h hr
    simp only [errPath] at h
    split at h
    · cases h; exact Or.inl rfl
    · split at h
      · split at h
        · cases h; simp at hr
        · exact absurd hr (errPath_nonempty e streams idx0 _ _ _ _ h (by simp))
      · rename_i hneg
        rcases ih _ _ h hr with h1 | h1
        · right; rw [h1]; exact hneg
        · exact Or.inr h1

theorem nbWalk_hw (e : Env) (out : Array Nat) (idxs : List Nat) (idx0 idx1 : Nat) (upa : Int) :
    ∀ k j idx s, ∀ i ∈ (nbWalk e out idxs idx0 idx1 upa k j idx s).hw, i ∈ s.hw ∨ i = idx1 := by
  intro k
  induction k with
  | zero => intro j idx s i hi; exact Or.inl hi
  | succ k ih =>
    intro j idx s i hi
    simp only [nbWalk] at hi
    repeat' split at hi
    all_goals first
      | exact Or.inl hi
      | exact ih _ _ _ _ hi
      | (rcases List.mem_append.mp hi with hi | hi
         · exact Or.inl hi
         · simp only [List.mem_singleton] at hi; exact Or.inr hi)

theorem nbSearch_hw (e : Env) (out : Array Nat) (idxs : List Nat) (idx0 : Nat) (d8 : List Nat) (cds : Array Nat)
    (fixed : Bool) : ∀ i ∈ (nbSearch e out idxs idx0 d8 cds fixed).hw, i ∈ d8 := by
  unfold nbSearch
  split
  · intro i hi; cases hi
  · refine foldl_inv _ (fun (s : Nb) => ∀ i ∈ s.hw, i ∈ d8) _ ?_ _ (fun i hi => by cases hi)
    intro s idx1 hmem hs
    split
    · exact hs
    · intro i hi
      rcases nbWalk_hw e out idxs idx0 idx1 _ _ _ _ _ i hi with h | h
      · exact hs i h
      · rw [h]; exact hmem

theorem minErrPass_sync (e : Env) (par : Par) (n : Nat) (idxs : List Nat) (idx0 : Nat) (d8 : List Nat)
    (hd8 : ∀ i ∈ d8, i < n) :
    ∀ pass fixed st st', minErrPass e par idxs idx0 d8 pass fixed st = some st' → TriSync e n st → TriSync e n st' := by
  intro pass
  induction pass with
  | zero => intro fixed st st' h hs; simp only [minErrPass] at h; cases h; exact hs
  | succ k ih =>
    intro fixed st st' h hs
    obtain ⟨streams, cds, out⟩ := st
    simp only [minErrPass] at h
    have hhw := nbSearch_hw e out idxs idx0 d8 cds fixed
    generalize nbSearch e out idxs idx0 d8 cds fixed = nb at h hhw
    split at h
    · split at h
      · cases h
      · rename_i st1 f1 hfold
        have h1 : TriSync e n st1 := by
          have := foldlM_inv _ (fun (x : Tri × Bool) => TriSync e n x.1) _ ?_ _ _ ?_ hfold
          · exact this
          · intro b idx b' hidx hb hstep
            split at hstep
            · cases hstep; exact hb
            · obtain ⟨⟨s2, c2, o2⟩, f2⟩ := b
              simp only at hb hstep
              split at hstep
              · cases hstep
              · rename_i s3 c3 o3 f3 hnew
                cases hstep
                exact (newOutletE_sync e par n idx s2 c2 o2 _ s3 c3 o3 f3 hnew hb (hd8 _ (hhw _ hidx))).1
          · exact ⟨hs.1, hs.2.1, hs.2.2⟩
        exact ih _ _ _ h h1
    · cases h
      exact ⟨hs.1, hs.2.1, hs.2.2⟩

theorem minErrOne_sync (e : Env) (par : Par) (n poc : Nat) (st st' : Tri) (idx0 : Nat) (hi : idx0 < n)
    (hn : e.nrow * e.ncol = n) (h : minErrOne e par poc st idx0 = some st') (hs : TriSync e n st) :
    TriSync e n st' := by
  obtain ⟨streams, cds, out⟩ := st
  obtain ⟨hz1, hz2, hz3⟩ := hs
  simp only at hz1 hz2 hz3
  have hd8 : ∀ i ∈ d8Idx idx0 e.nrow e.ncol, i < n := fun i hi => by rw [← hn]; exact d8Idx_lt _ _ _ _ hi
  simp only [minErrOne] at h
  split at h
  · cases h
  · rename_i idxs subidx sds hpath
    split at h
    · -- the outlet pixel is moved to the pit
      rename_i hc
      cases h
      simp only [Bool.and_eq_true, decide_eq_true_eq, beq_iff_eq, Bool.or_eq_true, List.isEmpty_iff] at hc
      have hat : sds = subidx := hc.1.1.1.2
      refine ⟨by simp [hz1], by simp [hz2], ?_⟩
      apply move_sync e.ds streams out idx0 sds hz1 (by rw [hz2]; exact hi) hz3
      intro c hcl hcne hlt heq
      have hne0 : out[c]! ≠ out[idx0]! :=
        fun hh => hcne (SyncD.distinct hz3 c idx0 hcl (by rw [hz2]; exact hi) hlt hh)
      rcases hc.2 with h1 | h1
      · exact hne0 (heq.trans h1)
      · subst h1
        rcases errPath_empty e streams idx0 _ _ _ hpath rfl with h2 | h2
        · simp only at h2
          exact hne0 (heq.trans (hat.trans h2))
        · simp only at h2
          apply h2
          rw [← hat, ← heq, hz3 c hcl hlt]
          exact Int.natCast_nonneg c
    · split at h
      · cases h
      · rename_i s1 c1 o1 f1 hr
        have h1 : TriSync e n (s1, c1, o1) := by
          split at hr
          · exact (newOutletE_sync e par n idx0 streams cds out none s1 c1 o1 f1 hr ⟨hz1, hz2, hz3⟩ hi).1
          · cases hr; exact ⟨hz1, hz2, hz3⟩
        exact minErrPass_sync e par n idxs idx0 _ hd8 _ _ _ _ h h1

theorem minimizeError_sync (e : Env) (par : Par) (n poc : Nat) (fix : List Nat) (st st' : Tri) (sorts sorts' : Sorts)
    (hn : e.nrow * e.ncol = n) (hfix : ∀ c ∈ fix, c < n)
    (h : minimizeError e par poc fix st sorts = some (st', sorts')) (hs : TriSync e n st) : TriSync e n st' := by
  simp only [minimizeError] at h
  have htake := Sorts.take_ok sorts (fix.map fun c => e.upa[st.2.2[c]!]!).toArray
  simp only [List.size_toArray, List.length_map] at htake
  cases hf : List.foldlM (fun st i0 => minErrOne e par poc st fix[i0]!)
      st (sorts.take (fix.map fun c => e.upa[st.2.2[c]!]!).toArray).1.reverse with
  | none => rw [hf] at h; cases h
  | some r =>
    rw [hf] at h
    simp only [Option.map_some, Option.some.injEq, Prod.mk.injEq] at h
    rw [← h.1]
    refine foldlM_inv _ (TriSync e n) _ ?_ _ _ hs hf
    intro b i0 b' hi0 hb hstep
    exact minErrOne_sync e par n poc b b' _
      (hfix _ (getElem!_mem fix i0 (htake.2 i0 (List.mem_reverse.mp hi0)))) hn hstep hb

end Pf.C09ihu
