import PfVerif.Proofs.C06DepthSafe
/-! `max_depth >= 0`, preparation for "at most one too-deep event per cell": windows of the neighbour
loop (`Win`, `AtO`), the re-opening loop cell by cell, arithmetic of `tooDeep`, and what the three
branches of the loop body do to heap / `done` / `queued`. Core Lean only. -/
namespace Pf.C06
open Pf

/-! ### `tooDeep` -/

theorem tooDeep_zero (md : Int) : tooDeep md 0 = false := by simp [tooDeep]

theorem tooDeep_mono {md a b : Int} (hab : b ≤ a) (h : tooDeep md a = false) : tooDeep md b = false := by
  unfold tooDeep at *
  simp only [Bool.and_eq_false_iff, decide_eq_false_iff_not] at *
  omega

theorem tooDeep_add {md a b : Int} (ha : tooDeep md a = true) (hb : tooDeep md b = true) :
    tooDeep md (a + b) = true := by
  unfold tooDeep at *
  simp only [Bool.and_eq_true, decide_eq_true_eq] at *
  omega

/-! ### windows -/

/-- `c` is the cell at one of the offsets `os` from `i0` -/
def AtO (G : Grid) (i0 : Nat) (os : List (Int × Int)) (c : Nat) : Prop :=
  ∃ o, o ∈ os ∧ shift G i0 o.1 o.2 = some c

/-- `c` lies in the structure window of `m` (the cells the neighbour loop of `m` visits, `m` included) -/
def Win (G : Grid) (conn : Nat) (m c : Nat) : Prop := AtO G m (offsets conn) c

variable {G : Grid} {conn : Nat} {elev : Array Int} {nod : Array Bool} {md : Int}

theorem shift_inj {i j : Nat} {o o' : Int × Int} (h : shift G i o.1 o.2 = some j)
    (h' : shift G i o'.1 o'.2 = some j) : o = o' := by
  obtain ⟨_, a1, a2⟩ := shift_spec.1 h
  obtain ⟨_, b1, b2⟩ := shift_spec.1 h'
  obtain ⟨x, y⟩ := o
  obtain ⟨x', y'⟩ := o'
  simp only at a1 a2 b1 b2
  have : x = x' := by omega
  have : y = y' := by omega
  subst_vars
  rfl

theorem win_lt {m c : Nat} (h : Win G conn m c) : c < G.n := by
  obtain ⟨o, _, hs⟩ := h
  exact (shift_spec.1 hs).1

theorem win_self {j : Nat} (hj : j < G.n) : Win G conn j j :=
  ⟨(0, 0), (mem_offsets conn 0 0).2 (by omega), shift_spec.2 ⟨hj, by simp, by simp⟩⟩

theorem win_symm {m c : Nat} (hm : m < G.n) (h : Win G conn m c) : Win G conn c m := by
  obtain ⟨⟨dr, dc⟩, ho, hs⟩ := h
  obtain ⟨_, a1, a2⟩ := shift_spec.1 hs
  simp only at a1 a2
  have ho' := (mem_offsets conn dr dc).1 ho
  refine ⟨(-dr, -dc), (mem_offsets conn (-dr) (-dc)).2 ⟨by omega, by omega, by omega, by omega, fun h4 => ?_⟩,
    shift_spec.2 ⟨hm, by simp only; omega, by simp only; omega⟩⟩
  rcases ho'.2.2.2.2 h4 with h | h
  · left; omega
  · right; omega

theorem atO_tail {i0 c : Nat} {o : Int × Int} {os : List (Int × Int)} (h : AtO G i0 os c) :
    AtO G i0 (o :: os) c := by
  obtain ⟨o', ho, hs⟩ := h
  exact ⟨o', List.mem_cons_of_mem _ ho, hs⟩

theorem atO_of_cons {i0 c : Nat} {o : Int × Int} {os : List (Int × Int)} (h : AtO G i0 (o :: os) c)
    (hne : shift G i0 o.1 o.2 ≠ some c) : AtO G i0 os c := by
  obtain ⟨o', ho, hs⟩ := h
  rcases List.mem_cons.1 ho with rfl | ho
  · exact absurd hs hne
  · exact ⟨o', ho, hs⟩

theorem not_atO_head {i0 j : Nat} {o : Int × Int} {os : List (Int × Int)} (hnd : o ∉ os)
    (h : shift G i0 o.1 o.2 = some j) : ¬ AtO G i0 os j := by
  rintro ⟨o', ho, hs⟩
  have := shift_inj hs h
  subst this
  exact hnd ho

theorem atO_nil {i0 c : Nat} : ¬ AtO G i0 [] c := by
  rintro ⟨o, ho, _⟩
  cases ho

/-! ### the re-opening loop, cell by cell -/

theorem reopen_fold_false (j : Nat) (l : List (Int × Int)) (d : Array Bool) (c : Nat) :
    (l.foldl (fun d o =>
      match shift G j o.1 o.2 with
      | some k => if nod[k]! then d else d.setIfInBounds k false
      | none => d) d)[c]! = false ↔
      (d[c]! = false ∨ (AtO G j l c ∧ nod[c]! = false ∧ c < d.size)) := by
  induction l generalizing d with
  | nil =>
    simp only [List.foldl_nil]
    constructor
    · exact Or.inl
    · rintro (h | ⟨h, _⟩)
      · exact h
      · exact absurd h atO_nil
  | cons o l ih =>
    simp only [List.foldl_cons]
    rw [ih]
    cases hs : shift G j o.1 o.2 with
    | none =>
      simp only
      constructor
      · rintro (h | ⟨h1, h2, h3⟩)
        · exact Or.inl h
        · exact Or.inr ⟨atO_tail h1, h2, h3⟩
      · rintro (h | ⟨h1, h2, h3⟩)
        · exact Or.inl h
        · exact Or.inr ⟨atO_of_cons h1 (by rw [hs]; simp), h2, h3⟩
    | some k =>
      simp only
      by_cases hk : nod[k]! = true
      · rw [if_pos hk]
        constructor
        · rintro (h | ⟨h1, h2, h3⟩)
          · exact Or.inl h
          · exact Or.inr ⟨atO_tail h1, h2, h3⟩
        · rintro (h | ⟨h1, h2, h3⟩)
          · exact Or.inl h
          · refine Or.inr ⟨atO_of_cons h1 ?_, h2, h3⟩
            rw [hs]
            intro hkc
            injection hkc with hkc
            rw [hkc, h2] at hk
            cases hk
      · rw [if_neg hk]
        have hk' : nod[k]! = false := by simpa using hk
        rw [get!_setIfInBounds, Array.size_setIfInBounds]
        constructor
        · rintro (h | ⟨h1, h2, h3⟩)
          · split at h
            · rename_i hkc
              exact Or.inr ⟨⟨o, List.mem_cons_self, by rw [hs, hkc.1]⟩, by rw [← hkc.1]; exact hk', by rw [← hkc.1]; exact hkc.2⟩
            · exact Or.inl h
          · exact Or.inr ⟨atO_tail h1, h2, h3⟩
        · rintro (h | ⟨h1, h2, h3⟩)
          · left
            split
            · rfl
            · exact h
          · by_cases hkc : k = c
            · left
              rw [if_pos ⟨hkc, by rw [hkc]; exact h3⟩]
            · exact Or.inr ⟨atO_of_cons h1 (by rw [hs]; intro h; injection h with h; exact hkc h), h2, h3⟩

/-- after re-opening the window of `j`: a cell is not done iff it was not done or is a valid cell of the window -/
theorem reopen_false_iff (j : Nat) (d : Array Bool) (c : Nat) :
    (reopen G conn nod j d)[c]! = false ↔
      (d[c]! = false ∨ (Win G conn j c ∧ nod[c]! = false ∧ c < d.size)) :=
  reopen_fold_false j (offsets conn) d c

/-! ### the three outcomes of one visit -/

/-- one visit of the neighbour loop: nothing (outside the raster or done), the too-deep branch, or the
normal branch -/
theorem visitD_cases (z0 : Int) (i0 : Nat) (s : StD) (o : Int × Int) :
    (visitD G conn elev nod md z0 i0 s o = s ∧
      (shift G i0 o.1 o.2 = none ∨ ∃ j, shift G i0 o.1 o.2 = some j ∧ s.done[j]! = true)) ∨
    (∃ j, shift G i0 o.1 o.2 = some j ∧ s.done[j]! = false ∧ tooDeep md (z0 - elev[j]!) = true ∧
      visitD G conn elev nod md z0 i0 s o = deepStep G conn elev nod s j) ∨
    (∃ j, shift G i0 o.1 o.2 = some j ∧ s.done[j]! = false ∧ tooDeep md (z0 - elev[j]!) = false ∧
      visitD G conn elev nod md z0 i0 s o = fillStep elev z0 (resetStep elev s j) j (usCode o.1 o.2)) := by
  unfold visitD
  cases hs : shift G i0 o.1 o.2 with
  | none => exact Or.inl ⟨rfl, Or.inl rfl⟩
  | some j =>
    simp only
    by_cases hd : s.done[j]! = true
    · rw [if_pos hd]; exact Or.inl ⟨rfl, Or.inr ⟨j, rfl, hd⟩⟩
    · rw [if_neg hd]
      have hd' : s.done[j]! = false := by simpa using hd
      by_cases ht : tooDeep md (z0 - elev[j]!) = true
      · rw [if_pos ht]; exact Or.inr (Or.inl ⟨j, rfl, hd', ht, rfl⟩)
      · rw [if_neg ht]; exact Or.inr (Or.inr ⟨j, rfl, hd', by simpa using ht, rfl⟩)

/-- the level with which the normal branch pushes `j` -/
def fillLevel (elev : Array Int) (z0 : Int) (j : Nat) : Int := if z0 - elev[j]! > 0 then z0 else elev[j]!

/-- what the normal branch (reset + fill) does to heap, `queued`, `done` and the ghost counters -/
theorem fill_facts (z0 : Int) (s : StD) (j code : Nat) (hs : SizedD G s) (hj : j < G.n) :
    let s' := fillStep elev z0 (resetStep elev s j) j code
    (∀ e, e ∈ s'.q → e = ⟨fillLevel elev z0 j, 0, j⟩ ∨ e ∈ s.q) ∧
    (∀ e, e ∈ s.q → e ∈ s'.q) ∧
    (s.queued[j]! = false → (⟨fillLevel elev z0 j, 0, j⟩ : HE) ∈ s'.q) ∧
    (∀ c, s'.queued[c]! = if c = j then true else s.queued[c]!) ∧
    (∀ c, s'.done[c]! = if c = j then true else s.done[c]!) ∧
    s'.ev = s.ev ∧ s'.evc = s.evc ∧ (HSorted s.q → HSorted s'.q) := by
  intro s'
  have hqs : s.queued.size = G.n := hs.2.1
  have hds : s.done.size = G.n := hs.1
  -- the state after the reset
  have hr : (resetStep elev s j).q = s.q ∧ (resetStep elev s j).done = s.done ∧
      (resetStep elev s j).ev = s.ev ∧ (resetStep elev s j).evc = s.evc ∧
      (resetStep elev s j).queued.size = G.n ∧
      (∀ c, c ≠ j → (resetStep elev s j).queued[c]! = s.queued[c]!) ∧
      (s.queued[j]! = false → (resetStep elev s j).queued[j]! = false) := by
    unfold resetStep
    split
    · refine ⟨rfl, rfl, rfl, rfl, by simp [hqs], fun c hc => ?_, fun _ => ?_⟩
      · exact get_set_ne _ _ _ _ (fun h => hc h.symm)
      · exact get_set_self _ _ _ (by omega)
    · exact ⟨rfl, rfl, rfl, rfl, hqs, fun _ _ => rfl, fun h => h⟩
  obtain ⟨r1, r2, r3, r4, r5, r6, r7⟩ := hr
  have hlev : (if decide (z0 - elev[j]! > 0) = true then z0 else elev[j]!) = fillLevel elev z0 j := by
    unfold fillLevel; simp
  refine ⟨?_, ?_, ?_, ?_, ?_, ?_, ?_, ?_⟩
  · intro e he
    simp only [s', fillStep, hlev, r1] at he
    split at he
    · exact (mem_hpush _ _ _).1 he
    · exact Or.inr he
  · intro e he
    simp only [s', fillStep, hlev, r1]
    split
    · exact (mem_hpush _ _ _).2 (Or.inr he)
    · exact he
  · intro hq
    simp only [s', fillStep, hlev, r1]
    rw [r7 hq]
    simp only [Bool.not_false, if_true]
    exact (mem_hpush _ _ _).2 (Or.inl rfl)
  · intro c
    simp only [s', fillStep]
    by_cases hc : c = j
    · subst hc
      rw [if_pos rfl]
      cases hq : (resetStep elev s c).queued[c]! with
      | false => simp only [Bool.not_false, if_true]; exact get_set_self _ _ _ (by omega)
      | true => simp only [Bool.not_true]; exact hq
    · rw [if_neg hc]
      split
      · rw [get_set_ne _ _ _ _ (fun h => hc h.symm)]; exact r6 c hc
      · exact r6 c hc
  · intro c
    simp only [s', fillStep, r2]
    by_cases hc : c = j
    · subst hc; rw [if_pos rfl]; exact get_set_self _ _ _ (by omega)
    · rw [if_neg hc]; exact get_set_ne _ _ _ _ (fun h => hc h.symm)
  · exact r3
  · exact r4
  · intro hsort
    simp only [s', fillStep, r1]
    split
    · exact hsorted_hpush _ _ hsort
    · exact hsort

/-- what the too-deep branch does -/
theorem deep_facts (s : StD) (j : Nat) (hs : SizedD G s) (hj : j < G.n) :
    let s' := deepStep G conn elev nod s j
    (∀ e, e ∈ s'.q ↔ e = ⟨elev[j]!, 0, j⟩ ∨ e ∈ s.q) ∧
    (∀ c, s'.queued[c]! = if c = j then true else s.queued[c]!) ∧
    (∀ c, s'.done[c]! = false ↔ (s.done[c]! = false ∨ (Win G conn j c ∧ nod[c]! = false))) ∧
    s'.ev = s.ev + 1 ∧ (∀ c, s'.evc[c]! = if c = j ∧ j < s.evc.size then s.evc[j]! + 1 else s.evc[c]!) ∧
    (HSorted s.q → HSorted s'.q) ∧ s'.evc.size = s.evc.size ∧
    s'.queued = s.queued.setIfInBounds j true := by
  intro s'
  have hqs : s.queued.size = G.n := hs.2.1
  have hds : s.done.size = G.n := hs.1
  refine ⟨fun e => mem_hpush _ _ _, fun c => ?_, fun c => ?_, rfl, fun c => ?_, fun h => hsorted_hpush _ _ h,
    by simp [s', deepStep], rfl⟩
  · simp only [s', deepStep]
    by_cases hc : c = j
    · subst hc; rw [if_pos rfl]; exact get_set_self _ _ _ (by omega)
    · rw [if_neg hc]; exact get_set_ne _ _ _ _ (fun h => hc h.symm)
  · simp only [s', deepStep]
    rw [reopen_false_iff]
    constructor
    · rintro (h | ⟨h1, h2, _⟩)
      · exact Or.inl h
      · exact Or.inr ⟨h1, h2⟩
    · rintro (h | ⟨h1, h2⟩)
      · exact Or.inl h
      · exact Or.inr ⟨h1, h2, by rw [hds]; exact win_lt h1⟩
  · simp only [s', deepStep]
    rw [get!_setIfInBounds]
    by_cases hc : c = j
    · subst hc
      by_cases hsz : c < s.evc.size
      · rw [if_pos (⟨rfl, hsz⟩ : c = c ∧ c < s.evc.size)]
      · rw [if_neg (fun h : c = c ∧ c < s.evc.size => hsz h.2)]
    · rw [if_neg (fun h => hc h.1.symm), if_neg (fun h => hc h.1)]

end Pf.C06
