import PfVerif.Proofs.C16_machArith
/-! `dem._local_d4` on machine integers (helper lemmas of `Props/C16_mach.lean`). Core Lean only. -/
namespace Pf.C16m

section generic
variable {w : Nat}

theorem localD4_pit (idx0 nc : BitVec w) :
    localD4 idx0 idx0 nc = some [idx0 - 1, idx0 + nc, idx0 + 1, idx0 - nc] := by
  simp [localD4, d4List]

theorem localD4_nw (idx0 nc : BitVec w) (h0 : idx0 - nc - 1 ≠ idx0) :
    localD4 idx0 (idx0 - nc - 1) nc = some [idx0 - nc, idx0 - 1] := by
  simp only [BitVec.ofNat_eq_ofNat] at h0
  simp [localD4, d4List, diagList, h0]

theorem localD4_sw (idx0 nc : BitVec w) (h0 : idx0 + nc - 1 ≠ idx0)
    (h1 : idx0 - nc - 1 ≠ idx0 + nc - 1) :
    localD4 idx0 (idx0 + nc - 1) nc = some [idx0 - 1, idx0 + nc] := by
  simp only [BitVec.ofNat_eq_ofNat] at h0 h1
  have h1' := beq_false_of_ne h1
  simp [localD4, d4List, diagList, List.idxOf_cons, h0, h1']

theorem localD4_se (idx0 nc : BitVec w) (h0 : idx0 + nc + 1 ≠ idx0)
    (h1 : idx0 - nc - 1 ≠ idx0 + nc + 1) (h2 : idx0 + nc - 1 ≠ idx0 + nc + 1) :
    localD4 idx0 (idx0 + nc + 1) nc = some [idx0 + nc, idx0 + 1] := by
  simp only [BitVec.ofNat_eq_ofNat] at h0 h1 h2
  have h1' := beq_false_of_ne h1
  have h2' := beq_false_of_ne h2
  simp [localD4, d4List, diagList, List.idxOf_cons, h0, h1', h2']

theorem localD4_ne (idx0 nc : BitVec w) (h0 : idx0 - nc + 1 ≠ idx0)
    (h1 : idx0 - nc - 1 ≠ idx0 - nc + 1) (h2 : idx0 + nc - 1 ≠ idx0 - nc + 1)
    (h3 : idx0 + nc + 1 ≠ idx0 - nc + 1) :
    localD4 idx0 (idx0 - nc + 1) nc = some [idx0 + 1, idx0 - nc] := by
  simp only [BitVec.ofNat_eq_ofNat] at h0 h1 h2 h3
  have h1' := beq_false_of_ne h1
  have h2' := beq_false_of_ne h2
  have h3' := beq_false_of_ne h3
  simp [localD4, d4List, diagList, List.idxOf_cons, h0, h1', h2', h3']

theorem one_eq_ofInt : (1 : BitVec w) = BitVec.ofInt w 1 := by
  exact (BitVec.ofInt_ofNat w 1).symm

/-- images of two integers that differ by a non-zero amount below `2^w` are different -/
theorem ofInt_ne {a b : Int} (hne : a ≠ b) (h : (a - b).natAbs < 2 ^ w) :
    BitVec.ofInt w a ≠ BitVec.ofInt w b :=
  fun he => hne ((ofInt_inj_close a b h).1 he)

/-- `_local_d4` for a diagonal step, on the images of integers: the list holds the images of the two
D4 cells `i + dr*ncol` and `i + dc` (in the order of the code's list slices) -/
theorem localD4_ofInt (i ncol : Nat) (dr dc : Int) (hdr : dr = 1 ∨ dr = -1) (hdc : dc = 1 ∨ dc = -1)
    (h2 : 2 ≤ ncol) (hw : 2 * ncol + 2 < 2 ^ w) :
    localD4 (BitVec.ofInt w (i : Int)) (BitVec.ofInt w ((i : Int) + dr * ncol + dc)) (BitVec.ofInt w (ncol : Int))
      = some (if dr = dc then [BitVec.ofInt w ((i : Int) + dr * ncol), BitVec.ofInt w ((i : Int) + dc)]
              else [BitVec.ofInt w ((i : Int) + dc), BitVec.ofInt w ((i : Int) + dr * ncol)]) := by
  rcases hdr with rfl | rfl <;> rcases hdc with rfl | rfl
  · -- se
    have e : BitVec.ofInt w ((i : Int) + 1 * ncol + 1)
        = BitVec.ofInt w (i : Int) + BitVec.ofInt w (ncol : Int) + 1 := by
      rw [one_eq_ofInt, ← BitVec.ofInt_add, ← BitVec.ofInt_add]; congr 1; omega
    rw [e, localD4_se]
    · simp only [if_true, one_eq_ofInt, ← BitVec.ofInt_add]
      rw [show ((i : Int) + 1 * (ncol : Int)) = (i : Int) + ncol from by omega]
    · simp only [one_eq_ofInt, ← BitVec.ofInt_add]; exact ofInt_ne (by omega) (by omega)
    · simp only [one_eq_ofInt, ← BitVec.ofInt_add, ← ofInt_sub]; exact ofInt_ne (by omega) (by omega)
    · simp only [one_eq_ofInt, ← BitVec.ofInt_add, ← ofInt_sub]; exact ofInt_ne (by omega) (by omega)
  · -- sw
    have e : BitVec.ofInt w ((i : Int) + 1 * ncol + -1)
        = BitVec.ofInt w (i : Int) + BitVec.ofInt w (ncol : Int) - 1 := by
      rw [one_eq_ofInt, ← BitVec.ofInt_add, ← ofInt_sub]; congr 1; omega
    rw [e, localD4_sw]
    · have hne : ¬ ((1 : Int) = -1) := by omega
      simp only [hne, if_false, one_eq_ofInt, ← BitVec.ofInt_add, ← ofInt_sub]
      rw [show ((i : Int) + 1 * (ncol : Int)) = (i : Int) + ncol from by omega,
        show ((i : Int) + -1) = (i : Int) - 1 from by omega]
    · simp only [one_eq_ofInt, ← BitVec.ofInt_add, ← ofInt_sub]; exact ofInt_ne (by omega) (by omega)
    · simp only [one_eq_ofInt, ← BitVec.ofInt_add, ← ofInt_sub]; exact ofInt_ne (by omega) (by omega)
  · -- ne
    have e : BitVec.ofInt w ((i : Int) + -1 * ncol + 1)
        = BitVec.ofInt w (i : Int) - BitVec.ofInt w (ncol : Int) + 1 := by
      rw [one_eq_ofInt, ← ofInt_sub, ← BitVec.ofInt_add]; congr 1; omega
    rw [e, localD4_ne]
    · have hne : ¬ ((-1 : Int) = 1) := by omega
      simp only [hne, if_false, one_eq_ofInt, ← BitVec.ofInt_add, ← ofInt_sub]
      rw [show ((i : Int) + -1 * (ncol : Int)) = (i : Int) - ncol from by omega]
    · simp only [one_eq_ofInt, ← BitVec.ofInt_add, ← ofInt_sub]; exact ofInt_ne (by omega) (by omega)
    · simp only [one_eq_ofInt, ← BitVec.ofInt_add, ← ofInt_sub]; exact ofInt_ne (by omega) (by omega)
    · simp only [one_eq_ofInt, ← BitVec.ofInt_add, ← ofInt_sub]; exact ofInt_ne (by omega) (by omega)
    · simp only [one_eq_ofInt, ← BitVec.ofInt_add, ← ofInt_sub]; exact ofInt_ne (by omega) (by omega)
  · -- nw
    have e : BitVec.ofInt w ((i : Int) + -1 * ncol + -1)
        = BitVec.ofInt w (i : Int) - BitVec.ofInt w (ncol : Int) - 1 := by
      rw [one_eq_ofInt, ← ofInt_sub, ← ofInt_sub]; congr 1; omega
    rw [e, localD4_nw]
    · simp only [if_true, one_eq_ofInt, ← ofInt_sub]
      rw [show ((i : Int) + -1 * (ncol : Int)) = (i : Int) - ncol from by omega,
        show ((i : Int) + -1) = (i : Int) - 1 from by omega]
    · simp only [one_eq_ofInt, ← ofInt_sub]; exact ofInt_ne (by omega) (by omega)

end generic

/-- the geometry behind the side conditions: a cell with a diagonal neighbour inside the raster lives
on a raster with at least two rows and two columns -/
theorem diag_geom {nrow ncol r c : Nat} {dr dc : Int} (hr : r < nrow) (hcc : c < ncol)
    (hdr : dr = 1 ∨ dr = -1) (hdc : dc = 1 ∨ dc = -1)
    (hr' : 0 ≤ (r : Int) + dr ∧ (r : Int) + dr < nrow) (hc' : 0 ≤ (c : Int) + dc ∧ (c : Int) + dc < ncol) :
    2 ≤ ncol ∧ 2 * ncol ≤ nrow * ncol := by
  have h2r : 2 ≤ nrow := by omega
  have : 2 * ncol ≤ nrow * ncol := Nat.mul_le_mul_right ncol h2r
  omega

end Pf.C16m
