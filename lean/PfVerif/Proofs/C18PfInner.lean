import PfVerif.Proofs.C18PfG
import PfVerif.Proofs.C18PfFresh
/-! Pfafstetter, joint invariant (stage 4), part 4: the `for i, idx in enumerate(idxs_trib0s)` loop
(`pfInner`). Invariant = global invariant `PfG` + fresh codes `PfFreshIn` + the remaining tributaries
`PfRem` (unassigned non-main inflows whose confluence carries `pfaf_int_ds` or whose inter-basin outlet
was already returned, sorted from down- to upstream). Result: the side-condition flag `ok` is never
cleared. Core Lean only. -/
namespace Pf.C18
open Pf

/-- the tributaries still to be labelled by the running `pfInner` -/
structure PfRem (ds usMain : Array Nat) (seq : List Nat) (uparea br : Array Int) (idxs : List Nat)
    (intDs : Int) (l : List Nat) : Prop where
  r1 : ∀ t ∈ l, t ∈ seq ∧ ds[t]! ≠ t ∧ br[t]! = 0 ∧ usMain[ds[t]!]! ≠ t ∧ br[ds[t]!]! ≠ 0
  r2 : ∀ t ∈ l, br[ds[t]!]! = intDs ∨ usMain[ds[t]!]! ∈ idxs
  sorted : l.Pairwise (fun a b => uparea[ds[a]!]! ≥ uparea[ds[b]!]!)
  nodup : l.Nodup

variable {ds usMain : Array Nat} {seq : List Nat} {uparea so : Array Int}

theorem labsPos_push {labs : List (Int × Nat)} (h : LabsPos labs) {v : Int} (hv : 0 < v) (b : Prop)
    [Decidable b] (d : Nat) : LabsPos (if b then labs ++ [(v, d)] else labs) := by
  split
  · intro e he
    rcases List.mem_append.1 he with he | he
    · exact h e he
    · simp only [List.mem_singleton] at he; subst he; exact hv
  · exact h

/-- **the inner loop keeps the joint invariant and never clears the flag** -/
theorem pfInner_joint (c : PfCtx ds usMain seq uparea) (depth : Nat) (pfaf0 : Int) (d0 : Nat)
    (hp0 : 0 < pfaf0) :
    ∀ (l : List Nat) (i : Nat) (st r : PfSt × Int × Bool), i + l.length ≤ 4 →
      pfInner ds usMain so depth pfaf0 d0 l i st = some r →
      PfG ds usMain so st.1.1 st.1.2.1 →
      PfFreshIn depth st.1.1 st.1.2.2 (pfaf0 + (2 * (i : Int) + 1) * (10 : Int) ^ (depth - d0))
        (pfaf0 + 10 * (10 : Int) ^ (depth - d0)) →
      PfRem ds usMain seq uparea st.1.1 st.1.2.1 st.2.1 l → st.2.1 ≠ 0 → LabsPos st.1.2.2 →
      PfG ds usMain so r.1.1 r.1.2.1 ∧ PfFresh depth r.1.1 r.1.2.2 ∧ LabsPos r.1.2.2 ∧
        r.2.2 = st.2.2 := by
  intro l
  induction l with
  | nil =>
    intro i st r _ hr g fr _ _ hl
    simp only [pfInner, Option.some.injEq] at hr; subst hr
    exact ⟨g, fr.toPfFresh, hl, rfl⟩
  | cons t rest ih =>
    intro i st r hlen hr g fr rem hint hl
    obtain ⟨⟨br, idxs, labs⟩, intDs, ok⟩ := st
    simp only at g fr rem hint hl
    simp only [List.length_cons] at hlen
    obtain ⟨p, hpe⟩ : ∃ p, p = (10 : Int) ^ (depth - d0) := ⟨_, rfl⟩
    have hpp : 0 < p := by rw [hpe]; exact pow10_pos _
    rw [← hpe] at fr
    have hbound := pf_lo_bound i (by omega) p hpp
    -- the current tributary
    obtain ⟨hts, htd, ht0, htm, htc⟩ := rem.r1 t (by simp)
    have htlt := c.hb t hts
    have hdm : ds[t]! ∈ seq := c.topo.ds_mem t hts
    have hrest : ∀ t' ∈ rest, t' ∈ t :: rest := fun t' h => List.mem_cons_of_mem _ h
    have hnd := List.nodup_cons.1 rem.nodup
    have hso := List.pairwise_cons.1 rem.sorted
    have hsub0 : pfaf0 + (2 * (i : Int) + 1) * p ≠ 0 := by
      have : 0 < (2 * (i : Int) + 1) * p := Int.mul_pos (by omega) hpp
      omega
    have hsubpos : 0 < pfaf0 + (2 * (i : Int) + 1) * p := by
      have : 0 < (2 * (i : Int) + 1) * p := Int.mul_pos (by omega) hpp
      omega
    have hfr1 : ∀ s : Nat, br[s]! ≠ pfaf0 + (2 * (i : Int) + 1) * p := by
      intro s; rcases fr.i2 s with h | h <;> omega
    simp only [pfInner] at hr
    rw [← hpe] at hr
    split at hr
    · cases hr
    · rename_i br1 h1
      obtain ⟨g1, hw1, _⟩ := g.step_sub c.hus htlt ht0 (Or.inr htc) hsub0 hfr1 h1
      have hw1' : ∀ s : Nat, br1[s]! = br[s]! ∨ br1[s]! = pfaf0 + (2 * (i : Int) + 1) * p := by
        intro s; rcases hw1 s with h | h
        · exact Or.inl h
        · exact Or.inr h.1
      have hkeep : ∀ s : Nat, br[s]! ≠ 0 → br1[s]! = br[s]! := by
        intro s hs; rcases hw1 s with h | h
        · exact h
        · exact absurd h.2.1 hs
      have fr1 := fr.write hpp (by omega) hw1' (d0 < depth) (d0 + 1) (fun h => by rw [hpe]; exact Bsz_push h)
      have hl1 := labsPos_push hl hsubpos (d0 < depth) (d0 + 1)
      have rem1 : PfRem ds usMain seq uparea br1 (idxs ++ [t]) intDs rest := by
        refine ⟨fun t' ht' => ?_, fun t' ht' => ?_, hso.2, hnd.2⟩
        · obtain ⟨a1, a2, a3, a4, a5⟩ := rem.r1 t' (hrest t' ht')
          refine ⟨a1, a2, ?_, a4, by rw [hkeep _ a5]; exact a5⟩
          rcases hw1 t' with h | h
          · rw [h]; exact a3
          · rcases h.2.2 with h | h
            · exact absurd (h ▸ ht') hnd.1
            · exact absurd h.2 a5
        · rcases rem.r2 t' (hrest t' ht') with h | h
          · left; rw [hkeep _ (by rw [h]; exact hint)]; exact h
          · right; exact List.mem_append_left _ h
      split at hr
      · -- the inter-basin outlet above this confluence was returned already
        have fr1' := fr1.mono (lo' := pfaf0 + (2 * ((i + 1 : Nat) : Int) + 1) * p)
          (by rw [pf_lo_next]; omega)
        subst hpe
        have := ih (i + 1) _ r (by omega) hr g1 fr1' rem1 hint hl1
        exact this
      · rename_i hcont
        have hni : usMain[ds[t]!]! ∉ idxs ++ [t] := by
          intro hm; apply hcont; simpa using hm
        have hconf : br[ds[t]!]! = intDs := by
          rcases rem.r2 t (by simp) with h | h
          · exact h
          · exact absurd (List.mem_append_left _ h) hni
        have hconf1 : br1[ds[t]!]! = intDs := by rw [hkeep _ htc]; exact hconf
        have hu : usMain[ds[t]!]! < ds.size := c.htot t hts htd
        have hpint : pfaf0 + ((i : Int) + 1) * 2 * p = pfaf0 + (2 * (i : Int) + 1) * p + p :=
          pf_pint_eq i p pfaf0
        rw [hpint] at hr
        have hfr2 : ∀ s : Nat, br1[s]! ≠ pfaf0 + (2 * (i : Int) + 1) * p + p := by
          intro s; rcases fr1.i2 s with h | h <;> omega
        split at hr
        · cases hr
        · rename_i br2 h2
          obtain ⟨g2, hpre, hw2, hreach, _, _⟩ :=
            g1.step_int c hdm hu hni hint hconf1 (by omega) hfr2 h2
          have hw2' : ∀ s : Nat, br2[s]! = br1[s]! ∨ br2[s]! = pfaf0 + (2 * (i : Int) + 1) * p + p := by
            intro s; rcases hw2 s with h | h
            · exact Or.inl h
            · exact Or.inr h.1
          have hne2 : ∀ s : Nat, br1[s]! ≠ 0 → br2[s]! ≠ 0 := by
            intro s hs; rcases hw2 s with h | h
            · rw [h]; exact hs
            · rw [h.1]; omega
          have fr2 := fr1.write hpp (by omega) hw2' (d0 < depth) (d0 + 1)
            (fun h => by rw [hpe]; exact Bsz_push h)
          have fr2' := fr2.mono (lo' := pfaf0 + (2 * ((i + 1 : Nat) : Int) + 1) * p)
            (by rw [pf_lo_next]; omega)
          have hl2 := labsPos_push hl1 (v := pfaf0 + (2 * (i : Int) + 1) * p + p) (by omega)
            (d0 < depth) (d0 + 1)
          have hxs := c.ustep (c.hb _ hdm) hu
          have rem2 : PfRem ds usMain seq uparea br2 (idxs ++ [t] ++ [usMain[ds[t]!]!])
              (pfaf0 + (2 * (i : Int) + 1) * p + p) rest := by
            refine ⟨fun t' ht' => ?_, fun t' ht' => ?_, hso.2, hnd.2⟩
            · obtain ⟨a1, a2, a3, a4, a5⟩ := rem1.r1 t' ht'
              refine ⟨a1, a2, ?_, a4, hne2 _ a5⟩
              rcases hw2 t' with h | h
              · rw [h]; exact a3
              · exfalso
                rcases h.2.1 with h | h
                · apply a4; rw [h, hxs.2.1]
                · rw [a3] at h; exact hint h.symm
            · rcases rem1.r2 t' ht' with h | h
              · have hle := hso.1 t' ht'
                rcases hreach _ (c.topo.ds_mem t' (rem1.r1 t' ht').1) h (by omega) with h' | h'
                · right; rw [h']; simp
                · left; exact h'
              · right; exact List.mem_append_left _ h
          have hflag : (ok && decide (usMain[ds[t]!]! < ds.size) &&
              (br1[usMain[ds[t]!]!]! == 0 || br1[usMain[ds[t]!]!]! == intDs)) = ok := by
            have h1 : decide (usMain[ds[t]!]! < ds.size) = true := by simpa using hu
            have h2 : (br1[usMain[ds[t]!]!]! == 0 || br1[usMain[ds[t]!]!]! == intDs) = true := by
              rcases hpre with h | h <;> simp [h]
            rw [h1, h2]; simp
          rw [hflag] at hr
          have hint2 : pfaf0 + (2 * (i : Int) + 1) * p + p ≠ 0 := by omega
          subst hpe
          have := ih (i + 1) _ r (by omega) hr g2 fr2' rem2 hint2 hl2
          exact this

end Pf.C18
