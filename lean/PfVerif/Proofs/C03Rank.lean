import PfVerif.Proofs.C03Topo
/-! Rank certificate on arrays: `checkRankCert` ↔ `RankCertA`, soundness (unbounded on both sides),
loop cells, validity, repair. -/
namespace Pf

theorem checkRankCert_iff (ds : Array Nat) (rk : Array Int) :
    checkRankCert ds rk = true ↔ RankCertA ds rk := by
  simp only [checkRankCert, Bool.and_eq_true, beq_iff_eq, List.all_eq_true, List.mem_range]
  constructor
  · rintro ⟨hsz, h⟩
    refine ⟨hsz, ?_, ?_, ?_, ?_⟩
    · intro i hi hd
      have := h i hi
      simpa [rankCertAt, hd] using this
    · intro i hi hd
      have := h i hi
      simp only [rankCertAt, hd, if_false, Bool.and_eq_true, decide_eq_true_eq] at this
      exact this.1
    · intro i hi hd
      have := h i hi
      have hne : ds[i]! ≠ ds.size := by omega
      unfold rankCertAt at this
      rw [if_neg hne, if_pos hd] at this
      simp only [Bool.and_eq_true, decide_eq_true_eq, beq_iff_eq] at this
      exact this.2
    · intro i hi hd hp
      have := h i hi
      simp only [rankCertAt, hd, if_false, hp, Bool.and_eq_true, decide_eq_true_eq,
        beq_iff_eq, Bool.or_eq_true] at this
      exact this.2
  · rintro ⟨hsz, hnd, hlt, hpit, hstep⟩
    refine ⟨hsz, fun i hi => ?_⟩
    by_cases hd : ds[i]! = ds.size
    · simpa [rankCertAt, hd] using hnd i hi hd
    · by_cases hp : ds[i]! = i
      · unfold rankCertAt
        rw [if_neg hd, if_pos hp]
        simp only [Bool.and_eq_true, decide_eq_true_eq, beq_iff_eq]
        exact ⟨by have := hlt i hi hd; omega, hpit i hi hp⟩
      · simp only [rankCertAt, hd, if_false, hp, Bool.and_eq_true, decide_eq_true_eq,
          beq_iff_eq, Bool.or_eq_true]
        exact ⟨hlt i hi hd, hstep i hi hd hp⟩

namespace RankCertA
variable {ds : Array Nat} {rk : Array Int}

/-- a valid cell never points to a missing cell -/
theorem valid_ds (h : RankCertA ds rk) {i : Nat} (hv : Valid ds i) : Valid ds ds[i]! := by
  refine ⟨hv.2, ?_⟩
  have hne : ds[i]! ≠ ds.size := by have := hv.2; omega
  by_cases hp : ds[i]! = i
  · rw [hp]; exact hv.2
  · have hd : ds[ds[i]!]! ≠ ds.size := by
      intro hnd
      have h9 := h.nodata _ hv.2 hnd
      rcases h.step i hv.1 hne hp with ⟨_, h2⟩ | ⟨h2, _⟩ <;> omega
    exact h.lt _ hv.2 hd

theorem wf (h : RankCertA ds rk) : WF ds := by
  intro i hi
  by_cases hd : ds[i]! = ds.size
  · exact ⟨by omega, fun hlt => by omega⟩
  · have hlt := h.lt i hi hd
    exact ⟨by omega, fun _ => (h.valid_ds ⟨hi, hlt⟩).2⟩

theorem valid_iter (h : RankCertA ds rk) : ∀ (k : Nat) {i : Nat}, Valid ds i → Valid ds (iterA ds k i) := by
  intro k
  induction k with
  | zero => intro i hv; exact hv
  | succ k ih => intro i hv; exact ih (h.valid_ds hv)

/-- on the network the rank is `-1` or a natural number -/
theorem range (h : RankCertA ds rk) {i : Nat} (hv : Valid ds i) : rk[i]! = -1 ∨ 0 ≤ rk[i]! := by
  have hne : ds[i]! ≠ ds.size := by have := hv.2; omega
  by_cases hp : ds[i]! = i
  · exact Or.inr (by rw [h.pit i hv.1 hp]; exact Int.le_refl 0)
  · rcases h.step i hv.1 hne hp with ⟨h1, _⟩ | ⟨h1, h2⟩
    · exact Or.inl h1
    · exact Or.inr (by omega)

/-- rank `k ≥ 0`: the `k`-th downstream cell is the first pit -/
theorem reaches (h : RankCertA ds rk) :
    ∀ (k i : Nat), Valid ds i → rk[i]! = (k : Int) → StepsToPit ds i k := by
  intro k
  induction k with
  | zero =>
    intro i hv hi
    refine ⟨?_, fun m hm => absurd hm (Nat.not_lt_zero m)⟩
    have hne : ds[i]! ≠ ds.size := by have := hv.2; omega
    by_cases hp : ds[i]! = i
    · simpa [iterA] using hp
    · rcases h.step i hv.1 hne hp with ⟨h1, _⟩ | ⟨h1, h2⟩ <;> omega
  | succ k ih =>
    intro i hv hi
    have hne : ds[i]! ≠ ds.size := by have := hv.2; omega
    by_cases hp : ds[i]! = i
    · have := h.pit i hv.1 hp; omega
    · rcases h.step i hv.1 hne hp with ⟨h1, _⟩ | ⟨h1, h2⟩
      · omega
      · have hk : rk[ds[i]!]! = (k : Int) := by omega
        obtain ⟨a, b⟩ := ih ds[i]! (h.valid_ds hv) hk
        refine ⟨by simpa [iterA] using a, ?_⟩
        intro m hm
        cases m with
        | zero => simpa [iterA] using hp
        | succ m => simpa [iterA] using b m (by omega)

/-- rank `-1`: no downstream cell is ever a pit -/
theorem never (h : RankCertA ds rk) :
    ∀ (k i : Nat), Valid ds i → rk[i]! = -1 → ds[iterA ds k i]! ≠ iterA ds k i := by
  intro k
  induction k with
  | zero =>
    intro i hv hi hp
    have := h.pit i hv.1 (by simpa [iterA] using hp); omega
  | succ k ih =>
    intro i hv hi
    have hne : ds[i]! ≠ ds.size := by have := hv.2; omega
    have hp : ds[i]! ≠ i := fun hp => by have := h.pit i hv.1 hp; omega
    rcases h.step i hv.1 hne hp with ⟨_, h2⟩ | ⟨h1, h2⟩
    · simpa [iterA] using ih ds[i]! (h.valid_ds hv) h2
    · omega

end RankCertA

/-- the least number of steps to a pit is unique -/
theorem StepsToPit.unique {ds : Array Nat} {i k k' : Nat} (h : StepsToPit ds i k) (h' : StepsToPit ds i k') :
    k = k' := by
  rcases Nat.lt_trichotomy k k' with hlt | heq | hgt
  · exact absurd h.1 (h'.2 k hlt)
  · exact heq
  · exact absurd h'.1 (h.2 k' hgt)

/-- a pit is reached iff there is a least number of steps (well-ordering of ℕ, constructive) -/
theorem reaches_least {ds : Array Nat} {i : Nat} (h : ReachesPit ds i) : ∃ k, StepsToPit ds i k := by
  obtain ⟨k, hk⟩ := h
  induction k using Nat.strongRecOn with
  | _ k ih =>
    by_cases hex : ∃ m, m < k ∧ ds[iterA ds m i]! = iterA ds m i
    · obtain ⟨m, hm, hp⟩ := hex
      exact ih m hm hp
    · exact ⟨k, hk, fun m hm hp => hex ⟨m, hm, hp⟩⟩

namespace RankCertA
variable {ds : Array Nat} {rk : Array Int}

theorem rank_eq_iff (h : RankCertA ds rk) {i : Nat} (hv : Valid ds i) (k : Nat) :
    rk[i]! = (k : Int) ↔ StepsToPit ds i k := by
  constructor
  · exact h.reaches k i hv
  · intro hs
    rcases h.range hv with h1 | h1
    · exact absurd hs.1 (h.never k i hv h1)
    · obtain ⟨k', hk'⟩ : ∃ k' : Nat, rk[i]! = (k' : Int) := ⟨rk[i]!.toNat, by omega⟩
      have := (h.reaches k' i hv hk').unique hs
      rw [hk', this]

theorem rank_neg_iff (h : RankCertA ds rk) {i : Nat} (hv : Valid ds i) :
    rk[i]! = -1 ↔ ¬ ReachesPit ds i := by
  constructor
  · rintro h1 ⟨k, hk⟩
    exact h.never k i hv h1 hk
  · intro hn
    rcases h.range hv with h1 | h1
    · exact h1
    · obtain ⟨k', hk'⟩ : ∃ k' : Nat, rk[i]! = (k' : Int) := ⟨rk[i]!.toNat, by omega⟩
      exact absurd ⟨k', (h.reaches k' i hv hk').1⟩ hn

theorem rank_nonneg_iff (h : RankCertA ds rk) {i : Nat} (hv : Valid ds i) :
    0 ≤ rk[i]! ↔ ReachesPit ds i := by
  constructor
  · intro h0
    obtain ⟨k', hk'⟩ : ∃ k' : Nat, rk[i]! = (k' : Int) := ⟨rk[i]!.toNat, by omega⟩
    exact ⟨k', (h.reaches k' i hv hk').1⟩
  · intro hr
    rcases h.range hv with h1 | h1
    · exact absurd hr ((h.rank_neg_iff hv).1 h1)
    · exact h1

end RankCertA
end Pf
