import PfVerif.Model.C08
/-! `core.upstream_count(mask)` counts the masked inflowing cells (C08). Core Lean only. -/
namespace Pf

/-- number of masked cells `< k` draining into `d` -/
def cntK (ds : Array Nat) (mask : Option (Array Bool)) (k d : Nat) : Nat :=
  (((List.range k).filter fun i => ds[i]! == d && i != d && ds[i]! != ds.size).filter (maskAt mask)).length

theorem nupSpec_eq (ds : Array Nat) (mask : Option (Array Bool)) (d : Nat) :
    nupSpec ds mask d = cntK ds mask ds.size d := rfl

theorem cntK_succ (ds : Array Nat) (mask : Option (Array Bool)) (k d : Nat) :
    cntK ds mask (k + 1) d = cntK ds mask k d +
      (if ds[k]! = d ∧ k ≠ d ∧ ds[k]! ≠ ds.size ∧ maskAt mask k = true then 1 else 0) := by
  simp only [cntK, List.range_succ, List.filter_append, List.length_append, List.filter_cons,
    List.filter_nil]
  by_cases hc : ds[k]! = d ∧ k ≠ d ∧ ds[k]! ≠ ds.size ∧ maskAt mask k = true
  · have h1 : (ds[k]! == d && k != d && ds[k]! != ds.size) = true := by
      simp [hc.1, hc.2.1, hc.1 ▸ hc.2.2.1]
    rw [if_pos hc, if_pos h1]
    simp [hc.2.2.2]
  · rw [if_neg hc]
    by_cases h1 : (ds[k]! == d && k != d && ds[k]! != ds.size) = true
    · rw [if_pos h1]
      have : maskAt mask k ≠ true := by
        intro hm
        apply hc
        simp only [Bool.and_eq_true, beq_iff_eq, bne_iff_ne, ne_eq] at h1
        exact ⟨h1.1.1, h1.1.2, h1.2, hm⟩
      simp [this]
    · rw [if_neg h1]; simp

def nupStep (ds : Array Nat) (mask : Option (Array Bool)) (nup : Array Int) (idx0 : Nat) : Array Int :=
  let d := ds[idx0]!
  if d ≠ ds.size then
    let nup := nup.setIfInBounds idx0 (max nup[idx0]! 0)
    if idx0 ≠ d ∧ maskAt mask idx0 then nup.setIfInBounds d (max nup[d]! 0 + 1) else nup
  else nup

theorem upstreamCount_eq (ds : Array Nat) (mask : Option (Array Bool)) :
    upstreamCount ds mask = (List.range ds.size).foldl (nupStep ds mask) (Array.replicate ds.size (-9)) := rfl

def NupInv (ds : Array Nat) (mask : Option (Array Bool)) (k : Nat) (nup : Array Int) : Prop :=
  nup.size = ds.size ∧ ∀ d, d < ds.size →
    nup[d]! = if (d < k ∧ ds[d]! ≠ ds.size) ∨ 0 < cntK ds mask k d then (cntK ds mask k d : Int) else -9

theorem nupStep_get (ds : Array Nat) (mask : Option (Array Bool)) (nup : Array Int) (k : Nat)
    (hk : k < nup.size) (hd0 : ds[k]! ≠ ds.size → ds[k]! < nup.size) (d : Nat) :
    (nupStep ds mask nup k)[d]! =
      if ds[k]! = ds.size then nup[d]!
      else if d = ds[k]! ∧ k ≠ ds[k]! ∧ maskAt mask k = true then max nup[d]! 0 + 1
      else if d = k then max nup[k]! 0 else nup[d]! := by
  unfold nupStep
  grind [get!_setIfInBounds]

theorem size_nupStep (ds : Array Nat) (mask : Option (Array Bool)) (nup : Array Int) (k : Nat) :
    (nupStep ds mask nup k).size = nup.size := by
  unfold nupStep; grind

theorem nupInv_step (ds : Array Nat) (mask : Option (Array Bool)) (k : Nat) (hk : k < ds.size)
    (hwf : ds[k]! ≤ ds.size) (nup : Array Int) (h : NupInv ds mask k nup) :
    NupInv ds mask (k + 1) (nupStep ds mask nup k) := by
  obtain ⟨hs, hinv⟩ := h
  refine ⟨by rw [size_nupStep, hs], fun d hd => ?_⟩
  rw [nupStep_get ds mask nup k (by omega) (fun h => by omega) d, cntK_succ, hinv d hd]
  have hkk := hinv k hk
  by_cases hmv : ds[k]! = ds.size
  · have hcond : ¬ (ds[k]! = d ∧ k ≠ d ∧ ds[k]! ≠ ds.size ∧ maskAt mask k = true) := fun h => h.2.2.1 hmv
    rw [if_pos hmv, if_neg hcond]
    by_cases hdk : d = k
    · subst hdk; simp [hmv]
    · have : (d < k + 1) ↔ d < k := by omega
      simp only [this, Nat.add_zero]
  · rw [if_neg hmv]
    by_cases hc : d = ds[k]! ∧ k ≠ ds[k]! ∧ maskAt mask k = true
    · have hcond : ds[k]! = d ∧ k ≠ d ∧ ds[k]! ≠ ds.size ∧ maskAt mask k = true :=
        ⟨hc.1.symm, by rw [hc.1]; exact hc.2.1, hmv, hc.2.2⟩
      rw [if_pos hc, if_pos hcond]
      have hpos : (d < k + 1 ∧ ds[d]! ≠ ds.size) ∨ 0 < cntK ds mask k d + 1 := Or.inr (by omega)
      rw [if_pos hpos]
      split <;> omega
    · have hcond : ¬ (ds[k]! = d ∧ k ≠ d ∧ ds[k]! ≠ ds.size ∧ maskAt mask k = true) := by
        intro h; exact hc ⟨h.1.symm, by rw [h.1]; exact h.2.1, h.2.2.2⟩
      rw [if_neg hc, if_neg hcond]
      by_cases hdk : d = k
      · subst hdk
        rw [if_pos rfl]
        have hpos : (d < d + 1 ∧ ds[d]! ≠ ds.size) ∨ 0 < cntK ds mask d d + 0 := Or.inl ⟨by omega, hmv⟩
        rw [if_pos hpos, hkk]
        split <;> omega
      · rw [if_neg hdk]
        have : (d < k + 1) ↔ d < k := by omega
        simp only [this, Nat.add_zero]

theorem nupInv_final (ds : Array Nat) (mask : Option (Array Bool))
    (hwf : ∀ i < ds.size, ds[i]! ≤ ds.size) :
    ∀ k, k ≤ ds.size → NupInv ds mask k
      ((List.range k).foldl (nupStep ds mask) (Array.replicate ds.size (-9))) := by
  intro k
  induction k with
  | zero =>
    intro _
    refine ⟨by simp, fun d hd => ?_⟩
    simp [hd, cntK]
  | succ k ih =>
    intro hk
    rw [List.range_succ, List.foldl_append]
    exact nupInv_step ds mask k (by omega) (hwf k (by omega)) _ (ih (by omega))

end Pf
