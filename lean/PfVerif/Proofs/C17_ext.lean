import PfVerif.Model.C17_ext
import PfVerif.Proofs.C17
/-! Helper lemmas for `Props/C17_ext.lean` (core Lean only). -/
namespace Pf.C17x
open Pf.C17

/-! ### `np.diff` / `np.mean` -/

theorem diffL_length : ∀ (v : List Rat), (diffL v).length = v.length - 1
  | [] => rfl
  | [_] => rfl
  | a :: b :: r => by
    simp only [diffL, List.length_cons]
    have := diffL_length (b :: r)
    simp only [List.length_cons] at this
    omega

theorem diffL_eq_nil_iff (v : List Rat) : diffL v = [] ↔ v.length ≤ 1 := by
  rw [← List.length_eq_zero_iff, diffL_length]; omega

/-- the differences telescope: their sum is `last - first` -/
theorem diffL_sum : ∀ (a : Rat) (l : List Rat), (diffL (a :: l)).sum = (a :: l).getLast (by simp) - a
  | a, [] => by simp only [diffL, List.sum_nil, List.getLast_singleton]; grind
  | a, b :: r => by
    have ih := diffL_sum b r
    simp only [diffL, List.sum_cons, ih]
    rw [List.getLast_cons (List.cons_ne_nil b r)]
    grind

/-- differences of a vector given by a function of the position -/
theorem diffL_map_range' (f : Nat → Rat) : ∀ (n s : Nat),
    diffL ((List.range' s (n + 1)).map f) = (List.range' s n).map fun i => f (i + 1) - f i
  | 0, s => by simp [List.range', diffL]
  | n + 1, s => by
    have ih := diffL_map_range' f n (s + 1)
    rw [List.range'_succ, List.range'_succ] at *
    simp only [List.map_cons, diffL] at *
    rw [ih, List.range'_succ (s := s)]
    simp

theorem sum_map_const (k : Rat) : ∀ (l : List Nat), (l.map fun _ => k).sum = (l.length : Rat) * k
  | [] => by simp
  | _ :: r => by
    simp only [List.map_cons, List.sum_cons, List.length_cons, sum_map_const k r]
    push_cast; grind

theorem sum_replicate (k : Rat) : ∀ (n : Nat), (List.replicate n k).sum = (n : Rat) * k
  | 0 => by simp
  | n + 1 => by
    simp only [List.replicate_succ, List.sum_cons, sum_replicate k n]
    push_cast; grind

/-- a vector with constant step `res` and at least two entries has resolution `|res|` -/
theorem resOf_const_step (f : Nat → Rat) (res : Rat) (hf : ∀ i, f (i + 1) - f i = res) (n : Nat) :
    resOf ((List.range (n + 2)).map f) = some (absQ res) := by
  have hd : diffL ((List.range (n + 2)).map f) = (List.range' 0 (n + 1)).map fun _ => res := by
    rw [List.range_eq_range', diffL_map_range' f (n + 1) 0]
    apply List.map_congr_left
    intro i _; exact hf i
  have hn : ((n : Rat) + 1) ≠ 0 := by
    have : (0 : Rat) ≤ (n : Rat) := by exact_mod_cast Nat.zero_le n
    grind
  simp only [resOf, meanL, hd, sum_map_const, List.length_map, List.length_range', List.isEmpty_iff,
    List.map_eq_nil_iff]
  have hne : List.range' 0 (n + 1) ≠ [] := by simp
  simp only [hne, if_false, Option.map_some, Option.some.injEq]
  congr 1
  push_cast
  grind

/-! ### `abs` -/

theorem absQ_absQ (x : Rat) : absQ (absQ x) = absQ x := by
  have h := absQ_nonneg x
  generalize absQ x = y at h
  unfold absQ; split <;> grind

theorem div_one' (x : Rat) : x / 1 = x := by grind

theorem absQ_neg (x : Rat) : absQ (-x) = absQ x := by
  unfold absQ; split <;> (try split) <;> grind

theorem absQ_natCast (n : Nat) : absQ (n : Rat) = (n : Rat) := by
  have : (0 : Rat) ≤ (n : Rat) := by exact_mod_cast Nat.zero_le n
  unfold absQ; split <;> grind

/-! ### geographic rows (as `area_geo_rows` / `sphere_sum` of `Props/C17.lean`, which this module does not import) -/

theorem area_geo_rows' (R2 pi180 fac : Rat) (sinD : Rat → Rat) (t : Aff) (hd : t.d = 0) (nrow ncol : Nat) :
    areaGrid (cellareaM R2 pi180 sinD) t nrow ncol true false (some fac) =
      .ok ((List.range nrow).map fun r => specRowArea R2 pi180 sinD t r / fac) := by
  simp only [areaGrid, affineToCoords, List.map_map, Bool.false_eq_true, if_false, if_true]
  congr 1
  apply List.map_congr_left
  intro r _
  simp only [Function.comp, cellareaM, specRowArea, Aff.app, hd, absQ]
  by_cases he : t.e < 0
  · have h1 : ¬ (t.f + (r:Rat) * t.e < t.f + ((r:Rat) + 1) * t.e) := by grind
    simp only [he, h1, if_true, if_false]
    have e1 : (0 + 1/2) * 0 + ((r:Rat) + 1/2) * t.e + t.f + -t.e / 2 = t.f + (r:Rat) * t.e := by grind
    have e2 : (0 + 1/2) * 0 + ((r:Rat) + 1/2) * t.e + t.f - -t.e / 2 = t.f + ((r:Rat) + 1) * t.e := by grind
    rw [e1, e2]
  · by_cases he0 : t.e = 0
    · simp only [he0]; grind
    · have h1 : (t.f + (r:Rat) * t.e < t.f + ((r:Rat) + 1) * t.e) := by grind
      simp only [he, h1, if_true, if_false]
      have e1 : (0 + 1/2) * 0 + ((r:Rat) + 1/2) * t.e + t.f + t.e / 2 = t.f + ((r:Rat) + 1) * t.e := by grind
      have e2 : (0 + 1/2) * 0 + ((r:Rat) + 1/2) * t.e + t.f - t.e / 2 = t.f + (r:Rat) * t.e := by grind
      rw [e1, e2]

theorem area_geo_rows_one (R2 pi180 : Rat) (sinD : Rat → Rat) (t : Aff) (hd : t.d = 0) (nrow ncol : Nat) :
    areaGrid (cellareaM R2 pi180 sinD) t nrow ncol true false (some 1) =
      .ok ((List.range nrow).map fun r => specRowArea R2 pi180 sinD t r) := by
  rw [area_geo_rows' R2 pi180 1 sinD t hd nrow ncol]
  simp only [div_one']

theorem sphere_sum' (R2 pi180 fac : Rat) (sinD : Rat → Rat) (t : Aff) (hd : t.d = 0) (nrow ncol : Nat)
    (rows : List Rat)
    (h : areaGrid (cellareaM R2 pi180 sinD) t nrow ncol true false (some fac) = .ok rows) :
    areaTotal ncol rows =
      (ncol : Rat) * (R2 * (pi180 * absQ t.a)) *
        (sinD (if t.e < 0 then t.f else t.f + (nrow : Rat) * t.e) -
         sinD (if t.e < 0 then t.f + (nrow : Rat) * t.e else t.f)) / fac := by
  rw [area_geo_rows' R2 pi180 fac sinD t hd nrow ncol] at h
  injection h with h
  rw [← h]
  exact sphere_rows_sum R2 pi180 fac sinD t nrow ncol

end Pf.C17x
