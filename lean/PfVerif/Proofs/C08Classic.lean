import PfVerif.Model.C08
/-! Lemmas for the classic stream order and `main_upstream` (C08). Core Lean only. -/
namespace Pf

/-! ### classic order: recurrence, path relation, walk -/

theorem replicate_zero_get!' (n j : Nat) : (Array.replicate n (0 : Nat))[j]! = 0 := by
  by_cases h : j < n <;> simp [h]

/-- [the step from `i` joins a confluence from a branch that is not the main one] -/
def nonMain (nup : Array Int) (usMain : Array Nat) (d i : Nat) : Nat :=
  if nup[d]! > 1 ∧ usMain[d]! ≠ i then 1 else 0

theorem classicOrderWith_rec (ds : Array Nat) (seq : List Nat) (usMain : Array Nat) (nup : Array Int)
    (mask : Option (Array Bool)) (htopo : Topo ds seq) (hb : ∀ i ∈ seq, i < ds.size) :
    (∀ i ∈ seq, (classicOrderWith ds seq usMain nup mask)[i]! =
      if maskAt mask i = false then 0
      else if ds[i]! = i then 1
      else (classicOrderWith ds seq usMain nup mask)[ds[i]!]! + nonMain nup usMain ds[i]! i) ∧
    (∀ i, i ∉ seq → (classicOrderWith ds seq usMain nup mask)[i]! = 0) := by
  obtain ⟨h1, h2⟩ := sweepDown_rec ds (gClassic ds nup usMain mask) (Array.replicate ds.size 0) seq htopo
    (fun i hi => by simpa using hb i hi)
  constructor
  · intro i hi
    have := h1 i hi
    unfold classicOrderWith
    rw [this]
    simp only [gClassic, nonMain, replicate_zero_get!']
    by_cases hm : maskAt mask i = true
    · by_cases hp : ds[i]! = i
      · simp [hm, hp]
      · by_cases hc : nup[ds[i]!]! > 1 ∧ usMain[ds[i]!]! ≠ i
        · simp [hm, hp, hc]
        · simp only [hm, hp, hc, if_false, Bool.not_true, Bool.false_eq_true]; simp
    · simp [hm]
  · intro i hi
    unfold classicOrderWith
    rw [h2 i hi, replicate_zero_get!']

/-- as long as no order exceeds 255 the `uint8` loop of the code computes the same array as the
unbounded model -/
theorem classicOrderU8_eq (ds : Array Nat) (seq : List Nat) (usMain : Array Nat)
    (mask : Option (Array Bool)) (htopo : Topo ds seq) (hb : ∀ i ∈ seq, i < ds.size)
    (hle : ∀ i ∈ seq, (classicOrder ds seq usMain mask)[i]! ≤ 255) :
    ∀ i : Nat, (classicOrderU8 ds seq usMain mask)[i]! = (classicOrder ds seq usMain mask)[i]! := by
  obtain ⟨h1, h2⟩ := classicOrderWith_rec ds seq usMain (upstreamCount ds mask) mask htopo hb
  have hspec := sweepDown_spec ds (gClassicU8 ds (upstreamCount ds mask) usMain mask)
    (Array.replicate ds.size 0) (fun i => (classicOrder ds seq usMain mask)[i]!) seq htopo
    (fun i hi => by simpa using hb i hi) (fun i hi => by
      have hr := h1 i hi
      have hl := hle i hi
      unfold classicOrder at hl ⊢
      simp only [replicate_zero_get!', gClassicU8]
      rw [hr] at hl ⊢
      by_cases hm : maskAt mask i = true
      · by_cases hp : ds[i]! = i
        · simp [hm, hp]
        · simp only [hm, hp, if_false, Bool.true_eq_false, Bool.not_true, Bool.false_eq_true, nonMain] at hl ⊢
          by_cases hc : (upstreamCount ds mask)[ds[i]!]! > 1 ∧ usMain[ds[i]!]! ≠ i
          · rw [if_pos hc] at hl ⊢; rw [if_pos hc]; omega
          · rw [if_neg hc, if_neg hc]; omega
      · simp [hm])
  intro i
  by_cases hi : i ∈ seq
  · exact hspec.1 i hi
  · unfold classicOrderU8
    rw [hspec.2 i hi, replicate_zero_get!']
    exact (h2 i hi).symm

/-- `ClassicOrd … i v`: `v` is 1 + the number of non-main confluence steps on the way from `i` to its
pit (0 as soon as the path leaves the mask). -/
inductive ClassicOrd (ds : Array Nat) (mask : Option (Array Bool)) (nm : Nat → Nat → Nat) : Nat → Nat → Prop
  | off (i : Nat) : maskAt mask i = false → ClassicOrd ds mask nm i 0
  | pit (i : Nat) : maskAt mask i = true → ds[i]! = i → ClassicOrd ds mask nm i 1
  | down (i w : Nat) : maskAt mask i = true → ds[i]! ≠ i → ClassicOrd ds mask nm ds[i]! w →
      ClassicOrd ds mask nm i (w + nm ds[i]! i)

theorem ClassicOrd.unique {ds : Array Nat} {mask : Option (Array Bool)} {nm : Nat → Nat → Nat}
    {i v w : Nat} (h1 : ClassicOrd ds mask nm i v) (h2 : ClassicOrd ds mask nm i w) : v = w := by
  induction h1 generalizing w with
  | off i hm =>
    cases h2 with
    | off _ _ => rfl
    | pit _ hm' _ => simp [hm] at hm'
    | down _ _ hm' _ _ => simp [hm] at hm'
  | pit i hm hp =>
    cases h2 with
    | off _ hm' => simp [hm] at hm'
    | pit _ _ _ => rfl
    | down _ _ _ hp' _ => exact absurd hp hp'
  | down i v hm hp _ ih =>
    cases h2 with
    | off _ hm' => simp [hm] at hm'
    | pit _ _ hp' => exact absurd hp' hp
    | down _ w' _ _ h' => rw [ih h']

theorem classicOrderWith_path (ds : Array Nat) (seq : List Nat) (usMain : Array Nat) (nup : Array Int)
    (mask : Option (Array Bool)) (htopo : Topo ds seq) (hb : ∀ i ∈ seq, i < ds.size) :
    ∀ i ∈ seq, ClassicOrd ds mask (nonMain nup usMain) i (classicOrderWith ds seq usMain nup mask)[i]! := by
  obtain ⟨hrec, _⟩ := classicOrderWith_rec ds seq usMain nup mask htopo hb
  refine htopo.induction _ (fun i hi hd => ?_)
  rw [hrec i hi]
  by_cases hm : maskAt mask i = true
  · by_cases hp : ds[i]! = i
    · simp only [hm, hp, if_true, Bool.true_eq_false, if_false]
      exact ClassicOrd.pit i hm hp
    · simp only [hm, hp, if_false, Bool.true_eq_false]
      exact ClassicOrd.down i _ hm hp (hd hp).2
  · have hm' : maskAt mask i = false := by simpa using hm
    simp only [hm', if_true]
    exact ClassicOrd.off i hm'

theorem classicWalk_sound (ds : Array Nat) (mask : Option (Array Bool)) (nup main : Nat → Nat) :
    ∀ fuel i v, classicWalk ds mask nup main fuel i = some v →
      ClassicOrd ds mask (fun d i => if nup d > 1 ∧ main d ≠ i then 1 else 0) i v := by
  intro fuel
  induction fuel with
  | zero => intro i v h; simp [classicWalk] at h
  | succ f ih =>
    intro i v h
    simp only [classicWalk] at h
    by_cases hm : maskAt mask i = true
    · by_cases hp : ds[i]! = i
      · simp only [hm, hp, Bool.not_true, Bool.false_eq_true, if_false, if_true, Option.some.injEq] at h
        subst h; exact ClassicOrd.pit i hm hp
      · simp only [hm, hp, Bool.not_true, Bool.false_eq_true, if_false, Option.map_eq_some_iff] at h
        obtain ⟨w, hw, rfl⟩ := h
        exact ClassicOrd.down i w hm hp (ih _ _ hw)
    · have hm' : maskAt mask i = false := by simpa using hm
      simp only [hm', Bool.not_false, if_true, Option.some.injEq] at h
      subst h; exact ClassicOrd.off i hm'

/-- number of non-main confluence steps among the first `k` steps downstream of `i` -/
def nonMainSteps (ds : Array Nat) (nm : Nat → Nat → Nat) : Nat → Nat → Nat
  | 0, _ => 0
  | k+1, i => nm ds[i]! i + nonMainSteps ds nm k ds[i]!

/-! ### `core.main_upstream` -/

/-- `j` drains into `d` (and is not a pit or a missing cell) -/
def IsInflow (ds : Array Nat) (j d : Nat) : Prop := ds[j]! = d ∧ ds[j]! ≠ j ∧ ds[j]! ≠ ds.size

def mainStep (ds : Array Nat) (uparea : Array Int) (st : Array Nat × Array Int) (idx0 : Nat) :
    Array Nat × Array Int :=
  let d := ds[idx0]!
  if d = idx0 ∨ d = ds.size then st
  else if uparea[idx0]! > st.2[d]! then (st.1.setIfInBounds d idx0, st.2.setIfInBounds d uparea[idx0]!)
  else st

theorem mainUpstream_eq (ds : Array Nat) (uparea : Array Int) (upaMin : Int) :
    mainUpstream ds uparea upaMin =
      ((List.range ds.size).foldl (mainStep ds uparea)
        (Array.replicate ds.size ds.size, Array.replicate ds.size upaMin)).1 := rfl

/-- loop invariant of `main_upstream` after the cells `< k` -/
def MainInv (ds : Array Nat) (uparea : Array Int) (upaMin : Int) (k : Nat)
    (st : Array Nat × Array Int) : Prop :=
  st.1.size = ds.size ∧ st.2.size = ds.size ∧
  ∀ d, d < ds.size →
    upaMin ≤ st.2[d]! ∧
    (st.1[d]! = ds.size → st.2[d]! = upaMin) ∧
    (st.1[d]! ≠ ds.size → st.1[d]! < k ∧ IsInflow ds st.1[d]! d ∧ uparea[st.1[d]!]! = st.2[d]! ∧
      upaMin < st.2[d]!) ∧
    (∀ j, j < k → IsInflow ds j d → uparea[j]! ≤ st.2[d]! ∧
      (uparea[j]! = st.2[d]! → upaMin < st.2[d]! → st.1[d]! ≤ j))

theorem mainInv_step (ds : Array Nat) (uparea : Array Int) (upaMin : Int) (k : Nat) (hk : k < ds.size)
    (hwf : ds[k]! ≤ ds.size) (st : Array Nat × Array Int) (h : MainInv ds uparea upaMin k st) :
    MainInv ds uparea upaMin (k + 1) (mainStep ds uparea st k) := by
  obtain ⟨hs1, hs2, hinv⟩ := h
  unfold mainStep
  by_cases hskip : ds[k]! = k ∨ ds[k]! = ds.size
  · simp only [hskip, if_true]
    refine ⟨hs1, hs2, fun d hd => ?_⟩
    obtain ⟨a, b, c, e⟩ := hinv d hd
    refine ⟨a, b, fun hne => ?_, fun j hj hin => ?_⟩
    · have := c hne; exact ⟨by omega, this.2⟩
    · by_cases hjk : j = k
      · subst hjk; unfold IsInflow at hin; omega
      · exact e j (by omega) hin
  · simp only [hskip, if_false]
    have hd0 : ds[k]! < ds.size := by omega
    by_cases hgt : uparea[k]! > st.2[ds[k]!]!
    · simp only [hgt, if_true]
      refine ⟨by simp [hs1], by simp [hs2], fun d hd => ?_⟩
      obtain ⟨a, b, c, e⟩ := hinv d hd
      simp only [get!_setIfInBounds, hs1, hs2, hd0, and_true]
      by_cases hdd : ds[k]! = d
      · subst hdd
        simp only [if_true]
        refine ⟨by omega, fun h => by omega, fun _ => ⟨by omega, ⟨rfl, by omega, by omega⟩, trivial, by omega⟩,
          fun j hj hin => ?_⟩
        by_cases hjk : j = k
        · subst hjk; exact ⟨Int.le_refl _, fun _ _ => Nat.le_refl _⟩
        · have := (e j (by omega) hin).1
          exact ⟨by omega, fun h1 _ => by omega⟩
      · simp only [hdd, if_false]
        refine ⟨a, b, fun hne => ?_, fun j hj hin => ?_⟩
        · have := c hne; exact ⟨by omega, this.2⟩
        · by_cases hjk : j = k
          · subst hjk; unfold IsInflow at hin; exact absurd hin.1 hdd
          · exact e j (by omega) hin
    · simp only [hgt, if_false]
      refine ⟨hs1, hs2, fun d hd => ?_⟩
      obtain ⟨a, b, c, e⟩ := hinv d hd
      refine ⟨a, b, fun hne => ?_, fun j hj hin => ?_⟩
      · have := c hne; exact ⟨by omega, this.2⟩
      · by_cases hjk : j = k
        · subst hjk
          have hdd : ds[j]! = d := hin.1
          subst hdd
          refine ⟨by omega, fun h1 h2 => ?_⟩
          have hne : st.1[ds[j]!]! ≠ ds.size := fun h => by have := b h; omega
          have := (c hne).1; omega
        · exact e j (by omega) hin

theorem mainInv_final (ds : Array Nat) (uparea : Array Int) (upaMin : Int)
    (hwf : ∀ i < ds.size, ds[i]! ≤ ds.size) :
    ∀ k, k ≤ ds.size → MainInv ds uparea upaMin k
      ((List.range k).foldl (mainStep ds uparea)
        (Array.replicate ds.size ds.size, Array.replicate ds.size upaMin)) := by
  intro k
  induction k with
  | zero =>
    intro _
    refine ⟨by simp, by simp, fun d hd => ?_⟩
    simp [hd]
  | succ k ih =>
    intro hk
    rw [List.range_succ, List.foldl_append]
    exact mainInv_step ds uparea upaMin k (by omega) (hwf k (by omega)) _ (ih (by omega))

end Pf
