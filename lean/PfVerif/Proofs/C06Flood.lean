import PfVerif.Proofs.C06Algo
/-! Second stage for C06: the priority flood of the model always produces an output the
certificate accepts. Part 1: effect of one neighbour loop. Core Lean only. -/
namespace Pf.C06
open Pf


theorem usCode_facts (dr dc : Int) (h1 : -1 ≤ dr) (h2 : dr ≤ 1) (h3 : -1 ≤ dc) (h4 : dc ≤ 1) :
    (usCode dr dc = 0 ↔ (dr = 0 ∧ dc = 0)) ∧ usCode dr dc ≠ 247 ∧ drdc (usCode dr dc) = (-dr, -dc) := by
  have hr : dr = -1 ∨ dr = 0 ∨ dr = 1 := by omega
  have hc : dc = -1 ∨ dc = 0 ∨ dc = 1 := by omega
  rcases hr with rfl | rfl | rfl <;> rcases hc with rfl | rfl | rfl <;> decide

theorem zero_mem_offsets (conn : Nat) : ((0 : Int), (0 : Int)) ∈ offsets conn := by
  rw [mem_offsets]; simp

theorem neg_mem_offsets {conn : Nat} {o : Int × Int} (h : o ∈ offsets conn) : (-o.1, -o.2) ∈ offsets conn := by
  obtain ⟨dr, dc⟩ := o
  rw [mem_offsets] at h ⊢
  obtain ⟨h1, h2, h3, h4, h5⟩ := h
  refine ⟨by omega, by omega, by omega, by omega, fun h => ?_⟩
  rcases h5 h with h | h
  · left; simp only at h ⊢; omega
  · right; simp only at h ⊢; omega

theorem shift_self {G : Grid} {i : Nat} (hi : i < G.n) : shift G i 0 0 = some i := by
  rw [shift_spec]; exact ⟨hi, by simp, by simp⟩

theorem shift_eq_self {G : Grid} {i : Nat} {o : Int × Int} (h : shift G i o.1 o.2 = some i) : o = (0, 0) := by
  obtain ⟨_, h1, h2⟩ := (shift_spec (G := G)).1 h
  obtain ⟨dr, dc⟩ := o
  simp only at h1 h2
  have : dr = 0 := by omega
  have : dc = 0 := by omega
  simp [*]

theorem shift_inv {G : Grid} {i j : Nat} {o : Int × Int} (hi : i < G.n) (h : shift G i o.1 o.2 = some j) :
    shift G j (-o.1) (-o.2) = some i := by
  obtain ⟨_, h1, h2⟩ := (shift_spec (G := G)).1 h
  rw [shift_spec]
  exact ⟨hi, by omega, by omega⟩

theorem nodup_hpush (x : HE) (l : List HE) (hn : (l.map (·.idx)).Nodup) (hx : x.idx ∉ l.map (·.idx)) :
    ((hpush x l).map (·.idx)).Nodup := by
  induction l with
  | nil => simp [hpush]
  | cons a r ih =>
    simp only [List.map_cons, List.nodup_cons, List.mem_cons, not_or] at hn hx
    unfold hpush
    split
    · simp only [List.map_cons, List.nodup_cons, List.mem_cons, not_or]
      exact ⟨⟨hx.1, hx.2⟩, hn⟩
    · simp only [List.map_cons, List.nodup_cons]
      refine ⟨?_, ih hn.2 hx.2⟩
      intro hmem
      obtain ⟨e, he, hea⟩ := List.mem_map.1 hmem
      rcases (mem_hpush x e r).1 he with rfl | he
      · exact hx.1 hea
      · exact hn.1 (List.mem_map.2 ⟨e, he, hea⟩)



def Sized (G : Grid) (s : St) : Prop :=
  s.done.size = G.n ∧ s.queued.size = G.n ∧ s.f.size = G.n ∧ s.d8.size = G.n

/-- offset `o` from `i0` lands on `c` -/
def tgt (G : Grid) (i0 c : Nat) (o : Int × Int) : Bool := shift G i0 o.1 o.2 == some c

theorem tgt_iff {G : Grid} {i0 c : Nat} {o : Int × Int} : tgt G i0 c o = true ↔ shift G i0 o.1 o.2 = some c := by
  simp [tgt]

/-- level a cell gets when visited from a cell popped with level `z0` -/
def lvl (z0 z1 : Int) : Int := if z0 - z1 > 0 then z0 else z1

theorem sized_visit {G : Grid} {elev : Array Int} (z0 : Int) (i0 : Nat) (s : St) (o : Int × Int)
    (h : Sized G s) : Sized G (visit G elev z0 i0 s o) := by
  unfold visit
  split
  · exact h
  · split
    · exact h
    · obtain ⟨h1, h2, h3, h4⟩ := h
      refine ⟨by simp [h1], ?_, ?_, by simp [h4]⟩
      · simp only; split <;> simp [h2]
      · simp only; split <;> simp [h3]

/-- a visit that does something: everything about the new state -/
theorem visit_hit {G : Grid} {elev : Array Int} {z0 : Int} {i0 : Nat} {s : St} {o : Int × Int} {j : Nat}
    (hs : Sized G s) (hsh : shift G i0 o.1 o.2 = some j) (hd : s.done[j]! = false) :
    let s1 := visit G elev z0 i0 s o
    (∀ c, s1.done[c]! = if j = c then true else s.done[c]!) ∧
    (∀ c, s1.queued[c]! = if j = c then true else s.queued[c]!) ∧
    (∀ c, s1.f[c]! = if j = c then (if z0 - elev[j]! > 0 then z0 else s.f[j]!) else s.f[c]!) ∧
    (∀ c, s1.d8[c]! = if j = c then usCode o.1 o.2 else s.d8[c]!) ∧
    s1.q = (if s.queued[j]! = false then hpush ⟨lvl z0 elev[j]!, 0, j⟩ s.q else s.q) := by
  have hj : j < G.n := (shift_spec.1 hsh).1
  obtain ⟨h1, h2, h3, h4⟩ := hs
  unfold visit
  simp only [hsh, hd, Bool.false_eq_true, if_false]
  refine ⟨fun c => ?_, fun c => ?_, fun c => ?_, fun c => ?_, ?_⟩
  · rw [get!_setIfInBounds, h1]
    by_cases hjc : j = c <;> simp [hjc, hj]
    subst hjc; simp [hj]
  · by_cases hq : s.queued[j]! = true
    · simp only [hq, Bool.not_true, Bool.false_eq_true, if_false]
      by_cases hjc : j = c
      · subst hjc; simp [hq]
      · simp [hjc]
    · simp only [hq, Bool.not_false, if_true]
      rw [get!_setIfInBounds, h2]
      by_cases hjc : j = c
      · subst hjc; simp [hj]
      · simp [hjc]
  · by_cases hf : z0 - elev[j]! > 0
    · simp only [hf, decide_true, if_true]
      rw [get!_setIfInBounds, h3]
      by_cases hjc : j = c
      · subst hjc; simp [hj]
      · simp [hjc]
    · simp only [hf, decide_false, Bool.false_eq_true, if_false]
      by_cases hjc : j = c
      · subst hjc; simp
      · simp [hjc]
  · rw [get!_setIfInBounds, h4]
    by_cases hjc : j = c
    · subst hjc; simp [hj]
    · simp [hjc]
  · by_cases hq : s.queued[j]! = true
    · simp [hq]
    · have hq' : s.queued[j]! = false := by simpa using hq
      simp only [hq', Bool.not_false, if_true, lvl]
      by_cases hf : z0 - elev[j]! > 0 <;> simp

theorem visit_miss {G : Grid} {elev : Array Int} {z0 : Int} {i0 : Nat} {s : St} {o : Int × Int}
    (h : ∀ j, shift G i0 o.1 o.2 = some j → s.done[j]! = true) : visit G elev z0 i0 s o = s := by
  unfold visit
  split
  · rfl
  · rename_i j hsh
    rw [if_pos (h j hsh)]


/-- effect of the whole neighbour loop `l.foldl visit` on a state -/
structure Eff (G : Grid) (elev : Array Int) (z0 : Int) (i0 : Nat) (l : List (Int × Int)) (s s' : St) : Prop where
  sized : Sized G s'
  keep : ∀ c : Nat, s.done[c]! = true →
    s'.done[c]! = true ∧ s'.f[c]! = s.f[c]! ∧ s'.d8[c]! = s.d8[c]! ∧ s'.queued[c]! = s.queued[c]!
  miss : ∀ c : Nat, s.done[c]! = false → l.find? (tgt G i0 c) = none →
    s'.done[c]! = false ∧ s'.f[c]! = s.f[c]! ∧ s'.d8[c]! = s.d8[c]! ∧ s'.queued[c]! = s.queued[c]!
  hit : ∀ (c : Nat) (o : Int × Int), s.done[c]! = false → l.find? (tgt G i0 c) = some o →
    s'.done[c]! = true ∧ s'.queued[c]! = true ∧
    s'.f[c]! = (if z0 - elev[c]! > 0 then z0 else s.f[c]!) ∧ s'.d8[c]! = usCode o.1 o.2
  heap : ∀ e, e ∈ s'.q ↔ e ∈ s.q ∨ ∃ c : Nat, s.done[c]! = false ∧ s.queued[c]! = false ∧
    (l.find? (tgt G i0 c)).isSome = true ∧ e = ⟨lvl z0 elev[c]!, 0, c⟩
  sorted : HSorted s.q → HSorted s'.q
  nd : (∀ e, e ∈ s.q → s.queued[e.idx]! = true) → (s.q.map (·.idx)).Nodup →
    (s'.q.map (·.idx)).Nodup ∧ ∀ e, e ∈ s'.q → s'.queued[e.idx]! = true

theorem eff_fold {G : Grid} {elev : Array Int} (z0 : Int) (i0 : Nat) (l : List (Int × Int)) (s : St)
    (hs : Sized G s) : Eff G elev z0 i0 l s (l.foldl (visit G elev z0 i0) s) := by
  induction l generalizing s with
  | nil =>
    refine ⟨hs, fun c h => ⟨h, rfl, rfl, rfl⟩, fun c h _ => ⟨h, rfl, rfl, rfl⟩, ?_, ?_, fun h => h,
      fun h1 h2 => ⟨h2, h1⟩⟩
    · intro c o _ h; simp at h
    · intro e; simp
  | cons o l ih =>
    simp only [List.foldl_cons]
    have ih := ih (visit G elev z0 i0 s o) (sized_visit z0 i0 s o hs)
    by_cases hmiss : ∀ j, shift G i0 o.1 o.2 = some j → s.done[j]! = true
    · -- nothing happens at this offset
      rw [visit_miss hmiss] at ih ⊢
      have hno : ∀ c, s.done[c]! = false → tgt G i0 c o = false := by
        intro c hc
        cases ht : tgt G i0 c o with
        | false => rfl
        | true => have := hmiss c (tgt_iff.1 ht); rw [hc] at this; cases this
      refine ⟨ih.sized, ih.keep, ?_, ?_, ?_, ih.sorted, ih.nd⟩
      · intro c hc hf
        rw [List.find?_cons, hno c hc] at hf
        exact ih.miss c hc hf
      · intro c o' hc hf
        rw [List.find?_cons, hno c hc] at hf
        exact ih.hit c o' hc hf
      · intro e
        rw [ih.heap e]
        constructor
        · rintro (h | ⟨c, h1, h2, h3, h4⟩)
          · exact Or.inl h
          · exact Or.inr ⟨c, h1, h2, by rw [List.find?_cons, hno c h1]; exact h3, h4⟩
        · rintro (h | ⟨c, h1, h2, h3, h4⟩)
          · exact Or.inl h
          · exact Or.inr ⟨c, h1, h2, by rw [List.find?_cons, hno c h1] at h3; exact h3, h4⟩
    · -- the offset lands on a cell `j` that is not done
      have hex : ∃ j, shift G i0 o.1 o.2 = some j ∧ s.done[j]! = false := by
        apply Classical.byContradiction
        intro hne
        apply hmiss
        intro j hj
        cases hd : s.done[j]! with
        | true => rfl
        | false => exact absurd ⟨j, hj, hd⟩ hne
      obtain ⟨j, hsh, hd⟩ := hex
      obtain ⟨v1, v2, v3, v4, v5⟩ := visit_hit (elev := elev) (z0 := z0) hs hsh hd
      have htj : tgt G i0 j o = true := tgt_iff.2 hsh
      have htc : ∀ c, j ≠ c → tgt G i0 c o = false := by
        intro c hjc
        cases ht : tgt G i0 c o with
        | false => rfl
        | true =>
          have := tgt_iff.1 ht
          rw [hsh] at this
          injection this with this
          exact absurd this hjc
      have hk := ih.keep j (by rw [v1]; simp)
      refine ⟨ih.sized, ?_, ?_, ?_, ?_, ?_, ?_⟩
      rotate_right
      · intro hq hnd
        apply ih.nd
        · intro e he
          rw [v2]
          rw [v5] at he
          by_cases hje : j = e.idx
          · rw [if_pos hje]
          · rw [if_neg hje]
            by_cases hqj : s.queued[j]! = false
            · rw [if_pos hqj, mem_hpush] at he
              rcases he with rfl | he
              · exact absurd rfl hje
              · exact hq e he
            · rw [if_neg hqj] at he
              exact hq e he
        · rw [v5]
          by_cases hqj : s.queued[j]! = false
          · rw [if_pos hqj]
            apply nodup_hpush _ _ hnd
            intro hmem
            obtain ⟨e, he, hej⟩ := List.mem_map.1 hmem
            have := hq e he
            simp only at hej
            rw [hej, hqj] at this
            cases this
          · rw [if_neg hqj]; exact hnd
      · intro c hc
        have hjc : j ≠ c := fun h => by subst h; rw [hd] at hc; cases hc
        have := ih.keep c (by rw [v1, if_neg hjc]; exact hc)
        rw [v2, v3, v4, if_neg hjc, if_neg hjc, if_neg hjc] at this
        exact this
      · intro c hc hf
        by_cases hjc : j = c
        · subst hjc
          rw [List.find?_cons, htj] at hf
          cases hf
        · rw [List.find?_cons, htc c hjc] at hf
          have := ih.miss c (by rw [v1, if_neg hjc]; exact hc) hf
          rw [v2, v3, v4, if_neg hjc, if_neg hjc, if_neg hjc] at this
          exact this
      · intro c o' hc hf
        by_cases hjc : j = c
        · subst hjc
          rw [List.find?_cons, htj] at hf
          injection hf with hf
          subst hf
          rw [v2, v3, v4] at hk
          simp only [if_true] at hk
          exact ⟨hk.1, hk.2.2.2, hk.2.1, hk.2.2.1⟩
        · rw [List.find?_cons, htc c hjc] at hf
          have := ih.hit c o' (by rw [v1, if_neg hjc]; exact hc) hf
          rw [v3, if_neg hjc] at this
          exact this
      · intro e
        rw [ih.heap e, v5]
        constructor
        · rintro (h | ⟨c, h1, h2, h3, h4⟩)
          · by_cases hq : s.queued[j]! = false
            · rw [if_pos hq, mem_hpush] at h
              rcases h with h | h
              · exact Or.inr ⟨j, hd, hq, by rw [List.find?_cons, htj]; rfl, h⟩
              · exact Or.inl h
            · rw [if_neg hq] at h
              exact Or.inl h
          · have hjc : j ≠ c := fun h => by subst h; rw [v1] at h1; simp at h1
            rw [v1, if_neg hjc] at h1
            rw [v2, if_neg hjc] at h2
            exact Or.inr ⟨c, h1, h2, by rw [List.find?_cons, htc c hjc]; exact h3, h4⟩
        · rintro (h | ⟨c, h1, h2, h3, h4⟩)
          · left
            by_cases hq : s.queued[j]! = false
            · rw [if_pos hq, mem_hpush]; exact Or.inr h
            · rw [if_neg hq]; exact h
          · by_cases hjc : j = c
            · subst hjc
              left
              rw [if_pos h2, mem_hpush]
              exact Or.inl h4
            · right
              refine ⟨c, by rw [v1, if_neg hjc]; exact h1, by rw [v2, if_neg hjc]; exact h2, ?_, h4⟩
              rw [List.find?_cons, htc c hjc] at h3
              exact h3
      · intro hsq
        apply ih.sorted
        rw [v5]
        split
        · exact hsorted_hpush _ _ hsq
        · exact hsq


end Pf.C06
