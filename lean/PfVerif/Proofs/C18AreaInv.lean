import PfVerif.Proofs.C18AreaSum
/-! Algorithm-level invariant of `subbasins_area` (abstract form: the network, the main-upstream
map and the two area fields are functions; the state is the function `uo = upa_out` and the list
of outlets). Core Lean only.

Ghost state: `own x` = the first outlet on the downstream path of a processed cell `x`,
`reg o` = `A o - Σ A o'` over the outlets `o'` created so far directly upstream of the sub-basin of `o`
(the area the sub-basin of `o` would have if the loop stopped now). -/
namespace Pf.C18

/-- function update -/
def upd {β : Type} (f : Nat → β) (i : Nat) (v : β) : Nat → β := fun y => if y = i then v else f y

@[simp] theorem upd_same {β : Type} (f : Nat → β) (i : Nat) (v : β) : upd f i v i = v := by simp [upd]
theorem upd_ne {β : Type} (f : Nat → β) {i j : Nat} (v : β) (h : j ≠ i) : upd f i v j = f j := by
  simp [upd, h]

section
variable (D M : Nat → Nat) (A a : Nat → Int) (amin : Int) (seq : List Nat) (rk : Nat → Nat)

/-- structural part of the invariant: processed cells `P`, outlets, owner map -/
structure SInv (P outs : List Nat) (own : Nat → Nat) : Prop where
  inSeq : ∀ x ∈ P, x ∈ seq
  closed : ∀ x ∈ P, D x ∈ P
  sub : ∀ o ∈ outs, o ∈ P
  pitO : ∀ x ∈ P, x ∉ outs → D x ≠ x
  ownO : ∀ o ∈ outs, own o = o
  ownN : ∀ x ∈ P, x ∉ outs → own x = own (D x)
  ownM : ∀ x ∈ P, own x ∈ outs
  ownR : ∀ x ∈ P, rk (own x) ≤ rk x ∧ (x ∉ outs → rk (own x) < rk x)
  bigO : ∀ o ∈ outs, D o ≠ o → amin < A o
  mainO : ∀ o ∈ outs, D o ≠ o → M (D o) = o → A (D o) - A o ≤ amin

variable {D M A a amin seq rk}

theorem SInv.nil (own : Nat → Nat) : SInv D M A amin seq rk [] [] own where
  inSeq := by simp
  closed := by simp
  sub := by simp
  pitO := by simp
  ownO := by simp
  ownN := by simp
  ownM := by simp
  ownR := by simp
  bigO := by simp
  mainO := by simp

/-- the processed cell becomes an outlet -/
theorem SInv.cut {P outs : List Nat} {own : Nat → Nat} (h : SInv D M A amin seq rk P outs own)
    {idx : Nat} (hidx : idx ∈ seq) (hnP : idx ∉ P) (hd : D idx = idx ∨ D idx ∈ P)
    (hbig : D idx ≠ idx → amin < A idx)
    (hmain : D idx ≠ idx → M (D idx) = idx → A (D idx) - A idx ≤ amin) :
    SInv D M A amin seq rk (P ++ [idx]) (outs ++ [idx]) (upd own idx idx) := by
  have hno : idx ∉ outs := fun hc => hnP (h.sub _ hc)
  have hown : ∀ x ∈ P, upd own idx idx x = own x := fun x hx =>
    upd_ne own idx (fun hc => hnP (hc ▸ hx))
  refine ⟨?_, ?_, ?_, ?_, ?_, ?_, ?_, ?_, ?_, ?_⟩
  · intro x hx
    rcases List.mem_append.1 hx with hx | hx
    · exact h.inSeq x hx
    · simp only [List.mem_singleton] at hx; subst hx; exact hidx
  · intro x hx
    rcases List.mem_append.1 hx with hx | hx
    · exact List.mem_append.2 (Or.inl (h.closed x hx))
    · simp only [List.mem_singleton] at hx; subst hx
      rcases hd with hd | hd
      · rw [hd]; simp
      · exact List.mem_append.2 (Or.inl hd)
  · intro o ho
    rcases List.mem_append.1 ho with ho | ho
    · exact List.mem_append.2 (Or.inl (h.sub o ho))
    · exact List.mem_append.2 (Or.inr ho)
  · intro x hx hxo
    rcases List.mem_append.1 hx with hx | hx
    · exact h.pitO x hx (fun hc => hxo (List.mem_append.2 (Or.inl hc)))
    · exact absurd (List.mem_append.2 (Or.inr hx)) hxo
  · intro o ho
    rcases List.mem_append.1 ho with ho | ho
    · rw [hown o (h.sub o ho)]; exact h.ownO o ho
    · simp only [List.mem_singleton] at ho; subst ho; simp
  · intro x hx hxo
    rcases List.mem_append.1 hx with hx | hx
    · rw [hown x hx, hown _ (h.closed x hx)]
      exact h.ownN x hx (fun hc => hxo (List.mem_append.2 (Or.inl hc)))
    · exact absurd (List.mem_append.2 (Or.inr hx)) hxo
  · intro x hx
    rcases List.mem_append.1 hx with hx | hx
    · rw [hown x hx]; exact List.mem_append.2 (Or.inl (h.ownM x hx))
    · simp only [List.mem_singleton] at hx; subst hx; simp
  · intro x hx
    rcases List.mem_append.1 hx with hx | hx
    · rw [hown x hx]
      exact ⟨(h.ownR x hx).1, fun hc => (h.ownR x hx).2 (fun hc' => hc (List.mem_append.2 (Or.inl hc')))⟩
    · simp only [List.mem_singleton] at hx; subst hx
      simp
  · intro o ho
    rcases List.mem_append.1 ho with ho | ho
    · exact h.bigO o ho
    · simp only [List.mem_singleton] at ho; subst ho; exact hbig
  · intro o ho
    rcases List.mem_append.1 ho with ho | ho
    · exact h.mainO o ho
    · simp only [List.mem_singleton] at ho; subst ho; exact hmain

/-- the processed cell stays in the sub-basin of its downstream cell -/
theorem SInv.nocut {P outs : List Nat} {own : Nat → Nat} (h : SInv D M A amin seq rk P outs own)
    {idx : Nat} (hidx : idx ∈ seq) (hnP : idx ∉ P) (hd : D idx ∈ P) (hnp : D idx ≠ idx)
    (hrk : rk idx = rk (D idx) + 1) :
    SInv D M A amin seq rk (P ++ [idx]) outs (upd own idx (own (D idx))) := by
  have hno : idx ∉ outs := fun hc => hnP (h.sub _ hc)
  have hown : ∀ x ∈ P, upd own idx (own (D idx)) x = own x := fun x hx =>
    upd_ne own _ (fun hc => hnP (hc ▸ hx))
  refine ⟨?_, ?_, ?_, ?_, ?_, ?_, ?_, ?_, h.bigO, h.mainO⟩
  · intro x hx
    rcases List.mem_append.1 hx with hx | hx
    · exact h.inSeq x hx
    · simp only [List.mem_singleton] at hx; subst hx; exact hidx
  · intro x hx
    rcases List.mem_append.1 hx with hx | hx
    · exact List.mem_append.2 (Or.inl (h.closed x hx))
    · simp only [List.mem_singleton] at hx; subst hx
      exact List.mem_append.2 (Or.inl hd)
  · intro o ho
    exact List.mem_append.2 (Or.inl (h.sub o ho))
  · intro x hx hxo
    rcases List.mem_append.1 hx with hx | hx
    · exact h.pitO x hx hxo
    · simp only [List.mem_singleton] at hx; subst hx; exact hnp
  · intro o ho
    rw [hown o (h.sub o ho)]; exact h.ownO o ho
  · intro x hx hxo
    rcases List.mem_append.1 hx with hx | hx
    · rw [hown x hx, hown _ (h.closed x hx)]
      exact h.ownN x hx hxo
    · simp only [List.mem_singleton] at hx; subst hx
      rw [upd_same, hown _ hd]
  · intro x hx
    rcases List.mem_append.1 hx with hx | hx
    · rw [hown x hx]; exact h.ownM x hx
    · simp only [List.mem_singleton] at hx; subst hx
      rw [upd_same]; exact h.ownM _ hd
  · intro x hx
    rcases List.mem_append.1 hx with hx | hx
    · rw [hown x hx]; exact h.ownR x hx
    · simp only [List.mem_singleton] at hx; subst hx
      rw [upd_same]
      have := (h.ownR _ hd).1
      exact ⟨by omega, fun _ => by omega⟩

end
end Pf.C18

namespace Pf.C18
section
variable (D M : Nat → Nat) (A a : Nat → Int) (amin : Int) (seq : List Nat) (rk : Nat → Nat)

/-- static hypotheses: duplicate-free downstream-closed cell list, ranks, main-upstream cells are
inflowing cells, `A` is the accumulation of the non-negative cell areas `a` -/
structure AHyp : Prop where
  nd : seq.Nodup
  dsSeq : ∀ x ∈ seq, D x ∈ seq
  rkS : ∀ x ∈ seq, D x ≠ x → rk x = rk (D x) + 1
  main : ∀ d ∈ seq, M d ∈ seq → D (M d) = d ∧ M d ≠ d
  acc : ∀ d ∈ seq, A d = a d + csum (fun c => decide (D c = d ∧ c ≠ d)) A seq
  a0 : ∀ d ∈ seq, 0 ≤ a d
  A0 : ∀ d ∈ seq, 0 ≤ A d

/-- the part of the invariant that speaks about `upa_out` (`uo`) and the ghost region areas -/
structure UInv (P outs : List Nat) (own : Nat → Nat) (uo : Nat → Int) (reg : Nat → Int) : Prop where
  init : ∀ x ∈ seq, x ∉ P → uo x = A x ∨
    (M (D x) = x ∧ D x ≠ x ∧ uo x = uo (D x) ∧ ∃ y ∈ P, D y = D x ∧ y ≠ D x)
  low : ∀ d ∈ P, a d + csum (fun c => decide (D c = d ∧ c ≠ d) && !outs.contains c) A seq ≤ uo d
  trib : ∀ x ∈ P, x ∉ outs → D x ≠ x → M (D x) ≠ x → amin < A x → uo (D x) - A x ≤ amin
  chain : ∀ c1 ∈ P, ∀ c2 ∈ P, c1 ≠ c2 → D c1 = D c2 → D c1 ≠ c1 → D c2 ≠ c2 → c1 ∉ outs → c2 ∉ outs →
    amin < A c1 → A c2 ≤ amin
  K : ∀ x ∈ P, amin < A x → (∀ y ∈ P, rk y ≤ rk x + 1) → M x ∉ outs → uo x ≤ reg (own x)
  G : ∀ o ∈ outs, D o ≠ o → amin < reg o
  regE : ∀ o ∈ outs, reg o = A o -
    csum (fun c => outs.contains c && decide (D c ≠ c) && (own (D c) == o)) A seq

variable {D M A a amin seq rk}

theorem AHyp.two (H : AHyp D M A a seq rk) {d c1 c2 : Nat} (hd : d ∈ seq) (h1 : c1 ∈ seq) (h2 : c2 ∈ seq)
    (hne : c1 ≠ c2) (hc1 : D c1 = d) (hn1 : c1 ≠ d) (hc2 : D c2 = d) (hn2 : c2 ≠ d) :
    A c1 + A c2 ≤ A d := by
  have := csum_ge_two (p := fun c => decide (D c = d ∧ c ≠ d)) (f := A) H.nd H.A0 h1 h2 hne
    (by simp [hc1, hn1]) (by simp [hc2, hn2])
  have h3 := H.acc d hd
  have h4 := H.a0 d hd
  omega

theorem AHyp.mono (H : AHyp D M A a seq rk) {c : Nat} (h1 : c ∈ seq) (hn : D c ≠ c) : A c ≤ A (D c) := by
  have := csum_ge_one (p := fun x => decide (D x = D c ∧ x ≠ D c)) (f := A) H.nd H.A0 h1
    (by simp; exact fun h => hn h.symm)
  have h3 := H.acc (D c) (H.dsSeq c h1)
  have h4 := H.a0 (D c) (H.dsSeq c h1)
  omega

/-- `a d + Σ (inflowing cells not cut off) ≤ A d` -/
theorem AHyp.rest_le (H : AHyp D M A a seq rk) (outs : List Nat) {d : Nat} (hd : d ∈ seq) :
    a d + csum (fun c => decide (D c = d ∧ c ≠ d) && !outs.contains c) A seq ≤ A d := by
  have := csum_mono (p := fun c => decide (D c = d ∧ c ≠ d) && !outs.contains c)
    (q := fun c => decide (D c = d ∧ c ≠ d)) (f := A) (l := seq) H.A0
    (fun y _ h => by simp only [Bool.and_eq_true] at h; exact h.1)
  have h3 := H.acc d hd
  omega

theorem UInv.lowOne {P outs : List Nat} {own : Nat → Nat} {uo reg : Nat → Int}
    (H : AHyp D M A a seq rk) (hU : UInv D M A a amin seq rk P outs own uo reg)
    (hS : SInv D M A amin seq rk P outs own)
    {d c : Nat} (hd : d ∈ P) (hc : c ∈ seq) (hcd : D c = d) (hne : c ≠ d) (hno : c ∉ outs) :
    A c ≤ uo d := by
  have := csum_ge_one (p := fun c => decide (D c = d ∧ c ≠ d) && !outs.contains c) (f := A) H.nd H.A0 hc
    (by simp [hcd, hne, hno])
  have h3 := hU.low d hd
  have h4 := H.a0 d (hS.inSeq d hd)
  omega

theorem UInv.lowTwo {P outs : List Nat} {own : Nat → Nat} {uo reg : Nat → Int}
    (H : AHyp D M A a seq rk) (hU : UInv D M A a amin seq rk P outs own uo reg)
    (hS : SInv D M A amin seq rk P outs own)
    {d c1 c2 : Nat} (hd : d ∈ P) (h1 : c1 ∈ seq) (h2 : c2 ∈ seq) (hne : c1 ≠ c2)
    (hc1 : D c1 = d) (hn1 : c1 ≠ d) (ho1 : c1 ∉ outs) (hc2 : D c2 = d) (hn2 : c2 ≠ d) (ho2 : c2 ∉ outs) :
    A c1 + A c2 ≤ uo d := by
  have := csum_ge_two (p := fun c => decide (D c = d ∧ c ≠ d) && !outs.contains c) (f := A) H.nd H.A0
    h1 h2 hne (by simp [hc1, hn1, ho1]) (by simp [hc2, hn2, ho2])
  have h3 := hU.low d hd
  have h4 := H.a0 d (hS.inSeq d hd)
  omega

/-- two big processed cells of the same rank in the same sub-basin coincide: the big cells of a
sub-basin form a chain -/
theorem classUnique {P outs : List Nat} {own : Nat → Nat} {uo reg : Nat → Int}
    (H : AHyp D M A a seq rk) (hS : SInv D M A amin seq rk P outs own)
    (hU : UInv D M A a amin seq rk P outs own uo reg) :
    ∀ r x y, x ∈ P → y ∈ P → rk x = r → rk y = r → own x = own y → amin < A x → amin < A y → x = y := by
  intro r
  induction r using Nat.strongRecOn with
  | _ r ih =>
    intro x y hx hy hrx hry hown hbx hby
    by_cases hxo : x ∈ outs
    · by_cases hyo : y ∈ outs
      · rw [hS.ownO x hxo, hS.ownO y hyo] at hown; exact hown
      · have := (hS.ownR y hy).2 hyo
        rw [← hown, hS.ownO x hxo] at this; omega
    · by_cases hyo : y ∈ outs
      · have := (hS.ownR x hx).2 hxo
        rw [hown, hS.ownO y hyo] at this; omega
      · have hpx := hS.pitO x hx hxo
        have hpy := hS.pitO y hy hyo
        have hrx' := H.rkS x (hS.inSeq x hx) hpx
        have hry' := H.rkS y (hS.inSeq y hy) hpy
        have hmx := H.mono (hS.inSeq x hx) hpx
        have hmy := H.mono (hS.inSeq y hy) hpy
        have hdd : D x = D y := by
          apply ih (rk (D x)) (by omega) (D x) (D y) (hS.closed x hx) (hS.closed y hy) rfl (by omega)
          · rw [← hS.ownN x hx hxo, ← hS.ownN y hy hyo]; exact hown
          · omega
          · omega
        apply Classical.byContradiction
        intro hne
        have := hU.chain x hx y hy hne hdd hpx hpy hxo hyo hbx
        omega

/-- a big processed cell `x ≠ d` in the sub-basin of the big cell `d`, not further downstream than
`d`, while only cells up to rank `rk d + 1` are processed, is an inflowing cell of `d` that was not cut -/
theorem class_child {P outs : List Nat} {own : Nat → Nat} {uo reg : Nat → Int}
    (H : AHyp D M A a seq rk) (hS : SInv D M A amin seq rk P outs own)
    (hU : UInv D M A a amin seq rk P outs own uo reg)
    {d x : Nat} (hd : d ∈ P) (hx : x ∈ P) (hbd : amin < A d) (hbx : amin < A x)
    (hown : own x = own d) (hne : x ≠ d) (hlo : rk d ≤ rk x) (hhi : rk x ≤ rk d + 1) :
    x ∉ outs ∧ D x = d ∧ D x ≠ x := by
  by_cases heq : rk x = rk d
  · exact absurd (classUnique H hS hU _ x d hx hd heq rfl hown hbx hbd) hne
  · have hr : rk x = rk d + 1 := by omega
    have hxo : x ∉ outs := by
      intro hc
      have h1 := (hS.ownR d hd).1
      rw [← hown, hS.ownO x hc] at h1; omega
    have hpx := hS.pitO x hx hxo
    have hrx := H.rkS x (hS.inSeq x hx) hpx
    have hmx := H.mono (hS.inSeq x hx) hpx
    refine ⟨hxo, ?_, hpx⟩
    apply classUnique H hS hU (rk d) (D x) d (hS.closed x hx) hd (by omega) rfl
    · rw [← hS.ownN x hx hxo]; exact hown
    · omega
    · exact hbd

end
end Pf.C18
