import PfVerif.Proofs.C09_ihuW
import PfVerif.Proofs.C09_ihuFuel
/-! STEP 4 of `ihu_relocate_outlets` keeps the well-formedness invariant `WArr`, never runs out of fuel and its
`while len(bottleneck) > nbottlenecks` runs at most `ncell + 2` times (C09 extension, fourth stage). Core Lean only. -/
namespace Pf.C09ihu
open Pf

theorem foldlM_tot {α β : Type} (f : β → α → Option β) (P : β → Prop) (l : List α)
    (h : ∀ b a, a ∈ l → P b → ∃ b', f b a = some b' ∧ P b') :
    ∀ b, P b → ∃ b', l.foldlM f b = some b' ∧ P b' := by
  induction l with
  | nil => intro b hb; exact ⟨b, rfl, hb⟩
  | cons a l ih =>
    intro b hb
    obtain ⟨b1, h1, hb1⟩ := h b a List.mem_cons_self hb
    obtain ⟨b2, h2, hb2⟩ := ih (fun b a ha => h b a (List.mem_cons_of_mem _ ha)) b1 hb1
    exact ⟨b2, by rw [List.foldlM_cons, h1]; exact h2, hb2⟩

theorem some_of_isSome_of_inv {β : Type} {o : Option β} {P : β → Prop} (h1 : o.isSome = true)
    (h2 : ∀ b, o = some b → P b) : ∃ b, o = some b ∧ P b := by
  obtain ⟨b, hb⟩ := Option.isSome_iff_exists.mp h1
  exact ⟨b, hb, h2 b hb⟩

section reloc
variable {e : Env} {n : Nat} {W : Nat → Nat → Nat → Prop} {A B : Nat → Prop}

theorem WArr.setBoth (hw : WCtx e n W) {cds out : Array Nat} (h : WArr e n W A B cds out) (c v p : Nat)
    (hv : c < n → v < n ∧ inD8 c v e.ncol = true ∧ ValidPx e.ds p) :
    WArr e n W A B (cds.setIfInBounds c v) (out.setIfInBounds c p) := by
  refine ⟨by simp [h.szc], by simp [h.szo], ?_, ?_, ?_⟩
  · intro c' hc'
    rw [get!_setIfInBounds, get!_setIfInBounds]
    by_cases hcc : c = c'
    · subst hcc
      obtain ⟨h1, h2, h3⟩ := hv hc'
      rw [if_pos ⟨rfl, by rw [h.szc]; exact hc'⟩, if_pos ⟨rfl, by rw [h.szo]; exact hc'⟩]
      exact hw.w1 _ _ _ hc' h1 h2 h3
    · rw [if_neg (fun hh => hcc hh.1), if_neg (fun hh => hcc hh.1)]
      exact h.ok c' hc'
  · intro c' hc' ha
    rw [get!_setIfInBounds]
    split
    · rename_i hh
      obtain ⟨rfl, _⟩ := hh
      have := (hv hc').1
      omega
    · exact h.actC c' hc' ha
  · intro c' hc' hb
    rw [get!_setIfInBounds]
    split
    · rename_i hh
      obtain ⟨rfl, _⟩ := hh
      have := (hv hc').2.2.1
      omega
    · exact h.actO c' hc' hb

/-- invariant of the state of STEP 4: the arrays are well formed, "unroll edits" would restore `(cds0, out0)`, the
bottleneck list has no duplicates and holds only values of coarse links -/
structure SOK (e : Env) (n : Nat) (W : Nat → Nat → Nat → Prop) (A B : Nat → Prop) (cds0 out0 : Array Nat) (s : S4) :
    Prop where
  arr : WArr e n W A B s.cds s.out
  rest : Rest s cds0 out0
  bn : s.bott.Nodup
  bl : ∀ b ∈ s.bott, b ≤ n

variable {cds0 out0 : Array Nat}

theorem SOK.congr {s : S4} (h : SOK e n W A B cds0 out0 s) (s' : S4) (h1 : s'.cds = s.cds) (h2 : s'.out = s.out)
    (h3 : s'.dsEd = s.dsEd) (h4 : s'.outEd = s.outEd) (h5 : s'.bott = s.bott) : SOK e n W A B cds0 out0 s' := by
  refine ⟨by rw [h1, h2]; exact h.arr, ⟨by rw [h1, h3]; exact h.rest.rds, by rw [h2, h4]; exact h.rest.rout, ?_⟩,
    by rw [h5]; exact h.bn, by rw [h5]; exact h.bl⟩
  intro c hc
  rw [h2]
  apply h.rest.rfix c
  simpa [S4.outEdited, h4] using hc

theorem S4.setDs_outEdited (s : S4) (c v c' : Nat) : (s.setDs c v).outEdited c' = s.outEdited c' := by
  simp [S4.outEdited, S4.setDs_outEd]

theorem SOK.setDs (hw : WCtx e n W) {s : S4} (h : SOK e n W A B cds0 out0 s) (c v : Nat)
    (hv : c < n → v < n ∧ inD8 c v e.ncol = true ∧ s.out[c]! ≠ e.ds.size) : SOK e n W A B cds0 out0 (s.setDs c v) := by
  refine ⟨?_, h.rest.setDs c v, by rw [S4.setDs_bott]; exact h.bn, by rw [S4.setDs_bott]; exact h.bl⟩
  rw [S4.setDs_cds, S4.setDs_out]
  exact h.arr.setDs hw c v hv

theorem SOK.setOut (hw : WCtx e n W) {s : S4} (h : SOK e n W A B cds0 out0 s) (c p : Nat)
    (hc : s.outEdited c = false) (hv : c < n → s.cds[c]! ≠ n ∧ ValidPx e.ds p) :
    SOK e n W A B cds0 out0 (s.setOut c p) := by
  refine ⟨?_, h.rest.setOut c p hc, by rw [S4.setOut_bott]; exact h.bn, by rw [S4.setOut_bott]; exact h.bl⟩
  rw [S4.setOut_cds, S4.setOut_out]
  exact h.arr.setOut hw c p hv

theorem SOK.setBoth (hw : WCtx e n W) {s : S4} (h : SOK e n W A B cds0 out0 s) (c v p : Nat)
    (hc : s.outEdited c = false) (hv : c < n → v < n ∧ inD8 c v e.ncol = true ∧ ValidPx e.ds p) :
    SOK e n W A B cds0 out0 ((s.setDs c v).setOut c p) := by
  refine ⟨?_, (h.rest.setDs c v).setOut c p (by rw [S4.setDs_outEdited]; exact hc),
    by rw [S4.setOut_bott, S4.setDs_bott]; exact h.bn, by rw [S4.setOut_bott, S4.setDs_bott]; exact h.bl⟩
  rw [S4.setOut_cds, S4.setOut_out, S4.setDs_cds, S4.setDs_out]
  exact h.arr.setBoth hw c v p hv

theorem SOK.unroll {s : S4} (h0 : WArr e n W A B cds0 out0) (h : SOK e n W A B cds0 out0 s) :
    SOK e n W A B cds0 out0 s.unroll := by
  obtain ⟨hr, h1, h2⟩ := h.rest.unroll
  exact ⟨by rw [h1, h2]; exact h0, hr, h.bn, h.bl⟩

/-! ### `next_outlet` -/

theorem nextOutlet_valid (hwf : FineWF e.ds) (out : Array Nat) :
    ∀ fuel p r, nextOutlet e out fuel p = some r → ValidPx e.ds p → ValidPx e.ds r.1 ∧ r.2.1 = e.cell r.1 := by
  intro fuel
  induction fuel with
  | zero => intro p r h; simp [nextOutlet] at h
  | succ f ih =>
    intro p r h hp
    simp only [nextOutlet] at h
    split at h
    · cases h; exact ⟨hwf.next hp, rfl⟩
    · exact ih _ _ h (hwf.next hp)

/-! ### the tributary loop @4D -/

theorem tribLoop_sok (hw : WCtx e n W) (idx0 sds0 : Nat) (hi : idx0 < n) (ha : A idx0) :
    ∀ fuel subidx idxds0 path s s', tribLoop e idx0 sds0 fuel subidx idxds0 path s = some s' →
      ValidPx e.ds subidx → (idxds0 = idx0 ∨ idxds0 = e.cell subidx) → SOK e n W A B cds0 out0 s →
      SOK e n W A B cds0 out0 s' ∧ s'.idx0 = s.idx0 := by
  intro fuel
  induction fuel with
  | zero => intro subidx idxds0 path s s' h; simp [tribLoop] at h
  | succ f ih =>
    intro subidx idxds0 path s s' h hp h0 hs
    have hp1 : ValidPx e.ds e.ds[subidx]! := hw.wf.next hp
    have hout0 : s.out[idx0]! ≠ e.ds.size := by
      have := hs.arr.valid_of_link hw idx0 hi (hs.arr.actC idx0 hi ha)
      have := this.1
      omega
    simp only [tribLoop] at h
    split at h
    · -- at an outlet pixel or a pit
      split at h
      · simp only [Option.some.injEq] at h; subst h
        refine ⟨⟨hs.arr, ⟨hs.rest.rds, hs.rest.rout, hs.rest.rfix⟩, ?_, ?_⟩, rfl⟩
        · show (if s.bott.contains s.cds[idx0]! = true then s.bott else s.bott ++ [s.cds[idx0]!]).Nodup
          split
          · exact hs.bn
          · rename_i hc
            simp only [List.contains_iff_mem] at hc
            rw [List.nodup_append]
            refine ⟨hs.bn, by simp, ?_⟩
            intro a ha b hb
            simp only [List.mem_singleton] at hb
            subst hb
            intro heq
            subst heq
            simp [ha] at hc
        · show ∀ b ∈ (if s.bott.contains s.cds[idx0]! = true then s.bott else s.bott ++ [s.cds[idx0]!]), b ≤ n
          intro b hb
          split at hb
          · exact hs.bl b hb
          · rcases List.mem_append.mp hb with hb | hb
            · exact hs.bl b hb
            · simp only [List.mem_singleton] at hb
              subst hb
              exact hs.arr.link_le hw idx0
      · split at h
        · rename_i hind8
          simp only [Option.some.injEq] at h; subst h
          exact ⟨hs.setDs hw idx0 _ (fun _ => ⟨hw.cell _ hp1, hind8, hout0⟩), S4.setDs_idx0 _ _ _⟩
        · simp only [Option.some.injEq] at h; subst h; exact ⟨hs, rfl⟩
    · split at h
      · rename_i hcond
        split at h
        · cases h
        · rename_i x p1 idxds00 outlet0 hno
          split at h
          · -- lateral relocation of the outlet pixel of `idxds0`
            rename_i hcond2
            simp only [Option.some.injEq] at h; subst h
            simp only [Bool.and_eq_true, bne_iff_ne, ne_eq, Bool.not_eq_true'] at hcond hcond2
            have hne0 : idxds0 ≠ idx0 := hcond.1.1.1.2
            have hcell : idxds0 = e.cell subidx := by
              rcases h0 with h0 | h0
              · exact absurd h0 hne0
              · exact h0
            have hlt : idxds0 < n := by rw [hcell]; exact hw.cell _ hp
            have hno' := nextOutlet_valid hw.wf s.out _ _ _ hno hp
            have hlt00 : idxds00 < n := by
              have := hno'.2; simp only at this; rw [this]; exact hw.cell _ hno'.1
            have h1 := hs.setDs hw idx0 idxds0 (fun _ => ⟨hlt, hcond.2, hout0⟩)
            have h2 := h1.setBoth hw idxds0 idxds00 subidx (by rw [S4.setDs_outEdited]; exact hcond.1.2)
              (fun _ => ⟨hlt00, hcond2.2, hp⟩)
            exact ⟨h2, by rw [S4.setOut_idx0, S4.setDs_idx0, S4.setDs_idx0]⟩
          · exact ih _ _ _ _ _ h hp1 (Or.inr rfl) hs
      · exact ih _ _ _ _ _ h hp1 (Or.inr rfl) hs

end reloc

/-! ### the body of the loop @4A -/

/-- facts about the trace lists of STEP 1 used by STEP 4 -/
structure TrW (e : Env) (n : Nat) (A B : Nat → Prop) (cells pixs : List Nat) : Prop where
  ok : ∀ j, j < pixs.length → cells[j]! < n ∧ A cells[j]! ∧ B cells[j]! ∧ ValidPx e.ds pixs[j]!

/-- facts about the sorted tributary cells of STEP 3 -/
def TrOK (n : Nat) (A : Nat → Prop) (tr : Tribs) : Prop := ∀ k, k < tr.conn.size → tr.us0[k]! < n ∧ A tr.us0[k]!

theorem step4Act_update (cells pixs : List Nat) (tr : Tribs) (s : S4) (j : Nat) (ks : List Nat)
    (h : step4Act e cells pixs tr s j = .update ks) :
    s.outEdited cells[j]! = false ∧ inD8 s.idx0 cells[j]! e.ncol = true ∧ ∀ k ∈ ks, k < tr.conn.size := by
  unfold step4Act at h
  simp only at h
  generalize hd : (if (s.outEdited cells[j]! || s.bott.contains cells[j]!) = true then false
      else inD8 s.idx0 cells[j]! e.ncol) = d8 at h
  cases d8 with
  | false =>
    simp only [Bool.false_and, Bool.or_self, Bool.false_eq_true, if_false] at h
    split at h
    · cases h
    · split at h
      · cases h
      · split at h <;> cases h
  | true =>
    split at hd
    · cases hd
    · rename_i hne
      simp only [Bool.or_eq_true, not_or, Bool.not_eq_true] at hne
      refine ⟨hne.1, hd, ?_⟩
      split at h
      · cases h
      · split at h
        · cases h
        · split at h
          · simp only [Act.update.injEq] at h
            subst h
            intro k hk
            simp only [List.mem_filter, List.mem_range'_1] at hk
            omega
          · split at h <;> cases h

section reloc2
variable {e : Env} {n : Nat} {W : Nat → Nat → Nat → Prop} {A B : Nat → Prop} {cds0 out0 : Array Nat}

/-- the step invariant: `SOK` and the current cell `idx0` has an outlet pixel -/
def P4 (e : Env) (n : Nat) (W : Nat → Nat → Nat → Prop) (A B : Nat → Prop) (cds0 out0 : Array Nat) (s : S4) : Prop :=
  SOK e n W A B cds0 out0 s ∧ B s.idx0

theorem tribLoop_isSome (hr : ∀ p, ValidPx e.ds p → ∃ k, k ≤ e.ds.size ∧ PitAt e.ds k p)
    (idx0 sds0 subidx idxds0 : Nat) (path : List Nat) (s : S4) (hp : ValidPx e.ds subidx) :
    (tribLoop e idx0 sds0 (e.ds.size + 1) subidx idxds0 path s).isSome = true := by
  obtain ⟨k, hk, hpit⟩ := hr _ hp
  exact (tribLoop_stable e idx0 sds0 k subidx hpit (by omega) (e.ds.size + 1) (e.ds.size + 1) (by omega) (by omega)
    _ _ _).2

theorem step4Update_tot (hw : WCtx e n W) (hr : ∀ p, ValidPx e.ds p → ∃ k, k ≤ e.ds.size ∧ PitAt e.ds k p)
    (h0 : WArr e n W A B cds0 out0) (tr : Tribs) (htr : TrOK n A tr) (s : S4) (idx1 pix1 j : Nat) (ks : List Nat)
    (hks : ∀ k ∈ ks, k < tr.conn.size) (hed : s.outEdited idx1 = false) (hd8 : inD8 s.idx0 idx1 e.ncol = true)
    (hi1 : idx1 < n) (ha1 : A idx1) (hb1 : B idx1) (hp1 : ValidPx e.ds pix1) (hs : P4 e n W A B cds0 out0 s) :
    ∃ s', step4Update e tr s idx1 pix1 j ks = some s' ∧ P4 e n W A B cds0 out0 s' := by
  obtain ⟨hs, hb0⟩ := hs
  -- the main connection
  have hs1 : SOK e n W A B cds0 out0 (s.setDs s.idx0 idx1) :=
    hs.setDs hw _ _ (fun hlt => ⟨hi1, hd8, hs.arr.actO _ hlt hb0⟩)
  have hs2 : SOK e n W A B cds0 out0 ((s.setDs s.idx0 idx1).setOut idx1 pix1) :=
    hs1.setOut hw _ _ (by rw [S4.setDs_outEdited]; exact hed) (fun hlt => ⟨hs1.arr.actC _ hlt ha1, hp1⟩)
  -- the tributaries
  obtain ⟨s1, hfold, hs3, _⟩ := foldlM_tot
    (fun (s : S4) k =>
      if s.outEdited tr.us0[k]! then some s
      else tribLoop e tr.us0[k]! tr.sds0[k]! (e.ds.size + 1) s.out[tr.us0[k]!]! tr.us0[k]! [] s)
    (fun s' => SOK e n W A B cds0 out0 s' ∧ s'.idx0 = s.idx0) ks
    (by
      intro b k hk hb
      split
      · exact ⟨b, rfl, hb⟩
      · obtain ⟨hlt, hak⟩ := htr k (hks k hk)
        have hv : ValidPx e.ds b.out[tr.us0[k]!]! :=
          hb.1.arr.valid_of_link hw _ hlt (hb.1.arr.actC _ hlt hak)
        apply some_of_isSome_of_inv (tribLoop_isSome hr _ _ _ _ _ _ hv)
        intro b' hb'
        have := tribLoop_sok hw _ tr.sds0[k]! hlt hak _ _ _ _ _ _ hb' hv (Or.inl rfl) hb.1
        exact ⟨this.1, this.2.trans hb.2⟩)
    _ ⟨hs2, by rw [S4.setOut_idx0, S4.setDs_idx0]⟩
  unfold step4Update
  rw [hfold]
  dsimp only
  split
  · refine ⟨_, rfl, SOK.unroll h0 ?_, hb1⟩
    exact hs3.congr _ rfl rfl rfl rfl rfl
  · refine ⟨_, rfl, ?_, hb1⟩
    exact hs3.congr _ rfl rfl rfl rfl rfl

theorem step4A_tot (hw : WCtx e n W) (hr : ∀ p, ValidPx e.ds p → ∃ k, k ≤ e.ds.size ∧ PitAt e.ds k p)
    (h0 : WArr e n W A B cds0 out0) (cells pixs : List Nat) (tr : Tribs) (htw : TrW e n A B cells pixs)
    (htr : TrOK n A tr) (s : S4) (j : Nat) (hj : j < pixs.length) (hs : P4 e n W A B cds0 out0 s) :
    ∃ s', step4A e cells pixs tr s j = some s' ∧ P4 e n W A B cds0 out0 s' := by
  obtain ⟨hc1, hc2, hc3, hc4⟩ := htw.ok j hj
  unfold step4A
  split
  · exact ⟨s, rfl, hs⟩
  · split
    · refine ⟨_, rfl, SOK.unroll h0 ?_, hs.2⟩
      exact hs.1.congr _ rfl rfl rfl rfl rfl
    · refine ⟨_, rfl, ?_, hs.2⟩
      exact hs.1.congr _ rfl rfl rfl rfl rfl
    · rename_i ks hact
      obtain ⟨ha1, ha2, ha3⟩ := step4Act_update cells pixs tr _ j ks hact
      exact step4Update_tot hw hr h0 tr htr _ _ _ j ks ha3 ha1 ha2 hc1 hc2 hc3 hc4
        ⟨hs.1.congr _ rfl rfl rfl rfl rfl, hs.2⟩
    · refine ⟨_, rfl, ?_, hs.2⟩
      exact hs.1.congr _ rfl rfl rfl rfl rfl

/-! ### the `while len(bottleneck) > nbottlenecks` -/

/-- pigeonhole: a duplicate-free list of numbers `≤ n` has at most `n + 1` entries -/
theorem nodup_le_length (l : List Nat) (n : Nat) (hn : l.Nodup) (hl : ∀ b ∈ l, b ≤ n) : l.length ≤ n + 1 := by
  have := hn.length_le_of_subset (l₂ := List.range (n + 1)) (fun b hb => List.mem_range.mpr (by have := hl b hb; omega))
  simpa using this

theorem step4_tot (hw : WCtx e n W) (hr : ∀ p, ValidPx e.ds p → ∃ k, k ≤ e.ds.size ∧ PitAt e.ds k p)
    (idx00 : Nat) (hb00 : B idx00) (cells pixs : List Nat) (tr : Tribs) (htw : TrW e n A B cells pixs)
    (htr : TrOK n A tr) :
    ∀ fuel s, WArr e n W A B s.cds s.out → s.bott.Nodup → (∀ b ∈ s.bott, b ≤ n) → n + 2 ≤ fuel + s.bott.length →
      ∃ s', step4 e idx00 cells pixs tr fuel s = some s' ∧ WArr e n W A B s'.cds s'.out ∧
        WArr e n W A B s'.unroll.cds s'.unroll.out := by
  intro fuel
  induction fuel with
  | zero =>
    intro s _ hn hl hf
    have := nodup_le_length _ n hn hl
    omega
  | succ f ih =>
    intro s hs hn hl hf
    have hs0 : P4 e n W A B s.cds s.out
        { s with outEd := [], dsEd := [], idx0 := idx00, j0 := 0, k0 := 0, nextiter := false } :=
      ⟨⟨hs, Rest.start _ rfl rfl, hn, hl⟩, hb00⟩
    obtain ⟨s1, hfold, hs1⟩ := foldlM_tot (step4A e cells pixs tr) (P4 e n W A B s.cds s.out)
      (List.range pixs.length)
      (fun b j hj hb => step4A_tot hw hr hs cells pixs tr htw htr b j (List.mem_range.mp hj) hb) _ hs0
    unfold step4
    simp only [hfold]
    split
    · rename_i hgt
      exact ih s1 hs1.1.arr hs1.1.bn hs1.1.bl (by omega)
    · obtain ⟨_, h1, h2⟩ := hs1.1.rest.unroll
      exact ⟨s1, rfl, hs1.1.arr, by rw [h1, h2]; exact hs⟩

end reloc2

end Pf.C09ihu
