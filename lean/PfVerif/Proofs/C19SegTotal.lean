import PfVerif.Proofs.C19Seg
import PfVerif.Proofs.C19Ok1
/-! Fuel totality of the segment walk of `subgrid.segment_indices` (C19, `streams(idxs_out=...)`): on a
loop-free network the inner `while True` returns within the `nxt.size + 1` steps of fuel the model uses,
in direction "down" (`nxt = idxs_ds`) and in direction "up" (`nxt` an upstream-link array such as
`idxs_us_main`); hence `segmentIndices` never reports fuel exhaustion. Core Lean only. -/
namespace Pf.C19
open Pf

/-- **fuel totality from a measure**: if a measure `μ` strictly decreases along every step the loop can
take inside a set `S` closed under such steps, the walk from a cell of `S` returns as soon as the fuel
exceeds the measure of the start cell -/
theorem segWalk_total_measure (nxt : Array Nat) (outlets : Array Bool) (mask : Option (Array Bool))
    (maxLen : Nat) (μ : Nat → Nat) (S : Nat → Prop)
    (hS : ∀ x len, S x → segStop nxt mask maxLen x len = false → S nxt[x]! ∧ μ nxt[x]! < μ x) :
    ∀ (fuel c : Nat) (acc : List Nat), S c → μ c < fuel →
      ∃ r, segWalk nxt outlets mask maxLen fuel c acc = some r := by
  intro fuel
  induction fuel with
  | zero => intro c acc _ hf; omega
  | succ fuel ih =>
    intro c acc hc hf
    simp only [segWalk]
    by_cases hs : segStop nxt mask maxLen c acc.length = true
    · simp [hs]
    · have hs' : segStop nxt mask maxLen c acc.length = false := by simpa using hs
      simp only [hs', Bool.false_eq_true, if_false]
      by_cases ho : outlets[nxt[c]!]! = true
      · simp [ho]
      · have ho' : outlets[nxt[c]!]! = false := by simpa using ho
        simp only [ho', Bool.false_eq_true, if_false]
        obtain ⟨hSd, hlt⟩ := hS c acc.length hc hs'
        exact ih _ _ hSd (by omega)

/-- a start cell without next cell (outlet pixel outside the network) ends the walk at once -/
theorem segWalk_offnet (nxt : Array Nat) (outlets : Array Bool) (mask : Option (Array Bool))
    (maxLen fuel c : Nat) (acc : List Nat) (h : nxt[c]! = nxt.size) :
    ∃ r, segWalk nxt outlets mask maxLen (fuel + 1) c acc = some r := by
  have hs : segStop nxt mask maxLen c acc.length = true := by
    unfold segStop; simp [h]
  simp [segWalk, hs]

/-- direction "down": the walk along `ds` from a cell of a downstream-first order -/
theorem segWalk_total_down (ds : Array Nat) (seq : List Nat) (htopo : Topo ds seq)
    (hb : ∀ i ∈ seq, i < ds.size) (outlets : Array Bool) (mask : Option (Array Bool)) (maxLen : Nat)
    (c : Nat) (hc : c ∈ seq) (acc : List Nat) :
    ∃ r, segWalk ds outlets mask maxLen (ds.size + 1) c acc = some r := by
  obtain ⟨ht, h1, h2⟩ := htopo.exists_height
  have hlen := length_le_of_nodup_lt htopo.nodup hb
  refine segWalk_total_measure ds outlets mask maxLen (fun x => seq.length - ht x) (· ∈ seq) ?_ _ c acc hc
    (by show seq.length - ht c < ds.size + 1; omega)
  intro x len hx hs
  have hne : ds[x]! ≠ x := (segStop_false hs).2.1
  have hd := htopo.ds_mem x hx
  have := h2 x hx hne
  have := h1 _ hd
  exact ⟨hd, by show seq.length - ht ds[x]! < seq.length - ht x; omega⟩

/-- direction "up": the walk along an upstream-link array `us` of `ds` (per cell the missing value or an
inflowing cell other than the cell itself - what `main_upstream` returns) -/
theorem segWalk_total_up (ds us : Array Nat) (seq : List Nat) (htopo : Topo ds seq)
    (hb : ∀ i ∈ seq, i < ds.size) (hall : ∀ i, i < ds.size → ds[i]! ≠ ds.size → i ∈ seq)
    (hsz : us.size = ds.size)
    (hlink : ∀ c, c < ds.size → us[c]! = ds.size ∨ (us[c]! < ds.size ∧ ds[us[c]!]! = c ∧ us[c]! ≠ c))
    (outlets : Array Bool) (mask : Option (Array Bool)) (maxLen : Nat)
    (c : Nat) (hc : c < ds.size) (acc : List Nat) :
    ∃ r, segWalk us outlets mask maxLen (us.size + 1) c acc = some r := by
  obtain ⟨ht, h1, h2⟩ := htopo.exists_height
  have hlen := length_le_of_nodup_lt htopo.nodup hb
  -- measure: the height of the cell in the order (it strictly decreases going upstream)
  by_cases hnx : us[c]! = us.size
  · exact segWalk_offnet us outlets mask maxLen _ c acc hnx
  · -- `c` has an inflowing cell, so it is a valid cell and lies in the order
    have hstep : ∀ x, x < ds.size → us[x]! ≠ us.size →
        us[x]! < ds.size ∧ us[x]! ∈ seq ∧ x ∈ seq ∧ ht us[x]! < ht x := by
      intro x hx hne
      rcases hlink x hx with h | ⟨hlt, hds, hnex⟩
      · rw [hsz] at hne; exact absurd h hne
      · have hmem : us[x]! ∈ seq := hall _ hlt (by rw [hds]; omega)
        have hxm : x ∈ seq := by have := htopo.ds_mem _ hmem; rwa [hds] at this
        have := h2 _ hmem (by rw [hds]; exact fun h => hnex h.symm)
        rw [hds] at this
        exact ⟨hlt, hmem, hxm, this⟩
    have hcs : c ∈ seq := (hstep c hc hnx).2.2.1
    refine segWalk_total_measure us outlets mask maxLen ht (fun x => x ∈ seq) ?_ _ c acc hcs ?_
    · intro x len hx hs
      have hne : us[x]! ≠ us.size := (segStop_false hs).1
      obtain ⟨_, hm, _, hlt⟩ := hstep x (hb x hx) hne
      exact ⟨hm, hlt⟩
    · have := h1 c hcs
      omega

/-- the outer loop returns when every inner walk does -/
theorem foldlM_seg_total (nxt : Array Nat) (outlets : Array Bool) (mask : Option (Array Bool))
    (maxLen : Nat) :
    ∀ (l : List Nat) (out : List (List Nat)),
      (∀ c ∈ l, c ≠ nxt.size → ∃ r, segWalk nxt outlets mask maxLen (nxt.size + 1) c [c] = some r) →
      ∃ out', l.foldlM (segStep nxt outlets mask maxLen) out = some out' := by
  intro l
  induction l with
  | nil => intro out _; exact ⟨out, rfl⟩
  | cons a l ih =>
    intro out h
    rw [List.foldlM_cons]
    have htl : ∀ c ∈ l, c ≠ nxt.size → ∃ r, segWalk nxt outlets mask maxLen (nxt.size + 1) c [c] = some r :=
      fun c hc => h c (List.mem_cons_of_mem _ hc)
    by_cases ha : a = nxt.size
    · have : segStep nxt outlets mask maxLen out a = some out := by unfold segStep; rw [if_pos ha]
      rw [this]
      exact ih out htl
    · obtain ⟨r, hr⟩ := h a (by simp) ha
      have : segStep nxt outlets mask maxLen out a = some (out ++ segFeatures r) := by
        unfold segStep; rw [if_neg ha, hr]
      rw [this]
      exact ih _ htl

end Pf.C19
