import PfVerif.Model.Core
/-! Soundness of the executable order check `isTopo` (the `topo` flag every C18 op reports on the
order the implementation actually used): it implies the hypotheses `Topo ds seq` and
`∀ i ∈ seq, i < ds.size` of the partition theorems. Core Lean only. -/
namespace Pf

theorem isTopoAux_sound_c18 (ds : Array Nat) : ∀ (l pre : List Nat) (seen : Array Bool),
    seen.size = ds.size → (∀ j, seen[j]! = true ↔ j ∈ pre) → Topo ds pre →
    isTopoAux ds l seen = true → Topo ds (pre ++ l) ∧ ∀ i ∈ l, i < ds.size := by
  intro l
  induction l with
  | nil => intro pre seen _ _ ht _; simp [ht]
  | cons i rest ih =>
    intro pre seen hsz hseen ht h
    simp only [isTopoAux, Bool.and_eq_true, decide_eq_true_eq, Bool.not_eq_true', Bool.or_eq_true,
      beq_iff_eq] at h
    obtain ⟨⟨⟨hi, hns⟩, hd⟩, hrest⟩ := h
    have hnot : i ∉ pre := fun hc => by
      have := (hseen i).2 hc
      rw [hns] at this; cases this
    have hds : ds[i]! = i ∨ ds[i]! ∈ pre := by
      rcases hd with hd | hd
      · exact Or.inl hd
      · exact Or.inr ((hseen _).1 hd.2)
    have ht' : Topo ds (pre ++ [i]) := Topo.snoc ht hnot hds
    have hseen' : ∀ j, (seen.setIfInBounds i true)[j]! = true ↔ j ∈ pre ++ [i] := by
      intro j
      rw [get!_setIfInBounds, List.mem_append, List.mem_singleton]
      by_cases hij : i = j
      · subst hij
        simp [hsz, hi]
      · have hji : ¬ j = i := fun hc => hij hc.symm
        simp [hij, hji, hseen j]
    obtain ⟨h1, h2⟩ := ih (pre ++ [i]) (seen.setIfInBounds i true) (by simp [hsz]) hseen' ht' hrest
    refine ⟨by simpa [List.append_assoc] using h1, ?_⟩
    intro k hk
    rcases List.mem_cons.1 hk with hk | hk
    · subst hk; exact hi
    · exact h2 k hk

/-- the executable order check is sound -/
theorem isTopo_sound (ds : Array Nat) (seq : List Nat) (h : isTopo ds seq = true) :
    Topo ds seq ∧ ∀ i ∈ seq, i < ds.size := by
  have := isTopoAux_sound_c18 ds seq [] (Array.replicate ds.size false) (by simp)
    (fun j => by
      by_cases hj : j < ds.size
      · simp [hj]
      · simp [hj]) Topo.nil h
  simpa using this

end Pf
