import PfVerif.Proofs.C09Trace
import PfVerif.Proofs.C11Total
/-! `ReachesPit` (the hypothesis of the C09 totality theorems) from a downstream-first order (C03). -/
namespace Pf

/-- every cell of a downstream-first order reaches a pit within `ds.size` steps -/
theorem Topo.pitAt_le_size {ds : Array Nat} {seq : List Nat} (h : Topo ds seq) (hb : ∀ i ∈ seq, i < ds.size) :
    ∀ p ∈ seq, ∃ k, k ≤ ds.size ∧ PitAt ds k p := by
  intro p hp
  obtain ⟨k, hk, hpit⟩ := h.reaches_pit p hp
  have hlen : seq.length ≤ (List.range ds.size).length :=
    List.Nodup.length_le_of_subset h.nodup (fun i hi => List.mem_range.2 (hb i hi))
  rw [List.length_range] at hlen
  exact ⟨k, by omega, hpit⟩

end Pf
