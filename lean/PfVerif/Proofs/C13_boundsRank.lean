import PfVerif.Proofs.C13_boundsWalk
/-! `core.rank` with its three inner loops: logging variant = model, all accesses in bounds. Also: the result
of `main_upstream` is an index array. -/
namespace Pf.C13b
open Pf

/-! ### `main_upstream` returns an index array -/

theorem mainUpstream_idxArr (ds : Array Nat) (uparea : Array Int) (upaMin : Int) :
    (mainUpstream ds uparea upaMin).size = ds.size ∧ IdxArr (mainUpstream ds uparea upaMin) := by
  have key : (mainUpstream ds uparea upaMin).size = ds.size ∧
      ∀ i : Nat, (mainUpstream ds uparea upaMin)[i]! ≤ ds.size := by
    unfold mainUpstream
    apply foldl_inv (I := fun st : Array Nat × Array Int => st.1.size = ds.size ∧ ∀ i : Nat, st.1[i]! ≤ ds.size)
    · rintro ⟨um, upa⟩ x hx ⟨h1, h2⟩
      have hx' : x < ds.size := List.mem_range.1 hx
      dsimp only
      split
      · exact ⟨h1, h2⟩
      · split
        · refine ⟨by simp [h1], fun i => ?_⟩
          dsimp only
          rw [get!_setIfInBounds]
          split
          · omega
          · exact h2 i
        · exact ⟨h1, h2⟩
    · refine ⟨by simp, fun i => ?_⟩
      by_cases hi : i < ds.size
      · simp [hi]
      · simp [hi]
  refine ⟨key.1, fun i _ => ?_⟩
  rw [key.1]
  exact key.2 i

/-! ### the two pop loops -/

theorem rankAssignL_fst : ∀ (stack : List Nat) (ranks : Array Int) (rnk : Int) (log : List Acc),
    (rankAssignL ranks stack rnk log).1 = rankAssign ranks stack rnk := by
  intro stack
  induction stack with
  | nil => intro _ _ _; rfl
  | cons i rest ih =>
    intro ranks rnk log
    unfold rankAssignL rankAssign
    dsimp only
    rw [← ih (ranks.setIfInBounds i (rnk + 1)) (rnk + 1) (acc Arr.ranks ranks i :: log)]

theorem rankAssignL_inb : ∀ (stack : List Nat) (ranks : Array Int) (rnk : Int) (log : List Acc),
    (∀ i ∈ stack, i < ranks.size) → InB log →
      (rankAssignL ranks stack rnk log).1.1.size = ranks.size ∧ InB (rankAssignL ranks stack rnk log).2 := by
  intro stack
  induction stack with
  | nil => intro _ _ _ _ hl; exact ⟨rfl, hl⟩
  | cons i rest ih =>
    intro ranks rnk log hst hl
    unfold rankAssignL
    dsimp only
    have := ih (ranks.setIfInBounds i (rnk + 1)) (rnk + 1) (acc Arr.ranks ranks i :: log)
      (fun j hj => by simp only [Array.size_setIfInBounds]; exact hst j (List.mem_cons_of_mem _ hj))
      (by simp only [InB_cons, acc_idx, acc_size, hl, and_true]; exact hst i (List.mem_cons_self ..))
    simpa only [Array.size_setIfInBounds] using this

theorem rankMarkLoopL_fst (ranks : Array Int) (stack : List Nat) (log : List Acc) :
    (rankMarkLoopL ranks stack log).1 = rankMarkLoop ranks stack := by
  unfold rankMarkLoopL rankMarkLoop
  exact foldl_fst _ _ (fun _ _ => rfl) _ _

theorem rankMarkLoopL_inb (ranks : Array Int) (stack : List Nat) (log : List Acc)
    (hst : ∀ i ∈ stack, i < ranks.size) (hl : InB log) :
    (rankMarkLoopL ranks stack log).1.size = ranks.size ∧ InB (rankMarkLoopL ranks stack log).2 := by
  unfold rankMarkLoopL
  apply foldl_inv (I := fun st : Array Int × List Acc => st.1.size = ranks.size ∧ InB st.2)
  · rintro ⟨r, lg⟩ x hx ⟨h1, h2⟩
    dsimp only
    refine ⟨by simp only [Array.size_setIfInBounds]; exact h1, ?_⟩
    simp only [InB_cons, acc_idx, acc_size, h1, h2, and_true]
    exact hst x hx
  · exact ⟨rfl, hl⟩

/-! ### the `while True` walk -/

theorem rankWalkL_fst (ds : Array Nat) (ranks : Array Int) :
    ∀ (fuel idx0 idxds : Nat) (stack : List Nat) (log : List Acc),
      (rankWalkL ds ranks fuel idx0 idxds stack log).map Prod.fst = rankWalk ds ranks fuel idx0 idxds stack := by
  intro fuel
  induction fuel with
  | zero => intro _ _ _ _; rfl
  | succ f ih =>
    intro idx0 idxds stack log
    unfold rankWalkL rankWalk
    dsimp only
    split
    · simp only [Option.map_some, rankAssignL_fst]
    · split
      · simp only [Option.map_some, rankAssignL_fst]
      · split
        · simp only [Option.map_some, rankMarkLoopL_fst]
        · exact ih ..

theorem rankWalkL_inb (ds : Array Nat) (hwf : WF ds) (ranks : Array Int) (hr : ranks.size = ds.size) :
    ∀ (fuel idx0 idxds : Nat) (stack : List Nat) (log : List Acc) (r : (Array Int × Nat) × List Acc),
      idxds < ds.size → ds[idxds]! < ds.size → (∀ i ∈ stack, i < ds.size) → InB log →
      rankWalkL ds ranks fuel idx0 idxds stack log = some r → r.1.1.size = ds.size ∧ InB r.2 := by
  intro fuel
  induction fuel with
  | zero => intro _ _ _ _ _ _ _ _ _ h; simp [rankWalkL] at h
  | succ f ih =>
    intro idx0 idxds stack log r hi hd hst hl h
    unfold rankWalkL at h
    dsimp only at h
    have hl1 : InB (acc Arr.ranks ranks idxds :: log) := by
      simp only [InB_cons, acc_idx, acc_size, hr, hi, hl, and_self]
    have hst' : ∀ i ∈ stack, i < ranks.size := fun i hi => hr ▸ hst i hi
    split at h
    · simp only [Option.some.injEq] at h
      subst h
      have := rankAssignL_inb stack ranks ranks[idxds]! _ hst' hl1
      exact ⟨this.1.trans hr, this.2⟩
    · split at h
      · simp only [Option.some.injEq] at h
        subst h
        have := rankAssignL_inb stack ranks (-1) _ hst' hl1
        exact ⟨this.1.trans hr, this.2⟩
      · split at h
        · simp only [Option.some.injEq] at h
          subst h
          have := rankMarkLoopL_inb ranks stack _ hst' hl1
          exact ⟨this.1.trans hr, this.2⟩
        · refine ih _ _ _ _ r hd ((hwf idxds hi).2 hd) ?_ ?_ h
          · intro i hi'
            rcases List.mem_cons.1 hi' with rfl | h'
            · exact hi
            · exact hst i h'
          · simp only [InB_cons, acc_idx, acc_size, hi, hl1, and_self]

/-! ### the outer loop -/

theorem rankStepL_fst (ds : Array Nat) (st : (Array Int × Nat) × List Acc) (x : Nat) :
    (rankStepL ds st x).map Prod.fst =
      (fun (st : Array Int × Nat) idx0 =>
        let (ranks, n) := st
        if ds[idx0]! = ds.size ∨ ranks[idx0]! ≠ -9999 then some (ranks, n)
        else match rankWalk ds ranks (ds.size + 1) idx0 ds[idx0]! [idx0] with
          | none => none
          | some (r, c) => some (r, n + c)) st.1 x := by
  obtain ⟨⟨ranks, n⟩, log⟩ := st
  unfold rankStepL
  dsimp only
  by_cases h1 : ds[x]! = ds.size
  · rw [if_pos h1, if_pos (Or.inl h1)]; rfl
  · rw [if_neg h1]
    by_cases h2 : ranks[x]! ≠ -9999
    · rw [if_pos h2, if_pos (Or.inr h2)]; rfl
    · rw [if_neg h2, if_neg (by rintro (h | h); exact h1 h; exact h2 h)]
      rw [← rankWalkL_fst ds ranks (ds.size + 1) x ds[x]! [x] (acc Arr.ranks ranks x :: acc Arr.ds ds x :: log)]
      cases rankWalkL ds ranks (ds.size + 1) x ds[x]! [x] (acc Arr.ranks ranks x :: acc Arr.ds ds x :: log) <;> rfl

theorem rankL_fst (ds : Array Nat) : (rankL ds).map Prod.fst = rank ds := by
  unfold rankL rank
  exact foldlM_fst _ _ (rankStepL_fst ds) _ _

theorem rankStepL_inb (ds : Array Nat) (hwf : WF ds) (st r : (Array Int × Nat) × List Acc) (x : Nat) (hx : x < ds.size)
    (hI : st.1.1.size = ds.size ∧ InB st.2) (h : rankStepL ds st x = some r) : r.1.1.size = ds.size ∧ InB r.2 := by
  obtain ⟨hs, hl⟩ := hI
  unfold rankStepL at h
  dsimp only at h
  have hl1 : InB (acc Arr.ds ds x :: st.2) := by simp only [InB_cons, acc_idx, acc_size, hx, hl, and_self]
  have hl2 : InB (acc Arr.ranks st.1.1 x :: acc Arr.ds ds x :: st.2) := by
    simp only [InB_cons, acc_idx, acc_size, hs, hx, hl, and_self]
  split at h
  · simp only [Option.some.injEq] at h
    subst h; exact ⟨hs, hl1⟩
  · rename_i hd
    split at h
    · simp only [Option.some.injEq] at h
      subst h; exact ⟨hs, hl2⟩
    · have hdlt : ds[x]! < ds.size := wf_ds_lt hwf hx hd
      split at h
      · simp at h
      · rename_i r' hw
        simp only [Option.some.injEq] at h
        subst h
        exact rankWalkL_inb ds hwf st.1.1 hs _ _ _ _ _ r' hdlt ((hwf x hx).2 hdlt)
          (fun i hi => by rcases List.mem_singleton.1 hi with rfl; exact hx) hl2 hw

theorem rankL_inb (ds : Array Nat) (hwf : WF ds) (r : (Array Int × Nat) × List Acc) (h : rankL ds = some r) :
    r.1.1.size = ds.size ∧ InB r.2 := by
  unfold rankL at h
  refine foldlM_inv (rankStepL ds) (fun st => st.1.1.size = ds.size ∧ InB st.2) _ ?_ _ r ?_ h
  · intro b x b' hx hI hb
    exact rankStepL_inb ds hwf b b' x (List.mem_range.1 hx) hI hb
  · simp

/-! ### `idxs_seq`: the logging variant is the model -/

theorem seqWalkLoopL_fst (ds : Array Nat) : ∀ (fuel : Nat) (q acc0 : List Nat) (log : List Acc),
    (seqWalkLoopL ds fuel q acc0 log).1 = seqWalkLoop ds fuel q acc0 := by
  intro fuel
  induction fuel with
  | zero => intro q acc0 log; simp [seqWalkLoopL, seqWalkLoop]
  | succ f ih =>
    intro q acc0 log
    cases q with
    | nil => simp [seqWalkLoopL, seqWalkLoop]
    | cons c rest =>
      unfold seqWalkLoopL seqWalkLoop
      exact ih ..

end Pf.C13b
