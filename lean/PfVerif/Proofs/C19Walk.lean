import PfVerif.Proofs.C19Cert
/-! Algorithm-level lemmas about the model of `streams.streams` (C19): what one inner walk returns,
and the invariant "every appended feature satisfies P" of the outer loop. Core Lean only. -/
namespace Pf.C19
open Pf

/-- `WalkFrom ds nup i tail pit last`: `tail` are the vertices the inner loop appends after `i` -/
inductive WalkFrom (ds : Array Nat) (nup : Array Int) : Nat → List Nat → Bool → Nat → Prop
  | pit (i : Nat) : ds[i]! = i → WalkFrom ds nup i [] true i
  | conf (i : Nat) : ds[i]! ≠ i → nup[ds[i]!]! > 1 → WalkFrom ds nup i [ds[i]!] false ds[i]!
  | step (i : Nat) (tail : List Nat) (pit : Bool) (last : Nat) : ds[i]! ≠ i → ¬ nup[ds[i]!]! > 1 →
      WalkFrom ds nup ds[i]! tail pit last → WalkFrom ds nup i (ds[i]! :: tail) pit last

theorem streamWalk_spec (ds : Array Nat) (nup : Array Int) :
    ∀ (fuel idx0 : Nat) (acc : List Nat) (done : Array Bool) (w : WalkRes),
      streamWalk ds nup fuel idx0 acc done = some w →
      ∃ tail, WalkFrom ds nup idx0 tail w.pit w.last ∧ w.idxs = acc.reverse ++ tail := by
  intro fuel
  induction fuel with
  | zero => intro idx0 acc done w h; simp [streamWalk] at h
  | succ fuel ih =>
    intro idx0 acc done w h
    simp only [streamWalk] at h
    by_cases hp : ds[idx0]! = idx0
    · simp only [hp, beq_self_eq_true, if_true, Bool.or_true, Option.some.injEq] at h
      subst h
      exact ⟨[], WalkFrom.pit idx0 hp, by simp⟩
    · have hb : (ds[idx0]! == idx0) = false := by simpa using hp
      simp only [hb, Bool.or_false, Bool.false_eq_true, if_false, decide_eq_true_eq] at h
      by_cases hc : nup[ds[idx0]!]! > 1
      · simp only [hc, if_true, Option.some.injEq] at h
        subst h
        exact ⟨[ds[idx0]!], WalkFrom.conf idx0 hp hc, by simp⟩
      · simp only [hc, if_false] at h
        obtain ⟨tail, hw, hi⟩ := ih _ _ _ w h
        exact ⟨ds[idx0]! :: tail, WalkFrom.step idx0 tail _ _ hp hc hw, by simp [hi]⟩

variable {ds : Array Nat} {nup : Array Int}

/-- consecutive vertices of a walk are linked cells -/
theorem WalkFrom.linked {i : Nat} {tail : List Nat} {pit : Bool} {last : Nat}
    (h : WalkFrom ds nup i tail pit last) : ∀ p ∈ pairsOf (i :: tail), ds[p.1]! = p.2 ∧ p.1 ≠ p.2 := by
  induction h with
  | pit i _ => intro p hp; simp at hp
  | conf i hne _ =>
    intro p hp
    rw [pairsOf_cons_cons] at hp
    simp at hp
    subst hp
    exact ⟨rfl, fun h => hne h.symm⟩
  | step i tail pit last hne _ _ ih =>
    intro p hp
    rw [pairsOf_cons_cons] at hp
    rcases List.mem_cons.mp hp with hp | hp
    · subst hp; exact ⟨rfl, fun h => hne h.symm⟩
    · exact ih p hp

/-- a walk ends at a pit (`pit = true`) or at a cell with more than one inflowing stream cell -/
theorem WalkFrom.ends {i : Nat} {tail : List Nat} {pit : Bool} {last : Nat}
    (h : WalkFrom ds nup i tail pit last) :
    (i :: tail).getLast? = some last ∧
      (if pit = true then ds[last]! = last else nup[last]! > 1) := by
  induction h with
  | pit i hp => simp [hp]
  | conf i _ hc => simp [hc]
  | step i tail pit last _ _ _ ih =>
    refine ⟨?_, ih.2⟩
    rw [List.getLast?_cons_cons]
    exact ih.1

/-- no interior vertex of a walk is a confluence -/
theorem WalkFrom.interior {i : Nat} {tail : List Nat} {pit : Bool} {last : Nat}
    (h : WalkFrom ds nup i tail pit last) : ∀ v ∈ interior (i :: tail), ¬ nup[v]! > 1 := by
  induction h with
  | pit i _ => intro v hv; simp [Pf.interior] at hv
  | conf i _ _ => intro v hv; simp [Pf.interior] at hv
  | step i tail pit last _ hc hw ih =>
    intro v hv
    cases tail with
    | nil => simp [Pf.interior] at hv
    | cons y r =>
      simp only [Pf.interior, List.tail_cons] at hv ih
      rw [List.dropLast_cons_cons] at hv
      rcases List.mem_cons.mp hv with hv | hv
      · subst hv; exact hc
      · exact ih v hv

/-! ### outer loop -/

/-- if every feature appended for a finished walk satisfies `P`, every feature of the result does -/
theorem foldlM_streams_forall (ds : Array Nat) (nup : Array Int) (mask : Option (Array Bool))
    (maxLen : Nat) (P : List Nat → Prop)
    (hstep : ∀ (idx0 : Nat) (done : Array Bool) (w : WalkRes),
      streamWalk ds nup (ds.size + 1) idx0 [idx0] done = some w → ∀ f ∈ walkFeatures w maxLen, P f) :
    ∀ (l : List Nat) (st st' : List (List Nat) × Array Bool),
      l.foldlM (streamsStep ds nup mask maxLen) st = some st' →
      (∀ f ∈ st.1, P f) → ∀ f ∈ st'.1, P f := by
  intro l
  induction l with
  | nil =>
    intro st st' h hst
    simp only [List.foldlM_nil] at h
    cases h
    exact hst
  | cons a l ih =>
    intro st st' h hst
    rw [List.foldlM_cons] at h
    cases hs : streamsStep ds nup mask maxLen st a with
    | none => rw [hs] at h; cases h
    | some st1 =>
      rw [hs] at h
      refine ih st1 st' h ?_
      unfold streamsStep at hs
      split at hs
      · cases hs; exact hst
      · split at hs
        · cases hs
        · rename_i w hw
          cases hs
          intro f hf
          rcases List.mem_append.mp hf with hf | hf
          · exact hst f hf
          · exact hstep a st.2 w hw f hf

theorem streamsModel_forall (ds : Array Nat) (seq : List Nat) (mask : Option (Array Bool))
    (maxLen : Nat) (P : List Nat → Prop)
    (hstep : ∀ (idx0 : Nat) (done : Array Bool) (w : WalkRes),
      streamWalk ds (upstreamCount ds mask) (ds.size + 1) idx0 [idx0] done = some w →
      ∀ f ∈ walkFeatures w maxLen, P f)
    (feats : List (List Nat)) (h : streamsModel ds seq mask maxLen = some feats) :
    ∀ f ∈ feats, P f := by
  unfold streamsModel at h
  rw [Option.map_eq_some_iff] at h
  obtain ⟨st', hst', rfl⟩ := h
  exact foldlM_streams_forall ds _ mask maxLen P hstep _ _ st' hst' (by simp)

/-- a piece of a split stream only contains links of that stream -/
theorem pairs_of_piece {idxs p : List Nat} {m : Nat} (hp : p ∈ splitPieces idxs m) :
    ∀ q ∈ pairsOf p, q ∈ pairsOf idxs := by
  intro q hq
  rw [← splitPieces_pairs idxs m, List.mem_flatMap]
  exact ⟨p, hp, hq⟩

end Pf.C19
