import PfVerif.Proofs.C19Ok4
import PfVerif.Proofs.C03Topo
/-! Second stage for C19: one walk of the outer loop of `streams.streams` preserves the invariant.
Core Lean only. -/
namespace Pf.C19
open Pf

theorem mem_of_mem_interior {L : List Nat} {v : Nat} (h : v ∈ interior L) : v ∈ L := by
  unfold interior at h
  exact List.mem_of_mem_tail ((List.dropLast_sublist _).subset h)

theorem mem_of_head? {L : List Nat} {s : Nat} (h : L.head? = some s) : s ∈ L := by
  cases L with
  | nil => simp at h
  | cons x r => simp at h; simp [h]

theorem inv_walk {ds : Array Nat} {mask : Option (Array Bool)} {m : Nat} {pre : List Nat} {s : Nat}
    {st : List (List Nat) × Array Bool} {w : WalkRes}
    (hcl : dsClosed ds mask = true) (htopo : Topo ds (pre ++ [s])) (hb : ∀ i ∈ pre ++ [s], i < ds.size)
    (h : Inv ds mask m (pre ++ [s]) st) (hnd : st.2[s]! = false) (hm : maskAt mask s = true)
    (hw : streamWalk ds (upstreamCount ds mask) (ds.size + 1) s [s] st.2 = some w) :
    Inv ds mask m pre (st.1 ++ walkFeatures w m, w.done) := by
  obtain ⟨hpreT, hsnot, hsds⟩ := htopo.snoc_inv
  have hdsmem := Topo.ds_mem hpreT
  have hdsmem' := Topo.ds_mem htopo
  have hsmem : s ∈ pre ++ [s] := by simp
  have hall : ∀ x ∈ pre ++ [s], ds[x]! ≠ x → ds[x]! ∈ pre := by
    intro x hx hne
    rcases List.mem_append.mp hx with hx | hx
    · exact hdsmem x hx
    · simp at hx; subst hx
      rcases hsds with h1 | h1
      · exact absurd h1 hne
      · exact h1
  have hvalid : ∀ x ∈ pre ++ [s], isValid ds x = true := by
    intro x hx
    have h1 := hb x hx
    have h2 := hb _ (hdsmem' x hx)
    simp only [isValid, Bool.and_eq_true, decide_eq_true_eq, bne_iff_ne, ne_eq]
    exact ⟨h1, by omega⟩
  have hsS : inStream ds mask s = true := by
    simp [inStream, hvalid s hsmem, hm]
  obtain ⟨tail, marked, hW, hidx, hsz, hdone⟩ := streamWalk_specM ds _ _ s [s] st.2 w hw
  have hidx' : w.idxs = s :: tail := by simpa using hidx
  have hWF := hW.toWalkFrom
  have hlink := hWF.linked
  have hends := hWF.ends
  have hintr := hWF.interior
  have hne : ∀ q ∈ pairsOf w.idxs, q.1 ≠ q.2 := by rw [hidx']; exact fun q hq => (hlink q hq).2
  have hNle : ∀ d ∈ pre ++ [s], ¬ (upstreamCount ds mask)[d]! > 1 → nupM ds mask d ≤ 1 := by
    intro d hd hn
    have h1 := nup_gt_iff (mask := mask) (hvalid d hd)
    apply Classical.byContradiction
    intro hc
    exact hn (h1.mpr (by omega))
  -- every flagged cell was a not yet flagged stream cell of the order
  have hP : ∀ a ∈ marked, a ∈ pre ++ [s] ∧ inStream ds mask a = true ∧ st.2[a]! = false := by
    refine hW.propagate (fun a => a ∈ pre ++ [s] ∧ inStream ds mask a = true ∧ st.2[a]! = false)
      ⟨hsmem, hsS, hnd⟩ ?_
    intro u ⟨hu1, hu2, hu3⟩ hune hnc
    have hdpre := hall u hu1 hune
    have hdmem : ds[u]! ∈ pre ++ [s] := List.mem_append_left _ hdpre
    refine ⟨hdmem, closed_step hcl hu2, ?_⟩
    cases hdd : st.2[ds[u]!]! with
    | false => rfl
    | true =>
      exfalso
      obtain ⟨u', hu', hds', hne'⟩ := h.good _ hdd hdmem
      have := unique_inflow (hNle _ hdmem hnc) (h.strm u' hu') hu2 hds' rfl hne' (fun h => hune h.symm)
      rw [this, hu3] at hu'
      cases hu'
  have hd : ∀ a : Nat, w.done[a]! = true ↔ (st.2[a]! = true ∨ a ∈ marked) := by
    intro a
    rw [hdone a]
    constructor
    · rintro (h1 | h1)
      · exact Or.inl h1
      · exact Or.inr h1.1
    · rintro (h1 | h1)
      · exact Or.inl h1
      · exact Or.inr ⟨h1, by rw [h.size]; exact hb a (hP a h1).1⟩
  obtain ⟨ht, _, hht⟩ := htopo.exists_height
  have hmnd : marked.Nodup :=
    (hW.nodup ht (· ∈ pre ++ [s]) (fun x hx hxne => ⟨hdsmem' x hx, hht x hx hxne⟩) hsmem).1
  have hsrc := hW.sources
  rw [← hidx'] at hsrc
  have hmemA : ∀ a ∈ (pairsOf w.idxs).map (·.1), a ∈ marked := by
    intro a ha; rw [← hsrc]; exact List.mem_append_left _ ha
  have hmemB : ∀ a ∈ (if w.pit = true then [w.last] else []), a ∈ marked := by
    intro a ha; rw [← hsrc]; exact List.mem_append_right _ ha
  have hndAB := hsrc ▸ hmnd
  rw [List.nodup_append] at hndAB
  have hvert : ∀ x ∈ s :: tail, x ∈ pre ++ [s] ∧ inStream ds mask x = true :=
    hW.all_mem (fun x => x ∈ pre ++ [s] ∧ inStream ds mask x = true)
      (fun x hx _ => ⟨hdsmem' x hx.1, closed_step hcl hx.2⟩) ⟨hsmem, hsS⟩
  -- the start of the walk is a headwater or a confluence
  have hstart : nupM ds mask s ≠ 1 := by
    intro h1
    obtain ⟨u, hu, hus, hune⟩ := exists_inflow (ds := ds) (mask := mask) (a := s) (by omega)
    have hunot : u ∉ pre ++ [s] := by
      intro hmem
      rcases List.mem_append.mp hmem with hmem | hmem
      · exact hsnot (hus ▸ hdsmem u hmem)
      · simp at hmem; exact hune hmem
    have h2 := h.proc u hu hunot
    have h3 := h.cont u h2 (by rw [hus]; exact fun h => hune h.symm) (by rw [hus]; omega)
    rw [hus, hnd] at h3
    cases h3
  refine ⟨hsz.trans h.size, ?_, ?_, ?_, ?_, ?_, ?_, ?_, ?_, ?_, ?_, ?_⟩
  · -- strm
    intro a ha
    rcases (hd a).mp ha with h1 | h1
    · exact h.strm a h1
    · exact (hP a h1).2.1
  · -- good
    intro a ha hap
    rcases (hd a).mp ha with h1 | h1
    · obtain ⟨u, hu, h2, h3⟩ := h.good a h1 (List.mem_append_left _ hap)
      exact ⟨u, (hd u).mpr (Or.inl hu), h2, h3⟩
    · rcases hW.entered a h1 with rfl | ⟨u, hu, h2, h3⟩
      · exact absurd hap hsnot
      · exact ⟨u, (hd u).mpr (Or.inr hu), h2, h3⟩
  · -- cont
    intro u hu hune hN
    rcases (hd u).mp hu with h1 | h1
    · exact (hd _).mpr (Or.inl (h.cont u h1 hune hN))
    · rcases hW.continues u h1 with h2 | h2 | h2
      · exact absurd h2 hune
      · have := (nup_gt_iff (mask := mask) (hvalid _ (hdsmem' u (hP u h1).1))).mp h2
        omega
      · exact (hd _).mpr (Or.inr h2)
  · -- proc
    intro u hu hun
    by_cases hus : u = s
    · subst hus; exact (hd u).mpr (Or.inr hW.head_mem)
    · exact (hd u).mpr (Or.inl (h.proc u hu (by simp [hun, hus])))
  · -- nodupA
    show (srcA (st.1 ++ walkFeatures w m)).Nodup
    rw [srcA_append_walk _ _ _ hne, List.nodup_append]
    refine ⟨h.nodupA, hndAB.1, ?_⟩
    intro a ha b hb' hab
    have h1 := h.doneA a ha
    have h2 := (hP b (hmemA b hb')).2.2
    rw [hab, h2] at h1
    cases h1
  · -- nodupB
    show (srcB (st.1 ++ walkFeatures w m)).Nodup
    rw [srcB_append_walk _ _ _ hne, List.nodup_append]
    refine ⟨h.nodupB, hndAB.2.1, ?_⟩
    intro a ha b hb' hab
    have h1 := h.doneB a ha
    have h2 := (hP b (hmemB b hb')).2.2
    rw [hab, h2] at h1
    cases h1
  · -- doneA
    intro a ha
    have ha' : a ∈ srcA (st.1 ++ walkFeatures w m) := ha
    rw [srcA_append_walk _ _ _ hne] at ha'
    rcases List.mem_append.mp ha' with h1 | h1
    · exact (hd a).mpr (Or.inl (h.doneA a h1))
    · exact (hd a).mpr (Or.inr (hmemA a h1))
  · -- doneB
    intro a ha
    have ha' : a ∈ srcB (st.1 ++ walkFeatures w m) := ha
    rw [srcB_append_walk _ _ _ hne] at ha'
    rcases List.mem_append.mp ha' with h1 | h1
    · exact (hd a).mpr (Or.inl (h.doneB a h1))
    · exact (hd a).mpr (Or.inr (hmemB a h1))
  · -- src
    intro a ha
    show (ds[a]! ≠ a → a ∈ srcA (st.1 ++ walkFeatures w m)) ∧ (ds[a]! = a → a ∈ srcB (st.1 ++ walkFeatures w m))
    rw [srcA_append_walk _ _ _ hne, srcB_append_walk _ _ _ hne]
    rcases (hd a).mp ha with h1 | h1
    · exact ⟨fun h2 => List.mem_append_left _ ((h.src a h1).1 h2),
        fun h2 => List.mem_append_left _ ((h.src a h1).2 h2)⟩
    · rw [← hsrc] at h1
      rcases List.mem_append.mp h1 with h2 | h2
      · have h2' := h2
        rw [List.mem_map] at h2'
        obtain ⟨q, hq, hqa⟩ := h2'
        rw [hidx'] at hq
        have hl := hlink q hq
        rw [hqa] at hl
        refine ⟨fun _ => List.mem_append_right _ h2, fun hp => ?_⟩
        exact absurd (hl.1 ▸ hp).symm hl.2
      · by_cases hpit : w.pit = true
        · have hal : a = w.last := by simpa [hpit] using h2
          have hpl : ds[w.last]! = w.last := by simpa [hpit] using hends.2
          refine ⟨fun hne' => absurd (hal ▸ hpl) hne', fun _ => List.mem_append_right _ h2⟩
        · simp [hpit] at h2
  · -- ends
    intro f hf
    have hf' : f ∈ streamFeats (st.1 ++ walkFeatures w m) := hf
    show EndsP ds mask m (streamFeats (st.1 ++ walkFeatures w m)) f
    rw [streamFeats_append, streamFeats_walk _ _ hne] at hf' ⊢
    rcases List.mem_append.mp hf' with h1 | h1
    · exact (h.ends f h1).mono (fun g hg => List.mem_append_left _ hg)
    · have hidne : w.idxs ≠ [] := by rw [hidx']; simp
      obtain ⟨s', e, h2, h3, h4, h5⟩ := splitPieces_ends w.idxs m hidne f h1
      obtain ⟨a, b, hfe⟩ := mem_splitPieces h1
      have hs'f : s' ∈ w.idxs := by
        have := mem_of_head? h2
        rw [hfe] at this
        exact List.mem_of_mem_drop (List.mem_of_mem_take this)
      refine ⟨s', e, h2, h3, (hvert s' (hidx' ▸ hs'f)).2, ?_, ?_⟩
      · rcases h4 with h4 | ⟨hm0, g, hg, h4⟩
        · left
          rw [hidx'] at h4
          simp at h4
          rw [← h4]; exact hstart
        · exact Or.inr ⟨hm0, g, List.mem_append_right _ hg, h4⟩
      · rcases h5 with h5 | ⟨hm0, g, hg, h5⟩
        · rw [hidx', hends.1] at h5
          simp at h5
          subst h5
          by_cases hpit : w.pit = true
          · exact Or.inr (Or.inl (by simpa [hpit] using hends.2))
          · have hgt : (upstreamCount ds mask)[w.last]! > 1 := by simpa [hpit] using hends.2
            have hlm : w.last ∈ s :: tail := by
              have := hends.1
              exact List.mem_of_getLast? this
            exact Or.inl ((nup_gt_iff (mask := mask) (hvalid _ (hvert _ hlm).1)).mp hgt)
        · exact Or.inr (Or.inr ⟨hm0, g, List.mem_append_right _ hg, h5⟩)
  · -- intr
    intro f hf
    have hf' : f ∈ streamFeats (st.1 ++ walkFeatures w m) := hf
    rw [streamFeats_append, streamFeats_walk _ _ hne] at hf'
    rcases List.mem_append.mp hf' with h1 | h1
    · exact h.intr f h1
    · intro v hv
      have hvi := interior_piece h1 v hv
      rw [hidx'] at hvi
      exact hNle v (hvert v (mem_of_mem_interior hvi)).1 (hintr v hvi)

end Pf.C19
