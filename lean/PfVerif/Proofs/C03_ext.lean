import PfVerif.Model.C03_ext
import PfVerif.Proofs.C01
/-! Lemmas for the C03 extension: the dictionary of `get_loc_idx`, write-once folds, sentinel arithmetic,
outlet filters. Core Lean only. -/
namespace Pf.C03x
open Pf Pf.Fd

/-! ### the dictionary -/

theorem dict_fold (f : Nat → Int) (l : List Nat) (acc : List (Int × Nat)) :
    l.foldl (fun m i => dictSet m (f i) i) acc = (l.map fun i => (f i, i)).reverse ++ acc := by
  induction l generalizing acc with
  | nil => simp
  | cons a l _ => simp [List.foldl_cons, dictSet]

theorem idxMap_eq (ids : Array Int) :
    idxMap ids = ((List.range ids.size).reverse.map fun i => (ids[i]!, i)) := by
  unfold idxMap
  rw [dict_fold (fun i => ids[i]!)]
  simp [List.map_reverse]

theorem lookup_map (f : Nat → Int) (k : Int) (l : List Nat) :
    List.lookup k (l.map fun i => (f i, i)) = l.find? fun i => k == f i := by
  induction l with
  | nil => simp
  | cons a l ih =>
    simp only [List.map_cons, List.lookup_cons, List.find?_cons, ih]

theorem dictGet_idxMap (ids : Array Int) (k : Int) (d : Nat) :
    dictGet (idxMap ids) k d = (rowOf ids k).getD d := by
  unfold dictGet rowOf
  rw [idxMap_eq, lookup_map (fun i => ids[i]!)]
  cases List.find? (fun j => k == ids[j]!) (List.range ids.size).reverse <;> rfl

/-! ### a fold that writes every position once -/

theorem foldl_set_inv (g : Nat → Nat) (n : Nat) (init : Array Nat) (h : init.size = n) :
    ∀ k, k ≤ n →
      ((List.range k).foldl (fun out i => out.setIfInBounds i (g i)) init).size = n ∧
      (∀ i, i < k → ((List.range k).foldl (fun out i => out.setIfInBounds i (g i)) init)[i]! = g i) := by
  intro k
  induction k with
  | zero => intro _; exact ⟨by simpa using h, fun i hi => absurd hi (Nat.not_lt_zero i)⟩
  | succ k ih =>
    intro hk
    obtain ⟨hs, hv⟩ := ih (Nat.le_of_succ_le hk)
    rw [List.range_succ, List.foldl_append]
    simp only [List.foldl_cons, List.foldl_nil]
    refine ⟨by simpa using hs, ?_⟩
    intro i hi
    rw [get!_setIfInBounds]
    by_cases hik : k = i
    · subst hik
      have : k < ((List.range k).foldl (fun out i => out.setIfInBounds i (g i)) init).size := by rw [hs]; exact hk
      simp [this]
    · simp only [hik, false_and, if_false]
      exact hv i (by omega)

theorem foldl_set_range (g : Nat → Nat) (n : Nat) (init : Array Nat) (h : init.size = n) :
    (List.range n).foldl (fun out i => out.setIfInBounds i (g i)) init = ((List.range n).map g).toArray := by
  obtain ⟨hs, hv⟩ := foldl_set_inv g n init h n (Nat.le_refl n)
  apply array_ext_get! (by simp [hs])
  intro i hi
  rw [hs] at hi
  rw [hv i hi]
  simp [hi]

theorem getLocIdx_eq_spec' (ids dsids : Array Int) (h : dsids.size = ids.size) :
    getLocIdx ids dsids = specLocIdx ids dsids := by
  unfold getLocIdx specLocIdx
  simp only [h]
  rw [foldl_set_range (fun i => dictGet (idxMap ids) dsids[i]! i) ids.size _ (by simp)]
  congr 1
  apply List.map_congr_left
  intro i _
  exact dictGet_idxMap ids _ i

theorem specLocIdx_size (ids dsids : Array Int) : (specLocIdx ids dsids).size = ids.size := by
  simp [specLocIdx]

theorem specLocIdx_get (ids dsids : Array Int) (i : Nat) (hi : i < ids.size) :
    (specLocIdx ids dsids)[i]! = (rowOf ids dsids[i]!).getD i := by
  simp [specLocIdx, hi]

/-- the row found for an id holds that id, is in range and is the last such row -/
theorem rowOf_some {ids : Array Int} {k : Int} {j : Nat} (h : rowOf ids k = some j) :
    j < ids.size ∧ ids[j]! = k ∧ ∀ j', j' < ids.size → ids[j']! = k → j' ≤ j := by
  unfold rowOf at h
  have hp := List.find?_some h
  have hm := List.mem_of_find?_eq_some h
  simp only [beq_iff_eq] at hp
  simp only [List.mem_reverse, List.mem_range] at hm
  refine ⟨hm, hp.symm, ?_⟩
  intro j' hj' hk
  rcases Nat.lt_or_ge j j' with hlt | hge
  · exfalso
    rw [List.find?_eq_some_iff_append] at h
    obtain ⟨_, as, bs, hsplit, hall⟩ := h
    -- j' > j lies in `as` (the part before j in the reversed range)
    have hj'mem : j' ∈ (List.range ids.size).reverse := by simp [hj']
    rw [hsplit] at hj'mem
    have hsorted : ((List.range ids.size).reverse).Pairwise (· > ·) := by
      rw [List.pairwise_reverse]
      exact List.pairwise_lt_range
    rw [hsplit] at hsorted
    rcases List.mem_append.mp hj'mem with hin | hin
    · have := hall j' hin
      simp [hk] at this
    · rcases List.mem_cons.mp hin with heq | hin'
      · omega
      · have h1 := (List.pairwise_append.mp hsorted).2.1
        have h2 := (List.pairwise_cons.mp h1).1 j' hin'
        omega
  · exact hge

theorem rowOf_none {ids : Array Int} {k : Int} (h : rowOf ids k = none) :
    ∀ j, j < ids.size → ids[j]! ≠ k := by
  unfold rowOf at h
  rw [List.find?_eq_none] at h
  intro j hj hk
  have := h j (by simp [hj])
  simp [hk] at this

theorem distinctB_iff' (ids : Array Int) : distinctB ids = true ↔ Distinct ids := by
  simp only [distinctB, List.all_eq_true, List.mem_range, Bool.or_eq_true, Bool.not_eq_true',
    beq_eq_false_iff_ne, ne_eq, beq_iff_eq, Distinct]
  constructor
  · intro h i j hi hj he
    rcases h i hi j hj with h1 | h1
    · exact absurd he h1
    · exact h1
  · intro h i hi j hj
    by_cases he : ids[i]! = ids[j]!
    · exact Or.inr (h i j hi hj he)
    · exact Or.inl he

/-! ### sentinels -/

theorem canon_size (d : Dtype) (raw : Array Int) : (canon d raw).size = raw.size := by simp [canon]
theorem maskRaw_size (d : Dtype) (raw : Array Int) : (maskRaw d raw).size = raw.size := by simp [maskRaw]

theorem canon_get (d : Dtype) (raw : Array Int) (i : Nat) (hi : i < raw.size) :
    (canon d raw)[i]! = if raw[i]! = mvSel d then raw.size else raw[i]!.toNat := by
  simp [canon, hi]

theorem maskRaw_get (d : Dtype) (raw : Array Int) (i : Nat) (hi : i < raw.size) :
    (maskRaw d raw)[i]! = (raw[i]! != mvSel d) := by
  simp [maskRaw, hi]

/-! ### pits -/

theorem mem_pitIndices (ds : Array Nat) (p : Nat) : p ∈ pitIndices ds ↔ (p < ds.size ∧ ds[p]! = p) := by
  simp [pitIndices]

theorem pitIndices_eq_pitsOf (ds : Array Nat) : pitIndices ds = Spec.pitsOf ds := rfl

/-! ### outlets -/

open Spec in
/-- filtering the self-draining cells of the declarative graph by "carries an explicit pit code" gives
exactly the cells whose reading is `pit` -/
theorem outlets_generic (nrow ncol : Nat) (read : Nat → Code) (pv : Nat → Bool)
    (hpv : ∀ i, i < nrow * ncol → (pv i = true ↔ read i = .pit)) :
    (pitsOf (graph nrow ncol read)).filter pv = specOutlets nrow ncol read := by
  unfold pitsOf specOutlets
  rw [graph_size, List.filter_filter]
  apply List.filter_congr
  intro i hi
  have hi' : i < nrow * ncol := by simpa using hi
  rw [graph_get _ _ _ _ hi']
  rw [Bool.eq_iff_iff]
  simp only [Bool.and_eq_true, beq_iff_eq, hpv i hi']
  constructor
  · exact fun h => h.1
  · intro h
    exact ⟨h, by simp [dsOf, h]⟩

open Spec in
/-- the remaining pits are the cells with a direction code that cannot be followed -/
theorem edge_generic (nrow ncol : Nat) (read : Nat → Code) (pv : Nat → Bool)
    (hpv : ∀ i, i < nrow * ncol → (pv i = true ↔ read i = .pit)) :
    (pitsOf (graph nrow ncol read)).filter (fun i => !pv i) = specEdgePits nrow ncol read := by
  unfold pitsOf specEdgePits
  rw [graph_size, List.filter_filter]
  apply List.filter_congr
  intro i hi
  have hi' : i < nrow * ncol := by simpa using hi
  rw [graph_get _ _ _ _ hi']
  rw [Bool.eq_iff_iff]
  have hp := hpv i hi'
  cases hr : read i with
  | nodata =>
    have : pv i = false := by
      cases h : pv i
      · rfl
      · rw [hp.1 h] at hr; cases hr
    have hne : nrow * ncol ≠ i := by omega
    simp [dsOf, hr, this, hne]
  | pit =>
    have : pv i = true := hp.2 hr
    simp [this]
  | to r c =>
    have : pv i = false := by
      cases h : pv i
      · rfl
      · rw [hp.1 h] at hr; cases hr
    simp only [this, Bool.not_false, Bool.true_and, dsOf, hr]
    by_cases hc : (inRaster nrow ncol r c && read (cellIdx ncol r c) != Code.nodata) = true
    · simp only [hc, if_true, Bool.not_true, Bool.false_or]
    · have hc' : (inRaster nrow ncol r c && read (cellIdx ncol r c) != Code.nodata) = false := by simpa using hc
      simp [hc']

theorem specOutlets_congr {nrow ncol : Nat} {read read' : Nat → Spec.Code}
    (h : ∀ j, j < nrow * ncol → read j = read' j) : specOutlets nrow ncol read = specOutlets nrow ncol read' := by
  unfold specOutlets
  apply List.filter_congr
  intro i hi
  rw [h i (by simpa using hi)]

end Pf.C03x
