import PfVerif.Model.C08
import PfVerif.Proofs.C04_fn
import PfVerif.Generated.Sweeps2
/-! Bridging lemmas for the extension `C08_fn`: the generated kernels of `Generated/Sweeps2.lean` store the stream orders
in `Array Int` (value arrays of the translator are unbounded integers), the hand-written models of `Model/C08.lean` in
`Array Nat`; `toI` is the embedding. Core Lean only. -/
namespace Pf.Sw2Bridge
open Pf

/-- a `Nat` array read as an `Int` array -/
def toI (a : Array Nat) : Array Int := a.map Int.ofNat

@[simp] theorem toI_size (a : Array Nat) : (toI a).size = a.size := by simp [toI]

theorem toI_get (a : Array Nat) (i : Nat) : (toI a)[i]! = (a[i]! : Int) := by
  by_cases h : i < a.size
  · rw [getElem!_pos (toI a) i (by simpa using h), getElem!_pos a i h]; simp [toI]
  · rw [getElem!_neg (toI a) i (by simpa using h), getElem!_neg a i h]; rfl

theorem toI_set (a : Array Nat) (i v : Nat) : toI (a.setIfInBounds i v) = (toI a).setIfInBounds i (v : Int) := by
  simp [toI, Array.map_setIfInBounds]

theorem toI_set_one (a : Array Nat) (i : Nat) : (toI a).setIfInBounds i (1 : Int) = toI (a.setIfInBounds i 1) := by
  rw [toI_set]; rfl

theorem toI_set_add_one (a : Array Nat) (i v : Nat) :
    (toI a).setIfInBounds i ((v : Int) + (1 : Int)) = toI (a.setIfInBounds i (v + 1)) := by
  rw [toI_set]; rfl

theorem toI_set_one_add (a : Array Nat) (i v : Nat) :
    (toI a).setIfInBounds i ((1 : Int) + (v : Int)) = toI (a.setIfInBounds i (1 + v)) := by
  rw [toI_set]; rfl

theorem toI_replicate (n : Nat) : Array.replicate n (0 : Int) = toI (Array.replicate n 0) := by
  simp [toI]

theorem toI_ite (c : Prop) [Decidable c] (a b : Array Nat) : toI (if c then a else b) = if c then toI a else toI b := by
  split <;> rfl

/-- two `Int` arrays are equal when they have the same size and the same (defaulting) reads -/
theorem ext_get! (a b : Array Int) (hs : a.size = b.size) (h : ∀ j : Nat, a[j]! = b[j]!) : a = b := by
  apply Array.ext hs
  intro j h1 h2
  have := h j
  rwa [getElem!_pos a j h1, getElem!_pos b j h2] at this

/-- simulation of a reversed `foldl` (the generated `for … in seq[::-1]`) by the `foldr` of a model over another state type -/
theorem foldl_reverse_sim {σ τ α : Type} (R : σ → τ → Prop) (f : σ → α → σ) (g : α → τ → τ)
    (h : ∀ s t a, R s t → R (f s a) (g a t)) (l : List α) (s : σ) (t : τ) (h0 : R s t) :
    R (List.foldl f s l.reverse) (List.foldr g t l) := by
  induction l with
  | nil => exact h0
  | cons a l ih => simp only [List.reverse_cons, List.foldl_append, List.foldl_cons, List.foldl_nil, List.foldr_cons]; exact h _ _ a ih

/-- simulation of a forward `foldl` by a `foldl` over another state type -/
theorem foldl_sim {σ τ α : Type} (R : σ → τ → Prop) (f : σ → α → σ) (g : τ → α → τ)
    (h : ∀ s t a, R s t → R (f s a) (g t a)) (l : List α) (s : σ) (t : τ) (h0 : R s t) :
    R (List.foldl f s l) (List.foldl g t l) := by
  induction l generalizing s t with
  | nil => exact h0
  | cons a l ih => exact ih _ _ (h _ _ a h0)

/-- a list-append scan (`if p i: lst.append(i)`) is a filter -/
theorem foldl_snoc_filter (p : Nat → Bool) (l acc : List Nat) :
    List.foldl (fun acc i => if p i then acc ++ [i] else acc) acc l = acc ++ l.filter p := by
  induction l generalizing acc with
  | nil => simp
  | cons a l ih =>
    simp only [List.foldl_cons, List.filter_cons]
    rw [ih]
    split <;> simp

/-- `mask is not None and not mask[i]` is the negation of the model's `maskAt` -/
theorem mask_invalid (mask : Option (Array Bool)) (i : Nat) :
    (mask.isSome && !Generated.Sw.optGetB mask i) = !maskAt mask i := by
  cases mask <;> simp [Generated.Sw.optGetB, maskAt]

end Pf.Sw2Bridge
