import PfVerif.Proofs.C09_ihuRel2
import PfVerif.Proofs.C09_ihuNew
/-! `new_outlet`, `ihu_optimize_rivlen`, `ihu_minimize_error`, `upscale_check` keep the well-formedness invariant `WArr`
and never run out of fuel (C09 extension, fourth stage). Core Lean only. -/
namespace Pf.C09ihu
open Pf

theorem inD8_refl (c ncol : Nat) : inD8 c c ncol = true := by
  simp [inD8, absDiff]

/-! ### `new_outlet` -/

theorem newOutletWalk_isSome (ds : Array Nat) (streams : Array Int) :
    ∀ k p, PitAt ds k p → ∀ f, k < f → ∀ path, (newOutletWalk ds streams f p path).isSome = true := by
  intro k
  induction k with
  | zero =>
    intro p hp f hf path
    obtain ⟨g, rfl⟩ : ∃ g, f = g + 1 := ⟨f - 1, by omega⟩
    have hp' := pitAt_zero hp
    simp [newOutletWalk, hp']
  | succ k ih =>
    intro p hp f hf path
    obtain ⟨g, rfl⟩ : ∃ g, f = g + 1 := ⟨f - 1, by omega⟩
    simp only [newOutletWalk]
    split
    · rfl
    · exact ih _ hp.pred g (by omega) _

theorem newOutletWalk_valid (ds : Array Nat) (streams : Array Int) (hwf : FineWF ds) :
    ∀ fuel p path r, newOutletWalk ds streams fuel p path = some r → ValidPx ds p → ValidPx ds r.2.2 := by
  intro fuel
  induction fuel with
  | zero => intro p path r h; simp [newOutletWalk] at h
  | succ f ih =>
    intro p path r h hp
    simp only [newOutletWalk] at h
    split at h
    · cases h; exact hwf.next hp
    · exact ih _ _ _ h (hwf.next hp)

/-- what `new_outlet` does to the coarse arrays: nothing, or it re-points cell `idx0` to the 8-neighbour (or itself)
that contains a valid pixel `q` and gives it a valid outlet pixel `p`; it never runs out of fuel on a loop-free
well-formed network whose missing pixels carry no upstream area above `minupa` -/
theorem newOutlet_w (ds : Array Nat) (upa : Array Int) (idx0 subidx0 : Nat) (streams : Array Int)
    (cds out : Array Nat) (ncol subncol cs minNum minDen : Nat) (minupa : Int) (target : Option Nat)
    (hwf : FineWF ds) (hr : ∀ p, ValidPx ds p → ∃ k, k ≤ ds.size ∧ PitAt ds k p)
    (hup : ∀ p, p < ds.size → ds[p]! = ds.size → upa[p]! ≤ minupa) :
    ∃ s' c' o' f, newOutlet ds upa idx0 subidx0 streams cds out ncol subncol cs minNum minDen minupa target =
        some (s', c', o', f) ∧
      ((c' = cds ∧ o' = out) ∨ ∃ v p q, c' = cds.setIfInBounds idx0 v ∧ o' = out.setIfInBounds idx0 p ∧
        ValidPx ds p ∧ ValidPx ds q ∧ v = subidx2idx q subncol cs ncol ∧ inD8 idx0 v ncol = true) := by
  unfold newOutlet
  simp only
  generalize hX : List.foldlM (m := Option) _ (minupa, (none : Option (Nat × Nat × List Nat))) _ = X
  have hkey : ∃ res, X = some res ∧ (minupa ≤ res.1 ∧ ∀ a, res.2 = some a → ValidPx ds a.1 ∧
      ∃ q, ValidPx ds q ∧ a.2.1 = subidx2idx q subncol cs ncol ∧ inD8 idx0 a.2.1 ncol = true) := by
    rw [← hX]
    apply foldlM_tot (P := fun (st : Int × Option (Nat × Nat × List Nat)) => minupa ≤ st.1 ∧ ∀ a, st.2 = some a → ValidPx ds a.1 ∧
      ∃ q, ValidPx ds q ∧ a.2.1 = subidx2idx q subncol cs ncol ∧ inD8 idx0 a.2.1 ncol = true)
    · intro st cand hmem hst
      have hpix := outletPix_mem ds idx0 ncol subncol cs cand hmem
      split
      · exact ⟨st, rfl, hst⟩
      · rename_i hskip
        simp only [not_or, Int.not_le] at hskip
        have hv : ValidPx ds cand := by
          refine ⟨hpix.1, fun heq => ?_⟩
          have := hup cand hpix.1 heq
          omega
        obtain ⟨k, hk, hpit⟩ := hr _ hv
        have hsome := newOutletWalk_isSome ds (streams.setIfInBounds subidx0 (-1)) k cand hpit (ds.size + 1)
          (by omega) []
        obtain ⟨⟨path, last, pds⟩, hw⟩ := Option.isSome_iff_exists.mp hsome
        have hvq : ValidPx ds pds := newOutletWalk_valid ds _ hwf _ _ _ _ hw hv
        rw [hw]
        dsimp only
        cases target <;> dsimp only <;> split
        all_goals first
          | exact ⟨st, rfl, hst⟩
          | (rename_i hc
             refine ⟨_, rfl, by dsimp only; omega, ?_⟩
             intro a ha
             simp only [Option.some.injEq] at ha
             subst ha
             refine ⟨hv, pds, hvq, rfl, ?_⟩
             have hc2 := ((Bool.and_eq_true _ _).mp hc).2
             simp only [Bool.and_eq_true, Bool.or_eq_true, decide_eq_true_eq, bne_iff_ne, beq_iff_eq] at hc2
             rcases hc2 with h | h
             · exact h.1.2
             · dsimp only; rw [← h.2]; exact inD8_refl _ _)
    · exact ⟨Int.le_refl _, fun a ha => by cases ha⟩
  obtain ⟨res, hres, hP⟩ := hkey
  rw [hres]
  obtain ⟨u, sel⟩ := res
  cases sel with
  | none => exact ⟨_, _, _, _, rfl, Or.inl ⟨rfl, rfl⟩⟩
  | some a =>
    obtain ⟨pout, idxds, path0⟩ := a
    obtain ⟨h1, q, h2, h3, h4⟩ := hP.2 _ rfl
    exact ⟨_, _, _, _, rfl, Or.inr ⟨idxds, pout, q, rfl, rfl, h1, h2, h3, h4⟩⟩

section stg
variable {e : Env} {n : Nat} {W : Nat → Nat → Nat → Prop} {A B : Nat → Prop}

/-- the hypotheses on the fine network shared by the totality statements -/
structure FineOK (e : Env) (par : Par) : Prop where
  reach : ∀ p, ValidPx e.ds p → ∃ k, k ≤ e.ds.size ∧ PitAt e.ds k p
  /-- missing pixels carry no upstream area above `minupa` (the nodata value of `upstream_area` is -9999) -/
  upa : ∀ p, p < e.ds.size → e.ds[p]! = e.ds.size → e.upa[p]! ≤ par.minupa

theorem cell_eq (e : Env) (p : Nat) (hp : p < e.ds.size) : e.cell p = subidx2idx p e.subncol e.cs e.ncol := by
  simp [Env.cell, hp]

/-- one call of `new_outlet` on a well-formed pair: defined, well formed again, only the entries of `idx0` change -/
theorem newOutletE_tot (hw : WCtx e n W) (par : Par) (hf : FineOK e par) (idx0 subidx0 : Nat) (streams : Array Int)
    (cds out : Array Nat) (target : Option Nat) (h : WArr e n W A B cds out) :
    ∃ s' c' o' f, newOutletE e par idx0 subidx0 streams cds out target = some (s', c', o', f) ∧
      WArr e n W A B c' o' ∧ (∀ c, c ≠ idx0 → c'[c]! = cds[c]! ∧ o'[c]! = out[c]!) := by
  unfold newOutletE
  obtain ⟨s', c', o', f, hnew, hsh⟩ := newOutlet_w e.ds e.upa idx0 subidx0 streams cds out e.ncol e.subncol e.cs
    par.minNum par.minDen par.minupa target hw.wf hf.reach hf.upa
  refine ⟨s', c', o', f, hnew, ?_⟩
  rcases hsh with ⟨rfl, rfl⟩ | ⟨v, p, q, rfl, rfl, hp, hq, hv, hd8⟩
  · exact ⟨h, fun _ _ => ⟨rfl, rfl⟩⟩
  · refine ⟨h.setBoth hw idx0 v p (fun _ => ⟨?_, hd8, hp⟩), ?_⟩
    · rw [hv, ← cell_eq e q hq.1]; exact hw.cell q hq
    · intro c hc
      rw [get!_setIfInBounds, get!_setIfInBounds, if_neg (fun hh => hc hh.1.symm), if_neg (fun hh => hc hh.1.symm)]
      exact ⟨rfl, rfl⟩

/-- set both entries of a cell to a pair that is acceptable -/
theorem WArr.setPair {cds out : Array Nat} (h : WArr e n W A B cds out) (c v p : Nat)
    (hv : c < n → W c v p ∧ (A c → v ≠ n) ∧ (B c → p ≠ e.ds.size)) :
    WArr e n W A B (cds.setIfInBounds c v) (out.setIfInBounds c p) := by
  refine ⟨by simp [h.szc], by simp [h.szo], ?_, ?_, ?_⟩
  · intro c' hc'
    rw [get!_setIfInBounds, get!_setIfInBounds]
    by_cases hcc : c = c'
    · subst hcc
      rw [if_pos ⟨rfl, by rw [h.szc]; exact hc'⟩, if_pos ⟨rfl, by rw [h.szo]; exact hc'⟩]
      exact (hv hc').1
    · rw [if_neg (fun hh => hcc hh.1), if_neg (fun hh => hcc hh.1)]
      exact h.ok c' hc'
  · intro c' hc' ha
    rw [get!_setIfInBounds]
    split
    · rename_i hh
      obtain ⟨rfl, _⟩ := hh
      exact (hv hc').2.1 ha
    · exact h.actC c' hc' ha
  · intro c' hc' hb
    rw [get!_setIfInBounds]
    split
    · rename_i hh
      obtain ⟨rfl, _⟩ := hh
      exact (hv hc').2.2 hb
    · exact h.actO c' hc' hb

/-! ### `ihu_optimize_rivlen` -/

theorem bool_get_lt (valid : Array Bool) (i : Nat) (h : valid[i]! = true) : i < valid.size := by
  apply Classical.byContradiction
  intro hn
  rw [getElem!_neg valid i hn] at h
  cases h

theorem rivlenOne_tot (hw : WCtx e n W) (par : Par) (hf : FineOK e par) (valid : Array Bool) (hvs : valid.size ≤ n)
    (st : Tri) (idx0 : Nat) (h : WArr e n W A B st.2.1 st.2.2) :
    ∃ r, rivlenOne e par valid st idx0 = some r ∧ WArr e n W A B r.1.2.1 r.1.2.2 := by
  obtain ⟨streams, cds, out⟩ := st
  simp only at h
  unfold rivlenOne
  dsimp only
  split
  · exact ⟨_, rfl, h⟩
  · rename_i hc1
    simp only [Bool.or_eq_true, beq_iff_eq, not_or, Bool.not_eq_false] at hc1
    have hi1 : cds[idx0]! < n := Nat.lt_of_lt_of_le (bool_get_lt valid _ hc1.1.2) hvs
    have hi0 : idx0 < n := Nat.lt_of_lt_of_le (bool_get_lt valid _ hc1.2) hvs
    split
    · rename_i hc2
      have h' : WArr e n W (fun c => A c ∨ cds[c]! ≠ n) (fun c => B c ∨ out[c]! ≠ e.ds.size) cds out :=
        ⟨h.szc, h.szo, h.ok, fun c hc ha => ha.elim (h.actC c hc) id, fun c hc hb => hb.elim (h.actO c hc) id⟩
      obtain ⟨s1, c1, o1, f, hnew, hw1, _⟩ := newOutletE_tot hw par hf idx0 out[idx0]! streams cds out none h'
      rw [hnew]
      dsimp only
      split
      · refine ⟨_, rfl, ?_⟩
        dsimp only
        refine WArr.mono (A' := fun c => A c ∨ cds[c]! ≠ n) (B' := fun c => B c ∨ out[c]! ≠ e.ds.size) ?_
          (fun _ ha => Or.inl ha) (fun _ hb => Or.inl hb)
        refine foldl_inv _ (fun (st : Tri) => WArr e n W (fun c => A c ∨ cds[c]! ≠ n)
          (fun c => B c ∨ out[c]! ≠ e.ds.size) st.2.1 st.2.2) _ ?_ _ hw1
        intro st idx hidx hst
        obtain ⟨s2, c2, o2⟩ := st
        simp only at hst
        obtain ⟨hidxlt, hidxds⟩ := upstreamD8_mem _ _ _ _ _ hidx
        rw [hw.ncell] at hidxlt
        dsimp only
        split
        · rename_i hval
          apply hst.setDs hw
          intro _
          refine ⟨hi1, ?_, ?_⟩
          · simp only [Bool.or_eq_true, List.isEmpty_iff, List.all_eq_true, List.mem_filter, and_imp] at hc2
            rcases hc2 with hc2 | hc2
            · rw [hc2] at hidx; cases hidx
            · exact hc2 idx hidx hval
          · apply hst.actO idx hidxlt
            right
            have := (h.valid_of_link hw idx hidxlt (by rw [hidxds]; omega)).1
            omega
        · split
          · apply hst.setPair
            intro _
            exact ⟨h.ok idx0 hi0, fun _ => by omega, fun hb => hb.elim (h.actO idx0 hi0) id⟩
          · exact hst
      · exact ⟨_, rfl, hw1.mono (fun _ ha => Or.inl ha) (fun _ hb => Or.inl hb)⟩
    · exact ⟨_, rfl, h⟩

theorem optimizeRivlen_tot (hw : WCtx e n W) (par : Par) (hf : FineOK e par) (short : List Nat) (valid : Array Bool)
    (hvs : valid.size ≤ n) (st : Tri) (h : WArr e n W A B st.2.1 st.2.2) :
    ∃ st', optimizeRivlen e par short valid st = some st' ∧ WArr e n W A B st'.2.1 st'.2.2 := by
  unfold optimizeRivlen
  refine foldlM_tot _ (fun (st : Tri) => WArr e n W A B st.2.1 st.2.2) short ?_ _ h
  intro b i _ hb
  obtain ⟨⟨st1, b1⟩, h1, hw1⟩ := rivlenOne_tot hw par hf valid hvs b i hb
  dsimp only
  rw [h1]
  cases b1 with
  | true => exact ⟨st1, rfl, hw1⟩
  | false =>
    obtain ⟨⟨st2, b2⟩, h2, hw2⟩ := rivlenOne_tot hw par hf valid hvs st1 b.2.1[i]! hw1
    dsimp only
    rw [h2]
    exact ⟨st2, rfl, hw2⟩

/-! ### `ihu_minimize_error` -/

theorem d8Offsets_small (dr dc : Int) (h : (dr, dc) ∈ d8Offsets) : -1 ≤ dr ∧ dr ≤ 1 ∧ -1 ≤ dc ∧ dc ≤ 1 := by
  simp only [d8Offsets, List.mem_cons, Prod.mk.injEq, List.not_mem_nil, or_false] at h
  omega

theorem d8Idx_inD8 (idx0 nrow ncol i : Nat) (h : i ∈ d8Idx idx0 nrow ncol) : inD8 idx0 i ncol = true := by
  unfold d8Idx at h
  simp only [List.mem_filterMap] at h
  obtain ⟨⟨dr, dc⟩, hmem, hx⟩ := h
  have hsm := d8Offsets_small dr dc hmem
  simp only at hx
  split at hx
  · rename_i hc
    simp only [Option.some.injEq] at hx
    obtain ⟨h1, h2, h3, h4⟩ := hc
    obtain ⟨r, hr⟩ := Int.eq_ofNat_of_zero_le h1
    obtain ⟨c, hc⟩ := Int.eq_ofNat_of_zero_le h3
    rw [hr] at hx
    rw [hc] at h4 hx
    simp only [Int.ofNat_eq_natCast] at h4 hx hr hc
    have hx' : r * ncol + c = i := by
      have : ((r : Int) * (ncol : Int) + (c : Int)) = ((r * ncol + c : Nat) : Int) := by
        simp [Int.natCast_add, Int.natCast_mul]
      rw [this, Int.toNat_natCast] at hx
      exact hx
    have hcl : c < ncol := by omega
    have e1 : i / ncol = r := by rw [← hx']; exact div_block r ncol c hcl
    have e2 : i % ncol = c := by rw [← hx']; exact mod_block r ncol c hcl
    unfold inD8 absDiff
    rw [e1, e2]
    generalize idx0 / ncol = q at hr
    generalize idx0 % ncol = m at hc
    simp only [Bool.and_eq_true, decide_eq_true_eq]
    omega
  · cases hx

theorem errPath_valid (hwf : FineWF e.ds) (streams : Array Int) (idx0 : Nat) :
    ∀ fuel subidx idxs r, errPath e streams idx0 fuel subidx idxs = some r → ValidPx e.ds subidx →
      ValidPx e.ds r.2.1 := by
  intro fuel
  induction fuel with
  | zero => intro subidx idxs r h; simp [errPath] at h
  | succ f ih =>
    intro subidx idxs r h hp
    simp only [errPath] at h
    split at h
    · cases h; exact hp
    · split at h
      · split at h
        · cases h; exact hp
        · exact ih _ _ _ h (hwf.next hp)
      · exact ih _ _ _ h (hwf.next hp)

theorem nbWalk_w (hw : WCtx e n W) (out : Array Nat) (idxs : List Nat) (idx0 idx1 : Nat) (upa : Int)
    (hset : idx0 < n → idx1 < n ∧ inD8 idx0 idx1 e.ncol = true ∧ out[idx0]! ≠ e.ds.size) :
    ∀ k j idx s, WArr e n W A B s.cds out → WArr e n W A B (nbWalk e out idxs idx0 idx1 upa k j idx s).cds out := by
  intro k
  induction k with
  | zero => intro j idx s h; exact h
  | succ k ih =>
    intro j idx s h
    simp only [nbWalk]
    repeat' split
    all_goals first | exact h | exact ih _ _ _ h | exact h.setDs hw _ _ hset

theorem nbSearch_w (hw : WCtx e n W) (out : Array Nat) (idxs : List Nat) (idx0 : Nat) (d8 : List Nat)
    (cds : Array Nat) (fixed : Bool) (hd8 : ∀ i ∈ d8, i < n ∧ inD8 idx0 i e.ncol = true)
    (hout0 : idx0 < n → out[idx0]! ≠ e.ds.size) (h : WArr e n W A B cds out) :
    WArr e n W A B (nbSearch e out idxs idx0 d8 cds fixed).cds out := by
  unfold nbSearch
  split
  · exact h
  · refine foldl_inv _ (fun (s : Nb) => WArr e n W A B s.cds out) _ ?_ _ h
    intro s idx1 hi hs
    split
    · exact hs
    · exact nbWalk_w hw out idxs idx0 idx1 _ (fun hlt => ⟨(hd8 _ hi).1, (hd8 _ hi).2, hout0 hlt⟩) _ _ _ _ hs

theorem minErrPass_tot (hw : WCtx e n W) (par : Par) (hf : FineOK e par) (idxs : List Nat) (idx0 : Nat)
    (d8 : List Nat) (hd8 : ∀ i ∈ d8, i < n ∧ inD8 idx0 i e.ncol = true) (hb0 : idx0 < n → B idx0) :
    ∀ pass fixed (st : Tri), WArr e n W A B st.2.1 st.2.2 →
      ∃ st', minErrPass e par idxs idx0 d8 pass fixed st = some st' ∧ WArr e n W A B st'.2.1 st'.2.2 := by
  intro pass
  induction pass with
  | zero => intro fixed st h; exact ⟨st, rfl, h⟩
  | succ k ih =>
    intro fixed st h
    obtain ⟨streams, cds, out⟩ := st
    simp only at h
    have hnb := nbSearch_w hw out idxs idx0 d8 cds fixed hd8 (fun hlt => h.actO idx0 hlt (hb0 hlt)) h
    simp only [minErrPass]
    generalize nbSearch e out idxs idx0 d8 cds fixed = nb at hnb
    split
    · generalize hX : List.foldlM (m := Option) _ (((streams, nb.cds, out), false) : Tri × Bool) nb.hw = X
      have hkey : ∃ r, X = some r ∧ WArr e n W A B r.1.2.1 r.1.2.2 := by
        rw [← hX]
        apply foldlM_tot (P := fun (x : Tri × Bool) => WArr e n W A B x.1.2.1 x.1.2.2)
        · intro b idx _ hb
          split
          · exact ⟨b, rfl, hb⟩
          · obtain ⟨⟨s2, c2, o2⟩, f2⟩ := b
            simp only at hb
            obtain ⟨s3, c3, o3, f3, hnew, hw3, _⟩ :=
              newOutletE_tot hw par hf idx o2[idx]! s2 c2 o2 (some o2[idxs.head!]!) hb
            dsimp only
            rw [hnew]
            exact ⟨_, rfl, hw3⟩
        · exact hnb
      obtain ⟨⟨st1, f1⟩, hfold, h1⟩ := hkey
      rw [hfold]
      exact ih _ _ h1
    · exact ⟨_, rfl, hnb⟩

theorem minErrOne_tot (hw : WCtx e n W) (par : Par) (hf : FineOK e par) (poc : Nat) (st : Tri) (idx0 : Nat)
    (hlt : idx0 < n) (hb : B idx0) (h : WArr e n W A B st.2.1 st.2.2) :
    ∃ st', minErrOne e par poc st idx0 = some st' ∧ WArr e n W A B st'.2.1 st'.2.2 := by
  obtain ⟨streams, cds, out⟩ := st
  simp only at h
  have hv0 : ValidPx e.ds out[idx0]! := h.valid_of_out hw idx0 hlt (h.actO idx0 hlt hb)
  obtain ⟨k, hk, hpit⟩ := hf.reach _ hv0
  have hsome := (errPath_stable e streams idx0 k _ hpit (e.ds.size + 1) (e.ds.size + 1) (by omega) (by omega) []).2
  obtain ⟨⟨idxs, subidx, sds⟩, hpath⟩ := Option.isSome_iff_exists.mp hsome
  have hsds : sds = e.ds[subidx]! := errPath_sds e _ _ _ _ _ _ hpath
  have hvs : ValidPx e.ds subidx := errPath_valid hw.wf _ _ _ _ _ _ hpath hv0
  have hd8 : ∀ i ∈ d8Idx idx0 e.nrow e.ncol, i < n ∧ inD8 idx0 i e.ncol = true := by
    intro i hi
    exact ⟨by rw [← hw.ncell]; exact d8Idx_lt _ _ _ _ hi, d8Idx_inD8 _ _ _ _ hi⟩
  unfold minErrOne
  dsimp only
  rw [hpath]
  dsimp only
  split
  · refine ⟨_, rfl, ?_⟩
    exact h.setBoth hw idx0 idx0 sds (fun _ => ⟨hlt, inD8_refl _ _, by rw [hsds]; exact hw.wf.next hvs⟩)
  · have hr : ∃ s1 c1 o1 f1, (if ((d8Idx idx0 e.nrow e.ncol).all fun i => cds[i]! != idx0) = true then
          newOutletE e par idx0 out[idx0]! streams cds out none
        else some (streams, cds, out, false)) = some (s1, c1, o1, f1) ∧ WArr e n W A B c1 o1 := by
      split
      · obtain ⟨s1, c1, o1, f1, hnew, hw1, _⟩ := newOutletE_tot hw par hf idx0 out[idx0]! streams cds out none h
        exact ⟨_, _, _, _, hnew, hw1⟩
      · exact ⟨_, _, _, _, rfl, h⟩
    obtain ⟨s1, c1, o1, f1, hr1, hw1⟩ := hr
    rw [hr1]
    exact minErrPass_tot hw par hf idxs idx0 _ hd8 (fun _ => hb) _ _ _ hw1

theorem minimizeError_tot (hw : WCtx e n W) (par : Par) (hf : FineOK e par) (poc : Nat) (fix : List Nat) (st : Tri)
    (sorts : Sorts) (hfix : ∀ c ∈ fix, c < n ∧ B c) (h : WArr e n W A B st.2.1 st.2.2) :
    ∃ r, minimizeError e par poc fix st sorts = some r ∧ WArr e n W A B r.1.2.1 r.1.2.2 := by
  unfold minimizeError
  have htake := Sorts.take_ok sorts (fix.map fun c => e.upa[st.2.2[c]!]!).toArray
  generalize sorts.take (fix.map fun c => e.upa[st.2.2[c]!]!).toArray = tk at htake
  obtain ⟨seq, sorts'⟩ := tk
  simp only [List.size_toArray, List.length_map] at htake
  obtain ⟨st', hfold, hst'⟩ := foldlM_tot (fun st i0 => minErrOne e par poc st fix[i0]!)
    (fun (st : Tri) => WArr e n W A B st.2.1 st.2.2) seq.reverse
    (by
      intro b i0 hi0 hb
      have hf' := hfix _ (getElem!_mem fix i0 (htake.2 i0 (List.mem_reverse.mp hi0)))
      exact minErrOne_tot hw par hf poc b _ hf'.1 hf'.2 hb) st h
  dsimp only
  rw [hfold]
  exact ⟨_, rfl, hst'⟩

end stg

end Pf.C09ihu
