import PfVerif.Proofs.C19Walk
/-! Algorithm-level coverage for the model of `streams.streams` (C19): every link of a selected cell
of the sequence is emitted. Invariant of the `done` flags: a flagged cell is a pit or its link is in
a feature appended so far. Core Lean only. -/
namespace Pf.C19
open Pf

theorem streamWalk_done (ds : Array Nat) (nup : Array Int) :
    ∀ (fuel idx0 : Nat) (acc : List Nat) (done : Array Bool) (w : WalkRes),
      streamWalk ds nup fuel idx0 acc done = some w →
      ∃ tail, w.idxs = acc.reverse ++ tail ∧ w.done.size = done.size ∧
        (∀ a : Nat, done[a]! = true → w.done[a]! = true) ∧
        (idx0 < done.size → w.done[idx0]! = true) ∧
        (∀ a : Nat, w.done[a]! = true →
          done[a]! = true ∨ (ds[a]! = a ∧ w.pit = true ∧ w.last = a) ∨
            (a, ds[a]!) ∈ pairsOf (idx0 :: tail)) := by
  intro fuel
  induction fuel with
  | zero => intro idx0 acc done w h; simp [streamWalk] at h
  | succ fuel ih =>
    intro idx0 acc done w h
    simp only [streamWalk] at h
    have hset : ∀ a : Nat, (done.setIfInBounds idx0 true)[a]! = true → a = idx0 ∨ done[a]! = true := by
      intro a ha
      rw [get!_setIfInBounds] at ha
      by_cases hc : idx0 = a ∧ idx0 < done.size
      · exact Or.inl hc.1.symm
      · rw [if_neg hc] at ha; exact Or.inr ha
    have hmono : ∀ a : Nat, done[a]! = true → (done.setIfInBounds idx0 true)[a]! = true := by
      intro a ha
      rw [get!_setIfInBounds]
      split
      · rfl
      · exact ha
    have hself : idx0 < done.size → (done.setIfInBounds idx0 true)[idx0]! = true := by
      intro hlt
      rw [get!_setIfInBounds, if_pos ⟨rfl, hlt⟩]
    by_cases hp : ds[idx0]! = idx0
    · simp only [hp, beq_self_eq_true, if_true, Bool.or_true, Option.some.injEq] at h
      subst h
      refine ⟨[], by simp, by simp, hmono, hself, ?_⟩
      intro a ha
      rcases hset a ha with rfl | h1
      · exact Or.inr (Or.inl ⟨hp, rfl, rfl⟩)
      · exact Or.inl h1
    · have hb : (ds[idx0]! == idx0) = false := by simpa using hp
      simp only [hb, Bool.or_false, Bool.false_eq_true, if_false, decide_eq_true_eq] at h
      by_cases hc : nup[ds[idx0]!]! > 1
      · simp only [hc, if_true, Option.some.injEq] at h
        subst h
        refine ⟨[ds[idx0]!], by simp, by simp, hmono, hself, ?_⟩
        intro a ha
        rcases hset a ha with rfl | h1
        · exact Or.inr (Or.inr (by simp [pairsOf]))
        · exact Or.inl h1
      · simp only [hc, if_false] at h
        obtain ⟨tail, hi, hsz, hm, hs, hd⟩ := ih _ _ _ w h
        refine ⟨ds[idx0]! :: tail, by simp [hi], by simpa using hsz, fun a ha => hm a (hmono a ha),
          fun hlt => hm idx0 (hself hlt), ?_⟩
        intro a ha
        rcases hd a ha with h1 | h1 | h1
        · rcases hset a h1 with rfl | h2
          · exact Or.inr (Or.inr (by rw [pairsOf_cons_cons]; simp))
          · exact Or.inl h2
        · exact Or.inr (Or.inl h1)
        · exact Or.inr (Or.inr (by rw [pairsOf_cons_cons]; simp [h1]))

/-- invariant of the outer loop -/
def CoverInv (ds : Array Nat) (st : List (List Nat) × Array Bool) : Prop :=
  ∀ a : Nat, st.2[a]! = true → (ds[a]! = a ∧ [a, a] ∈ st.1) ∨ ∃ f ∈ st.1, (a, ds[a]!) ∈ pairsOf f

theorem streamsStep_cover (ds : Array Nat) (nup : Array Int) (mask : Option (Array Bool)) (maxLen : Nat)
    (st st' : List (List Nat) × Array Bool) (idx0 : Nat)
    (h : streamsStep ds nup mask maxLen st idx0 = some st') (hsz : st.2.size = ds.size)
    (hlt : idx0 < ds.size) (hinv : CoverInv ds st) :
    CoverInv ds st' ∧ st'.2.size = ds.size ∧ (∀ a : Nat, st.2[a]! = true → st'.2[a]! = true) ∧
      (maskAt mask idx0 = true → st'.2[idx0]! = true) := by
  unfold streamsStep at h
  split at h
  · rename_i hc
    cases h
    refine ⟨hinv, hsz, fun _ h => h, ?_⟩
    intro hm
    simpa [hm] using hc
  · split at h
    · cases h
    · rename_i w hw
      cases h
      obtain ⟨tail, hi, hwsz, hmono, hself, hd⟩ := streamWalk_done ds nup _ idx0 [idx0] st.2 w hw
      have hi' : w.idxs = idx0 :: tail := by simpa using hi
      refine ⟨?_, by simpa [hsz] using hwsz, hmono, fun _ => hself (by rw [hsz]; exact hlt)⟩
      intro a ha
      rcases hd a ha with h1 | h1 | h1
      · rcases hinv a h1 with h2 | ⟨f, hf, h2⟩
        · exact Or.inl ⟨h2.1, List.mem_append_left _ h2.2⟩
        · exact Or.inr ⟨f, List.mem_append_left _ hf, h2⟩
      · refine Or.inl ⟨h1.1, ?_⟩
        simp only
        apply List.mem_append_right
        unfold walkFeatures
        apply List.mem_append_right
        simp [h1.2.1, h1.2.2]
      · rw [← hi', ← splitPieces_pairs w.idxs maxLen, List.mem_flatMap] at h1
        obtain ⟨f, hf, h2⟩ := h1
        refine Or.inr ⟨f, ?_, h2⟩
        simp only
        apply List.mem_append_right
        unfold walkFeatures
        exact List.mem_append_left _ hf

theorem foldlM_streams_cover (ds : Array Nat) (nup : Array Int) (mask : Option (Array Bool)) (maxLen : Nat) :
    ∀ (l : List Nat) (st st' : List (List Nat) × Array Bool),
      l.foldlM (streamsStep ds nup mask maxLen) st = some st' → st.2.size = ds.size →
      (∀ i ∈ l, i < ds.size) → CoverInv ds st →
      CoverInv ds st' ∧ (∀ a : Nat, st.2[a]! = true → st'.2[a]! = true) ∧
        (∀ i ∈ l, maskAt mask i = true → st'.2[i]! = true) := by
  intro l
  induction l with
  | nil =>
    intro st st' h _ _ hinv
    simp only [List.foldlM_nil] at h
    cases h
    exact ⟨hinv, fun _ h => h, by simp⟩
  | cons x l ih =>
    intro st st' h hsz hb hinv
    rw [List.foldlM_cons] at h
    cases hs : streamsStep ds nup mask maxLen st x with
    | none => rw [hs] at h; cases h
    | some st1 =>
      rw [hs] at h
      obtain ⟨hinv1, hsz1, hmono1, hx⟩ :=
        streamsStep_cover ds nup mask maxLen st st1 x hs hsz (hb x (by simp)) hinv
      obtain ⟨hinv', hmono', hall⟩ := ih st1 st' h hsz1 (fun i hi => hb i (by simp [hi])) hinv1
      refine ⟨hinv', fun a ha => hmono' a (hmono1 a ha), ?_⟩
      intro i hi hm
      rcases List.mem_cons.mp hi with rfl | hi
      · exact hmono' _ (hx hm)
      · exact hall i hi hm

end Pf.C19
