import PfVerif.Proofs.C18PfInner
import PfVerif.Proofs.C18PfRefInv
/-! Pfafstetter, joint invariant (stage 4), part 5: the worklist loop `pfLoop`, the pit loop `pfPits`,
the tributaries of the classic stream order are non-main inflows, and the result for `pfBranch`:
the side-condition flag is `true` and the global invariant `PfG` holds for the seeds. Core Lean only. -/
namespace Pf.C18
open Pf

/-! ### the sorts keep lists duplicate-free -/

theorem insertDesc_nodup (key : Nat → Int) (x : Nat) (l : List Nat) (hx : x ∉ l) (h : l.Nodup) :
    (insertDesc key x l).Nodup := by
  induction l with
  | nil => simp [insertDesc]
  | cons z r ih =>
    simp only [insertDesc]
    have hz := List.nodup_cons.1 h
    split
    · refine List.nodup_cons.2 ⟨fun hm => ?_, ih (fun hm => hx (List.mem_cons_of_mem _ hm)) hz.2⟩
      rcases mem_insertDesc key x z r hm with hm | hm
      · exact hx (by simp [hm])
      · exact hz.1 hm
    · exact List.nodup_cons.2 ⟨hx, h⟩

theorem sortDesc_nodup (key : Nat → Int) (l : List Nat) (h : l.Nodup) : (sortDesc key l).Nodup := by
  unfold sortDesc
  suffices hs : ∀ acc : List Nat, acc.Nodup → (∀ x ∈ l, x ∉ acc) →
      (l.foldl (fun acc x => insertDesc key x acc) acc).Nodup from
    hs [] List.nodup_nil (fun _ _ hm => by cases hm)
  induction l with
  | nil => intro acc ha _; exact ha
  | cons x l ih =>
    intro acc ha hd
    rw [List.foldl_cons]
    have hx := List.nodup_cons.1 h
    refine ih hx.2 _ (insertDesc_nodup key x acc (hd x (by simp)) ha) (fun y hy hm => ?_)
    rcases mem_insertDesc key x y acc hm with hm | hm
    · exact hx.1 (hm ▸ hy)
    · exact hd y (List.mem_cons_of_mem _ hy) hm

variable {ds usMain : Array Nat} {seq : List Nat} {uparea so : Array Int}

/-! ### the worklist loop -/

theorem pfLoop_joint (c : PfCtx ds usMain seq uparea) (trib : List Nat) (depth : Nat)
    (htrib : ∀ t ∈ trib, t ∈ seq ∧ ds[t]! ≠ t ∧ usMain[ds[t]!]! ≠ t) (hnd : trib.Nodup) :
    ∀ (f : Nat) (st r : PfSt × Bool × Bool),
      pfLoop ds usMain so uparea trib depth f st = some r →
      PfG ds usMain so st.1.1 st.1.2.1 → PfFresh depth st.1.1 st.1.2.2 → LabsPos st.1.2.2 →
      PfG ds usMain so r.1.1 r.1.2.1 ∧ r.2.2 = st.2.2 := by
  intro f
  induction f with
  | zero =>
    intro st r h g _ _
    obtain ⟨⟨br, idxs, labs⟩, tie, ok⟩ := st
    cases labs with
    | nil => simp only [pfLoop, Option.some.injEq] at h; subst h; exact ⟨g, rfl⟩
    | cons a labs => simp [pfLoop] at h
  | succ f ih =>
    intro st r h g fr hl
    obtain ⟨⟨br, idxs, labs⟩, tie, ok⟩ := st
    cases labs with
    | nil => simp only [pfLoop, Option.some.injEq] at h; subst h; exact ⟨g, rfl⟩
    | cons a labs =>
      obtain ⟨pfaf0, d0⟩ := a
      have hp0 : 0 < pfaf0 := hl (pfaf0, d0) (by simp)
      have hl' : LabsPos labs := fun p hp => hl p (by simp [hp])
      simp only [pfLoop] at h
      split at h
      · exact ih ((br, idxs, labs), tie, ok) r h g fr.tail hl'
      · split at h
        · cases h
        · rename_i st' x ok' hin
          obtain ⟨s2, hs2⟩ : ∃ s2, s2 = sortDesc (fun i => uparea[ds[i]!]!)
              (List.take 4 (sortDesc (fun i => uparea[i]!)
                (List.filter (fun idx => br[idx]! == 0 && br[ds[idx]!]! == pfaf0) trib))) := ⟨_, rfl⟩
          rw [← hs2] at hin
          have hmem : ∀ y ∈ s2, y ∈ trib ∧ br[y]! = 0 ∧ br[ds[y]!]! = pfaf0 := by
            intro y hy
            rw [hs2] at hy
            have h1 := mem_sortDesc _ _ _ hy
            have h2 := mem_sortDesc _ _ _ (List.mem_of_mem_take h1)
            have h3 := List.mem_filter.1 h2
            simpa using h3
          have hlen : 0 + s2.length ≤ 4 := by
            rw [hs2, sortDesc_length, List.length_take]; omega
          have hrem : PfRem ds usMain seq uparea br idxs pfaf0 s2 := by
            refine ⟨fun t ht => ?_, fun t ht => Or.inl (hmem t ht).2.2, ?_, ?_⟩
            · obtain ⟨h1, h2, h3⟩ := hmem t ht
              obtain ⟨a1, a2, a3⟩ := htrib t h1
              exact ⟨a1, a2, h2, a3, by rw [h3]; omega⟩
            · rw [hs2]; exact sortDesc_sorted _ _
            · rw [hs2]
              apply sortDesc_nodup
              apply List.Nodup.sublist (List.take_sublist _ _)
              apply sortDesc_nodup
              exact hnd.sublist List.filter_sublist
          have hfr := fr.pop
          have hlo : pfaf0 + (10 : Int) ^ (depth - d0) =
              pfaf0 + (2 * ((0 : Nat) : Int) + 1) * (10 : Int) ^ (depth - d0) := by simp
          rw [hlo] at hfr
          obtain ⟨g', fr', hl'', hok⟩ := pfInner_joint (so := so) c depth pfaf0 d0 hp0 s2 0
            ((br, idxs, labs), pfaf0, ok) _ hlen hin g hfr hrem (Int.ne_of_gt hp0) hl'
          simp only at hok
          have := ih (st', _, ok') r h g' fr' hl''
          exact ⟨this.1, by rw [this.2]; exact hok⟩

/-! ### the pit loop -/

theorem PfFresh.write_top {depth : Nat} {br r : Array Int} {labs : List (Int × Nat)} {lo p : Int}
    (h : PfFresh depth br labs) (hA : ∀ e ∈ labs, e.1 + Bsz depth e.2 ≤ lo)
    (hB : ∀ s : Nat, br[s]! < lo) (hp : 0 < p) (hr : ∀ s : Nat, r[s]! = br[s]! ∨ r[s]! = lo)
    (d : Nat) (hBd : Bsz depth d = p) :
    PfFresh depth r (labs ++ [(lo, d)]) ∧ (∀ e ∈ labs ++ [(lo, d)], e.1 + Bsz depth e.2 ≤ lo + p) ∧
      ∀ s : Nat, r[s]! < lo + p := by
  have hin : PfFreshIn depth br labs lo (lo + p) :=
    ⟨h, fun e he => Or.inl (hA e he), fun s => Or.inl (hB s)⟩
  have hw := hin.write hp (Int.le_refl _) hr True d (fun _ => hBd)
  rw [if_pos trivial] at hw
  refine ⟨hw.toPfFresh, fun e he => ?_, fun s => ?_⟩
  · rcases List.mem_append.1 he with he | he
    · have := hA e he; omega
    · simp only [List.mem_singleton] at he; subst he; simp only; rw [hBd]; exact Int.le_refl _
  · rcases hr s with h1 | h1
    · rw [h1]; have := hB s; omega
    · rw [h1]; omega

theorem pf_pit_next (i : Nat) (b P : Int) :
    b + (((i + 1 : Nat) : Int) + 1) * P = b + ((i : Int) + 1) * P + P := by grind

theorem pfPits_joint (c : PfCtx ds usMain seq uparea) (depth : Nat) (hd : 1 ≤ depth)
    (W : Prop) (soraw : Array Int)
    (hS : W → (∀ s : Nat, so[s]! ≠ 0 → soraw[s]! ≠ 0) ∧
      (∀ c, c < ds.size → usMain[c]! < ds.size →
        soraw[usMain[c]!]! = 0 ∨ soraw[usMain[c]!]! = soraw[c]!)) :
    ∀ (l : List Nat) (i : Nat) (st r : PfSt), l.Nodup → (∀ q ∈ l, q ∈ seq ∧ ds[q]! = q) →
      (W → ∀ q ∈ l, soraw[q]! ≤ 1) →
      pfPits usMain ds.size so depth l i st = some r →
      PfG ds usMain so st.1 st.2.1 → PfFresh depth st.1 st.2.2 → LabsPos st.2.2 →
      (∀ e ∈ st.2.2, e.1 + Bsz depth e.2 ≤ pfBase depth + ((i : Int) + 1) * (10 : Int) ^ depth) →
      (∀ s : Nat, st.1[s]! < pfBase depth + ((i : Int) + 1) * (10 : Int) ^ depth) →
      (∀ q ∈ l, st.1[q]! = 0) → (W → PfOrd soraw st.1 st.2.2) →
      PfG ds usMain so r.1 r.2.1 ∧ PfFresh depth r.1 r.2.2 ∧ LabsPos r.2.2 ∧
        (W → PfOrd soraw r.1 r.2.2) := by
  intro l
  induction l with
  | nil =>
    intro i st r _ _ _ hr g fr hl _ _ _ ho
    simp only [pfPits, Option.some.injEq] at hr; subst hr; exact ⟨g, fr, hl, ho⟩
  | cons x rest ih =>
    intro i st r hnd hpit hso1 hr g fr hl hA hB h0 ho
    obtain ⟨br, idxs, labs⟩ := st
    simp only at g fr hl hA hB h0 ho
    obtain ⟨P, hPe⟩ : ∃ P, P = (10 : Int) ^ depth := ⟨_, rfl⟩
    have hPP : 0 < P := by rw [hPe]; exact pow10_pos _
    rw [← hPe] at hA hB
    have hbp := pfBase_pos depth
    have hpos : 0 < pfBase depth + ((i : Int) + 1) * P := by
      have : 0 < ((i : Int) + 1) * P := Int.mul_pos (by omega) hPP
      omega
    obtain ⟨hxs, hxp⟩ := hpit x (by simp)
    have hnd' := List.nodup_cons.1 hnd
    simp only [pfPits] at hr
    rw [← hPe] at hr
    split at hr
    · cases hr
    · rename_i br1 h1
      obtain ⟨g1, hw1, hclo1⟩ := g.step_sub c.hus (c.hb x hxs) (h0 x (by simp)) (Or.inl hxp)
        (Int.ne_of_gt hpos) (fun s => by have := hB s; omega) h1
      have ho1 : W → PfOrd soraw br1 (labs ++ [(pfBase depth + ((i : Int) + 1) * P, 1)]) := by
        intro w en hen s hs
        obtain ⟨hz, hmainS⟩ := hS w
        rcases List.mem_append.1 hen with hen | hen
        · rcases hw1 s with h | h
          · exact ho w en hen s (by rw [← h]; exact hs)
          · exfalso
            have := hA en hen
            have := Bsz_pos depth en.2
            rw [h.1] at hs
            omega
        · simp only [List.mem_singleton] at hen
          subst hen
          simp only at hs ⊢
          have hne : br1[s]! ≠ br[s]! := by
            intro hc
            have := hB s
            rw [← hc, hs] at this
            omega
          have := hclo1 (fun s => soraw[s]! = soraw[x]!) rfl (fun s _ hs hds _ hP hu hso => by
            rcases hmainS ds[s]! hds (by rw [hu]; exact hs) with h | h
            · rw [hu] at h; exact absurd h (hz s hso)
            · rw [hu] at h; rw [h]; exact hP) s hne
          rw [this]
          have := hso1 w x (by simp)
          omega
      have hw1' : ∀ s : Nat, br1[s]! = br[s]! ∨ br1[s]! = pfBase depth + ((i : Int) + 1) * P := by
        intro s; rcases hw1 s with h | h
        · exact Or.inl h
        · exact Or.inr h.1
      have hB1 : Bsz depth 1 = P := by
        rw [hPe]; unfold Bsz; congr 1; omega
      obtain ⟨fr1, hA1, hB1'⟩ := fr.write_top hA hB hPP hw1' 1 hB1
      have hl1 : LabsPos (labs ++ [(pfBase depth + ((i : Int) + 1) * P, 1)]) := by
        intro e he
        rcases List.mem_append.1 he with he | he
        · exact hl e he
        · simp only [List.mem_singleton] at he; subst he; exact hpos
      rw [← pf_pit_next] at hA1 hB1'
      subst hPe
      refine ih (i + 1) _ r hnd'.2 (fun q hq => hpit q (List.mem_cons_of_mem _ hq))
        (fun w q hq => hso1 w q (List.mem_cons_of_mem _ hq)) hr g1 fr1 hl1
        hA1 hB1' (fun q hq => ?_) ho1
      have hq0 := h0 q (List.mem_cons_of_mem _ hq)
      rcases hw1 q with h | h
      · show br1[q]! = 0
        rw [h]; exact hq0
      · exfalso
        rcases h.2.2 with h | h
        · exact hnd'.1 (h ▸ hq)
        · exact h.1 (hpit q (List.mem_cons_of_mem _ hq)).2

/-! ### tributaries of the classic stream order are non-main inflows -/

theorem setIfInBounds_self_c18 (a : Array Int) (i : Nat) : a.setIfInBounds i a[i]! = a := by
  apply Array.ext
  · simp
  · intro j h1 h2
    by_cases h : i = j
    · subst h; simp [h2]
    · grind

/-- the loop body of `stream_order` as a downstream sweep -/
def soStepG (ds usMain : Array Nat) (mask : Option (Array Bool)) (nup : Array Int) (i : Nat)
    (own dsv : Int) : Int :=
  if !(maskAt mask i) then own
  else if ds[i]! = i then 1
  else if nup[ds[i]!]! > 1 ∧ usMain[ds[i]!]! ≠ i then dsv + 1 else dsv

theorem streamOrderClassic_sweep (ds : Array Nat) (seq : List Nat) (usMain : Array Nat)
    (mask : Option (Array Bool)) :
    streamOrderClassic ds seq usMain mask =
      sweepDown ds (soStepG ds usMain mask (upstreamCount ds mask)) seq (Array.replicate ds.size 0) := by
  unfold streamOrderClassic sweepDown
  show List.foldl _ _ _ = List.foldl _ _ _
  congr 1
  funext so i
  unfold stepDown soStepG
  by_cases hm : maskAt mask i = true
  · simp only [hm, Bool.not_true, Bool.false_eq_true, if_false]
    by_cases hp : ds[i]! = i
    · simp [hp]
    · simp only [hp, if_false]
      split <;> rfl
  · simp only [hm, Bool.not_false, if_true]
    simp only [Bool.not_eq_true] at hm
    simp [setIfInBounds_self_c18]

theorem tributaries_nonmain (ds : Array Nat) (seq : List Nat) (usMain : Array Nat)
    (mask : Option (Array Bool)) (depth : Nat) (htopo : Topo ds seq) (hb : ∀ i ∈ seq, i < ds.size) :
    ∀ t ∈ tributaries ds seq (pfStrord ds seq usMain mask depth),
      t ∈ seq ∧ ds[t]! ≠ t ∧ usMain[ds[t]!]! ≠ t := by
  intro t ht
  unfold tributaries at ht
  obtain ⟨hts, hcond⟩ := List.mem_filter.1 ht
  simp only [Bool.and_eq_true, decide_eq_true_eq] at hcond
  obtain ⟨hpos, hgt⟩ := hcond
  refine ⟨hts, fun hp => ?_, fun hmain => ?_⟩
  · rw [hp] at hgt; omega
  · have hsz : (streamOrderClassic ds seq usMain mask).size = ds.size := by
      rw [streamOrderClassic_sweep]; simp
    have hdlt : ds[t]! < ds.size := hb _ (htopo.ds_mem t hts)
    unfold pfStrord at hpos hgt
    rw [amap_get! _ t (by rw [hsz]; exact hb t hts)] at hpos hgt
    rw [amap_get! _ _ (by rw [hsz]; exact hdlt)] at hgt
    have hrec := (sweepDown_rec ds (soStepG ds usMain mask (upstreamCount ds mask))
      (Array.replicate ds.size (0 : Int)) seq htopo (fun i hi => by simp; exact hb i hi)).1 t hts
    rw [← streamOrderClassic_sweep] at hrec
    have hne : ds[t]! ≠ t := by
      intro hp
      rw [hp] at hgt; omega
    have h0 : (Array.replicate ds.size (0 : Int))[t]! = 0 := replicate_get! _ 0 rfl t
    unfold soStepG at hrec
    rw [h0] at hrec
    simp only [hne, if_false, hmain, ne_eq, not_true_eq_false, and_false] at hrec
    by_cases hm : maskAt mask t = true
    · simp only [hm, Bool.not_true, Bool.false_eq_true, if_false] at hrec
      rw [hrec] at hgt
      omega
    · simp only [Bool.not_eq_true] at hm
      simp only [hm, Bool.not_false, if_true] at hrec
      rw [hrec] at hpos
      simp at hpos

/-! ### the seeding as a whole -/

/-- **`ok` is never cleared and the seeds satisfy the global invariant** -/
theorem pfBranch_joint (pits : List Nat) (ds : Array Nat) (seq : List Nat) (usMain : Array Nat)
    (uparea : Array Int) (mask : Option (Array Bool)) (depth : Nat) (hd : 1 ≤ depth)
    (c : PfCtx ds usMain seq uparea) (hpn : pits.Nodup) (hpits : ∀ q ∈ pits, q ∈ seq ∧ ds[q]! = q)
    (br : Array Int) (idxs : List Nat) (tie ok : Bool)
    (h : pfBranch pits ds seq usMain uparea mask depth = some (br, idxs, tie, ok)) :
    ok = true ∧ PfG ds usMain (pfStrord ds seq usMain mask depth) br idxs := by
  unfold pfBranch at h
  simp only at h
  split at h
  · cases h
  · rename_i st0 hp
    split at h
    · cases h
    · rename_i br' idxs' labs' tie' ok' heq
      simp only [Option.some.injEq, Prod.mk.injEq] at h
      obtain ⟨h1, h2, _, h4⟩ := h
      subst h1 h2 h4
      have hbp := pfBase_pos depth
      have hPP := pow10_pos depth
      obtain ⟨g0, fr0, hl0, _⟩ := pfPits_joint (so := pfStrord ds seq usMain mask depth) c depth hd False
        (pfStrord ds seq usMain mask depth) (fun w => w.elim) pits 0
        (Array.replicate ds.size 0, [], []) st0 hpn hpits (fun w => w.elim) hp (PfG.init ds usMain _)
        (PfFresh.init depth ds.size) (fun _ he => by cases he) (fun _ he => by cases he)
        (fun s => by
          show (Array.replicate ds.size (0 : Int))[s]! < _
          rw [replicate_get! _ 0 rfl s]
          simp only [Int.cast_ofNat_Int, Int.zero_add, Int.one_mul]
          omega)
        (fun q _ => replicate_get! _ 0 rfl q) (fun w => w.elim)
      have htrib := tributaries_nonmain ds seq usMain mask depth c.topo c.hb
      have hnd : (tributaries ds seq (pfStrord ds seq usMain mask depth)).Nodup := by
        unfold tributaries
        exact c.topo.nodup.sublist List.filter_sublist
      obtain ⟨g, hok⟩ := pfLoop_joint c _ depth htrib hnd _ _ _ heq g0 fr0 hl0
      simp only at hok
      refine ⟨?_, g⟩
      rw [hok]
      simp only [List.all_eq_true, decide_eq_true_eq]
      exact fun q hq => c.hb q (hpits q hq).1

end Pf.C18
