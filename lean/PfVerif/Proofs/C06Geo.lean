import PfVerif.Proofs.C06
/-! Raster geometry for C06: `shift` (the neighbour loop) vs. the declarative `Adj`; `get_edge`;
every valid cell is connected to an edge cell. Core Lean only. -/
namespace Pf.C06
open Pf

theorem mem_offsets (conn : Nat) (dr dc : Int) :
    (dr, dc) ∈ offsets conn ↔
      (-1 ≤ dr ∧ dr ≤ 1 ∧ -1 ≤ dc ∧ dc ≤ 1 ∧ (conn = 4 → dr = 0 ∨ dc = 0)) := by
  unfold offsets
  constructor
  · intro h
    split at h <;> simp only [List.mem_cons, Prod.mk.injEq, List.mem_nil_iff, or_false] at h <;> omega
  · intro ⟨h1, h2, h3, h4, h5⟩
    have hr : dr = -1 ∨ dr = 0 ∨ dr = 1 := by omega
    have hc : dc = -1 ∨ dc = 0 ∨ dc = 1 := by omega
    split
    · rename_i h4'
      have := h5 h4'
      rcases hr with rfl | rfl | rfl <;> rcases hc with rfl | rfl | rfl <;> simp at this ⊢
    · rcases hr with rfl | rfl | rfl <;> rcases hc with rfl | rfl | rfl <;> simp

theorem ncol_pos {G : Grid} {i : Nat} (hi : i < G.n) : 0 < G.ncol := by
  unfold Grid.n at hi
  cases h : G.ncol with
  | zero => rw [h] at hi; simp at hi
  | succ k => exact Nat.succ_pos k

theorem row_lt {G : Grid} {i : Nat} (hi : i < G.n) : i / G.ncol < G.nrow := by
  unfold Grid.n at hi
  exact Nat.div_lt_of_lt_mul (by rw [Nat.mul_comm]; exact hi)

theorem col_lt {G : Grid} {i : Nat} (hi : i < G.n) : i % G.ncol < G.ncol :=
  Nat.mod_lt _ (ncol_pos hi)

theorem rc_div {ncol r c : Nat} (hc : c < ncol) : (r * ncol + c) / ncol = r := by
  have hp : 0 < ncol := by omega
  rw [Nat.add_comm, Nat.add_mul_div_right _ _ hp, Nat.div_eq_of_lt hc, Nat.zero_add]

theorem rc_mod {ncol r c : Nat} (hc : c < ncol) : (r * ncol + c) % ncol = c := by
  rw [Nat.add_comm, Nat.add_mul_mod_self_right, Nat.mod_eq_of_lt hc]

theorem rc_lt {G : Grid} {r c : Nat} (hr : r < G.nrow) (hc : c < G.ncol) : r * G.ncol + c < G.n := by
  unfold Grid.n
  have : (r + 1) * G.ncol ≤ G.nrow * G.ncol := Nat.mul_le_mul_right _ hr
  rw [Nat.add_mul, Nat.one_mul] at this
  omega

/-- what `shift` computes -/
theorem shift_spec {G : Grid} {i j : Nat} {dr dc : Int} :
    shift G i dr dc = some j ↔
      (j < G.n ∧ ((j / G.ncol : Nat) : Int) = (i / G.ncol : Nat) + dr ∧
        ((j % G.ncol : Nat) : Int) = (i % G.ncol : Nat) + dc) := by
  unfold shift
  simp only
  constructor
  · intro h
    split at h
    · cases h
    · rename_i hb
      have hb : ¬ ((↑(i / G.ncol) + dr < 0) ∨ (↑(i / G.ncol) + dr ≥ (G.nrow : Int)) ∨
          (↑(i % G.ncol) + dc < 0) ∨ (↑(i % G.ncol) + dc ≥ (G.ncol : Int))) := hb
      injection h with h
      generalize i / G.ncol = ri at *
      generalize i % G.ncol = ci at *
      obtain ⟨R, hR⟩ : ∃ R : Nat, (R : Int) = ↑ri + dr := ⟨(↑ri + dr).toNat, by omega⟩
      obtain ⟨C, hC⟩ : ∃ C : Nat, (C : Int) = ↑ci + dc := ⟨(↑ci + dc).toNat, by omega⟩
      rw [← hR, ← hC] at h hb
      simp only [Int.toNat_natCast] at h
      have hRl : R < G.nrow := by omega
      have hCl : C < G.ncol := by omega
      subst h
      refine ⟨rc_lt hRl hCl, ?_, ?_⟩
      · rw [rc_div hCl]; exact hR
      · rw [rc_mod hCl]; exact hC
  · intro ⟨hj, h1, h2⟩
    have hr := row_lt hj
    have hc := col_lt hj
    have hcond : ¬ ((↑(i / G.ncol) + dr < 0) ∨ (↑(i / G.ncol) + dr ≥ (G.nrow : Int)) ∨
          (↑(i % G.ncol) + dc < 0) ∨ (↑(i % G.ncol) + dc ≥ (G.ncol : Int))) := by
      generalize j / G.ncol = rj at *
      generalize j % G.ncol = cj at *
      generalize i / G.ncol = ri at *
      generalize i % G.ncol = ci at *
      omega
    rw [if_neg hcond, ← h1, ← h2]
    simp only [Int.toNat_natCast]
    rw [Nat.mul_comm, Nat.div_add_mod]

theorem idx_eq {ncol a b : Nat} (h1 : a / ncol = b / ncol) (h2 : a % ncol = b % ncol) : a = b := by
  rw [← Nat.div_add_mod a ncol, ← Nat.div_add_mod b ncol, h1, h2]

/-- the raster neighbour relation is exactly what the neighbour loop enumerates -/
theorem adj_iff_shift {G : Grid} {conn i j : Nat} (hi : i < G.n) :
    Adj G conn i j ↔ ∃ o, o ∈ offsets conn ∧ o ≠ (0, 0) ∧ shift G i o.1 o.2 = some j := by
  constructor
  · intro h
    unfold Adj at h
    obtain ⟨_, hj, hne, h1, h2, h3, h4, h5⟩ := h
    have hne' : ¬ (i / G.ncol = j / G.ncol ∧ i % G.ncol = j % G.ncol) := fun ⟨a, b⟩ => hne (idx_eq a b)
    obtain ⟨dr, hdr⟩ : ∃ dr : Int, dr = ((j / G.ncol : Nat) : Int) - ((i / G.ncol : Nat) : Int) := ⟨_, rfl⟩
    obtain ⟨dc, hdc⟩ : ∃ dc : Int, dc = ((j % G.ncol : Nat) : Int) - ((i % G.ncol : Nat) : Int) := ⟨_, rfl⟩
    refine ⟨(dr, dc), ?_, ?_, ?_⟩
    · rw [mem_offsets]
      generalize j / G.ncol = rj at *
      generalize j % G.ncol = cj at *
      generalize i / G.ncol = ri at *
      generalize i % G.ncol = ci at *
      refine ⟨by omega, by omega, by omega, by omega, fun h => ?_⟩
      rcases h5 h with h | h
      · left; omega
      · right; omega
    · intro h
      injection h with ha hb
      apply hne'
      generalize j / G.ncol = rj at *
      generalize j % G.ncol = cj at *
      generalize i / G.ncol = ri at *
      generalize i % G.ncol = ci at *
      omega
    · rw [shift_spec]
      refine ⟨hj, ?_, ?_⟩ <;> simp only [hdr, hdc] <;> omega
  · intro ⟨⟨dr, dc⟩, hm, hne, hs⟩
    rw [mem_offsets] at hm
    obtain ⟨hj, h1, h2⟩ := shift_spec.1 hs
    simp only at h1 h2
    have hne' : ¬ (dr = 0 ∧ dc = 0) := fun ⟨a, b⟩ => hne (by rw [a, b])
    unfold Adj
    refine ⟨hi, hj, ?_, ?_⟩
    · intro he
      subst he
      apply hne'
      generalize i / G.ncol = ri at *
      generalize i % G.ncol = ci at *
      omega
    · generalize j / G.ncol = rj at *
      generalize j % G.ncol = cj at *
      generalize i / G.ncol = ri at *
      generalize i % G.ncol = ci at *
      refine ⟨by omega, by omega, by omega, by omega, fun h => ?_⟩
      rcases hm.2.2.2.2 h with h | h
      · left; omega
      · right; omega


theorem getElem!_map_range {α} [Inhabited α] (n : Nat) (g : Nat → α) (c : Nat) (hc : c < n) :
    ((List.range n).map g).toArray[c]! = g c := by
  simp [hc]

theorem shift_zero {G : Grid} {i j : Nat} (h : shift G i 0 0 = some j) : j = i := by
  obtain ⟨_, h1, h2⟩ := (shift_spec (G := G)).1 h
  exact idx_eq (ncol := G.ncol) (by omega) (by omega)

/-- all structure neighbours of `c` (incl. itself) are valid ↔ `c` is valid and has no invalid `Adj`-neighbour -/
theorem all_offsets_valid {G : Grid} {conn : Nat} {nod : Array Bool} {c : Nat} (hc : c < G.n)
    (hv : nod[c]! = false) :
    ((offsets conn).all (windowValid G nod c) = true) ↔ ¬ ∃ b, b < G.n ∧ Adj G conn c b ∧ ¬ Valid G nod b := by
  rw [List.all_eq_true]
  constructor
  · intro h ⟨b, hb, hadj, hnv⟩
    obtain ⟨o, ho, _, hs⟩ := (adj_iff_shift hc).1 hadj
    have := h o ho
    unfold windowValid at this
    rw [hs] at this
    apply hnv
    refine ⟨hb, ?_⟩
    simpa using this
  · intro h o ho
    unfold windowValid
    split
    · rename_i j hs
      by_cases h0 : o = (0, 0)
      · subst h0
        rw [shift_zero hs, hv]; rfl
      · have hadj : Adj G conn c j := (adj_iff_shift hc).2 ⟨o, ho, h0, hs⟩
        cases hj : nod[j]! with
        | false => rfl
        | true =>
          exfalso
          apply h
          refine ⟨j, hadj.2.1, hadj, fun hvj => ?_⟩
          rw [hvj.2] at hj; cases hj
    · rfl

/-- **`get_edge`**: the model of `gis_utils.get_edge(~nodata_mask, structure)` marks exactly the
valid cells on the raster border or with a neighbour (in the connectivity) that is not valid -/
theorem getEdge_spec (G : Grid) (conn : Nat) (nod : Array Bool) (c : Nat) (hc : c < G.n) :
    (getEdge G conn nod)[c]! = true ↔ IsEdge G conn nod c := by
  unfold getEdge
  rw [getElem!_map_range _ _ _ hc]
  unfold edgeAt IsEdge Valid
  simp only
  cases hn : nod[c]! with
  | true => simp
  | false =>
    by_cases hb : c / G.ncol = 0 ∨ c / G.ncol = G.nrow - 1 ∨ c % G.ncol = 0 ∨ c % G.ncol = G.ncol - 1
    · have : (false || c / G.ncol == 0 || c / G.ncol == G.nrow - 1 || c % G.ncol == 0 ||
          c % G.ncol == G.ncol - 1) = true := by
        rcases hb with h | h | h | h <;> simp [h]
      rw [if_pos this]
      simp only [Bool.not_false, true_iff]
      refine ⟨⟨hc, by first | rfl | trivial⟩, ?_⟩
      rcases hb with h | h | h | h
      · exact Or.inl h
      · exact Or.inr (Or.inl h)
      · exact Or.inr (Or.inr (Or.inl h))
      · exact Or.inr (Or.inr (Or.inr (Or.inl h)))
    · have : ¬ ((false || c / G.ncol == 0 || c / G.ncol == G.nrow - 1 || c % G.ncol == 0 ||
          c % G.ncol == G.ncol - 1) = true) := by
        intro h
        apply hb
        simp only [Bool.false_or, Bool.or_eq_true, beq_iff_eq] at h
        rcases h with ((h | h) | h) | h
        · exact Or.inl h
        · exact Or.inr (Or.inl h)
        · exact Or.inr (Or.inr (Or.inl h))
        · exact Or.inr (Or.inr (Or.inr h))
      rw [if_neg this]
      have hall := all_offsets_valid (conn := conn) hc hn
      have hval : ∀ b, (b < G.n ∧ nod[b]! = false) = Valid G nod b := fun b => rfl
      by_cases hex : ∃ b, b < G.n ∧ Adj G conn c b ∧ ¬ Valid G nod b
      · have hne : ¬ _ := fun h => (hall.1 h) hex
        rw [if_neg hne]
        simp only [Bool.not_false, true_iff]
        exact ⟨⟨hc, by first | rfl | trivial⟩, Or.inr (Or.inr (Or.inr (Or.inr hex)))⟩
      · rw [if_pos (hall.2 hex)]
        simp only [Bool.false_eq_true, false_iff]
        intro ⟨_, h⟩
        rcases h with h | h | h | h | h
        · exact hb (Or.inl h)
        · exact hb (Or.inr (Or.inl h))
        · exact hb (Or.inr (Or.inr (Or.inl h)))
        · exact hb (Or.inr (Or.inr (Or.inr h)))
        · exact hex h


/-- the cell above an inner-row cell is an allowed neighbour for both connectivities -/
theorem adj_north {G : Grid} {conn c : Nat} (hc : c < G.n) (hr : c / G.ncol ≠ 0) :
    c - G.ncol < c ∧ Adj G conn c (c - G.ncol) := by
  have hp := ncol_pos hc
  have hge : G.ncol ≤ c := by
    apply Classical.byContradiction
    intro h
    exact hr (Nat.div_eq_of_lt (by omega))
  obtain ⟨b, hb⟩ : ∃ b, c = b + G.ncol := ⟨c - G.ncol, by omega⟩
  subst hb
  have h1 : (b + G.ncol) / G.ncol = b / G.ncol + 1 := Nat.add_div_right _ hp
  have h2 : (b + G.ncol) % G.ncol = b % G.ncol := Nat.add_mod_right _ _
  rw [Nat.add_sub_cancel]
  refine ⟨by omega, ?_⟩
  unfold Adj
  rw [h1, h2]
  refine ⟨hc, by omega, by omega, by omega, by omega, by omega, by omega, fun _ => Or.inr rfl⟩

/-- **with `outlets='edge'` every valid cell is connected to an outlet** (so the minimax
characterisation covers the whole valid area) -/
theorem edge_all_connected (G : Grid) (conn : Nat) (nod seed : Array Bool)
    (hseed : EdgeSeeds G conn nod seed) :
    ∀ c, Valid G nod c → Connected G conn nod seed c := by
  intro c
  induction c using Nat.strongRecOn with
  | _ c ih =>
    intro hv
    by_cases he : IsEdge G conn nod c
    · exact ⟨[c], PathTo.base c ⟨hv.1, (hseed c hv.1).2 he⟩⟩
    · have hr : c / G.ncol ≠ 0 := fun h => he ⟨hv, Or.inl h⟩
      obtain ⟨hlt, hadj⟩ := adj_north (conn := conn) hv.1 hr
      have hvb : Valid G nod (c - G.ncol) := by
        apply Classical.byContradiction
        intro hnv
        exact he ⟨hv, Or.inr (Or.inr (Or.inr (Or.inr ⟨_, hadj.2.1, hadj, hnv⟩)))⟩
      obtain ⟨p, hp⟩ := ih _ hlt hvb
      exact ⟨c :: p, PathTo.step c _ p ⟨hadj, hv, hvb⟩ hp⟩

end Pf.C06
