import PfVerif.Proofs.C18AreaInv
/-! Preservation of the `subbasins_area` invariant by each of the five branches of the loop body
(abstract form). Core Lean only. -/
namespace Pf.C18
section
variable {D M : Nat → Nat} {A a : Nat → Int} {amin : Int} {seq : List Nat} {rk : Nat → Nat}

/-- the region formula when no outlet is created -/
theorem regE_nocut {P outs : List Nat} {own : Nat → Nat} {reg : Nat → Int}
    (hS : SInv D M A amin seq rk P outs own) {idx : Nat} (hnP : idx ∉ P) (v : Nat)
    (h : ∀ o ∈ outs, reg o = A o -
      csum (fun c => outs.contains c && decide (D c ≠ c) && (own (D c) == o)) A seq) :
    ∀ o ∈ outs, reg o = A o -
      csum (fun c => outs.contains c && decide (D c ≠ c) && (upd own idx v (D c) == o)) A seq := by
  intro o ho
  rw [h o ho]
  congr 1
  apply csum_congr
  intro c _
  refine ⟨?_, fun _ => rfl⟩
  by_cases hc : c ∈ outs
  · have : D c ≠ idx := fun hcc => hnP (hcc ▸ hS.closed c (hS.sub c hc))
    rw [upd_ne own v this]
  · simp [hc]

/-- the region formula when the pit `idx` becomes an outlet -/
theorem regE_cut_pit {P outs : List Nat} {own : Nat → Nat} {reg : Nat → Int}
    (hS : SInv D M A amin seq rk P outs own) {idx : Nat} (hnP : idx ∉ P) (hpit : D idx = idx)
    (h : ∀ o ∈ outs, reg o = A o -
      csum (fun c => outs.contains c && decide (D c ≠ c) && (own (D c) == o)) A seq) :
    ∀ o ∈ outs ++ [idx], upd reg idx (A idx) o = A o -
      csum (fun c => (outs ++ [idx]).contains c && decide (D c ≠ c) && (upd own idx idx (D c) == o)) A seq := by
  have hno : idx ∉ outs := fun hc => hnP (hS.sub _ hc)
  have hDc : ∀ c ∈ outs, D c ≠ idx := fun c hc hcc => hnP (hcc ▸ hS.closed c (hS.sub c hc))
  intro o ho
  rcases List.mem_append.1 ho with ho | ho
  · have hoi : o ≠ idx := fun hc => hno (hc ▸ ho)
    rw [upd_ne reg _ hoi, h o ho]
    congr 1
    apply csum_congr
    intro c _
    refine ⟨?_, fun _ => rfl⟩
    by_cases hci : c = idx
    · subst hci; simp [hpit]
    · by_cases hc : c ∈ outs
      · rw [upd_ne own _ (hDc c hc)]; simp [hc]
      · simp [hc, hci]
  · simp only [List.mem_singleton] at ho; subst ho
    rw [upd_same, csum_zero]; · simp
    intro c _
    by_cases hci : c = o
    · subst hci; simp [hpit]
    · by_cases hc : c ∈ outs
      · rw [upd_ne own _ (hDc c hc)]
        have : own (D c) ≠ o := fun hcc => hno (hcc ▸ hS.ownM _ (hS.closed c (hS.sub c hc)))
        simp [this]
      · simp [hc, hci]

/-- the region formula when the non-pit cell `idx` becomes an outlet: the region of the outlet
that owns its downstream cell loses `A idx` -/
theorem regE_cut_np {P outs : List Nat} {own : Nat → Nat} {reg : Nat → Int}
    (H : AHyp D M A a seq rk)
    (hS : SInv D M A amin seq rk P outs own) {idx : Nat} (hidx : idx ∈ seq) (hnP : idx ∉ P)
    (hd : D idx ∈ P) (hnp : D idx ≠ idx)
    (h : ∀ o ∈ outs, reg o = A o -
      csum (fun c => outs.contains c && decide (D c ≠ c) && (own (D c) == o)) A seq) :
    ∀ o ∈ outs ++ [idx], upd (upd reg (own (D idx)) (reg (own (D idx)) - A idx)) idx (A idx) o = A o -
      csum (fun c => (outs ++ [idx]).contains c && decide (D c ≠ c) && (upd own idx idx (D c) == o)) A seq := by
  have hno : idx ∉ outs := fun hc => hnP (hS.sub _ hc)
  have hDc : ∀ c ∈ outs, D c ≠ idx := fun c hc hcc => hnP (hcc ▸ hS.closed c (hS.sub c hc))
  have hdi : D idx ≠ idx := hnp
  have hownd : upd own idx idx (D idx) = own (D idx) := upd_ne own _ hdi
  have hod : own (D idx) ≠ idx := fun hcc => hno (hcc ▸ hS.ownM _ hd)
  intro o ho
  rcases List.mem_append.1 ho with ho | ho
  · have hoi : o ≠ idx := fun hc => hno (hc ▸ ho)
    rw [upd_ne _ _ hoi]
    -- predicate on cells other than idx is the old one
    have hpred : ∀ c ∈ seq, c ≠ idx →
        ((outs ++ [idx]).contains c && decide (D c ≠ c) && (upd own idx idx (D c) == o)) =
        (outs.contains c && decide (D c ≠ c) && (own (D c) == o)) := by
      intro c _ hci
      by_cases hc : c ∈ outs
      · rw [upd_ne own _ (hDc c hc)]; simp [hc]
      · simp [hc, hci]
    by_cases hoo : o = own (D idx)
    · subst hoo
      rw [upd_same, h _ ho]
      rw [csum_remove (p := fun c => (outs ++ [idx]).contains c && decide (D c ≠ c) &&
          (upd own idx idx (D c) == own (D idx)))
        (q := fun c => outs.contains c && decide (D c ≠ c) && (own (D c) == own (D idx)))
        H.nd hidx (by simp [hownd, hnp])]
      · omega
      · intro y hy
        by_cases hyi : y = idx
        · subst hyi; simp [hno]
        · rw [← hpred y hy hyi]; simp [hyi]
    · rw [upd_ne _ _ hoo, h o ho]
      congr 1
      apply csum_congr
      intro c hc
      refine ⟨?_, fun _ => rfl⟩
      by_cases hci : c = idx
      · subst hci
        have : own (D c) ≠ o := fun hcc => hoo hcc.symm
        simp [hno, hownd, this]
      · exact (hpred c hc hci).symm
  · simp only [List.mem_singleton] at ho; subst ho
    rw [upd_same, csum_zero]; · simp
    intro c _
    by_cases hci : c = o
    · subst hci
      simp [hownd, hod]
    · by_cases hc : c ∈ outs
      · rw [upd_ne own _ (hDc c hc)]
        have : own (D c) ≠ o := fun hcc => hno (hcc ▸ hS.ownM _ (hS.closed c (hS.sub c hc)))
        simp [this]
      · simp [hc, hci]


theorem rest_mono (H : AHyp D M A a seq rk) {outs outs' : List Nat} (hsub : ∀ c, c ∈ outs → c ∈ outs')
    (d : Nat) :
    csum (fun c => decide (D c = d ∧ c ≠ d) && !outs'.contains c) A seq ≤
      csum (fun c => decide (D c = d ∧ c ≠ d) && !outs.contains c) A seq := by
  apply csum_mono H.A0
  intro y _ h
  simp only [Bool.and_eq_true, decide_eq_true_eq, Bool.not_eq_true', List.contains_eq_mem,
    decide_eq_false_iff_not] at h ⊢
  exact ⟨h.1, fun hc => h.2 (hsub _ hc)⟩

/-- a freshly processed cell has no outlet among its inflowing cells: its lower bound is `A idx` -/
theorem rest_fresh (H : AHyp D M A a seq rk) (outs : List Nat) {idx : Nat} (hidx : idx ∈ seq) :
    a idx + csum (fun c => decide (D c = idx ∧ c ≠ idx) && !outs.contains c) A seq ≤ A idx :=
  H.rest_le outs hidx

/-- branch `idx_ds == idx` (pit) -/
theorem UInv.step_pit {P outs : List Nat} {own : Nat → Nat} {uo reg : Nat → Int}
    (H : AHyp D M A a seq rk) (hS : SInv D M A amin seq rk P outs own)
    (hU : UInv D M A a amin seq rk P outs own uo reg)
    {idx : Nat} (hidx : idx ∈ seq) (hnP : idx ∉ P) (hpit : D idx = idx) :
    UInv D M A a amin seq rk (P ++ [idx]) (outs ++ [idx]) (upd own idx idx) uo (upd reg idx (A idx)) := by
  have hno : idx ∉ outs := fun hc => hnP (hS.sub _ hc)
  have hown : ∀ x ∈ P, upd own idx idx x = own x := fun x hx => upd_ne own idx (fun hc => hnP (hc ▸ hx))
  have huo : uo idx = A idx := by
    rcases hU.init idx hidx hnP with h | ⟨_, h, _⟩
    · exact h
    · exact absurd hpit h
  refine ⟨?_, ?_, ?_, ?_, ?_, ?_, regE_cut_pit hS hnP hpit hU.regE⟩
  · intro x hx hxP
    have hxP' : x ∉ P := fun hc => hxP (List.mem_append.2 (Or.inl hc))
    rcases hU.init x hx hxP' with h | ⟨h1, h2, h3, y, hy, h4⟩
    · exact Or.inl h
    · exact Or.inr ⟨h1, h2, h3, y, List.mem_append.2 (Or.inl hy), h4⟩
  · intro d hd
    have hm := rest_mono H (outs := outs) (outs' := outs ++ [idx])
      (fun c hc => List.mem_append.2 (Or.inl hc)) d
    rcases List.mem_append.1 hd with hd | hd
    · have := hU.low d hd; omega
    · simp only [List.mem_singleton] at hd; subst hd
      have := rest_fresh H (outs ++ [d]) hidx
      omega
  · intro x hx hxo
    have hxo' : x ∉ outs := fun hc => hxo (List.mem_append.2 (Or.inl hc))
    rcases List.mem_append.1 hx with hx | hx
    · exact hU.trib x hx hxo'
    · exact absurd (List.mem_append.2 (Or.inr hx)) hxo
  · intro c1 h1 c2 h2 hne hdd hp1 hp2 ho1 ho2
    have ho1' : c1 ∉ outs := fun hc => ho1 (List.mem_append.2 (Or.inl hc))
    have ho2' : c2 ∉ outs := fun hc => ho2 (List.mem_append.2 (Or.inl hc))
    rcases List.mem_append.1 h1 with h1 | h1
    · rcases List.mem_append.1 h2 with h2 | h2
      · exact hU.chain c1 h1 c2 h2 hne hdd hp1 hp2 ho1' ho2'
      · exact absurd (List.mem_append.2 (Or.inr h2)) ho2
    · exact absurd (List.mem_append.2 (Or.inr h1)) ho1
  · intro x hx hbx hfr hmx
    rcases List.mem_append.1 hx with hx | hx
    · rw [hown x hx]
      have hne : own x ≠ idx := fun hc => hno (hc ▸ hS.ownM x hx)
      rw [upd_ne reg _ hne]
      exact hU.K x hx hbx (fun y hy => hfr y (List.mem_append.2 (Or.inl hy)))
        (fun hc => hmx (List.mem_append.2 (Or.inl hc)))
    · simp only [List.mem_singleton] at hx; subst hx
      rw [upd_same, upd_same, huo]; omega
  · intro o ho hnp
    rcases List.mem_append.1 ho with ho | ho
    · have hne : o ≠ idx := fun hc => hno (hc ▸ ho)
      rw [upd_ne reg _ hne]; exact hU.G o ho hnp
    · simp only [List.mem_singleton] at ho; subst ho; exact absurd hpit hnp

/-- branch `else: upa_out[idx] = upa0` (the cell does not qualify) -/
theorem UInv.step_B {P outs : List Nat} {own : Nat → Nat} {uo reg : Nat → Int}
    (H : AHyp D M A a seq rk) (hS : SInv D M A amin seq rk P outs own)
    (hU : UInv D M A a amin seq rk P outs own uo reg)
    {idx : Nat} (hidx : idx ∈ seq) (hnP : idx ∉ P) (hrkP : ∀ y ∈ P, rk y ≤ rk idx)
    (hd : D idx ∈ P) (hnp : D idx ≠ idx)
    (hB : ¬ (amin < uo (D idx) - A idx ∧ amin < A idx)) :
    UInv D M A a amin seq rk (P ++ [idx]) outs (upd own idx (own (D idx))) (upd uo idx (uo (D idx))) reg := by
  have hno : idx ∉ outs := fun hc => hnP (hS.sub _ hc)
  have hown : ∀ x ∈ P, upd own idx (own (D idx)) x = own x :=
    fun x hx => upd_ne own _ (fun hc => hnP (hc ▸ hx))
  have huoP : ∀ x ∈ P, upd uo idx (uo (D idx)) x = uo x :=
    fun x hx => upd_ne uo _ (fun hc => hnP (hc ▸ hx))
  have hrk := H.rkS idx hidx hnp
  have hlow1 := hU.lowOne H hS hd hidx rfl (fun h => hnp h.symm) hno
  refine ⟨?_, ?_, ?_, ?_, ?_, hU.G, regE_nocut hS hnP _ hU.regE⟩
  · intro x hx hxP
    have hxP' : x ∉ P := fun hc => hxP (List.mem_append.2 (Or.inl hc))
    have hxi : x ≠ idx := fun hc => hxP (List.mem_append.2 (Or.inr (by simp [hc])))
    rw [upd_ne uo _ hxi]
    rcases hU.init x hx hxP' with h | ⟨h1, h2, h3, y, hy, h4⟩
    · exact Or.inl h
    · refine Or.inr ⟨h1, h2, ?_, y, List.mem_append.2 (Or.inl hy), h4⟩
      have : D x ∈ P := h4.1 ▸ hS.closed y hy
      rw [huoP _ this]; exact h3
  · intro d hdP
    rcases List.mem_append.1 hdP with hdP | hdP
    · rw [huoP d hdP]; exact hU.low d hdP
    · simp only [List.mem_singleton] at hdP; subst hdP
      rw [upd_same]
      have := rest_fresh H outs hidx
      omega
  · intro x hx hxo hpx hmx hbx
    rcases List.mem_append.1 hx with hx | hx
    · rw [huoP _ (hS.closed x hx)]; exact hU.trib x hx hxo hpx hmx hbx
    · simp only [List.mem_singleton] at hx; subst hx
      rw [huoP _ hd]
      apply Classical.byContradiction
      intro hc
      exact hB ⟨by omega, hbx⟩
  · intro c1 h1 c2 h2 hne hdd hp1 hp2 ho1 ho2 hb1
    rcases List.mem_append.1 h1 with g1 | g1
    · rcases List.mem_append.1 h2 with g2 | g2
      · exact hU.chain c1 g1 c2 g2 hne hdd hp1 hp2 ho1 ho2 hb1
      · simp only [List.mem_singleton] at g2; subst g2
        -- c2 = idx, c1 ∈ P big
        apply Classical.byContradiction
        intro hc
        have hq : uo (D c2) - A c2 ≤ amin := by
          apply Classical.byContradiction
          intro hc'
          exact hB ⟨by omega, by omega⟩
        have := hU.lowTwo H hS hd (hS.inSeq c1 g1) hidx hne hdd
          (by intro h; apply hp1; rw [hdd]; exact h.symm) ho1 rfl
          (fun h => hnp h.symm) hno
        omega
    · simp only [List.mem_singleton] at g1; subst g1
      rcases List.mem_append.1 h2 with g2 | g2
      · have hq : uo (D c1) - A c1 ≤ amin := by
          apply Classical.byContradiction
          intro hc'
          exact hB ⟨by omega, hb1⟩
        have := hU.lowTwo H hS hd hidx (hS.inSeq c2 g2) hne rfl (fun h => hnp h.symm) hno hdd.symm
          (by intro h; apply hp2; rw [← hdd]; exact h.symm) ho2
        omega
      · simp only [List.mem_singleton] at g2; exact absurd g2.symm hne
  · intro x hx hbx hfr hmx
    rcases List.mem_append.1 hx with hx | hx
    · rw [hown x hx, huoP x hx]
      exact hU.K x hx hbx (fun y hy => hfr y (List.mem_append.2 (Or.inl hy))) hmx
    · simp only [List.mem_singleton] at hx; subst hx
      rw [upd_same, upd_same]
      have hbd : amin < A (D x) := by have := H.mono hidx hnp; omega
      apply hU.K _ hd hbd (fun y hy => by have := hrkP y hy; omega)
      intro hmo
      have hmP := hS.sub _ hmo
      have hmS := hS.inSeq _ hmP
      obtain ⟨hm1, hm2⟩ := H.main _ (hS.inSeq _ hd) hmS
      have hmi : M (D x) ≠ x := fun hc => hnP (hc ▸ hmP)
      have h1 := hS.mainO _ hmo (by rw [hm1]; exact fun h => hm2 h.symm) (by rw [hm1])
      rw [hm1] at h1
      have h2 := H.two (hS.inSeq _ hd) hmS hidx hmi hm1 hm2 rfl (fun h => hnp h.symm)
      omega

/-- in every qualifying branch the downstream cell's budget is bounded by the region of its owner -/
theorem UInv.K_parent {P outs : List Nat} {own : Nat → Nat} {uo reg : Nat → Int}
    (H : AHyp D M A a seq rk) (hS : SInv D M A amin seq rk P outs own)
    (hU : UInv D M A a amin seq rk P outs own uo reg)
    {idx : Nat} (hidx : idx ∈ seq) (hnP : idx ∉ P) (hrkP : ∀ y ∈ P, rk y ≤ rk idx)
    (hd : D idx ∈ P) (hnp : D idx ≠ idx) (hq2 : amin < A idx) :
    M (D idx) ∉ outs ∧ amin < A (D idx) ∧ uo (D idx) ≤ reg (own (D idx)) := by
  have hrk := H.rkS idx hidx hnp
  have hbd : amin < A (D idx) := by have := H.mono hidx hnp; omega
  have hmo : M (D idx) ∉ outs := by
    intro hmo
    have hmP := hS.sub _ hmo
    have hmS := hS.inSeq _ hmP
    obtain ⟨hm1, hm2⟩ := H.main _ (hS.inSeq _ hd) hmS
    have hmi : M (D idx) ≠ idx := fun hc => hnP (hc ▸ hmP)
    have h1 := hS.mainO _ hmo (by rw [hm1]; exact fun h => hm2 h.symm) (by rw [hm1])
    rw [hm1] at h1
    have h2 := H.two (hS.inSeq _ hd) hmS hidx hmi hm1 hm2 rfl (fun h => hnp h.symm)
    omega
  exact ⟨hmo, hbd, hU.K _ hd hbd (fun y hy => by have := hrkP y hy; omega) hmo⟩

/-- branch: qualifies, main stem, `conf` — nothing is written -/
theorem UInv.step_A3 {P outs : List Nat} {own : Nat → Nat} {uo reg : Nat → Int}
    (H : AHyp D M A a seq rk) (hS : SInv D M A amin seq rk P outs own)
    (hU : UInv D M A a amin seq rk P outs own uo reg)
    {idx : Nat} (hidx : idx ∈ seq) (hnP : idx ∉ P) (hrkP : ∀ y ∈ P, rk y ≤ rk idx)
    (hd : D idx ∈ P) (hnp : D idx ≠ idx)
    (hq2 : amin < A idx) (hmain : M (D idx) = idx) :
    UInv D M A a amin seq rk (P ++ [idx]) outs (upd own idx (own (D idx))) uo reg := by
  have hno : idx ∉ outs := fun hc => hnP (hS.sub _ hc)
  have hown : ∀ x ∈ P, upd own idx (own (D idx)) x = own x :=
    fun x hx => upd_ne own _ (fun hc => hnP (hc ▸ hx))
  have hlow1 := hU.lowOne H hS hd hidx rfl (fun h => hnp h.symm) hno
  have huo : uo idx = A idx ∨ uo idx = uo (D idx) := by
    rcases hU.init idx hidx hnP with h | ⟨_, _, h, _⟩
    · exact Or.inl h
    · exact Or.inr h
  obtain ⟨_, hbd, hKd⟩ := hU.K_parent H hS hidx hnP hrkP hd hnp hq2
  refine ⟨?_, ?_, ?_, ?_, ?_, hU.G, regE_nocut hS hnP _ hU.regE⟩
  · intro x hx hxP
    have hxP' : x ∉ P := fun hc => hxP (List.mem_append.2 (Or.inl hc))
    rcases hU.init x hx hxP' with h | ⟨h1, h2, h3, y, hy, h4⟩
    · exact Or.inl h
    · exact Or.inr ⟨h1, h2, h3, y, List.mem_append.2 (Or.inl hy), h4⟩
  · intro d hdP
    rcases List.mem_append.1 hdP with hdP | hdP
    · exact hU.low d hdP
    · simp only [List.mem_singleton] at hdP; subst hdP
      have := rest_fresh H outs hidx
      rcases huo with h | h <;> omega
  · intro x hx hxo hpx hmx hbx
    rcases List.mem_append.1 hx with hx | hx
    · exact hU.trib x hx hxo hpx hmx hbx
    · simp only [List.mem_singleton] at hx; subst hx
      exact absurd hmain hmx
  · intro c1 h1 c2 h2 hne hdd hp1 hp2 ho1 ho2 hb1
    rcases List.mem_append.1 h1 with g1 | g1
    · rcases List.mem_append.1 h2 with g2 | g2
      · exact hU.chain c1 g1 c2 g2 hne hdd hp1 hp2 ho1 ho2 hb1
      · simp only [List.mem_singleton] at g2; subst g2
        -- c2 = idx (main), c1 ∈ P big tributary: contradiction with its `trib` bound
        have hc1m : M (D c1) ≠ c1 := by rw [hdd, hmain]; exact fun h => hne h.symm
        have h3 := hU.trib c1 g1 ho1 hp1 hc1m hb1
        rw [hdd] at h3
        have := hU.lowTwo H hS hd (hS.inSeq c1 g1) hidx hne hdd
          (by intro h; apply hp1; rw [hdd]; exact h.symm) ho1 rfl
          (fun h => hnp h.symm) hno
        omega
    · simp only [List.mem_singleton] at g1; subst g1
      rcases List.mem_append.1 h2 with g2 | g2
      · apply Classical.byContradiction
        intro hc
        have hc2m : M (D c2) ≠ c2 := by rw [← hdd, hmain]; exact hne
        have h3 := hU.trib c2 g2 ho2 hp2 hc2m (by omega)
        rw [← hdd] at h3
        have := hU.lowTwo H hS hd hidx (hS.inSeq c2 g2) hne rfl (fun h => hnp h.symm) hno hdd.symm
          (by intro h; apply hp2; rw [← hdd]; exact h.symm) ho2
        omega
      · simp only [List.mem_singleton] at g2; exact absurd g2.symm hne
  · intro x hx hbx hfr hmx
    rcases List.mem_append.1 hx with hx | hx
    · rw [hown x hx]
      exact hU.K x hx hbx (fun y hy => hfr y (List.mem_append.2 (Or.inl hy))) hmx
    · simp only [List.mem_singleton] at hx; subst hx
      rw [upd_same]
      rcases huo with h | h <;> omega

/-- branch: qualifies, main stem, `not conf` — `idx` becomes an outlet, `upa_out[idx] = upa` -/
theorem UInv.step_A2 {P outs : List Nat} {own : Nat → Nat} {uo reg : Nat → Int}
    (H : AHyp D M A a seq rk) (hS : SInv D M A amin seq rk P outs own)
    (hU : UInv D M A a amin seq rk P outs own uo reg)
    {idx : Nat} (hidx : idx ∈ seq) (hnP : idx ∉ P) (hrkP : ∀ y ∈ P, rk y ≤ rk idx)
    (hd : D idx ∈ P) (hnp : D idx ≠ idx)
    (hq1 : amin < uo (D idx) - A idx) (hq2 : amin < A idx) (hmain : M (D idx) = idx)
    (hconf : A (D idx) - A idx ≤ amin) :
    UInv D M A a amin seq rk (P ++ [idx]) (outs ++ [idx]) (upd own idx idx) (upd uo idx (A idx))
      (upd (upd reg (own (D idx)) (reg (own (D idx)) - A idx)) idx (A idx)) := by
  have hno : idx ∉ outs := fun hc => hnP (hS.sub _ hc)
  have hown : ∀ x ∈ P, upd own idx idx x = own x := fun x hx => upd_ne own idx (fun hc => hnP (hc ▸ hx))
  have huoP : ∀ x ∈ P, upd uo idx (A idx) x = uo x :=
    fun x hx => upd_ne uo _ (fun hc => hnP (hc ▸ hx))
  have hrk := H.rkS idx hidx hnp
  obtain ⟨_, hbd, hKd⟩ := hU.K_parent H hS hidx hnP hrkP hd hnp hq2
  have hregO : ∀ o ∈ outs, o ≠ own (D idx) →
      upd (upd reg (own (D idx)) (reg (own (D idx)) - A idx)) idx (A idx) o = reg o := by
    intro o ho hne
    have hoi : o ≠ idx := fun hc => hno (hc ▸ ho)
    rw [upd_ne _ _ hoi, upd_ne _ _ hne]
  have hregD : upd (upd reg (own (D idx)) (reg (own (D idx)) - A idx)) idx (A idx) (own (D idx)) =
      reg (own (D idx)) - A idx := by
    have hoi : own (D idx) ≠ idx := fun hc => hno (hc ▸ hS.ownM _ hd)
    rw [upd_ne _ _ hoi, upd_same]
  refine ⟨?_, ?_, ?_, ?_, ?_, ?_, regE_cut_np H hS hidx hnP hd hnp hU.regE⟩
  · intro x hx hxP
    have hxP' : x ∉ P := fun hc => hxP (List.mem_append.2 (Or.inl hc))
    have hxi : x ≠ idx := fun hc => hxP (List.mem_append.2 (Or.inr (by simp [hc])))
    rw [upd_ne uo _ hxi]
    rcases hU.init x hx hxP' with h | ⟨h1, h2, h3, y, hy, h4⟩
    · exact Or.inl h
    · refine Or.inr ⟨h1, h2, ?_, y, List.mem_append.2 (Or.inl hy), h4⟩
      have : D x ∈ P := h4.1 ▸ hS.closed y hy
      rw [huoP _ this]; exact h3
  · intro d hdP
    have hm := rest_mono H (outs := outs) (outs' := outs ++ [idx])
      (fun c hc => List.mem_append.2 (Or.inl hc)) d
    rcases List.mem_append.1 hdP with hdP | hdP
    · rw [huoP d hdP]; have := hU.low d hdP; omega
    · simp only [List.mem_singleton] at hdP; subst hdP
      rw [upd_same]
      exact rest_fresh H _ hidx
  · intro x hx hxo
    have hxo' : x ∉ outs := fun hc => hxo (List.mem_append.2 (Or.inl hc))
    rcases List.mem_append.1 hx with hx | hx
    · rw [huoP _ (hS.closed x hx)]; exact hU.trib x hx hxo'
    · exact absurd (List.mem_append.2 (Or.inr hx)) hxo
  · intro c1 h1 c2 h2 hne hdd hp1 hp2 ho1 ho2
    have ho1' : c1 ∉ outs := fun hc => ho1 (List.mem_append.2 (Or.inl hc))
    have ho2' : c2 ∉ outs := fun hc => ho2 (List.mem_append.2 (Or.inl hc))
    rcases List.mem_append.1 h1 with g1 | g1
    · rcases List.mem_append.1 h2 with g2 | g2
      · exact hU.chain c1 g1 c2 g2 hne hdd hp1 hp2 ho1' ho2'
      · exact absurd (List.mem_append.2 (Or.inr g2)) ho2
    · exact absurd (List.mem_append.2 (Or.inr g1)) ho1
  · intro x hx hbx hfr hmx
    rcases List.mem_append.1 hx with hx | hx
    · rw [hown x hx, huoP x hx]
      have hmx' : M x ∉ outs := fun hc => hmx (List.mem_append.2 (Or.inl hc))
      have hold := hU.K x hx hbx (fun y hy => hfr y (List.mem_append.2 (Or.inl hy))) hmx'
      by_cases hcl : own x = own (D idx)
      · exfalso
        by_cases hxd : x = D idx
        · subst hxd
          exact hmx (List.mem_append.2 (Or.inr (by simp [hmain])))
        · have hfi := hfr idx (List.mem_append.2 (Or.inr (by simp)))
          have hxr := hrkP x hx
          obtain ⟨hxo, hxD, hxp⟩ := class_child H hS hU hd hx hbd hbx hcl hxd (by omega) (by omega)
          have hxi : x ≠ idx := fun hc => hnP (hc ▸ hx)
          have := H.two (hS.inSeq _ hd) (hS.inSeq x hx) hidx hxi hxD (hxD ▸ fun h => hxp h.symm) rfl
            (fun h => hnp h.symm)
          omega
      · rw [hregO _ (hS.ownM x hx) hcl]; exact hold
    · simp only [List.mem_singleton] at hx; subst hx
      rw [upd_same, upd_same, upd_same]; omega
  · intro o ho hnpo
    rcases List.mem_append.1 ho with ho | ho
    · by_cases hoo : o = own (D idx)
      · subst hoo; rw [hregD]; omega
      · rw [hregO o ho hoo]; exact hU.G o ho hnpo
    · simp only [List.mem_singleton] at ho; subst ho
      rw [upd_same]; exact hq2

/-- branch: qualifies, tributary — `idx` becomes an outlet, the budget of the downstream cell and of
its main upstream cell drop by `upa` -/
theorem UInv.step_A1 {P outs : List Nat} {own : Nat → Nat} {uo uo' reg : Nat → Int}
    (H : AHyp D M A a seq rk) (hS : SInv D M A amin seq rk P outs own)
    (hU : UInv D M A a amin seq rk P outs own uo reg)
    {idx : Nat} (hidx : idx ∈ seq) (hnP : idx ∉ P) (hrkP : ∀ y ∈ P, rk y ≤ rk idx)
    (hd : D idx ∈ P) (hnp : D idx ≠ idx)
    (hq1 : amin < uo (D idx) - A idx) (hq2 : amin < A idx) (htrib : M (D idx) ≠ idx)
    (h1 : uo' idx = A idx) (h2 : uo' (D idx) = uo (D idx) - A idx)
    (h3 : M (D idx) ∈ seq → uo' (M (D idx)) = uo (D idx) - A idx)
    (h4 : ∀ j, j ≠ idx → j ≠ D idx → j ≠ M (D idx) → uo' j = uo j) :
    UInv D M A a amin seq rk (P ++ [idx]) (outs ++ [idx]) (upd own idx idx) uo'
      (upd (upd reg (own (D idx)) (reg (own (D idx)) - A idx)) idx (A idx)) := by
  have hno : idx ∉ outs := fun hc => hnP (hS.sub _ hc)
  have hown : ∀ x ∈ P, upd own idx idx x = own x := fun x hx => upd_ne own idx (fun hc => hnP (hc ▸ hx))
  have hrk := H.rkS idx hidx hnp
  have hdS := hS.inSeq _ hd
  have hA0 := H.A0 idx hidx
  obtain ⟨hmo, hbd, hKd⟩ := hU.K_parent H hS hidx hnP hrkP hd hnp hq2
  -- facts about the main upstream cell m of d when it is a cell
  have hmfacts : M (D idx) ∈ seq → D (M (D idx)) = D idx ∧ M (D idx) ≠ D idx ∧
      rk (M (D idx)) = rk idx := by
    intro hm
    obtain ⟨hm1, hm2⟩ := H.main _ hdS hm
    have := H.rkS _ hm (by rw [hm1]; exact fun h => hm2 h.symm)
    rw [hm1] at this
    exact ⟨hm1, hm2, by omega⟩
  -- no processed cell drains to m
  have hnokid : ∀ y ∈ P, D y = M (D idx) → y = M (D idx) := by
    intro y hy hym
    apply Classical.byContradiction
    intro hne
    have hmS : M (D idx) ∈ seq := hym ▸ H.dsSeq y (hS.inSeq y hy)
    have := H.rkS y (hS.inSeq y hy) (by rw [hym]; exact fun h => hne h.symm)
    rw [hym, (hmfacts hmS).2.2] at this
    have := hrkP y hy
    omega
  have hregO : ∀ o ∈ outs, o ≠ own (D idx) →
      upd (upd reg (own (D idx)) (reg (own (D idx)) - A idx)) idx (A idx) o = reg o := by
    intro o ho hne
    have hoi : o ≠ idx := fun hc => hno (hc ▸ ho)
    rw [upd_ne _ _ hoi, upd_ne _ _ hne]
  have hregD : upd (upd reg (own (D idx)) (reg (own (D idx)) - A idx)) idx (A idx) (own (D idx)) =
      reg (own (D idx)) - A idx := by
    have hoi : own (D idx) ≠ idx := fun hc => hno (hc ▸ hS.ownM _ hd)
    rw [upd_ne _ _ hoi, upd_same]
  -- new lower bound at d
  have hlowd : a (D idx) + csum (fun c => decide (D c = D idx ∧ c ≠ D idx) && !(outs ++ [idx]).contains c) A seq
      ≤ uo (D idx) - A idx := by
    have := hU.low _ hd
    rw [csum_remove (p := fun c => decide (D c = D idx ∧ c ≠ D idx) && !outs.contains c)
      (q := fun c => decide (D c = D idx ∧ c ≠ D idx) && !(outs ++ [idx]).contains c) (x := idx)
      H.nd hidx (by simp [hno]; exact fun h => hnp h.symm)] at this
    · omega
    · intro y _
      by_cases hy : y = idx
      · subst hy; simp
      · simp [hy]
  refine ⟨?_, ?_, ?_, ?_, ?_, ?_, regE_cut_np H hS hidx hnP hd hnp hU.regE⟩
  · -- init
    intro x hx hxP
    have hxP' : x ∉ P := fun hc => hxP (List.mem_append.2 (Or.inl hc))
    have hxi : x ≠ idx := fun hc => hxP (List.mem_append.2 (Or.inr (by simp [hc])))
    have hxd : x ≠ D idx := fun hc => hxP' (hc ▸ hd)
    by_cases hxm : x = M (D idx)
    · subst hxm
      obtain ⟨hm1, hm2, _⟩ := hmfacts hx
      refine Or.inr ⟨by rw [hm1], by rw [hm1]; exact fun h => hm2 h.symm, ?_, idx,
        List.mem_append.2 (Or.inr (by simp)), hm1.symm, by rw [hm1]; exact fun h => hnp h.symm⟩
      rw [hm1, h3 hx, h2]
    · rw [h4 x hxi hxd hxm]
      rcases hU.init x hx hxP' with h | ⟨g1, g2, g3, y, hy, g4⟩
      · exact Or.inl h
      · refine Or.inr ⟨g1, g2, ?_, y, List.mem_append.2 (Or.inl hy), g4⟩
        have hDP : D x ∈ P := g4.1 ▸ hS.closed y hy
        have e1 : D x ≠ idx := fun hc => hnP (hc ▸ hDP)
        have e2 : D x ≠ D idx := fun hc => hxm (by rw [← hc]; exact g1.symm)
        have e3 : D x ≠ M (D idx) := by
          intro hc
          have := hnokid y hy (by rw [g4.1, hc])
          rw [← hc] at this
          exact g4.2 this
        rw [h4 _ e1 e2 e3]; exact g3
  · -- low
    intro d hdP
    have hm := rest_mono H (outs := outs) (outs' := outs ++ [idx])
      (fun c hc => List.mem_append.2 (Or.inl hc)) d
    rcases List.mem_append.1 hdP with hdP | hdP
    · by_cases e2 : d = D idx
      · subst e2; rw [h2]; exact hlowd
      · have e1 : d ≠ idx := fun hc => hnP (hc ▸ hdP)
        by_cases e3 : d = M (D idx)
        · have hmS : M (D idx) ∈ seq := e3 ▸ hS.inSeq d hdP
          obtain ⟨hm1, hm2, _⟩ := hmfacts hmS
          rw [e3, h3 hmS]
          have hmo' : M (D idx) ∉ outs ++ [idx] := by
            intro hc
            rcases List.mem_append.1 hc with hc | hc
            · exact hmo hc
            · simp only [List.mem_singleton] at hc; exact htrib hc
          have g1 := csum_ge_one (p := fun c => decide (D c = D idx ∧ c ≠ D idx) && !(outs ++ [idx]).contains c)
            (f := A) H.nd H.A0 hmS (by
              simp only [Bool.and_eq_true, decide_eq_true_eq, Bool.not_eq_true', List.contains_eq_mem,
                decide_eq_false_iff_not]
              exact ⟨⟨hm1, hm2⟩, hmo'⟩)
          have g2 := rest_fresh H (outs ++ [idx]) hmS
          have g3 := H.a0 _ hdS
          omega
        · rw [h4 d e1 e2 e3]; have := hU.low d hdP; omega
    · simp only [List.mem_singleton] at hdP; subst hdP
      rw [h1]
      exact rest_fresh H _ hidx
  · -- trib
    intro x hx hxo hpx hmx hbx
    have hxo' : x ∉ outs := fun hc => hxo (List.mem_append.2 (Or.inl hc))
    rcases List.mem_append.1 hx with hx | hx
    · have hold := hU.trib x hx hxo' hpx hmx hbx
      have hDP := hS.closed x hx
      by_cases e2 : D x = D idx
      · rw [e2, h2]; rw [e2] at hold; omega
      · have e1 : D x ≠ idx := fun hc => hnP (hc ▸ hDP)
        have e3 : D x ≠ M (D idx) := fun hc => hpx (hc.trans (hnokid x hx hc).symm)
        rw [h4 _ e1 e2 e3]; exact hold
    · exact absurd (List.mem_append.2 (Or.inr hx)) hxo
  · -- chain
    intro c1 g1 c2 g2 hne hdd hp1 hp2 ho1 ho2
    have ho1' : c1 ∉ outs := fun hc => ho1 (List.mem_append.2 (Or.inl hc))
    have ho2' : c2 ∉ outs := fun hc => ho2 (List.mem_append.2 (Or.inl hc))
    rcases List.mem_append.1 g1 with g1 | g1
    · rcases List.mem_append.1 g2 with g2 | g2
      · exact hU.chain c1 g1 c2 g2 hne hdd hp1 hp2 ho1' ho2'
      · exact absurd (List.mem_append.2 (Or.inr g2)) ho2
    · exact absurd (List.mem_append.2 (Or.inr g1)) ho1
  · -- K
    intro x hx hbx hfr hmx
    rcases List.mem_append.1 hx with hx | hx
    · rw [hown x hx]
      have hmx' : M x ∉ outs := fun hc => hmx (List.mem_append.2 (Or.inl hc))
      have hold := hU.K x hx hbx (fun y hy => hfr y (List.mem_append.2 (Or.inl hy))) hmx'
      have hxi : x ≠ idx := fun hc => hnP (hc ▸ hx)
      by_cases hcl : own x = own (D idx)
      · rw [hcl, hregD]
        by_cases hxd : x = D idx
        · rw [hxd, h2]; omega
        · by_cases hxm : x = M (D idx)
          · rw [hxm, h3 (hxm ▸ hS.inSeq x hx)]; omega
          · exfalso
            have hfi := hfr idx (List.mem_append.2 (Or.inr (by simp)))
            have hxr := hrkP x hx
            obtain ⟨hxo, hxD, hxp⟩ := class_child H hS hU hd hx hbd hbx hcl hxd (by omega) (by omega)
            have g3 := hU.trib x hx hxo hxp (by rw [hxD]; exact fun h => hxm h.symm) hbx
            rw [hxD] at g3
            have := hU.lowTwo H hS hd (hS.inSeq x hx) hidx hxi hxD (hxD ▸ fun h => hxp h.symm) hxo rfl
              (fun h => hnp h.symm) hno
            omega
      · rw [hregO _ (hS.ownM x hx) hcl]
        have e2 : x ≠ D idx := fun hc => hcl (by rw [hc])
        have e3 : x ≠ M (D idx) := by
          intro hc
          have hmS : M (D idx) ∈ seq := hc ▸ hS.inSeq x hx
          obtain ⟨hm1, hm2, _⟩ := hmfacts hmS
          apply hcl
          rw [hc, hS.ownN _ (hc ▸ hx) hmo, hm1]
        rw [h4 x hxi e2 e3]; exact hold
    · simp only [List.mem_singleton] at hx; subst hx
      rw [upd_same, upd_same, h1]; omega
  · -- G
    intro o ho hnpo
    rcases List.mem_append.1 ho with ho | ho
    · by_cases hoo : o = own (D idx)
      · subst hoo; rw [hregD]; omega
      · rw [hregO o ho hoo]; exact hU.G o ho hnpo
    · simp only [List.mem_singleton] at ho; subst ho
      rw [upd_same]; exact hq2

end
end Pf.C18
