import PfVerif.Proofs.C03Rank
/-! Algorithm-level proof for `core.rank`: the output satisfies the rank certificate, for every
well-formed network. Invariant over the outer loop (`PInv`: every cell is untouched (`-9999`) or
locally certified) and over the explicit stack of the inner walk. -/
namespace Pf

/-- cell `i` is locally certified -/
def DoneAt (ds : Array Nat) (rk : Array Int) (i : Nat) : Prop :=
  (ds[i]! = i ∧ rk[i]! = 0) ∨
  (ds[i]! ≠ i ∧ ((rk[i]! = -1 ∧ rk[ds[i]!]! = -1) ∨ (0 ≤ rk[ds[i]!]! ∧ rk[i]! = rk[ds[i]!]! + 1)))

theorem DoneAt.ne {ds : Array Nat} {rk : Array Int} {i : Nat} (h : DoneAt ds rk i) : rk[i]! ≠ -9999 := by
  rcases h with ⟨_, h⟩ | ⟨_, ⟨h, _⟩ | ⟨h1, h2⟩⟩ <;> omega

/-- partial certificate: the outer-loop invariant of `core.rank` -/
structure PInv (ds : Array Nat) (rk : Array Int) : Prop where
  size : rk.size = ds.size
  nodata : ∀ i, i < ds.size → ds[i]! = ds.size → rk[i]! = -9999
  cell : ∀ i, i < ds.size → ds[i]! ≠ ds.size → rk[i]! = -9999 ∨ DoneAt ds rk i

/-- the stack is a flow path: each cell drains into the one pushed after it; the last pushed drains to `d` -/
def ChainTo (ds : Array Nat) : List Nat → Nat → Prop
  | [], _ => True
  | x :: rest, d => ds[x]! = d ∧ ChainTo ds rest x

theorem ChainTo.inner {ds : Array Nat} : ∀ {rest : List Nat} {x d : Nat}, ChainTo ds (x :: rest) d →
    (x :: rest).Nodup → ∀ j ∈ rest, ds[j]! ∈ x :: rest ∧ ds[j]! ≠ j := by
  intro rest
  induction rest with
  | nil => intro _ _ _ _ j hj; cases hj
  | cons y rest ih =>
    intro x d hc hn j hj
    obtain ⟨_, hy, hc'⟩ := hc
    rw [List.nodup_cons] at hn
    simp only [List.mem_cons] at hj
    rcases hj with hj | hj
    · subst hj
      refine ⟨by simp [hy], ?_⟩
      rw [hy]; intro hxy; exact hn.1 (by simp [hxy])
    · have := ih (x := y) (d := x) ⟨hy, hc'⟩ hn.2 j hj
      exact ⟨by simp [this.1], this.2⟩

/-! ### the two stack-popping loops -/

theorem rankMarkLoop_size (ranks : Array Int) (stack : List Nat) :
    (rankMarkLoop ranks stack).size = ranks.size := by
  unfold rankMarkLoop
  induction stack generalizing ranks with
  | nil => rfl
  | cons x l ih => simp [List.foldl_cons, ih]

theorem rankMarkLoop_get (ranks : Array Int) (stack : List Nat) (j : Nat) :
    (rankMarkLoop ranks stack)[j]! = if j ∈ stack ∧ j < ranks.size then -1 else ranks[j]! := by
  unfold rankMarkLoop
  induction stack generalizing ranks with
  | nil => simp
  | cons x l ih =>
    rw [List.foldl_cons, ih, get!_setIfInBounds]
    simp only [Array.size_setIfInBounds, List.mem_cons]
    by_cases hjl : j ∈ l <;> by_cases hj : j < ranks.size <;> by_cases hx : x = j <;> simp_all
    · intro h; exact absurd h.symm hx
    · intro h; exact absurd h.symm hx

theorem rankAssign_spec : ∀ (stack : List Nat) (ds : Array Nat) (ranks : Array Int) (rnk : Int) (d : Nat),
    0 ≤ rnk → ranks[d]! = rnk → d ∉ stack → ChainTo ds stack d → stack.Nodup →
    (∀ j ∈ stack, j < ranks.size) →
    (rankAssign ranks stack rnk).1.size = ranks.size ∧
    (∀ j, j ∉ stack → (rankAssign ranks stack rnk).1[j]! = ranks[j]!) ∧
    (∀ j ∈ stack, 0 ≤ (rankAssign ranks stack rnk).1[ds[j]!]! ∧
      (rankAssign ranks stack rnk).1[j]! = (rankAssign ranks stack rnk).1[ds[j]!]! + 1) ∧
    (rankAssign ranks stack rnk).2 = stack.length := by
  intro stack
  induction stack with
  | nil => intro ds ranks rnk d _ _ _ _ _ _; simp [rankAssign]
  | cons x rest ih =>
    intro ds ranks rnk d h0 hd hnotin hc hn hb
    obtain ⟨hx, hc'⟩ := hc
    rw [List.nodup_cons] at hn
    have hxb : x < ranks.size := hb x (by simp)
    have hdx : d ≠ x := fun h => hnotin (by simp [h])
    have hdrest : d ∉ rest := fun h => hnotin (by simp [h])
    obtain ⟨ranks', hr'⟩ : ∃ o, o = ranks.setIfInBounds x (rnk + 1) := ⟨_, rfl⟩
    have hx' : ranks'[x]! = rnk + 1 := by rw [hr', get!_setIfInBounds]; simp [hxb]
    have hoth : ∀ j, j ≠ x → ranks'[j]! = ranks[j]! := by
      intro j hj; rw [hr', get!_setIfInBounds]
      have : ¬ x = j := fun h => hj h.symm
      simp [this]
    have hsz' : ranks'.size = ranks.size := by rw [hr']; simp
    obtain ⟨i1, i2, i3, i4⟩ := ih ds ranks' (rnk + 1) x (by omega) hx' hn.1 hc' hn.2
      (fun j hj => by rw [hsz']; exact hb j (by simp [hj]))
    have heq : rankAssign ranks (x :: rest) rnk =
        ((rankAssign ranks' rest (rnk + 1)).1, (rankAssign ranks' rest (rnk + 1)).2 + 1) := by
      simp [rankAssign, hr']
    rw [heq]
    simp only []
    refine ⟨by rw [i1, hsz'], ?_, ?_, by simp [i4]⟩
    · intro j hj
      simp only [List.mem_cons, not_or] at hj
      rw [i2 j hj.2, hoth j hj.1]
    · intro j hj
      simp only [List.mem_cons] at hj
      rcases hj with hj | hj
      · subst hj
        rw [hx, i2 d hdrest, hoth d hdx, hd, i2 j hn.1, hx']
        exact ⟨h0, rfl⟩
      · exact i3 j hj

/-! ### framing: certifying the stack cells preserves the invariant -/

theorem PInv.frame {ds : Array Nat} {ranks r : Array Int} {stack : List Nat} (h : PInv ds ranks)
    (hsz : r.size = ranks.size) (hout : ∀ j, j ∉ stack → r[j]! = ranks[j]!)
    (hst : ∀ j ∈ stack, j < ds.size ∧ ds[j]! ≠ ds.size ∧ ranks[j]! = -9999)
    (hdone : ∀ j ∈ stack, DoneAt ds r j) :
    PInv ds r ∧ (∀ j : Nat, ranks[j]! ≠ -9999 → r[j]! = ranks[j]!) ∧ (∀ j ∈ stack, r[j]! ≠ -9999) := by
  have hmono : ∀ j, ranks[j]! ≠ -9999 → j ∉ stack := fun j hj hm => hj (hst j hm).2.2
  refine ⟨⟨by rw [hsz, h.size], ?_, ?_⟩, fun j hj => hout j (hmono j hj), fun j hj => (hdone j hj).ne⟩
  · intro i hi hd
    have : i ∉ stack := fun hm => (hst i hm).2.1 hd
    rw [hout i this]; exact h.nodata i hi hd
  · intro i hi hd
    by_cases hm : i ∈ stack
    · exact Or.inr (hdone i hm)
    · rw [hout i hm]
      rcases h.cell i hi hd with h1 | h1
      · exact Or.inl h1
      · refine Or.inr ?_
        rcases h1 with ⟨hp, h0⟩ | ⟨hp, hh⟩
        · exact Or.inl ⟨hp, by rw [hout i hm]; exact h0⟩
        · have hds : ds[i]! ∉ stack := by
            apply hmono
            rcases hh with ⟨_, h2⟩ | ⟨h2, _⟩ <;> omega
          refine Or.inr ⟨hp, ?_⟩
          rw [hout i hm, hout _ hds]; exact hh

/-! ### counting the ranked cells -/

/-- number of cells with rank ≥ 0 (`n` of `core.rank`, `np.sum(rank >= 0)` of `nnodes`) -/
def cntNonneg (n : Nat) (rk : Array Int) : Nat :=
  (List.range n).countP (fun i => decide ((0:Int) ≤ rk[i]!))

theorem and4 {A B C D : Prop} (h : A ∧ B ∧ C) (d : D) : A ∧ B ∧ C ∧ D := ⟨h.1, h.2.1, h.2.2, d⟩

theorem cnt_frame_neg {n : Nat} {ranks r : Array Int} {stack : List Nat}
    (hout : ∀ j, j ∉ stack → r[j]! = ranks[j]!)
    (hneg : ∀ j ∈ stack, ranks[j]! < 0) (hneg' : ∀ j ∈ stack, r[j]! < 0) :
    cntNonneg n r = cntNonneg n ranks := by
  unfold cntNonneg
  apply List.countP_congr
  intro j _
  by_cases hm : j ∈ stack
  · have h1 := hneg j hm
    have h2 := hneg' j hm
    simp only [decide_eq_true_eq]
    constructor <;> intro <;> omega
  · rw [hout j hm]

theorem cnt_frame_pos {n : Nat} {ranks r : Array Int} {stack : List Nat} (hn : stack.Nodup)
    (hb : ∀ j ∈ stack, j < n) (hout : ∀ j, j ∉ stack → r[j]! = ranks[j]!)
    (hneg : ∀ j ∈ stack, ranks[j]! < 0) (hpos : ∀ j ∈ stack, 0 ≤ r[j]!) :
    cntNonneg n r = cntNonneg n ranks + stack.length := by
  unfold cntNonneg
  rw [List.countP_eq_length_filter, List.countP_eq_length_filter, ← List.length_append]
  apply List.Perm.length_eq
  have hnd1 : ((List.range n).filter (fun i => decide ((0:Int) ≤ ranks[i]!))).Nodup :=
    List.Nodup.sublist List.filter_sublist List.nodup_range
  rw [List.perm_ext_iff_of_nodup (List.Nodup.sublist List.filter_sublist List.nodup_range)
    (List.nodup_append.2 ⟨hnd1, hn, fun a ha b hb hab => by
      subst hab
      simp only [List.mem_filter, decide_eq_true_eq] at ha
      have := hneg a hb; omega⟩)]
  intro a
  simp only [List.mem_filter, List.mem_range, decide_eq_true_eq, List.mem_append]
  by_cases hm : a ∈ stack
  · have := hpos a hm
    have := hb a hm
    simp [*]
  · rw [hout a hm]; simp [hm]

/-! ### the inner walk -/

theorem rankWalk_spec (ds : Array Nat) (hwf : WF ds) :
    ∀ (fuel : Nat) (ranks : Array Int) (idx0 : Nat) (rest : List Nat),
      PInv ds ranks → ChainTo ds (idx0 :: rest) ds[idx0]! → (idx0 :: rest).Nodup →
      (∀ j ∈ idx0 :: rest, j < ds.size ∧ ds[j]! ≠ ds.size ∧ ranks[j]! = -9999) →
      ds.size + 1 ≤ fuel + rest.length →
      ∃ r c, rankWalk ds ranks fuel idx0 ds[idx0]! (idx0 :: rest) = some (r, c) ∧
        PInv ds r ∧ (∀ j : Nat, ranks[j]! ≠ -9999 → r[j]! = ranks[j]!) ∧
        (∀ j ∈ idx0 :: rest, r[j]! ≠ -9999) ∧
        cntNonneg ds.size r = cntNonneg ds.size ranks + c := by
  intro fuel
  induction fuel with
  | zero =>
    intro ranks idx0 rest _ _ hn hst hf
    exfalso
    have hlen : (idx0 :: rest).length ≤ (List.range ds.size).length :=
      List.Nodup.length_le_of_subset hn (fun i hi => List.mem_range.2 (hst i hi).1)
    simp only [List.length_cons, List.length_range] at hlen
    omega
  | succ fuel ih =>
    intro ranks idx0 rest hinv hc hn hst hf
    obtain ⟨d, hd⟩ : ∃ d, d = ds[idx0]! := ⟨_, rfl⟩
    rw [← hd] at hc ⊢
    have h0 := hst idx0 (by simp)
    have hszr : ranks.size = ds.size := hinv.size
    have hdlt : d < ds.size := by
      have := (hwf idx0 h0.1).1; rw [hd]; omega
    have hdvalid : ds[d]! < ds.size := by rw [hd]; exact (hwf idx0 h0.1).2 (by rw [← hd]; exact hdlt)
    have hbound : ∀ j ∈ idx0 :: rest, j < ranks.size := fun j hj => by rw [hszr]; exact (hst j hj).1
    have hneg : ∀ j ∈ idx0 :: rest, ranks[j]! < 0 := fun j hj => by have := (hst j hj).2.2; omega
    have hlt : ∀ j ∈ idx0 :: rest, j < ds.size := fun j hj => (hst j hj).1
    have hnd0 : (idx0 :: rest).Nodup := hn
    unfold rankWalk
    simp only []
    by_cases hge : ranks[d]! ≥ 0
    · -- the walk met a ranked cell: number the stack from there
      rw [if_pos hge]
      have hdnot : d ∉ idx0 :: rest := fun hm => by have := (hst d hm).2.2; omega
      obtain ⟨a1, a2, a3, a4⟩ := rankAssign_spec (idx0 :: rest) ds ranks ranks[d]! d hge rfl hdnot hc hn hbound
      refine ⟨(rankAssign ranks (idx0 :: rest) ranks[d]!).1, (rankAssign ranks (idx0 :: rest) ranks[d]!).2, rfl, ?_⟩
      refine and4 (hinv.frame a1 a2 hst (fun j hj => ?_)) ?_
      · have := a3 j hj
        refine Or.inr ⟨fun hp => ?_, Or.inr this⟩
        rw [hp] at this; omega
      · rw [a4]
        exact cnt_frame_pos hnd0 hlt a2 hneg (fun j hj => by have := a3 j hj; omega)
    · rw [if_neg hge]
      by_cases hpit : d = idx0
      · -- pit: number the stack from 0
        rw [if_pos hpit]
        obtain ⟨hx, hc'⟩ := hc
        rw [List.nodup_cons] at hn
        obtain ⟨ranks', hr'⟩ : ∃ o, o = ranks.setIfInBounds idx0 ((-1 : Int) + 1) := ⟨_, rfl⟩
        have hx' : ranks'[idx0]! = (-1 : Int) + 1 := by rw [hr', get!_setIfInBounds]; simp [hbound idx0 (by simp)]
        have hoth : ∀ j, j ≠ idx0 → ranks'[j]! = ranks[j]! := by
          intro j hj; rw [hr', get!_setIfInBounds]
          have : ¬ idx0 = j := fun h => hj h.symm
          simp [this]
        have hsz' : ranks'.size = ranks.size := by rw [hr']; simp
        obtain ⟨a1, a2, a3, a4⟩ := rankAssign_spec rest ds ranks' ((-1 : Int) + 1) idx0 (by omega) hx' hn.1 hc' hn.2
          (fun j hj => by rw [hsz']; exact hbound j (by simp [hj]))
        have heq : rankAssign ranks (idx0 :: rest) (-1) =
            ((rankAssign ranks' rest ((-1 : Int) + 1)).1, (rankAssign ranks' rest ((-1 : Int) + 1)).2 + 1) := by
          simp [rankAssign, hr']
        rw [heq]
        have hout' : ∀ j, j ∉ idx0 :: rest → (rankAssign ranks' rest ((-1 : Int) + 1)).1[j]! = ranks[j]! := by
          intro j hj
          simp only [List.mem_cons, not_or] at hj
          rw [a2 j hj.2, hoth j hj.1]
        have hr0 : (rankAssign ranks' rest ((-1 : Int) + 1)).1[idx0]! = 0 := by
          rw [a2 idx0 hn.1, hx']; rfl
        refine ⟨(rankAssign ranks' rest ((-1 : Int) + 1)).1, (rankAssign ranks' rest ((-1 : Int) + 1)).2 + 1, rfl, ?_⟩
        refine and4 (hinv.frame (by rw [a1, hsz']) hout' hst (fun j hj => ?_)) ?_
        · simp only [List.mem_cons] at hj
          rcases hj with hj | hj
          · subst hj
            exact Or.inl ⟨by rw [← hd]; exact hpit, hr0⟩
          · have := a3 j hj
            refine Or.inr ⟨fun hp => ?_, Or.inr this⟩
            rw [hp] at this; omega
        · rw [a4]
          have := cnt_frame_pos hnd0 hlt hout' hneg (fun j hj => by
            simp only [List.mem_cons] at hj
            rcases hj with hj | hj
            · rw [hj, hr0]; exact Int.le_refl 0
            · have := a3 j hj; omega)
          simpa using this
      · rw [if_neg hpit]
        by_cases hloop : ranks[d]! = -1 ∨ d ∈ idx0 :: rest
        · -- the walk ran into a loop (or into a cell known not to drain): mark the stack
          rw [if_pos hloop]
          refine ⟨rankMarkLoop ranks (idx0 :: rest), 0, rfl, ?_⟩
          have hget := rankMarkLoop_get ranks (idx0 :: rest)
          have hin : ∀ j ∈ idx0 :: rest, (rankMarkLoop ranks (idx0 :: rest))[j]! = -1 := by
            intro j hj; rw [hget]; simp only [hj, hbound j hj, and_self, if_true]
          refine and4 (hinv.frame (rankMarkLoop_size _ _) (fun j hj => ?_) hst (fun j hj => ?_)) ?_
          · rw [hget]; simp only [hj, false_and, if_false]
          · have hdj : ds[j]! ≠ j ∧ (rankMarkLoop ranks (idx0 :: rest))[ds[j]!]! = -1 := by
              simp only [List.mem_cons] at hj
              rcases hj with hj | hj
              · subst hj
                rw [← hd]
                refine ⟨hpit, ?_⟩
                by_cases hdm : d ∈ j :: rest
                · exact hin d hdm
                · rw [hget]; simp only [hdm, false_and, if_false]
                  rcases hloop with h1 | h1
                  · exact h1
                  · exact absurd h1 hdm
              · have := hc.inner hn j hj
                exact ⟨this.2, hin _ this.1⟩
            exact Or.inr ⟨hdj.1, Or.inl ⟨hin j hj, hdj.2⟩⟩
          · simpa using cnt_frame_neg (n := ds.size)
              (fun j hj => by rw [hget]; simp only [hj, false_and, if_false]) hneg
              (fun j hj => by rw [hin j hj]; omega)
        · -- next iteration: push the downstream cell
          rw [if_neg hloop]
          have hnl : ranks[d]! ≠ -1 ∧ d ∉ idx0 :: rest := by
            constructor
            · exact fun h => hloop (Or.inl h)
            · exact fun h => hloop (Or.inr h)
          have hdne : ds[d]! ≠ ds.size := by omega
          have hund : ranks[d]! = -9999 := by
            rcases hinv.cell d hdlt hdne with h1 | h1
            · exact h1
            · exfalso
              rcases h1 with ⟨_, h2⟩ | ⟨_, ⟨h2, _⟩ | ⟨h2, h3⟩⟩
              · omega
              · exact hnl.1 h2
              · omega
          have := ih ranks d (idx0 :: rest) hinv ⟨rfl, hc⟩ (List.nodup_cons.2 ⟨hnl.2, hn⟩)
            (fun j hj => by
              simp only [List.mem_cons] at hj
              rcases hj with hj | hj
              · rw [hj]; exact ⟨hdlt, hdne, hund⟩
              · exact hst j (by simpa using hj))
            (by simp only [List.length_cons]; omega)
          obtain ⟨r, c, h1, h2, h3, h4, h5⟩ := this
          exact ⟨r, c, h1, h2, h3, fun j hj => h4 j (by simp only [List.mem_cons] at hj ⊢; exact Or.inr hj), h5⟩

/-! ### the outer loop -/

/-- body of the `for idx0 in range(size)` loop of `core.rank` -/
def rankStep (ds : Array Nat) (st : Array Int × Nat) (idx0 : Nat) : Option (Array Int × Nat) :=
  if ds[idx0]! = ds.size ∨ st.1[idx0]! ≠ -9999 then some (st.1, st.2)
  else match rankWalk ds st.1 (ds.size + 1) idx0 ds[idx0]! [idx0] with
    | none => none
    | some (r, c) => some (r, st.2 + c)

theorem rank_eq_fold (ds : Array Nat) :
    rank ds = (List.range ds.size).foldlM (rankStep ds) (Array.replicate ds.size (-9999), 0) := by
  unfold rank
  congr 1

theorem rankStep_spec (ds : Array Nat) (hwf : WF ds) (st : Array Int × Nat) (idx0 : Nat)
    (hinv : PInv ds st.1) (hi : idx0 < ds.size) :
    ∃ st', rankStep ds st idx0 = some st' ∧ PInv ds st'.1 ∧
      (∀ j : Nat, st.1[j]! ≠ -9999 → st'.1[j]! = st.1[j]!) ∧ (ds[idx0]! ≠ ds.size → st'.1[idx0]! ≠ -9999) ∧
      (st.2 = cntNonneg ds.size st.1 → st'.2 = cntNonneg ds.size st'.1) := by
  unfold rankStep
  by_cases hskip : ds[idx0]! = ds.size ∨ st.1[idx0]! ≠ -9999
  · rw [if_pos hskip]
    refine ⟨_, rfl, hinv, fun _ _ => rfl, fun hne => ?_, fun h => h⟩
    rcases hskip with h | h
    · exact absurd h hne
    · exact h
  · rw [if_neg hskip]
    have hne : ds[idx0]! ≠ ds.size := fun h => hskip (Or.inl h)
    have hun : st.1[idx0]! = -9999 := by
      by_cases h : st.1[idx0]! = -9999
      · exact h
      · exact absurd (Or.inr h) hskip
    obtain ⟨r, c, h1, h2, h3, h4, h5⟩ := rankWalk_spec ds hwf (ds.size + 1) st.1 idx0 [] hinv ⟨rfl, trivial⟩
      (by simp) (fun j hj => by simp only [List.mem_singleton] at hj; subst hj; exact ⟨hi, hne, hun⟩)
      (by simp)
    rw [h1]
    exact ⟨_, rfl, h2, h3, fun _ => h4 idx0 (by simp), fun h => by simp only []; omega⟩

theorem rankFold_spec (ds : Array Nat) (hwf : WF ds) :
    ∀ (l : List Nat) (st : Array Int × Nat), PInv ds st.1 → (∀ i ∈ l, i < ds.size) →
      ∃ st', l.foldlM (rankStep ds) st = some st' ∧ PInv ds st'.1 ∧
        (∀ j : Nat, st.1[j]! ≠ -9999 → st'.1[j]! = st.1[j]!) ∧
        (∀ i ∈ l, ds[i]! ≠ ds.size → st'.1[i]! ≠ -9999) ∧
        (st.2 = cntNonneg ds.size st.1 → st'.2 = cntNonneg ds.size st'.1) := by
  intro l
  induction l with
  | nil => intro st h _; exact ⟨st, rfl, h, fun _ _ => rfl, fun i hi => (by cases hi), fun h => h⟩
  | cons x l ih =>
    intro st hinv hb
    obtain ⟨st1, e1, p1, m1, d1, c1⟩ := rankStep_spec ds hwf st x hinv (hb x (by simp))
    obtain ⟨st2, e2, p2, m2, d2, c2⟩ := ih st1 p1 (fun i hi => hb i (by simp [hi]))
    refine ⟨st2, ?_, p2, fun j hj => ?_, fun i hi hne => ?_, fun h => c2 (c1 h)⟩
    · rw [List.foldlM_cons, e1]; exact e2
    · have := m1 j hj
      rw [m2 j (by rw [this]; exact hj), this]
    · simp only [List.mem_cons] at hi
      rcases hi with hi | hi
      · subst hi
        have := d1 hne
        rw [m2 i this]; exact this
      · exact d2 i hi hne

/-- **`core.rank` terminates and its output satisfies the rank certificate** -/
theorem rank_cert' (ds : Array Nat) (hwf : WF ds) :
    ∃ r c, rank ds = some (r, c) ∧ RankCertA ds r ∧ c = cntNonneg ds.size r := by
  have hinit : PInv ds (Array.replicate ds.size (-9999)) := by
    refine ⟨by simp, fun i hi _ => by simp [hi], fun i hi _ => Or.inl (by simp [hi])⟩
  obtain ⟨st, e, p, _, d, hc⟩ := rankFold_spec ds hwf (List.range ds.size) (Array.replicate ds.size (-9999), 0)
    hinit (fun i hi => List.mem_range.1 hi)
  have hc0 : (0 : Nat) = cntNonneg ds.size (Array.replicate ds.size (-9999)) := by
    unfold cntNonneg
    rw [eq_comm, List.countP_eq_zero]
    intro i hi
    simp [List.mem_range.1 hi]
  refine ⟨st.1, st.2, by rw [rank_eq_fold, e], ⟨p.size, p.nodata, ?_, ?_, ?_⟩, hc hc0⟩
  · intro i hi hne
    have := (hwf i hi).1; omega
  · intro i hi hp
    have hne : ds[i]! ≠ ds.size := by omega
    rcases p.cell i hi hne with h1 | h1
    · exact absurd h1 (d i (List.mem_range.2 hi) hne)
    · rcases h1 with ⟨_, h2⟩ | ⟨h2, _⟩
      · exact h2
      · exact absurd hp h2
  · intro i hi hne hp
    rcases p.cell i hi hne with h1 | h1
    · exact absurd h1 (d i (List.mem_range.2 hi) hne)
    · rcases h1 with ⟨h2, _⟩ | ⟨_, h2⟩
      · exact absurd h2 hp
      · exact h2

end Pf
