import PfVerif.Proofs.C19Split
/-! Vertex-level form of the split rule (C19): gluing the pieces of a split stream back together - each
piece after the first without its first vertex, which is the last vertex of the piece before - gives the
unsplit stream. Core Lean only. -/
namespace Pf.C19
open Pf

/-- concatenation of consecutive pieces that share their joint vertex: the first piece, then every later
piece without its first vertex -/
def joinPieces : List (List Nat) → List Nat
  | [] => []
  | p :: ps => p ++ ps.flatMap List.tail

theorem tail_take_succ (n : Nat) (L : List Nat) : (L.take (n + 1)).tail = L.tail.take n := by
  cases L <;> simp

theorem tail_drop_c19 (n : Nat) (L : List Nat) : (L.drop n).tail = L.tail.drop n := by
  cases L with
  | nil => simp
  | cons x r => rw [List.tail_drop]; simp

/-- the tails of the slices of the split loop concatenate to the tail of the stream -/
theorem splitLoop_tails (n : Nat) : ∀ (k : Nat) (L : List Nat), 0 < k →
    (splitLoop L n k).flatMap List.tail = L.tail := by
  intro k
  induction k with
  | zero => intro _ h; omega
  | succ k ih =>
    intro L _
    by_cases hk : k = 0
    · subst hk; simp [splitLoop_one]
    · rw [splitLoop_succ L n k (by omega), List.flatMap_cons, ih (L.drop n) (by omega),
        tail_take_succ, tail_drop_c19, List.take_append_drop]

/-- the slices of the split loop glue back to the stream, for every slice width `n` and every `k ≥ 1` -/
theorem splitLoop_join (n k : Nat) (L : List Nat) (hk : 0 < k) : joinPieces (splitLoop L n k) = L := by
  cases k with
  | zero => omega
  | succ k =>
    by_cases hk0 : k = 0
    · subst hk0; simp [splitLoop_one, joinPieces]
    · rw [splitLoop_succ L n k (by omega)]
      simp only [joinPieces]
      rw [splitLoop_tails n k (L.drop n) (by omega), tail_drop_c19]
      have : L.tail.drop n = L.drop (n + 1) := by cases L <;> simp
      rw [this, List.take_append_drop]

theorem splitPieces_join (idxs : List Nat) (m : Nat) : joinPieces (splitPieces idxs m) = idxs := by
  unfold splitPieces
  split
  · rename_i hc
    apply splitLoop_join
    unfold splitNK
    split
    · rename_i h15
      have := (split_arith_rhe idxs.length m hc.2 h15).1
      simp only
      omega
    · simp
  · simp [joinPieces]

end Pf.C19
