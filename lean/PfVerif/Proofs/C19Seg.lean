import PfVerif.Proofs.C19Walk
/-! `subgrid.segment_indices` (C19, `streams(idxs_out=...)`): what one segment walk returns and what
the list of segments consists of. Core Lean only. -/
namespace Pf.C19
open Pf

/-- `SegFrom … idx len tail pit last`: started at `idx` with `len` vertices collected, the loop appends
`tail`, and leaves `pit`, `idx1 = last` -/
inductive SegFrom (nxt : Array Nat) (outlets : Array Bool) (mask : Option (Array Bool)) (maxLen : Nat) :
    Nat → Nat → List Nat → Bool → Nat → Prop
  | stop (idx len : Nat) : segStop nxt mask maxLen idx len = true →
      SegFrom nxt outlets mask maxLen idx len [] (nxt[idx]! == idx) nxt[idx]!
  | outlet (idx len : Nat) : segStop nxt mask maxLen idx len = false → outlets[nxt[idx]!]! = true →
      SegFrom nxt outlets mask maxLen idx len [nxt[idx]!] (nxt[idx]! == idx) nxt[idx]!
  | step (idx len : Nat) (tail : List Nat) (pit : Bool) (last : Nat) :
      segStop nxt mask maxLen idx len = false → outlets[nxt[idx]!]! = false →
      SegFrom nxt outlets mask maxLen nxt[idx]! (len + 1) tail pit last →
      SegFrom nxt outlets mask maxLen idx len (nxt[idx]! :: tail) pit last

theorem segWalk_spec (nxt : Array Nat) (outlets : Array Bool) (mask : Option (Array Bool)) (maxLen : Nat) :
    ∀ (fuel idx : Nat) (acc : List Nat) (r : List Nat × Bool × Nat),
      segWalk nxt outlets mask maxLen fuel idx acc = some r →
      ∃ tail, SegFrom nxt outlets mask maxLen idx acc.length tail r.2.1 r.2.2 ∧ r.1 = acc.reverse ++ tail := by
  intro fuel
  induction fuel with
  | zero => intro idx acc r h; simp [segWalk] at h
  | succ fuel ih =>
    intro idx acc r h
    simp only [segWalk] at h
    by_cases hs : segStop nxt mask maxLen idx acc.length = true
    · simp only [hs, if_true, Option.some.injEq] at h
      subst h
      exact ⟨[], SegFrom.stop idx _ hs, by simp⟩
    · have hs' : segStop nxt mask maxLen idx acc.length = false := by simpa using hs
      simp only [hs', Bool.false_eq_true, if_false] at h
      by_cases ho : outlets[nxt[idx]!]! = true
      · simp only [ho, if_true, Option.some.injEq] at h
        subst h
        exact ⟨[nxt[idx]!], SegFrom.outlet idx _ hs' ho, by simp⟩
      · have ho' : outlets[nxt[idx]!]! = false := by simpa using ho
        simp only [ho', Bool.false_eq_true, if_false] at h
        obtain ⟨tail, hw, hr⟩ := ih _ _ r h
        exact ⟨nxt[idx]! :: tail, SegFrom.step idx _ tail _ _ hs' ho' (by simpa using hw), by simp [hr]⟩

/-- what `segStop = false` means for the step `idx → nxt idx` -/
theorem segStop_false {nxt : Array Nat} {mask : Option (Array Bool)} {maxLen idx len : Nat}
    (h : segStop nxt mask maxLen idx len = false) :
    nxt[idx]! ≠ nxt.size ∧ nxt[idx]! ≠ idx ∧ maskAt mask nxt[idx]! = true ∧ (0 < maxLen → len ≠ maxLen) := by
  unfold segStop at h
  simp only [Bool.or_eq_false_iff, decide_eq_false_iff_not, beq_eq_false_iff_ne, ne_eq,
    Bool.and_eq_false_imp, decide_eq_true_eq] at h
  obtain ⟨⟨⟨h1, h2⟩, h3⟩, h4⟩ := h
  refine ⟨h1, h2, ?_, h4⟩
  cases mask with
  | none => rfl
  | some mk => simpa [maskAt] using h3

variable {nxt : Array Nat} {outlets : Array Bool} {mask : Option (Array Bool)} {maxLen : Nat}

/-- consecutive vertices of a segment are a cell and its different, existing, unmasked next cell -/
theorem SegFrom.linked {idx len : Nat} {tail : List Nat} {pit : Bool} {last : Nat}
    (h : SegFrom nxt outlets mask maxLen idx len tail pit last) :
    ∀ p ∈ pairsOf (idx :: tail), nxt[p.1]! = p.2 ∧ p.1 ≠ p.2 ∧ p.2 ≠ nxt.size ∧ maskAt mask p.2 = true := by
  induction h with
  | stop idx len _ => intro p hp; simp at hp
  | outlet idx len hs _ =>
    intro p hp
    rw [pairsOf_cons_cons] at hp
    simp at hp
    subst hp
    obtain ⟨h1, h2, h3, _⟩ := segStop_false hs
    exact ⟨rfl, fun h => h2 h.symm, h1, h3⟩
  | step idx len tail pit last hs _ _ ih =>
    intro p hp
    rw [pairsOf_cons_cons] at hp
    rcases List.mem_cons.mp hp with hp | hp
    · subst hp
      obtain ⟨h1, h2, h3, _⟩ := segStop_false hs
      exact ⟨rfl, fun h => h2 h.symm, h1, h3⟩
    · exact ih p hp

/-- no interior vertex of a segment is an outlet -/
theorem SegFrom.interior {idx len : Nat} {tail : List Nat} {pit : Bool} {last : Nat}
    (h : SegFrom nxt outlets mask maxLen idx len tail pit last) :
    ∀ v ∈ interior (idx :: tail), outlets[v]! = false := by
  induction h with
  | stop idx len _ => intro v hv; simp [Pf.interior] at hv
  | outlet idx len _ _ => intro v hv; simp [Pf.interior] at hv
  | step idx len tail pit last _ ho hw ih =>
    intro v hv
    cases tail with
    | nil => simp [Pf.interior] at hv
    | cons y r =>
      simp only [Pf.interior, List.tail_cons] at hv ih
      rw [List.dropLast_cons_cons] at hv
      rcases List.mem_cons.mp hv with hv | hv
      · subst hv; exact ho
      · exact ih v hv

/-- with a maximum length the segment never has more than `max_len` vertices -/
theorem SegFrom.length {idx len : Nat} {tail : List Nat} {pit : Bool} {last : Nat}
    (h : SegFrom nxt outlets mask maxLen idx len tail pit last) (hm : 0 < maxLen) (hl : len ≤ maxLen) :
    len + tail.length ≤ maxLen := by
  induction h with
  | stop idx len _ => simpa using hl
  | outlet idx len hs _ =>
    have := (segStop_false hs).2.2.2 hm
    simp; omega
  | step idx len tail pit last hs _ _ ih =>
    have := (segStop_false hs).2.2.2 hm
    have := ih (by omega)
    simp; omega

/-- how a segment ends: at a cell where the loop breaks (no next cell, pit, masked next cell, `max_len`
reached) — then `idx1` is that cell's next cell and `pit` says whether it is the cell itself — or at the
next outlet -/
theorem SegFrom.ends {idx len : Nat} {tail : List Nat} {pit : Bool} {last : Nat}
    (h : SegFrom nxt outlets mask maxLen idx len tail pit last) :
    ∃ e, (idx :: tail).getLast? = some e ∧
      ((segStop nxt mask maxLen e (len + tail.length) = true ∧ last = nxt[e]! ∧ pit = (nxt[e]! == e)) ∨
       (tail ≠ [] ∧ outlets[e]! = true ∧ last = e ∧ pit = false)) := by
  induction h with
  | stop idx len hs => exact ⟨idx, rfl, Or.inl ⟨by simpa using hs, rfl, rfl⟩⟩
  | outlet idx len hs ho =>
    refine ⟨nxt[idx]!, rfl, Or.inr ⟨by simp, ho, rfl, ?_⟩⟩
    have := (segStop_false hs).2.1
    simpa using this
  | step idx len tail pit last _ _ _ ih =>
    obtain ⟨e, he, hcase⟩ := ih
    refine ⟨e, by rw [List.getLast?_cons_cons]; exact he, ?_⟩
    rcases hcase with ⟨h1, h2, h3⟩ | ⟨_, h2, h3, h4⟩
    · left
      refine ⟨?_, h2, h3⟩
      have : len + (nxt[idx]! :: tail).length = len + 1 + tail.length := by simp; omega
      rw [this]; exact h1
    · exact Or.inr ⟨by simp, h2, h3, h4⟩

/-- `pit` is set only when the segment ended at a pit, and then `idx1` is that pit -/
theorem SegFrom.pit_last {idx len : Nat} {tail : List Nat} {pit : Bool} {last : Nat}
    (h : SegFrom nxt outlets mask maxLen idx len tail pit last) (hp : pit = true) : nxt[last]! = last := by
  obtain ⟨e, _, hcase⟩ := h.ends
  rcases hcase with ⟨_, h2, h3⟩ | ⟨_, _, _, h4⟩
  · rw [h3] at hp
    have : nxt[e]! = e := by simpa using hp
    rw [h2, this, this]
  · rw [h4] at hp; cases hp

/-! ### the list of segments -/

theorem foldlM_seg_forall (nxt : Array Nat) (outlets : Array Bool) (mask : Option (Array Bool))
    (maxLen : Nat) (P : List Nat → Prop) (L : List Nat)
    (hstep : ∀ (idx0 : Nat) (r : List Nat × Bool × Nat), idx0 ∈ L → idx0 ≠ nxt.size →
      segWalk nxt outlets mask maxLen (nxt.size + 1) idx0 [idx0] = some r → ∀ f ∈ segFeatures r, P f) :
    ∀ (l : List Nat) (out out' : List (List Nat)), (∀ i ∈ l, i ∈ L) →
      l.foldlM (segStep nxt outlets mask maxLen) out = some out' →
      (∀ f ∈ out, P f) → ∀ f ∈ out', P f := by
  intro l
  induction l with
  | nil =>
    intro out out' _ h hst
    simp only [List.foldlM_nil] at h
    cases h
    exact hst
  | cons a l ih =>
    intro out out' hsub h hst
    rw [List.foldlM_cons] at h
    cases hs : segStep nxt outlets mask maxLen out a with
    | none => rw [hs] at h; cases h
    | some o1 =>
      rw [hs] at h
      refine ih o1 out' (fun i hi => hsub i (by simp [hi])) h ?_
      unfold segStep at hs
      split at hs
      · cases hs; exact hst
      · rename_i hne
        split at hs
        · cases hs
        · rename_i r hr
          cases hs
          intro f hf
          rcases List.mem_append.mp hf with hf | hf
          · exact hst f hf
          · exact hstep a r (hsub a (by simp)) hne hr f hf

end Pf.C19

namespace Pf.C19
open Pf

/-- the temporary outlet flags: cell `i` is flagged iff it is a listed outlet (in range) -/
theorem segOutlets_get (idxsOut : List Nat) (n i : Nat) :
    (segOutlets idxsOut n)[i]! = true ↔ (i ∈ idxsOut ∧ i < n) := by
  unfold segOutlets
  suffices hs : ∀ (l : List Nat) (o : Array Bool), o.size = n →
      ((l.foldl (fun o i => if i ≠ n then o.setIfInBounds i true else o) o)[i]! = true ↔
        (o[i]! = true ∨ (i ∈ l ∧ i < n))) by
    rw [hs idxsOut _ (by simp)]
    constructor
    · rintro (h | h)
      · exfalso
        by_cases hlt : i < n
        · simp [hlt] at h
        · simp [hlt] at h
      · exact h
    · exact Or.inr
  intro l
  induction l with
  | nil => intro o _; simp
  | cons x l ih =>
    intro o ho
    rw [List.foldl_cons]
    by_cases hx : x ≠ n
    · rw [if_pos hx, ih _ (by simpa using ho), get!_setIfInBounds, ho]
      constructor
      · rintro (h | h)
        · split at h
          · rename_i hc; exact Or.inr ⟨by simp [hc.1], hc.1 ▸ hc.2⟩
          · exact Or.inl h
        · exact Or.inr ⟨List.mem_cons_of_mem _ h.1, h.2⟩
      · rintro (h | ⟨h1, h2⟩)
        · left; split
          · rfl
          · exact h
        · rcases List.mem_cons.mp h1 with rfl | h1
          · left; rw [if_pos ⟨rfl, h2⟩]
          · exact Or.inr ⟨h1, h2⟩
    · have hx' : x = n := by
        apply Classical.byContradiction
        intro h; exact hx h
      rw [if_neg hx, ih _ ho]
      constructor
      · rintro (h | h)
        · exact Or.inl h
        · exact Or.inr ⟨List.mem_cons_of_mem _ h.1, h.2⟩
      · rintro (h | ⟨h1, h2⟩)
        · exact Or.inl h
        · rcases List.mem_cons.mp h1 with rfl | h1
          · omega
          · exact Or.inr ⟨h1, h2⟩

end Pf.C19
