import PfVerif.Proofs.C09_ihuInv
import PfVerif.Proofs.C09_ihuSize
/-! `outlet_pix`, `new_outlet` and the outlet-pixel invariants of `ihu_optimize_rivlen` / `ihu_minimize_error`
(C09 extension). Core Lean only. -/
namespace Pf.C09ihu
open Pf

/-! ### `outlet_pix` -/

theorem div_block (a cs r : Nat) (hr : r < cs) : (a * cs + r) / cs = a := by
  have hcs : 0 < cs := by omega
  rw [Nat.mul_comm, Nat.mul_add_div hcs, Nat.div_eq_of_lt hr, Nat.add_zero]

theorem mod_block (a w x : Nat) (hx : x < w) : (a * w + x) % w = x := by
  rw [Nat.mul_comm, Nat.mul_add_mod, Nat.mod_eq_of_lt hx]

/-- what `outlet_pix(idx, …, all=False)` returns: pixels of coarse cell `idx` inside the raster that are pits, drain to a
missing pixel or drain into another coarse cell -/
def PixOf (ds : Array Nat) (idx ncol subncol cs p : Nat) : Prop :=
  p < ds.size ∧ subidx2idx p subncol cs ncol = idx ∧
    (ds[p]! = p ∨ ds[p]! = ds.size ∨ subidx2idx ds[p]! subncol cs ncol ≠ idx)

theorem outletPix_mem (ds : Array Nat) (idx ncol subncol cs : Nat) :
    ∀ p ∈ outletPix ds idx ncol subncol cs false, PixOf ds idx ncol subncol cs p := by
  unfold outletPix
  simp only
  refine foldl_inv _ (fun acc => ∀ p ∈ acc, PixOf ds idx ncol subncol cs p) _ ?_ _ (fun _ h => by cases h)
  intro acc ci hci hacc
  have hci' : ci < cs := List.mem_range.mp hci
  split
  · exact hacc
  · rename_i hc
    refine foldl_inv _ (fun acc => ∀ p ∈ acc, PixOf ds idx ncol subncol cs p) _ ?_ _ hacc
    intro acc ri hri hacc
    have hri' : ri < cs := List.mem_range.mp hri
    split
    · exact hacc
    · rename_i hr
      -- the pixel (r_ul + ri, c_ul + ci)
      have hx : idx % ncol * cs + ci < subncol := by omega
      have hrow : idx / ncol * cs + ri < ds.size / subncol := by omega
      have hp : (idx / ncol * cs + ri) * subncol + idx % ncol * cs + ci < ds.size := by
        have h1 : (idx / ncol * cs + ri + 1) * subncol ≤ ds.size / subncol * subncol :=
          Nat.mul_le_mul_right _ hrow
        have h2 : ds.size / subncol * subncol ≤ ds.size := Nat.div_mul_le_self _ _
        have h3 : (idx / ncol * cs + ri + 1) * subncol = (idx / ncol * cs + ri) * subncol + subncol := by
          rw [Nat.add_mul, Nat.one_mul]
        omega
      have hcell : subidx2idx ((idx / ncol * cs + ri) * subncol + idx % ncol * cs + ci) subncol cs ncol = idx := by
        unfold subidx2idx
        have e1 : ((idx / ncol * cs + ri) * subncol + idx % ncol * cs + ci) / subncol = idx / ncol * cs + ri := by
          rw [Nat.add_assoc]; exact div_block _ _ _ hx
        have e2 : ((idx / ncol * cs + ri) * subncol + idx % ncol * cs + ci) % subncol = idx % ncol * cs + ci := by
          rw [Nat.add_assoc]; exact mod_block _ _ _ hx
        rw [e1, e2, div_block _ _ _ hri', div_block _ _ _ hci']
        exact Nat.div_add_mod' idx ncol
      have hgood : ∀ q, q ∈ acc ++ [(idx / ncol * cs + ri) * subncol + idx % ncol * cs + ci] →
          (ds[(idx / ncol * cs + ri) * subncol + idx % ncol * cs + ci]! =
              (idx / ncol * cs + ri) * subncol + idx % ncol * cs + ci ∨
            ds[(idx / ncol * cs + ri) * subncol + idx % ncol * cs + ci]! = ds.size ∨
            subidx2idx ds[(idx / ncol * cs + ri) * subncol + idx % ncol * cs + ci]! subncol cs ncol ≠ idx) →
          PixOf ds idx ncol subncol cs q := by
        intro q hq hd
        rcases List.mem_append.mp hq with hq | hq
        · exact hacc q hq
        · simp only [List.mem_singleton] at hq
          subst hq
          exact ⟨hp, hcell, hd⟩
      split
      · rename_i hpit
        exact fun q hq => hgood q hq (Or.inl hpit.symm)
      · split
        · rename_i hedge
          simp only [Bool.false_or, Bool.and_eq_true, Bool.or_eq_true, beq_iff_eq, bne_iff_ne] at hedge
          intro q hq
          refine hgood q hq ?_
          rcases hedge.2 with h | h
          · exact Or.inr (Or.inl h)
          · exact Or.inr (Or.inr h)
        · exact hacc

/-! ### `new_outlet` -/

/-- `new_outlet` leaves the outlet array alone or sets the entry of `idx0` to one of the pixels of `outlet_pix`; the
sizes of the coarse arrays never change -/
theorem newOutlet_out (ds : Array Nat) (upa : Array Int) (idx0 subidx0 : Nat) (streams : Array Int)
    (cds out : Array Nat) (ncol subncol cs minNum minDen : Nat) (minupa : Int) (target : Option Nat)
    (s' : Array Int) (c' o' : Array Nat) (f : Bool)
    (h : newOutlet ds upa idx0 subidx0 streams cds out ncol subncol cs minNum minDen minupa target = some (s', c', o', f)) :
    c'.size = cds.size ∧
      (o' = out ∨ ∃ p ∈ outletPix ds idx0 ncol subncol cs false, o' = out.setIfInBounds idx0 p) := by
  unfold newOutlet at h
  simp only at h
  split at h
  · cases h
  · skip
    simp only [Option.some.injEq, Prod.mk.injEq] at h
    obtain ⟨_, rfl, rfl, _⟩ := h
    exact ⟨rfl, Or.inl rfl⟩
  · rename_i x pout idxds path0 hres
    simp only [Option.some.injEq, Prod.mk.injEq] at h
    obtain ⟨_, rfl, rfl, _⟩ := h
    refine ⟨by simp, Or.inr ⟨pout, ?_, rfl⟩⟩
    -- the selected pixel is one of the candidates
    have key := foldlM_inv _
      (fun (st : Int × Option (Nat × Nat × List Nat)) =>
        ∀ a, st.2 = some a → a.1 ∈ outletPix ds idx0 ncol subncol cs false) _ ?_ _ _ ?_ hres
    · exact key _ rfl
    · intro b cand b' hmem hb hstep
      split at hstep
      · cases hstep; exact hb
      · split at hstep
        · cases hstep
        · split at hstep <;> split at hstep <;>
            first
              | (cases hstep; exact hb)
              | (cases hstep; intro a ha; cases ha; exact hmem)
    · intro a ha; cases ha

/-- the pixels of `outlet_pix` are acceptable outlets of their cell in the sense of `Exit` -/
theorem pixOf_exit (e : Env) (idx p : Nat) (hidx : idx < e.ncell) (h : PixOf e.ds idx e.ncol e.subncol e.cs p) :
    e.cell p = idx ∧ Exit e p := by
  obtain ⟨hp, hcell, hd⟩ := h
  have hc : e.cell p = idx := by simp [Env.cell, hp, hcell]
  refine ⟨hc, ?_⟩
  rcases hd with hd | hd | hd
  · exact Or.inl hd
  · right
    rw [hc, hd]
    simp only [Env.cell, Nat.lt_irrefl, if_false]
    omega
  · right
    rw [hc]
    unfold Env.cell
    split
    · exact hd
    · omega

/-- geometry needed for `outlet_pix`: the coarse cell index has a column -/
theorem col_ok (e : Env) (idx : Nat) : idx % e.ncol < e.ncol ∨ e.ncol = 0 := by
  by_cases h : e.ncol = 0
  · exact Or.inr h
  · exact Or.inl (Nat.mod_lt _ (by omega))

/-- one call of `new_outlet` keeps every entry of the outlet array acceptable -/
theorem newOutletE_inv (e : Env) (par : Par) (R : Nat → Nat → Prop) (idx0 subidx0 : Nat) (streams : Array Int)
    (cds out : Array Nat) (target : Option Nat) (s' : Array Int) (c' o' : Array Nat) (f : Bool)
    (hR : ∀ p, Exit e p → e.cell p < out.size → R (e.cell p) p) (hn : out.size ≤ e.ncell)
    (h : newOutletE e par idx0 subidx0 streams cds out target = some (s', c', o', f)) (ho : OutOK R out) :
    c'.size = cds.size ∧ o'.size = out.size ∧ OutOK R o' := by
  unfold newOutletE at h
  obtain ⟨hc, ho'⟩ := newOutlet_out _ _ _ _ _ _ _ _ _ _ _ _ _ _ _ _ _ _ h
  refine ⟨hc, ?_⟩
  rcases ho' with rfl | ⟨p, hp, rfl⟩
  · exact ⟨rfl, ho⟩
  · refine ⟨by simp, ho.set idx0 p (fun hlt => ?_)⟩
    have hpix := outletPix_mem e.ds idx0 e.ncol e.subncol e.cs p hp
    obtain ⟨hcell, hex⟩ := pixOf_exit e idx0 p (by omega) hpix
    have := hR p hex (by rw [hcell]; exact hlt)
    rwa [hcell] at this

/-! ### `ihu_optimize_rivlen` -/

def TriInv (R : Nat → Nat → Prop) (n m : Nat) (st : Tri) : Prop := st.2.1.size = m ∧ st.2.2.size = n ∧ OutOK R st.2.2

theorem rivlenOne_inv (e : Env) (par : Par) (R : Nat → Nat → Prop) (n m : Nat) (valid : Array Bool) (st st' : Tri)
    (idx0 : Nat) (b : Bool) (hR : ∀ p, Exit e p → e.cell p < n → R (e.cell p) p) (hn : n ≤ e.ncell)
    (h : rivlenOne e par valid st idx0 = some (st', b)) (hinv : TriInv R n m st) : TriInv R n m st' := by
  obtain ⟨streams, cds, out⟩ := st
  simp only [rivlenOne] at h
  split at h
  · simp only [Option.some.injEq, Prod.mk.injEq] at h; exact h.1 ▸ hinv
  · split at h
    · split at h
      · cases h
      · rename_i s1 c1 o1 succ hnew
        obtain ⟨hm, hs, hok⟩ := hinv
        simp only at hm hs hok
        have h1 := newOutletE_inv e par R idx0 out[idx0]! streams cds out none s1 c1 o1 succ
          (fun p hp hlt => hR p hp (hs ▸ hlt)) (by omega) hnew hok
        split at h
        · simp only [Option.some.injEq, Prod.mk.injEq] at h
          rw [← h.1]
          -- the loop over the upstream cells: links are re-pointed, or the old outlet pixel is restored
          refine foldl_inv _ (TriInv R n m) _ ?_ _ ⟨by rw [h1.1, hm], by rw [h1.2.1, hs], h1.2.2⟩
          intro st idx _ hst
          obtain ⟨s2, c2, o2⟩ := st
          obtain ⟨hm2, hs2, hok2⟩ := hst
          simp only at hm2 hs2 hok2
          simp only
          split
          · exact ⟨by simp [hm2], hs2, hok2⟩
          · split
            · refine ⟨by simp [hm2], by simp [hs2], hok2.set idx0 _ (fun hlt => ?_)⟩
              exact hok idx0 (by omega)
            · exact ⟨hm2, hs2, hok2⟩
        · simp only [Option.some.injEq, Prod.mk.injEq] at h
          rw [← h.1]
          exact ⟨by rw [h1.1, hm], by rw [h1.2.1, hs], h1.2.2⟩
    · simp only [Option.some.injEq, Prod.mk.injEq] at h; exact h.1 ▸ hinv

theorem optimizeRivlen_inv (e : Env) (par : Par) (R : Nat → Nat → Prop) (n m : Nat) (short : List Nat)
    (valid : Array Bool) (st st' : Tri) (hR : ∀ p, Exit e p → e.cell p < n → R (e.cell p) p) (hn : n ≤ e.ncell)
    (h : optimizeRivlen e par short valid st = some st') (hinv : TriInv R n m st) : TriInv R n m st' := by
  unfold optimizeRivlen at h
  refine foldlM_inv _ (TriInv R n m) _ ?_ _ _ hinv h
  intro b i b' _ hb hstep
  simp only at hstep
  split at hstep
  · cases hstep
  · rename_i st1 h1
    simp only [Option.some.injEq] at hstep; subst hstep
    exact rivlenOne_inv e par R n m valid b _ i true hR hn h1 hb
  · rename_i st1 h1
    have hb1 := rivlenOne_inv e par R n m valid b st1 i false hR hn h1 hb
    cases h2 : rivlenOne e par valid st1 b.2.1[i]! with
    | none => rw [h2] at hstep; cases hstep
    | some r =>
      rw [h2] at hstep
      simp only [Option.map_some, Option.some.injEq] at hstep
      subst hstep
      obtain ⟨st2, b2⟩ := r
      exact rivlenOne_inv e par R n m valid st1 st2 _ b2 hR hn h2 hb1

end Pf.C09ihu

namespace Pf.C09ihu
open Pf

/-! ### `ihu_minimize_error` -/

theorem errPath_sds (e : Env) (streams : Array Int) (idx0 : Nat) :
    ∀ fuel subidx idxs r, errPath e streams idx0 fuel subidx idxs = some r → r.2.2 = e.ds[r.2.1]! := by
  intro fuel
  induction fuel with
  | zero => intro subidx idxs r h; simp [errPath] at h
  | succ f ih =>
    intro subidx idxs r h
    simp only [errPath] at h
    split at h
    · cases h; rfl
    · split at h
      · split at h
        · cases h; rfl
        · exact ih _ _ _ h
      · exact ih _ _ _ h

theorem nbWalk_size (e : Env) (out : Array Nat) (idxs : List Nat) (idx0 idx1 : Nat) (upa : Int) :
    ∀ k j idx s, (nbWalk e out idxs idx0 idx1 upa k j idx s).cds.size = s.cds.size := by
  intro k
  induction k with
  | zero => intro j idx s; rfl
  | succ k ih =>
    intro j idx s
    simp only [nbWalk]
    repeat' split
    all_goals first | rfl | exact ih _ _ _ | simp

theorem nbSearch_size (e : Env) (out : Array Nat) (idxs : List Nat) (idx0 : Nat) (d8 : List Nat) (cds : Array Nat)
    (fixed : Bool) : (nbSearch e out idxs idx0 d8 cds fixed).cds.size = cds.size := by
  unfold nbSearch
  split
  · rfl
  · refine foldl_inv _ (fun (s : Nb) => s.cds.size = cds.size) _ ?_ _ rfl
    intro s idx1 _ hsz
    split
    · exact hsz
    · rw [nbWalk_size]; exact hsz

theorem minErrPass_inv (e : Env) (par : Par) (R : Nat → Nat → Prop) (n m : Nat) (idxs : List Nat) (idx0 : Nat)
    (d8 : List Nat) (hR : ∀ p, Exit e p → e.cell p < n → R (e.cell p) p) (hn : n ≤ e.ncell) :
    ∀ pass fixed st st', minErrPass e par idxs idx0 d8 pass fixed st = some st' → TriInv R n m st → TriInv R n m st' := by
  intro pass
  induction pass with
  | zero => intro fixed st st' h hinv; simp only [minErrPass] at h; cases h; exact hinv
  | succ k ih =>
    intro fixed st st' h hinv
    obtain ⟨streams, cds, out⟩ := st
    obtain ⟨hm, hs, hok⟩ := hinv
    simp only at hm hs hok
    simp only [minErrPass] at h
    have hnb := nbSearch_size e out idxs idx0 d8 cds fixed
    generalize nbSearch e out idxs idx0 d8 cds fixed = nb at h hnb
    split at h
    · split at h
      · cases h
      · rename_i st1 f1 hfold
        have h1 : TriInv R n m st1 := by
          have := foldlM_inv _ (fun (x : Tri × Bool) => TriInv R n m x.1) _ ?_ _ _ ?_ hfold
          · exact this
          · intro b idx b' _ hb hstep
            split at hstep
            · cases hstep; exact hb
            · obtain ⟨⟨s2, c2, o2⟩, f2⟩ := b
              obtain ⟨hm2, hs2, hok2⟩ := hb
              simp only at hm2 hs2 hok2 hstep
              split at hstep
              · cases hstep
              · rename_i s3 c3 o3 f3 hnew
                cases hstep
                have := newOutletE_inv e par R idx o2[idx]! s2 c2 o2 _ s3 c3 o3 f3
                  (fun p hp hlt => hR p hp (hs2 ▸ hlt)) (by omega) hnew hok2
                exact ⟨by rw [this.1, hm2], by rw [this.2.1, hs2], this.2.2⟩
          · exact ⟨by rw [hnb, hm], hs, hok⟩
        exact ih _ _ _ h h1
    · cases h
      exact ⟨by rw [hnb, hm], hs, hok⟩

theorem minErrOne_inv (e : Env) (par : Par) (R : Nat → Nat → Prop) (n m poc : Nat) (st st' : Tri) (idx0 : Nat)
    (hR : ∀ p, Exit e p → e.cell p < n → R (e.cell p) p) (hn : n ≤ e.ncell)
    (hPit : 0 < poc → ∀ c p, e.ds[p]! = p → R c p)
    (h : minErrOne e par poc st idx0 = some st') (hinv : TriInv R n m st) : TriInv R n m st' := by
  obtain ⟨streams, cds, out⟩ := st
  obtain ⟨hm, hs, hok⟩ := hinv
  simp only at hm hs hok
  simp only [minErrOne] at h
  split at h
  · cases h
  · rename_i idxs subidx sds hpath
    have hsds : sds = e.ds[subidx]! := errPath_sds e _ _ _ _ _ _ hpath
    split at h
    · -- the outlet pixel is moved to the pit
      rename_i hc
      cases h
      simp only [Bool.and_eq_true, decide_eq_true_eq, beq_iff_eq] at hc
      have hpoc : 0 < poc := hc.1.1.1.1
      have hpit : e.ds[sds]! = sds := by
        have : sds = subidx := hc.1.1.1.2
        rw [this]; rw [this] at hsds; exact hsds.symm
      exact ⟨by simp [hm], by simp [hs], hok.set idx0 sds (fun _ => hPit hpoc idx0 sds hpit)⟩
    · split at h
      · cases h
      · rename_i s1 c1 o1 f1 hr
        have h1 : TriInv R n m (s1, c1, o1) := by
          split at hr
          · have := newOutletE_inv e par R idx0 out[idx0]! streams cds out none s1 c1 o1 f1
              (fun p hp hlt => hR p hp (hs ▸ hlt)) (by omega) hr hok
            exact ⟨by rw [this.1, hm], by rw [this.2.1, hs], this.2.2⟩
          · cases hr; exact ⟨hm, hs, hok⟩
        exact minErrPass_inv e par R n m idxs idx0 _ hR hn _ _ _ _ h h1

theorem minimizeError_inv (e : Env) (par : Par) (R : Nat → Nat → Prop) (n m poc : Nat) (fix : List Nat)
    (st st' : Tri) (sorts sorts' : Sorts)
    (hR : ∀ p, Exit e p → e.cell p < n → R (e.cell p) p) (hn : n ≤ e.ncell)
    (hPit : 0 < poc → ∀ c p, e.ds[p]! = p → R c p)
    (h : minimizeError e par poc fix st sorts = some (st', sorts')) (hinv : TriInv R n m st) : TriInv R n m st' := by
  simp only [minimizeError] at h
  cases hf : List.foldlM (fun st i0 => minErrOne e par poc st fix[i0]!)
      st (sorts.take (fix.map fun c => e.upa[st.2.2[c]!]!).toArray).1.reverse with
  | none => rw [hf] at h; cases h
  | some r =>
    rw [hf] at h
    simp only [Option.map_some, Option.some.injEq, Prod.mk.injEq] at h
    rw [← h.1]
    exact foldlM_inv _ (TriInv R n m) _
      (fun b a b' _ hb hstep => minErrOne_inv e par R n m poc b b' _ hR hn hPit hstep hb) _ _ hinv hf

end Pf.C09ihu

namespace Pf.C09ihu
open Pf

/-! ### the `niter` loop of `ihu` -/

theorem ihuLoop_inv (e : Env) (par : Par) (o : IhuOpt) (R : Nat → Nat → Prop) (n : Nat)
    (hR : ∀ p, Exit e p → e.cell p < n → R (e.cell p) p) (hn : n ≤ e.ncell)
    (hPit : 0 < o.poc → ∀ c p, e.ds[p]! = p → R c p) :
    ∀ k fix cds out sorts cds' out' sorts', ihuLoop e par o k fix cds out sorts = some (cds', out', sorts') →
      out.size = n → OutOK R out → cds'.size = cds.size ∧ out'.size = n ∧ OutOK R out' := by
  intro k
  induction k with
  | zero =>
    intro fix cds out sorts cds' out' sorts' h hs ho
    simp only [ihuLoop] at h
    cases h
    exact ⟨rfl, hs, ho⟩
  | succ k ih =>
    intro fix cds out sorts cds' out' sorts' h hs ho
    simp only [ihuLoop] at h
    split at h
    · cases h
    · rename_i r hrel
      have hr := relocateOutlets_inv e R fix cds out sorts r (fun p hp hlt => hR p hp (hs ▸ hlt)) hrel ho
      have hrc : r.cds.size = cds.size := by
        exact relocateOutlets_size e fix cds out sorts r hrel
      split at h
      · cases h
      · rename_i valid streams fix1 short hchk
        split at h
        · cases h
        · rename_i st1 hst1
          have h1 : TriInv R n cds.size st1 := by
            split at hst1
            · exact optimizeRivlen_inv e par R n cds.size short valid _ st1 hR hn hst1
                ⟨hrc, by rw [hr.1, hs], hr.2⟩
            · cases hst1; exact ⟨hrc, by rw [hr.1, hs], hr.2⟩
          split at h
          · cases h
          · rename_i s2 c2 o2 sorts2 hst2
            have h2 : TriInv R n cds.size (s2, c2, o2) := by
              split at hst2
              · exact minimizeError_inv e par R n cds.size _ fix1 st1 _ r.sorts sorts2 hR hn
                  (fun hp => hPit (by split at hp <;> omega)) hst2 h1
              · cases hst2; exact h1
            split at h
            · cases h; exact ⟨h2.1, h2.2.1, h2.2.2⟩
            · have := ih _ _ _ _ _ _ _ h h2.2.1 h2.2.2
              exact ⟨by rw [this.1, h2.1], this.2⟩

end Pf.C09ihu
