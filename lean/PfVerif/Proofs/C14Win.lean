import PfVerif.Proofs.C14Riv
import PfVerif.Proofs.C14Fuel
/-! The cells of `core._window` are pairwise distinct and in range (fourth stage of C14).

On a downstream-first order (`Topo ds seq`) every cell of the order has a *distance to its pit*
(`PitDist_c14`, a functional relation). Walking downstream that distance decreases by one per step,
walking up the main stem (`usMainOK_c14`: every entry of `idxs_us_main` is an inflow cell) it increases
by one per step. Hence the cells of the window carry pairwise different distances: the downstream part,
the centre and the upstream part are duplicate-free and pairwise disjoint. Core Lean only. -/
namespace Pf

/-- `PitDist_c14 ds c k`: the flow path of `c` reaches its pit after exactly `k` steps -/
inductive PitDist_c14 (ds : Array Nat) : Nat → Nat → Prop
  | pit (c : Nat) : ds[c]! = c → PitDist_c14 ds c 0
  | step (c k : Nat) : ds[c]! ≠ c → PitDist_c14 ds ds[c]! k → PitDist_c14 ds c (k+1)

theorem PitDist_c14.unique {ds : Array Nat} {c k m : Nat} (h1 : PitDist_c14 ds c k)
    (h2 : PitDist_c14 ds c m) : k = m := by
  induction h1 generalizing m with
  | pit c hp =>
    cases h2 with
    | pit _ _ => rfl
    | step _ _ hn _ => exact absurd hp hn
  | step c k hn _ ih =>
    cases h2 with
    | pit _ hp => exact absurd hp hn
    | step _ m' _ h' => rw [ih h']

/-- a cell that is not a pit lies one step further from the pit than its downstream cell -/
theorem PitDist_c14.down {ds : Array Nat} {c d : Nat} (h : PitDist_c14 ds c d) (hn : ds[c]! ≠ c) :
    ∃ e, d = e + 1 ∧ PitDist_c14 ds ds[c]! e := by
  cases h with
  | pit _ hp => exact absurd hp hn
  | step _ e _ h' => exact ⟨e, rfl, h'⟩

/-- along a downstream-first order every cell has a distance to its pit -/
theorem Topo.pitDist_c14 {ds : Array Nat} {seq : List Nat} (htopo : Topo ds seq) :
    ∀ i ∈ seq, ∃ k, PitDist_c14 ds i k := by
  refine htopo.induction _ (fun i _ hd => ?_)
  by_cases hp : ds[i]! = i
  · exact ⟨0, PitDist_c14.pit i hp⟩
  · obtain ⟨k, hk⟩ := (hd hp).2
    exact ⟨k + 1, PitDist_c14.step i k hp hk⟩

theorem usMainOK_spec_c14 {ds usMain : Array Nat} (h : usMainOK_c14 ds usMain = true) :
    ∀ d, d < ds.size → usMain[d]! ≠ ds.size →
      usMain[d]! < ds.size ∧ usMain[d]! ≠ d ∧ ds[usMain[d]!]! = d := by
  intro d hd hu
  simp only [usMainOK_c14, List.all_eq_true, List.mem_range, Bool.or_eq_true, beq_iff_eq,
    Bool.and_eq_true, decide_eq_true_eq, bne_iff_ne, ne_eq] at h
  rcases h d hd with h1 | h1
  · exact absurd h1 hu
  · exact ⟨h1.1.1, h1.1.2, h1.2⟩

theorem downOK_not_pit_c14 {ds : Array Nat} {strord : Option (Array Int)} {s0 : Int} {c : Nat}
    (h : downOK ds strord s0 c = true) : ds[c]! ≠ c := by
  simp only [downOK, Bool.and_eq_true, bne_iff_ne, ne_eq] at h
  exact h.1.1

/-! ### the downstream part -/

/-- every cell of the downstream part lies strictly nearer to the pit than the start cell -/
theorem downList_dist_c14 (ds : Array Nat) (strord : Option (Array Int)) (s0 : Int) :
    ∀ (k c d : Nat), PitDist_c14 ds c d → ∀ x ∈ downList ds strord s0 k c,
      ∃ d', d' < d ∧ PitDist_c14 ds x d' := by
  intro k
  induction k with
  | zero => intro c d _ x hx; simp [downList] at hx
  | succ k ih =>
    intro c d hd x hx
    simp only [downList] at hx
    by_cases hok : downOK ds strord s0 c = true
    · simp only [hok, if_true, List.mem_cons] at hx
      obtain ⟨e, he, hde⟩ := hd.down (downOK_not_pit_c14 hok)
      rcases hx with hx | hx
      · subst hx; exact ⟨e, by omega, hde⟩
      · obtain ⟨d', h1, h2⟩ := ih _ e hde x hx
        exact ⟨d', by omega, h2⟩
    · simp [hok] at hx

theorem downList_nodup_c14 (ds : Array Nat) (strord : Option (Array Int)) (s0 : Int) :
    ∀ (k c d : Nat), PitDist_c14 ds c d → (downList ds strord s0 k c).Nodup := by
  intro k
  induction k with
  | zero => intro c d _; simp [downList]
  | succ k ih =>
    intro c d hd
    simp only [downList]
    by_cases hok : downOK ds strord s0 c = true
    · simp only [hok, if_true]
      obtain ⟨e, _, hde⟩ := hd.down (downOK_not_pit_c14 hok)
      refine List.nodup_cons.2 ⟨fun hm => ?_, ih _ e hde⟩
      obtain ⟨d', h1, h2⟩ := downList_dist_c14 ds strord s0 k _ e hde _ hm
      have := h2.unique hde
      omega
    · simp [hok]

/-- the downstream part stays inside the order -/
theorem downList_mem_c14 {ds : Array Nat} {seq : List Nat} (htopo : Topo ds seq)
    (strord : Option (Array Int)) (s0 : Int) :
    ∀ (k c : Nat), c ∈ seq → ∀ x ∈ downList ds strord s0 k c, x ∈ seq := by
  intro k
  induction k with
  | zero => intro c _ x hx; simp [downList] at hx
  | succ k ih =>
    intro c hc x hx
    simp only [downList] at hx
    by_cases hok : downOK ds strord s0 c = true
    · simp only [hok, if_true, List.mem_cons] at hx
      rcases hx with hx | hx
      · subst hx; exact Topo.ds_mem htopo c hc
      · exact ih _ (Topo.ds_mem htopo c hc) x hx
    · simp [hok] at hx

/-! ### the upstream part (main stem) -/

/-- every cell of the upstream part is in range and lies strictly further from the pit -/
theorem upList_dist_c14 (ds usMain : Array Nat) (hus : usMainOK_c14 ds usMain = true) :
    ∀ (k c d : Nat), c < ds.size → PitDist_c14 ds c d → ∀ x ∈ upList ds usMain k c,
      x < ds.size ∧ ∃ d', d < d' ∧ PitDist_c14 ds x d' := by
  intro k
  induction k with
  | zero => intro c d _ _ x hx; simp [upList] at hx
  | succ k ih =>
    intro c d hc hd x hx
    simp only [upList] at hx
    by_cases hu : usMain[c]! = ds.size
    · simp [hu] at hx
    · simp only [hu, ne_eq, not_false_eq_true, if_true, List.mem_cons] at hx
      obtain ⟨h1, h2, h3⟩ := usMainOK_spec_c14 hus c hc hu
      have hdu : PitDist_c14 ds usMain[c]! (d + 1) :=
        PitDist_c14.step _ d (by rw [h3]; exact fun e => h2 e.symm) (by rw [h3]; exact hd)
      rcases hx with hx | hx
      · subst hx; exact ⟨h1, d + 1, by omega, hdu⟩
      · obtain ⟨hx1, d', hx2, hx3⟩ := ih _ (d + 1) h1 hdu x hx
        exact ⟨hx1, d', by omega, hx3⟩

theorem upList_nodup_c14 (ds usMain : Array Nat) (hus : usMainOK_c14 ds usMain = true) :
    ∀ (k c d : Nat), c < ds.size → PitDist_c14 ds c d → (upList ds usMain k c).Nodup := by
  intro k
  induction k with
  | zero => intro c d _ _; simp [upList]
  | succ k ih =>
    intro c d hc hd
    simp only [upList]
    by_cases hu : usMain[c]! = ds.size
    · simp [hu]
    · simp only [hu, ne_eq, not_false_eq_true, if_true]
      obtain ⟨h1, h2, h3⟩ := usMainOK_spec_c14 hus c hc hu
      have hdu : PitDist_c14 ds usMain[c]! (d + 1) :=
        PitDist_c14.step _ d (by rw [h3]; exact fun e => h2 e.symm) (by rw [h3]; exact hd)
      refine List.nodup_cons.2 ⟨fun hm => ?_, ih _ (d + 1) h1 hdu⟩
      obtain ⟨_, d', hx2, hx3⟩ := upList_dist_c14 ds usMain hus k _ (d + 1) h1 hdu _ hm
      have := hx3.unique hdu
      omega

/-! ### the whole window -/

/-- **`core._window` returns pairwise distinct cells, all in range**, for every cell of a
downstream-first order, every half-width `n` and every stream-order restriction -/
theorem window_nodup_inrange_c14 (ds usMain : Array Nat) (seq : List Nat) (strord : Option (Array Int))
    (n i : Nat) (htopo : Topo ds seq) (hb : ∀ i ∈ seq, i < ds.size)
    (hus : usMainOK_c14 ds usMain = true) (hi : i ∈ seq) :
    (window ds usMain strord n i).Nodup ∧ ∀ k ∈ window ds usMain strord n i, k < ds.size := by
  obtain ⟨d, hd⟩ := htopo.pitDist_c14 i hi
  have hin := hb i hi
  rw [window_eq]
  have hdn := downList_nodup_c14 ds strord (strord0 strord i) n i d hd
  have hup := upList_nodup_c14 ds usMain hus n i d hin hd
  have hdd := downList_dist_c14 ds strord (strord0 strord i) n i d hd
  have hud := upList_dist_c14 ds usMain hus n i d hin hd
  constructor
  · rw [List.nodup_append]
    refine ⟨?_, hdn, ?_⟩
    · rw [List.nodup_append]
      refine ⟨(List.reverse_perm _).nodup_iff.2 hup, by simp, ?_⟩
      intro a ha b hb'
      simp only [List.mem_singleton] at hb'
      subst hb'
      intro e
      subst e
      obtain ⟨_, d', h1, h2⟩ := hud a (List.mem_reverse.1 ha)
      have := h2.unique hd
      omega
    · intro a ha b hb' e
      subst e
      obtain ⟨d2, h3, h4⟩ := hdd a hb'
      simp only [List.mem_append, List.mem_reverse, List.mem_singleton] at ha
      rcases ha with ha | ha
      · obtain ⟨_, d', h1, h2⟩ := hud a ha
        have := h2.unique h4
        omega
      · subst ha
        have := h4.unique hd
        omega
  · intro k hk
    simp only [List.mem_append, List.mem_reverse, List.mem_singleton] at hk
    rcases hk with (hk | hk) | hk
    · exact (hud k hk).1
    · subst hk; exact hin
    · exact hb k (downList_mem_c14 htopo strord _ n i hi k hk)

/-- a cell in range that the order does not hold, on an order that holds every cell of the network:
the cell lies outside the network and is nobody's main-upstream cell, so its window is the cell itself -/
theorem window_outside_c14 (ds usMain : Array Nat) (seq : List Nat) (strord : Option (Array Int))
    (n i : Nat) (htopo : Topo ds seq) (hus : usMainOK_c14 ds usMain = true)
    (hcov : ∀ c, isValid ds c = true → c ∈ seq) (hi : i < ds.size) (hns : i ∉ seq) :
    window ds usMain strord n i = [i] := by
  have hnv : ds[i]! = ds.size := by
    apply Classical.byContradiction
    intro h
    have hv : isValid ds i = true := by
      simp only [isValid, Bool.and_eq_true, decide_eq_true_eq, bne_iff_ne, ne_eq]
      exact ⟨hi, h⟩
    exact hns (hcov i hv)
  have hum : usMain[i]! = ds.size := by
    apply Classical.byContradiction
    intro h
    obtain ⟨h1, _, h3⟩ := usMainOK_spec_c14 hus i hi h
    have hv : isValid ds usMain[i]! = true := by
      simp only [isValid, Bool.and_eq_true, decide_eq_true_eq, bne_iff_ne, ne_eq]
      exact ⟨h1, by rw [h3]; omega⟩
    exact hns (h3 ▸ Topo.ds_mem htopo _ (hcov _ hv))
  rw [window_eq]
  have hdown : downList ds strord (strord0 strord i) n i = [] := by
    cases n with
    | zero => rfl
    | succ n => simp [downList, downOK, hnv]
  have hupl : upList ds usMain n i = [] := by
    cases n with
    | zero => rfl
    | succ n => simp [upList, hum]
  rw [hdown, hupl]; rfl

/-! ### `smooth_rivlen`: conservation with the window hypothesis only where a value is held -/

/-- one outer step does nothing at a cell that holds no value -/
theorem smoothStep_nd_c14 (ds usMain : Array Nat) (nd minLen : Rat) (n : Nat) (st : Array Rat × Bool)
    (idx0 : Nat) (h : st.1[idx0]! = nd) : smoothStep ds usMain nd minLen n st idx0 = st := by
  unfold smoothStep
  simp [h]

/-- the outer loop conserves the total provided every processed cell either holds no value or has a
duplicate-free in-range window -/
theorem smoothFold_total_nd_c14 (ds usMain : Array Nat) (nd minLen : Rat) (n : Nat) :
    ∀ (l : List Nat) (st : Array Rat × Bool),
      (∀ idx0 ∈ l, st.1[idx0]! = nd ∨ ((∀ i, (rivSlice ds usMain n i idx0).Nodup) ∧
        ∀ k, inRivWindow ds usMain n idx0 k → k < st.1.size)) →
      totalLen (l.foldl (smoothStep ds usMain nd minLen n) st).1 = totalLen st.1 := by
  intro l
  induction l with
  | nil => intro st _; rfl
  | cons x l ih =>
    intro st h
    rw [List.foldl_cons]
    have hx : totalLen (smoothStep ds usMain nd minLen n st x).1 = totalLen st.1 := by
      rcases h x (by simp) with h1 | h1
      · rw [smoothStep_nd_c14 ds usMain nd minLen n st x h1]
      · exact smoothStep_total ds usMain nd minLen n st x h1.1 h1.2
    rw [ih _ (fun i hi => ?_), hx]
    rcases h i (by simp [hi]) with h1 | h1
    · left
      apply Classical.byContradiction
      intro hne
      have hch : (smoothStep ds usMain nd minLen n st x).1[i]! ≠ st.1[i]! := by rw [h1]; exact hne
      exact (smoothStep_changed ds usMain nd minLen n st x i hch).1 h1
    · right
      rw [smoothStep_size]
      exact h1

/-! ### the model of `core.main_upstream` always returns a well-formed main-stem array -/

/-- entry-wise form of `usMainOK_c14` -/
def UsInv_c14 (ds um : Array Nat) : Prop :=
  ∀ d, d < ds.size → um[d]! = ds.size ∨ (um[d]! < ds.size ∧ um[d]! ≠ d ∧ ds[um[d]!]! = d)

theorem usInv_foldl_c14 (ds : Array Nat) (f : Array Nat × Array Int → Nat → Array Nat × Array Int)
    (hf : ∀ st x, x < ds.size → UsInv_c14 ds st.1 → UsInv_c14 ds (f st x).1) :
    ∀ (l : List Nat) (st : Array Nat × Array Int), (∀ x ∈ l, x < ds.size) → UsInv_c14 ds st.1 →
      UsInv_c14 ds (l.foldl f st).1 := by
  intro l
  induction l with
  | nil => intro st _ h; exact h
  | cons x l ih =>
    intro st hl h
    rw [List.foldl_cons]
    exact ih _ (fun y hy => hl y (by simp [hy])) (hf st x (hl x (by simp)) h)

/-- **`main_upstream` (model) satisfies `usMainOK_c14` on every input**: an entry is only ever set to a
cell `idx0` whose downstream cell is the entry's index and differs from `idx0` -/
theorem mainUpstream_ok_c14 (ds : Array Nat) (uparea : Array Int) (upaMin : Int) :
    usMainOK_c14 ds (mainUpstream ds uparea upaMin) = true := by
  have hinv : UsInv_c14 ds (mainUpstream ds uparea upaMin) := by
    unfold mainUpstream
    refine usInv_foldl_c14 ds _ ?_ (List.range ds.size) _ (fun x hx => List.mem_range.1 hx) ?_
    · intro st x hx h
      obtain ⟨um, upa⟩ := st
      simp only []
      split
      · exact h
      · rename_i hne
        split
        · intro d hd
          simp only []
          rw [get!_setIfInBounds]
          split
          · rename_i hc
            right
            refine ⟨hx, ?_, hc.1⟩
            intro e
            exact hne (Or.inl (by rw [hc.1, e]))
          · exact h d hd
        · exact h
    · intro d hd
      left
      simp [hd]
  simp only [usMainOK_c14, List.all_eq_true, List.mem_range, Bool.or_eq_true, beq_iff_eq,
    Bool.and_eq_true, decide_eq_true_eq, bne_iff_ne, ne_eq]
  intro d hd
  rcases hinv d hd with h | ⟨h1, h2, h3⟩
  · exact Or.inl h
  · exact Or.inr ⟨⟨h1, h2⟩, h3⟩

end Pf
