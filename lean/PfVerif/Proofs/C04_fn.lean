import PfVerif.Model.C04
import PfVerif.Model.C14
import PfVerif.Generated.Sweeps
/-! Bridging lemmas between the mechanically translated sweep kernels (`Pf.Generated.Sw`) and the hand-written
models (`sweepUp` / `sweepDown` / explicit folds). Core Lean only. -/
namespace Pf.SwBridge
open Pf

/-- writing back the value a cell already holds changes nothing (`stepUp` / `stepDown` write unconditionally, the
code writes only under its guard) -/
theorem setIfInBounds_self {α : Type} [Inhabited α] (xs : Array α) (i : Nat) :
    xs.setIfInBounds i xs[i]! = xs := by
  apply Array.ext
  · simp
  · intro j h1 h2
    rw [Array.getElem_setIfInBounds]
    split
    · rename_i h; subst h; exact getElem!_pos xs i h2
    · rfl

/-- `for idx0 in seq[::-1]` as a `foldl` over the reversed list is the `foldr` the models use -/
theorem foldl_reverse_eq_foldr {α β : Type} (f : β → α → β) (g : α → β → β) (h : ∀ b a, f b a = g a b)
    (l : List α) (b : β) : List.foldl f b l.reverse = List.foldr g b l := by
  have : f = fun b a => g a b := by funext b a; exact h b a
  subst this
  simp [List.foldl_reverse]

theorem foldl_congr_step {α β : Type} (f g : β → α → β) (h : ∀ b a, f b a = g b a) (l : List α) (b : β) :
    List.foldl f b l = List.foldl g b l := by
  have : f = g := by funext b a; exact h b a
  rw [this]

/-- `mask is None or mask[idx0]` is the model's `maskAt` -/
theorem mask_valid (mask : Option (Array Bool)) (i : Nat) :
    (mask.isNone || Generated.Sw.optGetB mask i) = maskAt mask i := by
  cases mask <;> simp [Generated.Sw.optGetB, maskAt]

end Pf.SwBridge
