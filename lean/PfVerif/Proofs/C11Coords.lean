import PfVerif.Model.C11
/-! Helper lemmas for C11: floor division and the cell containing a point. Core Lean only. -/
namespace Pf

/-- `v` lies in the `k`-th interval of width `|res|` counted from `o` in the direction of `res`
(closed at the end nearer to `o`, open at the other) -/
def InCell (o res : Int) (k : Nat) (v : Int) : Prop :=
  if res > 0 then o + k * res ≤ v ∧ v < o + (k + 1) * res
  else o + (k + 1) * res < v ∧ v ≤ o + k * res

instance (o res : Int) (k : Nat) (v : Int) : Decidable (InCell o res k v) := by
  unfold InCell; exact inferInstance

theorem int_mul_self_nonneg (a : Int) : 0 ≤ a * a := by
  rcases Int.le_total 0 a with h | h
  · exact Int.mul_nonneg h h
  · have := Int.mul_nonneg (Int.neg_nonneg_of_nonpos h) (Int.neg_nonneg_of_nonpos h)
    rwa [Int.neg_mul_neg] at this

theorem floorDiv_pos (a b : Int) (hb : 0 < b) :
    floorDiv a b * b ≤ a ∧ a < (floorDiv a b + 1) * b := by
  simp only [floorDiv, gt_iff_lt, hb, if_true]
  exact ⟨Int.ediv_mul_le a (by omega), Int.lt_ediv_add_one_mul_self a hb⟩

theorem floorDiv_neg (a b : Int) (hb : b < 0) :
    (floorDiv a b + 1) * b < a ∧ a ≤ floorDiv a b * b := by
  have hnb : ¬ (b > 0) := by omega
  simp only [floorDiv, hnb, if_false]
  have h1 := Int.ediv_mul_le (-a) (b := -b) (by omega)
  have h2 := Int.lt_ediv_add_one_mul_self (-a) (b := -b) (by omega)
  rw [Int.mul_neg] at h1 h2
  constructor <;> omega

theorem mul_lt_of_lt_pos {q q' b : Int} (hb : 0 < b) (h : q < q') : (q + 1) * b ≤ q' * b :=
  Int.mul_le_mul_of_nonneg_right (by omega) (by omega)

theorem floorDiv_unique_pos (a b q : Int) (hb : 0 < b) (h1 : q * b ≤ a) (h2 : a < (q + 1) * b) :
    floorDiv a b = q := by
  obtain ⟨g1, g2⟩ := floorDiv_pos a b hb
  by_cases hlt : floorDiv a b < q
  · have := mul_lt_of_lt_pos hb hlt; omega
  · by_cases hgt : q < floorDiv a b
    · have := mul_lt_of_lt_pos hb hgt; omega
    · omega

theorem floorDiv_unique_neg (a b q : Int) (hb : b < 0) (h1 : (q + 1) * b < a) (h2 : a ≤ q * b) :
    floorDiv a b = q := by
  obtain ⟨g1, g2⟩ := floorDiv_neg a b hb
  have key : ∀ p p' : Int, p < p' → p' * b ≤ (p + 1) * b := fun p p' h => by
    have := Int.mul_le_mul_of_nonneg_right (a := p + 1) (b := p') (c := -b) (by omega) (by omega)
    rw [Int.mul_neg, Int.mul_neg] at this; omega
  by_cases hlt : floorDiv a b < q
  · have := key _ _ hlt; omega
  · by_cases hgt : q < floorDiv a b
    · have := key _ _ hgt; omega
    · omega

theorem inCell_floorDiv (o res v : Int) (hres : res ≠ 0) (hq : 0 ≤ floorDiv (v - o) res) :
    InCell o res (floorDiv (v - o) res).toNat v := by
  have hc : ((floorDiv (v - o) res).toNat : Int) = floorDiv (v - o) res := Int.toNat_of_nonneg hq
  unfold InCell
  rw [hc]
  by_cases hp : res > 0
  · rw [if_pos hp]
    obtain ⟨g1, g2⟩ := floorDiv_pos (v - o) res hp
    constructor <;> omega
  · rw [if_neg hp]
    obtain ⟨g1, g2⟩ := floorDiv_neg (v - o) res (by omega)
    constructor <;> omega

theorem floorDiv_of_inCell (o res v : Int) (k : Nat) (hres : res ≠ 0) (h : InCell o res k v) :
    floorDiv (v - o) res = k := by
  unfold InCell at h
  by_cases hp : res > 0
  · rw [if_pos hp] at h
    exact floorDiv_unique_pos _ _ _ hp (by omega) (by omega)
  · rw [if_neg hp] at h
    exact floorDiv_unique_neg _ _ _ (by omega) (by omega) (by omega)

end Pf
