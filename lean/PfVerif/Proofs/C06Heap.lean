import PfVerif.Proofs.C06Geo
/-! The heap of the priority flood as a sorted list; the seed heap; `outlets='min'`. Core Lean only. -/
namespace Pf.C06
open Pf


theorem HE.lt_iff (a b : HE) : a.lt b = true ↔
    (a.z < b.z ∨ (a.z = b.z ∧ (a.flag < b.flag ∨ (a.flag = b.flag ∧ a.idx < b.idx)))) := by
  simp [HE.lt]

/-- sorted heap list: no later entry is smaller than an earlier one -/
def HSorted (l : List HE) : Prop := l.Pairwise (fun a b => b.lt a = false)

theorem mem_hpush (x y : HE) (l : List HE) : y ∈ hpush x l ↔ y = x ∨ y ∈ l := by
  induction l with
  | nil => simp [hpush]
  | cons a r ih =>
    unfold hpush
    split
    · simp
    · simp only [List.mem_cons, ih]
      constructor
      · rintro (h | h | h)
        · exact Or.inr (Or.inl h)
        · exact Or.inl h
        · exact Or.inr (Or.inr h)
      · rintro (h | h | h)
        · exact Or.inr (Or.inl h)
        · exact Or.inl h
        · exact Or.inr (Or.inr h)

theorem not_lt_iff (a b : HE) : a.lt b = false ↔ ¬ (a.lt b = true) := by
  cases a.lt b <;> simp

theorem hsorted_hpush (x : HE) (l : List HE) (h : HSorted l) : HSorted (hpush x l) := by
  induction l with
  | nil => simp [hpush, HSorted]
  | cons a r ih =>
    unfold hpush
    have hr : HSorted r := (List.pairwise_cons.1 h).2
    have ha : ∀ e ∈ r, e.lt a = false := (List.pairwise_cons.1 h).1
    split
    · rename_i hxa
      refine List.pairwise_cons.2 ⟨?_, h⟩
      intro e he
      rw [not_lt_iff, HE.lt_iff]
      rw [HE.lt_iff] at hxa
      rcases List.mem_cons.1 he with rfl | he
      · omega
      · have := ha e he
        rw [not_lt_iff, HE.lt_iff] at this
        omega
    · rename_i hxa
      refine List.pairwise_cons.2 ⟨?_, ih hr⟩
      intro e he
      rcases (mem_hpush x e r).1 he with rfl | he
      · simpa using hxa
      · exact ha e he

theorem hsorted_head {h : HE} {t : List HE} (hs : HSorted (h :: t)) :
    ∀ e ∈ h :: t, e.lt h = false := by
  intro e he
  rcases List.mem_cons.1 he with rfl | he
  · rw [not_lt_iff, HE.lt_iff]; omega
  · exact (List.pairwise_cons.1 hs).1 e he

/-- the seed heap: which entries it holds, and that it is sorted -/
theorem initHeap_fold (elev : Array Int) (queued : Array Bool) (l : List Nat) (q : List HE) :
    (∀ e, e ∈ l.foldl (fun q i => if queued[i]! then hpush ⟨elev[i]!, 1, i⟩ q else q) q ↔
      e ∈ q ∨ ∃ i, i ∈ l ∧ queued[i]! = true ∧ e = ⟨elev[i]!, 1, i⟩) ∧
    (HSorted q → HSorted (l.foldl (fun q i => if queued[i]! then hpush ⟨elev[i]!, 1, i⟩ q else q) q)) := by
  induction l generalizing q with
  | nil => simp
  | cons a l ih =>
    simp only [List.foldl_cons]
    by_cases hq : queued[a]! = true
    · rw [if_pos hq]
      obtain ⟨h1, h2⟩ := ih (hpush ⟨elev[a]!, 1, a⟩ q)
      refine ⟨fun e => ?_, fun hs => h2 (hsorted_hpush _ _ hs)⟩
      rw [h1 e, mem_hpush]
      constructor
      · rintro ((h | h) | ⟨i, hi, hqi, he⟩)
        · exact Or.inr ⟨a, List.mem_cons_self, hq, h⟩
        · exact Or.inl h
        · exact Or.inr ⟨i, List.mem_cons_of_mem _ hi, hqi, he⟩
      · rintro (h | ⟨i, hi, hqi, he⟩)
        · exact Or.inl (Or.inr h)
        · rcases List.mem_cons.1 hi with rfl | hi
          · exact Or.inl (Or.inl he)
          · exact Or.inr ⟨i, hi, hqi, he⟩
    · rw [if_neg hq]
      obtain ⟨h1, h2⟩ := ih q
      refine ⟨fun e => ?_, h2⟩
      rw [h1 e]
      constructor
      · rintro (h | ⟨i, hi, hqi, he⟩)
        · exact Or.inl h
        · exact Or.inr ⟨i, List.mem_cons_of_mem _ hi, hqi, he⟩
      · rintro (h | ⟨i, hi, hqi, he⟩)
        · exact Or.inl h
        · rcases List.mem_cons.1 hi with rfl | hi
          · exact absurd hqi hq
          · exact Or.inr ⟨i, hi, hqi, he⟩

theorem mem_initHeap (G : Grid) (elev : Array Int) (queued : Array Bool) (e : HE) :
    e ∈ initHeap G elev queued ↔ ∃ i, i < G.n ∧ queued[i]! = true ∧ e = ⟨elev[i]!, 1, i⟩ := by
  unfold initHeap
  rw [(initHeap_fold elev queued (List.range G.n) []).1 e]
  simp [List.mem_range]

theorem hsorted_initHeap (G : Grid) (elev : Array Int) (queued : Array Bool) :
    HSorted (initHeap G elev queued) :=
  (initHeap_fold elev queued (List.range G.n) []).2 (by simp [HSorted])

/-- **`outlets='min'`**: the single outlet the model starts from is a cell of the candidate set
(edge cells, or the user's cells) with the lowest elevation, the first such cell in row-major
order; `none` (the code's `IndexError`) exactly when there is no candidate -/
theorem seedsOf_min (G : Grid) (conn : Nat) (elev : Array Int) (nod : Array Bool)
    (pits : Option (List Nat)) (s : Array Bool)
    (h : seedsOf G conn elev nod pits true = some s) :
    ∃ m, m < G.n ∧ (seeds0 G conn nod pits)[m]! = true ∧
      (∀ c, c < G.n → (seeds0 G conn nod pits)[c]! = true →
        elev[m]! < elev[c]! ∨ (elev[m]! = elev[c]! ∧ m ≤ c)) ∧
      ∀ c, c < G.n → (s[c]! = true ↔ c = m) := by
  unfold seedsOf at h
  simp only [if_true] at h
  split at h
  · cases h
  · rename_i hd tl heq
    injection h with h
    have hmem : hd ∈ initHeap G elev (seeds0 G conn nod pits) := by rw [heq]; exact List.mem_cons_self
    obtain ⟨m, hm, hq, he⟩ := (mem_initHeap G elev _ hd).1 hmem
    have hsort := hsorted_initHeap G elev (seeds0 G conn nod pits)
    rw [heq] at hsort
    refine ⟨m, hm, hq, fun c hc hqc => ?_, fun c hc => ?_⟩
    · have hcm : (⟨elev[c]!, 1, c⟩ : HE) ∈ hd :: tl := by
        rw [← heq]; exact (mem_initHeap G elev _ _).2 ⟨c, hc, hqc, rfl⟩
      have := hsorted_head hsort _ hcm
      rw [not_lt_iff, HE.lt_iff, he] at this
      simp only at this
      simp only [true_and, Nat.lt_irrefl, false_or] at this
      omega
    · rw [← h, he]
      simp only
      rw [get!_setIfInBounds]
      simp only [Array.size_replicate]
      by_cases hcm : m = c
      · simp [hcm, hc]
      · have : ¬ (m = c ∧ m < G.n) := fun h => hcm h.1
        rw [if_neg this]
        have hne : c ≠ m := fun h => hcm h.symm
        simp [hc, hne]


theorem userSeeds_fold (pits : List Nat) (a : Array Bool) (c : Nat) :
    (pits.foldl (fun a p => a.setIfInBounds p true) a)[c]! = true ↔
      a[c]! = true ∨ (c ∈ pits ∧ c < a.size) := by
  induction pits generalizing a with
  | nil => simp
  | cons p r ih =>
    simp only [List.foldl_cons]
    rw [ih, get!_setIfInBounds, Array.size_setIfInBounds]
    by_cases hpc : p = c
    · subst hpc
      by_cases hs : p < a.size
      · simp [hs]
      · simp [hs]
    · have : ¬ (p = c ∧ p < a.size) := fun h => hpc h.1
      rw [if_neg this]
      have hne : c ≠ p := fun h => hpc h.symm
      simp [hne]

end Pf.C06
