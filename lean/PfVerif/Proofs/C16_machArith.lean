import PfVerif.Proofs.C16_machEnc
/-! The index arithmetic sites of `Model/C16_mach.lean`: under the capacity condition the machine
computation equals the mathematical one. Method: `BitVec.ofInt w` is a ring homomorphism, so every
machine expression is `ofInt w` of the corresponding integer expression; it is read back exactly
whenever that integer lies in the range of the type. Core Lean only. -/
namespace Pf.C16m

/-! ### reading back -/

theorem toNat_ofInt_range {w : Nat} (z : Int) (h0 : 0 ≤ z) (h1 : z < ((2 ^ w : Nat) : Int)) :
    (BitVec.ofInt w z).toNat = z.toNat := by
  rw [BitVec.toNat_ofInt, Int.emod_eq_of_lt h0 h1]

theorem toInt_ofInt_range {w : Nat} (hw : 0 < w) (z : Int) (h0 : -((2 ^ (w-1) : Nat) : Int) ≤ z)
    (h1 : z < ((2 ^ (w-1) : Nat) : Int)) : (BitVec.ofInt w z).toInt = z := by
  rw [BitVec.toInt_ofInt]
  apply Int.bmod_eq_of_le_mul_two
  · have := pow_split hw; omega
  · have := pow_split hw; omega

theorem toInt_ofInt_64 (z : Int) (h0 : -(2:Int)^63 ≤ z) (h1 : z < (2:Int)^63) :
    (BitVec.ofInt 64 z).toInt = z := by
  apply toInt_ofInt_range (by decide)
  · have : ((2 ^ (64 - 1) : Nat) : Int) = (2:Int)^63 := by decide
    omega
  · have : ((2 ^ (64 - 1) : Nat) : Int) = (2:Int)^63 := by decide
    omega

theorem toInt_ofInt_nat64 (k : Nat) (hk : k < 2 ^ 63) : (BitVec.ofInt 64 (k : Int)).toInt = (k : Int) :=
  toInt_ofInt_64 _ (by omega) (by omega)

theorem ofNat_eq_ofInt (w k : Nat) : BitVec.ofNat w k = BitVec.ofInt w (k : Int) :=
  (BitVec.ofInt_natCast w k).symm

theorem ofInt_sub {w : Nat} (a b : Int) : BitVec.ofInt w (a - b) = BitVec.ofInt w a - BitVec.ofInt w b := by
  rw [Int.sub_eq_add_neg, BitVec.ofInt_add, BitVec.ofInt_neg, BitVec.sub_eq_add_neg]

theorem toInt_ofNat_small {w : Nat} (hw : 0 < w) (k : Nat) (hk : k < 2 ^ (w - 1)) :
    (BitVec.ofNat w k).toInt = (k : Int) := by
  rw [ofNat_eq_ofInt]
  exact toInt_ofInt_range hw _ (by omega) (by omega)

/-- two integers closer than `2^w` have the same machine image only if they are equal -/
theorem ofInt_inj_close {w : Nat} (a b : Int) (h : (a - b).natAbs < 2 ^ w) :
    BitVec.ofInt w a = BitVec.ofInt w b ↔ a = b := by
  constructor
  · intro he
    have h1 := congrArg BitVec.toNat he
    rw [BitVec.toNat_ofInt, BitVec.toNat_ofInt] at h1
    have hp : (0:Int) < ((2 ^ w : Nat) : Int) := by have := Nat.two_pow_pos w; omega
    have h2 : a % ((2 ^ w : Nat) : Int) = b % ((2 ^ w : Nat) : Int) := by
      have ha := Int.emod_nonneg a (Int.ne_of_gt hp)
      have hb := Int.emod_nonneg b (Int.ne_of_gt hp)
      omega
    have h3 := Int.dvd_of_emod_eq_zero (Int.emod_eq_emod_iff_emod_sub_eq_zero.1 h2)
    have h4 := Int.eq_zero_of_dvd_of_natAbs_lt_natAbs h3 (by simpa using h)
    omega
  · rintro rfl; rfl

/-! ### conversion to int64 -/

theorem toI64_eq_ofInt (t : IdxTy) (v : BitVec t.w) : toI64 t v = BitVec.ofInt 64 (val t v) := by
  unfold toI64 val
  split
  · rfl
  · rw [BitVec.ofInt_natCast, BitVec.ofNat_toNat]

theorem toI64_enc {t : IdxTy} {n i : Nat} (hc : Cap t n) (hi : i < n) :
    toI64 t (enc t n i) = BitVec.ofInt 64 (i : Int) := by
  rw [toI64_eq_ofInt, val_enc_cell hc hi]

/-! ### `c + r * ncol` and the store into the index array -/

theorem linIdx64_eq (r c ncol : Nat) :
    linIdx64 (BitVec.ofNat 64 r) (BitVec.ofNat 64 c) (BitVec.ofNat 64 ncol)
      = BitVec.ofInt 64 ((r * ncol + c : Nat) : Int) := by
  simp only [linIdx64, ofNat_eq_ofInt, ← BitVec.ofInt_mul, ← BitVec.ofInt_add]
  congr 1
  rw [Int.natCast_add, Int.natCast_mul]; omega

theorem lin_lt {nrow ncol r c : Nat} (hr : r < nrow) (hcc : c < ncol) : r * ncol + c < nrow * ncol := by
  have h1 : (r + 1) * ncol ≤ nrow * ncol := Nat.mul_le_mul_right ncol hr
  rw [Nat.add_mul, Nat.one_mul] at h1
  omega

theorem storeIdx_cell {t : IdxTy} {n : Nat} (ht : t.w ≤ 64) {k : Nat} (hk : k < n) :
    storeIdx t (BitVec.ofInt 64 (k : Int)) = enc t n k := by
  rw [enc_cell hk, storeIdx, BitVec.ofInt_natCast, BitVec.setWidth_ofNat_of_le ht]

/-! ### neighbours -/

theorem nbr64_eq {t : IdxTy} {n i : Nat} (hc : Cap t n) (hi : i < n) (ncol : Nat) (dr dc : Int) :
    nbr64 t (enc t n i) (BitVec.ofNat 64 ncol) dr dc = BitVec.ofInt 64 ((i : Int) + dr * ncol + dc) := by
  simp only [nbr64, toI64_enc hc hi, ofNat_eq_ofInt, ← BitVec.ofInt_mul, ← BitVec.ofInt_add]

theorem nbrT_eq {t : IdxTy} {n i : Nat} (hi : i < n) (ncol : Nat) (dr dc : Int) :
    nbrT t (enc t n i) ncol dr dc = BitVec.ofInt t.w ((i : Int) + dr * ncol + dc) := by
  simp only [nbrT, enc_cell hi, ofNat_eq_ofInt, ← BitVec.ofInt_mul, ← BitVec.ofInt_add]

/-! ### `//` and `%` -/

theorem rowT_eq {t : IdxTy} {n i : Nat} (hc : Cap t n) (hi : i < n) (ncol : Nat)
    (hn : ncol ≤ n) : rowT t (enc t n i) ncol = enc t n (i / ncol) := by
  have hq : i / ncol < n := Nat.lt_of_le_of_lt (Nat.div_le_self _ _) hi
  have hb := (cap_bound hc).1
  have hw := (cap_bound hc).2
  rw [enc_cell hi, enc_cell hq]
  unfold rowT fdivM
  split
  · rename_i hs
    have hbs := cap_bound_signed hc hs
    rw [toInt_ofNat_small hw i (by omega), toInt_ofNat_small hw ncol (by omega), ← Int.natCast_ediv,
      BitVec.ofInt_natCast]
  · apply BitVec.eq_of_toNat_eq
    rw [BitVec.toNat_udiv, BitVec.toNat_ofNat, BitVec.toNat_ofNat, BitVec.toNat_ofNat,
      Nat.mod_eq_of_lt (by omega : i < 2 ^ t.w), Nat.mod_eq_of_lt (by omega : ncol < 2 ^ t.w),
      Nat.mod_eq_of_lt (by omega : i / ncol < 2 ^ t.w)]

theorem colT_eq {t : IdxTy} {n i : Nat} (hc : Cap t n) (hi : i < n) (ncol : Nat)
    (hn : ncol ≤ n) : colT t (enc t n i) ncol = enc t n (i % ncol) := by
  have hq : i % ncol < n := Nat.lt_of_le_of_lt (Nat.mod_le _ _) hi
  have hb := (cap_bound hc).1
  have hw := (cap_bound hc).2
  rw [enc_cell hi, enc_cell hq]
  unfold colT fmodM
  split
  · rename_i hs
    have hbs := cap_bound_signed hc hs
    rw [toInt_ofNat_small hw i (by omega), toInt_ofNat_small hw ncol (by omega), ← Int.natCast_emod,
      BitVec.ofInt_natCast]
  · apply BitVec.eq_of_toNat_eq
    rw [BitVec.toNat_umod, BitVec.toNat_ofNat, BitVec.toNat_ofNat, BitVec.toNat_ofNat,
      Nat.mod_eq_of_lt (by omega : i < 2 ^ t.w), Nat.mod_eq_of_lt (by omega : ncol < 2 ^ t.w),
      Nat.mod_eq_of_lt (by omega : i % ncol < 2 ^ t.w)]

theorem toInt_ofNat_64 (k : Nat) (hk : k < 2 ^ 63) : (BitVec.ofNat 64 k).toInt = (k : Int) := by
  rw [ofNat_eq_ofInt]; exact toInt_ofInt_64 _ (by omega) (by omega)

theorem fdiv64_eq (a b : Nat) (ha : a < 2 ^ 63) (hb : b < 2 ^ 63) :
    fdivM true (BitVec.ofInt 64 (a : Int)) (BitVec.ofNat 64 b) = BitVec.ofInt 64 ((a / b : Nat) : Int) := by
  unfold fdivM
  rw [if_pos rfl, toInt_ofInt_64 _ (by omega) (by omega), toInt_ofNat_64 b hb, Int.natCast_ediv]

theorem fmod64_eq (a b : Nat) (ha : a < 2 ^ 63) (hb : b < 2 ^ 63) :
    fmodM true (BitVec.ofInt 64 (a : Int)) (BitVec.ofNat 64 b) = BitVec.ofInt 64 ((a % b : Nat) : Int) := by
  unfold fmodM
  rw [if_pos rfl, toInt_ofInt_64 _ (by omega) (by omega), toInt_ofNat_64 b hb, Int.natCast_emod]

theorem row64_eq {t : IdxTy} {n i : Nat} (hc : Cap t n) (h63 : n < 2 ^ 63) (hi : i < n) (ncol : Nat)
    (hn : ncol ≤ n) : row64 t (enc t n i) (BitVec.ofNat 64 ncol) = BitVec.ofInt 64 ((i / ncol : Nat) : Int) := by
  unfold row64
  rw [toI64_enc hc hi, fdiv64_eq i ncol (by omega) (by omega)]

theorem col64_eq {t : IdxTy} {n i : Nat} (hc : Cap t n) (h63 : n < 2 ^ 63) (hi : i < n) (ncol : Nat)
    (hn : ncol ≤ n) : col64 t (enc t n i) (BitVec.ofNat 64 ncol) = BitVec.ofInt 64 ((i % ncol : Nat) : Int) := by
  unfold col64
  rw [toI64_enc hc hi, fmod64_eq i ncol (by omega) (by omega)]

/-! ### `abs` of a difference -/

theorem absM_ofInt_64 (z : Int) (h0 : -(2:Int)^63 < z) (h1 : z < (2:Int)^63) :
    (absM (BitVec.ofInt 64 z)).toInt = (z.natAbs : Int) := by
  unfold absM
  have hz := toInt_ofInt_64 z (by omega) h1
  by_cases h : (BitVec.ofInt 64 z).slt 0 = true
  · rw [if_pos h, ← BitVec.ofInt_neg, toInt_ofInt_64 _ (by omega) (by omega)]
    rw [BitVec.slt_iff_toInt_lt, hz] at h
    simp at h; omega
  · rw [if_neg h, hz]
    rw [BitVec.slt_iff_toInt_lt, hz] at h
    simp at h; omega

theorem absDiff64_eq {t : IdxTy} {n i j : Nat} (hc : Cap t n) (h63 : n < 2 ^ 63) (hi : i < n) (hj : j < n) :
    (absDiff64 t (enc t n i) (enc t n j)).toInt = (((i : Int) - j).natAbs : Int) := by
  unfold absDiff64
  rw [toI64_enc hc hi, toI64_enc hc hj, ← ofInt_sub]
  exact absM_ofInt_64 _ (by omega) (by omega)

theorem absDiffT_unsigned {t : IdxTy} {n i j : Nat} (hc : Cap t n) (hs : t.signed = false) (hi : i < n)
    (hj : j < n) (hij : i < j) : (absDiffT t (enc t n i) (enc t n j)).toNat = 2 ^ t.w - (j - i) := by
  have hb := (cap_bound hc).1
  unfold absDiffT
  simp only [hs, Bool.false_eq_true, if_false]
  rw [enc_cell hi, enc_cell hj, ofNat_eq_ofInt, ofNat_eq_ofInt, ← ofInt_sub, BitVec.toNat_ofInt,
    ← Int.add_emod_right, Int.emod_eq_of_lt (by omega) (by omega)]
  omega

/-! ### `subidx_2_idx`, `in_d8` -/

theorem subidx2idx_eq {t : IdxTy} {n i : Nat} (hc : Cap t n) (h63 : n < 2 ^ 63) (hi : i < n)
    (regimeP : Bool) (subncol cellsize ncol : Nat) (hsn : subncol ≤ n) (hcs : cellsize < 2 ^ 63) :
    subidx2idx t regimeP (enc t n i) subncol cellsize ncol
      = BitVec.ofInt 64 (((i / subncol / cellsize) * ncol + (i % subncol) / cellsize : Nat) : Int) := by
  have hq : i / subncol < n := Nat.lt_of_le_of_lt (Nat.div_le_self _ _) hi
  have hm : i % subncol < n := Nat.lt_of_le_of_lt (Nat.mod_le _ _) hi
  have hr0 : (if regimeP = true then toI64 t (rowT t (enc t n i) subncol)
      else row64 t (enc t n i) (BitVec.ofNat 64 subncol)) = BitVec.ofInt 64 ((i / subncol : Nat) : Int) := by
    split
    · rw [rowT_eq hc hi subncol hsn, toI64_enc hc hq]
    · exact row64_eq hc h63 hi subncol hsn
  have hc0 : (if regimeP = true then toI64 t (colT t (enc t n i) subncol)
      else col64 t (enc t n i) (BitVec.ofNat 64 subncol)) = BitVec.ofInt 64 ((i % subncol : Nat) : Int) := by
    split
    · rw [colT_eq hc hi subncol hsn, toI64_enc hc hm]
    · exact col64_eq hc h63 hi subncol hsn
  unfold subidx2idx
  simp only [hr0, hc0]
  rw [fdiv64_eq _ cellsize (by omega) hcs, fdiv64_eq _ cellsize (by omega) hcs, ofNat_eq_ofInt,
    ← BitVec.ofInt_mul, ← BitVec.ofInt_add, Int.natCast_add, Int.natCast_mul]

theorem sle1_absM (z : Int) (h0 : -(2:Int)^63 < z) (h1 : z < (2:Int)^63) :
    (!(BitVec.slt (1 : BitVec 64) (absM (BitVec.ofInt 64 z)))) = decide (z.natAbs ≤ 1) := by
  have h := absM_ofInt_64 z h0 h1
  by_cases hlt : BitVec.slt (1 : BitVec 64) (absM (BitVec.ofInt 64 z)) = true
  · have h2 := BitVec.slt_iff_toInt_lt.1 hlt
    rw [h] at h2
    have h3 : (1 : BitVec 64).toInt = 1 := by decide
    rw [h3] at h2
    have : ¬ z.natAbs ≤ 1 := by omega
    rw [hlt]; simp [this]
  · have h2 : ¬ ((1 : BitVec 64).toInt < (absM (BitVec.ofInt 64 z)).toInt) :=
      fun h' => hlt (BitVec.slt_iff_toInt_lt.2 h')
    rw [h] at h2
    have h3 : (1 : BitVec 64).toInt = 1 := by decide
    rw [h3] at h2
    have : z.natAbs ≤ 1 := by omega
    rw [Bool.not_eq_true] at hlt
    rw [hlt]; simp [this]

theorem d8_aux (a b : Nat) (ha : a < 2 ^ 63) (hb : b < 2 ^ 63) :
    (!(BitVec.slt (1 : BitVec 64) (absM (BitVec.ofInt 64 ((a : Int) - (b : Int)))))) =
      decide (((a : Int) - (b : Int)).natAbs ≤ 1) :=
  sle1_absM _ (by omega) (by omega)

theorem inD8_eq {t : IdxTy} {n i j : Nat} (hc : Cap t n) (h63 : n < 2 ^ 63) (hi : i < n) (hj : j < n)
    (ncol : Nat) (hn : ncol ≤ n) :
    inD8 t (enc t n i) (enc t n j) ncol
      = (decide ((((j % ncol : Nat) : Int) - ((i % ncol : Nat) : Int)).natAbs ≤ 1)
          && decide ((((j / ncol : Nat) : Int) - ((i / ncol : Nat) : Int)).natAbs ≤ 1)) := by
  have hqi : i / ncol < n := Nat.lt_of_le_of_lt (Nat.div_le_self _ _) hi
  have hmi : i % ncol < n := Nat.lt_of_le_of_lt (Nat.mod_le _ _) hi
  have hqj : j / ncol < n := Nat.lt_of_le_of_lt (Nat.div_le_self _ _) hj
  have hmj : j % ncol < n := Nat.lt_of_le_of_lt (Nat.mod_le _ _) hj
  unfold inD8
  simp only [rowT_eq hc hi ncol hn, rowT_eq hc hj ncol hn, colT_eq hc hi ncol hn, colT_eq hc hj ncol hn,
    toI64_enc hc hqi, toI64_enc hc hmi, toI64_enc hc hqj, toI64_enc hc hmj, ← ofInt_sub]
  rw [d8_aux _ _ (by omega) (by omega), d8_aux _ _ (by omega) (by omega)]

/-! ### the sentinel through the conversions -/

theorem toI64_mv_signed {t : IdxTy} (hw : 0 < t.w) (hs : t.signed = true) :
    toI64 t t.mv = BitVec.ofInt 64 (-1) := by
  rw [toI64_eq_ofInt, val_mv hw, if_pos hs]

theorem toI64_mv_unsigned {t : IdxTy} (hw : 0 < t.w) (hs : t.signed = false) :
    toI64 t t.mv = BitVec.ofInt 64 ((2 ^ t.w - 1 : Nat) : Int) := by
  rw [toI64_eq_ofInt, val_mv hw]; simp [hs]

/-! ### the unrepaired form on the signed types was exact -/

theorem absM_ofInt {w : Nat} (hw : 0 < w) (z : Int) (h0 : -((2 ^ (w-1) : Nat) : Int) < z)
    (h1 : z < ((2 ^ (w-1) : Nat) : Int)) : (absM (BitVec.ofInt w z)).toInt = (z.natAbs : Int) := by
  unfold absM
  have hz := toInt_ofInt_range hw z (by omega) h1
  have h00 : (0 : BitVec w).toInt = 0 := by simp
  by_cases h : (BitVec.ofInt w z).slt 0 = true
  · rw [if_pos h, ← BitVec.ofInt_neg, toInt_ofInt_range hw _ (by omega) (by omega)]
    rw [BitVec.slt_iff_toInt_lt, hz, h00] at h
    omega
  · rw [if_neg h, hz]
    rw [BitVec.slt_iff_toInt_lt, hz, h00] at h
    omega

theorem absDiffT_signed {t : IdxTy} {n i j : Nat} (hc : Cap t n) (hs : t.signed = true) (hi : i < n)
    (hj : j < n) : (absDiffT t (enc t n i) (enc t n j)).toInt = (((i : Int) - j).natAbs : Int) := by
  have hbs := cap_bound_signed hc hs
  unfold absDiffT
  rw [if_pos hs, enc_cell hi, enc_cell hj, ofNat_eq_ofInt, ofNat_eq_ofInt, ← ofInt_sub]
  exact absM_ofInt (cap_bound hc).2 _ (by omega) (by omega)

theorem absDiffJit_unsigned {t : IdxTy} {n i j : Nat} (hc : Cap t n) (ht : t.w ≤ 64) (hs : t.signed = false)
    (hi : i < n) (hj : j < n) (hij : i < j) :
    (absDiffJit t (enc t n i) (enc t n j)).toNat = 2 ^ 64 - (j - i) := by
  have hb := (cap_bound hc).1
  have hle : 2 ^ t.w ≤ 2 ^ 64 := Nat.pow_le_pow_right (by decide) ht
  unfold absDiffJit
  simp only [hs, Bool.false_eq_true, if_false]
  rw [enc_cell hi, enc_cell hj, BitVec.setWidth_ofNat_of_le_of_lt (by omega) (by omega),
    BitVec.setWidth_ofNat_of_le_of_lt (by omega) (by omega), ofNat_eq_ofInt, ofNat_eq_ofInt, ← ofInt_sub,
    BitVec.toNat_ofInt, ← Int.add_emod_right, Int.emod_eq_of_lt (by omega) (by omega)]
  omega

end Pf.C16m
