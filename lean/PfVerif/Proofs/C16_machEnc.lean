import PfVerif.Model.C16_mach
/-! Helper lemmas of the C16 extension `C16_mach`: encoding / decoding of abstract indices as machine
values, sentinel, order. Everything is generic in the width (the capacity condition excludes width 0);
core Lean only. -/
namespace Pf.C16m

theorem pow_split {w : Nat} (hw : 0 < w) : 2 ^ w = 2 * 2 ^ (w - 1) := by
  obtain ⟨k, rfl⟩ : ∃ k, w = k + 1 := ⟨w - 1, by omega⟩
  simp [Nat.pow_succ, Nat.mul_comm]

/-- capacity leaves room for the sentinel: `n + 2 ≤ 2^w` with strict inequality, and the width is positive -/
theorem cap_bound {t : IdxTy} {n : Nat} (hc : Cap t n) : n + 2 < 2 ^ t.w ∧ 0 < t.w := by
  unfold Cap IdxTy.cap at hc
  by_cases hw : t.w = 0
  · rw [hw] at hc; simp at hc
  · have h2 := pow_split (Nat.pos_of_ne_zero hw)
    have hp := Nat.two_pow_pos (t.w - 1)
    refine ⟨?_, Nat.pos_of_ne_zero hw⟩
    split at hc <;> omega

/-- for the signed types the capacity even keeps every index below `2^(w-1)` -/
theorem cap_bound_signed {t : IdxTy} {n : Nat} (hc : Cap t n) (hs : t.signed = true) :
    n + 2 ≤ 2 ^ (t.w - 1) := by
  unfold Cap IdxTy.cap at hc
  simp [hs] at hc; omega

theorem mv_eq_allOnes (t : IdxTy) : t.mv = BitVec.allOnes t.w := by
  unfold IdxTy.mv
  apply BitVec.eq_of_toNat_eq
  rw [BitVec.toNat_ofInt, BitVec.toNat_allOnes]
  have h := Nat.two_pow_pos t.w
  have : (-1 : Int) % ((2 ^ t.w : Nat) : Int) = ((2 ^ t.w - 1 : Nat) : Int) := by
    rw [← Int.add_emod_right, Int.emod_eq_of_lt] <;> omega
  rw [this]; simp

theorem mv_toNat (t : IdxTy) : t.mv.toNat = 2 ^ t.w - 1 := by
  rw [mv_eq_allOnes, BitVec.toNat_allOnes]

theorem enc_cell {t : IdxTy} {n i : Nat} (hi : i < n) : enc t n i = BitVec.ofNat t.w i := by
  simp [enc, hi]

theorem enc_missing {t : IdxTy} {n i : Nat} (hi : n ≤ i) : enc t n i = t.mv := by
  have : ¬ i < n := by omega
  simp [enc, this]

theorem enc_toNat {t : IdxTy} {n i : Nat} (hc : Cap t n) (hi : i < n) : (enc t n i).toNat = i := by
  have := (cap_bound hc).1
  rw [enc_cell hi, BitVec.toNat_ofNat, Nat.mod_eq_of_lt (by omega)]

theorem enc_eq_mv_iff' {t : IdxTy} {n : Nat} (hc : Cap t n) (i : Nat) : enc t n i = t.mv ↔ n ≤ i := by
  constructor
  · intro h
    by_cases hi : i < n
    · have h1 := enc_toNat hc hi
      rw [h, mv_toNat] at h1
      have := (cap_bound hc).1
      omega
    · omega
  · exact enc_missing

theorem enc_inj' {t : IdxTy} {n : Nat} (hc : Cap t n) {i : Nat} (hi : i < n) (j : Nat) :
    enc t n j = enc t n i ↔ j = i := by
  constructor
  · intro h
    by_cases hj : j < n
    · have := congrArg BitVec.toNat h
      rwa [enc_toNat hc hj, enc_toNat hc hi] at this
    · rw [enc_missing (by omega)] at h
      have := (enc_eq_mv_iff' hc i).1 h.symm
      omega
  · rintro rfl; rfl

theorem dec_enc' {t : IdxTy} {n : Nat} (hc : Cap t n) {i : Nat} (hi : i ≤ n) : dec t n (enc t n i) = i := by
  unfold dec
  by_cases h : i < n
  · have : enc t n i ≠ t.mv := fun h' => by have := (enc_eq_mv_iff' hc i).1 h'; omega
    rw [if_neg this, enc_toNat hc h]
  · have : i = n := by omega
    subst this
    rw [if_pos (enc_missing (Nat.le_refl _))]

theorem enc_dec' {t : IdxTy} {n : Nat} {v : BitVec t.w} (hv : WfM t n v) : enc t n (dec t n v) = v := by
  unfold dec
  by_cases h : v = t.mv
  · rw [if_pos h, enc_missing (Nat.le_refl _), h]
  · rcases hv with hv | hv
    · exact absurd hv h
    · rw [if_neg h, enc_cell hv]; simp

theorem dec_le {t : IdxTy} {n : Nat} {v : BitVec t.w} (hv : WfM t n v) : dec t n v ≤ n := by
  unfold dec
  split
  · exact Nat.le_refl _
  · rcases hv with hv | hv
    · contradiction
    · omega

theorem wfM_enc {t : IdxTy} {n : Nat} (hc : Cap t n) (i : Nat) : WfM t n (enc t n i) := by
  by_cases h : i < n
  · right; rw [enc_toNat hc h]; exact h
  · left; exact enc_missing (by omega)

/-! ### numeric value and order -/

theorem val_enc_cell {t : IdxTy} {n i : Nat} (hc : Cap t n) (hi : i < n) : val t (enc t n i) = (i : Int) := by
  unfold val
  have h1 := enc_toNat hc hi
  split
  · rename_i hs
    have := cap_bound_signed hc hs
    have h2 := pow_split (cap_bound hc).2
    rw [BitVec.toInt_eq_toNat_cond, h1]
    have : 2 * i < 2 ^ t.w := by omega
    simp [this]
  · rw [h1]

theorem val_mv {t : IdxTy} (hw : 0 < t.w) :
    val t t.mv = if t.signed then -1 else ((2 ^ t.w - 1 : Nat) : Int) := by
  unfold val
  have h2 := pow_split hw
  have hp := Nat.two_pow_pos (t.w - 1)
  split
  · rw [BitVec.toInt_eq_toNat_cond, mv_toNat]
    have : ¬ 2 * (2 ^ t.w - 1) < 2 ^ t.w := by omega
    rw [if_neg this]; omega
  · rw [mv_toNat]

theorem ltM_iff_val (t : IdxTy) (a b : BitVec t.w) : ltM t a b = true ↔ val t a < val t b := by
  unfold ltM val
  split
  · exact BitVec.slt_iff_toInt_lt
  · rw [BitVec.ult_iff_toNat_lt]; omega

end Pf.C16m
