import PfVerif.Proofs.C16_val
import PfVerif.Proofs.C04
/-! `maskedCount` (the accumulation of the constant field 1 over the stream network, the right-hand side of
the C08 bound `2^(ord-1) ≤ maskedCount`) is at most the number of cells: transport of the `Nat` sweep to the
`Int` sweep of C04 and its closed form `sweepUp_add_sum`. Core Lean only. -/
namespace Pf.C16v
open Pf

theorem map_get!_cast (xs : Array Nat) (i : Nat) : (xs.map (fun k : Nat => (k : Int)))[i]! = (xs[i]! : Int) := by
  by_cases hi : i < xs.size
  · rw [getElem!_pos (xs.map _) i (by simpa using hi), getElem!_pos xs i hi, Array.getElem_map]
  · rw [getElem!_neg (xs.map _) i (by simpa using hi), getElem!_neg xs i hi]
    rfl

theorem stepUp_cast (ds : Array Nat) (ok : Nat → Bool) (i : Nat) (o : Array Nat) :
    (stepUp ds (fun c acc v => if ok c = true then acc + v else acc) i o).map (fun k : Nat => (k : Int))
      = stepUp ds (updAdd ok) i (o.map (fun k : Nat => (k : Int))) := by
  unfold stepUp
  split
  · rfl
  · rw [Array.map_setIfInBounds, map_get!_cast, map_get!_cast]
    congr 1
    unfold updAdd
    split
    · rename_i h; simp [h]
    · rename_i h; simp [h]

theorem sweepUp_cast (ds : Array Nat) (ok : Nat → Bool) (seq : List Nat) (o : Array Nat) :
    (sweepUp ds (fun c acc v => if ok c = true then acc + v else acc) seq o).map (fun k : Nat => (k : Int))
      = sweepUp ds (updAdd ok) seq (o.map (fun k : Nat => (k : Int))) := by
  induction seq with
  | nil => rfl
  | cons i rest ih =>
    simp only [sweepUp, List.foldr_cons] at ih ⊢
    rw [stepUp_cast, ih]

theorem sumRange_ite0_one_le (P : Nat → Prop) : ∀ n : Nat, sumRange n (fun k => ite0 (P k) 1) ≤ (n : Int) := by
  intro n
  induction n with
  | zero => simp [sumRange]
  | succ n ih =>
    simp only [sumRange]
    by_cases hp : P n
    · rw [ite0_pos hp]; omega
    · rw [ite0_neg hp]; omega

/-- **the masked catchment count is at most the number of cells** -/
theorem maskedCount_le (ds : Array Nat) (seq : List Nat) (mask : Option (Array Bool))
    (htopo : Topo ds seq) (hb : ∀ i ∈ seq, i < ds.size) (j : Nat) (hj : j ∈ seq) :
    (maskedCount ds seq mask)[j]! ≤ ds.size := by
  have h1 := sweepUp_cast ds (maskAt mask) seq (Array.replicate ds.size 1)
  have h2 := sweepUp_add_sum ds (maskAt mask) seq htopo ds.size hb
    ((Array.replicate ds.size 1).map (fun k : Nat => (k : Int))) (fun i hi => by simpa using hb i hi) j hj
  have h3 : ((maskedCount ds seq mask)[j]! : Int) =
      (sweepUp ds (updAdd (maskAt mask)) seq ((Array.replicate ds.size 1).map (fun k : Nat => (k : Int))))[j]! := by
    rw [← h1, map_get!_cast]; rfl
  rw [h2] at h3
  have h4 : sumOver ds.size (fun k => k ∈ seq ∧ UpG ds (maskAt mask) j k)
      (fun k => ((Array.replicate ds.size 1).map (fun k : Nat => (k : Int)))[k]!)
      = sumOver ds.size (fun k => k ∈ seq ∧ UpG ds (maskAt mask) j k) (fun _ => 1) := by
    apply sumOver_congr (fun _ _ => Iff.rfl)
    intro k hk _
    rw [map_get!_cast]
    simp [hk]
  rw [h4] at h3
  have := sumRange_ite0_one_le (fun k => k ∈ seq ∧ UpG ds (maskAt mask) j k) ds.size
  unfold sumOver at h3
  simp only [] at h3 this
  omega

end Pf.C16v
