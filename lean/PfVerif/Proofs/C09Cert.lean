import PfVerif.Proofs.C09Collect
/-! Soundness of the per-cell certificate checks of `upscaleOK` (C09). Core Lean only. -/
namespace Pf

theorem okD8_sound (cds : Array Nat) (ncol : Nat) (h : okD8 cds ncol = true) :
    ∀ c < cds.size, cds[c]! ≠ cds.size →
      cds[c]! < cds.size ∧ absDiff (cds[c]! % ncol) (c % ncol) ≤ 1 ∧ absDiff (cds[c]! / ncol) (c / ncol) ≤ 1 := by
  intro c hc hv
  have := (allCells_iff _ _).mp h c hc
  simp only [inD8, Bool.or_eq_true, beq_iff_eq, Bool.and_eq_true, decide_eq_true_eq] at this
  rcases this with h0 | ⟨h1, h2, h3⟩
  · exact absurd h0 hv
  · exact ⟨h1, h2, h3⟩

/-- what `okRank` says about one valid cell -/
theorem okRank_cell (cds : Array Nat) (rk : Array Int) (h : okRank cds rk = true) :
    ∀ c < cds.size, cds[c]! ≠ cds.size →
      cds[c]! < cds.size ∧ (cds[c]! = c → rk[c]! = 0) ∧
      (cds[c]! ≠ c → cds[cds[c]!]! < cds.size ∧ 0 ≤ rk[cds[c]!]! ∧ rk[c]! = rk[cds[c]!]! + 1) := by
  intro c hc hv
  have := (allCells_iff _ _).mp h c hc
  simp only [Bool.or_eq_true, beq_iff_eq, Bool.and_eq_true, decide_eq_true_eq] at this
  rcases this with h0 | ⟨h1, h2⟩
  · exact absurd h0 hv
  · refine ⟨h1, fun hp => ?_, fun hp => ?_⟩
    · simpa [hp] using h2
    · have h3 : (cds[cds[c]!]! < cds.size ∧ 0 ≤ rk[cds[c]!]!) ∧ rk[c]! = rk[cds[c]!]! + 1 := by
        simpa [hp] using h2
      exact ⟨h3.1.1, h3.1.2, h3.2⟩

theorem okRank_nonneg (cds : Array Nat) (rk : Array Int) (h : okRank cds rk = true) :
    ∀ c < cds.size, cds[c]! ≠ cds.size → 0 ≤ rk[c]! := by
  intro c hc hv
  obtain ⟨_, h2, h3⟩ := okRank_cell cds rk h c hc hv
  by_cases hp : cds[c]! = c
  · rw [h2 hp]; exact Int.le_refl 0
  · obtain ⟨_, h5, h6⟩ := h3 hp; omega

/-- **rank certificate ⇒ loop-free**: a valid coarse cell with rank `m` reaches a pit after exactly `m` steps -/
theorem okRank_reaches (cds : Array Nat) (rk : Array Int) (h : okRank cds rk = true) :
    ∀ (m : Nat) (c : Nat), c < cds.size → cds[c]! ≠ cds.size → rk[c]! = (m : Int) →
      iterA cds m c < cds.size ∧ cds[iterA cds m c]! = iterA cds m c := by
  intro m
  induction m with
  | zero =>
    intro c hc hv hr
    obtain ⟨_, _, h3⟩ := okRank_cell cds rk h c hc hv
    by_cases hp : cds[c]! = c
    · exact ⟨by simpa [iterA] using hc, by simpa [iterA] using hp⟩
    · obtain ⟨_, h5, h6⟩ := h3 hp; omega
  | succ m ih =>
    intro c hc hv hr
    obtain ⟨h1, h2, h3⟩ := okRank_cell cds rk h c hc hv
    by_cases hp : cds[c]! = c
    · have := h2 hp; omega
    · obtain ⟨h4, h5, h6⟩ := h3 hp
      have := ih cds[c]! h1 (Nat.ne_of_lt h4) (by omega)
      simpa [iterA] using this

theorem okValidIff_sound (cds out : Array Nat) (subn : Nat) (h : okValidIff cds out subn = true) :
    out.size = cds.size ∧ ∀ c < cds.size, (cds[c]! ≠ cds.size ↔ out[c]! ≠ subn) := by
  simp only [okValidIff, Bool.and_eq_true, beq_iff_eq] at h
  refine ⟨h.1, fun c hc => ?_⟩
  have := (allCells_iff _ _).mp h.2 c hc
  simp only [beq_iff_eq] at this
  by_cases h1 : cds[c]! = cds.size <;> by_cases h2 : out[c]! = subn <;> simp_all

theorem okOutlets_sound (ds out inv : Array Nat) (h : okOutlets ds out inv = true) :
    (∀ c < out.size, out[c]! ≠ ds.size → out[c]! < ds.size ∧ ds[out[c]!]! ≠ ds.size) ∧
    (∀ c c', c < out.size → c' < out.size → out[c]! ≠ ds.size → out[c]! = out[c']! → c = c') := by
  have hcell : ∀ c < out.size, out[c]! ≠ ds.size →
      out[c]! < ds.size ∧ ds[out[c]!]! ≠ ds.size ∧ inv[out[c]!]! = c := by
    intro c hc hv
    have := (allCells_iff _ _).mp h c hc
    simp only [Bool.or_eq_true, beq_iff_eq, Bool.and_eq_true, decide_eq_true_eq, bne_iff_ne, ne_eq] at this
    rcases this with h0 | ⟨⟨h1, h2⟩, h3⟩
    · exact absurd h0 hv
    · exact ⟨h1, h2, h3⟩
  refine ⟨fun c hc hv => ⟨(hcell c hc hv).1, (hcell c hc hv).2.1⟩, ?_⟩
  intro c c' hc hc' hv he
  have h1 := (hcell c hc hv).2.2
  have h2 := (hcell c' hc' (he ▸ hv)).2.2
  rw [← h1, he, h2]

theorem okCellValid_sound (ds out wit : Array Nat) (cell : Nat → Nat) (h : okCellValid ds out wit cell = true) :
    ∀ c < out.size, out[c]! ≠ ds.size → ∃ p, p < ds.size ∧ ds[p]! ≠ ds.size ∧ cell p = c := by
  intro c hc hv
  have := (allCells_iff _ _).mp h c hc
  simp only [Bool.or_eq_true, beq_iff_eq, Bool.and_eq_true, decide_eq_true_eq, bne_iff_ne, ne_eq] at this
  rcases this with h0 | ⟨⟨h1, h2⟩, h3⟩
  · exact absurd h0 hv
  · exact ⟨_, h1, h2, h3⟩

theorem okOwnCell_sound (ds out : Array Nat) (cell : Nat → Nat) (h : okOwnCell ds out cell = true) :
    ∀ c < out.size, out[c]! ≠ ds.size → cell out[c]! = c := by
  intro c hc hv
  have := (allCells_iff _ _).mp h c hc
  simp only [Bool.or_eq_true, beq_iff_eq] at this
  rcases this with h0 | h1
  · exact absurd h0 hv
  · exact h1

end Pf
