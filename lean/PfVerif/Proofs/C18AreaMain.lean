import PfVerif.Proofs.C18AreaStep
/-! The loop of `subbasins_area` (model `areaSeeds`) keeps the invariant of Proofs/C18AreaInv.lean;
consequence: every non-pit outlet keeps a region larger than `area_min`. Core Lean only. -/
namespace Pf.C18
open Pf

section
variable (ds usMain : Array Nat) (uparea area : Array Int) (amin : Int) (seq : List Nat) (rk : Nat → Nat)

/-- the invariant on the concrete loop state `(upa_out, (subbas, idxs))` after the cells `pre` -/
def CInv (pre : List Nat) (st : Array Int × Seeds) : Prop :=
  st.1.size = ds.size ∧ ∃ (own : Nat → Nat) (reg : Nat → Int),
    SInv (fun x => ds[x]!) (fun d => usMain[d]!) (fun x => uparea[x]!) amin seq rk pre st.2.2 own ∧
    UInv (fun x => ds[x]!) (fun d => usMain[d]!) (fun x => uparea[x]!) (fun x => area[x]!) amin seq rk
      pre st.2.2 own (fun j => st.1[j]!) reg

variable {ds usMain uparea area amin seq rk}

theorem CInv.init (hsz : uparea.size = ds.size) (sb : Array Int) :
    CInv ds usMain uparea area amin seq rk [] (uparea, (sb, [])) := by
  refine ⟨hsz, fun x => x, fun _ => 0, SInv.nil _, ?_⟩
  refine ⟨fun x _ _ => Or.inl rfl, ?_, ?_, ?_, ?_, ?_, ?_⟩ <;> simp

theorem CInv.step
    (H : AHyp (fun x => ds[x]!) (fun d => usMain[d]!) (fun x => uparea[x]!) (fun x => area[x]!) seq rk)
    (hb : ∀ i ∈ seq, i < ds.size)
    {pre : List Nat} {st : Array Int × Seeds} (h : CInv ds usMain uparea area amin seq rk pre st)
    {idx : Nat} (hidx : idx ∈ seq) (hnP : idx ∉ pre) (hdd : ds[idx]! = idx ∨ ds[idx]! ∈ pre)
    (hrkP : ∀ y ∈ pre, rk y ≤ rk idx) :
    CInv ds usMain uparea area amin seq rk (pre ++ [idx])
      (pushStep (areaDec ds usMain uparea amin) (areaNext ds usMain uparea amin) st idx) := by
  obtain ⟨hsz, own, reg, hS, hU⟩ := h
  have hilt : idx < st.1.size := by rw [hsz]; exact hb idx hidx
  by_cases hp : ds[idx]! = idx
  · -- pit
    have hst : pushStep (areaDec ds usMain uparea amin) (areaNext ds usMain uparea amin) st idx =
        (st.1, pushOutlet st.2 idx) := by
      simp [pushStep, areaDec, areaNext, hp]
    rw [hst]
    refine ⟨hsz, upd own idx idx, upd reg idx (uparea[idx]!), ?_, ?_⟩
    · exact hS.cut hidx hnP hdd (fun h => absurd hp h) (fun h => absurd hp h)
    · exact hU.step_pit H hS hidx hnP hp
  · have hd : ds[idx]! ∈ pre := by
      rcases hdd with h | h
      · exact absurd h hp
      · exact h
    have hdlt : ds[idx]! < st.1.size := by rw [hsz]; exact hb _ (hS.inSeq _ hd)
    have hrk := H.rkS idx hidx hp
    by_cases hq : st.1[ds[idx]!]! - uparea[idx]! > amin ∧ uparea[idx]! > amin
    · by_cases htrib : usMain[ds[idx]!]! = idx
      · by_cases hconf : uparea[ds[idx]!]! - uparea[idx]! > amin
        · -- A3
          have hst : pushStep (areaDec ds usMain uparea amin) (areaNext ds usMain uparea amin) st idx =
              (st.1, st.2) := by
            simp [pushStep, areaDec, areaNext, hp, hq, htrib, hconf]
          rw [hst]
          refine ⟨hsz, upd own idx (own ds[idx]!), reg, ?_, ?_⟩
          · exact hS.nocut hidx hnP hd hp hrk
          · exact hU.step_A3 H hS hidx hnP hrkP hd hp hq.2 htrib
        · -- A2
          have hst : pushStep (areaDec ds usMain uparea amin) (areaNext ds usMain uparea amin) st idx =
              (st.1.setIfInBounds idx uparea[idx]!, pushOutlet st.2 idx) := by
            simp [pushStep, areaDec, areaNext, hp, hq, htrib, hconf]
          rw [hst]
          have hconf' : uparea[ds[idx]!]! - uparea[idx]! ≤ amin := by omega
          refine ⟨by simp [hsz], upd own idx idx,
            upd (upd reg (own ds[idx]!) (reg (own ds[idx]!) - uparea[idx]!)) idx (uparea[idx]!), ?_, ?_⟩
          · exact hS.cut hidx hnP hdd (fun _ => hq.2) (fun _ _ => hconf')
          · have := hU.step_A2 H hS hidx hnP hrkP hd hp hq.1 hq.2 htrib hconf'
            have heq : (fun j => (st.1.setIfInBounds idx uparea[idx]!)[j]!) =
                upd (fun j => st.1[j]!) idx (uparea[idx]!) := by
              funext j
              rw [get!_setIfInBounds]
              by_cases hj : j = idx
              · subst hj; simp [upd, hilt]
              · have : ¬ idx = j := fun h => hj h.symm
                simp [upd, hj, this]
            show UInv _ _ _ _ _ _ _ _ _ _ (fun j => (st.1.setIfInBounds idx uparea[idx]!)[j]!) _
            rw [heq]; exact this
      · -- A1
        obtain ⟨u1, hu1⟩ : ∃ u, u = st.1.setIfInBounds idx uparea[idx]! := ⟨_, rfl⟩
        obtain ⟨u2, hu2⟩ : ∃ u, u = u1.setIfInBounds ds[idx]! (u1[ds[idx]!]! - uparea[idx]!) := ⟨_, rfl⟩
        have hst : pushStep (areaDec ds usMain uparea amin) (areaNext ds usMain uparea amin) st idx =
            (u2.setIfInBounds usMain[ds[idx]!]! u2[ds[idx]!]!, pushOutlet st.2 idx) := by
          rw [hu2, hu1]
          simp [pushStep, areaDec, areaNext, hp, hq, htrib]
        rw [hst]
        have s1 : u1.size = st.1.size := by rw [hu1]; simp
        have s2 : u2.size = st.1.size := by rw [hu2]; simp [s1]
        have g1 : ∀ j, u1[j]! = if idx = j ∧ idx < st.1.size then uparea[idx]! else st.1[j]! := by
          intro j; rw [hu1, get!_setIfInBounds]
        have g2 : ∀ j, u2[j]! = if ds[idx]! = j ∧ ds[idx]! < u1.size then u1[ds[idx]!]! - uparea[idx]!
            else u1[j]! := by
          intro j; rw [hu2, get!_setIfInBounds]
        have hpi : ¬ idx = ds[idx]! := fun h => hp h.symm
        have hu1d : u1[ds[idx]!]! = st.1[ds[idx]!]! := by rw [g1]; simp [hpi]
        have hu2d : u2[ds[idx]!]! = st.1[ds[idx]!]! - uparea[idx]! := by
          rw [g2, hu1d]; simp [s1, hdlt]
        refine ⟨by simp [s2, hsz], upd own idx idx,
          upd (upd reg (own ds[idx]!) (reg (own ds[idx]!) - uparea[idx]!)) idx (uparea[idx]!), ?_, ?_⟩
        · exact hS.cut hidx hnP hdd (fun _ => hq.2) (fun _ hm => absurd hm htrib)
        · apply hU.step_A1 H hS hidx hnP hrkP hd hp hq.1 hq.2 htrib
          · show (u2.setIfInBounds usMain[ds[idx]!]! u2[ds[idx]!]!)[idx]! = _
            rw [get!_setIfInBounds, if_neg (fun h => htrib h.1), g2 idx, if_neg (fun h => hp h.1), g1 idx]
            simp [hilt]
          · show (u2.setIfInBounds usMain[ds[idx]!]! u2[ds[idx]!]!)[ds[idx]!]! = _
            rw [get!_setIfInBounds, hu2d]
            simp
          · intro hm
            show (u2.setIfInBounds usMain[ds[idx]!]! u2[ds[idx]!]!)[usMain[ds[idx]!]!]! = _
            have hmlt : usMain[ds[idx]!]! < st.1.size := by rw [hsz]; exact hb _ hm
            rw [get!_setIfInBounds, hu2d]
            simp [s2, hmlt]
          · intro j h1 h2 h3
            show (u2.setIfInBounds usMain[ds[idx]!]! u2[ds[idx]!]!)[j]! = _
            have e1 : ¬ idx = j := fun h => h1 h.symm
            have e2 : ¬ ds[idx]! = j := fun h => h2 h.symm
            have e3 : ¬ usMain[ds[idx]!]! = j := fun h => h3 h.symm
            rw [get!_setIfInBounds, if_neg (fun h => e3 h.1), g2 j, if_neg (fun h => e2 h.1), g1 j,
              if_neg (fun h => e1 h.1)]
    · -- B
      have hst : pushStep (areaDec ds usMain uparea amin) (areaNext ds usMain uparea amin) st idx =
          (st.1.setIfInBounds idx st.1[ds[idx]!]!, st.2) := by
        simp only [pushStep, areaDec, areaNext, hp, if_false, hq]
        simp
      rw [hst]
      refine ⟨by simp [hsz], upd own idx (own ds[idx]!), reg, ?_, ?_⟩
      · exact hS.nocut hidx hnP hd hp hrk
      · have := hU.step_B H hS hidx hnP hrkP hd hp hq
        have heq : (fun j => (st.1.setIfInBounds idx st.1[ds[idx]!]!)[j]!) =
            upd (fun j => st.1[j]!) idx (st.1[ds[idx]!]!) := by
          funext j
          rw [get!_setIfInBounds]
          by_cases hj : j = idx
          · subst hj; simp [upd, hilt]
          · have : ¬ idx = j := fun h => hj h.symm
            simp [upd, hj, this]
        show UInv _ _ _ _ _ _ _ _ _ _ (fun j => (st.1.setIfInBounds idx st.1[ds[idx]!]!)[j]!) _
        rw [heq]; exact this

theorem CInv.fold
    (H : AHyp (fun x => ds[x]!) (fun d => usMain[d]!) (fun x => uparea[x]!) (fun x => area[x]!) seq rk)
    (hb : ∀ i ∈ seq, i < ds.size) (hsz : uparea.size = ds.size)
    (hsorted : seq.Pairwise (fun x y => rk x ≤ rk y)) (sb : Array Int) :
    ∀ pre, Topo ds pre → (∃ suf, pre ++ suf = seq) →
      CInv ds usMain uparea area amin seq rk pre
        (pushFold (areaDec ds usMain uparea amin) (areaNext ds usMain uparea amin) pre (uparea, (sb, []))) := by
  intro pre htopo
  induction htopo with
  | nil => intro _; exact CInv.init hsz sb
  | @snoc pre i _ hi hds ih =>
    rintro ⟨suf, hsuf⟩
    have ih' := ih ⟨[i] ++ suf, by rw [← hsuf]; simp⟩
    have hfold : pushFold (areaDec ds usMain uparea amin) (areaNext ds usMain uparea amin) (pre ++ [i])
        (uparea, (sb, [])) =
        pushStep (areaDec ds usMain uparea amin) (areaNext ds usMain uparea amin)
          (pushFold (areaDec ds usMain uparea amin) (areaNext ds usMain uparea amin) pre (uparea, (sb, []))) i := by
      simp [pushFold, List.foldl_append]
    rw [hfold]
    have hiseq : i ∈ seq := by rw [← hsuf]; simp
    have hrkP : ∀ y ∈ pre, rk y ≤ rk i := by
      rw [← hsuf, List.append_assoc, List.pairwise_append] at hsorted
      intro y hy
      exact hsorted.2.2 y hy i (by simp)
    exact ih'.step H hb hiseq hi hds hrkP

/-- **region bound for the model**: after the loop there are an owner map (`own x` = first outlet on
the downstream path of `x`) and region areas `reg` with `reg o > area_min` for every non-pit outlet and
`reg o = uparea[o] - Σ uparea[o']` over the non-pit outlets `o'` whose downstream cell is owned by `o`. -/
theorem areaSeeds_region
    (H : AHyp (fun x => ds[x]!) (fun d => usMain[d]!) (fun x => uparea[x]!) (fun x => area[x]!) seq rk)
    (htopo : Topo ds seq) (hb : ∀ i ∈ seq, i < ds.size) (hsz : uparea.size = ds.size)
    (hsorted : seq.Pairwise (fun x y => rk x ≤ rk y)) :
    ∃ (own : Nat → Nat) (reg : Nat → Int),
      SInv (fun x => ds[x]!) (fun d => usMain[d]!) (fun x => uparea[x]!) amin seq rk seq
        (areaSeeds ds seq usMain uparea amin).2 own ∧
      (∀ o ∈ (areaSeeds ds seq usMain uparea amin).2, ds[o]! ≠ o → amin < reg o) ∧
      (∀ o ∈ (areaSeeds ds seq usMain uparea amin).2, reg o = uparea[o]! -
        csum (fun c => (areaSeeds ds seq usMain uparea amin).2.contains c && decide (ds[c]! ≠ c) &&
          (own ds[c]! == o)) (fun c => uparea[c]!) seq) := by
  obtain ⟨_, own, reg, hS, hU⟩ := CInv.fold (amin := amin) H hb hsz hsorted (Array.replicate ds.size 0)
    seq htopo ⟨[], by simp⟩
  exact ⟨own, reg, hS, hU.G, hU.regE⟩

end
end Pf.C18
