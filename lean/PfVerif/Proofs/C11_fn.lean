import PfVerif.Generated.Traces
import PfVerif.Model.C11_fn
/-! Bridge lemma of the `C11_fn` extension: the generated recursion `Tr._trace_loop` (state `idx0, idxs, dist, d`,
list built by `++ [x]`) against the hand-written `Pf.trace` (accumulator consed in reverse, step function). -/
namespace Pf.C11fn
open Pf Pf.Generated

theorem gen_loop_eq {Opaque : Type} (nxt : Array Nat) (ncol : Option Nat) (mask : Option (Array Bool))
    (maxLen : Option Int) (real latlon : Bool) (transform : Opaque) (one : Int)
    (distance : Nat → Nat → Nat → Bool → Opaque → Int) :
    ∀ (fuel idx0 : Nat) (acc : List Nat) (dist d : Int), ((real && ncol.isSome) = false → d = one) →
      (Tr._trace_loop nxt ncol mask maxLen real latlon transform nxt.size one distance fuel idx0 acc.reverse dist d).map
          (fun st => (st.2.1, st.2.2.1))
        = trace nxt mask maxLen (genStep ncol real latlon transform one distance) fuel idx0 acc dist := by
  intro fuel
  induction fuel with
  | zero => intro idx0 acc dist d _; simp [Tr._trace_loop, trace]
  | succ f ih =>
    intro idx0 acc dist d hd
    have ih1 := fun (i : Nat) (ds d' : Int) h => ih i (i :: acc) ds d' h
    simp only [List.reverse_cons] at ih1
    cases hrc : (real && ncol.isSome) with
    | true =>
      have hstep : genStep ncol real latlon transform one distance =
          fun i j => distance i j (ncol.getD 0) latlon transform := by simp [genStep, hrc]
      simp only [hstep, hrc] at ih1
      simp only [Tr._trace_loop, trace, hstep, hrc, Tr.optGetN, Tr.optGetL, Tr.optGetB]
      cases mask <;> cases maxLen <;> simp <;> grind
    | false =>
      have hstep : genStep ncol real latlon transform one distance = stepConst one := by simp [genStep, hrc]
      have hd1 : d = one := hd hrc
      subst hd1
      simp only [hstep, hrc] at ih1
      simp only [Tr._trace_loop, trace, hstep, hrc, Tr.optGetN, Tr.optGetL, Tr.optGetB, stepConst]
      cases mask <;> cases maxLen <;> simp <;> grind
end Pf.C11fn
