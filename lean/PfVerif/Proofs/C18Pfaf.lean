import PfVerif.Proofs.C18
/-! Helper lemmas for the Pfafstetter part of C18: array sizes through the worklist loop, soundness
of the digit and link certificates. Core Lean only. -/
namespace Pf

/-! ### sizes -/

theorem stemFill_size (usMain : Array Nat) (n : Nat) (h : Nat → Int → Bool) (v : Int) :
    ∀ (f idx : Nat) (br r : Array Int), stemFill usMain n h v f idx br = some r → r.size = br.size := by
  intro f
  induction f with
  | zero => intro idx br r hr; simp [stemFill] at hr
  | succ f ih =>
    intro idx br r hr
    simp only [stemFill] at hr
    split at hr
    · simp only [Option.some.injEq] at hr; subst hr; rfl
    · rw [ih _ _ _ hr]; simp

theorem pfInner_size (ds usMain : Array Nat) (so : Array Int) (depth : Nat) (pfaf0 : Int) (d0 : Nat) :
    ∀ (l : List Nat) (i : Nat) (st r : PfSt × Int × Bool),
      pfInner ds usMain so depth pfaf0 d0 l i st = some r → r.1.1.size = st.1.1.size := by
  intro l
  induction l with
  | nil => intro i st r hr; simp only [pfInner, Option.some.injEq] at hr; subst hr; rfl
  | cons idx rest ih =>
    intro i st r hr
    obtain ⟨⟨br, idxs, labs⟩, intDs, ok⟩ := st
    simp only [pfInner] at hr
    split at hr
    · cases hr
    · rename_i br1 h1
      have s1 := stemFill_size _ _ _ _ _ _ _ _ h1
      split at hr
      · rw [ih _ _ _ hr]; simpa using s1
      · split at hr
        · cases hr
        · rename_i br2 h2
          have s2 := stemFill_size _ _ _ _ _ _ _ _ h2
          rw [ih _ _ _ hr]
          simp only [Array.size_setIfInBounds] at s1 s2 ⊢
          omega

theorem pfPits_size (usMain : Array Nat) (n : Nat) (so : Array Int) (depth : Nat) :
    ∀ (l : List Nat) (i : Nat) (st r : PfSt), pfPits usMain n so depth l i st = some r →
      r.1.size = st.1.size := by
  intro l
  induction l with
  | nil => intro i st r hr; simp only [pfPits, Option.some.injEq] at hr; subst hr; rfl
  | cons idx rest ih =>
    intro i st r hr
    obtain ⟨br, idxs, labs⟩ := st
    simp only [pfPits] at hr
    split at hr
    · cases hr
    · rename_i br1 h1
      have s1 := stemFill_size _ _ _ _ _ _ _ _ h1
      rw [ih _ _ _ hr]
      simpa using s1

theorem pfLoop_size (ds usMain : Array Nat) (so uparea : Array Int) (trib : List Nat) (depth : Nat) :
    ∀ (f : Nat) (st r : PfSt × Bool × Bool),
      pfLoop ds usMain so uparea trib depth f st = some r → r.1.1.size = st.1.1.size := by
  intro f
  induction f with
  | zero =>
    intro st r h
    obtain ⟨⟨br, idxs, labs⟩, tie, ok⟩ := st
    cases labs with
    | nil => simp only [pfLoop, Option.some.injEq] at h; subst h; rfl
    | cons a labs => simp [pfLoop] at h
  | succ f ih =>
    intro st r h
    obtain ⟨⟨br, idxs, labs⟩, tie, ok⟩ := st
    cases labs with
    | nil => simp only [pfLoop, Option.some.injEq] at h; subst h; rfl
    | cons a labs =>
      obtain ⟨pfaf0, d0⟩ := a
      simp only [pfLoop] at h
      split at h
      · exact ih ((br, idxs, labs), tie, ok) r h
      · split at h
        · cases h
        · rename_i st' x ok' hin
          have := ih _ _ h
          rw [this]
          exact pfInner_size _ _ _ _ _ _ _ _ _ _ hin

theorem pfBranch_size (pits : List Nat) (ds : Array Nat) (seq : List Nat) (usMain : Array Nat)
    (uparea : Array Int) (mask : Option (Array Bool)) (depth : Nat)
    (br : Array Int) (idxs : List Nat) (tie ok : Bool)
    (h : pfBranch pits ds seq usMain uparea mask depth = some (br, idxs, tie, ok)) :
    br.size = ds.size := by
  unfold pfBranch at h
  simp only at h
  split at h
  · cases h
  · rename_i st0 hp
    split at h
    · cases h
    · rename_i br' idxs' labs' tie' ok' heq
      simp only [Option.some.injEq, Prod.mk.injEq] at h
      obtain ⟨h1, _, _⟩ := h
      subst h1
      have := pfLoop_size _ _ _ _ _ _ _ _ _ heq
      simp only at this
      rw [this, pfPits_size _ _ _ _ _ _ _ _ hp]; simp

/-! ### digits -/

theorem digitsOK_sound (depth : Nat) (labels : Array Int) (h : digitsOK depth labels = true) :
    ∀ i, i < labels.size → labels[i]! = 0 ∨
      (0 < labels[i]! ∧ labels[i]! < (10 : Int) ^ depth ∧
        ∀ k, k < depth → 1 ≤ dig k labels[i]! ∧ dig k labels[i]! ≤ 9) := by
  intro i hi
  unfold digitsOK at h
  rw [List.all_eq_true] at h
  have hget : labels[i]! = labels[i] := by simp [hi]
  have := h labels[i] (by simp)
  rw [hget]
  simp only [Bool.or_eq_true, beq_iff_eq, Bool.and_eq_true, decide_eq_true_eq, List.all_eq_true,
    List.mem_range] at this
  rcases this with h0 | ⟨⟨hpos, hlt⟩, hd⟩
  · exact Or.inl h0
  · refine Or.inr ⟨hpos, hlt, fun k hk => ⟨hd k hk, ?_⟩⟩
    unfold dig
    omega

/-! ### link rule -/

/-- the link rule at level `k` as a proposition -/
def PfLink (ds : Array Nat) (L : Array Int) (k : Nat) : Prop :=
  ∀ i, isValid ds i = true → L[i]! ≠ 0 → L[ds[i]!]! ≠ 0 → pre k L[i]! = pre k L[ds[i]!]! →
    dig k L[ds[i]!]! = dig k L[i]! ∨ (dig k L[ds[i]!]! % 2 = 1 ∧ dig k L[ds[i]!]! < dig k L[i]!)

theorem linkOK_sound (ds : Array Nat) (depth : Nat) (L : Array Int) (h : linkOK ds depth L = true)
    (k : Nat) (hk : k < depth) : PfLink ds L k := by
  intro i hv hi hj hpre
  unfold linkOK at h
  simp only [List.all_eq_true, List.mem_range, Bool.or_eq_true, Bool.not_eq_true'] at h
  have hi' : i < ds.size := by
    simp only [isValid, Bool.and_eq_true, decide_eq_true_eq] at hv; exact hv.1
  rcases h k hk i hi' with hc | hc
  · rw [hv] at hc; cases hc
  · unfold linkOKAt at hc
    simp only [Bool.or_eq_true, beq_iff_eq, bne_iff_ne, ne_eq, Bool.and_eq_true,
      decide_eq_true_eq] at hc
    rcases hc with (((hc | hc) | hc) | hc) | hc
    · exact absurd hc hi
    · exact absurd hc hj
    · exact absurd hpre hc
    · exact Or.inl hc
    · exact Or.inr hc

theorem pfLink_path (ds : Array Nat) (L : Array Int) (k : Nat) (hl : PfLink ds L k) :
    ∀ (m i : Nat),
      (∀ t, t ≤ m → isValid ds (iterA ds t i) = true ∧ L[iterA ds t i]! ≠ 0 ∧
        pre k L[iterA ds t i]! = pre k L[i]!) →
      dig k L[iterA ds m i]! ≤ dig k L[i]! ∧
      (dig k L[iterA ds m i]! ≠ dig k L[i]! → dig k L[iterA ds m i]! % 2 = 1) := by
  intro m
  induction m with
  | zero => intro i _; exact ⟨Int.le_refl _, fun h => absurd rfl h⟩
  | succ m ih =>
    intro i hp
    have h0 := hp 0 (Nat.zero_le _)
    have h1 := hp 1 (by omega)
    simp only [iterA] at h0 h1
    have hstep := hl i h0.1 h0.2.1 h1.2.1 h1.2.2.symm
    have hrec := ih ds[i]! (fun t ht => by
      have := hp (t + 1) (by omega)
      simp only [iterA] at this
      exact ⟨this.1, this.2.1, by rw [this.2.2, h1.2.2]⟩)
    show dig k L[iterA ds m ds[i]!]! ≤ dig k L[i]! ∧
      (dig k L[iterA ds m ds[i]!]! ≠ dig k L[i]! → dig k L[iterA ds m ds[i]!]! % 2 = 1)
    obtain ⟨hle, hodd⟩ := hrec
    rcases hstep with he | ⟨ho, hlt⟩
    · rw [← he]; exact ⟨hle, hodd⟩
    · refine ⟨by omega, fun hne => ?_⟩
      by_cases heq : dig k L[iterA ds m ds[i]!]! = dig k L[ds[i]!]!
      · rw [heq]; exact ho
      · exact hodd heq

end Pf
