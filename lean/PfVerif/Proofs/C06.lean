import PfVerif.Model.C06
import PfVerif.Core.RankCert
/-! Lemmas for C06: what the array-level certificate `FillCert` gives, and the instantiation of the
abstract certificate theorems `fill_lower` / `fill_attained` (Core/FillCert.lean) for the raster
neighbour relation. Core Lean only. -/
namespace Pf.C06
open Pf

variable {G : Grid} {conn : Nat} {elev : Array Int} {nod seed : Array Bool}
  {f : Array Int} {d8 rk : Array Nat}

/-- neighbour paths from `c` to an outlet: `p` starts at `c`, every step is an allowed move between
valid cells, the last cell is an outlet -/
abbrev Path (G : Grid) (conn : Nat) (nod seed : Array Bool) (c : Nat) (p : List Nat) : Prop :=
  PathTo (Nbr G conn nod) (IsSeed G seed) c p

/-- highest input elevation on a path -/
abbrev pathMax (elev : Array Int) (p : List Nat) : Int := pmax (fun i => elev[i]!) p

def Connected (G : Grid) (conn : Nat) (nod seed : Array Bool) (c : Nat) : Prop :=
  ∃ p, Path G conn nod seed c p

theorem Adj.symm {a b : Nat} (h : Adj G conn a b) : Adj G conn b a := by
  obtain ⟨h1, h2, h3, h4, h5, h6, h7, h8⟩ := h
  refine ⟨h2, h1, fun e => h3 e.symm, h5, h4, h7, h6, fun e => ?_⟩
  rcases h8 e with h | h
  · exact Or.inl h.symm
  · exact Or.inr h.symm

theorem Nbr.symm {a b : Nat} (h : Nbr G conn nod a b) : Nbr G conn nod b a :=
  ⟨h.1.symm, h.2.2, h.2.1⟩

/-! ### reading the certificate -/

theorem cert_nod (h : FillCert G conn elev nod seed f d8 rk) {c : Nat} (hc : c < G.n)
    (hn : nod[c]! = true) : f[c]! = elev[c]! ∧ d8[c]! = 247 ∧ seed[c]! = false := by
  have := h c hc
  unfold CellOk at this
  rwa [if_pos hn] at this

theorem cert_reached (h : FillCert G conn elev nod seed f d8 rk) {c : Nat}
    (hr : Reached G nod seed d8 c) :
    d8[c]! ≠ 247 ∧ (seed[c]! = true → f[c]! = elev[c]!) ∧
    (d8[c]! ≠ 0 → Nbr G conn nod c (dsOf G d8 c) ∧ f[c]! = max elev[c]! f[dsOf G d8 c]! ∧
      rk[dsOf G d8 c]! < rk[c]!) ∧
    (∀ b, b < G.n → Nbr G conn nod c b → Reached G nod seed d8 b ∧ f[c]! ≤ max elev[c]! f[b]!) := by
  have := h c hr.1.1
  unfold CellOk at this
  have hn : ¬ (nod[c]! = true) := by rw [hr.1.2]; simp
  rwa [if_neg hn, if_pos hr] at this

theorem cert_unreached (h : FillCert G conn elev nod seed f d8 rk) {c : Nat}
    (hv : Valid G nod c) (hr : ¬ Reached G nod seed d8 c) : f[c]! = elev[c]! := by
  have := h c hv.1
  unfold CellOk at this
  have hn : ¬ (nod[c]! = true) := by rw [hv.2]; simp
  rwa [if_neg hn, if_neg hr] at this

theorem seed_valid (h : FillCert G conn elev nod seed f d8 rk) {c : Nat} (hs : IsSeed G seed c) :
    Valid G nod c := by
  refine ⟨hs.1, ?_⟩
  cases hn : nod[c]! with
  | false => rfl
  | true => have := (cert_nod h hs.1 hn).2.2; rw [hs.2] at this; cases this

theorem seed_reached (h : FillCert G conn elev nod seed f d8 rk) {c : Nat} (hs : IsSeed G seed c) :
    Reached G nod seed d8 c := ⟨seed_valid h hs, Or.inl hs.2⟩

theorem reached_closed (h : FillCert G conn elev nod seed f d8 rk) {a b : Nat}
    (ha : Reached G nod seed d8 a) (hn : Nbr G conn nod a b) : Reached G nod seed d8 b :=
  ((cert_reached h ha).2.2.2 b hn.2.2.1 hn).1

theorem cert_L1 (h : FillCert G conn elev nod seed f d8 rk) {a b : Nat}
    (ha : Reached G nod seed d8 a) (hn : Nbr G conn nod a b) : f[a]! ≤ max elev[a]! f[b]! :=
  ((cert_reached h ha).2.2.2 b hn.2.2.1 hn).2

theorem cert_L2 (h : FillCert G conn elev nod seed f d8 rk) {c : Nat} (hs : IsSeed G seed c) :
    f[c]! = elev[c]! := (cert_reached h (seed_reached h hs)).2.1 hs.2

/-- a reached cell without direction is an outlet -/
theorem reached_pit_seed {c : Nat} (hr : Reached G nod seed d8 c) (h0 : d8[c]! = 0) :
    IsSeed G seed c := by
  refine ⟨hr.1.1, ?_⟩
  rcases hr.2 with h | h
  · exact h
  · exact absurd h0 h

theorem dsOf_pit {c : Nat} (h0 : d8[c]! = 0) : dsOf G d8 c = c := by
  simp [dsOf, drdc, h0]

/-- every cell with a neighbour path to an outlet is reached -/
theorem connected_reached (h : FillCert G conn elev nod seed f d8 rk) {c : Nat} {p : List Nat}
    (hp : Path G conn nod seed c p) : Reached G nod seed d8 c := by
  induction hp with
  | base s hs => exact seed_reached h hs
  | step c d p hn _ ih => exact reached_closed h ih hn.symm

/-- induction along the direction chain (well-founded by the rank witness) -/
theorem cert_induction (h : FillCert G conn elev nod seed f d8 rk) (P : Nat → Prop)
    (hpit : ∀ c, Reached G nod seed d8 c → d8[c]! = 0 → P c)
    (hstep : ∀ c, Reached G nod seed d8 c → d8[c]! ≠ 0 → Reached G nod seed d8 (dsOf G d8 c) →
      P (dsOf G d8 c) → P c) :
    ∀ c, Reached G nod seed d8 c → P c := by
  have key : ∀ k c, rk[c]! = k → Reached G nod seed d8 c → P c := by
    intro k
    induction k using Nat.strongRecOn with
    | _ k ih =>
      intro c hk hr
      by_cases h0 : d8[c]! = 0
      · exact hpit c hr h0
      · obtain ⟨hn, _, hlt⟩ := (cert_reached h hr).2.2.1 h0
        have hrd := reached_closed h hr hn
        exact hstep c hr h0 hrd (ih _ (hk ▸ hlt) _ rfl hrd)
  exact fun c hr => key _ c rfl hr

/-! ### instantiating the abstract certificate theorems -/

section inst
variable (G conn elev nod seed f d8)

/-- neighbour relation restricted to reached cells -/
def nbrR (a b : Nat) : Prop :=
  Nbr G conn nod a b ∧ Reached G nod seed d8 a ∧ Reached G nod seed d8 b

/-- outlets, plus (so that the abstract theorem's totality assumption holds) everything not reached -/
def seedR (s : Nat) : Prop := IsSeed G seed s ∨ ¬ Reached G nod seed d8 s

def fR (i : Nat) : Int := if Reached G nod seed d8 i then f[i]! else elev[i]!

def dsR (c : Nat) : Nat := if Reached G nod seed d8 c ∧ d8[c]! ≠ 0 then dsOf G d8 c else c
end inst

theorem path_to_R (h : FillCert G conn elev nod seed f d8 rk) {c : Nat} {p : List Nat}
    (hp : Path G conn nod seed c p) :
    PathTo (nbrR G conn nod seed d8) (seedR G nod seed d8) c p := by
  induction hp with
  | base s hs => exact PathTo.base s (Or.inl hs)
  | step c d p hn hp ih =>
    have hd := connected_reached h hp
    exact PathTo.step c d p ⟨hn, reached_closed h hd hn.symm, hd⟩ ih

theorem path_of_R {c : Nat} {p : List Nat}
    (hp : PathTo (nbrR G conn nod seed d8) (seedR G nod seed d8) c p)
    (hr : Reached G nod seed d8 c) : Path G conn nod seed c p := by
  induction hp with
  | base s hs =>
    rcases hs with hs | hs
    · exact PathTo.base s hs
    · exact absurd hr hs
  | step c d p hn _ ih => exact PathTo.step c d p hn.1 (ih hn.2.2)

theorem R_L1 (h : FillCert G conn elev nod seed f d8 rk) :
    ∀ a b, nbrR G conn nod seed d8 a b →
      fR G elev nod seed f d8 a ≤ max ((fun i => elev[i]!) a) (fR G elev nod seed f d8 b) := by
  intro a b ⟨hn, ha, hb⟩
  simp only [fR, if_pos ha, if_pos hb]
  exact cert_L1 h ha hn

theorem R_L2 (h : FillCert G conn elev nod seed f d8 rk) :
    ∀ s, seedR G nod seed d8 s → fR G elev nod seed f d8 s = (fun i => elev[i]!) s := by
  intro s hs
  rcases hs with hs | hs
  · simp only [fR, if_pos (seed_reached h hs)]
    exact cert_L2 h hs
  · simp only [fR, if_neg hs]

theorem R_L3 (h : FillCert G conn elev nod seed f d8 rk) :
    ∀ c, dsR G nod seed d8 c ≠ c →
      nbrR G conn nod seed d8 c (dsR G nod seed d8 c) ∧
      fR G elev nod seed f d8 c = max ((fun i => elev[i]!) c) (fR G elev nod seed f d8 (dsR G nod seed d8 c)) ∧
      (fun i => rk[i]!) (dsR G nod seed d8 c) < (fun i => rk[i]!) c := by
  intro c hne
  unfold dsR at hne ⊢
  by_cases hc : Reached G nod seed d8 c ∧ d8[c]! ≠ 0
  · rw [if_pos hc] at hne ⊢
    obtain ⟨hn, hf, hlt⟩ := (cert_reached h hc.1).2.2.1 hc.2
    have hd := reached_closed h hc.1 hn
    refine ⟨⟨hn, hc.1, hd⟩, ?_, hlt⟩
    simp only [fR, if_pos hc.1, if_pos hd]
    exact hf
  · rw [if_neg hc] at hne
    exact absurd rfl hne

theorem R_L4 (h : FillCert G conn elev nod seed f d8 rk) :
    ∀ c, dsR G nod seed d8 c = c → seedR G nod seed d8 c := by
  intro c he
  unfold dsR at he
  by_cases hr : Reached G nod seed d8 c
  · by_cases h0 : d8[c]! = 0
    · exact Or.inl (reached_pit_seed hr h0)
    · rw [if_pos ⟨hr, h0⟩] at he
      have hn := ((cert_reached h hr).2.2.1 h0).1
      exact absurd he.symm hn.1.2.2.1
  · exact Or.inr hr

/-- (a) no neighbour path to an outlet stays below the filled level -/
theorem cert_lower (h : FillCert G conn elev nod seed f d8 rk) {c : Nat} {p : List Nat}
    (hp : Path G conn nod seed c p) : f[c]! ≤ pathMax elev p := by
  have := fill_lower (nbrR G conn nod seed d8) (fun i => elev[i]!) (fR G elev nod seed f d8)
    (seedR G nod seed d8) (R_L1 h) (R_L2 h) c p (path_to_R h hp)
  simpa [fR, if_pos (connected_reached h hp)] using this

/-- (b) from every reached cell there is a neighbour path to an outlet whose highest input
elevation is exactly the filled level -/
theorem cert_attained (h : FillCert G conn elev nod seed f d8 rk) {c : Nat}
    (hr : Reached G nod seed d8 c) : ∃ p, Path G conn nod seed c p ∧ pathMax elev p = f[c]! := by
  obtain ⟨p, hp, hm⟩ := fill_attained (nbrR G conn nod seed d8) (fun i => elev[i]!)
    (fR G elev nod seed f d8) (seedR G nod seed d8) (dsR G nod seed d8) (fun i => rk[i]!)
    (R_L2 h) (R_L3 h) (R_L4 h) c
  refine ⟨p, path_of_R hp hr, ?_⟩
  simpa [fR, if_pos hr] using hm

end Pf.C06
