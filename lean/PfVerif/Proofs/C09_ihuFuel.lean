import PfVerif.Model.C09_ihu
import PfVerif.Proofs.C09Trace
/-! Fuel of the `while` loops of the iterative IHU stages (C09 extension): once the flow path from the start pixel
reaches a pit after `k` steps, every fuel `> k` gives the same result, and that result is `some _`. Core Lean only. -/
namespace Pf.C09ihu
open Pf

theorem pitAt_zero {ds : Array Nat} {p : Nat} (h : PitAt ds 0 p) : ds[p]! = p := by
  simpa [PitAt, iterA] using h

/-! ### `next_outlet` -/

theorem nextOutlet_stable (e : Env) (out : Array Nat) :
    ∀ k p, PitAt e.ds k p → ∀ f1 f2, k < f1 → k < f2 →
      nextOutlet e out f1 p = nextOutlet e out f2 p ∧ (nextOutlet e out f1 p).isSome = true := by
  intro k
  induction k with
  | zero =>
    intro p hp f1 f2 h1 h2
    obtain ⟨g1, rfl⟩ : ∃ g, f1 = g + 1 := ⟨f1 - 1, by omega⟩
    obtain ⟨g2, rfl⟩ : ∃ g, f2 = g + 1 := ⟨f2 - 1, by omega⟩
    have hp' := pitAt_zero hp
    simp [nextOutlet, hp']
  | succ k ih =>
    intro p hp f1 f2 h1 h2
    obtain ⟨g1, rfl⟩ : ∃ g, f1 = g + 1 := ⟨f1 - 1, by omega⟩
    obtain ⟨g2, rfl⟩ : ∃ g, f2 = g + 1 := ⟨f2 - 1, by omega⟩
    have := ih _ hp.pred g1 g2 (by omega) (by omega)
    simp only [nextOutlet]
    split
    · exact ⟨rfl, rfl⟩
    · exact this

/-! ### `ihu_relocate_outlets`: trace @1A -/

theorem relocTrace_stable (e : Env) (cds out : Array Nat) :
    ∀ k subidx, PitAt e.ds k subidx → ∀ f1 f2, k < f1 → k < f2 → ∀ idx0 idxds0 cells pixs,
      relocTrace e cds out f1 subidx idx0 idxds0 cells pixs = relocTrace e cds out f2 subidx idx0 idxds0 cells pixs ∧
      (relocTrace e cds out f1 subidx idx0 idxds0 cells pixs).isSome = true := by
  intro k
  induction k with
  | zero =>
    intro p hp f1 f2 h1 h2 idx0 idxds0 cells pixs
    obtain ⟨g1, rfl⟩ : ∃ g, f1 = g + 1 := ⟨f1 - 1, by omega⟩
    obtain ⟨g2, rfl⟩ : ∃ g, f2 = g + 1 := ⟨f2 - 1, by omega⟩
    have hp' := pitAt_zero hp
    simp [relocTrace, hp']
  | succ k ih =>
    intro p hp f1 f2 h1 h2 idx0 idxds0 cells pixs
    obtain ⟨g1, rfl⟩ : ∃ g, f1 = g + 1 := ⟨f1 - 1, by omega⟩
    obtain ⟨g2, rfl⟩ : ∃ g, f2 = g + 1 := ⟨f2 - 1, by omega⟩
    have ih' := ih _ hp.pred g1 g2 (by omega) (by omega)
    simp only [relocTrace]
    split
    · split
      · exact ⟨rfl, rfl⟩
      · exact ih' _ _ _ _
    · exact ih' _ _ _ _

/-! ### `ihu_relocate_outlets`: connect loop @3B -/

theorem connLoop_stable (e : Env) (pixs : List Nat) (idx0 : Nat) :
    ∀ k subidx, PitAt e.ds k subidx → ∀ f1 f2, k < f1 → k < f2 → ∀ idx ii c,
      connLoop e pixs idx0 f1 subidx idx ii c = connLoop e pixs idx0 f2 subidx idx ii c ∧
      (connLoop e pixs idx0 f1 subidx idx ii c).isSome = true := by
  intro k
  induction k with
  | zero =>
    intro p hp f1 f2 h1 h2 idx ii c
    obtain ⟨g1, rfl⟩ : ∃ g, f1 = g + 1 := ⟨f1 - 1, by omega⟩
    obtain ⟨g2, rfl⟩ : ∃ g, f2 = g + 1 := ⟨f2 - 1, by omega⟩
    have hp' := pitAt_zero hp
    simp only [connLoop]
    split
    · exact ⟨rfl, rfl⟩
    · simp [hp']
  | succ k ih =>
    intro p hp f1 f2 h1 h2 idx ii c
    obtain ⟨g1, rfl⟩ : ∃ g, f1 = g + 1 := ⟨f1 - 1, by omega⟩
    obtain ⟨g2, rfl⟩ : ∃ g, f2 = g + 1 := ⟨f2 - 1, by omega⟩
    have ih' := ih _ hp.pred g1 g2 (by omega) (by omega)
    simp only [connLoop]
    repeat' split
    all_goals first | exact ⟨rfl, rfl⟩ | exact ih' _ _ _

/-! ### `ihu_minimize_error`: downstream path of outlet cells -/

theorem errPath_stable (e : Env) (streams : Array Int) (idx0 : Nat) :
    ∀ k subidx, PitAt e.ds k subidx → ∀ f1 f2, k < f1 → k < f2 → ∀ idxs,
      errPath e streams idx0 f1 subidx idxs = errPath e streams idx0 f2 subidx idxs ∧
      (errPath e streams idx0 f1 subidx idxs).isSome = true := by
  intro k
  induction k with
  | zero =>
    intro p hp f1 f2 h1 h2 idxs
    obtain ⟨g1, rfl⟩ : ∃ g, f1 = g + 1 := ⟨f1 - 1, by omega⟩
    obtain ⟨g2, rfl⟩ : ∃ g, f2 = g + 1 := ⟨f2 - 1, by omega⟩
    have hp' := pitAt_zero hp
    simp [errPath, hp']
  | succ k ih =>
    intro p hp f1 f2 h1 h2 idxs
    obtain ⟨g1, rfl⟩ : ∃ g, f1 = g + 1 := ⟨f1 - 1, by omega⟩
    obtain ⟨g2, rfl⟩ : ∃ g, f2 = g + 1 := ⟨f2 - 1, by omega⟩
    have ih' := ih _ hp.pred g1 g2 (by omega) (by omega)
    simp only [errPath]
    repeat' split
    all_goals first | exact ⟨rfl, rfl⟩ | exact ih' _

/-! ### `ihu_relocate_outlets`: tributary loop @4D (with the nested `next_outlet`) -/

theorem tribLoop_stable (e : Env) (idx0 sds0 : Nat) :
    ∀ k subidx, PitAt e.ds k subidx → k < e.ds.size + 1 → ∀ f1 f2, k < f1 → k < f2 → ∀ idxds0 path s,
      tribLoop e idx0 sds0 f1 subidx idxds0 path s = tribLoop e idx0 sds0 f2 subidx idxds0 path s ∧
      (tribLoop e idx0 sds0 f1 subidx idxds0 path s).isSome = true := by
  intro k
  induction k with
  | zero =>
    intro p hp _ f1 f2 h1 h2 idxds0 path s
    obtain ⟨g1, rfl⟩ : ∃ g, f1 = g + 1 := ⟨f1 - 1, by omega⟩
    obtain ⟨g2, rfl⟩ : ∃ g, f2 = g + 1 := ⟨f2 - 1, by omega⟩
    have hp' := pitAt_zero hp
    simp only [tribLoop, hp', beq_self_eq_true, Bool.or_true, if_true]
    refine ⟨trivial, ?_⟩
    repeat' split
    all_goals rfl
  | succ k ih =>
    intro p hp hk f1 f2 h1 h2 idxds0 path s
    obtain ⟨g1, rfl⟩ : ∃ g, f1 = g + 1 := ⟨f1 - 1, by omega⟩
    obtain ⟨g2, rfl⟩ : ∃ g, f2 = g + 1 := ⟨f2 - 1, by omega⟩
    have ih' := ih _ hp.pred (by omega) g1 g2 (by omega) (by omega)
    have hno := (nextOutlet_stable e s.out (k+1) p hp (e.ds.size + 1) (e.ds.size + 1) hk hk).2
    simp only [tribLoop]
    split
    · refine ⟨rfl, ?_⟩
      split
      · rfl
      · split <;> rfl
    · split
      · split
        · rename_i hnone
          rw [hnone] at hno
          cases hno
        · split
          · exact ⟨rfl, rfl⟩
          · exact ih' _ _ _
      · exact ih' _ _ _

/-! ### the `while len(bottleneck) > nbottlenecks` of STEP 4: more fuel never changes a result -/

theorem step4_mono (e : Env) (idx00 : Nat) (cells pixs : List Nat) (tr : Tribs) :
    ∀ f1 s r, step4 e idx00 cells pixs tr f1 s = some r → ∀ f2, f1 ≤ f2 → step4 e idx00 cells pixs tr f2 s = some r := by
  intro f1
  induction f1 with
  | zero => intro s r h; simp [step4] at h
  | succ g ih =>
    intro s r h f2 hle
    obtain ⟨g2, rfl⟩ : ∃ g, f2 = g + 1 := ⟨f2 - 1, by omega⟩
    simp only [step4] at h ⊢
    split at h
    · cases h
    · rename_i s1 hfold
      split at h
      · rename_i hgt
        rw [if_pos hgt]
        exact ih _ _ h g2 (by omega)
      · rename_i hgt
        rw [if_neg hgt]
        exact h

end Pf.C09ihu
