import PfVerif.Model.C05_ext
/-! Helper lemmas for the C05 extension: `core.outflow_idxs`. Core Lean only. -/
namespace Pf.C05x
open Pf

theorem iterA_pit {ds : Array Nat} {i : Nat} (h : ds[i]! = i) : ∀ k, iterA ds k i = i
  | 0 => rfl
  | k+1 => by simp only [iterA, h]; exact iterA_pit h k

theorem iterA_add (ds : Array Nat) : ∀ (a b i : Nat), iterA ds (a + b) i = iterA ds b (iterA ds a i)
  | 0, b, i => by simp [iterA]
  | a+1, b, i => by
    have : a + 1 + b = (a + b) + 1 := by omega
    rw [this]; simp only [iterA]; exact iterA_add ds a b _

theorem NoExit_step (ds : Array Nat) (region : Array Bool) (j : Nat) :
    NoExit ds region j ↔ exitCell ds region j = false ∧ NoExit ds region ds[j]! := by
  constructor
  · intro h
    exact ⟨h 0, fun k => h (k+1)⟩
  · rintro ⟨h0, h1⟩ k
    cases k with
    | zero => exact h0
    | succ k => exact h1 k

theorem NoExit_pit (ds : Array Nat) (region : Array Bool) (j : Nat) (hp : ds[j]! = j) :
    NoExit ds region j ↔ exitCell ds region j = false := by
  constructor
  · intro h; exact h 0
  · intro h k; rw [iterA_pit hp]; exact h

/-- the executable walk decides `NoExit` wherever it ends -/
theorem walkClear_sound (ds : Array Nat) (region : Array Bool) :
    ∀ fuel j b, walkClear ds region fuel j = some b → (b = true ↔ NoExit ds region j) := by
  intro fuel
  induction fuel with
  | zero => intro j b h; simp [walkClear] at h
  | succ f ih =>
    intro j b h
    simp only [walkClear] at h
    by_cases h1 : exitCell ds region j = true
    · simp only [h1, if_true, Option.some.injEq] at h
      subst h
      constructor
      · intro h; cases h
      · intro hn; have := hn 0; simp [iterA, h1] at this
    · have h1' : exitCell ds region j = false := by simpa using h1
      simp only [h1', Bool.false_eq_true, if_false] at h
      by_cases h2 : ds[j]! = j
      · simp only [h2, if_true, Option.some.injEq] at h
        subst h
        simp [NoExit_pit ds region j h2, h1']
      · simp only [h2, if_false] at h
        rw [NoExit_step, ih _ _ h]
        simp [h1']

/-- body of the loop of `core.outflow_idxs` -/
def outStep (ds : Array Nat) (region : Array Bool) (st : Array Bool × List Nat) (idx0 : Nat) :
    Array Bool × List Nat :=
  let (mask, acc) := st
  let d := ds[idx0]!
  if mask[d]! && region[idx0]! && (d == idx0 || !region[d]!) then
    (mask.setIfInBounds idx0 false, idx0 :: acc)
  else (mask.setIfInBounds idx0 mask[d]!, acc)

theorem outflowIdxs_eq (ds : Array Nat) (seq : List Nat) (region : Array Bool) :
    outflowIdxs ds seq region =
      ((seq.foldl (outStep ds region) (Array.replicate ds.size true, [])).2).reverse := rfl

theorem outStep_eq (ds : Array Nat) (region : Array Bool) (m : Array Bool) (a : List Nat) (i : Nat) :
    outStep ds region (m, a) i =
      if (m[ds[i]!]! && exitCell ds region i) = true then (m.setIfInBounds i false, i :: a)
      else (m.setIfInBounds i m[ds[i]!]!, a) := by
  have hb : (m[ds[i]!]! && region[i]! && (ds[i]! == i || !region[ds[i]!]!)) =
      (m[ds[i]!]! && exitCell ds region i) := by
    simp only [exitCell, Bool.and_assoc]
  simp only [outStep, hb]

/-- invariant of the loop of `outflow_idxs` along a downstream-first order -/
theorem outflow_inv (ds : Array Nat) (region : Array Bool) (seq : List Nat) (htopo : Topo ds seq)
    (hb : ∀ i ∈ seq, i < ds.size) :
    (seq.foldl (outStep ds region) (Array.replicate ds.size true, [])).1.size = ds.size ∧
    (∀ j ∈ seq, ((seq.foldl (outStep ds region) (Array.replicate ds.size true, [])).1[j]! = true ↔
        NoExit ds region j)) ∧
    (∀ j, j ∉ seq → j < ds.size →
        (seq.foldl (outStep ds region) (Array.replicate ds.size true, [])).1[j]! = true) ∧
    (∀ x, x ∈ (seq.foldl (outStep ds region) (Array.replicate ds.size true, [])).2 ↔
        x ∈ seq ∧ exitCell ds region x = true ∧ (ds[x]! = x ∨ NoExit ds region ds[x]!)) ∧
    ((seq.foldl (outStep ds region) (Array.replicate ds.size true, [])).2.reverse).Sublist seq := by
  induction htopo with
  | nil =>
    refine ⟨by simp, by simp, ?_, by simp, by simp⟩
    intro j _ hj
    simp [hj]
  | @snoc pre i hpre hi hds ih =>
    have hb' : ∀ j ∈ pre, j < ds.size := fun j hj => hb j (by simp [hj])
    obtain ⟨ih1, ih2, ih3, ih4, ih5⟩ := ih hb'
    have hisz : i < ds.size := hb i (by simp)
    rw [List.foldl_append]
    obtain ⟨st, hst⟩ : ∃ s, s = pre.foldl (outStep ds region) (Array.replicate ds.size true, []) := ⟨_, rfl⟩
    rw [← hst] at ih1 ih2 ih3 ih4 ih5 ⊢
    obtain ⟨m, a⟩ := st
    simp only at ih1 ih2 ih3 ih4 ih5
    simp only [List.foldl_cons, List.foldl_nil]
    -- the mask value read at the downstream cell
    have hmd : (m[ds[i]!]! = true) ↔ (ds[i]! = i ∨ NoExit ds region ds[i]!) := by
      rcases hds with hp | hd
      · rw [hp]; simp [ih3 i hi hisz]
      · have hne : ds[i]! ≠ i := fun h => hi (h ▸ hd)
        rw [ih2 _ hd]; simp [hne]
    have hnoexit_i : NoExit ds region i ↔ (m[ds[i]!]! = true ∧ exitCell ds region i = false) := by
      rcases hds with hp | hd
      · rw [NoExit_pit ds region i hp, hp]; simp [ih3 i hi hisz]
      · rw [NoExit_step, ih2 _ hd]; exact And.comm
    have hia : i ∉ a := fun h => hi ((ih4 i).1 h).1
    rw [outStep_eq]
    by_cases hc : (m[ds[i]!]! && exitCell ds region i) = true
    · rw [if_pos hc]
      simp only [Bool.and_eq_true] at hc
      refine ⟨by simp [ih1], ?_, ?_, ?_, ?_⟩
      · intro j hj
        simp only [get!_setIfInBounds]
        by_cases hij : i = j
        · subst hij
          rw [if_pos ⟨rfl, by rw [ih1]; exact hisz⟩, hnoexit_i]
          simp [hc.2]
        · have : j ∈ pre := by
            simp only [List.mem_append, List.mem_singleton] at hj
            rcases hj with h | h
            · exact h
            · exact absurd h.symm hij
          simp [hij, ih2 j this]
      · intro j hj hjsz
        simp only [List.mem_append, List.mem_singleton, not_or] at hj
        simp only [get!_setIfInBounds]
        have : ¬ (i = j) := fun h => hj.2 h.symm
        simp [this, ih3 j hj.1 hjsz]
      · intro x
        rw [List.mem_cons, ih4 x, List.mem_append, List.mem_singleton]
        constructor
        · rintro (rfl | ⟨h1, h2, h3⟩)
          · exact ⟨Or.inr rfl, hc.2, hmd.1 hc.1⟩
          · exact ⟨Or.inl h1, h2, h3⟩
        · rintro ⟨h1 | rfl, h2, h3⟩
          · exact Or.inr ⟨h1, h2, h3⟩
          · exact Or.inl rfl
      · simp only [List.reverse_cons]
        exact List.Sublist.append ih5 (List.Sublist.refl _)
    · rw [if_neg hc]
      refine ⟨by simp [ih1], ?_, ?_, ?_, ?_⟩
      · intro j hj
        simp only [get!_setIfInBounds]
        by_cases hij : i = j
        · subst hij
          rw [if_pos ⟨rfl, by rw [ih1]; exact hisz⟩, hnoexit_i]
          simp only [Bool.and_eq_true, not_and, Bool.not_eq_true] at hc
          constructor
          · intro h; exact ⟨h, hc h⟩
          · intro h; exact h.1
        · have : j ∈ pre := by
            simp only [List.mem_append, List.mem_singleton] at hj
            rcases hj with h | h
            · exact h
            · exact absurd h.symm hij
          simp [hij, ih2 j this]
      · intro j hj hjsz
        simp only [List.mem_append, List.mem_singleton, not_or] at hj
        simp only [get!_setIfInBounds]
        have : ¬ (i = j) := fun h => hj.2 h.symm
        simp [this, ih3 j hj.1 hjsz]
      · intro x
        simp only [List.mem_append, List.mem_singleton, ih4 x]
        constructor
        · rintro ⟨h1, h2, h3⟩
          exact ⟨Or.inl h1, h2, h3⟩
        · rintro ⟨h1 | rfl, h2, h3⟩
          · exact ⟨h1, h2, h3⟩
          · exfalso
            apply hc
            simp only [Bool.and_eq_true]
            exact ⟨hmd.2 h3, h2⟩
      · exact List.Sublist.trans ih5 (List.sublist_append_left _ _)

end Pf.C05x
