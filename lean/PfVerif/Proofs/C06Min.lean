import PfVerif.Proofs.C06Fuel
/-! `outlets='min'` is stable under filling: the lowest candidate cell (first in row-major order
among ties) of a surface that was only raised, and not at that cell, is the same cell. Core Lean only. -/
namespace Pf.C06
open Pf

/-- the head of the seed heap: a candidate, minimal in `(elevation, index)` -/
theorem initHeap_head {G : Grid} {e : Array Int} {cand : Array Bool} {hd : HE} {tl : List HE}
    (heq : initHeap G e cand = hd :: tl) :
    hd.idx < G.n ∧ cand[hd.idx]! = true ∧ hd.z = e[hd.idx]! ∧
    ∀ c, c < G.n → cand[c]! = true → e[hd.idx]! < e[c]! ∨ (e[hd.idx]! = e[c]! ∧ hd.idx ≤ c) := by
  have hmem : hd ∈ initHeap G e cand := by rw [heq]; exact List.mem_cons_self
  obtain ⟨m, hm, hq, he⟩ := (mem_initHeap G e _ hd).1 hmem
  have hsort := hsorted_initHeap G e cand
  rw [heq] at hsort
  subst he
  refine ⟨hm, hq, rfl, fun c hc hqc => ?_⟩
  have hcm : (⟨e[c]!, 1, c⟩ : HE) ∈ (⟨e[m]!, 1, m⟩ : HE) :: tl := by
    rw [← heq]; exact (mem_initHeap G e _ _).2 ⟨c, hc, hqc, rfl⟩
  have := hsorted_head hsort _ hcm
  rw [not_lt_iff, HE.lt_iff] at this
  simp only [true_and, Nat.lt_irrefl, false_or] at this
  simp only
  omega

/-- **the `min` outlet is stable**: if `e2 ≥ e1` on the candidates and `e2 = e1` at the outlet chosen
for `e1`, the same outlet is chosen for `e2` -/
theorem seedsOf_min_stable {G : Grid} {conn : Nat} {e1 e2 : Array Int} {nod : Array Bool}
    {pits : Option (List Nat)} {s : Array Bool}
    (h : seedsOf G conn e1 nod pits true = some s)
    (hge : ∀ c, c < G.n → (seeds0 G conn nod pits)[c]! = true → e1[c]! ≤ e2[c]!)
    (heq : ∀ c, c < G.n → s[c]! = true → e2[c]! = e1[c]!) :
    seedsOf G conn e2 nod pits true = some s := by
  unfold seedsOf at h ⊢
  simp only [if_true] at h ⊢
  split at h
  · cases h
  · rename_i hd tl h1
    injection h with h
    obtain ⟨a1, a2, _, a4⟩ := initHeap_head h1
    have hsm : s[hd.idx]! = true := by
      rw [← h, get!_setIfInBounds]; simp [a1]
    have hm2 := heq hd.idx a1 hsm
    split
    · rename_i h2
      have : (⟨e2[hd.idx]!, 1, hd.idx⟩ : HE) ∈ initHeap G e2 (seeds0 G conn nod pits) :=
        (mem_initHeap G e2 _ _).2 ⟨hd.idx, a1, a2, rfl⟩
      rw [h2] at this
      cases this
    · rename_i hd2 tl2 h2
      obtain ⟨b1, b2, _, b4⟩ := initHeap_head h2
      have k1 := a4 hd2.idx b1 b2
      have k2 := b4 hd.idx a1 a2
      have k3 := hge hd2.idx b1 b2
      have : hd2.idx = hd.idx := by omega
      rw [this, h]

end Pf.C06
