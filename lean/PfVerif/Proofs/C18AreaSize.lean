import PfVerif.Proofs.C18AreaMain
/-! From the region bound of the loop to the size clause: the total cell area carrying the label of a
non-pit outlet equals its region area `reg o`. Core Lean only. -/
namespace Pf.C18
open Pf

section
variable {D M : Nat → Nat} {A a : Nat → Int} {amin : Int} {seq : List Nat} {rk : Nat → Nat}

/-- the cell areas owned by the outlet `o` add up to `A o` minus the accumulated areas of the
outlets directly upstream of its sub-basin -/
theorem region_sum {outs : List Nat} {own : Nat → Nat} (H : AHyp D M A a seq rk)
    (hS : SInv D M A amin seq rk seq outs own) {o : Nat} (ho : o ∈ outs) :
    csum (fun x => own x == o) a seq =
      A o - csum (fun c => outs.contains c && decide (D c ≠ c) && (own (D c) == o)) A seq := by
  have e1 : csum (fun x => own x == o) a seq =
      csum (fun x => own x == o) (fun x => A x - csum (fun c => decide (D c = x ∧ c ≠ x)) A seq) seq :=
    csum_congr (fun x hx => ⟨rfl, fun _ => by have := H.acc x hx; omega⟩)
  rw [e1, csum_sub, csum_kids D _ A seq seq H.nd]
  rw [csum_split (fun x => own x == o) (fun x => outs.contains x) A seq]
  rw [csum_split (fun c => decide (D c ≠ c) && seq.contains (D c) && (own (D c) == o))
    (fun c => outs.contains c) A seq]
  have f1 : csum (fun x => (own x == o) && outs.contains x) A seq = A o := by
    apply csum_single H.nd (hS.inSeq o (hS.sub o ho))
    intro y _
    by_cases hy : y ∈ outs
    · simp [hS.ownO y hy, hy]
    · have : y ≠ o := fun hc => hy (hc ▸ ho)
      simp [hy, this]
  have f2 : csum (fun c => (decide (D c ≠ c) && seq.contains (D c) && (own (D c) == o)) && outs.contains c) A seq =
      csum (fun c => outs.contains c && decide (D c ≠ c) && (own (D c) == o)) A seq := by
    apply csum_congr
    intro c hc
    refine ⟨?_, fun _ => rfl⟩
    have : seq.contains (D c) = true := by simpa using H.dsSeq c hc
    rw [this]
    by_cases h2 : D c = c
    · simp [h2]
    · simp [h2, Bool.and_comm]
  have f3 : csum (fun c => (decide (D c ≠ c) && seq.contains (D c) && (own (D c) == o)) && !outs.contains c) A seq =
      csum (fun x => (own x == o) && !outs.contains x) A seq := by
    apply csum_congr
    intro c hc
    refine ⟨?_, fun _ => rfl⟩
    have hds : seq.contains (D c) = true := by simpa using H.dsSeq c hc
    rw [hds]
    by_cases hco : c ∈ outs
    · simp [hco]
    · have h1 := hS.pitO c hc hco
      have h2 := hS.ownN c hc hco
      simp [hco, h1, h2]
  rw [f1, f2, f3]; omega

end

/-- `labelArea` as a conditional sum -/
theorem labelArea_csum (area labels : Array Int) (l : Int) :
    labelArea area labels l =
      csum (fun i => labels[i]! == l) (fun i => area[i]!) (List.range labels.size) := by
  unfold labelArea
  suffices h : ∀ (xs : List Nat) (s : Int),
      xs.foldl (fun s i => if (labels[i]! == l) = true then s + area[i]! else s) s =
        s + csum (fun i => labels[i]! == l) (fun i => area[i]!) xs by
    rw [h]; simp
  intro xs
  induction xs with
  | nil => intro s; simp [csum]
  | cons x xs ih =>
    intro s
    simp only [List.foldl_cons, csum, ih]
    by_cases hp : (labels[x]! == l) = true
    · simp only [hp, if_true]; omega
    · simp only [hp]; simp

/-- a sum over `0..n-1` whose predicate holds only on cells of the duplicate-free list `l` -/
theorem csum_range_eq (f : Nat → Int) (n : Nat) : ∀ (l : List Nat) (p : Nat → Bool), l.Nodup →
    (∀ x ∈ l, x < n) → (∀ i, i < n → p i = true → i ∈ l) →
    csum p f (List.range n) = csum p f l := by
  intro l
  induction l with
  | nil =>
    intro p _ _ hsup
    rw [csum_zero]; · rfl
    intro x hx
    have hx' := List.mem_range.1 hx
    cases hp : p x with
    | false => rfl
    | true => exact absurd (hsup x hx' hp) (by simp)
  | cons x l ih =>
    intro p hnd hlt hsup
    have hnd' := List.nodup_cons.1 hnd
    by_cases hp : p x = true
    · rw [csum_remove (q := fun y => p y && y != x) List.nodup_range
        (List.mem_range.2 (hlt x (by simp))) hp (fun _ _ => rfl)]
      rw [ih (fun y => p y && y != x) hnd'.2 (fun y hy => hlt y (by simp [hy]))]
      · simp only [csum, if_pos hp]
        congr 1
        apply csum_congr
        intro y hy
        have : y ≠ x := fun hc => hnd'.1 (hc ▸ hy)
        simp [this]
      · intro i hi hpi
        simp only [Bool.and_eq_true, bne_iff_ne, ne_eq] at hpi
        rcases List.mem_cons.1 (hsup i hi hpi.1) with h | h
        · exact absurd h hpi.2
        · exact h
    · rw [ih p hnd'.2 (fun y hy => hlt y (by simp [hy]))]
      · simp [csum, hp]
      · intro i hi hpi
        rcases List.mem_cons.1 (hsup i hi hpi) with h | h
        · exact absurd (h ▸ hpi) hp
        · exact h

theorem topo_before {ds : Array Nat} {seq : List Nat} (h : Topo ds seq) :
    ∀ (pre : List Nat) (c : Nat) (suf : List Nat), seq = pre ++ c :: suf → ds[c]! = c ∨ ds[c]! ∈ pre := by
  induction h with
  | nil => intro pre c suf h; simp at h
  | @snoc pre0 i _ hi hds ih =>
    intro pre c suf h
    rcases List.eq_nil_or_concat suf with hs | ⟨suf', b, hs⟩
    · subst hs
      have := congrArg List.reverse h
      simp at this
      obtain ⟨h1, h2⟩ := this
      subst h1 h2
      exact hds
    · subst hs
      have := congrArg List.reverse h
      simp at this
      obtain ⟨h1, h2⟩ := this
      exact ih pre c suf' (by rw [h2])

/-- accumulated areas of non-negative cell areas are non-negative -/
theorem acc_nonneg {D : Nat → Nat} {A a : Nat → Int} {seq : List Nat}
    (hbefore : ∀ pre c suf, seq = pre ++ c :: suf → D c = c ∨ D c ∈ pre) (hnd : seq.Nodup)
    (hacc : ∀ d ∈ seq, A d = a d + csum (fun c => decide (D c = d ∧ c ≠ d)) A seq)
    (ha0 : ∀ d ∈ seq, 0 ≤ a d) : ∀ d ∈ seq, 0 ≤ A d := by
  suffices h : ∀ (suf pre : List Nat), seq = pre ++ suf → ∀ d ∈ suf, 0 ≤ A d from h seq [] (by simp)
  intro suf
  induction suf with
  | nil => intro _ _ d hd; cases hd
  | cons x suf ih =>
    intro pre hseq
    have ih' := ih (pre ++ [x]) (by rw [hseq]; simp)
    have hx : 0 ≤ A x := by
      have hxs : x ∈ seq := by rw [hseq]; simp
      rw [hacc x hxs]
      have h0 := ha0 x hxs
      have : 0 ≤ csum (fun c => decide (D c = x ∧ c ≠ x)) A seq := by
        apply csum_nonneg
        intro c hc hp
        simp only [decide_eq_true_eq] at hp
        rw [hseq] at hc
        rcases List.mem_append.1 hc with hc | hc
        · -- c before x: impossible, its downstream cell x would come first
          exfalso
          obtain ⟨p1, p2, hp12⟩ := List.append_of_mem hc
          have hs2 : seq = p1 ++ c :: (p2 ++ x :: suf) := by rw [hseq, hp12]; simp
          rcases hbefore p1 c _ hs2 with h | h
          · exact hp.2 (by rw [← hp.1, h])
          · rw [hp.1] at h
            rw [hs2] at hnd
            have := (List.nodup_append.1 hnd).2.2 x h x (by simp)
            exact this rfl
        · rcases List.mem_cons.1 hc with hc | hc
          · exact absurd hc hp.2
          · exact ih' c hc
      omega
    intro d hd
    rcases List.mem_cons.1 hd with hd | hd
    · rw [hd]; exact hx
    · exact ih' d hd

/-- the static hypotheses of the invariant from the hypotheses of the size theorem -/
theorem areaHyp_of (ds usMain : Array Nat) (uparea area : Array Int) (seq : List Nat) (rk : Nat → Nat)
    (htopo : Topo ds seq) (hb : ∀ i ∈ seq, i < ds.size) (hus : usMainOK ds usMain = true)
    (hrk : ∀ i ∈ seq, ds[i]! ≠ i → rk i = rk ds[i]! + 1)
    (ha0 : ∀ i ∈ seq, 0 ≤ area[i]!)
    (hacc : ∀ d ∈ seq, uparea[d]! = area[d]! +
      csum (fun c => decide (ds[c]! = d ∧ c ≠ d)) (fun c => uparea[c]!) seq) :
    AHyp (fun x => ds[x]!) (fun d => usMain[d]!) (fun x => uparea[x]!) (fun x => area[x]!) seq rk where
  nd := htopo.nodup
  dsSeq := htopo.ds_mem
  rkS := hrk
  main := by
    intro d hd hm
    unfold usMainOK at hus
    simp only [Bool.and_eq_true, beq_iff_eq, List.all_eq_true, List.mem_range, Bool.or_eq_true,
      decide_eq_true_eq, bne_iff_ne, ne_eq] at hus
    have hmlt := hb _ hm
    rcases hus.2 d (hb d hd) with h | h
    · have hmlt' : usMain[d]! < ds.size := hmlt
      omega
    · exact ⟨h.2, h.1.2⟩
  acc := hacc
  a0 := ha0
  A0 := acc_nonneg (topo_before htopo) htopo.nodup hacc ha0

/-- **size clause from label facts**: if `lab` is 0 outside the network, upstream closed off the
outlets of the model, and gives distinct non-zero labels to the outlets, then every non-pit outlet's
label covers a total cell area `> area_min`. -/
theorem area_size_of_labels (ds usMain : Array Nat) (uparea area : Array Int) (amin : Int)
    (seq : List Nat) (rk : Nat → Nat)
    (htopo : Topo ds seq) (hb : ∀ i ∈ seq, i < ds.size) (hus : usMainOK ds usMain = true)
    (hsz : uparea.size = ds.size)
    (hrk : ∀ i ∈ seq, ds[i]! ≠ i → rk i = rk ds[i]! + 1)
    (hsorted : seq.Pairwise (fun x y => rk x ≤ rk y))
    (ha0 : ∀ i ∈ seq, 0 ≤ area[i]!)
    (hacc : ∀ d ∈ seq, uparea[d]! = area[d]! +
      csum (fun c => decide (ds[c]! = d ∧ c ≠ d)) (fun c => uparea[c]!) seq)
    (lab : Array Int) (hlsz : lab.size = ds.size)
    (hout0 : ∀ i, i ∉ seq → lab[i]! = 0)
    (hclosed : ∀ x ∈ seq, x ∉ (areaSeeds ds seq usMain uparea amin).2 → lab[x]! = lab[ds[x]!]!)
    (hinj : ∀ o ∈ (areaSeeds ds seq usMain uparea amin).2, ∀ o' ∈ (areaSeeds ds seq usMain uparea amin).2,
      lab[o]! = lab[o']! → o = o')
    (hnz : ∀ o ∈ (areaSeeds ds seq usMain uparea amin).2, lab[o]! ≠ 0) :
    ∀ o ∈ (areaSeeds ds seq usMain uparea amin).2, ds[o]! ≠ o → amin < labelArea area lab lab[o]! := by
  have H := areaHyp_of ds usMain uparea area seq rk htopo hb hus hrk ha0 hacc
  obtain ⟨own, reg, hS, hG, hregE⟩ := areaSeeds_region (amin := amin) H htopo hb hsz hsorted
  have hlabown : ∀ x ∈ seq, lab[x]! = lab[own x]! := by
    apply Topo.induction htopo
    intro i hi ih
    by_cases hio : i ∈ (areaSeeds ds seq usMain uparea amin).2
    · rw [hS.ownO i hio]
    · have hp := hS.pitO i hi hio
      rw [hclosed i hi hio, (ih hp).2, hS.ownN i hi hio]
  intro o ho hnp
  rw [labelArea_csum, csum_range_eq _ _ seq _ htopo.nodup (fun x hx => by rw [hlsz]; exact hb x hx)
    (fun i _ hp => by
      apply Classical.byContradiction
      intro hc
      simp only [beq_iff_eq] at hp
      exact hnz o ho (by rw [← hp, hout0 i hc]))]
  have e : csum (fun i => lab[i]! == lab[o]!) (fun i => area[i]!) seq =
      csum (fun x => own x == o) (fun x => area[x]!) seq := by
    apply csum_congr
    intro x hx
    refine ⟨?_, fun _ => rfl⟩
    show (lab[x]! == lab[o]!) = (own x == o)
    rw [hlabown x hx]
    by_cases hxo : own x = o
    · simp [hxo]
    · have : lab[own x]! ≠ lab[o]! := fun hc => hxo (hinj _ (hS.ownM x hx) _ ho hc)
      rw [beq_false_of_ne this, beq_false_of_ne hxo]
  rw [e, region_sum H hS ho, ← hregE o ho]
  exact hG o ho hnp

theorem adjSorted_pairwise (r : Array Nat) : ∀ (l : List Nat), adjSorted r l = true →
    l.Pairwise (fun x y => r[x]! ≤ r[y]!) := by
  intro l
  induction l with
  | nil => intro _; exact List.Pairwise.nil
  | cons a l ih =>
    intro h
    cases l with
    | nil => exact List.pairwise_singleton _ _
    | cons b rest =>
      simp only [adjSorted, Bool.and_eq_true, decide_eq_true_eq] at h
      have ih' := ih h.2
      refine List.Pairwise.cons ?_ ih'
      intro y hy
      rcases List.mem_cons.1 hy with hy | hy
      · rw [hy]; exact h.1
      · have := (List.pairwise_cons.1 ih').1 y hy
        omega

/-- the executable order check gives the two rank hypotheses of `area_size` -/
theorem rankOrderOK_sound (ds : Array Nat) (seq : List Nat) (h : rankOrderOK ds seq = true) :
    (∀ i ∈ seq, ds[i]! ≠ i → (seqRanks ds seq)[i]! = (seqRanks ds seq)[ds[i]!]! + 1) ∧
    seq.Pairwise (fun x y => (seqRanks ds seq)[x]! ≤ (seqRanks ds seq)[y]!) := by
  unfold rankOrderOK at h
  simp only [Bool.and_eq_true, List.all_eq_true, Bool.or_eq_true, beq_iff_eq] at h
  refine ⟨fun i hi hp => ?_, adjSorted_pairwise _ _ h.2⟩
  rcases h.1 i hi with h1 | h1
  · exact absurd h1 hp
  · exact h1

end Pf.C18
