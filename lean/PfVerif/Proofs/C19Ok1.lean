import PfVerif.Proofs.C19Cover
import PfVerif.Proofs.C19Nup
import PfVerif.Proofs.C08Topo
/-! Second stage for C19: the inner walk of `streams.streams` with the list of cells it flags
(`WalkM`), structural facts about that list, and fuel totality on downstream-first orders.
Core Lean only. -/
namespace Pf.C19
open Pf

/-- `WalkM ds nup c tail marked pit last`: the inner loop started at `c` appends `tail` after `c`
and flags exactly the cells `marked` (in walking order) -/
inductive WalkM (ds : Array Nat) (nup : Array Int) : Nat → List Nat → List Nat → Bool → Nat → Prop
  | pit (c : Nat) : ds[c]! = c → WalkM ds nup c [] [c] true c
  | conf (c : Nat) : ds[c]! ≠ c → nup[ds[c]!]! > 1 → WalkM ds nup c [ds[c]!] [c] false ds[c]!
  | step (c : Nat) (tail marked : List Nat) (pit : Bool) (last : Nat) : ds[c]! ≠ c → ¬ nup[ds[c]!]! > 1 →
      WalkM ds nup ds[c]! tail marked pit last → WalkM ds nup c (ds[c]! :: tail) (c :: marked) pit last

theorem streamWalk_specM (ds : Array Nat) (nup : Array Int) :
    ∀ (fuel c : Nat) (acc : List Nat) (done : Array Bool) (w : WalkRes),
      streamWalk ds nup fuel c acc done = some w →
      ∃ tail marked, WalkM ds nup c tail marked w.pit w.last ∧ w.idxs = acc.reverse ++ tail ∧
        w.done.size = done.size ∧
        ∀ a : Nat, w.done[a]! = true ↔ (done[a]! = true ∨ (a ∈ marked ∧ a < done.size)) := by
  intro fuel
  induction fuel with
  | zero => intro c acc done w h; simp [streamWalk] at h
  | succ fuel ih =>
    intro c acc done w h
    simp only [streamWalk] at h
    have hset : ∀ a : Nat, (done.setIfInBounds c true)[a]! = true ↔ (done[a]! = true ∨ (a = c ∧ a < done.size)) := by
      intro a
      rw [get!_setIfInBounds]
      by_cases hc : c = a ∧ c < done.size
      · rw [if_pos hc]; simp [hc.1.symm, hc.2]
      · rw [if_neg hc]
        constructor
        · exact Or.inl
        · rintro (h1 | ⟨h1, h2⟩)
          · exact h1
          · exact absurd ⟨h1.symm, h1 ▸ h2⟩ hc
    by_cases hp : ds[c]! = c
    · simp only [hp, beq_self_eq_true, if_true, Bool.or_true, Option.some.injEq] at h
      subst h
      refine ⟨[], [c], WalkM.pit c hp, by simp, by simp, ?_⟩
      intro a; rw [hset a]; simp
    · have hb : (ds[c]! == c) = false := by simpa using hp
      simp only [hb, Bool.or_false, Bool.false_eq_true, if_false, decide_eq_true_eq] at h
      by_cases hc : nup[ds[c]!]! > 1
      · simp only [hc, if_true, Option.some.injEq] at h
        subst h
        refine ⟨[ds[c]!], [c], WalkM.conf c hp hc, by simp, by simp, ?_⟩
        intro a; rw [hset a]; simp
      · simp only [hc, if_false] at h
        obtain ⟨tail, marked, hw, hi, hsz, hd⟩ := ih _ _ _ w h
        refine ⟨ds[c]! :: tail, c :: marked, WalkM.step c tail marked _ _ hp hc hw, by simp [hi],
          by simpa using hsz, ?_⟩
        intro a
        rw [hd a, hset a]
        simp only [Array.size_setIfInBounds, List.mem_cons]
        constructor
        · rintro ((h1 | h1) | h1)
          · exact Or.inl h1
          · exact Or.inr ⟨Or.inl h1.1, h1.2⟩
          · exact Or.inr ⟨Or.inr h1.1, h1.2⟩
        · rintro (h1 | ⟨h1 | h1, h2⟩)
          · exact Or.inl (Or.inl h1)
          · exact Or.inl (Or.inr ⟨h1, h2⟩)
          · exact Or.inr ⟨h1, h2⟩

variable {ds : Array Nat} {nup : Array Int}

theorem WalkM.toWalkFrom {c : Nat} {tail marked : List Nat} {pit : Bool} {last : Nat}
    (h : WalkM ds nup c tail marked pit last) : WalkFrom ds nup c tail pit last := by
  induction h with
  | pit c hp => exact WalkFrom.pit c hp
  | conf c h1 h2 => exact WalkFrom.conf c h1 h2
  | step c tail marked pit last h1 h2 _ ih => exact WalkFrom.step c tail pit last h1 h2 ih

/-- the flagged cells are the upstream ends of the emitted pairs, followed by the pit -/
theorem WalkM.sources {c : Nat} {tail marked : List Nat} {pit : Bool} {last : Nat}
    (h : WalkM ds nup c tail marked pit last) :
    (pairsOf (c :: tail)).map (·.1) ++ (if pit = true then [last] else []) = marked := by
  induction h with
  | pit c _ => simp
  | conf c _ _ => simp [pairsOf]
  | step c tail marked pit last _ _ _ ih =>
    rw [pairsOf_cons_cons]
    simp only [List.map_cons, List.cons_append]
    rw [ih]

theorem WalkM.head_mem {c : Nat} {tail marked : List Nat} {pit : Bool} {last : Nat}
    (h : WalkM ds nup c tail marked pit last) : c ∈ marked := by
  cases h <;> simp

/-- a predicate that holds at the start and propagates along non-confluence links holds on all
flagged cells -/
theorem WalkM.propagate (P : Nat → Prop) {c : Nat} {tail marked : List Nat} {pit : Bool} {last : Nat}
    (h : WalkM ds nup c tail marked pit last) (hc : P c)
    (hstep : ∀ u, P u → ds[u]! ≠ u → ¬ nup[ds[u]!]! > 1 → P ds[u]!) : ∀ a ∈ marked, P a := by
  induction h with
  | pit c _ => intro a ha; simp at ha; subst ha; exact hc
  | conf c _ _ => intro a ha; simp at ha; subst ha; exact hc
  | step c tail marked pit last h1 h2 _ ih =>
    intro a ha
    rcases List.mem_cons.mp ha with rfl | ha
    · exact hc
    · exact ih (hstep _ hc h1 h2) a ha

/-- a flagged cell is a pit, drains into a confluence, or its downstream cell is flagged too -/
theorem WalkM.continues {c : Nat} {tail marked : List Nat} {pit : Bool} {last : Nat}
    (h : WalkM ds nup c tail marked pit last) :
    ∀ a ∈ marked, ds[a]! = a ∨ nup[ds[a]!]! > 1 ∨ ds[a]! ∈ marked := by
  induction h with
  | pit c hp => intro a ha; simp at ha; subst ha; exact Or.inl hp
  | conf c _ hc => intro a ha; simp at ha; subst ha; exact Or.inr (Or.inl hc)
  | step c tail marked pit last _ _ hw ih =>
    intro a ha
    rcases List.mem_cons.mp ha with rfl | ha
    · exact Or.inr (Or.inr (List.mem_cons_of_mem _ hw.head_mem))
    · rcases ih a ha with h | h | h
      · exact Or.inl h
      · exact Or.inr (Or.inl h)
      · exact Or.inr (Or.inr (List.mem_cons_of_mem _ h))

/-- every flagged cell other than the start was entered from a flagged cell -/
theorem WalkM.entered {c : Nat} {tail marked : List Nat} {pit : Bool} {last : Nat}
    (h : WalkM ds nup c tail marked pit last) :
    ∀ a ∈ marked, a = c ∨ ∃ u ∈ marked, ds[u]! = a ∧ u ≠ a := by
  induction h with
  | pit c _ => intro a ha; simp at ha; exact Or.inl ha
  | conf c _ _ => intro a ha; simp at ha; exact Or.inl ha
  | step c tail marked pit last h1 _ _ ih =>
    intro a ha
    rcases List.mem_cons.mp ha with rfl | ha
    · exact Or.inl rfl
    · rcases ih a ha with rfl | ⟨u, hu, h2, h3⟩
      · exact Or.inr ⟨c, by simp, rfl, fun h => h1 h.symm⟩
      · exact Or.inr ⟨u, List.mem_cons_of_mem _ hu, h2, h3⟩

/-- with a height that strictly increases downstream the flagged cells are pairwise different -/
theorem WalkM.nodup (ht : Nat → Nat) (S : Nat → Prop) (hS : ∀ x, S x → ds[x]! ≠ x → S ds[x]! ∧ ht x < ht ds[x]!)
    {c : Nat} {tail marked : List Nat} {pit : Bool} {last : Nat}
    (h : WalkM ds nup c tail marked pit last) (hc : S c) :
    marked.Nodup ∧ ∀ a ∈ marked, a = c ∨ ht c < ht a := by
  induction h with
  | pit c _ => simp
  | conf c _ _ => simp
  | step c tail marked pit last h1 _ _ ih =>
    obtain ⟨hSd, hlt⟩ := hS c hc h1
    obtain ⟨hnd, hall⟩ := ih hSd
    have hgt : ∀ a ∈ marked, ht c < ht a := by
      intro a ha
      rcases hall a ha with rfl | h
      · exact hlt
      · omega
    refine ⟨List.nodup_cons.mpr ⟨fun hm => ?_, hnd⟩, ?_⟩
    · have := hgt c hm; omega
    · intro a ha
      rcases List.mem_cons.mp ha with rfl | ha
      · exact Or.inl rfl
      · exact Or.inr (hgt a ha)

/-! ### fuel -/

/-- **fuel totality**: if a height bounded by `B` strictly increases along the links of a
downstream-closed set `S`, the walk from a cell of `S` ends within `B - ht c` steps -/
theorem streamWalk_total (ds : Array Nat) (nup : Array Int) (ht : Nat → Nat) (B : Nat) (S : Nat → Prop)
    (hS : ∀ x, S x → ht x < B ∧ (ds[x]! ≠ x → S ds[x]! ∧ ht x < ht ds[x]!)) :
    ∀ (fuel c : Nat) (acc : List Nat) (done : Array Bool), S c → B - ht c ≤ fuel →
      ∃ w, streamWalk ds nup fuel c acc done = some w := by
  intro fuel
  induction fuel with
  | zero =>
    intro c acc done hc hf
    have := (hS c hc).1
    omega
  | succ fuel ih =>
    intro c acc done hc hf
    simp only [streamWalk]
    by_cases hp : ds[c]! = c
    · simp [hp]
    · have hb : (ds[c]! == c) = false := by simpa using hp
      simp only [hb, Bool.or_false, Bool.false_eq_true, if_false, decide_eq_true_eq]
      by_cases hcf : nup[ds[c]!]! > 1
      · simp [hcf]
      · simp only [hcf, if_false]
        obtain ⟨hSd, hlt⟩ := (hS c hc).2 hp
        exact ih _ _ _ hSd (by omega)

/-- a duplicate-free list of numbers below `n` has at most `n` elements -/
theorem length_le_of_nodup_lt {l : List Nat} {n : Nat} (hnd : l.Nodup) (hb : ∀ i ∈ l, i < n) :
    l.length ≤ n := by
  have := List.Nodup.length_le_of_subset hnd (l₂ := List.range n) (fun i hi => List.mem_range.mpr (hb i hi))
  simpa using this

/-- **fuel totality on a downstream-first order**: the walk from any cell of a `Topo` order whose
cells are in range returns within `ds.size + 1` steps (the fuel the model uses) -/
theorem streamWalk_total_topo (ds : Array Nat) (nup : Array Int) (seq : List Nat) (htopo : Topo ds seq)
    (hb : ∀ i ∈ seq, i < ds.size) (c : Nat) (hc : c ∈ seq) (acc : List Nat) (done : Array Bool) :
    ∃ w, streamWalk ds nup (ds.size + 1) c acc done = some w := by
  obtain ⟨ht, h1, h2⟩ := htopo.exists_height
  have hlen := length_le_of_nodup_lt htopo.nodup hb
  refine streamWalk_total ds nup ht seq.length (· ∈ seq) ?_ _ c acc done hc (by omega)
  intro x hx
  exact ⟨h1 x hx, fun hne => ⟨htopo.ds_mem x hx, h2 x hx hne⟩⟩

end Pf.C19
