import PfVerif.Proofs.C18PfSimLoop
/-! Pfafstetter refinement across depths (stage 4): the worklist loop of the run for `depth + 1` simulates the one
for `depth` until the latter ends (`pfLoop_sim`); what it does afterwards (level `depth + 1` only) changes
the last digit only (`pfLoop_ref`); result for the seeds of the two runs (`pfBranch_refine`). Core Lean only. -/
namespace Pf.C18
open Pf

variable {ds usMain : Array Nat} {seq : List Nat} {uparea : Array Int}

/-- relation between the states of the two worklist loops -/
structure SimL (D : Nat) (stA stB : PfSt × Bool × Bool) : Prop where
  br : SimBr stA.1.1 stB.1.1
  idxs : stB.1.2.1 = stA.1.2.1
  labs : ∃ extra, stB.1.2.2 = stA.1.2.2.map (fun e => (phi e.1, e.2)) ++ extra ∧
    (∀ e ∈ extra, e.2 = D + 1) ∧ (extra = [] ∨ ∀ e ∈ stA.1.2.2, D ≤ e.2)

theorem pfLoop_sim (c : PfCtx ds usMain seq uparea) (mask : Option (Array Bool)) (D : Nat) :
    ∀ (fA : Nat) (stA rA : PfSt × Bool × Bool),
      pfLoop ds usMain (pfStrord ds seq usMain mask D) uparea
        (tributaries ds seq (pfStrord ds seq usMain mask D)) D fA stA = some rA →
      PfAll ds usMain (pfStrord ds seq usMain mask D) D stA.1.1 stA.1.2.1 stA.1.2.2 →
      PfOrd (streamOrderClassic ds seq usMain mask) stA.1.1 stA.1.2.2 →
      ∀ (fB : Nat) (stB rB : PfSt × Bool × Bool),
      pfLoop ds usMain (pfStrord ds seq usMain mask (D + 1)) uparea
        (tributaries ds seq (pfStrord ds seq usMain mask (D + 1))) (D + 1) fB stB = some rB →
      PfAll ds usMain (pfStrord ds seq usMain mask (D + 1)) (D + 1) stB.1.1 stB.1.2.1 stB.1.2.2 →
      SimL D stA stB →
      ∃ (fB' : Nat) (stB' : PfSt × Bool × Bool),
        pfLoop ds usMain (pfStrord ds seq usMain mask (D + 1)) uparea
          (tributaries ds seq (pfStrord ds seq usMain mask (D + 1))) (D + 1) fB' stB' = some rB ∧
        PfAll ds usMain (pfStrord ds seq usMain mask (D + 1)) (D + 1) stB'.1.1 stB'.1.2.1 stB'.1.2.2 ∧
        SimBr rA.1.1 stB'.1.1 ∧ stB'.1.2.1 = rA.1.2.1 ∧ (∀ e ∈ stB'.1.2.2, e.2 = D + 1) := by
  have htribA := tributaries_nonmain ds seq usMain mask D c.topo c.hb
  have htribB := tributaries_nonmain ds seq usMain mask (D + 1) c.topo c.hb
  have hndA : (tributaries ds seq (pfStrord ds seq usMain mask D)).Nodup := by
    unfold tributaries; exact c.topo.nodup.sublist List.filter_sublist
  have hndB : (tributaries ds seq (pfStrord ds seq usMain mask (D + 1))).Nodup := by
    unfold tributaries; exact c.topo.nodup.sublist List.filter_sublist
  have hmainS := soraw_main c mask
  have hnn := soraw_nonneg ds seq usMain mask c.topo c.hb
  have hstep : ∀ t ∈ seq, ds[t]! ≠ t → (streamOrderClassic ds seq usMain mask)[t]! ≤
      (streamOrderClassic ds seq usMain mask)[ds[t]!]! + 1 := by
    intro t ht hp
    have := hnn ds[t]!
    rcases soraw_step ds seq usMain mask c.topo c.hb t ht hp with h | h | h <;> omega
  intro fA
  induction fA with
  | zero =>
    intro stA rA hA _ _ fB stB rB hB allB hsim
    obtain ⟨⟨brA, idxsA, labsA⟩, tieA, okA⟩ := stA
    cases labsA with
    | cons a labsA => simp [pfLoop] at hA
    | nil =>
      simp only [pfLoop, Option.some.injEq] at hA; subst hA
      obtain ⟨sbr, sidx, extra, hlabs, hext, _⟩ := hsim
      refine ⟨fB, stB, hB, allB, sbr, sidx, ?_⟩
      simp only [List.map_nil, List.nil_append] at hlabs
      rw [hlabs]; exact hext
  | succ fA ih =>
    intro stA rA hA allA ordA fB stB rB hB allB hsim
    obtain ⟨⟨brA, idxsA, labsA⟩, tieA, okA⟩ := stA
    cases labsA with
    | nil =>
      simp only [pfLoop, Option.some.injEq] at hA; subst hA
      obtain ⟨sbr, sidx, extra, hlabs, hext, _⟩ := hsim
      refine ⟨fB, stB, hB, allB, sbr, sidx, ?_⟩
      simp only [List.map_nil, List.nil_append] at hlabs
      rw [hlabs]; exact hext
    | cons a labsA =>
      obtain ⟨pfaf0, d0⟩ := a
      obtain ⟨⟨brB, idxsB, labsB⟩, tieB, okB⟩ := stB
      obtain ⟨sbr, sidx, extra, hlabs, hext, hcase⟩ := hsim
      simp only at sbr sidx hlabs hcase allA allB ordA
      subst sidx
      simp only [List.map_cons, List.cons_append] at hlabs
      subst hlabs
      obtain ⟨hlev1, hlev2, _⟩ := allA.q.lev (pfaf0, d0) (by simp)
      simp only at hlev1 hlev2
      have hordhead : ∀ s : Nat, brA[s]! = pfaf0 →
          (streamOrderClassic ds seq usMain mask)[s]! ≤ (D : Int) := by
        intro s hs
        have := ordA (pfaf0, d0) (by simp) s hs
        simp only at this
        omega
      have hfeq := trib_filter_eq c mask D sbr hordhead
      cases fB with
      | zero => simp [pfLoop] at hB
      | succ fB =>
        simp only [pfLoop] at hA hB
        rw [hfeq] at hB
        split at hA
        · rename_i hempty
          rw [if_pos hempty] at hB
          refine ih _ rA hA allA.tail (fun en hen => ordA en (List.mem_cons_of_mem _ hen)) fB _ rB hB
            allB.tail ⟨sbr, rfl, extra, rfl, hext, ?_⟩
          rcases hcase with h | h
          · exact Or.inl h
          · exact Or.inr (fun e he => h e (List.mem_cons_of_mem _ he))
        · rename_i hne
          rw [if_neg hne] at hB
          split at hA
          · cases hA
          · rename_i stA' x okA' hinA
            have hinA' : pfInner ds usMain (pfStrord ds seq usMain mask D) D pfaf0 d0
                (pfSel ds uparea brA (tributaries ds seq (pfStrord ds seq usMain mask D)) pfaf0) 0
                ((brA, idxsB, labsA), pfaf0, okA) = some (stA', x, okA') := hinA
            obtain ⟨hmemS, _, _, _⟩ := pfSel_props ds uparea brA
              (tributaries ds seq (pfStrord ds seq usMain mask D)) pfaf0 hndA
            obtain ⟨rB', hinB, simIn⟩ := pfInner_sim (ds := ds) (usMain := usMain)
              (pfStrord ds seq usMain mask D) (pfStrord ds seq usMain mask (D + 1))
              (streamOrderClassic ds seq usMain mask) D pfaf0 d0
              (fun u hu h => so_agree ds seq usMain mask D u hu h) hmainS
              (allA.lp (pfaf0, d0) (by simp)) hlev2 _ 0 ((brA, idxsB, labsA), pfaf0, okA)
              ((brB, idxsB, labsA.map (fun e => (phi e.1, e.2)) ++ extra), phi pfaf0, okB) (stA', x, okA')
              (fun t ht => trib_order ds seq usMain mask D c.hb t (hmemS t ht).1) hinA'
              ⟨sbr, rfl, ⟨extra, rfl, hext, fun hlt => by
                rcases hcase with h | h
                · exact h
                · have := h (pfaf0, d0) (by simp)
                  simp only at this
                  omega⟩, rfl⟩
            have hsel : pfSel ds uparea brB (tributaries ds seq (pfStrord ds seq usMain mask (D + 1)))
                (phi pfaf0) =
                pfSel ds uparea brA (tributaries ds seq (pfStrord ds seq usMain mask D)) pfaf0 := by
              unfold pfSel; rw [hfeq]
            have hinB' : pfInner ds usMain (pfStrord ds seq usMain mask (D + 1)) (D + 1) (phi pfaf0) d0
                (pfSel ds uparea brB (tributaries ds seq (pfStrord ds seq usMain mask (D + 1))) (phi pfaf0)) 0
                ((brB, idxsB, labsA.map (fun e => (phi e.1, e.2)) ++ extra), phi pfaf0, okB) = some rB' := by
              rw [hsel]; exact hinB
            have hinB2 : pfInner ds usMain (pfStrord ds seq usMain mask (D + 1)) (D + 1) (phi pfaf0) d0
                (sortDesc (fun i => uparea[ds[i]!]!)
                  (List.take 4 (sortDesc (fun i => uparea[i]!)
                    (List.filter (fun idx => brA[idx]! == 0 && brA[ds[idx]!]! == pfaf0)
                      (tributaries ds seq (pfStrord ds seq usMain mask D)))))) 0
                ((brB, idxsB, labsA.map (fun e => (phi e.1, e.2)) ++ extra), phi pfaf0, okB) = some rB' := hinB
            rw [hinB2] at hB
            simp only at hB
            obtain ⟨allA', _, ordA', _, hlevA, _⟩ := pfPop_link c _ D htribA hndA True
              (streamOrderClassic ds seq usMain mask)
              (fun _ => ⟨fun s hs => pfStrord_ne_zero ds seq usMain mask D s hs, hmainS⟩)
              (fun _ => hstep) allA (fun _ => ordA) hinA'
            obtain ⟨allB', _, _, _, _, _⟩ := pfPop_link c _ (D + 1) htribB hndB False
              (streamOrderClassic ds seq usMain mask) (fun w => w.elim) (fun w => w.elim) allB
              (fun w => w.elim) hinB'
            obtain ⟨s1, s2, ⟨extra', s3, s4, s5⟩, _⟩ := simIn
            simp only at s1 s2 s3 s5 allA' ordA' hlevA
            refine ih _ rA hA allA' (ordA' trivial) fB _ rB hB allB' ⟨s1, s2, extra', s3, s4, ?_⟩
            by_cases hlt : d0 < D
            · exact Or.inl (s5 hlt)
            · right
              intro e he
              have := hlevA e he
              omega

/-! ### after the simulated part: only the last digit changes -/

structure PfRef (ds : Array Nat) (br0 br : Array Int) : Prop where
  r1 : ∀ s : Nat, br0[s]! ≠ 0 → br[s]! ≠ 0 ∧ br[s]! / 10 = br0[s]! / 10
  r2 : ∀ s : Nat, br0[s]! = 0 → br[s]! ≠ 0 → ds[s]! ≠ s ∧ br[s]! / 10 = br[ds[s]!]! / 10

theorem PfRef.refl (ds : Array Nat) (br : Array Int) : PfRef ds br br :=
  ⟨fun _ h => ⟨h, rfl⟩, fun _ h0 h1 => absurd h0 h1⟩

theorem PfRef.step {br0 br br' : Array Int} {pfaf0 : Int} (h : PfRef ds br0 br)
    (ev : PfEvo ds br br' pfaf0 (pfaf0 + 9)) (hm : pfaf0 % 10 = 1)
    (hdn : ∀ s : Nat, br[s]! ≠ 0 → br[ds[s]!]! ≠ 0) : PfRef ds br0 br' := by
  have hq : ∀ x : Int, pfaf0 ≤ x → x < pfaf0 + 9 → x / 10 = pfaf0 / 10 ∧ x ≠ 0 := by
    intro x h1 h2; omega
  have hkeep : ∀ s : Nat, br[s]! ≠ 0 → br'[s]! ≠ 0 ∧ br'[s]! / 10 = br[s]! / 10 := by
    intro s hs
    rcases ev.e1 s hs with h1 | h1
    · rw [h1]; exact ⟨hs, rfl⟩
    · have a := hq _ h1.1 h1.2.1
      have b := hq _ h1.2.2.1 h1.2.2.2
      exact ⟨b.2, by omega⟩
  refine ⟨fun s hs => ?_, fun s h0 h1 => ?_⟩
  · obtain ⟨a, b⟩ := h.r1 s hs
    obtain ⟨a', b'⟩ := hkeep s a
    exact ⟨a', by omega⟩
  · by_cases hb : br[s]! = 0
    · obtain ⟨a1, a2, a3, a4, a5⟩ := ev.e2 s hb h1
      have x := hq _ a1 a2
      have y := hq _ a4 a5
      exact ⟨a3, by omega⟩
    · obtain ⟨a, b⟩ := h.r2 s h0 hb
      have x := hkeep s hb
      have y := hkeep _ (hdn s hb)
      exact ⟨a, by omega⟩

theorem pfLoop_ref {so : Array Int} (c : PfCtx ds usMain seq uparea) (trib : List Nat) (depth : Nat)
    (htrib : ∀ t ∈ trib, t ∈ seq ∧ ds[t]! ≠ t ∧ usMain[ds[t]!]! ≠ t) (hnd : trib.Nodup) :
    ∀ (f : Nat) (st r : PfSt × Bool × Bool),
      pfLoop ds usMain so uparea trib depth f st = some r →
      PfAll ds usMain so depth st.1.1 st.1.2.1 st.1.2.2 → (∀ e ∈ st.1.2.2, e.2 = depth) →
      ∀ br0, PfRef ds br0 st.1.1 →
      PfRef ds br0 r.1.1 ∧ PfG ds usMain so r.1.1 r.1.2.1 := by
  intro f
  induction f with
  | zero =>
    intro st r h all _ br0 href
    obtain ⟨⟨br, idxs, labs⟩, tie, ok⟩ := st
    cases labs with
    | nil => simp only [pfLoop, Option.some.injEq] at h; subst h; exact ⟨href, all.g⟩
    | cons a labs => simp [pfLoop] at h
  | succ f ih =>
    intro st r h all hlev br0 href
    obtain ⟨⟨br, idxs, labs⟩, tie, ok⟩ := st
    cases labs with
    | nil => simp only [pfLoop, Option.some.injEq] at h; subst h; exact ⟨href, all.g⟩
    | cons a labs =>
      obtain ⟨pfaf0, d0⟩ := a
      simp only at all hlev href
      have hd0 : d0 = depth := hlev (pfaf0, d0) (by simp)
      simp only [pfLoop] at h
      split at h
      · exact ih _ r h all.tail (fun e he => hlev e (List.mem_cons_of_mem _ he)) br0 href
      · split at h
        · cases h
        · rename_i st' x ok' hin
          have hin' : pfInner ds usMain so depth pfaf0 d0 (pfSel ds uparea br trib pfaf0) 0
              ((br, idxs, labs), pfaf0, ok) = some (st', x, ok') := hin
          obtain ⟨all', _, _, hev, hlev', _, _, hbase, _⟩ := pfPop_link c trib depth htrib hnd False so
            (fun w => w.elim) (fun w => w.elim) all (fun w => w.elim) hin'
          simp only at all' hev hlev'
          subst hd0
          simp only [Nat.sub_self, Int.pow_zero, Int.mul_one, Nat.zero_add, Int.pow_one] at hev hbase
          have hm : pfaf0 % 10 = 1 := by rw [hbase]; simp [R1]
          have href' := href.step hev hm (fun s hs => all.g.dn s (all.g.lt hs) hs)
          refine ih _ r h all' (fun e he => ?_) br0 href'
          have h1 := hlev' e he
          have h2 := (all'.q.lev e he).2.1
          omega

/-! ### the seeds of the two runs -/

/-- **relation between the seeds of the run for `depth` and of the run for `depth + 1`** -/
theorem pfBranch_refine (pits : List Nat) (ds : Array Nat) (seq : List Nat) (usMain : Array Nat)
    (uparea : Array Int) (mask : Option (Array Bool)) (D : Nat) (hD : 1 ≤ D)
    (c : PfCtx ds usMain seq uparea) (hpn : pits.Nodup) (hpits : ∀ q ∈ pits, q ∈ seq ∧ ds[q]! = q)
    (brA brB : Array Int) (idxsA idxsB : List Nat) (tieA okA tieB okB : Bool)
    (hA : pfBranch pits ds seq usMain uparea mask D = some (brA, idxsA, tieA, okA))
    (hB : pfBranch pits ds seq usMain uparea mask (D + 1) = some (brB, idxsB, tieB, okB)) :
    (∀ s : Nat, brA[s]! ≠ 0 → brB[s]! ≠ 0 ∧ brB[s]! / 10 = brA[s]!) ∧
    (∀ s : Nat, brA[s]! = 0 → brB[s]! ≠ 0 → ds[s]! ≠ s ∧ brB[s]! / 10 = brB[ds[s]!]! / 10) ∧
    PfG ds usMain (pfStrord ds seq usMain mask (D + 1)) brB idxsB ∧ brA.size = ds.size := by
  have hmainS := soraw_main c mask
  unfold pfBranch at hA hB
  simp only at hA hB
  split at hA
  · cases hA
  · rename_i st0A hpA
    split at hA
    · cases hA
    · rename_i brA' idxsA' labsA' tieA' okA' heqA
      simp only [Option.some.injEq, Prod.mk.injEq] at hA
      obtain ⟨h1, _, _, _⟩ := hA
      subst h1
      -- the pit loop of the deeper run
      have hpitso : ∀ q ∈ pits, q < ds.size ∧ (streamOrderClassic ds seq usMain mask)[q]! ≤ (D : Int) + 1 := by
        intro q hq
        obtain ⟨h1, h2⟩ := hpits q hq
        refine ⟨c.hb q h1, ?_⟩
        rcases soraw_pit ds seq usMain mask c.topo c.hb q h1 h2 with h | h <;> omega
      obtain ⟨st0B, hpB, sp1, sp2, sp3⟩ := pfPits_sim usMain ds.size (pfStrord ds seq usMain mask D)
        (pfStrord ds seq usMain mask (D + 1)) (streamOrderClassic ds seq usMain mask) D hD
        (fun u hu h => so_agree ds seq usMain mask D u hu h) hmainS pits 0
        (Array.replicate ds.size 0, [], []) (Array.replicate ds.size 0, [], []) st0A hpitso hpA
        ⟨rfl, fun s => by rw [replicate_get! _ 0 rfl s, phi_zero]⟩ rfl rfl
      rw [hpB] at hB
      simp only at hB
      split at hB
      · cases hB
      · rename_i brB' idxsB' labsB' tieB' okB' heqB
        simp only [Option.some.injEq, Prod.mk.injEq] at hB
        obtain ⟨h1, h2, _, _⟩ := hB
        subst h1 h2
        have hbp := pfBase_pos D
        have hPP := pow10_pos D
        have hbpB := pfBase_pos (D + 1)
        have hPPB := pow10_pos (D + 1)
        -- invariants after the pit loops
        obtain ⟨g0A, fr0A, hl0A, ho0A⟩ := pfPits_joint (so := pfStrord ds seq usMain mask D) c D hD True
          (streamOrderClassic ds seq usMain mask)
          (fun _ => ⟨fun s hs => pfStrord_ne_zero ds seq usMain mask D s hs, hmainS⟩) pits 0
          (Array.replicate ds.size 0, [], []) st0A hpn hpits
          (fun _ q hq => by
            obtain ⟨h1, h2⟩ := hpits q hq
            rcases soraw_pit ds seq usMain mask c.topo c.hb q h1 h2 with h | h <;> omega)
          hpA (PfG.init ds usMain _)
          (PfFresh.init D ds.size) (fun _ he => by cases he) (fun _ he => by cases he)
          (fun s => by
            show (Array.replicate ds.size (0 : Int))[s]! < _
            rw [replicate_get! _ 0 rfl s]
            simp only [Int.cast_ofNat_Int, Int.zero_add, Int.one_mul]
            omega)
          (fun q _ => replicate_get! _ 0 rfl q) (fun _ _ he => by cases he)
        obtain ⟨hpoA, hq0A⟩ := pfPits_q usMain ds.size (pfStrord ds seq usMain mask D) D hD ds pits 0
          (Array.replicate ds.size 0, [], []) st0A (fun q hq => (hpits q hq).2) hpA
          (fun _ he => by cases he)
          (show PfQ D [] from ⟨List.Pairwise.nil, fun _ he _ _ => absurd he List.not_mem_nil,
            fun _ he => absurd he List.not_mem_nil⟩) (fun _ he => by cases he)
        obtain ⟨g0B, fr0B, hl0B, _⟩ := pfPits_joint (so := pfStrord ds seq usMain mask (D + 1)) c (D + 1)
          (by omega) False (pfStrord ds seq usMain mask (D + 1)) (fun w => w.elim) pits 0
          (Array.replicate ds.size 0, [], []) st0B hpn hpits (fun w => w.elim) hpB (PfG.init ds usMain _)
          (PfFresh.init (D + 1) ds.size) (fun _ he => by cases he) (fun _ he => by cases he)
          (fun s => by
            show (Array.replicate ds.size (0 : Int))[s]! < _
            rw [replicate_get! _ 0 rfl s]
            simp only [Int.cast_ofNat_Int, Int.zero_add, Int.one_mul]
            omega)
          (fun q _ => replicate_get! _ 0 rfl q) (fun w => w.elim)
        obtain ⟨hpoB, hq0B⟩ := pfPits_q usMain ds.size (pfStrord ds seq usMain mask (D + 1)) (D + 1)
          (by omega) ds pits 0
          (Array.replicate ds.size 0, [], []) st0B (fun q hq => (hpits q hq).2) hpB
          (fun _ he => by cases he)
          (show PfQ (D + 1) [] from ⟨List.Pairwise.nil, fun _ he _ _ => absurd he List.not_mem_nil,
            fun _ he => absurd he List.not_mem_nil⟩) (fun _ he => by cases he)
        have allA : PfAll ds usMain (pfStrord ds seq usMain mask D) D st0A.1 st0A.2.1 st0A.2.2 :=
          ⟨g0A, fr0A, hl0A, fun o ho hnp => absurd (hpoA o ho) hnp, hq0A⟩
        have allB : PfAll ds usMain (pfStrord ds seq usMain mask (D + 1)) (D + 1) st0B.1 st0B.2.1 st0B.2.2 :=
          ⟨g0B, fr0B, hl0B, fun o ho hnp => absurd (hpoB o ho) hnp, hq0B⟩
        obtain ⟨fB', stB', hrun, allB', sbr, _, hlevB⟩ := pfLoop_sim c mask D _ _ _ heqA allA (ho0A trivial)
          _ _ _ heqB allB ⟨sp1, sp2, ⟨[], by simp [sp3], fun _ he => absurd he List.not_mem_nil, Or.inl rfl⟩⟩
        have htribB := tributaries_nonmain ds seq usMain mask (D + 1) c.topo c.hb
        have hndB : (tributaries ds seq (pfStrord ds seq usMain mask (D + 1))).Nodup := by
          unfold tributaries; exact c.topo.nodup.sublist List.filter_sublist
        obtain ⟨href, gB⟩ := pfLoop_ref c _ (D + 1) htribB hndB fB' stB' _ hrun allB' hlevB stB'.1.1
          (PfRef.refl ds _)
        simp only at sbr href gB
        have hszA : brA'.size = ds.size := by
          have := pfLoop_size _ _ _ _ _ _ _ _ _ heqA
          simp only at this
          rw [this, pfPits_size _ _ _ _ _ _ _ _ hpA]; simp
        refine ⟨fun s hs => ?_, fun s hs hb => ?_, gB, hszA⟩
        · have h1 : stB'.1.1[s]! ≠ 0 := by
            rw [sbr.val]; exact fun h => hs (phi_eq_zero.1 h)
          obtain ⟨a, b⟩ := href.r1 s h1
          refine ⟨a, ?_⟩
          rw [b, sbr.val, phi_div]
        · have h1 : stB'.1.1[s]! = 0 := by rw [sbr.val, hs, phi_zero]
          exact href.r2 s h1 hb

/-! ### from the seeds to the filled maps -/

theorem fill_rec_c18 (ds : Array Nat) (seq : List Nat) (br : Array Int) (htopo : Topo ds seq)
    (hb : ∀ i ∈ seq, i < br.size) (i : Nat) (hi : i ∈ seq) :
    (fillnodataUpstream ds seq br 0)[i]! =
      if br[i]! ≠ 0 then br[i]!
      else if ds[i]! = i then 0 else (fillnodataUpstream ds seq br 0)[ds[i]!]! := by
  have hrec := (sweepDown_rec ds (gFillNd 0) br seq htopo hb).1 i hi
  show (sweepDown ds (gFillNd 0) seq br)[i]! = if br[i]! ≠ 0 then br[i]!
      else if ds[i]! = i then 0 else (sweepDown ds (gFillNd 0) seq br)[ds[i]!]!
  rw [hrec]
  unfold gFillNd
  by_cases h0 : br[i]! = 0
  · by_cases hp : ds[i]! = i
    · simp [h0, hp]
    · simp only [h0, hp, if_false, ne_eq, not_true_eq_false, true_and]
      split
      · rfl
      · rename_i h; simp only [Decidable.not_not] at h; exact h.symm
  · simp [h0]

/-- the filled seeds of the deeper run, divided by 10, are the filled seeds of the shallower run -/
theorem fill_refine (ds : Array Nat) (seq : List Nat) (brA brB : Array Int) (htopo : Topo ds seq)
    (hbA : ∀ i ∈ seq, i < brA.size) (hbB : ∀ i ∈ seq, i < brB.size)
    (k1 : ∀ s : Nat, brA[s]! ≠ 0 → brB[s]! ≠ 0 ∧ brB[s]! / 10 = brA[s]!)
    (k2 : ∀ s : Nat, brA[s]! = 0 → brB[s]! ≠ 0 → ds[s]! ≠ s ∧ brB[s]! / 10 = brB[ds[s]!]! / 10)
    (hdn : ∀ s : Nat, brB[s]! ≠ 0 → brB[ds[s]!]! ≠ 0) :
    ∀ i ∈ seq, (fillnodataUpstream ds seq brB 0)[i]! / 10 = (fillnodataUpstream ds seq brA 0)[i]! := by
  refine htopo.induction _ (fun i hi ih => ?_)
  rw [fill_rec_c18 ds seq brA htopo hbA i hi, fill_rec_c18 ds seq brB htopo hbB i hi]
  by_cases hA : brA[i]! = 0
  · by_cases hB : brB[i]! = 0
    · by_cases hp : ds[i]! = i
      · simp [hA, hB, hp]
      · simp only [hA, hB, hp, ne_eq, not_true_eq_false, if_false]
        exact (ih hp).2
    · obtain ⟨hp, hq⟩ := k2 i hA hB
      obtain ⟨hdm, hih⟩ := ih hp
      simp only [hA, hB, hp, ne_eq, not_true_eq_false, not_false_eq_true, if_true, if_false]
      rw [← hih, fill_rec_c18 ds seq brB htopo hbB _ hdm, if_pos (hdn i hB)]
      exact hq
  · obtain ⟨hB, hq⟩ := k1 i hA
    simp only [hA, hB, ne_eq, not_false_eq_true, if_true]
    exact hq

end Pf.C18
