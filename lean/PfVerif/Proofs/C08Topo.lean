import PfVerif.Core.Sweep
/-! Upstream induction along a downstream-first order (C08). Core Lean only. -/
namespace Pf

/-- a downstream-first order carries a height function that strictly decreases going upstream
(`ht c < ht (ds c)`): the number of cells after the cell in `seq` -/
theorem Topo.exists_height {ds : Array Nat} {seq : List Nat} (h : Topo ds seq) :
    ∃ ht : Nat → Nat, (∀ j ∈ seq, ht j < seq.length) ∧ ∀ c ∈ seq, ds[c]! ≠ c → ht c < ht ds[c]! := by
  induction h with
  | nil => exact ⟨fun _ => 0, by simp, by simp⟩
  | @snoc pre i hpre hi hds ih =>
    obtain ⟨ht, h1, h2⟩ := ih
    have hmem := Topo.ds_mem hpre
    refine ⟨fun j => if j = i then 0 else ht j + 1, ?_, ?_⟩
    · intro j hj
      simp only [List.mem_append, List.mem_singleton, List.length_append, List.length_singleton] at hj ⊢
      by_cases hji : j = i
      · simp [hji]
      · rcases hj with hj | hj
        · have := h1 j hj; simp only [hji, if_false]; omega
        · exact absurd hj hji
    · intro c hc hne
      simp only [List.mem_append, List.mem_singleton] at hc
      by_cases hci : c = i
      · subst hci
        have hdp : ds[c]! ∈ pre := by
          rcases hds with h | h
          · exact absurd h hne
          · exact h
        have : ds[c]! ≠ c := hne
        simp [this]
      · have hcp : c ∈ pre := by
          rcases hc with h | h
          · exact h
          · exact absurd h hci
        have hdp := hmem c hcp
        have hdi : ds[c]! ≠ i := fun h => hi (h ▸ hdp)
        have := h2 c hcp hne
        simp only [hci, hdi, if_false]; omega

/-- **upstream induction**: to prove `P` on every cell of a downstream-first order it suffices to
prove it for a cell assuming it for all cells of the order draining directly into it. -/
theorem Topo.induction_up {ds : Array Nat} {seq : List Nat} (htopo : Topo ds seq) (P : Nat → Prop)
    (step : ∀ j ∈ seq, (∀ c ∈ seq, ds[c]! = j → c ≠ j → P c) → P j) : ∀ j ∈ seq, P j := by
  obtain ⟨ht, _, h2⟩ := htopo.exists_height
  suffices hs : ∀ k j, j ∈ seq → ht j = k → P j from fun j hj => hs (ht j) j hj rfl
  intro k
  induction k using Nat.strongRecOn with
  | _ k ih =>
    intro j hj hk
    refine step j hj (fun c hc hcj hne => ?_)
    have hlt : ht c < ht j := by
      have := h2 c hc (by rw [hcj]; exact fun h => hne h.symm)
      rwa [hcj] at this
    exact ih (ht c) (by omega) c hc rfl

end Pf
