import PfVerif.Model.C10
/-! Helper lemmas for C10 (core Lean only). -/
namespace Pf.C10
open Pf

/-! ### seeds: last position of a pixel in the outlet vector -/

theorem lastPosAux_spec (i : Nat) : ∀ (outs : List Nat) (k : Nat) (acc : Int),
    (lastPosAux i outs k acc = acc ∧ i ∉ outs) ∨
    (∃ p : Nat, outs[p]? = some i ∧ lastPosAux i outs k acc = (k : Int) + p + 1 ∧
      ∀ q : Nat, outs[q]? = some i → q ≤ p) := by
  intro outs
  induction outs with
  | nil => intro k acc; left; simp [lastPosAux]
  | cons o rest ih =>
    intro k acc
    simp only [lastPosAux]
    rcases ih (k + 1) (if o = i then (k : Int) + 1 else acc) with ⟨h1, h2⟩ | ⟨p, hp, hv, hq⟩
    · by_cases ho : o = i
      · right
        refine ⟨0, by simp [ho], by rw [h1]; simp [ho], ?_⟩
        intro q hq
        cases q with
        | zero => exact Nat.le_refl 0
        | succ q =>
          simp only [List.getElem?_cons_succ] at hq
          exact absurd (List.mem_of_getElem? hq) h2
      · left
        refine ⟨by rw [h1]; simp [ho], ?_⟩
        simp only [List.mem_cons, not_or]
        exact ⟨fun h => ho h.symm, h2⟩
    · right
      refine ⟨p + 1, by simpa using hp, by rw [hv]; push_cast; omega, ?_⟩
      intro q hq'
      cases q with
      | zero => omega
      | succ q =>
        simp only [List.getElem?_cons_succ] at hq'
        have := hq q hq'
        omega

theorem lastPos1_cases (outs : List Nat) (i : Nat) :
    (lastPos1 outs i = 0 ∧ i ∉ outs) ∨
    (∃ p : Nat, outs[p]? = some i ∧ lastPos1 outs i = (p : Int) + 1 ∧ ∀ q : Nat, outs[q]? = some i → q ≤ p) := by
  rcases lastPosAux_spec i outs 0 0 with h | ⟨p, h1, h2, h3⟩
  · exact Or.inl h
  · exact Or.inr ⟨p, h1, by rw [lastPos1, h2]; simp, h3⟩

theorem size_mapSeedAux (mv : Nat) : ∀ (outs : List Nat) (k : Nat) (m : Array Int),
    (mapSeedAux mv outs k m).size = m.size := by
  intro outs
  induction outs with
  | nil => intro k m; rfl
  | cons o rest ih =>
    intro k m
    simp only [mapSeedAux]
    rw [ih]
    split <;> simp

@[simp] theorem size_mapSeed (n : Nat) (outs : List Nat) : (mapSeed n outs).size = n := by
  simp [mapSeed, size_mapSeedAux]

theorem mapSeedAux_get (mv : Nat) : ∀ (outs : List Nat) (k : Nat) (m : Array Int) (j : Nat),
    (mapSeedAux mv outs k m)[j]! =
      if j < m.size ∧ j ≠ mv then lastPosAux j outs k m[j]! else m[j]! := by
  intro outs
  induction outs with
  | nil => intro k m j; simp [mapSeedAux, lastPosAux]
  | cons o rest ih =>
    intro k m j
    simp only [mapSeedAux, lastPosAux]
    rw [ih]
    by_cases ho : o ≠ mv
    · simp only [ho, ne_eq, not_false_eq_true, if_true, Array.size_setIfInBounds, get!_setIfInBounds]
      by_cases hj : j < m.size ∧ j ≠ mv
      · simp only [hj, and_self, if_true]
        by_cases hoj : o = j
        · subst hoj; simp [hj.1]
        · simp [hoj]
      · simp only [hj, if_false]
        by_cases hoj : o = j
        · subst hoj
          have : ¬ o < m.size := fun h => hj ⟨h, ho⟩
          simp [this]
        · simp [hoj]
    · have ho' : o = mv := by simpa using ho
      simp only [ho', ne_eq, not_true_eq_false, if_false]
      by_cases hj : j < m.size ∧ j ≠ mv
      · have : ¬ mv = j := fun h => hj.2 h.symm
        simp [hj, this]
      · simp [hj]

/-- the seed map holds, at every cell of the raster, the 1-based last position of the cell in the
outlet vector (0 if it is not listed) -/
theorem mapSeed_get (n : Nat) (outs : List Nat) (j : Nat) :
    (mapSeed n outs)[j]! = if j < n then lastPos1 outs j else 0 := by
  rw [mapSeed, mapSeedAux_get]
  by_cases hj : j < n
  · have : j ≠ n := Nat.ne_of_lt hj
    simp [hj, this, lastPos1]
  · simp [hj]

theorem accSeed_size (n : Nat) (outs : List Nat) (w : Nat → Int) : (accSeed n outs w).size = outs.length := by
  simp [accSeed]

theorem accSeed_get (n : Nat) (outs : List Nat) (w : Nat → Int) (k o : Nat) (h : outs[k]? = some o) :
    (accSeed n outs w)[k]! = if o ≠ n then w o else -9999 := by
  have hk : k < outs.length := (List.getElem?_eq_some_iff.mp h).1
  have ho : outs[k] = o := (List.getElem?_eq_some_iff.mp h).2
  simp [accSeed, getElem!_def, hk, ho]


/-! ### first outlet: relation, functionality, link with `FirstValid` on the seed map -/

theorem FirstOutlet.inv {ds : Array Nat} {outs : List Nat} {i : Nat} {v : Int}
    (h : FirstOutlet ds outs i v) :
    (∃ p : Nat, outs[p]? = some i ∧ i < ds.size ∧ (∀ q : Nat, outs[q]? = some i → q ≤ p) ∧ v = (p : Int) + 1) ∨
    ((i ∉ outs ∨ ds.size ≤ i) ∧ ds[i]! = i ∧ v = 0) ∨
    ((i ∉ outs ∨ ds.size ≤ i) ∧ ds[i]! ≠ i ∧ FirstOutlet ds outs ds[i]! v) := by
  cases h with
  | here _ p h1 h2 h3 => exact Or.inl ⟨p, h1, h2, h3, rfl⟩
  | pit _ h1 h2 => exact Or.inr (Or.inl ⟨h1, h2, rfl⟩)
  | down _ _ h1 h2 h3 => exact Or.inr (Or.inr ⟨h1, h2, h3⟩)

theorem not_listed_absurd {outs : List Nat} {i n p : Nat} (h : i ∉ outs ∨ n ≤ i)
    (hp : outs[p]? = some i) (hi : i < n) : False := by
  rcases h with h | h
  · exact h (List.mem_of_getElem? hp)
  · omega

/-- the first-outlet relation is functional -/
theorem FirstOutlet.unique {ds : Array Nat} {outs : List Nat} {i : Nat} {v w : Int}
    (h1 : FirstOutlet ds outs i v) (h2 : FirstOutlet ds outs i w) : v = w := by
  induction h1 generalizing w with
  | here i p hp hi hmax =>
    rcases h2.inv with ⟨p', hp', _, hmax', hw⟩ | ⟨hn, _, _⟩ | ⟨hn, _, _⟩
    · have := hmax p' hp'
      have := hmax' p hp
      rw [hw]
      have : p = p' := by omega
      rw [this]
    · exact (not_listed_absurd hn hp hi).elim
    · exact (not_listed_absurd hn hp hi).elim
  | pit i hn hp =>
    rcases h2.inv with ⟨p', hp', hi, _, _⟩ | ⟨_, _, hw⟩ | ⟨_, hnp, _⟩
    · exact (not_listed_absurd hn hp' hi).elim
    · exact hw.symm
    · exact absurd hp hnp
  | down i v hn hnp _ ih =>
    rcases h2.inv with ⟨p', hp', hi, _, _⟩ | ⟨_, hp, _⟩ | ⟨_, _, h⟩
    · exact (not_listed_absurd hn hp' hi).elim
    · exact absurd hp hnp
    · exact ih h

theorem seed_zero_not_listed {n : Nat} {outs : List Nat} {i : Nat}
    (h : (mapSeed n outs)[i]! = 0) : i ∉ outs ∨ n ≤ i := by
  rw [mapSeed_get] at h
  by_cases hi : i < n
  · simp only [hi, if_true] at h
    rcases lastPos1_cases outs i with ⟨_, h2⟩ | ⟨p, _, h2, _⟩
    · exact Or.inl h2
    · rw [h2] at h; omega
  · exact Or.inr (by omega)

theorem seed_nonzero {n : Nat} {outs : List Nat} {i : Nat}
    (h : (mapSeed n outs)[i]! ≠ 0) :
    i < n ∧ ∃ p : Nat, outs[p]? = some i ∧ (mapSeed n outs)[i]! = (p : Int) + 1 ∧
      ∀ q : Nat, outs[q]? = some i → q ≤ p := by
  rw [mapSeed_get] at h ⊢
  by_cases hi : i < n
  · simp only [hi, if_true] at h ⊢
    rcases lastPos1_cases outs i with ⟨h1, _⟩ | ⟨p, h1, h2, h3⟩
    · exact absurd h1 h
    · exact ⟨trivial, p, h1, h2, h3⟩
  · simp [hi] at h

/-- a first-valid walk over the seed map is a first-outlet walk over the outlet vector -/
theorem firstValid_firstOutlet {ds : Array Nat} {outs : List Nat} {i : Nat} {v : Int}
    (h : FirstValid ds (mapSeed ds.size outs) 0 i v) : FirstOutlet ds outs i v := by
  induction h with
  | here i hne =>
    obtain ⟨hi, p, hp, hv, hmax⟩ := seed_nonzero hne
    rw [hv]
    exact FirstOutlet.here i p hp hi hmax
  | pit i he hp => exact FirstOutlet.pit i (seed_zero_not_listed he) hp
  | down i v he hnp _ ih => exact FirstOutlet.down i v (seed_zero_not_listed he) hnp ih

theorem labelWalk_sound (ds : Array Nat) (outs : List Nat) :
    ∀ fuel i v, labelWalk ds outs fuel i = some v → FirstOutlet ds outs i v := by
  intro fuel
  induction fuel with
  | zero => intro i v h; simp [labelWalk] at h
  | succ f ih =>
    intro i v h
    simp only [labelWalk] at h
    by_cases h1 : i < ds.size ∧ lastPos1 outs i ≠ 0
    · simp only [h1, ne_eq, not_false_eq_true, and_self, if_true, Option.some.injEq] at h
      rcases lastPos1_cases outs i with ⟨h0, _⟩ | ⟨p, hp, hv, hmax⟩
      · exact absurd h0 h1.2
      · rw [← h, hv]; exact FirstOutlet.here i p hp h1.1 hmax
    · rw [if_neg h1] at h
      have hn : i ∉ outs ∨ ds.size ≤ i := by
        by_cases hi : i < ds.size
        · have h0 : lastPos1 outs i = 0 := by
            have := fun hh => h1 ⟨hi, hh⟩
            simpa using this
          rcases lastPos1_cases outs i with ⟨_, h2⟩ | ⟨p, _, h2, _⟩
          · exact Or.inl h2
          · rw [h2] at h0; omega
        · exact Or.inr (by omega)
      by_cases h2 : ds[i]! = i
      · simp only [h2, if_true, Option.some.injEq] at h
        rw [← h]; exact FirstOutlet.pit i hn h2
      · simp only [h2, if_false] at h
        exact FirstOutlet.down i v hn h2 (ih _ _ h)


/-! ### the second loop: map part = `fillnodata_upstream`, accumulator invariant -/

theorem setIfInBounds_get!_self (a : Array Int) (i : Nat) : a.setIfInBounds i a[i]! = a := by
  apply Array.ext
  · simp
  · intro j h1 h2
    have := get!_setIfInBounds a i j a[i]!
    simp only [getElem!_pos (a.setIfInBounds i a[i]!) j h1, getElem!_pos a j h2] at this
    rw [this]
    split
    · rename_i h
      obtain ⟨rfl, h3⟩ := h
      exact getElem!_pos a i h3
    · rfl

theorem ucatStep_fst (ds : Array Nat) (w : Nat → Int) (st : Array Int × Array Int) (i : Nat) :
    (ucatStep ds w st i).1 = stepDown ds (gFillNd 0) st.1 i := by
  simp only [ucatStep, stepDown, gFillNd]
  split
  · rfl
  · exact (setIfInBounds_get!_self st.1 i).symm

theorem ucat_fold_fst (ds : Array Nat) (w : Nat → Int) (seq : List Nat) :
    ∀ st : Array Int × Array Int,
      (seq.foldl (ucatStep ds w) st).1 = sweepDown ds (gFillNd 0) seq st.1 := by
  induction seq with
  | nil => intro st; rfl
  | cons i rest ih =>
    intro st
    simp only [List.foldl_cons, sweepDown]
    rw [ih, ucatStep_fst]
    rfl

/-- the unit catchment map of `ucat_area` / `ucat_volume` is `fillnodata_upstream` of the seed map -/
theorem ucatAccum_fst (ds : Array Nat) (seq outs : List Nat) (w : Nat → Int) :
    (ucatAccum ds seq outs w).1 = sweepDown ds (gFillNd 0) seq (mapSeed ds.size outs) := by
  rw [ucatAccum, ucat_fold_fst]

theorem sumIf_append (l1 l2 : List Nat) (p : Nat → Bool) (f : Nat → Int) :
    sumIf (l1 ++ l2) p f = sumIf l1 p f + sumIf l2 p f := by
  simp [sumIf, List.sum_append]

theorem sumIf_singleton (i : Nat) (p : Nat → Bool) (f : Nat → Int) :
    sumIf [i] p f = if p i then f i else 0 := by
  by_cases h : p i <;> simp [sumIf, h]

theorem sumIf_congr {l : List Nat} {p q : Nat → Bool} (f : Nat → Int) (h : ∀ i ∈ l, p i = q i) :
    sumIf l p f = sumIf l q f := by
  unfold sumIf
  rw [List.filter_congr h]

/-- every non-zero label is `p + 1` for a listed, in-range outlet pixel whose LAST position is `p` -/
def LabOK (n : Nat) (outs : List Nat) (a : Array Int) : Prop :=
  ∀ j : Nat, a[j]! = 0 ∨ ∃ p c : Nat, outs[p]? = some c ∧ c < n ∧ a[j]! = (p : Int) + 1 ∧
    ∀ q : Nat, outs[q]? = some c → q ≤ p

theorem labOK_seed (n : Nat) (outs : List Nat) : LabOK n outs (mapSeed n outs) := by
  intro j
  by_cases h : (mapSeed n outs)[j]! = 0
  · exact Or.inl h
  · obtain ⟨hj, p, hp, hv, hmx⟩ := seed_nonzero h
    exact Or.inr ⟨p, j, hp, hj, hv, hmx⟩

/-- invariant of the second loop of `ucat_area` (induction along the downstream-first order) -/
theorem ucat_inv (ds : Array Nat) (seq outs : List Nat) (w : Nat → Int)
    (htopo : Topo ds seq) (hb : ∀ i ∈ seq, i < ds.size) :
    LabOK ds.size outs (ucatAccum ds seq outs w).1 ∧
    (ucatAccum ds seq outs w).2.size = outs.length ∧
    (∀ i, i ∉ seq → (ucatAccum ds seq outs w).1[i]! = (mapSeed ds.size outs)[i]!) ∧
    ∀ k, k < outs.length →
      (ucatAccum ds seq outs w).2[k]! = (accSeed ds.size outs w)[k]! +
        sumIf seq (fun i => (mapSeed ds.size outs)[i]! == 0 &&
          (ucatAccum ds seq outs w).1[i]! == (k : Int) + 1) w := by
  induction htopo with
  | nil =>
    refine ⟨labOK_seed _ _, accSeed_size _ _ _, fun _ _ => rfl, fun k _ => ?_⟩
    simp [ucatAccum, sumIf]
  | @snoc pre i hpre hi hds ih =>
    have hb' : ∀ j ∈ pre, j < ds.size := fun j hj => hb j (by simp [hj])
    obtain ⟨ihL, ihS, ihU, ihA⟩ := ih hb'
    have hstep : ucatAccum ds (pre ++ [i]) outs w = ucatStep ds w (ucatAccum ds pre outs w) i := by
      simp [ucatAccum, List.foldl_append]
    rw [hstep]
    have hsz1 : (ucatAccum ds pre outs w).1.size = ds.size := by rw [ucatAccum_fst]; simp
    generalize ucatAccum ds pre outs w = S at *
    have hisz : i < S.1.size := by rw [hsz1]; exact hb i (by simp)
    have hcur : S.1[i]! = (mapSeed ds.size outs)[i]! := ihU i hi
    by_cases hc : S.1[i]! = 0 ∧ S.1[ds[i]!]! ≠ 0
    · -- the cell takes the label of its downstream cell
      obtain ⟨p, c, hp, hcn, hv, hmx⟩ : ∃ p c : Nat, outs[p]? = some c ∧ c < ds.size ∧
          S.1[ds[i]!]! = (p : Int) + 1 ∧ ∀ q : Nat, outs[q]? = some c → q ≤ p := by
        rcases ihL ds[i]! with h | h
        · exact absurd h hc.2
        · exact h
      have hplt : p < outs.length := (List.getElem?_eq_some_iff.mp hp).1
      have htn : (S.1[ds[i]!]! - 1).toNat = p := by rw [hv]; omega
      have hnew : ucatStep ds w S i =
          (S.1.setIfInBounds i S.1[ds[i]!]!, S.2.setIfInBounds p (S.2[p]! + w i)) := by
        simp only [ucatStep, hc, ne_eq, not_false_eq_true, and_self, if_true, htn]
      rw [hnew]
      refine ⟨?_, by simpa using ihS, ?_, ?_⟩
      · intro j
        simp only [get!_setIfInBounds]
        split
        · exact Or.inr ⟨p, c, hp, hcn, hv, hmx⟩
        · exact ihL j
      · intro j hj
        simp only [List.mem_append, List.mem_singleton, not_or] at hj
        simp only [get!_setIfInBounds]
        have : ¬ (i = j) := fun h => hj.2 h.symm
        simp [this, ihU j hj.1]
      · intro k hk
        simp only [get!_setIfInBounds]
        rw [sumIf_append, sumIf_singleton]
        have hcong : sumIf pre (fun j => (mapSeed ds.size outs)[j]! == 0 &&
              (if i = j ∧ i < S.1.size then S.1[ds[i]!]! else S.1[j]!) == (k : Int) + 1) w =
            sumIf pre (fun j => (mapSeed ds.size outs)[j]! == 0 && S.1[j]! == (k : Int) + 1) w := by
          apply sumIf_congr
          intro j hj
          have : ¬ (i = j) := fun h => hi (h ▸ hj)
          simp [this]
        rw [hcong, ihA k hk]
        have hseed0 : (mapSeed ds.size outs)[i]! = 0 := by rw [← hcur]; exact hc.1
        simp only [hseed0, beq_self_eq_true, Bool.true_and, hisz, and_self, if_true, hv, ihS]
        by_cases hpk : p = k
        · subst hpk
          simp [hplt]
          have := ihA p hplt
          omega
        · have : ¬ ((p : Int) + 1 = (k : Int) + 1) := by omega
          simp [hpk, this]
    · -- nothing changes
      have hnew : ucatStep ds w S i = S := by
        simp only [ucatStep]
        rw [if_neg hc]
      rw [hnew]
      refine ⟨ihL, ihS, ?_, ?_⟩
      · intro j hj
        simp only [List.mem_append, List.mem_singleton, not_or] at hj
        exact ihU j hj.1
      · intro k hk
        rw [sumIf_append, sumIf_singleton, ihA k hk]
        have : ((mapSeed ds.size outs)[i]! == 0 && S.1[i]! == (k : Int) + 1) = false := by
          rw [hcur]
          by_cases h0 : (mapSeed ds.size outs)[i]! = 0
          · have : ¬ ((0 : Int) = (k : Int) + 1) := by omega
            simp [h0, this]
          · simp [h0]
        simp [this]


/-! ### sums over sets of cells -/

theorem perm_sum_int {l1 l2 : List Int} (h : l1.Perm l2) : l1.sum = l2.sum := by
  induction h with
  | nil => rfl
  | cons x _ ih => simp [ih]
  | swap x y l => simp only [List.sum_cons]; omega
  | trans _ _ ih1 ih2 => exact ih1.trans ih2

/-- two duplicate-free lists with the same selected members have the same selected sum -/
theorem sum_eq_of_mem_iff {l1 l2 : List Nat} (f : Nat → Int) (h1 : l1.Nodup) (h2 : l2.Nodup)
    (h : ∀ a, a ∈ l1 ↔ a ∈ l2) : (l1.map f).sum = (l2.map f).sum :=
  perm_sum_int (((List.perm_ext_iff_of_nodup h1 h2).mpr h).map f)

theorem sumIf_false {l : List Nat} {p : Nat → Bool} (f : Nat → Int) (h : ∀ i ∈ l, p i = false) :
    sumIf l p f = 0 := by
  have : l.filter p = [] := by
    rw [List.filter_eq_nil_iff]
    intro a ha; simp [h a ha]
  simp [sumIf, this]

theorem sumIf_or {l : List Nat} {r p q : Nat → Bool} (f : Nat → Int)
    (hr : ∀ i ∈ l, r i = (p i || q i)) (hd : ∀ i ∈ l, ¬ (p i = true ∧ q i = true)) :
    sumIf l r f = sumIf l p f + sumIf l q f := by
  induction l with
  | nil => simp [sumIf]
  | cons a t ih =>
    have ih' := ih (fun i hi => hr i (by simp [hi])) (fun i hi => hd i (by simp [hi]))
    have e1 : ∀ s : Nat → Bool, sumIf (a :: t) s f = (if s a then f a else 0) + sumIf t s f := by
      intro s
      by_cases hs : s a <;> simp [sumIf, hs]
    rw [e1 r, e1 p, e1 q, ih', hr a (by simp)]
    have := hd a (by simp)
    by_cases hp : p a <;> by_cases hq : q a <;> simp_all <;> omega

end Pf.C10
