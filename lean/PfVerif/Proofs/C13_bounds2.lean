import PfVerif.Model.C13_bounds2
import PfVerif.Model.C03
/-! Helper lemmas for `Props/C13_bounds2.lean`: the generic fold / sweep lemmas and the tactic that
discharges "this body trace is cell-shaped". -/
namespace Pf.C13b2
open Pf

@[simp] theorem InB_nil : InB [] := by intro e he; cases he

@[simp] theorem InB_cons (e : Acc) (l : List Acc) : InB (e :: l) ↔ e.idx < e.size ∧ InB l := by
  simp [InB]

@[simp] theorem InB_append (l1 l2 : List Acc) : InB (l1 ++ l2) ↔ InB l1 ∧ InB l2 := by
  simp only [InB, List.mem_append]
  constructor
  · intro h; exact ⟨fun e he => h e (Or.inl he), fun e he => h e (Or.inr he)⟩
  · rintro ⟨h1, h2⟩ e (he | he)
    · exact h1 e he
    · exact h2 e he

@[simp] theorem acc_idx {α : Type} (a : Arr) (xs : Array α) (i : Nat) : (acc a xs i).idx = i := rfl
@[simp] theorem acc_size {α : Type} (a : Arr) (xs : Array α) (i : Nat) : (acc a xs i).size = xs.size := rfl

/-! ### generic folds -/

theorem foldlL_fst {σ : Type} (step : σ → Nat → σ) (tr : Nat → σ → List Acc) (seq : List Nat) (st : σ × List Acc) :
    (foldlL step tr seq st).1 = seq.foldl step st.1 := by
  unfold foldlL
  induction seq generalizing st with
  | nil => rfl
  | cons x l ih => simp only [List.foldl_cons]; rw [ih]

theorem foldrL_fst {σ : Type} (step : Nat → σ → σ) (tr : Nat → σ → List Acc) (seq : List Nat) (st : σ × List Acc) :
    (foldrL step tr seq st).1 = seq.foldr step st.1 := by
  unfold foldrL
  induction seq with
  | nil => rfl
  | cons x l ih => simp only [List.foldr_cons]; rw [ih]

/-- every entry of the final log is an entry of the initial log or was produced by the body at a cell of `seq`
in a state that satisfies the loop invariant `I` -/
theorem foldlL_log {σ : Type} (step : σ → Nat → σ) (tr : Nat → σ → List Acc) (I : σ → Prop)
    (seq : List Nat) (hI : ∀ s, ∀ i ∈ seq, I s → I (step s i)) (st : σ × List Acc) (h0 : I st.1) :
    I (foldlL step tr seq st).1 ∧
    ∀ e ∈ (foldlL step tr seq st).2, e ∈ st.2 ∨ ∃ i ∈ seq, ∃ s, I s ∧ e ∈ tr i s := by
  unfold foldlL
  induction seq generalizing st with
  | nil => exact ⟨h0, fun e he => Or.inl he⟩
  | cons x l ih =>
    simp only [List.foldl_cons]
    have hI' : ∀ s, ∀ i ∈ l, I s → I (step s i) := fun s i hi => hI s i (List.mem_cons_of_mem _ hi)
    obtain ⟨h1, h2⟩ := ih hI' (step st.1 x, tr x st.1 ++ st.2) (hI _ x (List.mem_cons_self ..) h0)
    refine ⟨h1, fun e he => ?_⟩
    rcases h2 e he with h | ⟨i, hi, s, hs, hes⟩
    · rcases List.mem_append.1 h with h | h
      · exact Or.inr ⟨x, List.mem_cons_self .., st.1, h0, h⟩
      · exact Or.inl h
    · exact Or.inr ⟨i, List.mem_cons_of_mem _ hi, s, hs, hes⟩

theorem foldrL_log {σ : Type} (step : Nat → σ → σ) (tr : Nat → σ → List Acc) (I : σ → Prop)
    (seq : List Nat) (hI : ∀ s, ∀ i ∈ seq, I s → I (step i s)) (st : σ × List Acc) (h0 : I st.1) :
    I (foldrL step tr seq st).1 ∧
    ∀ e ∈ (foldrL step tr seq st).2, e ∈ st.2 ∨ ∃ i ∈ seq, ∃ s, I s ∧ e ∈ tr i s := by
  unfold foldrL
  induction seq with
  | nil => exact ⟨h0, fun e he => Or.inl he⟩
  | cons x l ih =>
    simp only [List.foldr_cons]
    have hI' : ∀ s, ∀ i ∈ l, I s → I (step i s) := fun s i hi => hI s i (List.mem_cons_of_mem _ hi)
    obtain ⟨h1, h2⟩ := ih hI'
    refine ⟨hI _ x (List.mem_cons_self ..) h1, fun e he => ?_⟩
    rcases List.mem_append.1 he with h | h
    · exact Or.inr ⟨x, List.mem_cons_self .., _, h1, h⟩
    · rcases h2 e h with h | ⟨i, hi, s, hs, hes⟩
      · exact Or.inl h
      · exact Or.inr ⟨i, List.mem_cons_of_mem _ hi, s, hs, hes⟩

/-! ### closed sequences -/

theorem closed_of_topo {ds : Array Nat} {n : Nat} {seq : List Nat} (ht : Topo ds seq) (hb : ∀ i ∈ seq, i < n) :
    Closed ds n seq :=
  fun i hi => ⟨hb i hi, hb _ (Topo.ds_mem ht i hi)⟩

/-- `seq` holds cells of a well-formed network that are inside the network (`idxs_ds[i] != mv`) -/
theorem closed_of_wf {ds : Array Nat} {seq : List Nat} (hwf : WF ds) (hv : ∀ i ∈ seq, isValid ds i = true) :
    Closed ds ds.size seq := by
  intro i hi
  have h := hv i hi
  simp only [isValid, Bool.and_eq_true, decide_eq_true_eq, bne_iff_ne, ne_eq] at h
  have := (hwf i h.1).1
  exact ⟨h.1, by omega⟩

theorem CellTr.inb {ds : Array Nat} {n i : Nat} {l : List Acc} (h : CellTr ds n i l) (hi : i < n ∧ ds[i]! < n) :
    InB l := by
  intro e he
  obtain ⟨h1, h2⟩ := h e he
  rcases h2 with h2 | h2 <;> omega

@[simp] theorem CellTr_nil (ds : Array Nat) (n i : Nat) : CellTr ds n i [] := by intro e he; cases he

@[simp] theorem CellTr_cons (ds : Array Nat) (n i : Nat) (e : Acc) (l : List Acc) :
    CellTr ds n i (e :: l) ↔ (e.size = n ∧ (e.idx = i ∨ e.idx = ds[i]!)) ∧ CellTr ds n i l := by
  simp [CellTr]

@[simp] theorem CellTr_append (ds : Array Nat) (n i : Nat) (l1 l2 : List Acc) :
    CellTr ds n i (l1 ++ l2) ↔ CellTr ds n i l1 ∧ CellTr ds n i l2 := by
  simp only [CellTr, List.mem_append]
  constructor
  · intro h; exact ⟨fun e he => h e (Or.inl he), fun e he => h e (Or.inr he)⟩
  · rintro ⟨h1, h2⟩ e (he | he)
    · exact h1 e he
    · exact h2 e he

theorem CellTr_accOpt {α : Type} (ds : Array Nat) (n i : Nat) (a : Arr) (xs : Option (Array α))
    (h : ∀ m, xs = some m → m.size = n) : CellTr ds n i (accOpt a xs i) := by
  cases xs with
  | none => simp [accOpt]
  | some m => simp [accOpt, h m rfl]

/-! ### helpers of the instances -/

theorem inb_of_touch {ds : Array Nat} {n : Nat} {seq : List Nat} {log : List Acc} (hcl : Closed ds n seq)
    (h : ∀ e ∈ log, e.size = n ∧ ∃ i ∈ seq, e.idx = i ∨ e.idx = ds[i]!) : InB log := by
  intro e he
  obtain ⟨h1, i, hi, h2⟩ := h e he
  have := hcl i hi
  rcases h2 with h2 | h2 <;> omega

macro "celltr" : tactic =>
  `(tactic| ((try dsimp only); (repeat' split); all_goals (simp_all [acc])))

theorem trLink_cell (ds : Array Nat) (data : Array Int) (nodata : Int) (i : Nat) (body : List Acc)
    (hd : data.size = ds.size) (hb : CellTr ds ds.size i body) : CellTr ds ds.size i (trLink ds data nodata i body) := by
  unfold trLink
  dsimp only
  repeat' split
  all_goals simp [acc, hd, hb]

theorem size_foldl_set {α : Type} (seq : List Nat) (f : Nat → α) (a : Array α) :
    (seq.foldl (fun a i => a.setIfInBounds i (f i)) a).size = a.size := by
  induction seq generalizing a with
  | nil => rfl
  | cons x l ih => simp only [List.foldl_cons]; rw [ih]; simp

theorem size_initSeq {α : Type} (n : Nat) (seq : List Nat) (mv zero : α) : (initSeq n seq mv zero).size = n := by
  unfold initSeq
  rw [size_foldl_set seq (fun _ => zero)]
  simp

theorem strahlerStep_size (ds : Array Nat) (mask : Option (Array Bool)) (i : Nat) (st : Array Nat × Array Nat) (n : Nat)
    (h : st.1.size = n ∧ st.2.size = n) :
    (strahlerStep ds mask i st).1.size = n ∧ (strahlerStep ds mask i st).2.size = n := by
  unfold strahlerStep
  dsimp only
  repeat' split
  all_goals simp_all

end Pf.C13b2
