import PfVerif.Model.C03_ext
import PfVerif.Proofs.C19Nup
/-! `n_upstream` (C03 extension): `core.upstream_count` without mask equals the declarative inflow
count on every cell, including `-9` on cells outside the network. Reuses the fold lemmas of C19. -/
namespace Pf.C03x
open Pf Pf.C19

/-- a cell outside a well-formed network is never written by the loop of `upstream_count` -/
theorem nup_fold_missing (ds : Array Nat) (hwf : WF ds) (v : Nat) (hv : v < ds.size) (hm : ds[v]! = ds.size) :
    ∀ (l : List Nat) (nup0 : Array Int), nup0.size = ds.size → (∀ j ∈ l, j < ds.size) →
      (l.foldl (nupStep ds none) nup0)[v]! = nup0[v]! := by
  intro l
  induction l with
  | nil => intro _ _ _; rfl
  | cons j l ih =>
    intro nup0 hsz hb
    have hj : j < ds.size := hb j (by simp)
    rw [List.foldl_cons, ih _ (by rw [nupStep_size, hsz]) (fun i hi => hb i (by simp [hi])),
      nupStep_get ds none nup0 j v hsz hj hv]
    have h1 : ¬ (j = v ∧ ds[j]! ≠ ds.size) := by
      rintro ⟨rfl, h⟩; exact h hm
    have h2 : inflow ds none v j = false := by
      cases h : inflow ds none v j
      · rfl
      · exfalso
        simp only [inflow, Bool.and_eq_true, bne_iff_ne, ne_eq, beq_iff_eq] at h
        obtain ⟨⟨⟨_, _⟩, _⟩, h4⟩ := h
        have := (hwf j hj).2 (by rw [h4]; exact hv)
        rw [h4, hm] at this
        exact Nat.lt_irrefl _ this
    simp [h1, h2]

theorem nUpstream_get (ds : Array Nat) (hwf : WF ds) (v : Nat) (hv : v < ds.size) :
    (upstreamCount ds none)[v]! = specNup ds v := by
  unfold specNup
  by_cases hm : ds[v]! = ds.size
  · rw [if_pos hm, upstreamCount_eq,
      nup_fold_missing ds hwf v hv hm _ _ (by simp) (fun j hj => List.mem_range.mp hj)]
    simp [hv]
  · rw [if_neg hm, upstreamCount_spec ds none v (by simp only [isValid, hv, decide_true, Bool.true_and, bne_iff_ne, ne_eq]; exact hm)]
    unfold nupM
    congr 2
    apply List.filter_congr
    intro j hj
    have hj' : j < ds.size := List.mem_range.mp hj
    simp only [inStream, isValid, maskAt, hj', decide_true, Bool.true_and, Bool.and_true]
    rw [Bool.eq_iff_iff]
    simp only [Bool.and_eq_true, bne_iff_ne, ne_eq, beq_iff_eq]
    constructor
    · rintro ⟨⟨_, h2⟩, h3⟩; exact ⟨h2, h3⟩
    · rintro ⟨h2, h3⟩
      refine ⟨⟨?_, h2⟩, h3⟩
      intro h; rw [h2] at h; omega

end Pf.C03x
