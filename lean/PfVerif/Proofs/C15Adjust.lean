import PfVerif.Model.C15
/-! Lemmas for C15, part 1: the streamline composition argument of `adjust_elevation`. Core Lean only. -/
namespace Pf.C15
open Pf

/-! ### a downstream-first order yields a measure that strictly decreases along non-pit links -/
theorem topo_height {ds : Array Nat} {seq : List Nat} (h : Topo ds seq) :
    ∃ ht : Nat → Nat, (∀ c ∈ seq, ht c < seq.length) ∧ (∀ c ∈ seq, ds[c]! ≠ c → ht ds[c]! < ht c) := by
  induction h with
  | nil => exact ⟨fun _ => 0, by simp, by simp⟩
  | @snoc pre i hpre hi hds ih =>
    obtain ⟨ht, h1, h2⟩ := ih
    have hmem := Topo.ds_mem hpre
    refine ⟨fun c => if c = i then pre.length else ht c, ?_, ?_⟩
    · intro c hc
      simp only [List.mem_append, List.mem_singleton] at hc
      simp only [List.length_append, List.length_singleton]
      by_cases hci : c = i
      · simp [hci]
      · rcases hc with hc | hc
        · have := h1 c hc; simp only [hci, if_false]; omega
        · exact absurd hc hci
    · intro c hc hne
      simp only [List.mem_append, List.mem_singleton] at hc
      by_cases hci : c = i
      · subst hci
        rcases hds with hd | hd
        · exact absurd hd hne
        · have hdi : ds[c]! ≠ c := hne
          simp only [hdi, if_false, if_true]
          exact h1 _ hd
      · rcases hc with hc | hc
        · have hd := hmem c hc
          have hdi : ds[c]! ≠ i := fun e => hi (e ▸ hd)
          simp only [hdi, hci, if_false]
          exact h2 c hc hne
        · exact absurd hc hci

/-! ### list / array helpers -/
theorem get!_map {α β : Type} [Inhabited α] [Inhabited β] (g : α → β) (l : List α) (j : Nat)
    (h : j < l.length) : (l.map g)[j]! = g l[j]! := by
  rw [getElem!_pos (l.map g) j (by simpa using h), getElem!_pos l j h]; simp

theorem get!_mem {α : Type} [Inhabited α] (l : List α) (j : Nat) (h : j < l.length) : l[j]! ∈ l := by
  rw [getElem!_pos l j h]; exact List.getElem_mem h

theorem mem_get! {α : Type} [Inhabited α] {l : List α} {c : α} (h : c ∈ l) :
    ∃ j, j < l.length ∧ l[j]! = c := by
  obtain ⟨j, hj, e⟩ := List.mem_iff_getElem.1 h
  exact ⟨j, hj, by rw [getElem!_pos l j hj]; exact e⟩

theorem scatter_size {α : Type} (a : Array α) (p : List Nat) (v : List α) :
    (scatter a p v).size = a.size := by
  unfold scatter
  generalize p.zip v = q
  induction q generalizing a with
  | nil => rfl
  | cons x q ih => simp [List.foldl_cons, ih]

theorem scatter_cons {α : Type} (a : Array α) (c : Nat) (p : List Nat) (x : α) (v : List α) :
    scatter a (c :: p) (x :: v) = scatter (a.setIfInBounds c x) p v := by
  simp [scatter]

theorem scatter_not_mem {α : Type} [Inhabited α] (a : Array α) (p : List Nat) (v : List α) (c : Nat)
    (h : c ∉ p) : (scatter a p v)[c]! = a[c]! := by
  induction p generalizing a v with
  | nil => simp [scatter]
  | cons d p ih =>
    cases v with
    | nil => simp [scatter]
    | cons x v =>
      rw [scatter_cons, ih _ _ (fun hc => h (by simp [hc])), get!_setIfInBounds]
      have : ¬ d = c := fun e => h (by simp [e])
      simp [this]

theorem scatter_get {α : Type} [Inhabited α] (a : Array α) (p : List Nat) (v : List α)
    (hnd : p.Nodup) (hb : ∀ c ∈ p, c < a.size) (j : Nat) (hj : j < p.length) (hjv : j < v.length) :
    (scatter a p v)[p[j]!]! = v[j]! := by
  induction p generalizing a v j with
  | nil => simp at hj
  | cons d p ih =>
    cases v with
    | nil => simp at hjv
    | cons x v =>
      rw [scatter_cons]
      have hnd' := List.nodup_cons.1 hnd
      cases j with
      | zero =>
        simp only [List.getElem!_cons_zero]
        rw [scatter_not_mem _ _ _ _ hnd'.1, get!_setIfInBounds]
        simp [hb d (by simp)]
      | succ j =>
        simp only [List.getElem!_cons_succ]
        exact ih _ _ hnd'.2 (fun c hc => by simpa using hb c (by simp [hc])) j
          (by simpa using hj) (by simpa using hjv)

theorem markAll_size (m : Array Bool) (p : List Nat) : (markAll m p).size = m.size := by
  unfold markAll
  induction p generalizing m with
  | nil => rfl
  | cons x q ih => simp [List.foldl_cons, ih]

theorem markAll_get (m : Array Bool) (p : List Nat) (c : Nat) :
    (markAll m p)[c]! = (m[c]! || (decide (c ∈ p) && decide (c < m.size))) := by
  induction p generalizing m with
  | nil => simp [markAll]
  | cons d p ih =>
    have : markAll m (d :: p) = markAll (m.setIfInBounds d true) p := by simp [markAll]
    rw [this, ih, get!_setIfInBounds]
    by_cases hdc : d = c
    · subst hdc
      by_cases hsz : d < m.size <;> simp [hsz]
    · have hcd : ¬ c = d := fun e => hdc e.symm
      simp [hdc, hcd]

theorem replicate_get! (n : Nat) (c : Nat) : (Array.replicate n false)[c]! = false := by
  by_cases h : c < n
  · simp [h]
  · simp [h]

/-! ### the trace -/

/-- what `adjust_elevation` needs to know about a streamline `p` started at `i` -/
structure PathOK (ds : Array Nat) (mask : Array Bool) (S : List Nat) (i : Nat) (p : List Nat) : Prop where
  pos : 0 < p.length
  head : p[0]! = i
  link : ∀ j, j + 1 < p.length → mask[p[j]!]! = false ∧ ds[p[j]!]! ≠ p[j]! ∧ p[j+1]! = ds[p[j]!]!
  last : mask[p[p.length - 1]!]! = true ∨ ds[p[p.length - 1]!]! = p[p.length - 1]!
  nodup : p.Nodup
  sub : ∀ c ∈ p, c ∈ S

theorem trace_ok (ds : Array Nat) (mask : Array Bool) (S : List Nat) (ht : Nat → Nat)
    (hmem : ∀ c ∈ S, ds[c]! ∈ S) (hbd : ∀ c ∈ S, c < ds.size)
    (hht : ∀ c ∈ S, ds[c]! ≠ c → ht ds[c]! < ht c) :
    ∀ fuel i, i ∈ S → ht i ≤ fuel →
      PathOK ds mask S i (traceMask ds mask fuel i) ∧ ∀ c ∈ traceMask ds mask fuel i, ht c ≤ ht i := by
  intro fuel
  induction fuel with
  | zero =>
    intro i hi hf
    have hp : ds[i]! = i := by
      apply Classical.byContradiction; intro hne
      have := hht i hi hne; omega
    simp only [traceMask]
    exact ⟨⟨by simp, by simp, fun j hj => by simp at hj, Or.inr (by simpa using hp), by simp,
      fun c hc => by simp at hc; exact hc ▸ hi⟩, fun c hc => by simp at hc; simp [hc]⟩
  | succ fuel ih =>
    intro i hi hf
    have single : PathOK ds mask S i [i] → PathOK ds mask S i [i] ∧ ∀ c ∈ [i], ht c ≤ ht i :=
      fun h => ⟨h, fun c hc => by simp at hc; simp [hc]⟩
    unfold traceMask
    by_cases hm : mask[i]! = true
    · simp only [hm, if_true]
      exact single ⟨by simp, by simp, fun j hj => by simp at hj, Or.inl (by simpa using hm), by simp,
        fun c hc => by simp at hc; exact hc ▸ hi⟩
    · simp only [hm, Bool.false_eq_true, if_false]
      have hdsz : ds[i]! ≠ ds.size := fun e => by have := hbd _ (hmem i hi); omega
      by_cases hp : ds[i]! = i
      · simp only [hp, true_or, if_true]
        exact single ⟨by simp, by simp, fun j hj => by simp at hj, Or.inr (by simpa using hp), by simp,
          fun c hc => by simp at hc; exact hc ▸ hi⟩
      · simp only [hp, hdsz, or_self, if_false]
        have hlt := hht i hi hp
        obtain ⟨ok, hle⟩ := ih ds[i]! (hmem i hi) (by omega)
        obtain ⟨rest, hrest⟩ : ∃ r, r = traceMask ds mask fuel ds[i]! := ⟨_, rfl⟩
        rw [← hrest] at ok hle ⊢
        have hmf : mask[i]! = false := by simpa using hm
        refine ⟨⟨by simp, by simp, ?_, ?_, ?_, ?_⟩, ?_⟩
        · intro j hj
          cases j with
          | zero =>
            simp only [List.getElem!_cons_zero, List.getElem!_cons_succ, Nat.zero_add]
            exact ⟨hmf, hp, ok.head⟩
          | succ j =>
            simp only [List.getElem!_cons_succ]
            exact ok.link j (by simpa using hj)
        · have hpos := ok.pos
          have : (i :: rest).length - 1 = (rest.length - 1) + 1 := by simp; omega
          rw [this]; simp only [List.getElem!_cons_succ]; exact ok.last
        · refine List.nodup_cons.2 ⟨fun hin => ?_, ok.nodup⟩
          have := hle i hin; omega
        · intro c hc
          simp only [List.mem_cons] at hc
          rcases hc with hc | hc
          · exact hc ▸ hi
          · exact ok.sub c hc
        · intro c hc
          simp only [List.mem_cons] at hc
          rcases hc with hc | hc
          · simp [hc]
          · have := hle c hc; omega

/-! ### hypotheses on the streamline fixer (the components of `Fix1D`) -/
def LenKept (f : List Int → List Int) : Prop := ∀ v, (f v).length = v.length
def MonoOut (f : List Int → List Int) : Prop := ∀ v j, j + 1 < v.length → (f v)[j+1]! ≤ (f v)[j]!
def LastKept (f : List Int → List Int) : Prop := ∀ v, 0 < v.length → (f v)[v.length - 1]! = v[v.length - 1]!
def IdOnNonInc (f : List Int → List Int) : Prop :=
  ∀ v, (∀ j, j + 1 < v.length → v[j+1]! ≤ v[j]!) → f v = v
def RangeKept (f : List Int → List Int) : Prop :=
  ∀ v lo hi, (∀ x ∈ v, lo ≤ x ∧ x ≤ hi) → ∀ x ∈ f v, lo ≤ x ∧ x ≤ hi

/-! ### the loop invariant -/
structure AInv (ds : Array Nat) (S : List Nat) (elev0 : Array Int) (st : Array Int × Array Bool) : Prop where
  sz1 : st.1.size = elev0.size
  sz2 : st.2.size = elev0.size
  msub : ∀ c : Nat, st.2[c]! = true → c ∈ S
  closed : ∀ c : Nat, st.2[c]! = true → ds[c]! = c ∨ st.2[ds[c]!]! = true
  mono : ∀ c : Nat, st.2[c]! = true → st.1[ds[c]!]! ≤ st.1[c]!
  keep : ∀ c : Nat, st.2[c]! = false → st.1[c]! = elev0[c]!

section step
variable (f : List Int → List Int) (ds : Array Nat) (S : List Nat) (elev0 : Array Int) (ht : Nat → Nat)
  (hmem : ∀ c ∈ S, ds[c]! ∈ S) (hbd : ∀ c ∈ S, c < ds.size)
  (hht : ∀ c ∈ S, ds[c]! ≠ c → ht ds[c]! < ht c) (hb : ∀ c ∈ S, c < elev0.size)
include hmem hbd hht hb

/-- facts about one executed streamline, shared by all invariants -/
theorem step_facts (hlen : LenKept f) (fuel : Nat) (st : Array Int × Array Bool)
    (hs1 : st.1.size = elev0.size) (hs2 : st.2.size = elev0.size)
    (i : Nat) (hi : i ∈ S) (hfuel : ht i ≤ fuel) (hmi : st.2[i]! = false) :
    ∃ p : List Nat, PathOK ds st.2 S i p ∧
      adjStep f ds fuel st i = (scatter st.1 p (f (p.map (st.1[·]!))), markAll st.2 p) ∧
      (∀ c, c ∉ p → (adjStep f ds fuel st i).1[c]! = st.1[c]!) ∧
      (∀ j, j < p.length → (adjStep f ds fuel st i).1[p[j]!]! = (f (p.map (st.1[·]!)))[j]!) ∧
      (∀ c, (adjStep f ds fuel st i).2[c]! = (st.2[c]! || decide (c ∈ p))) := by
  obtain ⟨ok, _⟩ := trace_ok ds st.2 S ht hmem hbd hht fuel i hi hfuel
  refine ⟨traceMask ds st.2 fuel i, ok, ?_, ?_, ?_, ?_⟩
  · simp [adjStep, hmi]
  · intro c hc; simp only [adjStep, hmi, Bool.false_eq_true, if_false]; exact scatter_not_mem _ _ _ _ hc
  · intro j hj
    simp only [adjStep, hmi, Bool.false_eq_true, if_false]
    exact scatter_get _ _ _ ok.nodup (fun c hc => by rw [hs1]; exact hb c (ok.sub c hc)) j hj
      (by rw [hlen]; simpa using hj)
  · intro c
    simp only [adjStep, hmi, Bool.false_eq_true, if_false]
    rw [markAll_get]
    by_cases hc : c ∈ traceMask ds st.2 fuel i
    · have : c < st.2.size := by rw [hs2]; exact hb c (ok.sub c hc)
      simp [hc, this]
    · simp [hc]

theorem step_inv (hlen : LenKept f) (hmono : MonoOut f) (hlast : LastKept f) (fuel : Nat)
    (st : Array Int × Array Bool) (hinv : AInv ds S elev0 st) (i : Nat) (hi : i ∈ S) (hfuel : ht i ≤ fuel) :
    AInv ds S elev0 (adjStep f ds fuel st i) ∧ (adjStep f ds fuel st i).2[i]! = true ∧
      ∀ c : Nat, st.2[c]! = true → (adjStep f ds fuel st i).2[c]! = true := by
  by_cases hmi : st.2[i]! = true
  · have : adjStep f ds fuel st i = st := by simp [adjStep, hmi]
    rw [this]; exact ⟨hinv, hmi, fun _ h => h⟩
  have hmi : st.2[i]! = false := by simpa using hmi
  obtain ⟨p, ok, heq, hout, hin, hmk⟩ :=
    step_facts f ds S elev0 ht hmem hbd hht hb hlen fuel st hinv.sz1 hinv.sz2 i hi hfuel hmi
  obtain ⟨st', hst'⟩ : ∃ s, s = adjStep f ds fuel st i := ⟨_, rfl⟩
  rw [← hst'] at heq hout hin hmk ⊢
  obtain ⟨new, hnew⟩ : ∃ v, v = f (p.map (st.1[·]!)) := ⟨_, rfl⟩
  rw [← hnew] at heq hin
  have hlp : (p.map (st.1[·]!)).length = p.length := by simp
  have hpos := ok.pos
  -- the last cell of the streamline keeps its value
  have hlastv : st'.1[p[p.length - 1]!]! = st.1[p[p.length - 1]!]! := by
    rw [hin _ (by omega), hnew]
    have := hlast (p.map (st.1[·]!)) (by omega)
    rw [hlp] at this; rw [this, get!_map _ _ _ (by omega)]
  -- a cell of the streamline is the last one or has its downstream cell on the streamline
  have hcell : ∀ c ∈ p, (c = p[p.length - 1]!) ∨
      (∃ j, j + 1 < p.length ∧ c = p[j]! ∧ st.2[c]! = false ∧ ds[c]! ≠ c ∧ ds[c]! = p[j+1]!) := by
    intro c hc
    obtain ⟨j, hj, e⟩ := mem_get! hc
    by_cases hjl : j + 1 < p.length
    · obtain ⟨l1, l2, l3⟩ := ok.link j hjl
      exact Or.inr ⟨j, hjl, e.symm, e ▸ l1, e ▸ l2, e ▸ l3.symm⟩
    · have : j = p.length - 1 := by omega
      exact Or.inl (by rw [← e, this])
  -- previously masked cells keep their value
  have hold : ∀ c : Nat, st.2[c]! = true → st'.1[c]! = st.1[c]! := by
    intro c hc
    by_cases hcp : c ∈ p
    · rcases hcell c hcp with e | ⟨j, _, _, hf, _⟩
      · rw [e]; exact hlastv
      · rw [hf] at hc; exact absurd hc (by simp)
    · exact hout c hcp
  refine ⟨⟨?_, ?_, ?_, ?_, ?_, ?_⟩, ?_, ?_⟩
  · rw [heq]; simp only; rw [scatter_size]; exact hinv.sz1
  · rw [heq]; simp only; rw [markAll_size]; exact hinv.sz2
  · intro c hc
    rw [hmk] at hc
    by_cases hcp : c ∈ p
    · exact ok.sub c hcp
    · simp only [hcp, decide_false, Bool.or_false] at hc; exact hinv.msub c hc
  · -- downstream closed
    intro c hc
    rw [hmk] at hc
    have oldcase : st.2[c]! = true → ds[c]! = c ∨ st'.2[ds[c]!]! = true := by
      intro h
      rcases hinv.closed c h with h1 | h1
      · exact Or.inl h1
      · exact Or.inr (by rw [hmk, h1]; rfl)
    by_cases hold' : st.2[c]! = true
    · exact oldcase hold'
    · have hcp : c ∈ p := by simpa [hold'] using hc
      rcases hcell c hcp with e | ⟨j, hj, _, _, _, hd⟩
      · rcases ok.last with h | h
        · rw [← e] at h; exact absurd h hold'
        · rw [← e] at h; exact Or.inl h
      · right; rw [hmk, hd, decide_eq_true (get!_mem p (j+1) hj), Bool.or_true]
  · -- non-increasing downstream on masked cells
    intro c hc
    rw [hmk] at hc
    by_cases hold' : st.2[c]! = true
    · rw [hold c hold']
      rcases hinv.closed c hold' with h1 | h1
      · rw [h1, hold c hold']; exact Int.le_refl _
      · rw [hold _ h1]; exact hinv.mono c hold'
    · have hcp : c ∈ p := by simpa [hold'] using hc
      rcases hcell c hcp with e | ⟨j, hj, ej, _, _, hd⟩
      · rcases ok.last with h | h
        · rw [← e] at h; exact absurd h hold'
        · rw [← e] at h; rw [h]; exact Int.le_refl _
      · rw [hd, ej, hin _ hj, hin _ (by omega), hnew]
        exact hmono _ j (by rw [hlp]; exact hj)
  · intro c hc
    rw [hmk] at hc
    have h1 : st.2[c]! = false := by
      cases h : st.2[c]! <;> simp [h] at hc ⊢
    have h2 : c ∉ p := by
      intro h; simp [h] at hc
    rw [hout c h2]; exact hinv.keep c h1
  · rw [hmk]
    have : i ∈ p := by have := get!_mem p 0 hpos; rwa [ok.head] at this
    simp [this]
  · intro c hc; rw [hmk, hc]; rfl

end step


/-! ### folding the step over the cell order -/

theorem adjStep_sizes (f : List Int → List Int) (ds : Array Nat) (fuel : Nat) (st : Array Int × Array Bool)
    (i : Nat) : (adjStep f ds fuel st i).1.size = st.1.size ∧ (adjStep f ds fuel st i).2.size = st.2.size := by
  unfold adjStep
  split
  · exact ⟨rfl, rfl⟩
  · exact ⟨scatter_size _ _ _, markAll_size _ _⟩

theorem fold_pres {σ : Type} (P : σ → Prop) (step : σ → Nat → σ) (S : List Nat) (init : σ) (hinit : P init)
    (hstep : ∀ st i, i ∈ S → P st → P (step st i)) :
    ∀ l : List Nat, (∀ c ∈ l, c ∈ S) → P (l.foldr (fun i st => step st i) init) := by
  intro l
  induction l with
  | nil => intro _; exact hinit
  | cons i l ih =>
    intro hl
    simp only [List.foldr_cons]
    exact hstep _ i (hl i (by simp)) (ih (fun c hc => hl c (by simp [hc])))

theorem array_ext! {a b : Array Int} (hsz : a.size = b.size) (h : ∀ c : Nat, a[c]! = b[c]!) : a = b := by
  apply Array.ext hsz
  intro i h1 h2
  have := h i
  rwa [getElem!_pos a i h1, getElem!_pos b i h2] at this

theorem init_inv (ds : Array Nat) (S : List Nat) (elev0 : Array Int) :
    AInv ds S elev0 (elev0, Array.replicate elev0.size false) :=
  ⟨rfl, by simp, fun c h => by simp [replicate_get!] at h, fun c h => by simp [replicate_get!] at h,
    fun c h => by simp [replicate_get!] at h, fun c _ => rfl⟩

section fold
variable (f : List Int → List Int) (ds : Array Nat) (S : List Nat) (elev0 : Array Int) (ht : Nat → Nat)
  (hmem : ∀ c ∈ S, ds[c]! ∈ S) (hbd : ∀ c ∈ S, c < ds.size)
  (hht : ∀ c ∈ S, ds[c]! ≠ c → ht ds[c]! < ht c) (hb : ∀ c ∈ S, c < elev0.size)
  (fuel : Nat) (hfuel : ∀ c ∈ S, ht c ≤ fuel)
include hmem hbd hht hb hfuel

theorem fold_inv (hlen : LenKept f) (hmono : MonoOut f) (hlast : LastKept f) :
    ∀ l : List Nat, (∀ c ∈ l, c ∈ S) →
      AInv ds S elev0 (l.foldr (fun i st => adjStep f ds fuel st i) (elev0, Array.replicate elev0.size false)) ∧
      ∀ c ∈ l, (l.foldr (fun i st => adjStep f ds fuel st i) (elev0, Array.replicate elev0.size false)).2[c]! = true := by
  intro l
  induction l with
  | nil => intro _; exact ⟨init_inv ds S elev0, fun c hc => by simp at hc⟩
  | cons i l ih =>
    intro hl
    obtain ⟨h1, h2⟩ := ih (fun c hc => hl c (by simp [hc]))
    simp only [List.foldr_cons]
    obtain ⟨g1, g2, g3⟩ := step_inv f ds S elev0 ht hmem hbd hht hb hlen hmono hlast fuel _ h1 i
      (hl i (by simp)) (hfuel i (hl i (by simp)))
    refine ⟨g1, fun c hc => ?_⟩
    simp only [List.mem_cons] at hc
    rcases hc with hc | hc
    · rw [hc]; exact g2
    · exact g3 c (h2 c hc)

/-- conforming input: every step rewrites the values it read -/
theorem fold_fix (hlen : LenKept f) (hid : IdOnNonInc f)
    (hconf : ∀ c ∈ S, elev0[ds[c]!]! ≤ elev0[c]!) :
    ∀ l : List Nat, (∀ c ∈ l, c ∈ S) →
      (l.foldr (fun i st => adjStep f ds fuel st i) (elev0, Array.replicate elev0.size false)).1 = elev0 := by
  intro l hl
  have key := fold_pres
    (fun st : Array Int × Array Bool => st.1.size = elev0.size ∧ st.2.size = elev0.size ∧ ∀ c : Nat, st.1[c]! = elev0[c]!)
    (fun st i => adjStep f ds fuel st i) S (elev0, Array.replicate elev0.size false)
    ⟨rfl, by simp, fun _ => rfl⟩ ?_ l hl
  · exact array_ext! key.1 key.2.2
  · intro st i hi ⟨s1, s2, heq⟩
    have hsz := adjStep_sizes f ds fuel st i
    refine ⟨by rw [hsz.1, s1], by rw [hsz.2, s2], ?_⟩
    by_cases hmi : st.2[i]! = true
    · have : adjStep f ds fuel st i = st := by simp [adjStep, hmi]
      rw [this]; exact heq
    have hmi : st.2[i]! = false := by simpa using hmi
    obtain ⟨p, ok, _, hout, hin, _⟩ :=
      step_facts f ds S elev0 ht hmem hbd hht hb hlen fuel st s1 s2 i hi (hfuel i hi) hmi
    have hni : ∀ j, j + 1 < (p.map (st.1[·]!)).length →
        (p.map (st.1[·]!))[j+1]! ≤ (p.map (st.1[·]!))[j]! := by
      intro j hj
      have hj' : j + 1 < p.length := by simpa using hj
      rw [get!_map _ _ _ hj', get!_map _ _ _ (by omega), heq, heq, (ok.link j hj').2.2]
      exact hconf _ (ok.sub _ (get!_mem p j (by omega)))
    rw [hid _ hni] at hin
    intro c
    by_cases hcp : c ∈ p
    · obtain ⟨j, hj, e⟩ := mem_get! hcp
      rw [← e, hin j hj, get!_map _ _ _ hj, heq]
    · rw [hout c hcp, heq]

/-- values on the network stay within any interval that contains the input values on the network -/
theorem fold_range (hlen : LenKept f) (hrange : RangeKept f) (lo hi : Int)
    (hin0 : ∀ c ∈ S, lo ≤ elev0[c]! ∧ elev0[c]! ≤ hi) :
    ∀ l : List Nat, (∀ c ∈ l, c ∈ S) → ∀ c ∈ S,
      lo ≤ (l.foldr (fun i st => adjStep f ds fuel st i) (elev0, Array.replicate elev0.size false)).1[c]! ∧
      (l.foldr (fun i st => adjStep f ds fuel st i) (elev0, Array.replicate elev0.size false)).1[c]! ≤ hi := by
  intro l hl
  have key := fold_pres
    (fun st : Array Int × Array Bool => st.1.size = elev0.size ∧ st.2.size = elev0.size ∧
      ∀ c ∈ S, lo ≤ st.1[c]! ∧ st.1[c]! ≤ hi)
    (fun st i => adjStep f ds fuel st i) S (elev0, Array.replicate elev0.size false)
    ⟨rfl, by simp, hin0⟩ ?_ l hl
  · exact key.2.2
  · intro st i hi' ⟨s1, s2, hr⟩
    have hsz := adjStep_sizes f ds fuel st i
    refine ⟨by rw [hsz.1, s1], by rw [hsz.2, s2], ?_⟩
    by_cases hmi : st.2[i]! = true
    · have : adjStep f ds fuel st i = st := by simp [adjStep, hmi]
      rw [this]; exact hr
    have hmi : st.2[i]! = false := by simpa using hmi
    obtain ⟨p, ok, _, hout, hin, _⟩ :=
      step_facts f ds S elev0 ht hmem hbd hht hb hlen fuel st s1 s2 i hi' (hfuel i hi') hmi
    have hvals : ∀ x ∈ p.map (st.1[·]!), lo ≤ x ∧ x ≤ hi := by
      intro x hx
      obtain ⟨c, hc, rfl⟩ := List.mem_map.1 hx
      exact hr c (ok.sub c hc)
    intro c hc
    by_cases hcp : c ∈ p
    · obtain ⟨j, hj, e⟩ := mem_get! hcp
      rw [← e, hin j hj]
      exact hrange _ lo hi hvals _ (get!_mem _ j (by rw [hlen]; simpa using hj))
    · rw [hout c hcp]; exact hr c hc

/-- cells outside the network are never written -/
theorem fold_outside (hlen : LenKept f) :
    ∀ l : List Nat, (∀ c ∈ l, c ∈ S) → ∀ c, c ∉ S →
      (l.foldr (fun i st => adjStep f ds fuel st i) (elev0, Array.replicate elev0.size false)).1[c]! = elev0[c]! := by
  intro l hl
  have key := fold_pres
    (fun st : Array Int × Array Bool => st.1.size = elev0.size ∧ st.2.size = elev0.size ∧
      ∀ c : Nat, c ∉ S → st.1[c]! = elev0[c]!)
    (fun st i => adjStep f ds fuel st i) S (elev0, Array.replicate elev0.size false)
    ⟨rfl, by simp, fun _ _ => rfl⟩ ?_ l hl
  · exact key.2.2
  · intro st i hi' ⟨s1, s2, hr⟩
    have hsz := adjStep_sizes f ds fuel st i
    refine ⟨by rw [hsz.1, s1], by rw [hsz.2, s2], ?_⟩
    by_cases hmi : st.2[i]! = true
    · have : adjStep f ds fuel st i = st := by simp [adjStep, hmi]
      rw [this]; exact hr
    have hmi : st.2[i]! = false := by simpa using hmi
    obtain ⟨p, ok, _, hout, _, _⟩ :=
      step_facts f ds S elev0 ht hmem hbd hht hb hlen fuel st s1 s2 i hi' (hfuel i hi') hmi
    intro c hc
    rw [hout c (fun h => hc (ok.sub c h))]; exact hr c hc

end fold

end Pf.C15
