import PfVerif.Proofs.C06Once
/-! `max_depth >= 0`: **the too-deep cells and the outlets keep their input elevation** (they are
never filled, although they may be re-opened and visited again). Second invariant, carried along with
`OnceMid`: a *pinned* cell (outlet, or a cell that had its too-deep event) only has heap entries at its
own elevation, and whenever it is re-opened it is covered by a heap entry (or the current pop) at or
below its own elevation, so every later visit has `dz <= 0`. Core Lean only. -/
namespace Pf.C06
open Pf

variable {G : Grid} {conn : Nat} {elev : Array Int} {nod : Array Bool} {md : Int}

/-- outlet, or had a too-deep event -/
def Pin (seed : Array Bool) (s : StD) (c : Nat) : Prop := seed[c]! = true ∨ 1 ≤ s.evc[c]!

structure PinBase (G : Grid) (conn : Nat) (elev : Array Int) (seed : Array Bool)
    (i0 : Nat) (os : List (Int × Int)) (s : StD) : Prop where
  entT : ∀ e, e ∈ s.q → s.queued[e.idx]! = true
  untouched : ∀ c, c < G.n → s.queued[c]! = false → s.f[c]! = elev[c]!
  seedQ : ∀ c, c < G.n → seed[c]! = true → s.queued[c]! = true
  pinF : ∀ c, c < G.n → Pin seed s c → s.f[c]! = elev[c]!
  pinE : ∀ e, e ∈ s.q → Pin seed s e.idx → e.z ≤ elev[e.idx]!
  pinCover : ∀ c, c < G.n → Pin seed s c → s.queued[c]! = true → s.done[c]! = false →
    (∃ e, e ∈ s.q ∧ Win G conn e.idx c ∧ e.z ≤ elev[c]!) ∨ AtO G i0 os c

structure PinMid (G : Grid) (conn : Nat) (elev : Array Int) (seed : Array Bool)
    (z0 : Int) (i0 : Nat) (os : List (Int × Int)) (s : StD) : Prop where
  base : PinBase G conn elev seed i0 os s
  pinNow : ∀ c, c < G.n → Pin seed s c → s.queued[c]! = true → s.done[c]! = false → AtO G i0 os c →
    z0 ≤ elev[c]!
  pinPop : Pin seed s i0 → z0 ≤ elev[i0]!
  popQ : s.queued[i0]! = true

theorem fill_f_facts (z0 : Int) (s : StD) (j code : Nat) (hs : SizedD G s) (hj : j < G.n) :
    let s' := fillStep elev z0 (resetStep elev s j) j code
    (∀ c, c ≠ j → s'.f[c]! = s.f[c]!) ∧
    (z0 - elev[j]! ≤ 0 → s'.f[j]! = s.f[j]! ∨ s'.f[j]! = elev[j]!) := by
  intro s'
  have hfs : s.f.size = G.n := hs.2.2.1
  have hr : (∀ c, c ≠ j → (resetStep elev s j).f[c]! = s.f[c]!) ∧
      ((resetStep elev s j).f[j]! = s.f[j]! ∨ (resetStep elev s j).f[j]! = elev[j]!) := by
    unfold resetStep
    split
    · exact ⟨fun c hc => get_set_ne _ _ _ _ (fun h => hc h.symm), Or.inr (get_set_self _ _ _ (by omega))⟩
    · exact ⟨fun _ _ => rfl, Or.inl rfl⟩
  refine ⟨fun c hc => ?_, fun hz => ?_⟩
  · simp only [s', fillStep]
    split
    · rw [get_set_ne _ _ _ _ (fun h => hc h.symm)]; exact hr.1 c hc
    · exact hr.1 c hc
  · simp only [s', fillStep]
    have : ¬ (z0 - elev[j]! > 0) := by omega
    simp only [this, decide_false, Bool.false_eq_true, if_false]
    exact hr.2

theorem pinMid_skip {seed : Array Bool} {z0 : Int} {i0 : Nat} {o : Int × Int} {os : List (Int × Int)} {s : StD}
    (P : PinMid G conn elev seed z0 i0 (o :: os) s)
    (h : shift G i0 o.1 o.2 = none ∨ ∃ j, shift G i0 o.1 o.2 = some j ∧ s.done[j]! = true) :
    PinMid G conn elev seed z0 i0 os s := by
  have drop1 : ∀ c : Nat, s.done[c]! = false → AtO G i0 (o :: os) c → AtO G i0 os c := by
    intro c hd hat
    apply atO_of_cons hat
    rcases h with h | ⟨j, hj, hdj⟩
    · rw [h]; simp
    · rw [hj]; intro he; injection he with he; subst he; rw [hdj] at hd; cases hd
  have B := P.base
  exact
    { base :=
        { entT := B.entT, untouched := B.untouched, seedQ := B.seedQ, pinF := B.pinF, pinE := B.pinE
          pinCover := fun c hc hp hq hd => by
            rcases B.pinCover c hc hp hq hd with h1 | h2
            · exact Or.inl h1
            · exact Or.inr (drop1 c hd h2) }
      pinNow := fun c hc hp hq hd hat => P.pinNow c hc hp hq hd (atO_tail hat)
      pinPop := P.pinPop
      popQ := P.popQ }

theorem pinMid_deep {seed : Array Bool} {z0 : Int} {i0 : Nat} {o : Int × Int} {os : List (Int × Int)}
    {s : StD} {j : Nat} (hs : SizedD G s) (hnd : o ∉ os)
    (I : OnceMid G conn elev nod md z0 i0 (o :: os) s) (P : PinMid G conn elev seed z0 i0 (o :: os) s)
    (hsh : shift G i0 o.1 o.2 = some j) (hd : s.done[j]! = false)
    (ht : tooDeep md (z0 - elev[j]!) = true) :
    PinMid G conn elev seed z0 i0 os (deepStep G conn elev nod s j) := by
  have B := I.base
  have Q := P.base
  have hj : j < G.n := (shift_spec.1 hsh).1
  have hnat : ¬ AtO G i0 os j := not_atO_head hnd hsh
  have hnj : nod[j]! = false := by
    cases hn : nod[j]! with
    | false => rfl
    | true => have := B.nodDone j hj hn; rw [hd] at this; cases this
  have hTj : s.queued[j]! = false := (onceMid_deep hs hnd I hsh hd ht).1
  have hlow : elev[j]! < z0 := by
    unfold tooDeep at ht
    simp only [Bool.and_eq_true, decide_eq_true_eq] at ht
    omega
  have ff : (deepStep G conn elev nod s j).f = s.f := rfl
  obtain ⟨fq, fqu, fdn, _, fevc, _, _, _⟩ := deep_facts (conn := conn) (elev := elev) (nod := nod) s j hs hj
  generalize deepStep G conn elev nod s j = s' at *
  have qmono : ∀ x : Nat, s.queued[x]! = true → s'.queued[x]! = true := by
    intro x hx; rw [fqu]; split
    · rfl
    · exact hx
  have qold : ∀ x : Nat, x ≠ j → s'.queued[x]! = s.queued[x]! := by
    intro x hx; rw [fqu, if_neg hx]
  have qj : s'.queued[j]! = true := by rw [fqu, if_pos rfl]
  have newE : (⟨elev[j]!, 0, j⟩ : HE) ∈ s'.q := (fq _).2 (Or.inl rfl)
  have oldE : ∀ e, e ∈ s.q → e ∈ s'.q := fun e he => (fq e).2 (Or.inr he)
  have dropj : ∀ x : Nat, x ≠ j → AtO G i0 (o :: os) x → AtO G i0 os x := by
    intro x hx hat
    apply atO_of_cons hat
    rw [hsh]; intro he; injection he with he; exact hx he.symm
  have pinOld : ∀ c : Nat, c ≠ j → Pin seed s' c → Pin seed s c := by
    intro c hc hp
    unfold Pin at *
    rw [fevc, if_neg (fun h => hc h.1)] at hp
    exact hp
  have hi0j : i0 ≠ j := fun h => by have := P.popQ; rw [h, hTj] at this; cases this
  have reop : ∀ c : Nat, c < G.n → c ≠ j → s.queued[c]! = true → s.done[c]! = true → s'.done[c]! = false →
      Win G conn j c ∧ ((∃ e, e ∈ s.q ∧ e.idx = c) ∨ c = i0) := by
    intro c hc hcj hqc hdc hdc'
    rcases (fdn c).1 hdc' with h | ⟨hwin, _⟩
    · rw [hdc] at h; cases h
    · refine ⟨hwin, ?_⟩
      rcases B.popped c hc hqc with h1 | h2 | ⟨h3, _⟩
      · have := h1 j (win_symm hj hwin) hnj
        rw [hTj] at this; cases this
      · exact Or.inl h2
      · exact Or.inr h3
  exact
    { base :=
        { entT := fun e he => by
            rcases (fq e).1 he with rfl | he
            · exact qj
            · exact qmono _ (Q.entT e he)
          untouched := fun c hc hq => by
            have hcj : c ≠ j := fun h => by rw [h, qj] at hq; cases hq
            rw [qold c hcj] at hq
            rw [ff]; exact Q.untouched c hc hq
          seedQ := fun c hc hsd => qmono c (Q.seedQ c hc hsd)
          pinF := fun c hc hp => by
            rw [ff]
            by_cases hcj : c = j
            · rw [hcj]; exact Q.untouched j hj hTj
            · exact Q.pinF c hc (pinOld c hcj hp)
          pinE := fun e he hp => by
            rcases (fq e).1 he with rfl | he
            · exact Int.le_refl _
            · have hne : e.idx ≠ j := fun h => by have := Q.entT e he; rw [h, hTj] at this; cases this
              exact Q.pinE e he (pinOld _ hne hp)
          pinCover := fun c hc hp hq hdc' => by
            by_cases hcj : c = j
            · subst hcj
              exact Or.inl ⟨_, newE, win_self hc, Int.le_refl _⟩
            · rw [qold c hcj] at hq
              have hp := pinOld c hcj hp
              cases hdc : s.done[c]! with
              | false =>
                rcases Q.pinCover c hc hp hq hdc with ⟨e, he, h1, h2⟩ | h
                · exact Or.inl ⟨e, oldE e he, h1, h2⟩
                · exact Or.inr (dropj c hcj h)
              | true =>
                obtain ⟨hwin, hcase⟩ := reop c hc hcj hq hdc hdc'
                rcases hcase with ⟨e, he, hi⟩ | hi0
                · refine Or.inl ⟨e, oldE e he, by rw [hi]; exact win_self hc, ?_⟩
                  have := Q.pinE e he (by rw [hi]; exact hp)
                  rw [hi] at this; exact this
                · by_cases hat : AtO G i0 os c
                  · exact Or.inr hat
                  · refine Or.inl ⟨_, newE, hwin, ?_⟩
                    have := P.pinPop (hi0 ▸ hp)
                    show elev[j]! ≤ elev[c]!
                    rw [hi0]; omega }
      pinNow := fun c hc hp hq hdc' hat => by
        have hcj : c ≠ j := fun h => hnat (h ▸ hat)
        rw [qold c hcj] at hq
        have hp := pinOld c hcj hp
        cases hdc : s.done[c]! with
        | false => exact P.pinNow c hc hp hq hdc (atO_tail hat)
        | true =>
          obtain ⟨_, hcase⟩ := reop c hc hcj hq hdc hdc'
          rcases hcase with ⟨e, he, hi⟩ | hi0
          · rcases I.lvl e he with h1 | ⟨h2, _⟩
            · have := Q.pinE e he (by rw [hi]; exact hp)
              rw [hi] at this
              omega
            · rw [hi, hdc] at h2; cases h2
          · rw [hi0]; exact P.pinPop (hi0 ▸ hp)
      pinPop := fun hp => P.pinPop (pinOld i0 hi0j hp)
      popQ := qmono i0 P.popQ }

theorem pinMid_fill {seed : Array Bool} {z0 : Int} {i0 : Nat} {o : Int × Int} {os : List (Int × Int)}
    {s : StD} {j : Nat} (code : Nat) (hs : SizedD G s)
    (I : OnceMid G conn elev nod md z0 i0 (o :: os) s) (P : PinMid G conn elev seed z0 i0 (o :: os) s)
    (hsh : shift G i0 o.1 o.2 = some j) (hd : s.done[j]! = false) :
    PinMid G conn elev seed z0 i0 os (fillStep elev z0 (resetStep elev s j) j code) := by
  have B := I.base
  have Q := P.base
  have hj : j < G.n := (shift_spec.1 hsh).1
  have hhead : AtO G i0 (o :: os) j := ⟨o, List.mem_cons_self, hsh⟩
  -- a pinned cell is touched, and is visited at or below its own elevation
  have hpinQ : Pin seed s j → s.queued[j]! = true := by
    intro hp
    cases hq : s.queued[j]! with
    | true => rfl
    | false =>
      rcases hp with hp | hp
      · have := Q.seedQ j hj hp; rw [hq] at this; cases this
      · have := B.evc0 j hj hq; omega
  have hpinZ : Pin seed s j → z0 ≤ elev[j]! := fun hp => P.pinNow j hj hp (hpinQ hp) hd hhead
  obtain ⟨fq1, fq2, _, fqu, fdn, _, fevc, _⟩ := fill_facts (elev := elev) z0 s j code hs hj
  obtain ⟨ff1, ff2⟩ := fill_f_facts (elev := elev) z0 s j code hs hj
  generalize fillStep elev z0 (resetStep elev s j) j code = s' at *
  have qmono : ∀ x : Nat, s.queued[x]! = true → s'.queued[x]! = true := by
    intro x hx; rw [fqu]; split
    · rfl
    · exact hx
  have qold : ∀ x : Nat, x ≠ j → s'.queued[x]! = s.queued[x]! := by
    intro x hx; rw [fqu, if_neg hx]
  have qj : s'.queued[j]! = true := by rw [fqu, if_pos rfl]
  have dj : s'.done[j]! = true := by rw [fdn, if_pos rfl]
  have dold : ∀ x : Nat, x ≠ j → s'.done[x]! = s.done[x]! := by
    intro x hx; rw [fdn, if_neg hx]
  have dropj : ∀ x : Nat, x ≠ j → AtO G i0 (o :: os) x → AtO G i0 os x := by
    intro x hx hat
    apply atO_of_cons hat
    rw [hsh]; intro he; injection he with he; exact hx he.symm
  have pinEq : ∀ c : Nat, Pin seed s' c ↔ Pin seed s c := by
    intro c; unfold Pin; rw [fevc]
  exact
    { base :=
        { entT := fun e he => by
            rcases fq1 e he with rfl | he
            · exact qj
            · exact qmono _ (Q.entT e he)
          untouched := fun c hc hq => by
            have hcj : c ≠ j := fun h => by rw [h, qj] at hq; cases hq
            rw [qold c hcj] at hq
            rw [ff1 c hcj]; exact Q.untouched c hc hq
          seedQ := fun c hc hsd => qmono c (Q.seedQ c hc hsd)
          pinF := fun c hc hp => by
            have hp := (pinEq c).1 hp
            by_cases hcj : c = j
            · subst hcj
              have := hpinZ hp
              rcases ff2 (by omega) with h | h
              · rw [h]; exact Q.pinF c hc hp
              · exact h
            · rw [ff1 c hcj]; exact Q.pinF c hc hp
          pinE := fun e he hp => by
            rcases fq1 e he with rfl | he
            · have := hpinZ ((pinEq j).1 hp)
              show fillLevel elev z0 j ≤ elev[j]!
              unfold fillLevel; split <;> omega
            · exact Q.pinE e he ((pinEq _).1 hp)
          pinCover := fun c hc hp hq hdc' => by
            have hcj : c ≠ j := fun h => by rw [h, dj] at hdc'; cases hdc'
            rw [qold c hcj] at hq
            rw [dold c hcj] at hdc'
            rcases Q.pinCover c hc ((pinEq c).1 hp) hq hdc' with ⟨e, he, h1, h2⟩ | h
            · exact Or.inl ⟨e, fq2 e he, h1, h2⟩
            · exact Or.inr (dropj c hcj h) }
      pinNow := fun c hc hp hq hdc' hat => by
        have hcj : c ≠ j := fun h => by rw [h, dj] at hdc'; cases hdc'
        rw [qold c hcj] at hq
        rw [dold c hcj] at hdc'
        exact P.pinNow c hc ((pinEq c).1 hp) hq hdc' (atO_tail hat)
      pinPop := fun hp => P.pinPop ((pinEq i0).1 hp)
      popQ := qmono i0 P.popQ }

theorem pinMid_visit {seed : Array Bool} {z0 : Int} {i0 : Nat} {o : Int × Int} {os : List (Int × Int)}
    {s : StD} (hs : SizedD G s) (hnd : o ∉ os)
    (I : OnceMid G conn elev nod md z0 i0 (o :: os) s) (P : PinMid G conn elev seed z0 i0 (o :: os) s) :
    PinMid G conn elev seed z0 i0 os (visitD G conn elev nod md z0 i0 s o) := by
  rcases visitD_cases (G := G) (conn := conn) (elev := elev) (nod := nod) (md := md) z0 i0 s o with
    ⟨heq, h⟩ | ⟨j, hsh, hd, ht, heq⟩ | ⟨j, hsh, hd, _, heq⟩
  · rw [heq]; exact pinMid_skip P h
  · rw [heq]; exact pinMid_deep hs hnd I P hsh hd ht
  · rw [heq]; exact pinMid_fill _ hs I P hsh hd

theorem pinMid_fold {seed : Array Bool} {z0 : Int} {i0 : Nat} (os : List (Int × Int)) (hnd : os.Nodup)
    (s : StD) (hs : SizedD G s) (I : OnceMid G conn elev nod md z0 i0 os s)
    (P : PinMid G conn elev seed z0 i0 os s) :
    PinMid G conn elev seed z0 i0 [] (os.foldl (visitD G conn elev nod md z0 i0) s) := by
  induction os generalizing s with
  | nil => exact P
  | cons o os ih =>
    have h := List.nodup_cons.1 hnd
    exact ih h.2 _ (sizedD_visit s o hs) (onceMid_visit hs h.1 I) (pinMid_visit hs h.1 I P)

theorem pinMid_pop {seed : Array Bool} {i : Nat} {s : StD} {h : HE} {rest : List HE}
    (B : OnceBase G conn elev nod md i [] s) (Q : PinBase G conn elev seed i [] s) (hq : s.q = h :: rest) :
    PinMid G conn elev seed h.z h.idx (offsets conn) { s with q := rest } := by
  have hsort : HSorted (h :: rest) := hq ▸ B.sorted
  have hmem : ∀ e, e ∈ rest → e ∈ s.q := fun e he => by rw [hq]; exact List.mem_cons_of_mem _ he
  have hh : h ∈ s.q := by rw [hq]; exact List.mem_cons_self
  have hge : ∀ e, e ∈ h :: rest → h.z ≤ e.z := by
    intro e he
    have := hsorted_head hsort e he
    rw [not_lt_iff, HE.lt_iff] at this
    omega
  exact
    { base :=
        { entT := fun e he => Q.entT e (hmem e he)
          untouched := Q.untouched, seedQ := Q.seedQ, pinF := Q.pinF
          pinE := fun e he hp => Q.pinE e (hmem e he) hp
          pinCover := fun c hc hp hqc hdc => by
            rcases Q.pinCover c hc hp hqc hdc with ⟨e, he, h1, h2⟩ | h
            · rw [hq] at he
              rcases List.mem_cons.1 he with rfl | he
              · exact Or.inr h1
              · exact Or.inl ⟨e, he, h1, h2⟩
            · exact absurd h atO_nil }
      pinNow := fun c hc hp hqc hdc _ => by
        rcases Q.pinCover c hc hp hqc hdc with ⟨e, he, _, h2⟩ | h
        · rw [hq] at he
          have := hge e he; omega
        · exact absurd h atO_nil
      pinPop := fun hp => Q.pinE h hh hp
      popQ := Q.entT h hh }

theorem pinBase_of_mid {seed : Array Bool} {z0 : Int} {i0 i : Nat} {s : StD}
    (P : PinMid G conn elev seed z0 i0 [] s) : PinBase G conn elev seed i [] s :=
  have Q := P.base
  { entT := Q.entT, untouched := Q.untouched, seedQ := Q.seedQ, pinF := Q.pinF, pinE := Q.pinE
    pinCover := fun c hc hp hqc hdc => by
      rcases Q.pinCover c hc hp hqc hdc with h1 | h
      · exact Or.inl h1
      · exact absurd h atO_nil }

theorem pinBase_loop {seed : Array Bool} (fuel : Nat) (s : StD) (hs : SizedD G s)
    (B : OnceBase G conn elev nod md 0 [] s) (Q : PinBase G conn elev seed 0 [] s) :
    PinBase G conn elev seed 0 [] (fillLoopD G conn elev nod md fuel s) := by
  induction fuel generalizing s with
  | zero => exact Q
  | succ k ih =>
    unfold fillLoopD
    split
    · exact Q
    · rename_i h rest hq
      have hs0 : SizedD G { s with q := rest } := hs
      have I0 := onceMid_pop B hq
      exact ih _ (sizedD_fold _ _ hs0)
        (onceBase_of_mid (onceMid_fold _ (offsets_nodup conn) _ hs0 I0))
        (pinBase_of_mid (pinMid_fold _ (offsets_nodup conn) _ hs0 I0 (pinMid_pop B Q hq)))

theorem pinBase_init {seed : Array Bool} :
    PinBase G conn elev seed 0 [] (initStateD G elev nod seed) :=
  { entT := fun e he => by
      obtain ⟨i, _, hq, rfl⟩ := (mem_initHeap G elev seed e).1 he
      exact hq
    untouched := fun _ _ _ => rfl
    seedQ := fun _ _ h => h
    pinF := fun _ _ _ => rfl
    pinE := fun e he _ => by
      obtain ⟨i, _, _, rfl⟩ := (mem_initHeap G elev seed e).1 he
      exact Int.le_refl _
    pinCover := fun c hc _ hq _ =>
      Or.inl ⟨⟨elev[c]!, 1, c⟩, (mem_initHeap G elev seed _).2 ⟨c, hc, hq, rfl⟩, win_self hc, Int.le_refl _⟩ }

/-- every state of every run: outlets and cells that had their too-deep event are at their input
elevation, and so is every cell that was never queued -/
theorem pin_keep_loop {seed : Array Bool} (fuel : Nat) (hN : nod.size = G.n) (hE : elev.size = G.n)
    (hS : seed.size = G.n) (c : Nat) (hc : c < G.n) :
    let s := fillLoopD G conn elev nod md fuel (initStateD G elev nod seed)
    (seed[c]! = true ∨ 1 ≤ s.evc[c]! ∨ s.queued[c]! = false) → s.f[c]! = elev[c]! := by
  intro s h
  have hs := sizedD_init (elev := elev) hN hE hS
  have Q : PinBase G conn elev seed 0 [] s := pinBase_loop fuel _ hs onceBase_init pinBase_init
  rcases h with h | h | h
  · exact Q.pinF c hc (Or.inl h)
  · exact Q.pinF c hc (Or.inr h)
  · exact Q.untouched c hc h

theorem fillModelDepth_keep {pits : Option (List Nat)} {minMode : Bool} {elvMax : Option Int}
    {f : Array Int} {d8 : Array Nat} {fin : Bool} {ev : Nat} {evc : Array Nat}
    (hN : nod.size = G.n) (hE : elev.size = G.n)
    (h : fillModelDepth G conn elev nod pits minMode elvMax md = .ok (f, d8, fin, ev, evc)) :
    ∃ seed, seedsOfE G conn elev nod pits minMode elvMax = .ok seed ∧
      ∀ c, c < G.n → (seed[c]! = true ∨ 1 ≤ evc[c]!) → f[c]! = elev[c]! := by
  unfold fillModelDepth at h
  split at h
  · cases h
  · rename_i seed hseed
    injection h with h
    simp only [Prod.mk.injEq] at h
    obtain ⟨h1, _, _, _, h5⟩ := h
    refine ⟨seed, hseed, fun c hc hp => ?_⟩
    have := pin_keep_loop (conn := conn) (md := md) (fuelD G) hN hE (seedsOfE_size hseed) c hc
    rw [← h1]
    apply this
    rcases hp with hp | hp
    · exact Or.inl hp
    · exact Or.inr (Or.inl (by rw [h5]; exact hp))

end Pf.C06
