import PfVerif.Proofs.C14_riv
import PfVerif.Proofs.C14Fuel
/-! Helper lemmas for the extension C14_riv (core Lean only): the estuary sweep equals the declarative
oracle `estSpec` the driver evaluates (walk with fuel `ds.size + 1` + brute-force search for a failing
inflowing link). -/
namespace Pf.C14x
open Pf

/-- the walk oracle decides "classified" as long as the fuel reaches the pit -/
theorem estWalk_iff_nz (ds : Array Nat) (cond : Nat → Bool) (init : Array Int) (seq : List Nat)
    (isOutlet : Nat → Bool) (htopo : Topo ds seq) (hb : ∀ i ∈ seq, i < init.size)
    (h01 : ∀ j : Nat, init[j]! = 0 ∨ init[j]! = 1) (hout : ∀ k, isOutlet k = true ↔ init[k]! ≠ 0) :
    ∀ fuel i, i ∈ seq → pitWithin_c14 ds fuel i = true →
      (estWalk ds cond isOutlet fuel i = true ↔ (estSweep ds cond seq init)[i]! ≠ 0) := by
  obtain ⟨_, hnz, _, _⟩ := estInv_sweep ds cond init seq htopo hb h01
  intro fuel
  induction fuel with
  | zero => intro i _ h; simp [pitWithin_c14] at h
  | succ f ih =>
    intro i hi hp
    simp only [pitWithin_c14, Bool.or_eq_true, beq_iff_eq] at hp
    simp only [estWalk, Bool.or_eq_true, Bool.and_eq_true, bne_iff_ne]
    rw [hnz i, hout i]
    by_cases hpit : ds[i]! = i
    · constructor
      · rintro (h | ⟨⟨h, _⟩, _⟩)
        · exact Or.inl h
        · exact absurd hpit h
      · rintro (h | ⟨_, h, _⟩)
        · exact Or.inl h
        · exact absurd hpit h
    · have hp' : pitWithin_c14 ds f ds[i]! = true := by
        rcases hp with h | h
        · exact absurd h hpit
        · exact h
      have ihd := ih ds[i]! (Topo.ds_mem htopo i hi) hp'
      constructor
      · rintro (h | ⟨⟨_, hc⟩, hw⟩)
        · exact Or.inl h
        · exact Or.inr ⟨hi, hpit, ihd.1 hw, hc⟩
      · rintro (h | ⟨_, _, hd, hc⟩)
        · exact Or.inl h
        · exact Or.inr ⟨⟨hpit, hc⟩, ihd.2 hd⟩

/-- a cell of a downstream-first order whose cells are in range is a cell of the network -/
theorem Topo.valid_c14x {ds : Array Nat} {seq : List Nat} (htopo : Topo ds seq)
    (hb : ∀ i ∈ seq, i < ds.size) (c : Nat) (hc : c ∈ seq) : isValid ds c = true := by
  have h1 := hb c hc
  have h2 := hb _ (Topo.ds_mem htopo c hc)
  simp only [isValid, Bool.and_eq_true, decide_eq_true_eq, bne_iff_ne]
  exact ⟨h1, by omega⟩

/-- the brute-force search of `estSpec` finds a failing inflowing link iff the sequence holds one -/
theorem estAny_iff (ds : Array Nat) (cond : Nat → Bool) (seq : List Nat) (htopo : Topo ds seq)
    (hb : ∀ i ∈ seq, i < ds.size) (hcov : ∀ c, isValid ds c = true → c ∈ seq) (i : Nat) :
    ((List.range ds.size).any fun c => isValid ds c && ds[c]! == i && c != i && !cond c) = true ↔
      ∃ c ∈ seq, ds[c]! = i ∧ c ≠ i ∧ cond c = false := by
  simp only [List.any_eq_true, List.mem_range, Bool.and_eq_true, beq_iff_eq, bne_iff_ne,
    Bool.not_eq_true']
  constructor
  · rintro ⟨c, _, ⟨⟨hv, hd⟩, hne⟩, hc⟩
    exact ⟨c, hcov c hv, hd, hne, hc⟩
  · rintro ⟨c, hcs, hd, hne, hc⟩
    exact ⟨c, hb c hcs, ⟨⟨Topo.valid_c14x htopo hb c hcs, hd⟩, hne⟩, hc⟩

/-- **sweep = oracle (generic link test, generic start array).** -/
theorem estSweep_eq_estSpec (ds : Array Nat) (cond : Nat → Bool) (init : Array Int) (seq : List Nat)
    (isOutlet : Nat → Bool) (htopo : Topo ds seq) (hb : ∀ i ∈ seq, i < init.size)
    (hbd : ∀ i ∈ seq, i < ds.size) (h01 : ∀ j : Nat, init[j]! = 0 ∨ init[j]! = 1)
    (hout : ∀ k, isOutlet k = true ↔ init[k]! ≠ 0) (hcov : ∀ c, isValid ds c = true → c ∈ seq) :
    ∀ i ∈ seq, (estSweep ds cond seq init)[i]! = estSpec ds cond isOutlet i := by
  intro i hi
  obtain ⟨_, _, htwo, hrng⟩ := estInv_sweep ds cond init seq htopo hb h01
  have hw := estWalk_iff_nz ds cond init seq isOutlet htopo hb h01 hout (ds.size + 1) i hi
    (htopo.reach_size_c14 hbd i hi)
  have ha := estAny_iff ds cond seq htopo hbd hcov i
  unfold estSpec
  by_cases hwk : estWalk ds cond isOutlet (ds.size + 1) i = true
  · rw [if_pos hwk]
    have hne := hw.1 hwk
    by_cases hany : ((List.range ds.size).any fun c => isValid ds c && ds[c]! == i && c != i && !cond c) = true
    · rw [if_pos hany]
      exact (htwo i).2 ⟨hne, ha.1 hany⟩
    · rw [if_neg hany]
      rcases hrng i with h | h | h
      · exact absurd h hne
      · exact h
      · exact absurd (ha.2 ((htwo i).1 h).2) hany
  · rw [if_neg hwk]
    exact Classical.byContradiction fun h => hwk (hw.2 h)

/-- the outlet test of the driver's oracle is "the start array is non-zero" -/
theorem estInit_outlet (ds : Array Nat) (elevtn : Array Int) (maxElev : Int) (k : Nat) :
    (isPit ds k && decide (elevtn[k]! ≤ maxElev)) = true ↔
      (estInit ds.size (pitIndices ds) elevtn maxElev)[k]! ≠ 0 := by
  rw [estInit_get]
  simp only [isPit, pitIndices, List.mem_filter, List.mem_range, Bool.and_eq_true, decide_eq_true_eq,
    beq_iff_eq]
  constructor
  · rintro ⟨⟨h1, h2⟩, h3⟩
    rw [if_pos ⟨⟨h1, h2⟩, h3, h1⟩]; decide
  · intro h
    split at h
    · rename_i hc; exact ⟨hc.1, hc.2.1⟩
    · exact absurd rfl h

end Pf.C14x
