import PfVerif.Model.C09_ihu
import PfVerif.Core.Sweep
/-! Invariants of the outlet-pixel array through `ihu_relocate_outlets` (C09 extension). Core Lean only. -/
namespace Pf.C09ihu
open Pf

/-! ### generic -/

theorem foldlM_inv {α β : Type} (f : β → α → Option β) (P : β → Prop) (l : List α)
    (h : ∀ b a b', a ∈ l → P b → f b a = some b' → P b') :
    ∀ (b b' : β), P b → l.foldlM f b = some b' → P b' := by
  induction l with
  | nil =>
    intro b b' hb h0
    simp only [List.foldlM_nil] at h0
    cases h0
    exact hb
  | cons a l ih =>
    intro b b' hb h0
    rw [List.foldlM_cons] at h0
    cases hfa : f b a with
    | none => rw [hfa] at h0; cases h0
    | some b1 =>
      rw [hfa] at h0
      exact ih (fun b a b' ha => h b a b' (List.mem_cons_of_mem _ ha)) b1 b'
        (h b a b1 List.mem_cons_self hb hfa) h0

theorem foldl_inv {α β : Type} (f : β → α → β) (P : β → Prop) (l : List α)
    (h : ∀ b a, a ∈ l → P b → P (f b a)) : ∀ b, P b → P (l.foldl f b) := by
  induction l with
  | nil => intro b hb; exact hb
  | cons a l ih =>
    intro b hb
    rw [List.foldl_cons]
    exact ih (fun b a ha => h b a (List.mem_cons_of_mem _ ha)) _ (h b a List.mem_cons_self hb)

/-! ### the relation between a coarse cell and its outlet pixel -/

/-- `p` is a pit or drains into another coarse cell -/
def Exit (e : Env) (p : Nat) : Prop := e.ds[p]! = p ∨ e.cell e.ds[p]! ≠ e.cell p

/-- every entry of the outlet array is acceptable for its cell -/
def OutOK (R : Nat → Nat → Prop) (out : Array Nat) : Prop := ∀ c, c < out.size → R c out[c]!

/-- every saved (cell, old outlet pixel) pair is acceptable -/
def SavedOK (R : Nat → Nat → Prop) (n : Nat) (ed : List (Nat × Nat)) : Prop := ∀ x ∈ ed, x.1 < n → R x.1 x.2

def Inv (R : Nat → Nat → Prop) (n : Nat) (out : Array Nat) (ed : List (Nat × Nat)) : Prop :=
  out.size = n ∧ OutOK R out ∧ SavedOK R n ed

theorem OutOK.set {R : Nat → Nat → Prop} {out : Array Nat} (h : OutOK R out) (c p : Nat)
    (hp : c < out.size → R c p) : OutOK R (out.setIfInBounds c p) := by
  intro c' hc'
  rw [Array.size_setIfInBounds] at hc'
  rw [get!_setIfInBounds]
  split
  · rename_i hh
    obtain ⟨rfl, hlt⟩ := hh
    exact hp hlt
  · exact h c' hc'

theorem Inv.nil {R : Nat → Nat → Prop} {n : Nat} {out : Array Nat} {ed : List (Nat × Nat)}
    (h : Inv R n out ed) : Inv R n out [] :=
  ⟨h.1, h.2.1, fun _ hx => by cases hx⟩

theorem S4.setDs_out (s : S4) (c v : Nat) : (s.setDs c v).out = s.out := by
  unfold S4.setDs; split <;> rfl

theorem S4.setDs_outEd (s : S4) (c v : Nat) : (s.setDs c v).outEd = s.outEd := by
  unfold S4.setDs; split <;> rfl

theorem Inv.setOut {R : Nat → Nat → Prop} {n : Nat} (s : S4) (c p : Nat) (h : Inv R n s.out s.outEd)
    (hp : c < n → R c p) : Inv R n (s.setOut c p).out (s.setOut c p).outEd := by
  unfold S4.setOut
  split
  · refine ⟨by simp [h.1], h.2.1.set c p (fun hc => hp (h.1 ▸ hc)), ?_⟩
    intro x hx hlt
    rcases List.mem_append.mp hx with hx | hx
    · exact h.2.2 x hx hlt
    · simp only [List.mem_singleton] at hx
      subst hx
      exact h.2.1 c (h.1 ▸ hlt)
  · exact h

theorem Inv.unroll {R : Nat → Nat → Prop} {n : Nat} (s : S4) (h : Inv R n s.out s.outEd) :
    Inv R n s.unroll.out s.unroll.outEd := by
  have key : ∀ (ed : List (Nat × Nat)) (out : Array Nat), out.size = n → OutOK R out → SavedOK R n ed →
      (ed.foldl (fun a x => a.setIfInBounds x.1 x.2) out).size = n ∧
        OutOK R (ed.foldl (fun a x => a.setIfInBounds x.1 x.2) out) := by
    intro ed
    induction ed with
    | nil => intro out hs ho _; exact ⟨hs, ho⟩
    | cons x ed ih =>
      intro out hs ho hsv
      rw [List.foldl_cons]
      refine ih _ (by simp [hs]) (ho.set x.1 x.2 (fun hc => hsv x List.mem_cons_self (hs ▸ hc)))
        (fun y hy => hsv y (List.mem_cons_of_mem _ hy))
  have := key s.outEd s.out h.1 h.2.1 h.2.2
  exact ⟨this.1, this.2, h.2.2⟩

/-! ### STEP 1: the trace lists -/

/-- the alternative outlet pixels of the trace are exit pixels, listed with their own coarse cell -/
def TraceOK (e : Env) (cells pixs : List Nat) : Prop := cells = pixs.map e.cell ∧ ∀ p ∈ pixs, Exit e p

theorem relocTrace_ok (e : Env) (cds out : Array Nat) :
    ∀ fuel subidx idx0 idxds0 cells pixs t, relocTrace e cds out fuel subidx idx0 idxds0 cells pixs = some t →
      idx0 = e.cell subidx → TraceOK e cells pixs → TraceOK e t.cells t.pixs := by
  intro fuel
  induction fuel with
  | zero => intro subidx idx0 idxds0 cells pixs t h; simp [relocTrace] at h
  | succ f ih =>
    intro subidx idx0 idxds0 cells pixs t h h0 htr
    simp only [relocTrace] at h
    split at h
    · rename_i hx
      -- at a pit or an (alternative) outlet pixel
      have hexit : Exit e subidx := by
        simp only [Bool.or_eq_true, beq_iff_eq, bne_iff_ne] at hx
        rcases hx with hx | hx
        · exact Or.inl hx
        · exact Or.inr (fun heq => hx (by rw [h0, heq]))
      have htr' : TraceOK e (if (cds[idx0]! != cds.size) = true then cells ++ [idx0] else cells)
          (if (cds[idx0]! != cds.size) = true then pixs ++ [subidx] else pixs) := by
        split
        · refine ⟨by simp [htr.1, h0], ?_⟩
          intro p hp
          rcases List.mem_append.mp hp with hp | hp
          · exact htr.2 p hp
          · simp only [List.mem_singleton] at hp; exact hp ▸ hexit
        · exact htr
      split at h
      · simp only [Option.some.injEq] at h
        subst h
        exact htr'
      · exact ih _ _ _ _ _ _ h rfl htr'
    · rename_i hx
      have h1 : idx0 = e.cell e.ds[subidx]! := by
        simp only [Bool.or_eq_true, beq_iff_eq, bne_iff_ne, not_or, Decidable.not_not] at hx
        exact hx.2
      exact ih _ _ _ _ _ _ h h1 htr

/-! ### STEP 4 -/

theorem tribLoop_inv (e : Env) (R : Nat → Nat → Prop) (n : Nat) (hR : ∀ p, Exit e p → e.cell p < n → R (e.cell p) p) (idx0 sds0 : Nat) :
    ∀ fuel subidx idxds0 path s s', tribLoop e idx0 sds0 fuel subidx idxds0 path s = some s' →
      (idxds0 = idx0 ∨ idxds0 = e.cell subidx) → Inv R n s.out s.outEd → Inv R n s'.out s'.outEd := by
  intro fuel
  induction fuel with
  | zero => intro subidx idxds0 path s s' h; simp [tribLoop] at h
  | succ f ih =>
    intro subidx idxds0 path s s' h h0 hinv
    simp only [tribLoop] at h
    split at h
    · -- at an outlet pixel or a pit
      split at h
      · simp only [Option.some.injEq] at h; subst h; exact hinv
      · split at h
        · simp only [Option.some.injEq] at h; subst h
          rw [S4.setDs_out, S4.setDs_outEd]; exact hinv
        · simp only [Option.some.injEq] at h; subst h; exact hinv
    · split at h
      · rename_i hcond
        split at h
        · cases h
        · split at h
          · -- lateral relocation of the outlet pixel of `idxds0`
            simp only [Option.some.injEq] at h; subst h
            simp only [Bool.and_eq_true, bne_iff_ne, ne_eq] at hcond
            have hne0 : idxds0 ≠ idx0 := hcond.1.1.1.2
            have hcell : idxds0 = e.cell subidx := by
              rcases h0 with h0 | h0
              · exact absurd h0 hne0
              · exact h0
            have hex : Exit e subidx := Or.inr (fun heq => hcond.1.1.1.1 (by rw [hcell, heq]))
            apply Inv.setOut
            · rw [S4.setDs_out, S4.setDs_outEd, S4.setDs_out, S4.setDs_outEd]; exact hinv
            · intro hlt; rw [hcell] at hlt ⊢; exact hR subidx hex hlt
          · exact ih _ _ _ _ _ h (Or.inr rfl) hinv
      · exact ih _ _ _ _ _ h (Or.inr rfl) hinv

theorem getElem!_map_cell (e : Env) (pixs : List Nat) (j : Nat) (hj : j < pixs.length) :
    (pixs.map e.cell)[j]! = e.cell pixs[j]! := by
  simp [hj]

theorem getElem!_mem (l : List Nat) (j : Nat) (hj : j < l.length) : l[j]! ∈ l := by
  simp [hj]

theorem step4Update_inv (e : Env) (R : Nat → Nat → Prop) (n : Nat) (hR : ∀ p, Exit e p → e.cell p < n → R (e.cell p) p)
    (tr : Tribs) (s s' : S4) (idx1 pix1 j : Nat) (ks : List Nat) (hmain : idx1 < n → R idx1 pix1)
    (h : step4Update e tr s idx1 pix1 j ks = some s') (hinv : Inv R n s.out s.outEd) :
    Inv R n s'.out s'.outEd := by
  simp only [step4Update] at h
  split at h
  · cases h
  · rename_i s1 hfold
    have h1 : Inv R n s1.out s1.outEd := by
      refine foldlM_inv _ (fun s => Inv R n s.out s.outEd) _ ?_ _ _ ?_ hfold
      · intro b a b' _ hb hstep
        split at hstep
        · simp only [Option.some.injEq] at hstep; subst hstep; exact hb
        · exact tribLoop_inv e R n hR _ _ _ _ _ _ _ _ hstep (Or.inl rfl) hb
      · apply Inv.setOut
        · rw [S4.setDs_out, S4.setDs_outEd]; exact hinv
        · exact hmain
    split at h
    · simp only [Option.some.injEq] at h; subst h
      exact Inv.unroll { s1 with idx0 := idx1, j0 := j + 1 } h1
    · simp only [Option.some.injEq] at h; subst h; exact h1

theorem step4A_inv (e : Env) (R : Nat → Nat → Prop) (n : Nat) (hR : ∀ p, Exit e p → e.cell p < n → R (e.cell p) p)
    (cells pixs : List Nat) (tr : Tribs) (htr : TraceOK e cells pixs) (j : Nat) (hj : j < pixs.length)
    (s s' : S4) (h : step4A e cells pixs tr s j = some s') (hinv : Inv R n s.out s.outEd) :
    Inv R n s'.out s'.outEd := by
  have hmain : cells[j]! < n → R cells[j]! pixs[j]! := by
    rw [htr.1, getElem!_map_cell e pixs j hj]
    exact hR _ (htr.2 _ (getElem!_mem pixs j hj))
  simp only [step4A] at h
  split at h
  · simp only [Option.some.injEq] at h; subst h; exact hinv
  · split at h
    · simp only [Option.some.injEq] at h; subst h
      exact Inv.unroll { s with idx1 := cells[j]!, nextiter := true } hinv
    · simp only [Option.some.injEq] at h; subst h; exact hinv
    · exact step4Update_inv e R n hR tr { s with idx1 := cells[j]! } s' _ _ j _ hmain h hinv
    · simp only [Option.some.injEq] at h; subst h; exact hinv

theorem step4_inv (e : Env) (R : Nat → Nat → Prop) (n : Nat) (hR : ∀ p, Exit e p → e.cell p < n → R (e.cell p) p) (idx00 : Nat)
    (cells pixs : List Nat) (tr : Tribs) (htr : TraceOK e cells pixs) :
    ∀ fuel s s', step4 e idx00 cells pixs tr fuel s = some s' → Inv R n s.out s.outEd → Inv R n s'.out s'.outEd := by
  intro fuel
  induction fuel with
  | zero => intro s s' h; simp [step4] at h
  | succ f ih =>
    intro s s' h hinv
    simp only [step4] at h
    split at h
    · cases h
    · rename_i s1 hfold
      have h1 : Inv R n s1.out s1.outEd := by
        refine foldlM_inv _ (fun s => Inv R n s.out s.outEd) _ ?_ _ _ ?_ hfold
        · intro b a b' ha hb hstep
          exact step4A_inv e R n hR cells pixs tr htr a (List.mem_range.mp ha) b b' hstep hb
        · exact hinv.nil
      split at h
      · exact ih _ _ h h1
      · simp only [Option.some.injEq] at h; subst h; exact h1

/-- state invariant of the outer loop -/
def RelInv (R : Nat → Nat → Prop) (n : Nat) (st : RelSt) : Prop := st.out.size = n ∧ OutOK R st.out

theorem relocOne_inv (e : Env) (R : Nat → Nat → Prop) (n : Nat) (hR : ∀ p, Exit e p → e.cell p < n → R (e.cell p) p)
    (st st' : RelSt) (idx00 : Nat) (h : relocOne e st idx00 = some st') (hinv : RelInv R n st) : RelInv R n st' := by
  simp only [relocOne] at h
  split at h
  · cases h
  · rename_i t ht
    have htr : TraceOK e t.cells t.pixs :=
      relocTrace_ok e _ _ _ _ _ _ _ _ t ht rfl ⟨rfl, fun _ hp => by cases hp⟩
    split at h
    · simp only [Option.some.injEq] at h; subst h; exact hinv
    · split at h
      · cases h
      · split at h
        · cases h
        · rename_i s hs
          simp only [Option.some.injEq] at h; subst h
          have h1 : Inv R n s.out s.outEd :=
            step4_inv e R n hR idx00 t.cells t.pixs _ htr _ _ _ hs ⟨hinv.1, hinv.2, fun _ hx => by cases hx⟩
          show _ ∧ _
          simp only
          split
          · have h2 := Inv.unroll _ h1
            exact ⟨h2.1, h2.2.1⟩
          · exact ⟨h1.1, h1.2.1⟩

theorem relocateOutlets_inv (e : Env) (R : Nat → Nat → Prop) (fix : List Nat) (cds out : Array Nat) (sorts : Sorts) (r : RelSt)
    (hR : ∀ p, Exit e p → e.cell p < out.size → R (e.cell p) p)
    (h : relocateOutlets e fix cds out sorts = some r) (ho : OutOK R out) :
    r.out.size = out.size ∧ OutOK R r.out := by
  simp only [relocateOutlets] at h
  exact foldlM_inv _ (RelInv R out.size) _
    (fun b a b' _ hb hstep => relocOne_inv e R out.size hR b b' _ hstep hb) _ _ ⟨rfl, ho⟩ h

end Pf.C09ihu
