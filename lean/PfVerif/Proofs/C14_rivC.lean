import PfVerif.Proofs.C14_rivB
/-! Helper lemmas for the extension C14_riv (core Lean only): the padded-raster oracle of
`dem.slope` computes the same two numerators as the model. -/
namespace Pf.C14x
open Pf

theorem padded_get (nrow ncol : Nat) (elev : Array Int) (nd : Int) (R C : Nat) (hR : R < nrow + 2)
    (hC : C < ncol + 2) :
    (padded nrow ncol elev nd)[R * (ncol + 2) + C]! =
      if 1 ≤ R ∧ R ≤ nrow ∧ 1 ≤ C ∧ C ≤ ncol then elev[(R - 1) * ncol + (C - 1)]! else nd := by
  have hk : R * (ncol + 2) + C < (nrow + 2) * (ncol + 2) := idx_lt hR hC
  have hdiv : (R * (ncol + 2) + C) / (ncol + 2) = R := by
    rw [Nat.add_comm, Nat.add_mul_div_right _ _ (by omega), Nat.div_eq_of_lt hC, Nat.zero_add]
  have hmod : (R * (ncol + 2) + C) % (ncol + 2) = C := by
    rw [Nat.add_comm, Nat.add_mul_mod_self_right, Nat.mod_eq_of_lt hC]
  simp only [padded]
  rw [getElem!_pos _ _ (by simpa using hk)]
  simp only [Array.getElem_map, Array.getElem_range, hdiv, hmod]

/-- an entry of the oracle's window (read from the padded raster, nodata replaced by the centre)
is the model's window entry -/
theorem padded_entry (nrow ncol : Nat) (elev : Array Int) (nd : Int) (r c : Nat) (hr : r < nrow)
    (hc : c < ncol) (R C : Nat) (dr dc : Int) (hR : (R : Int) = r + 1 + dr) (hC : (C : Int) = c + 1 + dc)
    (hR2 : R ≤ r + 2) (hC2 : C ≤ c + 2) :
    (if (padded nrow ncol elev nd)[R * (ncol + 2) + C]! = nd
      then (padded nrow ncol elev nd)[(r + 1) * (ncol + 2) + (c + 1)]!
      else (padded nrow ncol elev nd)[R * (ncol + 2) + C]!) = winAt nrow ncol elev nd r c dr dc := by
  rw [padded_get nrow ncol elev nd R C (by omega) (by omega),
      padded_get nrow ncol elev nd (r + 1) (c + 1) (by omega) (by omega)]
  have hctr : (1 ≤ r + 1 ∧ r + 1 ≤ nrow ∧ 1 ≤ c + 1 ∧ c + 1 ≤ ncol) := by omega
  rw [if_pos hctr]
  simp only [Nat.add_sub_cancel]
  by_cases hin : 1 ≤ R ∧ R ≤ nrow ∧ 1 ≤ C ∧ C ≤ ncol
  · have hin' : 0 ≤ (r : Int) + dr ∧ (r : Int) + dr < nrow ∧ 0 ≤ (c : Int) + dc ∧ (c : Int) + dc < ncol := by
      omega
    rw [if_pos hin, winAt_inside _ _ _ _ _ _ _ _ hin']
    have e1 : R - 1 = ((r : Int) + dr).toNat := by omega
    have e2 : C - 1 = ((c : Int) + dc).toNat := by omega
    rw [e1, e2]
    by_cases hv : elev[((r : Int) + dr).toNat * ncol + ((c : Int) + dc).toNat]! = nd
    · simp [hv]
    · simp [hv]
  · have hin' : ¬ (0 ≤ (r : Int) + dr ∧ (r : Int) + dr < nrow ∧ 0 ≤ (c : Int) + dc ∧ (c : Int) + dc < ncol) := by
      omega
    rw [if_neg hin, winAt_outside _ _ _ _ _ _ _ _ hin']
    simp

theorem slopeSpec_eq (nrow ncol : Nat) (elev : Array Int) (nd : Int) (i : Nat) (hi : i < nrow * ncol) :
    slopeSpecGx nrow ncol elev nd i = slopeGx nrow ncol elev nd i ∧
    slopeSpecGy nrow ncol elev nd i = slopeGy nrow ncol elev nd i := by
  obtain ⟨hr, hc, _⟩ := cell_rc hi
  simp only [slopeSpecGx, slopeSpecGy, slopeGx, slopeGy, gradX, gradY, window9, dot9, List.map, List.zip,
    List.zipWith, List.sum, List.foldr]
  generalize i / ncol = r at hr ⊢
  generalize i % ncol = c at hc ⊢
  have E := fun (R C : Nat) (dr dc : Int) h1 h2 h3 h4 =>
    padded_entry nrow ncol elev nd r c hr hc R C dr dc h1 h2 h3 h4
  have e00 := E (r + 1 - 1) (c + 1 - 1) (-1) (-1) (by omega) (by omega) (by omega) (by omega)
  have e01 := E (r + 1 - 1) (c + 1) (-1) 0 (by omega) (by omega) (by omega) (by omega)
  have e02 := E (r + 1 - 1) (c + 1 + 1) (-1) 1 (by omega) (by omega) (by omega) (by omega)
  have e10 := E (r + 1) (c + 1 - 1) 0 (-1) (by omega) (by omega) (by omega) (by omega)
  have e11 := E (r + 1) (c + 1) 0 0 (by omega) (by omega) (by omega) (by omega)
  have e12 := E (r + 1) (c + 1 + 1) 0 1 (by omega) (by omega) (by omega) (by omega)
  have e20 := E (r + 1 + 1) (c + 1 - 1) 1 (-1) (by omega) (by omega) (by omega) (by omega)
  have e21 := E (r + 1 + 1) (c + 1) 1 0 (by omega) (by omega) (by omega) (by omega)
  have e22 := E (r + 1 + 1) (c + 1 + 1) 1 1 (by omega) (by omega) (by omega) (by omega)
  simp only [e00, e01, e02, e10, e11, e12, e20, e21, e22]
  constructor <;> omega

end Pf.C14x
