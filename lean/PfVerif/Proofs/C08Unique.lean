import PfVerif.Proofs.C08Strahler
/-! The recursive definition of the Strahler order has exactly one solution on a loop-free network:
order independence, agreement with the declarative recursion, soundness of the certificate (C08). -/
namespace Pf

theorem mx_le_of (l : List Nat) (m : Nat) (h : ∀ x ∈ l, x ≤ m) : mx l ≤ m := by
  rcases foldl_max_mem l 0 with h0 | h0
  · show l.foldl max 0 ≤ m; omega
  · exact h _ h0

theorem mx_perm {l1 l2 : List Nat} (h : l1.Perm l2) : mx l1 = mx l2 := by
  apply Nat.le_antisymm
  · exact mx_le_of l1 _ (fun x hx => le_mx l2 x (h.mem_iff.1 hx))
  · exact mx_le_of l2 _ (fun x hx => le_mx l1 x (h.mem_iff.2 hx))

/-- the Strahler rule does not depend on the order in which the tributaries are listed -/
theorem strahler_perm {l1 l2 : List Nat} (h : l1.Perm l2) : strahler l1 = strahler l2 := by
  unfold strahler
  have hnil : l1 = [] ↔ l2 = [] := by
    rw [← List.length_eq_zero_iff, ← List.length_eq_zero_iff, h.length_eq]
  rw [mx_perm h, h.count_eq]
  by_cases h2 : l2 = []
  · simp [h2, hnil.2 h2]
  · have h1 : l1 ≠ [] := fun h1 => h2 (hnil.1 h1)
    simp [h2, h1]

theorem strahlerRule_perm (b : Bool) {l1 l2 : List Nat} (h : l1.Perm l2) :
    strahlerRule b l1 = strahlerRule b l2 := by
  unfold strahlerRule
  have hnil : l1 = [] ↔ l2 = [] := by
    rw [← List.length_eq_zero_iff, ← List.length_eq_zero_iff, h.length_eq]
  rw [strahler_perm h]
  by_cases h2 : l2 = []
  · simp [h2, hnil.2 h2]
  · have h1 : l1 ≠ [] := fun h1 => h2 (hnil.1 h1)
    simp [h2, h1]

theorem kidsM_nodup (ds : Array Nat) (seq : List Nat) (mask : Option (Array Bool)) (j : Nat)
    (hnd : seq.Nodup) : (kidsM ds seq mask j).Nodup := by
  unfold kidsM kids
  refine List.Nodup.sublist (List.filter_sublist) (List.Nodup.sublist (List.filter_sublist) ?_)
  exact (List.reverse_perm seq).nodup_iff.2 hnd

/-- **uniqueness**: any assignment `o` satisfying the recursive definition at every cell (with the
inflowing streams listed in any order) is the model's output. -/
theorem strahler_unique (ds : Array Nat) (mask : Option (Array Bool)) (seq : List Nat)
    (htopo : Topo ds seq) (hb : ∀ i ∈ seq, i < ds.size) (o : Nat → Nat) (L : Nat → List Nat)
    (hL : ∀ j, (L j).Perm (kidsM ds seq mask j))
    (ho : ∀ j, o j = strahlerRule (decide (j ∈ seq) && maskAt mask j) ((L j).map o)) :
    ∀ j, o j = (strahlerOrder ds seq mask)[j]! := by
  obtain ⟨_, hrec⟩ := strahlerOrder_rec ds mask seq htopo hb
  have key : ∀ j, (∀ c ∈ seq, ds[c]! = j → c ≠ j → o c = (strahlerOrder ds seq mask)[c]!) →
      o j = (strahlerOrder ds seq mask)[j]! := by
    intro j ih
    rw [ho j, hrec j, strahlerRule_perm _ ((hL j).map o)]
    congr 1
    apply List.map_congr_left
    intro c hc
    have hc' := (mem_kidsM ds seq mask j c).1 hc
    exact ih c hc'.1 hc'.2.1 hc'.2.2.1
  have hseq : ∀ j ∈ seq, o j = (strahlerOrder ds seq mask)[j]! :=
    htopo.induction_up _ (fun j _ ih => key j ih)
  exact fun j => key j (fun c hc _ _ => hseq c hc)

/-- two downstream-first orders of the same cells give the same Strahler orders -/
theorem strahlerOrder_order_indep (ds : Array Nat) (mask : Option (Array Bool)) (seq1 seq2 : List Nat)
    (h1 : Topo ds seq1) (h2 : Topo ds seq2) (hb : ∀ i ∈ seq1, i < ds.size)
    (hsame : ∀ i, i ∈ seq1 ↔ i ∈ seq2) :
    ∀ j : Nat, (strahlerOrder ds seq2 mask)[j]! = (strahlerOrder ds seq1 mask)[j]! := by
  have hb2 : ∀ i ∈ seq2, i < ds.size := fun i hi => hb i ((hsame i).2 hi)
  obtain ⟨_, hrec2⟩ := strahlerOrder_rec ds mask seq2 h2 hb2
  refine strahler_unique ds mask seq1 h1 hb (fun j : Nat => (strahlerOrder ds seq2 mask)[j]!)
    (fun j => kidsM ds seq2 mask j) (fun j => ?_) (fun j => ?_)
  · rw [List.perm_ext_iff_of_nodup (kidsM_nodup ds seq2 mask j h2.nodup)
      (kidsM_nodup ds seq1 mask j h1.nodup)]
    intro c
    simp only [mem_kidsM, hsame]
  · have : decide (j ∈ seq1) = decide (j ∈ seq2) := by simp [hsame]
    rw [this]; exact hrec2 j

/-! ### the declarative recursion and the certificate -/

theorem mem_upsOf (ds : Array Nat) (j i : Nat) :
    i ∈ upsOf ds j ↔ i < ds.size ∧ ds[i]! = j ∧ i ≠ j ∧ ds[i]! ≠ ds.size := by
  simp only [upsOf, List.mem_filter, List.mem_range, Bool.and_eq_true, beq_iff_eq, bne_iff_ne, ne_eq]
  constructor
  · rintro ⟨h1, ⟨h2, h3⟩, h4⟩; exact ⟨h1, h2, h3, h4⟩
  · rintro ⟨h1, h2, h3, h4⟩; exact ⟨h1, ⟨h2, h3⟩, h4⟩

/-- `seq` lists exactly the valid cells (loop-free network, complete order) -/
def Complete (ds : Array Nat) (seq : List Nat) : Prop := ∀ i, isValid ds i = true → i ∈ seq

theorem valid_of_mem (ds : Array Nat) (seq : List Nat) (htopo : Topo ds seq)
    (hb : ∀ i ∈ seq, i < ds.size) (i : Nat) (hi : i ∈ seq) : isValid ds i = true := by
  have h1 := hb i hi
  have h2 := hb _ (htopo.ds_mem i hi)
  simp only [isValid, Bool.and_eq_true, decide_eq_true_eq, bne_iff_ne, ne_eq]
  exact ⟨h1, by omega⟩

theorem inflowsM_perm (ds : Array Nat) (mask : Option (Array Bool)) (seq : List Nat)
    (htopo : Topo ds seq) (hb : ∀ i ∈ seq, i < ds.size) (hc : Complete ds seq) (j : Nat) :
    (inflowsM ds mask j).Perm (kidsM ds seq mask j) := by
  have hnd1 : (inflowsM ds mask j).Nodup := by
    unfold inflowsM upsOf
    exact List.Nodup.sublist List.filter_sublist (List.Nodup.sublist List.filter_sublist List.nodup_range)
  rw [List.perm_ext_iff_of_nodup hnd1 (kidsM_nodup ds seq mask j htopo.nodup)]
  intro c
  simp only [inflowsM, List.mem_filter, mem_upsOf, mem_kidsM]
  constructor
  · rintro ⟨⟨h1, h2, h3, h4⟩, h5⟩
    refine ⟨hc c ?_, h2, h3, h5⟩
    simp only [isValid, Bool.and_eq_true, decide_eq_true_eq, bne_iff_ne, ne_eq]
    exact ⟨h1, h4⟩
  · rintro ⟨h1, h2, h3, h4⟩
    have hv := valid_of_mem ds seq htopo hb c h1
    simp only [isValid, Bool.and_eq_true, decide_eq_true_eq, bne_iff_ne, ne_eq] at hv
    exact ⟨⟨hv.1, h2, h3, hv.2⟩, h4⟩

theorem isValid_iff_mem (ds : Array Nat) (seq : List Nat) (htopo : Topo ds seq)
    (hb : ∀ i ∈ seq, i < ds.size) (hc : Complete ds seq) (j : Nat) :
    isValid ds j = decide (j ∈ seq) := by
  by_cases h : j ∈ seq
  · simp [h, valid_of_mem ds seq htopo hb j h]
  · have : isValid ds j ≠ true := fun hv => h (hc j hv)
    simp [h, this]

/-- the recursion over the upstream tree computes the model's order (enough fuel) -/
theorem strahlerSpecAux_eq (ds : Array Nat) (mask : Option (Array Bool)) (seq : List Nat)
    (htopo : Topo ds seq) (hb : ∀ i ∈ seq, i < ds.size) (hc : Complete ds seq)
    (ht : Nat → Nat) (hht : ∀ c ∈ seq, ds[c]! ≠ c → ht c < ht ds[c]!) :
    ∀ f j, j ∈ seq → maskAt mask j = true → ht j < f →
      strahlerSpecAux ds mask f j = (strahlerOrder ds seq mask)[j]! := by
  obtain ⟨_, hrec⟩ := strahlerOrder_rec ds mask seq htopo hb
  intro f
  induction f with
  | zero => intro j _ _ h; omega
  | succ f ih =>
    intro j hj hm hf
    rw [strahlerSpecAux, hrec j]
    have hflag : (decide (j ∈ seq) && maskAt mask j) = true := by simp [hj, hm]
    rw [hflag, strahlerRule_perm _ ((inflowsM_perm ds mask seq htopo hb hc j).map _)]
    congr 1
    apply List.map_congr_left
    intro c hcm
    have hc' := (mem_kidsM ds seq mask j c).1 hcm
    have hlt := hht c hc'.1 (by rw [hc'.2.1]; exact fun h => hc'.2.2.1 h.symm)
    rw [hc'.2.1] at hlt
    exact ih c hc'.1 hc'.2.2.2 (by omega)

theorem strahlerSpecF_eq (ds : Array Nat) (mask : Option (Array Bool)) (seq : List Nat)
    (htopo : Topo ds seq) (hb : ∀ i ∈ seq, i < ds.size) (hc : Complete ds seq)
    (fuel : Nat) (hfuel : seq.length ≤ fuel) (j : Nat) :
    strahlerSpecF ds mask fuel j = (strahlerOrder ds seq mask)[j]! := by
  obtain ⟨ht, h1, h2⟩ := htopo.exists_height
  obtain ⟨_, hrec⟩ := strahlerOrder_rec ds mask seq htopo hb
  rw [strahlerSpecF, hrec j, isValid_iff_mem ds seq htopo hb hc j,
    strahlerRule_perm _ ((inflowsM_perm ds mask seq htopo hb hc j).map _)]
  congr 1
  apply List.map_congr_left
  intro c hcm
  have hc' := (mem_kidsM ds seq mask j c).1 hcm
  exact strahlerSpecAux_eq ds mask seq htopo hb hc ht h2 fuel c hc'.1 hc'.2.2.2
    (by have := h1 c hc'.1; omega)

/-- **certificate soundness**: an array accepted by `strahlerCert` is the model's output -/
theorem strahlerCert_eq_model (ds : Array Nat) (mask : Option (Array Bool)) (seq : List Nat)
    (htopo : Topo ds seq) (hb : ∀ i ∈ seq, i < ds.size) (hc : Complete ds seq)
    (ord : Array Nat) (hcert : strahlerCert ds mask ord = true) :
    ∀ j : Nat, ord[j]! = (strahlerOrder ds seq mask)[j]! := by
  simp only [strahlerCert, Bool.and_eq_true, beq_iff_eq, List.all_eq_true, List.mem_range] at hcert
  obtain ⟨hsz, hloc⟩ := hcert
  refine strahler_unique ds mask seq htopo hb (fun j : Nat => ord[j]!) (inflowsM ds mask)
    (inflowsM_perm ds mask seq htopo hb hc) (fun j => ?_)
  rw [← isValid_iff_mem ds seq htopo hb hc j]
  by_cases hj : j < ds.size
  · exact hloc j hj
  · -- outside the array: order 0, no inflowing cell
    have h0 : ord[j]! = 0 := by
      have : ¬ j < ord.size := by omega
      simp [this]
    have hnv : isValid ds j = false := by simp [isValid, hj]
    have hnil : inflowsM ds mask j = [] := by
      have hk : kidsM ds seq mask j = [] := by
        rw [List.eq_nil_iff_forall_not_mem]
        intro c hcm
        have hc' := (mem_kidsM ds seq mask j c).1 hcm
        have := hb _ (htopo.ds_mem c hc'.1)
        rw [hc'.2.1] at this
        exact hj this
      have := inflowsM_perm ds mask seq htopo hb hc j
      rw [hk] at this
      exact this.eq_nil
    show ord[j]! = strahlerRule _ ((inflowsM ds mask j).map _)
    rw [h0, hnil, hnv]
    simp [strahlerRule]

end Pf
