import PfVerif.Proofs.C18PfArith
import PfVerif.Proofs.C18PfFresh
/-! Pfafstetter link rule (stage 4), invariant part: `PfQ` (the worklist is processed level by level),
`PfH` / `PfHIn` (every returned outlet that is not a pit is linked to its downstream cell by `LinkE e` at the
level `e` at which it was created; no pending entry is shallower than `e`, and the downstream code lies in no
pending block of level `e`), and the three ways `PfHIn` is kept: unchanged codes (`keep`), a new outlet
(`add`), an inter-basin relabelling (`relabel`). Core Lean only. -/
namespace Pf.C18
open Pf

/-- `B` lies in the block owned by the pending entry `en` -/
def InBlk (depth : Nat) (en : Int × Nat) (B : Int) : Prop := en.1 ≤ B ∧ B < en.1 + Bsz depth en.2

/-- the worklist is sorted by level, spans at most two levels, and the digits `0 .. depth - d` of a pending
code of level `d` are all 1 -/
structure PfQ (depth : Nat) (labs : List (Int × Nat)) : Prop where
  sorted : labs.Pairwise (fun a b => a.2 ≤ b.2)
  span : ∀ a ∈ labs, ∀ b ∈ labs, b.2 ≤ a.2 + 1
  lev : ∀ en ∈ labs, 1 ≤ en.2 ∧ en.2 ≤ depth ∧
    en.1 % (10 : Int) ^ (depth - en.2 + 1) = R1 (depth - en.2 + 1)

def PfH (ds : Array Nat) (depth : Nat) (br : Array Int) (idxs : List Nat)
    (labs : List (Int × Nat)) : Prop :=
  ∀ o ∈ idxs, ds[o]! ≠ o → ∃ e, e < depth ∧ LinkE e br[o]! br[ds[o]!]! ∧
    ∀ en ∈ labs, depth - en.2 < e ∨ (depth - en.2 = e ∧ ¬ InBlk depth en br[ds[o]!]!)

/-- while `pfInner (pfaf0, d0)` runs with unused codes `[lo, hi)` and remaining tributaries `l` -/
def PfHIn (ds : Array Nat) (uparea : Array Int) (depth : Nat) (br : Array Int) (idxs : List Nat)
    (labs : List (Int × Nat)) (pfaf0 : Int) (d0 : Nat) (lo hi : Int) (l : List Nat) : Prop :=
  ∀ o ∈ idxs, ds[o]! ≠ o → ∃ e, e < depth ∧ LinkE e br[o]! br[ds[o]!]! ∧ depth - d0 ≤ e ∧
    (∀ en ∈ labs, depth - en.2 < e ∨ (depth - en.2 = e ∧ ¬ InBlk depth en br[ds[o]!]!)) ∧
    (e = depth - d0 → ¬ (pfaf0 ≤ br[ds[o]!]! ∧ br[ds[o]!]! < hi) ∨
      (pfaf0 ≤ br[ds[o]!]! ∧ br[ds[o]!]! < lo ∧ ∀ t ∈ l, uparea[ds[o]!]! ≥ uparea[ds[t]!]!))

variable {ds : Array Nat} {uparea br br' : Array Int} {depth d0 : Nat} {idxs : List Nat}
  {labs labs' : List (Int × Nat)} {pfaf0 lo lo' hi : Int} {l l' : List Nat}

/-- codes of the outlets and of their downstream cells unchanged; more unused codes consumed, fewer
tributaries left, deeper entries queued -/
theorem PfHIn.keep (h : PfHIn ds uparea depth br idxs labs pfaf0 d0 lo hi l)
    (hsame : ∀ o ∈ idxs, ds[o]! ≠ o → br'[o]! = br[o]! ∧ br'[ds[o]!]! = br[ds[o]!]!)
    (hlo : lo ≤ lo') (hl : ∀ t ∈ l', t ∈ l)
    (hlabs : ∀ en ∈ labs', en ∈ labs ∨ (en.2 = d0 + 1 ∧ d0 < depth)) :
    PfHIn ds uparea depth br' idxs labs' pfaf0 d0 lo' hi l' := by
  intro o ho hnp
  obtain ⟨e, h1, h2, h3, h4, h5⟩ := h o ho hnp
  obtain ⟨s1, s2⟩ := hsame o ho hnp
  rw [s1, s2]
  refine ⟨e, h1, h2, h3, fun en hen => ?_, fun he => ?_⟩
  · rcases hlabs en hen with h6 | h6
    · exact h4 en h6
    · left; omega
  · rcases h5 he with h6 | h6
    · exact Or.inl h6
    · exact Or.inr ⟨h6.1, by omega, fun t ht => h6.2.2 t (hl t ht)⟩

/-- a new outlet `x`, linked at the current level -/
theorem PfHIn.add (h : PfHIn ds uparea depth br idxs labs pfaf0 d0 lo hi l) {x : Nat}
    (hd0 : 1 ≤ d0) (hd0' : d0 ≤ depth)
    (hlink : LinkE (depth - d0) br[x]! br[ds[x]!]!)
    (hB : pfaf0 ≤ br[ds[x]!]! ∧ br[ds[x]!]! < lo)
    (hup : ∀ t ∈ l, uparea[ds[x]!]! ≥ uparea[ds[t]!]!)
    (hpend : ∀ en ∈ labs, depth - en.2 < depth - d0 ∨
      (depth - en.2 = depth - d0 ∧ ¬ InBlk depth en br[ds[x]!]!)) :
    PfHIn ds uparea depth br (idxs ++ [x]) labs pfaf0 d0 lo hi l := by
  intro o ho hnp
  rcases List.mem_append.1 ho with ho | ho
  · exact h o ho hnp
  · simp only [List.mem_singleton] at ho
    subst ho
    exact ⟨depth - d0, by omega, hlink, Nat.le_refl _, hpend, fun _ => Or.inr ⟨hB.1, hB.2, hup⟩⟩

/-- the pending-clause of a new outlet, from the level discipline and the position of the blocks -/
theorem pend_of_blocks {p : Int} {B : Int}
    (hq : ∀ en ∈ labs, d0 ≤ en.2 ∧ en.2 ≤ depth)
    (hi1p : ∀ en ∈ labs, en.1 + Bsz depth en.2 ≤ pfaf0 ∨ hi ≤ en.1 ∨
      (pfaf0 + p ≤ en.1 ∧ en.1 + Bsz depth en.2 ≤ lo ∧ en.2 = d0 + 1))
    (hB : pfaf0 ≤ B ∧ B < lo) (hlohi : lo ≤ hi) (hd0' : d0 ≤ depth) :
    ∀ en ∈ labs, depth - en.2 < depth - d0 ∨ (depth - en.2 = depth - d0 ∧ ¬ InBlk depth en B) := by
  intro en hen
  obtain ⟨q1, q2⟩ := hq en hen
  by_cases hlt : depth - en.2 < depth - d0
  · exact Or.inl hlt
  · right
    refine ⟨by omega, fun hin => ?_⟩
    unfold InBlk at hin
    rcases hi1p en hen with h1 | h1 | h1
    · omega
    · omega
    · omega

/-- an inter-basin fill: cells carrying `w` above the confluence (upstream area below `U`) get `v`; both
codes lie in the popped block and agree above the current level -/
theorem PfHIn.relabel {br2 : Array Int} {w v U : Int}
    (h : PfHIn ds uparea depth br idxs labs pfaf0 d0 lo hi l)
    (hout : ∀ o ∈ idxs, br2[o]! = br[o]!)
    (hw2 : ∀ o ∈ idxs, ds[o]! ≠ o → br2[ds[o]!]! = br[ds[o]!]! ∨
      (br2[ds[o]!]! = v ∧ br[ds[o]!]! = w ∧ uparea[ds[o]!]! < U))
    (hU : ∃ t ∈ l, uparea[ds[t]!]! = U)
    (hw : pfaf0 ≤ w ∧ w < lo) (hlohi : lo ≤ hi)
    (href : ∀ e, depth - d0 < e → w / (10 : Int) ^ e = v / (10 : Int) ^ e)
    (hq : ∀ en ∈ labs, d0 ≤ en.2 ∧ en.2 ≤ depth) (hd0' : d0 ≤ depth) :
    PfHIn ds uparea depth br2 idxs labs pfaf0 d0 lo hi l := by
  intro o ho hnp
  obtain ⟨e, h1, h2, h3, h4, h5⟩ := h o ho hnp
  rw [hout o ho]
  rcases hw2 o ho hnp with hs | ⟨hv, hwo, hup⟩
  · rw [hs]; exact ⟨e, h1, h2, h3, h4, h5⟩
  · have hne : e ≠ depth - d0 := by
      intro he
      rcases h5 he with h6 | h6
      · apply h6; rw [hwo]; omega
      · obtain ⟨t, ht, htU⟩ := hU
        have := h6.2.2 t ht
        omega
    have hgt : depth - d0 < e := by omega
    rw [hv]
    rw [hwo] at h2
    refine ⟨e, h1, h2.congr (href e hgt), h3, fun en hen => ?_, fun he => absurd he hne⟩
    obtain ⟨q1, q2⟩ := hq en hen
    left; omega

theorem PfHIn.toPfH (h : PfHIn ds uparea depth br idxs labs pfaf0 d0 lo hi l) :
    PfH ds depth br idxs labs := by
  intro o ho hnp
  obtain ⟨e, h1, h2, _, h4, _⟩ := h o ho hnp
  exact ⟨e, h1, h2, h4⟩

/-- popping the head `(pfaf0, d0)` -/
theorem PfH.pop (h : PfH ds depth br idxs ((pfaf0, d0) :: labs)) (l : List Nat) (lo : Int) :
    PfHIn ds uparea depth br idxs labs pfaf0 d0 lo (pfaf0 + Bsz depth d0) l := by
  intro o ho hnp
  obtain ⟨e, h1, h2, h4⟩ := h o ho hnp
  have hh := h4 (pfaf0, d0) (by simp)
  refine ⟨e, h1, h2, ?_, fun en hen => h4 en (List.mem_cons_of_mem _ hen), fun he => ?_⟩
  · rcases hh with h | h
    · exact Nat.le_of_lt h
    · exact Nat.le_of_eq h.1
  · left
    rcases hh with h | h
    · omega
    · exact h.2

theorem PfH.tail {en : Int × Nat} (h : PfH ds depth br idxs (en :: labs)) : PfH ds depth br idxs labs := by
  intro o ho hnp
  obtain ⟨e, h1, h2, h4⟩ := h o ho hnp
  exact ⟨e, h1, h2, fun en' hen => h4 en' (List.mem_cons_of_mem _ hen)⟩

theorem PfQ.tail {en : Int × Nat} (h : PfQ depth (en :: labs)) : PfQ depth labs :=
  ⟨(List.pairwise_cons.1 h.sorted).2,
    fun a ha b hb => h.span a (List.mem_cons_of_mem _ ha) b (List.mem_cons_of_mem _ hb),
    fun e he => h.lev e (List.mem_cons_of_mem _ he)⟩

/-- the digits below level `e` of a code `c + a·10^e` are those of `c` -/
theorem R1_push {c : Int} {e : Nat} (hc : c % (10 : Int) ^ (e + 1) = R1 (e + 1)) (a : Int) :
    (c + a * (10 : Int) ^ e) % (10 : Int) ^ e = R1 e := by
  have hp := p10_pos e
  have hb := R1_bound e
  have hdec := Int.mul_ediv_add_emod c ((10 : Int) ^ (e + 1))
  rw [hc] at hdec
  simp only [R1, Int.pow_succ] at hdec
  generalize c / ((10 : Int) ^ e * 10) = q at hdec
  generalize (10 : Int) ^ e = p at *
  refine mod_unique_c18 (q := 10 * q + 1 + a) hp ?_ hb.1 hb.2
  rw [← hdec]
  grind

end Pf.C18
