import PfVerif.Proofs.C05_extIn
/-! Helper lemmas for the C05 extension: `basins.interbasin_mask`. Core Lean only. -/
namespace Pf.C05x
open Pf

theorem InterOK.inv {ds : Array Nat} {region mask0 : Array Bool} {i : Nat}
    (h : InterOK ds region mask0 i) :
    (ds[i]! = i ∧ mask0[i]! = true) ∨
    (ds[i]! ≠ i ∧ enterCell ds region i = false ∧ InterOK ds region mask0 ds[i]!) := by
  cases h with
  | pit _ h1 h2 => exact Or.inl ⟨h1, h2⟩
  | down _ h1 h2 h3 => exact Or.inr ⟨h1, h2, h3⟩

/-- the mask after the second loop of `interbasin_mask`, from any start mask -/
theorem interSweep_gen (ds : Array Nat) (region mask0 : Array Bool) (seq : List Nat) (htopo : Topo ds seq)
    (hb : ∀ i ∈ seq, i < mask0.size) :
    ∀ i ∈ seq, ((sweepDown ds (gInter ds region) seq mask0)[i]! = true ↔ InterOK ds region mask0 i) := by
  obtain ⟨hrec, _⟩ := sweepDown_rec ds (gInter ds region) mask0 seq htopo hb
  refine htopo.induction _ (fun j hj hd => ?_)
  rw [hrec j hj]
  by_cases hp : ds[j]! = j
  · simp only [hp, if_true, gInter]
    have : (!region[j]! && region[j]!) = false := by cases region[j]! <;> rfl
    simp only [this, Bool.false_eq_true, if_false]
    constructor
    · intro h; exact InterOK.pit j hp h
    · intro h
      rcases h.inv with ⟨_, h2⟩ | ⟨h1, _⟩
      · exact h2
      · exact absurd hp h1
  · obtain ⟨_, ihd⟩ := hd hp
    simp only [hp, if_false, gInter]
    have hen : enterCell ds region j = (!region[j]! && region[ds[j]!]!) := by
      simp only [enterCell]
      have : (ds[j]! != j) = true := by simp [hp]
      rw [this]; cases region[j]! <;> cases region[ds[j]!]! <;> rfl
    rw [← hen]
    by_cases he : enterCell ds region j = true
    · simp only [he, if_true]
      constructor
      · intro h; cases h
      · intro h
        rcases h.inv with ⟨h1, _⟩ | ⟨_, h2, _⟩
        · exact absurd h1 hp
        · rw [he] at h2; cases h2
    · have he' : enterCell ds region j = false := by simpa using he
      simp only [he', Bool.false_eq_true, if_false]
      rw [ihd]
      constructor
      · intro h; exact InterOK.down j hp he' h
      · intro h
        rcases h.inv with ⟨h1, _⟩ | ⟨_, _, h3⟩
        · exact absurd h1 hp
        · exact h3

/-- the executable walk decides `InterOK` wherever it ends -/
theorem walkInter_sound (ds : Array Nat) (region mask0 : Array Bool) (pitOK : Nat → Bool)
    (hpit : ∀ p, ds[p]! = p → pitOK p = mask0[p]!) :
    ∀ fuel i b, walkInter ds region pitOK fuel i = some b → (b = true ↔ InterOK ds region mask0 i) := by
  intro fuel
  induction fuel with
  | zero => intro i b h; simp [walkInter] at h
  | succ f ih =>
    intro i b h
    simp only [walkInter] at h
    by_cases hp : ds[i]! = i
    · simp only [hp, if_true, Option.some.injEq] at h
      subst h
      rw [hpit i hp]
      constructor
      · intro h; exact InterOK.pit i hp h
      · intro h
        rcases h.inv with ⟨_, h2⟩ | ⟨h1, _⟩
        · exact h2
        · exact absurd hp h1
    · simp only [hp, if_false] at h
      by_cases he : enterCell ds region i = true
      · simp only [he, if_true, Option.some.injEq] at h
        subst h
        constructor
        · intro h; cases h
        · intro h
          rcases h.inv with ⟨h1, _⟩ | ⟨_, h2, _⟩
          · exact absurd h1 hp
          · rw [he] at h2; cases h2
      · have he' : enterCell ds region i = false := by simpa using he
        simp only [he', Bool.false_eq_true, if_false] at h
        rw [ih _ _ h]
        constructor
        · intro h; exact InterOK.down i hp he' h
        · intro h
          rcases h.inv with ⟨h1, _⟩ | ⟨_, _, h3⟩
          · exact absurd h1 hp
          · exact h3

/-- path form of `InterOK`: a pit with a `true` start value is reached and no step before it enters
the region -/
theorem InterOK_iff_path (ds : Array Nat) (region mask0 : Array Bool) (i : Nat) :
    InterOK ds region mask0 i ↔
      ∃ m, ds[iterA ds m i]! = iterA ds m i ∧ mask0[iterA ds m i]! = true ∧
        ∀ k, k < m → ds[iterA ds k i]! ≠ iterA ds k i ∧ enterCell ds region (iterA ds k i) = false := by
  constructor
  · intro h
    induction h with
    | pit i h1 h2 => exact ⟨0, by simpa [iterA] using h1, by simpa [iterA] using h2, fun k hk => by omega⟩
    | down i h1 h2 _ ih =>
      obtain ⟨m, hm1, hm2, hm3⟩ := ih
      refine ⟨m+1, by simpa [iterA] using hm1, by simpa [iterA] using hm2, fun k hk => ?_⟩
      cases k with
      | zero => exact ⟨by simpa [iterA] using h1, by simpa [iterA] using h2⟩
      | succ k => simpa [iterA] using hm3 k (by omega)
  · rintro ⟨m, hm1, hm2, hm3⟩
    induction m generalizing i with
    | zero => exact InterOK.pit i (by simpa [iterA] using hm1) (by simpa [iterA] using hm2)
    | succ m ih =>
      have h0 := hm3 0 (by omega)
      simp only [iterA] at h0
      refine InterOK.down i h0.1 h0.2 (ih ds[i]! (by simpa [iterA] using hm1) (by simpa [iterA] using hm2) ?_)
      intro k hk
      simpa [iterA] using hm3 (k+1) (by omega)

/-! ### first loop: the stream mask extended downstream -/

theorem size_streamStep (ds : Array Nat) (i : Nat) (m : Array Bool) : (streamStep ds i m).size = m.size := by
  simp only [streamStep]; split <;> simp

theorem size_streamDown (ds : Array Nat) (l : List Nat) (s : Array Bool) : (streamDown ds l s).size = s.size := by
  induction l with
  | nil => rfl
  | cons a l ih => simp only [streamDown, List.foldr_cons] at ih ⊢; rw [size_streamStep, ih]

theorem streamStep_get (ds : Array Nat) (i : Nat) (m : Array Bool) (x : Nat) :
    (streamStep ds i m)[x]! = (m[x]! || (m[i]! && decide (ds[i]! = x) && decide (x < m.size))) := by
  simp only [streamStep]
  by_cases hm : m[i]! = true
  · simp only [hm, if_true, get!_setIfInBounds, Bool.true_and]
    by_cases h1 : ds[i]! = x
    · subst h1
      by_cases h2 : ds[i]! < m.size
      · simp [h2]
      · simp [h2]
    · simp [h1]
  · have : m[i]! = false := by simpa using hm
    simp [this]

theorem streamDown_snoc (ds : Array Nat) (pre : List Nat) (i : Nat) (s : Array Bool) :
    streamDown ds (pre ++ [i]) s = streamDown ds pre (streamStep ds i s) := by
  simp [streamDown, List.foldr_append]

theorem streamDown_mono (ds : Array Nat) (l : List Nat) (s : Array Bool) (x : Nat) (h : s[x]! = true) :
    (streamDown ds l s)[x]! = true := by
  induction l with
  | nil => exact h
  | cons a l ih =>
    simp only [streamDown, List.foldr_cons] at ih ⊢
    rw [streamStep_get, ih]; rfl

theorem streamDown_untouched (ds : Array Nat) (l : List Nat) (s : Array Bool) (j : Nat)
    (h : ∀ c ∈ l, ds[c]! = j → c = j) : (streamDown ds l s)[j]! = s[j]! := by
  induction l with
  | nil => rfl
  | cons a l ih =>
    have ih' := ih (fun c hc => h c (by simp [hc]))
    simp only [streamDown, List.foldr_cons] at ih' ⊢
    rw [streamStep_get, ih']
    by_cases h1 : ds[a]! = j
    · have := h a (by simp) h1
      subst this
      rw [ih']; cases s[a]! <;> simp
    · simp [h1]

/-- soundness: a flagged cell after the first loop was flagged itself or lies downstream of a flagged
cell of `seq` -/
theorem streamDown_sound (ds : Array Nat) (seq : List Nat) :
    ∀ (s : Array Bool) (j : Nat), (streamDown ds seq s)[j]! = true →
      s[j]! = true ∨ ∃ y ∈ seq, ∃ k, iterA ds k y = j ∧ s[y]! = true := by
  suffices h : ∀ (l : List Nat) (s : Array Bool) (j : Nat), (streamDown ds l.reverse s)[j]! = true →
      s[j]! = true ∨ ∃ y ∈ l.reverse, ∃ k, iterA ds k y = j ∧ s[y]! = true by
    intro s j hj
    have := h seq.reverse s j (by simpa using hj)
    simpa using this
  intro l
  induction l with
  | nil => intro s j h; exact Or.inl h
  | cons i l ih =>
    intro s j h
    rw [List.reverse_cons, streamDown_snoc] at h
    rcases ih _ j h with h1 | ⟨y, hy, k, hk, hs⟩
    · rw [streamStep_get] at h1
      simp only [Bool.or_eq_true, Bool.and_eq_true, decide_eq_true_eq] at h1
      rcases h1 with h1 | ⟨⟨h1, h2⟩, _⟩
      · exact Or.inl h1
      · exact Or.inr ⟨i, by simp, 1, by simpa [iterA] using h2, h1⟩
    · rw [streamStep_get] at hs
      simp only [Bool.or_eq_true, Bool.and_eq_true, decide_eq_true_eq] at hs
      rcases hs with hs | ⟨⟨h1, h2⟩, _⟩
      · exact Or.inr ⟨y, by simp [hy], k, hk, hs⟩
      · refine Or.inr ⟨i, by simp, k+1, ?_, h1⟩
        simp only [iterA]; rw [h2]; exact hk

/-- closure: after the first loop the downstream cell of a flagged cell of `seq` is flagged -/
theorem streamDown_closed (ds : Array Nat) (seq : List Nat) (htopo : Topo ds seq) :
    ∀ (s : Array Bool), (∀ i ∈ seq, i < s.size) → ∀ y ∈ seq, (streamDown ds seq s)[y]! = true →
      (streamDown ds seq s)[ds[y]!]! = true := by
  induction htopo with
  | nil => intro s _ y hy; cases hy
  | @snoc pre i hpre hi hds ih =>
    intro s hb y hy hfin
    rw [streamDown_snoc] at hfin ⊢
    have hb' : ∀ j ∈ pre, j < (streamStep ds i s).size := fun j hj => by
      rw [size_streamStep]; exact hb j (by simp [hj])
    simp only [List.mem_append, List.mem_singleton] at hy
    rcases hy with hy | rfl
    · exact ih _ hb' y hy hfin
    · rw [streamDown_untouched ds pre _ y (fun c hc hci => absurd (hci ▸ Topo.ds_mem hpre c hc) hi)] at hfin
      rw [streamStep_get] at hfin
      have hsy : s[y]! = true := by
        simp only [Bool.or_eq_true, Bool.and_eq_true] at hfin
        rcases hfin with h | ⟨⟨h, _⟩, _⟩ <;> exact h
      apply streamDown_mono
      rw [streamStep_get]
      have hdsz : ds[y]! < s.size := by
        rcases hds with h | h
        · rw [h]; exact hb y (by simp)
        · exact hb _ (by simp [h])
      simp [hsy, hdsz]

end Pf.C05x
