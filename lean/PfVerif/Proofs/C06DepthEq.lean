import PfVerif.Proofs.C06DepthSafe
/-! `max_depth >= 0` coincides with the unlimited fill when the unlimited fill raises no cell by
`max_depth` or more. Core Lean only. -/
namespace Pf.C06
open Pf

variable {G : Grid} {conn : Nat} {elev : Array Int} {nod : Array Bool} {md : Int}

/-- a filled-and-not-reset cell is done (no cell is ever re-opened as long as nothing is too deep) -/
def NoOpen (s : StD) : Prop := ∀ c : Nat, s.delv[c]! > 0 → s.done[c]! = true

/-- one visit without a too-deep cell is the visit of the unlimited algorithm -/
theorem visitD_eq_visit {z0 : Int} {i0 : Nat} (s : StD) (o : Int × Int) (hs : SizedD G s) (hno : NoOpen s)
    (hnd : ∀ j, shift G i0 o.1 o.2 = some j → s.done[j]! = false → tooDeep md (z0 - elev[j]!) = false) :
    (visitD G conn elev nod md z0 i0 s o).toSt = visit G elev z0 i0 s.toSt o ∧
    NoOpen (visitD G conn elev nod md z0 i0 s o) ∧
    (visitD G conn elev nod md z0 i0 s o).ev = s.ev ∧ (visitD G conn elev nod md z0 i0 s o).evc = s.evc := by
  cases hsh : shift G i0 o.1 o.2 with
  | none =>
    have e1 : visitD G conn elev nod md z0 i0 s o = s := by simp only [visitD, hsh]
    have e2 : visit G elev z0 i0 s.toSt o = s.toSt := by simp only [visit, hsh]
    rw [e1, e2]; exact ⟨rfl, hno, rfl, rfl⟩
  | some j =>
    have hj : j < G.n := (shift_spec.1 hsh).1
    by_cases hd : s.done[j]! = true
    · have hd2 : s.toSt.done[j]! = true := hd
      have e1 : visitD G conn elev nod md z0 i0 s o = s := by simp only [visitD, hsh, hd, if_true]
      have e2 : visit G elev z0 i0 s.toSt o = s.toSt := by simp only [visit, hsh, hd2, if_true]
      rw [e1, e2]; exact ⟨rfl, hno, rfl, rfl⟩
    · have hd' : s.done[j]! = false := by simpa using hd
      have hd2 : s.toSt.done[j]! = false := hd'
      have hdel : ¬ (s.delv[j]! > 0) := fun h => hd (hno j h)
      have hr : resetStep elev s j = s := by unfold resetStep; rw [if_neg hdel]
      have e1 : visitD G conn elev nod md z0 i0 s o = fillStep elev z0 s j (usCode o.1 o.2) := by
        simp only [visitD, hsh, hd', hnd j hsh hd', Bool.false_eq_true, if_false, hr]
      rw [e1]
      refine ⟨?_, ?_, rfl, rfl⟩
      · simp only [visit, hsh, fillStep, StD.toSt, hd', Bool.false_eq_true, if_false]
        by_cases hf : z0 - elev[j]! > 0 <;> by_cases hq : s.queued[j]! = true <;> simp [hq]
      · intro c hc
        simp only [fillStep] at hc ⊢
        by_cases hjc : j = c
        · subst hjc
          exact get_set_self _ _ _ (by rw [hs.1]; exact hj)
        · rw [get_set_ne _ _ _ _ hjc]
          apply hno
          split at hc
          · rw [get_set_ne _ _ _ _ hjc] at hc; exact hc
          · exact hc


theorem sized_toSt {s : StD} (hs : SizedD G s) : Sized G s.toSt := ⟨hs.1, hs.2.1, hs.2.2.1, hs.2.2.2.1⟩

/-- a done cell keeps its level through the rest of the unlimited run -/
theorem loop_keep (k : Nat) (t : St) (ht : Sized G t) (c : Nat) (hd : t.done[c]! = true) :
    (fillLoop G conn elev k t).f[c]! = t.f[c]! ∧ (fillLoop G conn elev k t).done[c]! = true := by
  induction k generalizing t with
  | zero => exact ⟨rfl, hd⟩
  | succ k ih =>
    unfold fillLoop
    split
    · exact ⟨rfl, hd⟩
    · rename_i h rest hq
      have ht0 : Sized G { t with q := rest } := ht
      have E := eff_fold (elev := elev) h.z h.idx (offsets conn) { t with q := rest } ht0
      obtain ⟨k1, k2, _⟩ := E.keep c hd
      obtain ⟨i1, i2⟩ := ih _ E.sized k1
      exact ⟨i1.trans k2, i2⟩

theorem fillLoop_stable (k m : Nat) (t : St) (hq : (fillLoop G conn elev k t).q = []) :
    fillLoop G conn elev (k + m) t = fillLoop G conn elev k t := by
  induction k generalizing t with
  | zero =>
    have hq' : t.q = [] := hq
    cases m with
    | zero => rfl
    | succ m =>
      rw [Nat.zero_add]
      show fillLoop G conn elev (m + 1) t = t
      unfold fillLoop
      rw [hq']
  | succ k ih =>
    rw [show k + 1 + m = (k + m) + 1 by omega]
    unfold fillLoop at hq ⊢
    split
    · rfl
    · rename_i h rest hq0
      rw [hq0] at hq
      exact ih _ hq

/-- the neighbour loop of the depth-limited model is the one of the unlimited model as long as the
unlimited run never raises a cell by `md` or more -/
theorem foldD_eq {z0 : Int} {i0 : Nat} (k : Nat) (l : List (Int × Int)) (s : StD) (hs : SizedD G s)
    (hno : NoOpen s)
    (hdepth : ∀ c, c < G.n →
      (fillLoop G conn elev k (l.foldl (visit G elev z0 i0) s.toSt)).f[c]! - elev[c]! < md) :
    (l.foldl (visitD G conn elev nod md z0 i0) s).toSt = l.foldl (visit G elev z0 i0) s.toSt ∧
    NoOpen (l.foldl (visitD G conn elev nod md z0 i0) s) ∧
    SizedD G (l.foldl (visitD G conn elev nod md z0 i0) s) ∧
    (l.foldl (visitD G conn elev nod md z0 i0) s).ev = s.ev ∧
    (l.foldl (visitD G conn elev nod md z0 i0) s).evc = s.evc := by
  induction l generalizing s with
  | nil => exact ⟨rfl, hno, hs, rfl, rfl⟩
  | cons o l ih =>
    simp only [List.foldl_cons] at hdepth ⊢
    have hnd : ∀ j, shift G i0 o.1 o.2 = some j → s.done[j]! = false →
        tooDeep md (z0 - elev[j]!) = false := by
      intro j hsh hd
      have hj : j < G.n := (shift_spec.1 hsh).1
      by_cases hpos : z0 - elev[j]! > 0
      · obtain ⟨v1, _, v3, _, _⟩ := visit_hit (elev := elev) (z0 := z0) (sized_toSt hs) hsh
          (show s.toSt.done[j]! = false from hd)
        have hd1 : (visit G elev z0 i0 s.toSt o).done[j]! = true := by rw [v1]; simp
        have hf1 : (visit G elev z0 i0 s.toSt o).f[j]! = z0 := by rw [v3, if_pos rfl, if_pos hpos]
        have hs1 : Sized G (visit G elev z0 i0 s.toSt o) := sized_visit z0 i0 _ o (sized_toSt hs)
        have E := eff_fold (elev := elev) z0 i0 l _ hs1
        obtain ⟨k1, k2, _⟩ := E.keep j hd1
        obtain ⟨i1, _⟩ := loop_keep (conn := conn) (elev := elev) k _ E.sized j k1
        have := hdepth j hj
        rw [i1, k2, hf1] at this
        unfold tooDeep
        simp only [Bool.and_eq_false_iff, decide_eq_false_iff_not]
        left; omega
      · unfold tooDeep
        simp only [Bool.and_eq_false_iff, decide_eq_false_iff_not]
        right; exact hpos
    obtain ⟨e1, e2, e3, e4⟩ := visitD_eq_visit (conn := conn) (nod := nod) s o hs hno hnd
    have hs1 := sizedD_visit (conn := conn) (elev := elev) (nod := nod) (md := md) (z0 := z0) (i0 := i0) s o hs
    obtain ⟨a1, a2, a3, a4, a5⟩ := ih _ hs1 e2 (by rw [e1]; exact hdepth)
    exact ⟨by rw [a1, e1], a2, a3, by rw [a4, e3], by rw [a5, e4]⟩

/-- the depth-limited loop is the unlimited loop as long as the unlimited run never raises a cell
by `md` or more -/
theorem loopD_eq (k : Nat) (s : StD) (hs : SizedD G s) (hno : NoOpen s)
    (hdepth : ∀ c, c < G.n → (fillLoop G conn elev k s.toSt).f[c]! - elev[c]! < md) :
    (fillLoopD G conn elev nod md k s).toSt = fillLoop G conn elev k s.toSt ∧
    (fillLoopD G conn elev nod md k s).ev = s.ev ∧ (fillLoopD G conn elev nod md k s).evc = s.evc := by
  induction k generalizing s with
  | zero => exact ⟨rfl, rfl, rfl⟩
  | succ k ih =>
    cases hq : s.q with
    | nil =>
      have hq' : s.toSt.q = [] := hq
      have e1 : fillLoopD G conn elev nod md (k + 1) s = s := by rw [fillLoopD]; simp only [hq]
      have e2 : fillLoop G conn elev (k + 1) s.toSt = s.toSt := by rw [fillLoop]; simp only [hq']
      rw [e1, e2]; exact ⟨rfl, rfl, rfl⟩
    | cons h rest =>
      have hq' : s.toSt.q = h :: rest := hq
      have e1 : fillLoopD G conn elev nod md (k + 1) s =
          fillLoopD G conn elev nod md k (popStepD G conn elev nod md h { s with q := rest }) := by
        rw [fillLoopD]; simp only [hq]
      have hun : fillLoop G conn elev (k + 1) s.toSt =
          fillLoop G conn elev k (popStep G conn elev h { s.toSt with q := rest }) := by
        rw [fillLoop]; simp only [hq']
      rw [hun] at hdepth
      rw [hun, e1]
      have hs0 : SizedD G { s with q := rest } := hs
      have hno0 : NoOpen { s with q := rest } := hno
      obtain ⟨a1, a2, a3, a4, a5⟩ := foldD_eq (conn := conn) (nod := nod) (z0 := h.z) (i0 := h.idx) k
        (offsets conn) { s with q := rest } hs0 hno0 hdepth
      obtain ⟨b1, b2, b3⟩ := ih (popStepD G conn elev nod md h { s with q := rest }) a3 a2
        (by unfold popStepD; rw [a1]; exact hdepth)
      refine ⟨?_, ?_, ?_⟩
      · rw [b1]; unfold popStepD popStep; rw [a1]; rfl
      · rw [b2]; exact a4
      · rw [b3]; exact a5


/-- **no depression as deep as `max_depth` ⇒ same result as unlimited depth**: if the unlimited fill
raises no cell by `md` or more, the depth-limited model returns exactly the unlimited output, with an
empty heap and without a single too-deep event -/
theorem fillModelDepth_eq_unlimited_aux {pits : Option (List Nat)} {minMode : Bool} {elvMax : Option Int}
    {f0 : Array Int} {d80 : Array Nat} {fin0 : Bool} (hN : nod.size = G.n) (hE : elev.size = G.n)
    (hpits : ∀ l, pits = some l → ∀ p, p ∈ l → p < G.n → nod[p]! = false)
    (h0 : fillModelE G conn elev nod pits minMode elvMax = .ok (f0, d80, fin0))
    (hdepth : ∀ c, c < G.n → f0[c]! - elev[c]! < md) :
    fillModelDepth G conn elev nod pits minMode elvMax md =
      .ok (f0, d80, true, 0, Array.replicate G.n 0) := by
  unfold fillModelE at h0
  unfold fillModelDepth
  split at h0
  · cases h0
  · rename_i seed hseed
    injection h0 with h0
    simp only [Prod.mk.injEq] at h0
    obtain ⟨hf, hd, _⟩ := h0
    dsimp only
    have hS := seedsOfE_size hseed
    obtain ⟨hq, _⟩ := fillFrom_cert (conn := conn) hN hE hS (seedsOfE_valid hpits hseed)
    have hst : fillLoop G conn elev (fuelD G) (initState G elev nod seed) =
        fillLoop G conn elev (G.n + 1) (initState G elev nod seed) := by
      have := fillLoop_stable (conn := conn) (elev := elev) (G.n + 1) (11 * G.n) _ hq
      rw [show fuelD G = G.n + 1 + 11 * G.n by unfold fuelD; omega]
      exact this
    have hsD := sizedD_init (elev := elev) hN hE hS
    have hno : NoOpen (initStateD G elev nod seed) := by
      intro c hc
      exfalso
      simp only [initStateD] at hc
      by_cases hcn : c < G.n
      · simp [hcn] at hc
      · simp [hcn] at hc
    have hto : (initStateD G elev nod seed).toSt = initState G elev nod seed := rfl
    obtain ⟨e1, e2, e3⟩ := loopD_eq (conn := conn) (nod := nod) (md := md) (fuelD G) _ hsD hno
      (by rw [hto, hst, hf]; exact hdepth)
    rw [hto, hst] at e1
    have q1 : (fillLoopD G conn elev nod md (fuelD G) (initStateD G elev nod seed)).q = [] := by
      have := congrArg St.q e1; simp only [StD.toSt] at this; rw [this, hq]
    have f1 : (fillLoopD G conn elev nod md (fuelD G) (initStateD G elev nod seed)).f = f0 := by
      have := congrArg St.f e1; simp only [StD.toSt] at this; rw [this, hf]
    have d1 : (fillLoopD G conn elev nod md (fuelD G) (initStateD G elev nod seed)).d8 = d80 := by
      have := congrArg St.d8 e1; simp only [StD.toSt] at this; rw [this, hd]
    rw [f1, d1, q1, e2, e3]
    rfl

end Pf.C06
