import PfVerif.Proofs.C09_ihuSize
import PfVerif.Proofs.C09Trace
/-! Well-formedness invariant of the (coarse links, outlet pixels) pair through the iterative IHU stages (C09 extension,
fourth stage): array lemmas, exact restoration by "unroll edits", the pointwise relation `W`. Core Lean only. -/
namespace Pf.C09ihu
open Pf

/-! ### arrays -/

theorem arr_ext {a b : Array Nat} (hs : a.size = b.size) (h : ∀ i : Nat, a[i]! = b[i]!) : a = b := by
  apply Array.ext hs
  intro i h1 h2
  have := h i
  rw [getElem!_pos (c := a) (i := i) (h := h1), getElem!_pos (c := b) (i := i) (h := h2)] at this
  exact this

theorem set_set_same (a : Array Nat) (c v w : Nat) :
    (a.setIfInBounds c v).setIfInBounds c w = a.setIfInBounds c w := by
  apply arr_ext (by simp)
  intro i
  simp only [get!_setIfInBounds, Array.size_setIfInBounds]
  split <;> rfl

theorem get!_oob (a : Array Nat) (c : Nat) (h : ¬ c < a.size) : a[c]! = 0 := by
  rw [getElem!_neg a c h]; rfl

theorem set_get_self (a : Array Nat) (c : Nat) : a.setIfInBounds c a[c]! = a := by
  apply arr_ext (by simp)
  intro i
  simp only [get!_setIfInBounds]
  split
  · rename_i h; rw [h.1]
  · rfl

theorem set_comm (a : Array Nat) (c d v w : Nat) (h : c ≠ d) :
    (a.setIfInBounds c v).setIfInBounds d w = (a.setIfInBounds d w).setIfInBounds c v := by
  apply arr_ext (by simp)
  intro i
  simp only [get!_setIfInBounds, Array.size_setIfInBounds]
  split
  · rename_i h1
    split
    · rename_i h2; exact absurd (h2.1.trans h1.1.symm) h
    · rfl
  · rfl

/-- apply a list of (index, value) edits from left to right (the two loops of "unroll edits") -/
def applyEd (l : List (Nat × Nat)) (a : Array Nat) : Array Nat := l.foldl (fun a x => a.setIfInBounds x.1 x.2) a

theorem applyEd_nil (a : Array Nat) : applyEd [] a = a := rfl

theorem applyEd_cons (x : Nat × Nat) (l : List (Nat × Nat)) (a : Array Nat) :
    applyEd (x :: l) a = applyEd l (a.setIfInBounds x.1 x.2) := rfl

theorem applyEd_snoc (l : List (Nat × Nat)) (x : Nat × Nat) (a : Array Nat) :
    applyEd (l ++ [x]) a = (applyEd l a).setIfInBounds x.1 x.2 := by
  simp [applyEd, List.foldl_append]

theorem applyEd_size (l : List (Nat × Nat)) (a : Array Nat) : (applyEd l a).size = a.size :=
  foldl_set_size l a

/-- an edit of a cell that does not occur in the list commutes with the list -/
theorem applyEd_set_comm (l : List (Nat × Nat)) : ∀ (a : Array Nat) (c v : Nat), (∀ x ∈ l, x.1 ≠ c) →
    applyEd l (a.setIfInBounds c v) = (applyEd l a).setIfInBounds c v := by
  induction l with
  | nil => intro a c v _; rfl
  | cons y l ih =>
    intro a c v h
    rw [applyEd_cons, applyEd_cons, set_comm a c y.1 v y.2 (fun hh => h y List.mem_cons_self hh.symm)]
    exact ih _ c v (fun x hx => h x (List.mem_cons_of_mem _ hx))

/-- a later edit of cell `c` absorbs an earlier one made before the list was applied -/
theorem applyEd_absorb (l : List (Nat × Nat)) : ∀ (a : Array Nat) (c v w : Nat),
    (applyEd l (a.setIfInBounds c v)).setIfInBounds c w = (applyEd l a).setIfInBounds c w := by
  induction l with
  | nil => intro a c v w; exact set_set_same a c v w
  | cons y l ih =>
    intro a c v w
    rw [applyEd_cons, applyEd_cons]
    by_cases hy : y.1 = c
    · rw [hy, set_set_same]
    · rw [set_comm a c y.1 v y.2 (fun hh => hy hh.symm)]
      exact ih _ c v w

theorem applyEd_idem_rev (l : List (Nat × Nat)) : ∀ a : Array Nat,
    applyEd l.reverse (applyEd l.reverse a) = applyEd l.reverse a := by
  induction l with
  | nil => intro a; rfl
  | cons x l ih =>
    intro a
    rw [List.reverse_cons, applyEd_snoc, applyEd_snoc, applyEd_absorb, ih]

/-- applying a list of edits twice is the same as applying it once -/
theorem applyEd_idem (l : List (Nat × Nat)) (a : Array Nat) : applyEd l (applyEd l a) = applyEd l a := by
  have := applyEd_idem_rev l.reverse a
  rwa [List.reverse_reverse] at this

/-! ### the state of STEP 4 and exact restoration -/

theorem S4.setDs_cds (s : S4) (c v : Nat) : (s.setDs c v).cds = s.cds.setIfInBounds c v := by
  unfold S4.setDs
  split
  · rfl
  · rename_i h
    simp only [bne_iff_ne, ne_eq, Decidable.not_not] at h
    rw [← h, set_get_self]

theorem S4.setOut_out (s : S4) (c p : Nat) : (s.setOut c p).out = s.out.setIfInBounds c p := by
  unfold S4.setOut
  split
  · rfl
  · rename_i h
    simp only [bne_iff_ne, ne_eq, Decidable.not_not] at h
    rw [h, set_get_self]

theorem S4.setDs_bott (s : S4) (c v : Nat) : (s.setDs c v).bott = s.bott := by
  unfold S4.setDs; split <;> rfl
theorem S4.setDs_idx0 (s : S4) (c v : Nat) : (s.setDs c v).idx0 = s.idx0 := by
  unfold S4.setDs; split <;> rfl
theorem S4.setOut_bott (s : S4) (c v : Nat) : (s.setOut c v).bott = s.bott := by
  unfold S4.setOut; split <;> rfl
theorem S4.setOut_idx0 (s : S4) (c v : Nat) : (s.setOut c v).idx0 = s.idx0 := by
  unfold S4.setOut; split <;> rfl
theorem S4.setOut_dsEd (s : S4) (c v : Nat) : (s.setOut c v).dsEd = s.dsEd := by
  unfold S4.setOut; split <;> rfl

theorem S4.unroll_cds (s : S4) : s.unroll.cds = applyEd s.dsEd.reverse s.cds := rfl
theorem S4.unroll_out (s : S4) : s.unroll.out = applyEd s.outEd s.out := rfl

theorem outEdited_false (s : S4) (c : Nat) : s.outEdited c = false ↔ ∀ x ∈ s.outEd, x.1 ≠ c := by
  simp [S4.outEdited]

/-- "unroll edits" would give back exactly `(cds0, out0)` -/
structure Rest (s : S4) (cds0 out0 : Array Nat) : Prop where
  rds : applyEd s.dsEd.reverse s.cds = cds0
  rout : applyEd s.outEd s.out = out0
  rfix : ∀ c, s.outEdited c = false → s.out[c]! = out0[c]!

theorem Rest.start (s : S4) (h1 : s.dsEd = []) (h2 : s.outEd = []) : Rest s s.cds s.out := by
  refine ⟨by rw [h1]; rfl, by rw [h2]; rfl, fun _ _ => rfl⟩

theorem Rest.setDs {s : S4} {cds0 out0 : Array Nat} (h : Rest s cds0 out0) (c v : Nat) :
    Rest (s.setDs c v) cds0 out0 := by
  unfold S4.setDs
  split
  · refine ⟨?_, h.rout, h.rfix⟩
    show applyEd (s.dsEd ++ [(c, s.cds[c]!)]).reverse (s.cds.setIfInBounds c v) = cds0
    rw [List.reverse_append, List.reverse_singleton, List.singleton_append, applyEd_cons]
    show applyEd s.dsEd.reverse ((s.cds.setIfInBounds c v).setIfInBounds c s.cds[c]!) = cds0
    rw [set_set_same, set_get_self]
    exact h.rds
  · exact h

theorem Rest.setOut {s : S4} {cds0 out0 : Array Nat} (h : Rest s cds0 out0) (c p : Nat)
    (hc : s.outEdited c = false) : Rest (s.setOut c p) cds0 out0 := by
  unfold S4.setOut
  split
  · refine ⟨h.rds, ?_, ?_⟩
    · show applyEd (s.outEd ++ [(c, s.out[c]!)]) (s.out.setIfInBounds c p) = out0
      rw [applyEd_snoc, applyEd_set_comm _ _ _ _ ((outEdited_false s c).mp hc)]
      show ((applyEd s.outEd s.out).setIfInBounds c p).setIfInBounds c s.out[c]! = out0
      rw [set_set_same, h.rout, h.rfix c hc, set_get_self]
    · intro c' hc'
      have hc'' : (∀ x ∈ s.outEd ++ [(c, s.out[c]!)], x.1 ≠ c') := by
        have := hc'
        simp only [S4.outEdited, List.any_eq_false] at this
        intro x hx
        have := this x hx
        simpa using this
      have hne : c ≠ c' := hc'' (c, s.out[c]!) (by simp)
      show (s.out.setIfInBounds c p)[c']! = out0[c']!
      rw [get!_setIfInBounds]
      split
      · rename_i hh; exact absurd hh.1 hne
      · apply h.rfix c'
        rw [outEdited_false]
        intro x hx
        exact hc'' x (List.mem_append_left _ hx)
  · exact h

theorem Rest.unroll {s : S4} {cds0 out0 : Array Nat} (h : Rest s cds0 out0) :
    Rest s.unroll cds0 out0 ∧ s.unroll.cds = cds0 ∧ s.unroll.out = out0 := by
  have h1 : s.unroll.cds = cds0 := h.rds
  have h2 : s.unroll.out = out0 := h.rout
  refine ⟨⟨?_, ?_, ?_⟩, h1, h2⟩
  · show applyEd s.dsEd.reverse s.unroll.cds = cds0
    rw [S4.unroll_cds, applyEd_idem]; exact h.rds
  · show applyEd s.outEd s.unroll.out = out0
    rw [S4.unroll_out, applyEd_idem]; exact h.rout
  · intro c _; rw [h2]

/-! ### the pointwise relation `W c v p` between a coarse cell, its link and its outlet pixel -/

/-- what the invariant needs of the relation `W`, of the geometry and of the fine network -/
structure WCtx (e : Env) (n : Nat) (W : Nat → Nat → Nat → Prop) : Prop where
  /-- a link to an 8-neighbour inside the raster together with a valid outlet pixel is acceptable -/
  w1 : ∀ c v p, c < n → v < n → inD8 c v e.ncol = true → ValidPx e.ds p → W c v p
  /-- links are in range, outlet pixels are missing or valid, a linked cell has an outlet pixel -/
  w2 : ∀ c v p, W c v p → v ≤ n ∧ (p = e.ds.size ∨ ValidPx e.ds p) ∧ (v ≠ n → p ≠ e.ds.size)
  /-- the outlet pixel of a linked cell may be replaced by any valid pixel -/
  w3 : ∀ c v p p', W c v p → v ≠ n → ValidPx e.ds p' → W c v p'
  cell : ∀ p, ValidPx e.ds p → e.cell p < n
  wf : FineWF e.ds
  ncell : e.nrow * e.ncol = n

/-- the invariant on a pair of arrays; `A` / `B`: cells whose link / outlet pixel must stay non-missing -/
structure WArr (e : Env) (n : Nat) (W : Nat → Nat → Nat → Prop) (A B : Nat → Prop) (cds out : Array Nat) : Prop where
  szc : cds.size = n
  szo : out.size = n
  ok : ∀ c, c < n → W c cds[c]! out[c]!
  actC : ∀ c, c < n → A c → cds[c]! ≠ n
  actO : ∀ c, c < n → B c → out[c]! ≠ e.ds.size

section warr
variable {e : Env} {n : Nat} {W : Nat → Nat → Nat → Prop} {A B : Nat → Prop}

theorem WArr.valid_of_link (hw : WCtx e n W) {cds out : Array Nat} (h : WArr e n W A B cds out) (c : Nat) (hc : c < n)
    (hv : cds[c]! ≠ n) : ValidPx e.ds out[c]! := by
  obtain ⟨_, h2, h3⟩ := hw.w2 _ _ _ (h.ok c hc)
  rcases h2 with h2 | h2
  · exact absurd h2 (h3 hv)
  · exact h2

theorem WArr.valid_of_out (hw : WCtx e n W) {cds out : Array Nat} (h : WArr e n W A B cds out) (c : Nat) (hc : c < n)
    (hv : out[c]! ≠ e.ds.size) : ValidPx e.ds out[c]! := by
  obtain ⟨_, h2, _⟩ := hw.w2 _ _ _ (h.ok c hc)
  rcases h2 with h2 | h2
  · exact absurd h2 hv
  · exact h2

theorem WArr.link_le (hw : WCtx e n W) {cds out : Array Nat} (h : WArr e n W A B cds out) (c : Nat) :
    cds[c]! ≤ n := by
  by_cases hc : c < n
  · exact (hw.w2 _ _ _ (h.ok c hc)).1
  · rw [get!_oob cds c (by rw [h.szc]; exact hc)]; omega

/-- re-point cell `c` (which has an outlet pixel) to the 8-neighbour `v` -/
theorem WArr.setDs (hw : WCtx e n W) {cds out : Array Nat} (h : WArr e n W A B cds out) (c v : Nat)
    (hv : c < n → v < n ∧ inD8 c v e.ncol = true ∧ out[c]! ≠ e.ds.size) :
    WArr e n W A B (cds.setIfInBounds c v) out := by
  refine ⟨by simp [h.szc], h.szo, ?_, ?_, h.actO⟩
  · intro c' hc'
    rw [get!_setIfInBounds]
    split
    · rename_i hh
      obtain ⟨rfl, _⟩ := hh
      obtain ⟨h1, h2, h3⟩ := hv hc'
      exact hw.w1 _ _ _ hc' h1 h2 (h.valid_of_out hw _ hc' h3)
    · exact h.ok c' hc'
  · intro c' hc' ha
    rw [get!_setIfInBounds]
    split
    · rename_i hh
      obtain ⟨rfl, _⟩ := hh
      have := (hv hc').1
      omega
    · exact h.actC c' hc' ha

/-- move the outlet pixel of the linked cell `c` to the valid pixel `p` -/
theorem WArr.setOut (hw : WCtx e n W) {cds out : Array Nat} (h : WArr e n W A B cds out) (c p : Nat)
    (hv : c < n → cds[c]! ≠ n ∧ ValidPx e.ds p) :
    WArr e n W A B cds (out.setIfInBounds c p) := by
  refine ⟨h.szc, by simp [h.szo], ?_, h.actC, ?_⟩
  · intro c' hc'
    rw [get!_setIfInBounds]
    split
    · rename_i hh
      obtain ⟨rfl, _⟩ := hh
      obtain ⟨h1, h2⟩ := hv hc'
      exact hw.w3 _ _ _ _ (h.ok _ hc') h1 h2
    · exact h.ok c' hc'
  · intro c' hc' hb
    rw [get!_setIfInBounds]
    split
    · rename_i hh
      obtain ⟨rfl, _⟩ := hh
      have := (hv hc').2.1
      omega
    · exact h.actO c' hc' hb

end warr

end Pf.C09ihu
