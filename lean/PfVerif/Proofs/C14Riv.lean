import PfVerif.Proofs.C14
/-! Lemmas about the model of `streams.smooth_rivlen`. Core Lean only. -/
namespace Pf

/-- `k` lies in the `_window` of `idx0` with half-width `n` -/
def inRivWindow (ds usMain : Array Nat) (n idx0 k : Nat) : Prop :=
  k = idx0 ∨ k ∈ upList ds usMain n idx0 ∨ k ∈ downList ds none 0 n idx0

theorem mem_rivSlice {ds usMain : Array Nat} {n i idx0 k : Nat} (h : k ∈ rivSlice ds usMain n i idx0) :
    inRivWindow ds usMain n idx0 k := by
  simp only [rivSlice, List.mem_append, List.mem_reverse, List.mem_singleton] at h
  rcases h with (h | h) | h
  · exact Or.inr (Or.inl (List.mem_of_mem_take h))
  · exact Or.inl h
  · exact Or.inr (Or.inr (List.mem_of_mem_take h))

theorem setAll_size (a : Array Rat) (idxs : List Nat) (v : Rat) : (setAll a idxs v).size = a.size :=
  (foldl_set_get v 0 idxs a).1

theorem setAll_get (a : Array Rat) (idxs : List Nat) (v : Rat) (j : Nat) :
    (setAll a idxs v)[j]! = if j ∈ idxs ∧ j < a.size then v else a[j]! :=
  (foldl_set_get v j idxs a).2

/-- invariant of the inner loop: the remembered window consists of cells of the `_window` of `idx0`
that currently hold a value -/
theorem smoothInner_mem (ds usMain : Array Nat) (a : Array Rat) (nd minLen : Rat) (n idx0 : Nat) :
    ∀ (cnt i : Nat) (st : Rat × List Nat),
      (∀ k ∈ st.2, a[k]! ≠ nd ∧ inRivWindow ds usMain n idx0 k) →
      ∀ k ∈ (smoothInner ds usMain a nd minLen n idx0 cnt i st).2,
        a[k]! ≠ nd ∧ inRivWindow ds usMain n idx0 k := by
  intro cnt
  induction cnt with
  | zero => intro i st h; exact h
  | succ cnt ih =>
    intro i st h
    simp only [smoothInner]
    by_cases h1 : meanAt a ((rivSlice ds usMain n i idx0).filter fun k => a[k]! != nd) > st.1
    · simp only [h1, if_true]
      have hnew : ∀ k ∈ (meanAt a ((rivSlice ds usMain n i idx0).filter fun k => a[k]! != nd),
          (rivSlice ds usMain n i idx0).filter fun k => a[k]! != nd).2,
          a[k]! ≠ nd ∧ inRivWindow ds usMain n idx0 k := by
        intro k hk
        simp only [List.mem_filter, bne_iff_ne, ne_eq] at hk
        exact ⟨hk.2, mem_rivSlice hk.1⟩
      split
      · exact hnew
      · exact ih _ _ hnew
    · simp only [h1, if_false]
      split
      · exact h
      · exact ih _ _ h

/-- one outer step changes only cells that hold a value and lie in the window of `idx0` -/
theorem smoothStep_changed (ds usMain : Array Nat) (nd minLen : Rat) (n : Nat) (st : Array Rat × Bool)
    (idx0 j : Nat) (h : (smoothStep ds usMain nd minLen n st idx0).1[j]! ≠ st.1[j]!) :
    st.1[j]! ≠ nd ∧ inRivWindow ds usMain n idx0 j := by
  unfold smoothStep at h
  simp only [] at h
  split at h
  · split at h
    · rw [setAll_get] at h
      split at h
      · rename_i hm
        exact smoothInner_mem ds usMain st.1 nd minLen n idx0 (n - 1) 1 (st.1[idx0]!, [])
          (fun k hk => by cases hk) j hm.1
      · exact absurd rfl h
    · exact absurd rfl h
  · exact absurd rfl h

theorem smoothStep_size (ds usMain : Array Nat) (nd minLen : Rat) (n : Nat) (st : Array Rat × Bool)
    (idx0 : Nat) : (smoothStep ds usMain nd minLen n st idx0).1.size = st.1.size := by
  unfold smoothStep
  simp only []
  split
  · split
    · exact setAll_size _ _ _
    · rfl
  · rfl

/-- the outer loop: a cell not in the window of any processed cell, or holding no value, is unchanged -/
theorem smoothFold_frame (ds usMain : Array Nat) (nd minLen : Rat) (n j : Nat) :
    ∀ (l : List Nat) (st : Array Rat × Bool),
      (st.1[j]! = nd ∨ ∀ idx0 ∈ l, ¬ inRivWindow ds usMain n idx0 j) →
      (l.foldl (smoothStep ds usMain nd minLen n) st).1[j]! = st.1[j]! := by
  intro l
  induction l with
  | nil => intro st _; rfl
  | cons x l ih =>
    intro st h
    rw [List.foldl_cons]
    have hx : (smoothStep ds usMain nd minLen n st x).1[j]! = st.1[j]! := by
      apply Classical.byContradiction
      intro hne
      obtain ⟨h1, h2⟩ := smoothStep_changed ds usMain nd minLen n st x j hne
      rcases h with h | h
      · exact h1 h
      · exact h x (by simp) h2
    rw [ih _ (by
      rcases h with h | h
      · exact Or.inl (by rw [hx]; exact h)
      · exact Or.inr (fun i hi => h i (by simp [hi]))), hx]

/-- with `max_window < 4` no window is ever tried: every step is the identity -/
theorem smoothStep_small (ds usMain : Array Nat) (nd minLen : Rat) (n : Nat) (hn : n ≤ 1)
    (st : Array Rat × Bool) (idx0 : Nat) : smoothStep ds usMain nd minLen n st idx0 = st := by
  have h0 : n - 1 = 0 := by omega
  unfold smoothStep
  simp only [h0, smoothInner]
  split
  · rw [if_neg (Rat.lt_irrefl)]
  · rfl

/-- a cell at or above the threshold that lies in no OTHER cell's window is unchanged -/
theorem smoothFold_frame_ge (ds usMain : Array Nat) (nd minLen : Rat) (n j : Nat) :
    ∀ (l : List Nat) (st : Array Rat × Bool), ¬ (st.1[j]! < minLen) →
      (∀ idx0 ∈ l, idx0 ≠ j → ¬ inRivWindow ds usMain n idx0 j) →
      (l.foldl (smoothStep ds usMain nd minLen n) st).1[j]! = st.1[j]! := by
  intro l
  induction l with
  | nil => intro st _ _; rfl
  | cons x l ih =>
    intro st hge h
    rw [List.foldl_cons]
    have hx : (smoothStep ds usMain nd minLen n st x).1[j]! = st.1[j]! := by
      by_cases hxj : x = j
      · subst hxj
        unfold smoothStep
        simp [hge]
      · apply Classical.byContradiction
        intro hne
        exact h x (by simp) hxj (smoothStep_changed ds usMain nd minLen n st x j hne).2
    rw [ih _ (by rw [hx]; exact hge) (fun i hi => h i (by simp [hi])), hx]

/-! ### conservation of the total length -/

/-- `Σ_j a[j]` -/
def totalLen (a : Array Rat) : Rat := a.toList.sum

theorem sum_set_rat (l : List Rat) : ∀ (k : Nat) (v : Rat), k < l.length →
    (l.set k v).sum = l.sum - l[k]! + v := by
  induction l with
  | nil => intro k v h; simp at h
  | cons x l ih =>
    intro k v h
    cases k with
    | zero => simp; grind
    | succ k =>
      have := ih k v (by simpa using h)
      simp [List.set] at this ⊢
      grind

theorem totalLen_set (a : Array Rat) (k : Nat) (v : Rat) (hk : k < a.size) :
    totalLen (a.setIfInBounds k v) = totalLen a - a[k]! + v := by
  unfold totalLen
  rw [Array.toList_setIfInBounds, sum_set_rat _ _ _ (by simpa using hk)]
  simp [hk]

theorem totalLen_setAll (v : Rat) : ∀ (idxs : List Nat) (a : Array Rat), idxs.Nodup → (∀ k ∈ idxs, k < a.size) →
    totalLen (setAll a idxs v) = totalLen a - (idxs.map fun k => a[k]!).sum + (idxs.length : Rat) * v := by
  intro idxs
  induction idxs with
  | nil => intro a _ _; simp [setAll]; grind
  | cons k rest ih =>
    intro a hnd hb
    have hk : k < a.size := hb k (by simp)
    have hnd' := (List.nodup_cons.1 hnd)
    have hrest : ∀ k' ∈ rest, (a.setIfInBounds k v)[k']! = a[k']! := by
      intro k' hk'
      rw [get!_setIfInBounds]
      have : k ≠ k' := fun h => hnd'.1 (h ▸ hk')
      simp [this]
    have hmap : (rest.map fun k' => (a.setIfInBounds k v)[k']!) = rest.map fun k' => a[k']! :=
      List.map_congr_left hrest
    show totalLen (setAll (a.setIfInBounds k v) rest v) = _
    rw [ih (a.setIfInBounds k v) hnd'.2 (fun k' hk' => by simpa using hb k' (by simp [hk'])),
      totalLen_set a k v hk, hmap]
    simp only [List.map_cons, List.sum_cons, List.length_cons]
    have : ((rest.length + 1 : Nat) : Rat) = (rest.length : Rat) + 1 := by simp
    rw [this]
    grind

/-- overwriting a duplicate-free set of cells with their mean keeps the total -/
theorem totalLen_setAll_mean (a : Array Rat) (idxs : List Nat) (hnd : idxs.Nodup)
    (hb : ∀ k ∈ idxs, k < a.size) : totalLen (setAll a idxs (meanAt a idxs)) = totalLen a := by
  rw [totalLen_setAll _ idxs a hnd hb]
  unfold meanAt
  by_cases h0 : idxs.length = 0
  · have : idxs = [] := List.length_eq_zero_iff.1 h0
    subst this; simp; grind
  · have hne : (idxs.length : Rat) ≠ 0 := by exact_mod_cast h0
    grind

/-- generic invariant of the inner loop -/
theorem smoothInner_inv (ds usMain : Array Nat) (a : Array Rat) (nd minLen : Rat) (n idx0 : Nat)
    (Q : Rat × List Nat → Prop)
    (hnew : ∀ i, Q (meanAt a ((rivSlice ds usMain n i idx0).filter fun k => a[k]! != nd),
                    (rivSlice ds usMain n i idx0).filter fun k => a[k]! != nd)) :
    ∀ (cnt i : Nat) (st : Rat × List Nat), Q st → Q (smoothInner ds usMain a nd minLen n idx0 cnt i st) := by
  intro cnt
  induction cnt with
  | zero => intro i st h; exact h
  | succ cnt ih =>
    intro i st h
    simp only [smoothInner]
    by_cases h1 : meanAt a ((rivSlice ds usMain n i idx0).filter fun k => a[k]! != nd) > st.1
    · simp only [h1, if_true]
      split
      · exact hnew i
      · exact ih _ _ (hnew i)
    · simp only [h1, if_false]
      split
      · exact h
      · exact ih _ _ h

theorem smoothStep_total (ds usMain : Array Nat) (nd minLen : Rat) (n : Nat) (st : Array Rat × Bool)
    (idx0 : Nat)
    (hnd : ∀ i, (rivSlice ds usMain n i idx0).Nodup)
    (hb : ∀ k, inRivWindow ds usMain n idx0 k → k < st.1.size) :
    totalLen (smoothStep ds usMain nd minLen n st idx0).1 = totalLen st.1 := by
  have hQ := smoothInner_inv ds usMain st.1 nd minLen n idx0
    (fun s => s.2 = [] ∨ (s.1 = meanAt st.1 s.2 ∧ s.2.Nodup ∧ ∀ k ∈ s.2, k < st.1.size))
    (fun i => Or.inr ⟨rfl, (hnd i).filter _, fun k hk => hb k (mem_rivSlice (List.mem_filter.1 hk).1)⟩)
    (n - 1) 1 (st.1[idx0]!, []) (Or.inl rfl)
  unfold smoothStep
  simp only []
  split
  · split
    · rcases hQ with h | ⟨h1, h2, h3⟩
      · rw [h]; rfl
      · show totalLen (setAll st.1 _ _) = _
        rw [h1]
        exact totalLen_setAll_mean st.1 _ h2 h3
    · rfl
  · rfl

theorem smoothFold_total (ds usMain : Array Nat) (nd minLen : Rat) (n : Nat) :
    ∀ (l : List Nat) (st : Array Rat × Bool),
      (∀ idx0 ∈ l, (∀ i, (rivSlice ds usMain n i idx0).Nodup) ∧
        ∀ k, inRivWindow ds usMain n idx0 k → k < st.1.size) →
      totalLen (l.foldl (smoothStep ds usMain nd minLen n) st).1 = totalLen st.1 := by
  intro l
  induction l with
  | nil => intro st _; rfl
  | cons x l ih =>
    intro st h
    rw [List.foldl_cons, ih _ (fun i hi => by rw [smoothStep_size]; exact h i (by simp [hi])),
      smoothStep_total ds usMain nd minLen n st x (h x (by simp)).1 (h x (by simp)).2]

/-! the hypotheses in terms of `core._window` itself -/

theorem window_none_eq (ds usMain : Array Nat) (n idx0 : Nat) :
    window ds usMain none n idx0 =
      (upList ds usMain n idx0).reverse ++ [idx0] ++ downList ds none 0 n idx0 := by
  rw [window_eq]; rfl

theorem inRivWindow_iff (ds usMain : Array Nat) (n idx0 k : Nat) :
    inRivWindow ds usMain n idx0 k ↔ k ∈ window ds usMain none n idx0 := by
  rw [window_none_eq]
  simp only [inRivWindow, List.mem_append, List.mem_reverse, List.mem_singleton]
  constructor
  · rintro (h | h | h)
    · exact Or.inl (Or.inr h)
    · exact Or.inl (Or.inl h)
    · exact Or.inr h
  · rintro ((h | h) | h)
    · exact Or.inr (Or.inl h)
    · exact Or.inl h
    · exact Or.inr (Or.inr h)

theorem rivSlice_nodup (ds usMain : Array Nat) (n i idx0 : Nat)
    (h : (window ds usMain none n idx0).Nodup) : (rivSlice ds usMain n i idx0).Nodup := by
  rw [window_none_eq] at h
  refine List.Sublist.nodup ?_ h
  unfold rivSlice
  exact ((List.take_sublist i _).reverse.append (List.Sublist.refl _)).append (List.take_sublist i _)

end Pf
