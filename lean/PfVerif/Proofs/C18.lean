import PfVerif.Model.C18
/-! Helper lemmas for C18: the explicit "first outlet on the downstream path" statement, the
invariant of the `idxs.append(idx); subbas[idx] = len(idxs)` idiom, soundness of the executable
walks. Core Lean only. -/
namespace Pf

/-! ### the statement every sub-basin map has to satisfy -/

/-- `v` is the label of cell `i`: 0 if no outlet lies on the downstream path of `i` (including `i`),
otherwise the label `labOf o` of the FIRST outlet `o` met walking downstream. The path is the
unbounded sequence `i, ds i, ds (ds i), …` (it becomes constant at a pit). -/
def LabelOK (ds : Array Nat) (isOut : Nat → Prop) (labOf : Nat → Int) (i : Nat) (v : Int) : Prop :=
  (v = 0 ∧ ∀ m, ¬ isOut (iterA ds m i)) ∨
  (∃ m, isOut (iterA ds m i) ∧ v = labOf (iterA ds m i) ∧ ∀ t, t < m → ¬ isOut (iterA ds t i))

theorem LabelOK.congr {ds : Array Nat} {isOut isOut' : Nat → Prop} {labOf labOf' : Nat → Int}
    {i : Nat} {v : Int} (h : LabelOK ds isOut labOf i v) (h1 : ∀ o, isOut o ↔ isOut' o)
    (h2 : ∀ o, isOut o → labOf o = labOf' o) : LabelOK ds isOut' labOf' i v := by
  rcases h with ⟨hv, hn⟩ | ⟨m, hm, hv, hn⟩
  · exact Or.inl ⟨hv, fun m hm => hn m ((h1 _).2 hm)⟩
  · exact Or.inr ⟨m, (h1 _).1 hm, by rw [hv, h2 _ hm], fun t ht hc => hn t ht ((h1 _).2 hc)⟩

theorem nodup_reverse' {l : List Nat} (h : l.Nodup) : l.reverse.Nodup := by
  unfold List.Nodup at *
  rw [List.pairwise_reverse]
  exact h.imp (fun hab => Ne.symm hab)

theorem amap_get! {f : Int → Int} (a : Array Int) (i : Nat) (h : i < a.size) :
    (amap f a)[i]! = f a[i]! := by
  simp [amap, h]

theorem iterA_pit (ds : Array Nat) (i : Nat) (h : ds[i]! = i) : ∀ m, iterA ds m i = i := by
  intro m
  induction m with
  | zero => rfl
  | succ m ih => simp only [iterA, h]; exact ih

/-- an outlet's own label: the first outlet on its path is itself -/
theorem LabelOK.at_outlet {ds : Array Nat} {isOut : Nat → Prop} {labOf : Nat → Int} {o : Nat} {v : Int}
    (h : LabelOK ds isOut labOf o v) (ho : isOut o) : v = labOf o := by
  rcases h with ⟨_, hn⟩ | ⟨m, _, hv, hn⟩
  · exact absurd ho (hn 0)
  · cases m with
    | zero => exact hv
    | succ m => exact absurd ho (hn 0 (Nat.succ_pos m))

/-- when outlet labels are non-zero: unlabelled ⇔ no outlet on the downstream path -/
theorem LabelOK.zero_iff {ds : Array Nat} {isOut : Nat → Prop} {labOf : Nat → Int} {i : Nat} {v : Int}
    (h : LabelOK ds isOut labOf i v) (hnz : ∀ o, isOut o → labOf o ≠ 0) :
    v = 0 ↔ ∀ m, ¬ isOut (iterA ds m i) := by
  constructor
  · intro hv
    rcases h with ⟨_, hn⟩ | ⟨m, hm, hv', _⟩
    · exact hn
    · exact absurd (hv ▸ hv').symm (hnz _ hm)
  · intro hn
    rcases h with ⟨hv, _⟩ | ⟨m, hm, _, _⟩
    · exact hv
    · exact absurd hm (hn m)

/-- the label is determined by the path: `LabelOK` is functional -/
theorem LabelOK.unique {ds : Array Nat} {isOut : Nat → Prop} {labOf : Nat → Int} {i : Nat} {v w : Int}
    (h1 : LabelOK ds isOut labOf i v) (h2 : LabelOK ds isOut labOf i w) : v = w := by
  rcases h1 with ⟨hv, hn⟩ | ⟨m, hm, hv, hn⟩
  · rcases h2 with ⟨hw, _⟩ | ⟨m', hm', _, _⟩
    · rw [hv, hw]
    · exact absurd hm' (hn m')
  · rcases h2 with ⟨_, hn'⟩ | ⟨m', hm', hw, hn'⟩
    · exact absurd hm (hn' m)
    · have : m = m' := by
        rcases Nat.lt_trichotomy m m' with h | h | h
        · exact absurd hm (hn' m h)
        · exact h
        · exact absurd hm' (hn m' h)
      subst this
      rw [hv, hw]

/-- a cell that is not an outlet has the label of its downstream cell (upstream closure) -/
theorem LabelOK.step_down {ds : Array Nat} {isOut : Nat → Prop} {labOf : Nat → Int} {j : Nat} {v : Int}
    (h : LabelOK ds isOut labOf j v) (hj : ¬ isOut j) : LabelOK ds isOut labOf ds[j]! v := by
  rcases h with ⟨hv, hn⟩ | ⟨m, hm, hv, hn⟩
  · exact Or.inl ⟨hv, fun m => hn (m + 1)⟩
  · cases m with
    | zero => exact absurd hm hj
    | succ m => exact Or.inr ⟨m, hm, hv, fun t ht => hn (t + 1) (Nat.succ_lt_succ ht)⟩

/-- `FirstValid` (the relation proved for `fillnodata_upstream`) in explicit path form -/
theorem firstValid_labelOK {ds : Array Nat} {data : Array Int} {i : Nat} {v : Int}
    (h : FirstValid ds data 0 i v) :
    LabelOK ds (fun o => data[o]! ≠ 0) (fun o => data[o]!) i v := by
  induction h with
  | here i hne => exact Or.inr ⟨0, hne, rfl, fun t ht => absurd ht (Nat.not_lt_zero t)⟩
  | pit i he hp =>
    refine Or.inl ⟨rfl, fun m => ?_⟩
    rw [iterA_pit ds i hp m]; exact fun h => h he
  | down i v he hnp _ ih =>
    rcases ih with ⟨hv, hn⟩ | ⟨m, hm, hv, hn⟩
    · refine Or.inl ⟨hv, fun m => ?_⟩
      cases m with
      | zero => exact fun h => h he
      | succ m => exact hn m
    · refine Or.inr ⟨m + 1, hm, hv, fun t ht => ?_⟩
      cases t with
      | zero => exact fun h => h he
      | succ t => exact hn t (Nat.lt_of_succ_lt_succ ht)

/-! ### invariant of the seeding idiom -/

/-- `subbas` holds `k+1` at the `k`-th appended cell and 0 everywhere else; appended cells are
distinct and in range -/
structure SeedInv (n : Nat) (st : Seeds) : Prop where
  size : st.1.size = n
  lt : ∀ o ∈ st.2, o < n
  nodup : st.2.Nodup
  lab : ∀ (k o : Nat), st.2[k]? = some o → st.1[o]! = (k : Int) + 1
  zero : ∀ i, i ∉ st.2 → st.1[i]! = 0

theorem replicate_get! (n : Nat) (v : Int) (hv : v = 0) (i : Nat) : (Array.replicate n v)[i]! = 0 := by
  subst hv
  by_cases h : i < n
  · simp [h]
  · simp [h]

theorem SeedInv.init (n : Nat) : SeedInv n (Array.replicate n 0, []) where
  size := by simp
  lt := by simp
  nodup := List.nodup_nil
  lab := by simp
  zero := fun i _ => replicate_get! n 0 rfl i

theorem SeedInv.push {n : Nat} {st : Seeds} (h : SeedInv n st) {idx : Nat} (hlt : idx < n)
    (hnew : idx ∉ st.2) : SeedInv n (pushOutlet st idx) where
  size := by simp [pushOutlet, h.size]
  lt := by
    intro o ho
    simp only [pushOutlet, List.mem_append, List.mem_singleton] at ho
    rcases ho with ho | ho
    · exact h.lt o ho
    · subst ho; exact hlt
  nodup := by
    simp only [pushOutlet]
    rw [List.nodup_append]
    refine ⟨h.nodup, by simp, ?_⟩
    intro a ha b hb
    simp only [List.mem_singleton] at hb
    subst hb
    exact fun hab => hnew (hab ▸ ha)
  lab := by
    intro k o hk
    simp only [pushOutlet] at hk ⊢
    rw [get!_setIfInBounds]
    by_cases hkl : k < st.2.length
    · rw [List.getElem?_append_left hkl] at hk
      have ho : o ∈ st.2 := List.mem_of_getElem? hk
      have hne : ¬ (idx = o ∧ idx < st.1.size) := fun hc => hnew (hc.1 ▸ ho)
      rw [if_neg hne]
      exact h.lab k o hk
    · have hkl' : st.2.length ≤ k := Nat.le_of_not_lt hkl
      rw [List.getElem?_append_right hkl'] at hk
      have hk0 : k - st.2.length = 0 := by
        cases hd : k - st.2.length with
        | zero => rfl
        | succ d => rw [hd] at hk; simp at hk
      rw [hk0] at hk
      simp only [List.getElem?_cons_zero, Option.some.injEq] at hk
      subst hk
      rw [if_pos ⟨rfl, by rw [h.size]; exact hlt⟩]
      have : k = st.2.length := by omega
      subst this
      simp
  zero := by
    intro i hi
    simp only [pushOutlet, List.mem_append, List.mem_singleton, not_or] at hi ⊢
    rw [get!_setIfInBounds]
    have hne : ¬ (idx = i ∧ idx < st.1.size) := fun hc => hi.2 hc.1.symm
    rw [if_neg hne]
    exact h.zero i hi.1

theorem SeedInv.mem_iff {n : Nat} {st : Seeds} (h : SeedInv n st) (o : Nat) :
    st.1[o]! ≠ 0 ↔ o ∈ st.2 := by
  constructor
  · intro hne
    apply Classical.byContradiction
    intro hc
    exact hne (h.zero o hc)
  · intro ho
    obtain ⟨k, hk, hko⟩ := List.getElem_of_mem ho
    have : st.2[k]? = some o := by rw [List.getElem?_eq_getElem hk, hko]
    rw [h.lab k o this]
    omega

section pushFold
variable {σ : Type} (dec : σ → Nat → Bool) (next : σ → Nat → σ)

theorem pushFold_cons (x : Nat) (l : List Nat) (acc : σ × Seeds) :
    pushFold dec next (x :: l) acc = pushFold dec next l (pushStep dec next acc x) := rfl

theorem pushStep_snd_mem (acc : σ × Seeds) (x o : Nat) :
    o ∈ (pushStep dec next acc x).2.2 ↔ o ∈ acc.2.2 ∨ (o = x ∧ dec acc.1 x = true) := by
  unfold pushStep
  by_cases hd : dec acc.1 x = true
  · simp [hd, pushOutlet]
  · simp [hd]

/-- the seeding invariant survives any loop of this shape over distinct in-range cells -/
theorem pushFold_inv (n : Nat) : ∀ (l : List Nat) (acc : σ × Seeds), l.Nodup →
    (∀ x ∈ l, x < n ∧ x ∉ acc.2.2) → SeedInv n acc.2 → SeedInv n (pushFold dec next l acc).2 := by
  intro l
  induction l with
  | nil => intro acc _ _ h; exact h
  | cons x l ih =>
    intro acc hnd hx hinv
    rw [pushFold_cons]
    have hnd' := List.nodup_cons.1 hnd
    apply ih _ hnd'.2
    · intro y hy
      refine ⟨(hx y (by simp [hy])).1, ?_⟩
      rw [pushStep_snd_mem]
      rintro (h | ⟨h, _⟩)
      · exact (hx y (by simp [hy])).2 h
      · exact hnd'.1 (h ▸ hy)
    · unfold pushStep
      by_cases hd : dec acc.1 x = true
      · simp only [hd, if_true]
        exact hinv.push (hx x (by simp)).1 (hx x (by simp)).2
      · simp only [hd]; exact hinv

/-- whatever was appended passed the test -/
theorem pushFold_mem (Q : Nat → Prop) (hQ : ∀ s x, dec s x = true → Q x) :
    ∀ (l : List Nat) (acc : σ × Seeds) (o : Nat), o ∈ (pushFold dec next l acc).2.2 →
      o ∈ acc.2.2 ∨ (o ∈ l ∧ Q o) := by
  intro l
  induction l with
  | nil => intro acc o h; exact Or.inl h
  | cons x l ih =>
    intro acc o h
    rw [pushFold_cons] at h
    rcases ih _ o h with h1 | ⟨h1, h2⟩
    · rw [pushStep_snd_mem] at h1
      rcases h1 with h1 | ⟨h1, h2⟩
      · exact Or.inl h1
      · subst h1; exact Or.inr ⟨by simp, hQ _ _ h2⟩
    · exact Or.inr ⟨by simp [h1], h2⟩

theorem pushFold_mono : ∀ (l : List Nat) (acc : σ × Seeds) (o : Nat), o ∈ acc.2.2 →
    o ∈ (pushFold dec next l acc).2.2 := by
  intro l
  induction l with
  | nil => intro acc o h; exact h
  | cons x l ih =>
    intro acc o h
    rw [pushFold_cons]
    exact ih _ o ((pushStep_snd_mem dec next acc x o).2 (Or.inl h))

/-- a cell that passes the test in every state is appended -/
theorem pushFold_mem_of_dec : ∀ (l : List Nat) (acc : σ × Seeds) (x : Nat), x ∈ l →
    (∀ s, dec s x = true) → x ∈ (pushFold dec next l acc).2.2 := by
  intro l
  induction l with
  | nil => intro acc x h; cases h
  | cons y l ih =>
    intro acc x hx hd
    rw [pushFold_cons]
    rcases List.mem_cons.1 hx with h | h
    · subst h
      exact pushFold_mono dec next l _ x ((pushStep_snd_mem dec next acc x x).2 (Or.inr ⟨rfl, hd _⟩))
    · exact ih _ x h hd

end pushFold

/-- with a state-independent test the appended cells are exactly the cells passing it, in loop order -/
theorem pushFold_filter {σ : Type} (p : Nat → Bool) (next : σ → Nat → σ) :
    ∀ (l : List Nat) (acc : σ × Seeds),
      (pushFold (fun _ x => p x) next l acc).2.2 = acc.2.2 ++ l.filter p := by
  intro l
  induction l with
  | nil => intro acc; simp [pushFold]
  | cons x l ih =>
    intro acc
    rw [pushFold_cons, ih]
    unfold pushStep
    by_cases hp : p x = true
    · simp [hp, pushOutlet]
    · simp [hp]

/-! ### seeds + fill = partition by first outlet -/

theorem fill_seeds_partition (ds : Array Nat) (seq : List Nat) (st : Seeds)
    (htopo : Topo ds seq) (hb : ∀ i ∈ seq, i < ds.size) (hinv : SeedInv ds.size st)
    (hsub : ∀ o ∈ st.2, o ∈ seq) :
    (∀ (k o : Nat), st.2[k]? = some o → (fillnodataUpstream ds seq st.1 0)[o]! = (k : Int) + 1) ∧
    (∀ i ∈ seq, LabelOK ds (· ∈ st.2) (fun o => (fillnodataUpstream ds seq st.1 0)[o]!) i
      (fillnodataUpstream ds seq st.1 0)[i]!) ∧
    (∀ i, i ∉ seq → (fillnodataUpstream ds seq st.1 0)[i]! = 0) := by
  have hb' : ∀ i ∈ seq, i < st.1.size := fun i hi => by rw [hinv.size]; exact hb i hi
  have hfv := fill_first_valid ds st.1 0 seq htopo hb'
  have hself : ∀ o ∈ st.2, (fillnodataUpstream ds seq st.1 0)[o]! = st.1[o]! := by
    intro o ho
    have h1 := hfv o (hsub o ho)
    have h2 : FirstValid ds st.1 0 o st.1[o]! := FirstValid.here o ((hinv.mem_iff o).2 ho)
    exact h1.unique h2
  refine ⟨?_, ?_, ?_⟩
  · intro k o hk
    rw [hself o (List.mem_of_getElem? hk)]
    exact hinv.lab k o hk
  · intro i hi
    exact (firstValid_labelOK (hfv i hi)).congr (fun o => hinv.mem_iff o)
      (fun o ho => (hself o ((hinv.mem_iff o).1 ho)).symm)
  · intro i hi
    have := fill_untouched ds st.1 0 seq htopo hb' i hi
    show (sweepDown ds (gFillNd 0) seq st.1)[i]! = 0
    rw [this]
    exact hinv.zero i (fun h => hi (hsub i h))

/-! ### soundness of the executable walk used by `subOK` -/

theorem firstOutletWalk_sound (ds : Array Nat) (out : Array Bool) :
    ∀ (f i : Nat) (r : Option Nat), firstOutletWalk ds out f i = some r →
      match r with
      | none => ∀ m, out[iterA ds m i]! = false
      | some o => ∃ m, iterA ds m i = o ∧ out[o]! = true ∧ ∀ t, t < m → out[iterA ds t i]! = false := by
  intro f
  induction f with
  | zero => intro i r h; simp [firstOutletWalk] at h
  | succ f ih =>
    intro i r h
    simp only [firstOutletWalk] at h
    by_cases h1 : out[i]! = true
    · simp only [h1, if_true, Option.some.injEq] at h
      subst h
      exact ⟨0, rfl, h1, fun t ht => absurd ht (Nat.not_lt_zero t)⟩
    · have h1' : out[i]! = false := by simpa using h1
      simp only [h1', Bool.false_eq_true, if_false] at h
      by_cases h2 : ds[i]! = i
      · simp only [h2, if_true, Option.some.injEq] at h
        subst h
        intro m
        rw [iterA_pit ds i h2 m]; exact h1'
      · simp only [h2, if_false] at h
        have := ih _ r h
        cases r with
        | none =>
          intro m
          cases m with
          | zero => exact h1'
          | succ m => exact this m
        | some o =>
          obtain ⟨m, hm, ho, hn⟩ := this
          refine ⟨m + 1, hm, ho, fun t ht => ?_⟩
          cases t with
          | zero => exact h1'
          | succ t => exact hn t (Nat.lt_of_succ_lt_succ ht)

theorem outletFlags_aux (l : List Nat) : ∀ (a : Array Bool) (i : Nat),
    (l.foldl (fun a o => a.setIfInBounds o true) a)[i]! = true ↔
      a[i]! = true ∨ (i ∈ l ∧ i < a.size) := by
  induction l with
  | nil => intro a i; simp
  | cons x l ih =>
    intro a i
    rw [List.foldl_cons, ih, get!_setIfInBounds]
    simp only [Array.size_setIfInBounds, List.mem_cons]
    by_cases hx : x = i
    · subst hx
      by_cases hs : x < a.size
      · simp [hs]
      · simp [hs]
    · have hx' : ¬ i = x := fun h => hx h.symm
      simp [hx, hx']

theorem outletFlags_iff (n : Nat) (l : List Nat) (i : Nat) :
    (outletFlags n l)[i]! = true ↔ (i ∈ l ∧ i < n) := by
  unfold outletFlags
  rw [outletFlags_aux]
  have : (Array.replicate n false)[i]! = false := by
    by_cases h : i < n
    · simp [h]
    · simp [h]
  simp [this]

end Pf
