import PfVerif.Proofs.C06Heap
/-! Algorithm-level invariants of the model of `fill_depressions` that are proved for ALL inputs
(first part of the second stage `fill_model_cert`). Core Lean only. -/
namespace Pf.C06
open Pf

/-- the part of the loop invariant of the priority flood that is proved for the model itself -/
def Safe (G : Grid) (elev : Array Int) (nod : Array Bool) (s : St) : Prop :=
  ∀ c, c < G.n →
    (nod[c]! = true → s.done[c]! = true ∧ s.f[c]! = elev[c]! ∧ s.d8[c]! = 247) ∧ elev[c]! ≤ s.f[c]!

theorem safe_visit {G : Grid} {elev : Array Int} {nod : Array Bool} (z0 : Int) (i0 : Nat) (s : St)
    (o : Int × Int) (h : Safe G elev nod s) : Safe G elev nod (visit G elev z0 i0 s o) := by
  unfold visit
  split
  · exact h
  · rename_i j _
    by_cases hd : s.done[j]! = true
    · rw [if_pos hd]; exact h
    · rw [if_neg hd]
      intro c hc
      obtain ⟨h1, h2⟩ := h c hc
      simp only
      by_cases hjc : j = c
      · subst hjc
        refine ⟨fun hn => absurd (h1 hn).1 hd, ?_⟩
        by_cases hf : z0 - elev[j]! > 0
        · simp only [hf, decide_true, if_true]
          rw [get!_setIfInBounds]
          split <;> omega
        · simp only [hf, decide_false]
          exact h2
      · have hne : ∀ (sz : Nat), ¬ (j = c ∧ j < sz) := fun _ h => hjc h.1
        refine ⟨fun hn => ?_, ?_⟩
        · obtain ⟨a, b, d⟩ := h1 hn
          refine ⟨?_, ?_, ?_⟩
          · rw [get!_setIfInBounds, if_neg (hne _)]; exact a
          · split
            · rw [get!_setIfInBounds, if_neg (hne _)]; exact b
            · exact b
          · rw [get!_setIfInBounds, if_neg (hne _)]; exact d
        · split
          · rw [get!_setIfInBounds, if_neg (hne _)]; exact h2
          · exact h2

theorem safe_fold {G : Grid} {elev : Array Int} {nod : Array Bool} (z0 : Int) (i0 : Nat)
    (l : List (Int × Int)) (s : St) (h : Safe G elev nod s) :
    Safe G elev nod (l.foldl (visit G elev z0 i0) s) := by
  induction l generalizing s with
  | nil => exact h
  | cons o l ih => exact ih _ (safe_visit z0 i0 s o h)

theorem safe_loop {G : Grid} {conn : Nat} {elev : Array Int} {nod : Array Bool} (fuel : Nat) (s : St)
    (h : Safe G elev nod s) : Safe G elev nod (fillLoop G conn elev fuel s) := by
  induction fuel generalizing s with
  | zero => exact h
  | succ k ih =>
    unfold fillLoop
    split
    · exact h
    · exact ih _ (safe_fold _ _ _ _ h)

theorem safe_init {G : Grid} {elev : Array Int} {nod : Array Bool} (queued : Array Bool)
    (hn : nod.size = G.n) : Safe G elev nod (initState G elev nod queued) := by
  intro c hc
  refine ⟨fun hnod => ⟨hnod, rfl, ?_⟩, Int.le_refl _⟩
  have hc' : c < nod.size := by omega
  simp [initState, hc']
  have : nod[c] = nod[c]! := by simp [hc']
  rw [this, hnod]

theorem fillModel_safe {G : Grid} {conn : Nat} {elev : Array Int} {nod : Array Bool}
    {pits : Option (List Nat)} {minMode : Bool} {f : Array Int} {d8 : Array Nat} {fin : Bool}
    (hn : nod.size = G.n) (h : fillModel G conn elev nod pits minMode = some (f, d8, fin)) :
    ∀ c, c < G.n → (nod[c]! = true → f[c]! = elev[c]! ∧ d8[c]! = 247) ∧ elev[c]! ≤ f[c]! := by
  unfold fillModel at h
  split at h
  · cases h
  · rename_i queued _
    simp only [Option.some.injEq, Prod.mk.injEq] at h
    obtain ⟨rfl, rfl, _⟩ := h
    intro c hc
    have := safe_loop (conn := conn) (G.n + 1) _ (safe_init (elev := elev) queued hn) c hc
    exact ⟨fun hnod => (this.1 hnod).2, this.2⟩

end Pf.C06
