import PfVerif.Proofs.C13_boundsRank
import PfVerif.Proofs.C03Walk
/-! `core.idxs_seq`: the reads `idxs_seq[i]` and the writes `idxs_seq[j]` stay inside the `n` slots, by the
loop invariant `WalkInv` of `Proofs/C03Walk.lean` (processed + waiting cells are distinct cells). -/
namespace Pf.C13b
open Pf

theorem WalkInv.length_le {ds : Array Nat} {fuel : Nat} {queue acc0 : List Nat} (h : WalkInv ds fuel queue acc0) :
    acc0.length + queue.length ≤ ds.size := by
  have hlen : (acc0.reverse ++ queue).length ≤ (List.range ds.size).length :=
    List.Nodup.length_le_of_subset h.nodup (fun i hi => List.mem_range.2 (h.bound i hi))
  simpa only [List.length_append, List.length_reverse, List.length_range] using hlen

theorem InB_enqLog (n j : Nat) (cells : List Nat) (log : List Acc) (hj : j + cells.length ≤ n) (hl : InB log) :
    InB (enqLog n j cells log) := by
  unfold enqLog
  rw [InB_append]
  refine ⟨?_, hl⟩
  intro e he
  rw [List.mem_reverse] at he
  obtain ⟨k, hk, rfl⟩ := List.mem_map.1 he
  have := List.mem_range.1 hk
  show j + k < n
  omega

theorem seqWalkLoopL_inb (ds : Array Nat) : ∀ (fuel : Nat) (queue acc0 : List Nat) (log : List Acc),
    WalkInv ds fuel queue acc0 → InB log → InB (seqWalkLoopL ds fuel queue acc0 log).2 := by
  intro fuel
  induction fuel with
  | zero => intro queue acc0 log _ hl; simpa [seqWalkLoopL] using hl
  | succ f ih =>
    intro queue acc0 log h hl
    have hf := h.fuel
    cases queue with
    | nil =>
      simp only [seqWalkLoopL, InB_cons, hl, and_true]
      omega
    | cons q rest =>
      unfold seqWalkLoopL
      dsimp only
      have hs := h.step
      have hlen := WalkInv.length_le hs
      simp only [List.length_cons, List.length_append] at hlen
      refine ih _ _ _ hs (InB_enqLog _ _ _ _ (by omega) ?_)
      simp only [InB_cons, hl, and_true]
      omega

end Pf.C13b
