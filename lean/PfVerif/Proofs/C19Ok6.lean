import PfVerif.Proofs.C19Ok5
/-! Second stage for C19: the outer loop over a downstream-first order terminates and establishes the
invariant for the empty remainder; the final invariant implies every clause of `StreamsOK`.
Core Lean only. -/
namespace Pf.C19
open Pf

/-- the whole `for idx0 in seq[::-1]` loop: total, and the invariant holds at the end -/
theorem fold_inv (ds : Array Nat) (mask : Option (Array Bool)) (m : Nat) (hcl : dsClosed ds mask = true) :
    ∀ (pre : List Nat), Topo ds pre → (∀ i ∈ pre, i < ds.size) →
      ∀ st, Inv ds mask m pre st →
      ∃ st', pre.reverse.foldlM (streamsStep ds (upstreamCount ds mask) mask m) st = some st' ∧
        Inv ds mask m [] st' := by
  intro pre htopo
  induction htopo with
  | nil => intro _ st h; exact ⟨st, by simp, h⟩
  | @snoc pre s hpre hs hds ih =>
    intro hb st h
    have htopo' : Topo ds (pre ++ [s]) := Topo.snoc hpre hs hds
    have hb' : ∀ i ∈ pre, i < ds.size := fun i hi => hb i (by simp [hi])
    rw [List.reverse_append, List.reverse_singleton, List.singleton_append, List.foldlM_cons]
    by_cases hg : (st.2[s]! || !maskAt mask s) = true
    · have hstep : streamsStep ds (upstreamCount ds mask) mask m st s = some st := by
        unfold streamsStep; rw [if_pos hg]
      rw [hstep]
      have hskip : st.2[s]! = true ∨ maskAt mask s = false := by
        simpa using hg
      exact ih hb' st (inv_skip h hskip)
    · have hnd : st.2[s]! = false := by
        cases hx : st.2[s]! with
        | false => rfl
        | true => simp [hx] at hg
      have hm : maskAt mask s = true := by
        cases hx : maskAt mask s with
        | true => rfl
        | false => simp [hx] at hg
      obtain ⟨w, hw⟩ := streamWalk_total_topo ds (upstreamCount ds mask) (pre ++ [s]) htopo' hb s (by simp)
        [s] st.2
      have hstep : streamsStep ds (upstreamCount ds mask) mask m st s =
          some (st.1 ++ walkFeatures w m, w.done) := by
        unfold streamsStep; rw [if_neg hg, hw]
      rw [hstep]
      exact ih hb' _ (inv_walk hcl htopo' hb h hnd hm hw)

/-- every index array of the model is the zero-length feature of a pit or a linked polyline
(`streams_model_linked` of the Props file, needed here) -/
theorem model_linked (ds : Array Nat) (seq : List Nat) (mask : Option (Array Bool)) (m : Nat)
    (feats : List (List Nat)) (h : streamsModel ds seq mask m = some feats) :
    ∀ f ∈ feats, (∃ p, f = [p, p] ∧ ds[p]! = p) ∨ (∀ q ∈ pairsOf f, ds[q.1]! = q.2 ∧ q.1 ≠ q.2) := by
  refine streamsModel_forall ds seq mask m _ ?_ feats h
  intro idx0 done w hw f hf
  obtain ⟨tail, hwf, hi⟩ := streamWalk_spec ds _ _ idx0 [idx0] done w hw
  have hi' : w.idxs = idx0 :: tail := by simpa using hi
  unfold walkFeatures at hf
  rcases List.mem_append.mp hf with hf | hf
  · exact Or.inr fun q hq => hwf.linked q (hi' ▸ pairs_of_piece hf q hq)
  · by_cases hp : w.pit = true
    · have hend := hwf.ends.2
      simp only [hp, if_true, List.mem_singleton] at hf hend
      exact Or.inl ⟨w.last, hf, hend⟩
    · simp [hp] at hf

theorem model_size (ds : Array Nat) (seq : List Nat) (mask : Option (Array Bool)) (m : Nat)
    (hm : 0 < m) (feats : List (List Nat)) (h : streamsModel ds seq mask m = some feats) :
    ∀ f ∈ feats, 2 * f.length ≤ 3 * m + 1 := by
  refine streamsModel_forall ds seq mask m _ ?_ feats h
  intro idx0 done w _ f hf
  unfold walkFeatures at hf
  rcases List.mem_append.mp hf with hf | hf
  · exact splitPieces_size w.idxs m hm f hf
  · by_cases hp : w.pit = true
    · simp only [hp, if_true, List.mem_singleton] at hf
      subst hf
      simp
      omega
    · simp [hp] at hf

/-- the invariant for the empty remainder gives every clause of the certificate -/
theorem streamsOK_of_inv (ds : Array Nat) (mask : Option (Array Bool)) (m : Nat) (seq : List Nat)
    (st : List (List Nat) × Array Bool) (h : Inv ds mask m [] st)
    (hmodel : streamsModel ds seq mask m = some st.1) : StreamsOK ds mask m st.1 = true := by
  have hlinkF := model_linked ds seq mask m st.1 hmodel
  -- a zero-length feature of the result is the feature of a pit; a stream feature is linked
  have hpitF : ∀ f ∈ st.1, isPitFeat f = true → ∃ p, f = [p, p] ∧ ds[p]! = p := by
    intro f hf hz
    obtain ⟨q, rfl⟩ := (isPitFeat_iff f).mp hz
    rcases hlinkF _ hf with ⟨p, hp, hpp⟩ | hl
    · exact ⟨p, hp, hpp⟩
    · have := (hl (q, q) (by simp [pairsOf])).2
      exact absurd rfl this
  have hstrF : ∀ f ∈ streamFeats st.1, ∀ q ∈ pairsOf f, ds[q.1]! = q.2 ∧ q.1 ≠ q.2 := by
    intro f hf
    unfold streamFeats at hf
    rw [List.mem_filter] at hf
    rcases hlinkF f hf.1 with ⟨p, hp, _⟩ | hl
    · subst hp; simp [isPitFeat] at hf
    · exact hl
  have hL : okLinked ds mask st.1 = true := by
    unfold okLinked
    rw [List.all_eq_true]
    intro p hp
    have hp' := hp
    unfold allPairs at hp'
    rw [List.mem_flatMap] at hp'
    obtain ⟨f, hf, hpf⟩ := hp'
    have h1 := hstrF f hf p hpf
    have h2 : inStream ds mask p.1 = true :=
      h.strm _ (h.doneA p.1 (by unfold srcA; exact List.mem_map.mpr ⟨p, hp, rfl⟩))
    simp [h2, h1.1, h1.2]
  have hO : okOnce st.1 = true := by
    unfold okOnce
    exact decide_eq_true h.nodupA
  have hC : okCover ds mask st.1 = true := by
    unfold okCover
    rw [List.all_eq_true]
    intro i _
    by_cases hc : inStream ds mask i = true ∧ ds[i]! ≠ i
    · have hd := h.proc i hc.1 (by simp)
      have := (h.src i hd).1 hc.2
      unfold srcA at this
      simp [this]
    · have : (inStream ds mask i && ds[i]! != i) = false := by
        cases hx : inStream ds mask i with
        | false => simp
        | true =>
          have : ds[i]! = i := by
            apply Classical.byContradiction
            intro hne; exact hc ⟨hx, hne⟩
          simp [this]
      simp [this]
  have hI : okInterior ds mask st.1 = true := by
    unfold okInterior
    rw [List.all_eq_true]
    intro f hf
    rw [List.all_eq_true]
    intro v hv
    exact decide_eq_true (h.intr f hf v hv)
  have hE : okEnds ds mask m st.1 = true := by
    unfold okEnds
    rw [List.all_eq_true]
    intro f hf
    obtain ⟨s, e, h1, h2, h3, h4, h5⟩ := h.ends f hf
    simp only [h1, h2, h3, Bool.true_and, Bool.and_eq_true, Bool.or_eq_true, bne_iff_ne, ne_eq,
      decide_eq_true_eq, List.any_eq_true, beq_iff_eq]
    constructor
    · rcases h4 with h4 | ⟨hm, g, hg, h6, h7⟩
      · exact Or.inl h4
      · exact Or.inr ⟨hm, g, hg, h6, h7⟩
    · rcases h5 with h5 | h5 | ⟨hm, g, hg, h6, h7⟩
      · exact Or.inl (Or.inl h5)
      · exact Or.inl (Or.inr h5)
      · exact Or.inr ⟨hm, g, hg, h6, h7⟩
  have hPt : okPits ds mask st.1 = true := by
    unfold okPits
    simp only [Bool.and_eq_true, decide_eq_true_eq]
    refine ⟨⟨?_, ?_⟩, ?_⟩
    · exact List.Pairwise.of_map (·.head!) (fun a b hne hab => hne (by rw [hab])) h.nodupB
    · rw [List.all_eq_true]
      intro f hf
      have hf' := hf
      unfold pitFeats at hf'
      rw [List.mem_filter] at hf'
      obtain ⟨p, rfl, hp⟩ := hpitF f hf'.1 hf'.2
      have hmem : p ∈ srcB st.1 := by
        unfold srcB; exact List.mem_map.mpr ⟨[p, p], hf, rfl⟩
      have := h.strm p (h.doneB p hmem)
      simp [head!_cons, this, hp]
    · rw [List.all_eq_true]
      intro p _
      by_cases hc : inStream ds mask p = true ∧ ds[p]! = p
      · have hd := h.proc p hc.1 (by simp)
        have hb := (h.src p hd).2 hc.2
        unfold srcB at hb
        rw [List.mem_map] at hb
        obtain ⟨f, hf, hfp⟩ := hb
        have hf' := hf
        unfold pitFeats at hf'
        rw [List.mem_filter] at hf'
        obtain ⟨q, rfl, _⟩ := hpitF f hf'.1 hf'.2
        have : q = p := by simpa [head!_cons] using hfp
        subst this
        simp [hf]
      · have : (inStream ds mask p && ds[p]! == p) = false := by
          cases hx : inStream ds mask p with
          | false => simp
          | true =>
            have : ds[p]! ≠ p := fun he => hc ⟨hx, he⟩
            simp [this]
        simp [this]
  have hS : okSize m st.1 = true := by
    unfold okSize
    by_cases hm : m = 0
    · simp [hm]
    · have := model_size ds seq mask m (by omega) st.1 hmodel
      simp only [Bool.or_eq_true, beq_iff_eq, List.all_eq_true, decide_eq_true_eq]
      right
      intro f hf
      unfold streamFeats at hf
      exact this f (List.mem_filter.mp hf).1
  simp [StreamsOK, hL, hO, hC, hI, hE, hPt, hS]

end Pf.C19
