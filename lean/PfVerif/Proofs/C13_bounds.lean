import PfVerif.Model.C13_bounds
import PfVerif.Model.C03
/-! Helper lemmas for `Props/C13_bounds.lean`: generic fold simulation / invariant lemmas, and the
per-kernel step lemmas of the sweep-shaped kernels (`upstream_count`, `main_upstream`, `pit_indices`). -/
namespace Pf.C13b
open Pf

/-! ### generic -/

theorem foldl_fst {σ τ α : Type} (f : σ → α → σ) (g : σ × τ → α → σ × τ)
    (h : ∀ st x, (g st x).1 = f st.1 x) (l : List α) (st : σ × τ) :
    (l.foldl g st).1 = l.foldl f st.1 := by
  induction l generalizing st with
  | nil => rfl
  | cons x l ih => simp only [List.foldl_cons]; rw [ih, h]

theorem foldl_inv {β α : Type} (g : β → α → β) (I : β → Prop) (l : List α)
    (hstep : ∀ b x, x ∈ l → I b → I (g b x)) (b : β) (hb : I b) : I (l.foldl g b) := by
  induction l generalizing b with
  | nil => exact hb
  | cons x l ih =>
    simp only [List.foldl_cons]
    exact ih (fun b y hy => hstep b y (List.mem_cons_of_mem _ hy)) _ (hstep b x (List.mem_cons_self ..) hb)

theorem foldlM_fst {σ τ α : Type} (f : σ → α → Option σ) (g : σ × τ → α → Option (σ × τ))
    (h : ∀ st x, (g st x).map Prod.fst = f st.1 x) (l : List α) (st : σ × τ) :
    (l.foldlM g st).map Prod.fst = l.foldlM f st.1 := by
  induction l generalizing st with
  | nil => rfl
  | cons x l ih =>
    simp only [List.foldlM_cons]
    have hx := h st x
    cases hg : g st x with
    | none => rw [hg] at hx; simp at hx; simp [← hx]
    | some st' => rw [hg] at hx; simp at hx; simp [← hx, ih]

theorem foldlM_inv {β α : Type} (g : β → α → Option β) (I : β → Prop) (l : List α)
    (hstep : ∀ b x b', x ∈ l → I b → g b x = some b' → I b') (b b' : β) (hb : I b)
    (h : l.foldlM g b = some b') : I b' := by
  induction l generalizing b with
  | nil => simp at h; exact h ▸ hb
  | cons x l ih =>
    simp only [List.foldlM_cons] at h
    cases hg : g b x with
    | none => rw [hg] at h; simp at h
    | some b1 =>
      rw [hg] at h
      exact ih (fun b y b' hy => hstep b y b' (List.mem_cons_of_mem _ hy)) b1
        (hstep b x b1 (List.mem_cons_self ..) hb hg) h

@[simp] theorem InB_nil : InB [] := by intro e he; cases he

@[simp] theorem InB_cons (e : Acc) (l : List Acc) : InB (e :: l) ↔ e.idx < e.size ∧ InB l := by
  simp [InB]

@[simp] theorem InB_append (l1 l2 : List Acc) : InB (l1 ++ l2) ↔ InB l1 ∧ InB l2 := by
  simp only [InB, List.mem_append]
  constructor
  · intro h; exact ⟨fun e he => h e (Or.inl he), fun e he => h e (Or.inr he)⟩
  · rintro ⟨h1, h2⟩ e (he | he)
    · exact h1 e he
    · exact h2 e he

@[simp] theorem acc_idx {α : Type} (a : Arr) (xs : Array α) (i : Nat) : (acc a xs i).idx = i := rfl
@[simp] theorem acc_size {α : Type} (a : Arr) (xs : Array α) (i : Nat) : (acc a xs i).size = xs.size := rfl

theorem InB_accOpt {α : Type} (a : Arr) (xs : Option (Array α)) (i n : Nat) (log : List Acc)
    (hs : ∀ m, xs = some m → m.size = n) (hi : i < n) (h : InB log) : InB (accOpt a xs i log) := by
  cases xs with
  | none => exact h
  | some m => simp [accOpt, hs m rfl, hi, h]

/-- WF: the downstream entry of a cell is a cell unless it is the missing value -/
theorem wf_ds_lt {ds : Array Nat} (hwf : WF ds) {i : Nat} (hi : i < ds.size) (hne : ds[i]! ≠ ds.size) :
    ds[i]! < ds.size := by
  have := (hwf i hi).1
  omega

/-! ### `upstream_count` -/

theorem upstreamCountStepL_fst (ds : Array Nat) (mask : Option (Array Bool)) (st : Array Int × List Acc) (x : Nat) :
    (upstreamCountStepL ds mask st x).1 =
      (fun (nup : Array Int) idx0 =>
        let d := ds[idx0]!
        if d ≠ ds.size then
          let nup := nup.setIfInBounds idx0 (max nup[idx0]! 0)
          if idx0 ≠ d ∧ maskAt mask idx0 then nup.setIfInBounds d (max nup[d]! 0 + 1) else nup
        else nup) st.1 x := by
  unfold upstreamCountStepL
  dsimp only
  split
  · split <;> rfl
  · rfl

theorem upstreamCountStepL_inv (ds : Array Nat) (hwf : WF ds) (mask : Option (Array Bool))
    (hm : ∀ m, mask = some m → m.size = ds.size) (st : Array Int × List Acc) (x : Nat) (hx : x < ds.size)
    (h : st.1.size = ds.size ∧ InB st.2) :
    (upstreamCountStepL ds mask st x).1.size = ds.size ∧ InB (upstreamCountStepL ds mask st x).2 := by
  obtain ⟨hs, hl⟩ := h
  unfold upstreamCountStepL
  dsimp only
  split
  · rename_i hd
    have hdlt := wf_ds_lt hwf hx hd
    have hlog : InB (accOpt Arr.mask mask x (acc Arr.nup st.1 x :: acc Arr.ds ds x :: st.2)) :=
      InB_accOpt _ _ _ _ _ hm hx (by simp only [InB_cons, acc_idx, acc_size, hs, hx, hl, and_self])
    split
    · simp only [InB_cons, acc_idx, acc_size, Array.size_setIfInBounds, hs, hdlt, hlog, and_self]
    · simp only [Array.size_setIfInBounds, hs, hlog, and_self]
  · simp only [InB_cons, acc_idx, acc_size, hs, hx, hl, and_self]

/-! ### `main_upstream` -/

theorem mainUpstreamStepL_inv (ds : Array Nat) (hwf : WF ds) (uparea : Array Int) (hu : uparea.size = ds.size)
    (st : (Array Nat × Array Int) × List Acc) (x : Nat) (hx : x < ds.size)
    (h : st.1.1.size = ds.size ∧ st.1.2.size = ds.size ∧ InB st.2) :
    (mainUpstreamStepL ds uparea st x).1.1.size = ds.size ∧ (mainUpstreamStepL ds uparea st x).1.2.size = ds.size ∧
      InB (mainUpstreamStepL ds uparea st x).2 := by
  obtain ⟨h1, h2, hl⟩ := h
  unfold mainUpstreamStepL
  dsimp only
  split
  · simp only [InB_cons, acc_idx, acc_size, h1, h2, hx, hl, and_self]
  · rename_i hd
    have hdlt : ds[x]! < ds.size := wf_ds_lt hwf hx (fun h => hd (Or.inr h))
    split <;> simp only [InB_cons, acc_idx, acc_size, Array.size_setIfInBounds, h1, h2, hu, hx, hdlt, hl, and_self]

end Pf.C13b
