import PfVerif.Proofs.C13_bounds2
import PfVerif.Proofs.C15Last
/-! Helper lemmas for the `dem._adjust_elevation` part of `Props/C13_bounds2.lean`. -/
namespace Pf.C13b2
open Pf Pf.C15

/-- all logged entries address an array of `n` slots below `b` -/
def Below (n b : Nat) (l : List Acc) : Prop := ∀ e ∈ l, e.size = n ∧ e.idx < b

theorem Below.inb {n b : Nat} {l : List Acc} (h : Below n b l) (hb : b ≤ n) : InB l := by
  intro e he
  obtain ⟨h1, h2⟩ := h e he
  omega

theorem Below.mono {n b b' : Nat} {l : List Acc} (h : Below n b l) (hb : b ≤ b') : Below n b' l := by
  intro e he
  obtain ⟨h1, h2⟩ := h e he
  exact ⟨h1, by omega⟩

theorem Below_append {n b : Nat} {l1 l2 : List Acc} (h1 : Below n b l1) (h2 : Below n b l2) : Below n b (l1 ++ l2) := by
  intro e he
  rcases List.mem_append.1 he with h | h
  · exact h1 e h
  · exact h2 e h

theorem rangeAcc_below (e : Array Int) (a b : Nat) : Below e.size b (rangeAcc e a b) := by
  intro x hx
  unfold rangeAcc rangeL at hx
  obtain ⟨k, hk, rfl⟩ := List.mem_map.1 hx
  have := List.mem_range'_1.1 hk
  exact ⟨rfl, by simp only [acc_idx]; omega⟩

theorem firstLeLog_below (e : Array Int) (z : Int) : ∀ f lo, Below e.size (lo + f) (firstLeLog e z f lo) := by
  intro f
  induction f with
  | zero => intro lo x hx; simp [firstLeLog] at hx
  | succ f ih =>
    intro lo x hx
    simp only [firstLeLog, List.mem_cons] at hx
    rcases hx with rfl | hx
    · exact ⟨rfl, by simp only [acc_idx]; omega⟩
    · split at hx
      · cases hx
      · obtain ⟨h1, h2⟩ := ih (lo + 1) x hx
        exact ⟨h1, by omega⟩

/-- option 3 stays below `n` as long as `imin`, `imax`, `i` and the running `i1` do -/
theorem opt3Log_below (e : Array Int) (imin imax i : Nat) (hmin : imin < e.size) (hmax : imax < e.size) (hi : i < e.size) :
    ∀ (zs : List Int) (i0 i1 : Nat), i0 < e.size → i1 < e.size → Below e.size e.size (opt3Log e imin imax i zs i0 i1) := by
  intro zs
  induction zs with
  | nil => intro i0 i1 _ _ x hx; simp [opt3Log] at hx
  | cons z zs ih =>
    intro i0 i1 h0 h1
    simp only [opt3Log]
    have hj0 := firstLe_le e z (imin - i0) i0
    have hj1 := firstLe_le e z (i - i1) i1
    refine Below_append (Below_append (Below_append ?_ ?_) ?_) (ih _ _ (by omega) (by omega))
    · exact (firstLeLog_below e z (imin + 1 - i0) i0).mono (by omega)
    · exact (firstLeLog_below e z (i + 1 - i1) i1).mono (by omega)
    · exact (rangeAcc_below e _ _).mono (by omega)

/-- the candidate that is written lies inside the profile -/
theorem opt3_b_le (e : Array Int) (imin imax i : Nat) (hmax : imax < e.size) (hi : i < e.size) :
    ∀ (zs : List Int) (i0 i1 : Nat) (best : Cand), i1 < e.size → best.b ≤ e.size →
      (opt3 e imin imax i zs i0 i1 best).b ≤ e.size := by
  intro zs
  induction zs with
  | nil => intro i0 i1 best _ hb; simpa [opt3] using hb
  | cons z zs ih =>
    intro i0 i1 best h1 hb
    simp only [opt3]
    have hj1 := firstLe_le e z (i - i1) i1
    apply ih _ _ _ (by omega)
    unfold pick mkCand
    split
    · dsimp only; omega
    · exact hb

theorem a1FixLog_below (e : Array Int) (imin imax i : Nat) (zmin zmax : Int) (hmin : imin < e.size)
    (hmax : imax < e.size) (hi : i < e.size) : Below e.size e.size (a1FixLog e imin imax i zmin zmax) := by
  unfold a1FixLog
  dsimp only
  refine Below_append (Below_append (Below_append ?_ ?_) ?_) ?_
  · exact (rangeAcc_below e imin i).mono (by omega)
  · exact (rangeAcc_below e 0 imax).mono (by omega)
  · exact opt3Log_below e imin imax i hmin hmax hi _ 0 imax (by omega) hmax
  · refine (rangeAcc_below e _ _).mono ?_
    apply opt3_b_le e imin imax i hmax hi _ 0 imax _ hmax
    unfold pick mkCand
    split <;> dsimp only <;> omega

theorem a1Fix_size (e : Array Int) (imin imax i : Nat) (zmin zmax : Int) : (a1Fix e imin imax i zmin zmax).size = e.size := by
  unfold a1Fix
  exact applyCand_size _ _

/-- the loop invariant that keeps every index inside the profile -/
def AdjInv (n : Nat) (s : A1) : Prop := s.e.size = n ∧ s.imax < n ∧ s.imin < n

theorem a1Step_inv (n : Nat) (s : A1) (i : Nat) (hi : i < n) (h : AdjInv n s) : AdjInv n (a1Step n s i) := by
  obtain ⟨h1, h2, h3⟩ := h
  refine ⟨by rw [a1Step_size]; exact h1, ?_, ?_⟩
  · unfold a1Step
    dsimp only
    split
    · dsimp only; exact hi
    · dsimp only; split <;> omega
  · unfold a1Step
    dsimp only
    split
    · dsimp only; omega
    · dsimp only; exact h3

theorem a1StepLog_inb (n : Nat) (s : A1) (i : Nat) (hi : i < n) (h : AdjInv n s) : InB (a1StepLog n i s) := by
  obtain ⟨h1, h2, h3⟩ := h
  unfold a1StepLog
  dsimp only
  split
  · simp only [InB_cons, acc_idx, acc_size]
    refine ⟨?_, ?_, ?_⟩
    · split
      · rw [a1Fix_size]; omega
      · omega
    · split
      · rw [a1Fix_size]; omega
      · omega
    · split
      · simp only [InB_append, InB_cons, InB_nil, acc_idx, acc_size, and_true]
        refine ⟨(a1FixLog_below s.e s.imin _ i s.zmin _ (by omega) ?_ (by omega)).inb (Nat.le_refl _), by omega⟩
        split <;> omega
      · simp only [InB_cons, InB_nil, acc_idx, acc_size, and_true]; omega
  · simp only [InB_cons, InB_nil, acc_idx, acc_size, and_true]; omega

end Pf.C13b2
