import PfVerif.Proofs.C14
import PfVerif.Proofs.C14Up
/-! Fuel sufficiency for the walk oracles of C14 (core Lean only).

Every oracle the driver evaluates walks downstream with fuel `ds.size + 1`. Along a downstream-first
order (`Topo`) whose cells are in range, the flow path of a cell of the order reaches a pit in fewer
than `seq.length ≤ ds.size` steps, so the fuel is never exhausted: the `… = some v → …` shape of the
`_eq_spec` theorems becomes an unconditional equality. -/
namespace Pf

/-- the flow path from `i` reaches a pit in fewer than `k` steps -/
def pitWithin_c14 (ds : Array Nat) : Nat → Nat → Bool
  | 0, _ => false
  | k+1, i => ds[i]! == i || pitWithin_c14 ds k ds[i]!

theorem pitWithin_succ_c14 (ds : Array Nat) :
    ∀ k i, pitWithin_c14 ds k i = true → pitWithin_c14 ds (k+1) i = true := by
  intro k
  induction k with
  | zero => intro i h; simp [pitWithin_c14] at h
  | succ k ih =>
    intro i h
    simp only [pitWithin_c14, Bool.or_eq_true, beq_iff_eq] at h ⊢
    rcases h with h | h
    · exact Or.inl h
    · exact Or.inr (by simpa [pitWithin_c14] using ih _ h)

theorem pitWithin_le_c14 (ds : Array Nat) {k m : Nat} (hkm : k ≤ m) (i : Nat)
    (h : pitWithin_c14 ds k i = true) : pitWithin_c14 ds m i = true := by
  induction hkm with
  | refl => exact h
  | step _ ih => exact pitWithin_succ_c14 ds _ i ih

/-- along a downstream-first order every cell reaches a pit in fewer than `seq.length` steps -/
theorem Topo.reach_c14 {ds : Array Nat} {seq : List Nat} (h : Topo ds seq) :
    ∀ i ∈ seq, pitWithin_c14 ds seq.length i = true := by
  induction h with
  | nil => intro i hi; cases hi
  | @snoc pre i _ _ hds ih =>
    intro j hj
    have hlen : (pre ++ [i]).length = pre.length + 1 := by simp
    rw [hlen]
    simp only [List.mem_append, List.mem_singleton] at hj
    rcases hj with hj | hj
    · exact pitWithin_succ_c14 ds _ j (ih j hj)
    · subst hj
      simp only [pitWithin_c14, Bool.or_eq_true, beq_iff_eq]
      rcases hds with hd | hd
      · exact Or.inl hd
      · exact Or.inr (ih _ hd)

theorem Topo.length_le_c14 {ds : Array Nat} {seq : List Nat} (h : Topo ds seq) (hb : ∀ i ∈ seq, i < ds.size) :
    seq.length ≤ ds.size := by
  have := List.Nodup.length_le_of_subset h.nodup (l₂ := List.range ds.size)
    (fun i hi => List.mem_range.2 (hb i hi))
  rwa [List.length_range] at this

/-- … hence within the fuel the driver's oracles use -/
theorem Topo.reach_size_c14 {ds : Array Nat} {seq : List Nat} (h : Topo ds seq)
    (hb : ∀ i ∈ seq, i < ds.size) : ∀ i ∈ seq, pitWithin_c14 ds (ds.size + 1) i = true :=
  fun i hi => pitWithin_le_c14 ds (by have := h.length_le_c14 hb; omega) i (h.reach_c14 i hi)

/-! ### the walks never run out of fuel -/

theorem walkValid_total_c14 (ds : Array Nat) (data : Array Int) (nd : Int) :
    ∀ k i, pitWithin_c14 ds k i = true → ∃ v, walkValid ds data nd k i = some v := by
  intro k
  induction k with
  | zero => intro i h; simp [pitWithin_c14] at h
  | succ k ih =>
    intro i h
    simp only [pitWithin_c14, Bool.or_eq_true, beq_iff_eq] at h
    simp only [walkValid]
    by_cases h1 : data[i]! ≠ nd
    · exact ⟨_, by rw [if_pos h1]⟩
    · rw [if_neg h1]
      by_cases h2 : ds[i]! = i
      · exact ⟨_, by rw [if_pos h2]⟩
      · rw [if_neg h2]
        rcases h with h | h
        · exact absurd h h2
        · exact ih _ h

theorem walkDist_total_c14 (ds : Array Nat) (mask : Option (Array Bool)) (step : Nat → Nat → Int) :
    ∀ k i, pitWithin_c14 ds k i = true → ∃ v, walkDist ds mask step k i = some v := by
  intro k
  induction k with
  | zero => intro i h; simp [pitWithin_c14] at h
  | succ k ih =>
    intro i h
    simp only [pitWithin_c14, Bool.or_eq_true, beq_iff_eq] at h
    simp only [walkDist]
    by_cases hs : stopAt_c14 ds mask i = true
    · exact ⟨0, by rw [if_pos hs]⟩
    · rw [if_neg hs]
      rcases h with h | h
      · exact absurd (by simp [stopAt_c14, h]) hs
      · obtain ⟨v, hv⟩ := ih _ h
        exact ⟨v + step i ds[i]!, by rw [hv]; rfl⟩

theorem walkFirst_total_c14 (ds : Array Nat) (p : Nat → Bool) :
    ∀ k i, pitWithin_c14 ds k i = true → ∃ s, walkFirst ds p k i = some s := by
  intro k
  induction k with
  | zero => intro i h; simp [pitWithin_c14] at h
  | succ k ih =>
    intro i h
    simp only [pitWithin_c14, Bool.or_eq_true, beq_iff_eq] at h
    simp only [walkFirst]
    by_cases hs : (p i || ds[i]! == i) = true
    · exact ⟨i, by rw [if_pos hs]⟩
    · rw [if_neg hs]
      rcases h with h | h
      · exact absurd (by simp [h]) hs
      · exact ih _ h

/-! ### `Feeds` (snoc-shaped: extended at the downstream end) read from the upstream end -/

theorem Feeds.cons_c14 {ds : Array Nat} {data : Array Int} {nd : Int} {k j : Nat}
    (hp : ds[k]! ≠ k) (hd : data[ds[k]!]! = nd) (h : Feeds ds data nd ds[k]! j) : Feeds ds data nd k j := by
  induction h with
  | step h1 h2 => exact Feeds.next _ (Feeds.step hp hd) h1 h2
  | next c _ h1 h2 ih => exact Feeds.next c ih h1 h2

theorem Feeds.inv_c14 {ds : Array Nat} {data : Array Int} {nd : Int} {k j : Nat}
    (h : Feeds ds data nd k j) :
    ds[k]! ≠ k ∧ data[ds[k]!]! = nd ∧ (j = ds[k]! ∨ Feeds ds data nd ds[k]! j) := by
  induction h with
  | step h1 h2 => exact ⟨h1, h2, Or.inl rfl⟩
  | next c _ h1 h2 ih =>
    obtain ⟨a, b, hc⟩ := ih
    refine ⟨a, b, Or.inr ?_⟩
    rcases hc with hc | hc
    · subst hc; exact Feeds.step h1 h2
    · exact Feeds.next c hc h1 h2

/-- the cells fed by a cell of a downstream-first order belong to the order -/
theorem Feeds.mem_c14 {ds : Array Nat} {data : Array Int} {nd : Int} {seq : List Nat} (htopo : Topo ds seq)
    {k j : Nat} (hk : k ∈ seq) (h : Feeds ds data nd k j) : j ∈ seq := by
  induction h with
  | step _ _ => exact Topo.ds_mem htopo k hk
  | next c _ _ _ ih => exact Topo.ds_mem htopo c ih

/-- no cell of a downstream-first order feeds itself (flow paths do not return) -/
theorem Feeds.irrefl_c14 {ds : Array Nat} {data : Array Int} {nd : Int} {seq : List Nat}
    (htopo : Topo ds seq) : ∀ c ∈ seq, ¬ Feeds ds data nd c c := by
  induction htopo with
  | nil => intro c hc; cases hc
  | @snoc pre i hpre hi hds ih =>
    intro c hc hf
    simp only [List.mem_append, List.mem_singleton] at hc
    rcases hc with hc | hc
    · exact ih c hc hf
    · subst hc
      obtain ⟨h1, _, h3⟩ := Feeds.inv_c14 hf
      rcases hds with hd | hd
      · exact h1 hd
      · rcases h3 with e | e
        · exact h1 e.symm
        · exact hi (Feeds.mem_c14 hpre hd e)

/-- the executable check the driver reports as `cover` is the hypothesis `hcov` of the
model = oracle theorems -/
theorem coversNet_sound_c14 (ds : Array Nat) (seq : List Nat) (h : coversNet_c14 ds seq = true) :
    ∀ c, isValid ds c = true → c ∈ seq := by
  intro c hv
  have hc : c < ds.size := by
    simp only [isValid, Bool.and_eq_true, decide_eq_true_eq] at hv; exact hv.1
  simp only [coversNet_c14, List.all_eq_true, List.mem_range, Bool.or_eq_true, Bool.not_eq_true'] at h
  rcases h c hc with h | h
  · rw [hv] at h; cases h
  · rw [(foldl_set_get true c seq (Array.replicate ds.size false)).2] at h
    by_cases hm : c ∈ seq ∧ c < (Array.replicate ds.size false).size
    · exact hm.1
    · rw [if_neg hm] at h
      simp [hc] at h

end Pf
