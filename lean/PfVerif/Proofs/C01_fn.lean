import PfVerif.Model.C01_fn
/-! Bridging lemmas for `Props/C01_fn.lean`: Python's floor division / modulo (`Int.fdiv`, `Int.fmod`) on casts of
naturals are the casts of `Nat` division / modulo (all divisors, zero included), and the `toNat` of an in-raster
linear index. Core Lean only. -/
namespace Pf.FnBridge

theorem fdiv_nat (a b : Nat) : Int.fdiv (a : Int) (b : Int) = ((a / b : Nat) : Int) := by
  rw [Int.fdiv_eq_ediv_of_nonneg _ (Int.natCast_nonneg b)]; exact (Int.natCast_ediv a b).symm

theorem fmod_nat (a b : Nat) : Int.fmod (a : Int) (b : Int) = ((a % b : Nat) : Int) := by
  rw [Int.fmod_eq_emod_of_nonneg _ (Int.natCast_nonneg b)]; exact (Int.natCast_emod a b).symm

theorem mul_ncol_nonneg (r : Int) (ncol : Nat) (hr : 0 ≤ r) : 0 ≤ r * (ncol : Int) :=
  Int.mul_nonneg hr (Int.natCast_nonneg _)

theorem inb_toNat (r c : Int) (ncol : Nat) (hr : 0 ≤ r) (hc : 0 ≤ c) :
    (((c + r * (ncol : Int)).toNat : Nat) : Int) = c + r * ncol :=
  Int.toNat_of_nonneg (Int.add_nonneg hc (mul_ncol_nonneg r ncol hr))

/-- floor semantics, stated without division: `Int.fdiv a b` is the `q` with `q * b ≤ a < (q + 1) * b` and
`Int.fmod` the remainder, for positive `b` and **every** `a` (negative ones included) -/
theorem fdiv_fmod_floor (a b : Int) (hb : 0 < b) :
    Int.fdiv a b * b ≤ a ∧ a < (Int.fdiv a b + 1) * b ∧ Int.fmod a b = a - Int.fdiv a b * b := by
  rw [Int.fdiv_eq_ediv_of_nonneg _ (Int.le_of_lt hb), Int.fmod_eq_emod_of_nonneg _ (Int.le_of_lt hb)]
  have h1 := Int.emod_add_mul_ediv a b
  have h2 := Int.emod_nonneg a (Int.ne_of_gt hb)
  have h3 := Int.emod_lt_of_pos a hb
  have h4 : (a / b + 1) * b = a / b * b + b := by rw [Int.add_mul, Int.one_mul]
  have h5 : b * (a / b) = a / b * b := Int.mul_comm _ _
  refine ⟨?_, ?_, ?_⟩ <;> omega

end Pf.FnBridge

namespace Pf.FnSpec

/-- the searched block is the quotient -/
theorem blockOf_eq_div (x n : Nat) (hn : 0 < n) : blockOf x n = x / n := by
  unfold blockOf
  have hq : (decide (x / n * n ≤ x) && decide (x < (x / n + 1) * n)) = true := by
    have := Nat.div_mul_le_self x n
    have := Nat.lt_succ_iff.mpr (Nat.le_refl (x / n))
    have h2 : x < (x / n + 1) * n := by
      have := Nat.lt_mul_div_succ x hn
      rw [Nat.mul_comm]; exact this
    simp [Nat.div_mul_le_self, h2]
  cases hf : (List.range (x + 1)).find? fun q => decide (q * n ≤ x) && decide (x < (q + 1) * n) with
  | none =>
    have := List.find?_eq_none.mp hf (x / n) (List.mem_range.mpr (Nat.lt_succ_of_le (Nat.div_le_self x n)))
    exact absurd hq this
  | some q =>
    have hp := List.find?_some hf
    simp only [Bool.and_eq_true, decide_eq_true_eq] at hp
    simp only [Option.getD_some]
    -- q * n ≤ x < (q + 1) * n  ⇒  q = x / n
    have h1 : q ≤ x / n := (Nat.le_div_iff_mul_le hn).mpr hp.1
    have h2 : x / n < q + 1 := (Nat.div_lt_iff_lt_mul hn).mpr hp.2
    omega

theorem offsetOf_eq_mod (x n : Nat) (hn : 0 < n) : offsetOf x n = x % n := by
  unfold offsetOf
  rw [blockOf_eq_div x n hn]
  have := Nat.div_add_mod x n
  have h : x / n * n = n * (x / n) := Nat.mul_comm _ _
  omega

end Pf.FnSpec
