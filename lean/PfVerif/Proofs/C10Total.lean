import PfVerif.Proofs.C10Seg
import PfVerif.Proofs.C11Total
/-! Helper lemmas for C10: termination (totality) of the upstream walks, of `ihu_outlets` and of both
loops of `fixed_length_slope` on loop-free networks. Core Lean only. -/
namespace Pf.C10
open Pf

/-- `us` is an upstream-link array of `ds` (what `main_upstream` returns, see `Pf.C11.mainUpstream_argmax`):
per cell the missing value, or an inflowing cell other than the cell itself -/
def UsLink (ds us : Array Nat) : Prop :=
  us.size = ds.size ∧
  ∀ c, c < ds.size → us[c]! = ds.size ∨ (us[c]! < ds.size ∧ ds[us[c]!]! = c ∧ us[c]! ≠ c)

/-- position measure of a downstream-first order: it strictly decreases along upstream links -/
theorem usLink_measure {ds us : Array Nat} {seq : List Nat} (htopo : Topo ds seq)
    (hall : ∀ i, i < ds.size → ds[i]! ≠ ds.size → i ∈ seq) (hlink : UsLink ds us)
    (c : Nat) (hc : c < ds.size) (hne : us[c]! ≠ us.size) :
    us[c]! < ds.size ∧ seq.length - seq.idxOf us[c]! < seq.length - seq.idxOf c := by
  rcases hlink.2 c hc with h | ⟨h1, h2, h3⟩
  · rw [hlink.1] at hne; exact absurd h hne
  · have hmem : us[c]! ∈ seq := hall _ h1 (by rw [h2]; omega)
    have hlt := htopo.idxOf_lt _ hmem (by rw [h2]; exact Ne.symm h3)
    rw [h2] at hlt
    have := List.idxOf_lt_length_of_mem hmem
    exact ⟨h1, by omega⟩

/-- along an upstream-link array of a loop-free network every walk reaches, within `seq.length` steps,
a cell without next cell -/
theorem us_reaches_end {ds us : Array Nat} {seq : List Nat} (htopo : Topo ds seq)
    (hall : ∀ i, i < ds.size → ds[i]! ≠ ds.size → i ∈ seq) (hlink : UsLink ds us)
    (s : Nat) (hs : s < ds.size) :
    ∃ k, k ≤ seq.length ∧ (us[iterA us k s]! = iterA us k s ∨ us[iterA us k s]! = us.size) :=
  exists_end_of_measure us (fun c => c < ds.size) (fun c => seq.length - seq.idxOf c)
    (fun c hc _ h2 => usLink_measure htopo hall hlink c hc h2) seq.length s hs (Nat.sub_le _ _)

/-! ### `Option`-valued `mapM` is defined when every entry is -/

theorem mapM_option_isSome {α β : Type} (f : α → Option β) :
    ∀ (l : List α), (∀ a ∈ l, (f a).isSome = true) → (l.mapM f).isSome = true := by
  intro l
  induction l with
  | nil => intro _; simp
  | cons x t ih =>
    intro h
    rw [List.mapM_cons]
    have hx := h x (by simp)
    have ht := ih (fun a ha => h a (by simp [ha]))
    cases hfx : f x with
    | none => rw [hfx] at hx; cases hx
    | some b =>
      cases hft : t.mapM f with
      | none => rw [hft] at ht; cases ht
      | some bs => simp

/-! ### `ihu_outlets` -/

theorem ihuTrace_complete (ds : Array Nat) (subncol cellsize ncol idx0 : Nat) :
    ∀ (K fuel s : Nat), K < fuel → ds[iterA ds K s]! = iterA ds K s →
      (ihuTrace ds subncol cellsize ncol idx0 fuel s).isSome = true := by
  intro K
  induction K with
  | zero =>
    intro fuel s hf hp
    cases fuel with
    | zero => omega
    | succ f =>
      have hp' : ds[s]! = s := by simpa [iterA] using hp
      simp [ihuTrace, hp']
  | succ K ih =>
    intro fuel s hf hp
    cases fuel with
    | zero => omega
    | succ f =>
      simp only [ihuTrace]
      split
      · rfl
      · exact ih f ds[s]! (by omega) (by simpa [iterA] using hp)

/-! ### `fixed_length_slope` -/

theorem flsDown_complete (ds : Array Nat) (distnc : Array Int) (mask : Option (Array Bool)) (x0 : Int) :
    ∀ (K fuel s : Nat), K < fuel →
      (ds[iterA ds K s]! = iterA ds K s ∨ ds[iterA ds K s]! = ds.size) →
      (flsDown ds distnc mask x0 fuel s).isSome = true := by
  intro K
  induction K with
  | zero =>
    intro fuel s hf hp
    cases fuel with
    | zero => omega
    | succ f =>
      have hp' : ds[s]! = s ∨ ds[s]! = ds.size := by simpa [iterA] using hp
      simp only [flsDown]
      split
      · have : ds[s]! = s ∨ ds[s]! = ds.size ∨ maskAt mask s = false := by
          rcases hp' with h | h
          · exact Or.inl h
          · exact Or.inr (Or.inl h)
        rw [if_pos this]; rfl
      · rfl
  | succ K ih =>
    intro fuel s hf hp
    cases fuel with
    | zero => omega
    | succ f =>
      simp only [flsDown]
      split
      · split
        · rfl
        · exact ih f ds[s]! (by omega) (by simpa [iterA] using hp)
      · rfl

/-- the start cell of the upstream loop is a cell of the order when the outlet pixel is -/
theorem flsDown_mem {ds : Array Nat} {seq : List Nat} (htopo : Topo ds seq) (distnc : Array Int)
    (mask : Option (Array Bool)) (x0 : Int) :
    ∀ (fuel s d : Nat), s ∈ seq → flsDown ds distnc mask x0 fuel s = some d → d ∈ seq := by
  intro fuel
  induction fuel with
  | zero => intro s d _ h; simp [flsDown] at h
  | succ f ih =>
    intro s d hs h
    simp only [flsDown] at h
    split at h
    · split at h
      · exact (Option.some.inj h) ▸ hs
      · exact ih _ _ (Topo.ds_mem htopo s hs) h
    · exact (Option.some.inj h) ▸ hs

/-- an outlet pixel outside the network is its own start cell -/
theorem flsDown_offnet (ds : Array Nat) (distnc : Array Int) (mask : Option (Array Bool)) (x0 : Int)
    (fuel s d : Nat) (hs : ds[s]! = ds.size) (h : flsDown ds distnc mask x0 fuel s = some d) : d = s := by
  cases fuel with
  | zero => simp [flsDown] at h
  | succ f =>
    simp only [flsDown] at h
    split at h
    · rw [if_pos (Or.inr (Or.inl hs))] at h
      exact (Option.some.inj h).symm
    · exact (Option.some.inj h).symm

theorem flsUp_total (ds us : Array Nat) (distnc : Array Int) (mask : Option (Array Bool)) (x1 : Int)
    (μ : Nat → Nat)
    (hμ : ∀ c, c < ds.size → us[c]! ≠ us.size → us[c]! < ds.size ∧ μ us[c]! < μ c) :
    ∀ (b fuel c : Nat), c < ds.size → μ c ≤ b → b < fuel →
      (flsUp us distnc mask x1 fuel c).isSome = true := by
  intro b
  induction b with
  | zero =>
    intro fuel c hc hm hf
    cases fuel with
    | zero => omega
    | succ f =>
      simp only [flsUp]
      split
      · split
        · rfl
        · rename_i hstop
          have hne : us[c]! ≠ us.size := fun h => hstop (Or.inl h)
          have := (hμ c hc hne).2
          omega
      · rfl
  | succ b ih =>
    intro fuel c hc hm hf
    cases fuel with
    | zero => omega
    | succ f =>
      simp only [flsUp]
      split
      · split
        · rfl
        · rename_i hstop
          have hne : us[c]! ≠ us.size := fun h => hstop (Or.inl h)
          obtain ⟨h1, h2⟩ := hμ c hc hne
          have := ih f us[c]! h1 (by omega) (by omega)
          simpa using this
      · rfl

end Pf.C10
