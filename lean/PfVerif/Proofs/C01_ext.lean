import PfVerif.Model.C01_ext
import PfVerif.Proofs.C01
/-! Lemmas for the C01 extension, part 1: `_downstream_idx` and `_upstream_idx` against the declarative
reading. Core Lean only. -/
namespace Pf.Fd.Ext
open Pf Spec

/-! ### table facts -/

theorem lookup_mem {β : Type} {k : Nat} {v : β} : ∀ {l : List (Nat × β)}, l.lookup k = some v → (k, v) ∈ l
  | [], h => by simp [List.lookup] at h
  | (a, b) :: l, h => by
    by_cases hk : k = a
    · subst hk
      simp [List.lookup] at h
      subst h
      simp
    · have hk' : (k == a) = false := by simpa using hk
      simp only [List.lookup, hk'] at h
      exact List.mem_cons_of_mem _ (lookup_mem h)

/-- what `tabOK` says about one legal code other than nodata -/
theorem tabOK_key {drdc : Nat → Int × Int} {dirs : List (Nat × (Int × Int))} {pits : List Nat} {mv : Nat}
    (hok : tabOK drdc dirs pits mv = true) {v : Nat} (hv : v ∈ alphabet dirs pits mv) (hne : v ≠ mv) :
    (v ∈ pits ∧ drdc v = (0, 0)) ∨
    (v ∉ pits ∧ ∃ d, dirs.lookup v = some d ∧ drdc v = d ∧ d ≠ (0, 0)) := by
  have h := List.all_eq_true.1 hok _ hv
  simp only [Bool.or_eq_true, beq_iff_eq, hne, false_or] at h
  by_cases hp : v ∈ pits
  · left
    have : pits.contains v = true := by simpa using hp
    rw [this] at h
    exact ⟨hp, by simpa using h⟩
  · right
    have : pits.contains v = false := by simpa using hp
    rw [this] at h
    refine ⟨hp, ?_⟩
    cases hl : dirs.lookup v with
    | none => rw [hl] at h; simp at h
    | some d =>
      rw [hl] at h
      simp only [Bool.false_eq_true, if_false, Bool.and_eq_true, beq_iff_eq, bne_iff_ne] at h
      exact ⟨d, rfl, h.1, h.2⟩

/-- decidable check tying the `_us` table to the direction table: a direction code is neither a pit code nor
nodata, its delta is one of the eight offsets and the `_us` entry at the *opposite* offset is the code itself;
conversely the `_us` entry of every offset is the direction code of the opposite delta. -/
def usOK (dirs : List (Nat × (Int × Int))) (pits : List Nat) (mv : Nat) (us : List Nat) : Bool :=
  (dirs.all fun p =>
    p.1 != mv && !pits.contains p.1 && dirs.lookup p.1 == some p.2 &&
    offs8.contains (-p.2.1, -p.2.2) && us[((-p.2.1 + 1) * 3 + (-p.2.2 + 1)).toNat]! == p.1) &&
  (offs8.all fun o => dirs.lookup us[((o.1 + 1) * 3 + (o.2 + 1)).toNat]! == some (-o.1, -o.2)) &&
  (pits.all fun p => p != mv)

theorem usOK_pit {dirs : List (Nat × (Int × Int))} {pits : List Nat} {mv : Nat} {us : List Nat}
    (h : usOK dirs pits mv us = true) {v : Nat} (hv : v ∈ pits) : v ≠ mv := by
  simp only [usOK, Bool.and_eq_true] at h
  simpa using List.all_eq_true.1 h.2 _ hv

theorem usOK_mem {dirs : List (Nat × (Int × Int))} {pits : List Nat} {mv : Nat} {us : List Nat}
    (h : usOK dirs pits mv us = true) {v : Nat} {d : Int × Int} (hm : (v, d) ∈ dirs) :
    v ≠ mv ∧ v ∉ pits ∧ dirs.lookup v = some d := by
  simp only [usOK, Bool.and_eq_true] at h
  have := List.all_eq_true.1 h.1.1 _ hm
  simp only [Bool.and_eq_true, bne_iff_ne, ne_eq, Bool.not_eq_true', beq_iff_eq, List.contains_eq_mem,
    decide_eq_true_eq, decide_eq_false_iff_not] at this
  obtain ⟨⟨⟨⟨h1, h2⟩, h3⟩, _⟩, _⟩ := this
  exact ⟨h1, h2, h3⟩

theorem usOK_dir {dirs : List (Nat × (Int × Int))} {pits : List Nat} {mv : Nat} {us : List Nat}
    (h : usOK dirs pits mv us = true) {v : Nat} {d : Int × Int} (hl : dirs.lookup v = some d) :
    v ≠ mv ∧ v ∉ pits ∧ (-d.1, -d.2) ∈ offs8 ∧ us[((-d.1 + 1) * 3 + (-d.2 + 1)).toNat]! = v := by
  simp only [usOK, Bool.and_eq_true] at h
  have := List.all_eq_true.1 h.1.1 _ (lookup_mem hl)
  simp only [Bool.and_eq_true, bne_iff_ne, ne_eq, Bool.not_eq_true', beq_iff_eq, List.contains_eq_mem,
    decide_eq_true_eq, decide_eq_false_iff_not] at this
  obtain ⟨⟨⟨⟨h1, h2⟩, _⟩, h4⟩, h5⟩ := this
  exact ⟨h1, h2, h4, h5⟩

theorem usOK_off {dirs : List (Nat × (Int × Int))} {pits : List Nat} {mv : Nat} {us : List Nat}
    (h : usOK dirs pits mv us = true) {o : Int × Int} (ho : o ∈ offs8) :
    dirs.lookup us[((o.1 + 1) * 3 + (o.2 + 1)).toNat]! = some (-o.1, -o.2) := by
  simp only [usOK, Bool.and_eq_true] at h
  have := List.all_eq_true.1 h.1.2 _ ho
  simpa using this

theorem offs8_bounds {o : Int × Int} (ho : o ∈ offs8) :
    -1 ≤ o.1 ∧ o.1 ≤ 1 ∧ -1 ≤ o.2 ∧ o.2 ≤ 1 ∧ ¬ (o.1 = 0 ∧ o.2 = 0) := by
  simp only [offs8, List.mem_cons, List.mem_nil_iff, or_false] at ho
  rcases ho with h | h | h | h | h | h | h | h <;> subst h <;> decide

/-! ### `readTab` by cases -/

theorem readTab_to {dirs : List (Nat × (Int × Int))} {pits : List Nat} {mv ncol : Nat} {codes : Array Nat}
    {j : Nat} {r c : Int} (h : readTab dirs pits mv ncol codes j = .to r c) :
    codes[j]! ≠ mv ∧ codes[j]! ∉ pits ∧
    ∃ d, dirs.lookup codes[j]! = some d ∧ r = ((j / ncol : Nat) : Int) + d.1 ∧ c = ((j % ncol : Nat) : Int) + d.2 := by
  unfold readTab at h
  by_cases h1 : codes[j]! = mv
  · simp [h1] at h
  · by_cases h2 : codes[j]! ∈ pits
    · simp [h1, h2] at h
    · cases hl : dirs.lookup codes[j]! with
      | none => simp [h1, h2, hl] at h
      | some d =>
        simp only [h1, h2, hl, if_false] at h
        injection h with hr hc
        exact ⟨h1, h2, d, rfl, hr.symm, hc.symm⟩

theorem readTab_of_lookup {dirs : List (Nat × (Int × Int))} {pits : List Nat} {mv ncol : Nat} {codes : Array Nat}
    {j : Nat} {d : Int × Int} (h1 : codes[j]! ≠ mv) (h2 : codes[j]! ∉ pits) (hl : dirs.lookup codes[j]! = some d) :
    readTab dirs pits mv ncol codes j = .to (((j / ncol : Nat) : Int) + d.1) (((j % ncol : Nat) : Int) + d.2) := by
  unfold readTab
  simp [h1, h2, hl]

/-! ### `_downstream_idx` -/

theorem downstreamIdx_eq (drdc : Nat → Int × Int) (nrow ncol : Nat) (codes : Array Nat) (i : Nat) :
    downstreamIdx drdc nrow ncol codes i =
      if inRaster nrow ncol (((i / ncol : Nat) : Int) + (drdc codes[i]!).1) (((i % ncol : Nat) : Int) + (drdc codes[i]!).2)
      then cellIdx ncol (((i / ncol : Nat) : Int) + (drdc codes[i]!).1) (((i % ncol : Nat) : Int) + (drdc codes[i]!).2)
      else nrow * ncol := by
  unfold downstreamIdx
  simp only
  by_cases hin : inRaster nrow ncol (((i / ncol : Nat) : Int) + (drdc codes[i]!).1)
      (((i % ncol : Nat) : Int) + (drdc codes[i]!).2) = true
  · rw [if_pos hin, if_pos (by have := inRaster_iff.1 hin; omega)]
    exact (cellIdx_of_inRaster hin).1
  · rw [if_neg hin, if_neg]
    intro h
    exact hin (inRaster_iff.2 (by omega))

/-- row and column of a cell -/
theorem rowcol_lt {nrow ncol i : Nat} (hi : i < nrow * ncol) : i / ncol < nrow ∧ i % ncol < ncol ∧ 0 < ncol := by
  have hpos : 0 < ncol := by
    rcases Nat.eq_zero_or_pos ncol with h | h
    · subst h; simp at hi
    · exact h
  refine ⟨?_, Nat.mod_lt _ hpos, hpos⟩
  apply (Nat.div_lt_iff_lt_mul hpos).2
  exact hi

theorem cellIdx_self {ncol : Nat} (i : Nat) : cellIdx ncol ((i / ncol : Nat) : Int) ((i % ncol : Nat) : Int) = i := by
  simp only [cellIdx, Int.toNat_natCast]
  rw [Nat.mul_comm]
  exact Nat.div_add_mod i ncol

theorem inRaster_self {nrow ncol i : Nat} (hi : i < nrow * ncol) :
    inRaster nrow ncol ((i / ncol : Nat) : Int) ((i % ncol : Nat) : Int) = true := by
  obtain ⟨h1, h2, _⟩ := rowcol_lt hi
  exact inRaster_iff.2 ⟨Int.natCast_nonneg _, Int.ofNat_lt.2 h1, Int.natCast_nonneg _, Int.ofNat_lt.2 h2⟩

/-- on a legal code other than nodata the model of `_downstream_idx` is the declarative `downOf` of the
specification tables -/
theorem tab_downstream_eq {drdc : Nat → Int × Int} {dirs : List (Nat × (Int × Int))} {pits : List Nat} {mv : Nat}
    (hok : tabOK drdc dirs pits mv = true) (nrow ncol : Nat) (codes : Array Nat) (i : Nat) (hi : i < nrow * ncol)
    (hleg : codes[i]! ∈ alphabet dirs pits mv) (hne : codes[i]! ≠ mv) :
    downstreamIdx drdc nrow ncol codes i = downOf nrow ncol (readTab dirs pits mv ncol codes) i := by
  rw [downstreamIdx_eq]
  unfold downOf readTab
  rcases tabOK_key hok hleg hne with ⟨hp, hd⟩ | ⟨hp, d, hl, hd, _⟩
  · simp only [hne, hp, if_false, if_true, hd, Int.add_zero]
    rw [if_pos (inRaster_self hi), cellIdx_self]
  · simp only [hne, hp, hl, if_false, hd]

/-- `downOf` of a cell that designates `(r, c)` -/
theorem downOf_to {nrow ncol : Nat} {read : Nat → Code} {i : Nat} {r c : Int} (h : read i = .to r c) :
    downOf nrow ncol read i = if inRaster nrow ncol r c then cellIdx ncol r c else nrow * ncol := by
  simp [downOf, h]

theorem downOf_not_to {nrow ncol : Nat} {read : Nat → Code} {i : Nat} (h : ∀ r c, read i ≠ .to r c) :
    downOf nrow ncol read i = i := by
  unfold downOf
  cases hr : read i with
  | nodata => rfl
  | pit => rfl
  | to r c => exact absurd hr (h r c)

/-- if `j ≠ i` designates the cell `i` of the raster then `j` reads as a link whose target is `i`'s row and column -/
theorem downOf_eq_iff {nrow ncol : Nat} {read : Nat → Code} {i j : Nat} (hi : i < nrow * ncol) (hji : j ≠ i) :
    downOf nrow ncol read j = i ↔
      read j = .to ((i / ncol : Nat) : Int) ((i % ncol : Nat) : Int) := by
  constructor
  · intro h
    cases hr : read j with
    | nodata => rw [downOf_not_to (by simp [hr])] at h; exact absurd h hji
    | pit => rw [downOf_not_to (by simp [hr])] at h; exact absurd h hji
    | to r c =>
      rw [downOf_to hr] at h
      by_cases hin : inRaster nrow ncol r c = true
      · rw [if_pos hin] at h
        obtain ⟨_, _, e3, e4⟩ := cellIdx_of_inRaster hin
        rw [h] at e3 e4
        rw [e3, e4]
      · rw [if_neg hin] at h; omega
  · intro h
    rw [downOf_to h, if_pos (inRaster_self hi), cellIdx_self]

/-! ### `_upstream_idx` as a filter over the eight offsets -/

theorem foldl_cand {α : Type} (g : α → Option Nat) (l : List α) (acc : List Nat) :
    l.foldl (fun lst x => pushCand lst (g x)) acc = acc ++ l.filterMap g := by
  induction l generalizing acc with
  | nil => simp
  | cons x l ih =>
    rw [List.foldl_cons, ih]
    cases hg : g x with
    | none => simp [pushCand, hg]
    | some v => simp [pushCand, hg]

theorem foldl_append_each {α : Type} (L : α → List Nat) (l : List α) (acc : List Nat) :
    l.foldl (fun lst x => lst ++ L x) acc = acc ++ l.flatMap L := by
  induction l generalizing acc with
  | nil => simp
  | cons x l ih => rw [List.foldl_cons, ih]; simp

/-- **loop-order form**: the list `_upstream_idx` builds is the list of accepted candidates of the eight
offsets `(-1,-1), (-1,0), (-1,1), (0,-1), (0,1), (1,-1), (1,0), (1,1)` in this order -/
theorem upstreamIdx_eq_filterMap (us : List Nat) (nrow ncol : Nat) (codes : Array Nat) (i : Nat) :
    upstreamIdx us nrow ncol codes i = offs8.filterMap fun o => usCand us nrow ncol codes i o.1 o.2 := by
  unfold upstreamIdx
  have h1 : ∀ (lst : List Nat) (dr : Int),
      range3.foldl (fun lst dc => pushCand lst (usCand us nrow ncol codes i dr dc)) lst =
      lst ++ range3.filterMap (usCand us nrow ncol codes i dr) := fun lst dr => foldl_cand _ _ _
  simp only [h1]
  rw [foldl_append_each]
  have h0 : usCand us nrow ncol codes i 0 0 = none := by simp [usCand]
  have hc : ∀ {α : Type} (f : α → Option Nat) (a : α) (l : List α),
      (a :: l).filterMap f = (f a).toList ++ l.filterMap f := by
    intro α f a l
    rw [List.filterMap_cons]
    cases f a <;> simp
  simp only [range3, offs8, List.flatMap_cons, List.flatMap_nil, hc, List.filterMap_nil, h0, Option.toList,
    List.append_nil, List.nil_append, List.append_assoc]

/-- an accepted candidate, spelled out -/
theorem usCand_some {us : List Nat} {nrow ncol : Nat} {codes : Array Nat} {i : Nat} {dr dc : Int} {j : Nat} :
    usCand us nrow ncol codes i dr dc = some j ↔
      ¬ (dr = 0 ∧ dc = 0) ∧ inRaster nrow ncol (((i / ncol : Nat) : Int) + dr) (((i % ncol : Nat) : Int) + dc) = true ∧
      j = cellIdx ncol (((i / ncol : Nat) : Int) + dr) (((i % ncol : Nat) : Int) + dc) ∧
      codes[j]! = us[((dr + 1) * 3 + (dc + 1)).toNat]! := by
  unfold usCand
  by_cases h0 : dr = 0 ∧ dc = 0
  · simp [h0]
  · rw [if_neg h0]
    simp only
    by_cases hin : inRaster nrow ncol (((i / ncol : Nat) : Int) + dr) (((i % ncol : Nat) : Int) + dc) = true
    · have hb := inRaster_iff.1 hin
      rw [if_pos (by omega)]
      have e : ((((i / ncol : Nat) : Int) + dr) * (ncol : Int) + (((i % ncol : Nat) : Int) + dc)).toNat =
          cellIdx ncol (((i / ncol : Nat) : Int) + dr) (((i % ncol : Nat) : Int) + dc) := by
        rw [Int.add_comm]; exact (cellIdx_of_inRaster hin).1
      rw [e]
      constructor
      · intro h
        by_cases hc : codes[cellIdx ncol (((i / ncol : Nat) : Int) + dr) (((i % ncol : Nat) : Int) + dc)]! =
            us[((dr + 1) * 3 + (dc + 1)).toNat]!
        · rw [if_pos hc] at h
          injection h with h
          subst h
          exact ⟨h0, hin, rfl, hc⟩
        · rw [if_neg hc] at h; cases h
      · rintro ⟨_, _, rfl, hc⟩
        rw [if_pos hc]
    · rw [if_neg (by intro h; exact hin (inRaster_iff.2 (by omega)))]
      constructor
      · intro h; cases h
      · rintro ⟨_, h, _⟩; exact absurd h hin

/-- membership in the model's list -/
theorem mem_upstreamIdx {us : List Nat} {nrow ncol : Nat} {codes : Array Nat} {i j : Nat} :
    j ∈ upstreamIdx us nrow ncol codes i ↔
      ∃ o ∈ offs8, inRaster nrow ncol (((i / ncol : Nat) : Int) + o.1) (((i % ncol : Nat) : Int) + o.2) = true ∧
        j = cellIdx ncol (((i / ncol : Nat) : Int) + o.1) (((i % ncol : Nat) : Int) + o.2) ∧
        codes[j]! = us[((o.1 + 1) * 3 + (o.2 + 1)).toNat]! := by
  rw [upstreamIdx_eq_filterMap, List.mem_filterMap]
  constructor
  · rintro ⟨o, ho, h⟩
    obtain ⟨_, h2, h3, h4⟩ := usCand_some.1 h
    exact ⟨o, ho, h2, h3, h4⟩
  · rintro ⟨o, ho, h2, h3, h4⟩
    exact ⟨o, ho, usCand_some.2 ⟨(offs8_bounds ho).2.2.2.2, h2, h3, h4⟩⟩

/-- **characterisation against the declarative reading**, for every raster over `uint8` codes (no legality
needed: a code outside the alphabet designates nothing and is in no `_us` table) -/
theorem tab_mem_upstream {dirs : List (Nat × (Int × Int))} {pits : List Nat} {mv : Nat} {us : List Nat}
    (hus : usOK dirs pits mv us = true) (nrow ncol : Nat) (codes : Array Nat) (i : Nat) (hi : i < nrow * ncol)
    (j : Nat) :
    j ∈ upstreamIdx us nrow ncol codes i ↔
      j < nrow * ncol ∧ j ≠ i ∧ downOf nrow ncol (readTab dirs pits mv ncol codes) j = i := by
  rw [mem_upstreamIdx]
  constructor
  · rintro ⟨o, ho, hin, hj, hc⟩
    obtain ⟨_, hlt, e3, e4⟩ := cellIdx_of_inRaster hin
    rw [← hj] at hlt e3 e4
    obtain ⟨b1, b2, b3, b4, b5⟩ := offs8_bounds ho
    have hl := usOK_off hus ho
    rw [← hc] at hl
    obtain ⟨n1, n2, _, _⟩ := usOK_dir hus hl
    have hji : j ≠ i := by
      intro e
      rw [e] at e3 e4
      apply b5
      constructor <;> omega
    refine ⟨hlt, hji, ?_⟩
    rw [downOf_eq_iff hi hji, readTab_of_lookup n1 n2 hl]
    simp only [e3, e4]
    congr 1 <;> omega
  · rintro ⟨hj, hji, hd⟩
    rw [downOf_eq_iff hi hji] at hd
    obtain ⟨_, _, d, hl, hr, hc⟩ := readTab_to hd
    obtain ⟨_, _, hoff, hus'⟩ := usOK_dir hus hl
    refine ⟨(-d.1, -d.2), hoff, ?_, ?_, ?_⟩
    · have := inRaster_self (nrow := nrow) hj
      have e1 : ((i / ncol : Nat) : Int) + -d.1 = ((j / ncol : Nat) : Int) := by omega
      have e2 : ((i % ncol : Nat) : Int) + -d.2 = ((j % ncol : Nat) : Int) := by omega
      simp only [e1, e2]; exact this
    · have e1 : ((i / ncol : Nat) : Int) + -d.1 = ((j / ncol : Nat) : Int) := by omega
      have e2 : ((i % ncol : Nat) : Int) + -d.2 = ((j % ncol : Nat) : Int) := by omega
      simp only [e1, e2]; exact (cellIdx_self j).symm
    · exact hus'.symm

/-! ### order of the list -/

theorem rowmajor_lt {ncol a a' c c' : Nat} (ha : a < a') (hc : c < ncol) : a * ncol + c < a' * ncol + c' := by
  have h1 : (a + 1) * ncol ≤ a' * ncol := Nat.mul_le_mul_right ncol ha
  have h2 : (a + 1) * ncol = a * ncol + ncol := by rw [Nat.add_mul, Nat.one_mul]
  omega

/-- lexicographic order of offsets = the loop order -/
def offLt (a b : Int × Int) : Prop := a.1 < b.1 ∨ (a.1 = b.1 ∧ a.2 < b.2)

instance : DecidableRel offLt := fun a b => by unfold offLt; exact inferInstance

theorem offs8_sorted : offs8.Pairwise offLt := by decide

theorem cellIdx_lt_of_offLt {nrow ncol : Nat} {r c r' c' : Int} (h : r < r' ∨ (r = r' ∧ c < c'))
    (hin : inRaster nrow ncol r c = true) (hin' : inRaster nrow ncol r' c' = true) :
    cellIdx ncol r c < cellIdx ncol r' c' := by
  obtain ⟨a0, a1, a2, a3⟩ := inRaster_iff.1 hin
  obtain ⟨b0, b1, b2, b3⟩ := inRaster_iff.1 hin'
  unfold cellIdx
  rcases h with h | ⟨h1, h2⟩
  · exact rowmajor_lt (by omega) (by omega)
  · subst h1
    have : c.toNat < c'.toNat := by omega
    omega

/-- **the list is strictly increasing** (hence duplicate free), i.e. the loop order `(dr, dc)` is the order
of the linear indices -/
theorem upstreamIdx_sorted (us : List Nat) (nrow ncol : Nat) (codes : Array Nat) (i : Nat) :
    (upstreamIdx us nrow ncol codes i).Pairwise (· < ·) := by
  rw [upstreamIdx_eq_filterMap]
  refine List.Pairwise.filterMap _ ?_ offs8_sorted
  intro a a' hlt b hb b' hb'
  obtain ⟨_, hin, e, _⟩ := usCand_some.1 hb
  obtain ⟨_, hin', e', _⟩ := usCand_some.1 hb'
  rw [e, e']
  refine cellIdx_lt_of_offLt ?_ hin hin'
  unfold offLt at hlt
  omega

/-- two strictly increasing lists with the same members are equal -/
theorem sorted_ext : ∀ {l1 l2 : List Nat}, l1.Pairwise (· < ·) → l2.Pairwise (· < ·) →
    (∀ x, x ∈ l1 ↔ x ∈ l2) → l1 = l2
  | [], [], _, _, _ => rfl
  | [], b :: l2, _, _, h => by have := (h b).2 (by simp); simp at this
  | a :: l1, [], _, _, h => by have := (h a).1 (by simp); simp at this
  | a :: l1, b :: l2, h1, h2, h => by
    rw [List.pairwise_cons] at h1 h2
    have hab : a = b := by
      have ha := (h a).1 (by simp)
      have hb := (h b).2 (by simp)
      rw [List.mem_cons] at ha hb
      rcases ha with ha | ha
      · exact ha
      · rcases hb with hb | hb
        · exact hb.symm
        · have := h2.1 a ha
          have := h1.1 b hb
          omega
    subst hab
    congr 1
    apply sorted_ext h1.2 h2.2
    intro x
    have hx := h x
    rw [List.mem_cons, List.mem_cons] at hx
    constructor
    · intro hx1
      rcases hx.1 (Or.inr hx1) with e | e
      · have := h1.1 x hx1; omega
      · exact e
    · intro hx2
      rcases hx.2 (Or.inr hx2) with e | e
      · have := h2.1 x hx2; omega
      · exact e

theorem range_filter_sorted (n : Nat) (p : Nat → Bool) : ((List.range n).filter p).Pairwise (· < ·) :=
  List.Pairwise.filter _ (List.pairwise_lt_range)

/-- **`_upstream_idx` = the declarative upstream list** (as lists: same cells, same order) -/
theorem tab_upstream_eq {dirs : List (Nat × (Int × Int))} {pits : List Nat} {mv : Nat} {us : List Nat}
    (hus : usOK dirs pits mv us = true) (nrow ncol : Nat) (codes : Array Nat) (i : Nat) (hi : i < nrow * ncol) :
    upstreamIdx us nrow ncol codes i = upOf nrow ncol (readTab dirs pits mv ncol codes) i := by
  apply sorted_ext (upstreamIdx_sorted us nrow ncol codes i) (range_filter_sorted _ _)
  intro j
  rw [tab_mem_upstream hus nrow ncol codes i hi j]
  simp

/-! ### `_downstream_idx` by cases, and against the decoded graph of `from_array` -/

theorem mem_alphabet_of_dir {dirs : List (Nat × (Int × Int))} {pits : List Nat} {mv : Nat} {v : Nat} {d : Int × Int}
    (h : (v, d) ∈ dirs) : v ∈ alphabet dirs pits mv := by
  unfold alphabet
  exact List.mem_append_left _ (List.mem_append_left _ (List.mem_map.2 ⟨(v, d), h, rfl⟩))

theorem mem_alphabet_of_pit {dirs : List (Nat × (Int × Int))} {pits : List Nat} {mv : Nat} {v : Nat}
    (h : v ∈ pits) : v ∈ alphabet dirs pits mv := by
  unfold alphabet
  exact List.mem_append_left _ (List.mem_append_right _ h)

/-- `_downstream_idx` on a pit code and on a direction code, in terms of the specification tables only -/
theorem tab_downstream_cases {drdc : Nat → Int × Int} {dirs : List (Nat × (Int × Int))} {pits : List Nat} {mv : Nat}
    {us : List Nat} (hok : tabOK drdc dirs pits mv = true) (hus : usOK dirs pits mv us = true)
    (nrow ncol : Nat) (codes : Array Nat) (i : Nat) (hi : i < nrow * ncol) :
    (codes[i]! ∈ pits → downstreamIdx drdc nrow ncol codes i = i) ∧
    (∀ d, (codes[i]!, d) ∈ dirs →
      (inRaster nrow ncol (((i / ncol : Nat) : Int) + d.1) (((i % ncol : Nat) : Int) + d.2) = true →
        downstreamIdx drdc nrow ncol codes i =
          cellIdx ncol (((i / ncol : Nat) : Int) + d.1) (((i % ncol : Nat) : Int) + d.2) ∧
        downstreamIdx drdc nrow ncol codes i < nrow * ncol ∧
        ((downstreamIdx drdc nrow ncol codes i / ncol : Nat) : Int) = ((i / ncol : Nat) : Int) + d.1 ∧
        ((downstreamIdx drdc nrow ncol codes i % ncol : Nat) : Int) = ((i % ncol : Nat) : Int) + d.2) ∧
      (inRaster nrow ncol (((i / ncol : Nat) : Int) + d.1) (((i % ncol : Nat) : Int) + d.2) = false →
        downstreamIdx drdc nrow ncol codes i = nrow * ncol)) := by
  constructor
  · intro hp
    have hne := usOK_pit hus hp
    rw [tab_downstream_eq hok nrow ncol codes i hi (mem_alphabet_of_pit hp) hne]
    apply downOf_not_to
    intro r c
    simp [readTab, hne, hp]
  · intro d hd
    obtain ⟨h1, h2, hl⟩ := usOK_mem hus hd
    have hk := tab_downstream_eq hok nrow ncol codes i hi (mem_alphabet_of_dir hd) h1
    rw [hk, downOf_to (readTab_of_lookup h1 h2 hl)]
    constructor
    · intro hin
      rw [if_pos hin]
      obtain ⟨_, e2, e3, e4⟩ := cellIdx_of_inRaster hin
      exact ⟨rfl, e2, e3, e4⟩
    · intro hin
      rw [hin]; rfl

/-- `_downstream_idx` next to the graph `from_array` decodes, case by case (legal rasters) -/
theorem tab_down_vs_decode {drdc : Nat → Int × Int} {dirs : List (Nat × (Int × Int))} {pits : List Nat} {mv : Nat}
    {us : List Nat} (hok : tabOK drdc dirs pits mv = true) (hus : usOK dirs pits mv us = true)
    (nrow ncol : Nat) (codes : Array Nat) (hlegal : ∀ i, i < nrow * ncol → codes[i]! ∈ alphabet dirs pits mv)
    (i : Nat) (hi : i < nrow * ncol) :
    let dec := (decode nrow ncol false (fun j => codes[j]! == mv) (tabTgt drdc ncol codes)).ds[i]!
    let k := downstreamIdx drdc nrow ncol codes i
    (codes[i]! = mv → dec = nrow * ncol) ∧
    (codes[i]! ∈ pits → dec = i ∧ k = i) ∧
    (∀ d, (codes[i]!, d) ∈ dirs →
      let r : Int := ((i / ncol : Nat) : Int) + d.1
      let c : Int := ((i % ncol : Nat) : Int) + d.2
      (inRaster nrow ncol r c = true → codes[cellIdx ncol r c]! ≠ mv → dec = cellIdx ncol r c ∧ k = cellIdx ncol r c) ∧
      (inRaster nrow ncol r c = true → codes[cellIdx ncol r c]! = mv → dec = i ∧ k = cellIdx ncol r c) ∧
      (inRaster nrow ncol r c = false → dec = i ∧ k = nrow * ncol)) := by
  intro dec k
  have ag := tab_agrees hok nrow ncol codes hlegal
  have hdec : dec = dsOf nrow ncol (readTab dirs pits mv ncol codes) i := by
    show (decode nrow ncol false (fun j => codes[j]! == mv) (tabTgt drdc ncol codes)).ds[i]! = _
    rw [(decode_eq_graph ag).1, graph_get _ _ _ _ hi]
  have hnd : ∀ j, j < nrow * ncol → (readTab dirs pits mv ncol codes j = .nodata ↔ codes[j]! = mv) := by
    intro j hj
    have := ag.nd_iff j hj
    simp only [beq_iff_eq] at this
    exact this.symm
  obtain ⟨hpit, hdir⟩ := tab_downstream_cases hok hus nrow ncol codes i hi
  refine ⟨?_, ?_, ?_⟩
  · intro h
    rw [hdec]
    simp [dsOf, (hnd i hi).2 h]
  · intro hp
    have hne := usOK_pit hus hp
    have hr : readTab dirs pits mv ncol codes i = .pit := by simp [readTab, hne, hp]
    exact ⟨by rw [hdec]; simp [dsOf, hr], hpit hp⟩
  · intro d hd r c
    obtain ⟨h1, h2, hl⟩ := usOK_mem hus hd
    have hr : readTab dirs pits mv ncol codes i = .to r c := readTab_of_lookup h1 h2 hl
    obtain ⟨hin1, hin0⟩ := hdir d hd
    refine ⟨?_, ?_, ?_⟩
    · intro hin hne
      have hv := (not_congr (hnd _ (cellIdx_of_inRaster hin).2.1)).2 hne
      exact ⟨by rw [hdec]; simp [dsOf, hr, hin, hv], (hin1 hin).1⟩
    · intro hin he
      have hv := (hnd _ (cellIdx_of_inRaster hin).2.1).2 he
      exact ⟨by rw [hdec]; simp [dsOf, hr, hin, hv], (hin1 hin).1⟩
    · intro hin
      exact ⟨by rw [hdec]; simp [dsOf, hr, hin], hin0 hin⟩

/-- **full characterisation of `_upstream_idx` through `_downstream_idx`**: `j` is listed iff it is a cell of
the raster other than `i`, an 8-neighbour of `i`, carries a direction code (not a pit, not nodata, not an
illegal value) and `_downstream_idx(j) = i` -/
theorem tab_upstream_iff {drdc : Nat → Int × Int} {dirs : List (Nat × (Int × Int))} {pits : List Nat} {mv : Nat}
    {us : List Nat} (hok : tabOK drdc dirs pits mv = true) (hus : usOK dirs pits mv us = true)
    (nrow ncol : Nat) (codes : Array Nat) (i : Nat) (hi : i < nrow * ncol) (j : Nat) :
    j ∈ upstreamIdx us nrow ncol codes i ↔
      j < nrow * ncol ∧ j ≠ i ∧ nbr8 ncol i j ∧ (∃ d, (codes[j]!, d) ∈ dirs) ∧
      downstreamIdx drdc nrow ncol codes j = i := by
  rw [tab_mem_upstream hus nrow ncol codes i hi j]
  constructor
  · rintro ⟨hj, hji, hd⟩
    have hd' := (downOf_eq_iff hi hji).1 hd
    obtain ⟨h1, _, d, hl, hr, hc⟩ := readTab_to hd'
    have hm := lookup_mem hl
    obtain ⟨_, _, hoff, _⟩ := usOK_dir hus hl
    obtain ⟨b1, b2, b3, b4, _⟩ := offs8_bounds hoff
    refine ⟨hj, hji, ?_, ⟨d, hm⟩, ?_⟩
    · unfold nbr8
      simp only at b1 b2 b3 b4
      omega
    · rw [tab_downstream_eq hok nrow ncol codes j hj (mem_alphabet_of_dir hm) h1]; exact hd
  · rintro ⟨hj, hji, _, ⟨d, hm⟩, hd⟩
    obtain ⟨h1, _, _⟩ := usOK_mem hus hm
    rw [tab_downstream_eq hok nrow ncol codes j hj (mem_alphabet_of_dir hm) h1] at hd
    exact ⟨hj, hji, hd⟩

/-- a code with `drdc = (0, 0)` gives the cell itself -/
theorem downstreamIdx_zero {drdc : Nat → Int × Int} (nrow ncol : Nat) (codes : Array Nat) (i : Nat)
    (hi : i < nrow * ncol) (h : drdc codes[i]! = (0, 0)) : downstreamIdx drdc nrow ncol codes i = i := by
  rw [downstreamIdx_eq, h]
  simp only [Int.add_zero]
  rw [if_pos (inRaster_self hi), cellIdx_self]

/-! ### `downOf` next to `dsOf`, for any reading -/

theorem downOf_vs_dsOf (nrow ncol : Nat) (read : Nat → Code) (i : Nat) :
    (read i = .nodata → dsOf nrow ncol read i = nrow * ncol ∧ downOf nrow ncol read i = i) ∧
    (read i = .pit → dsOf nrow ncol read i = i ∧ downOf nrow ncol read i = i) ∧
    (∀ r c, read i = .to r c →
      (inRaster nrow ncol r c = true → read (cellIdx ncol r c) ≠ .nodata →
        dsOf nrow ncol read i = cellIdx ncol r c ∧ downOf nrow ncol read i = cellIdx ncol r c) ∧
      (inRaster nrow ncol r c = true → read (cellIdx ncol r c) = .nodata →
        dsOf nrow ncol read i = i ∧ downOf nrow ncol read i = cellIdx ncol r c) ∧
      (inRaster nrow ncol r c = false → dsOf nrow ncol read i = i ∧ downOf nrow ncol read i = nrow * ncol)) := by
  refine ⟨fun h => by simp [dsOf, downOf, h], fun h => by simp [dsOf, downOf, h], ?_⟩
  intro r c h
  refine ⟨fun h1 h2 => by simp [dsOf, downOf, h, h1, h2], fun h1 h2 => by simp [dsOf, downOf, h, h1, h2],
    fun h1 => by simp [dsOf, downOf, h, h1]⟩

/-! ### pieces of the composed `from_array` theorem -/

theorem legal_of_valid {alpha : List Nat} {codes : Array Nat} {n : Nat} (hs : codes.size = n)
    (hv : validTab alpha codes = true) : ∀ i, i < n → codes[i]! ∈ alpha := by
  intro i hi
  have hi' : i < codes.size := by omega
  rw [getElem!_pos codes i hi']
  exact (validTab_iff alpha codes).1 hv _ (Array.getElem_mem_toList hi')

theorem maskRead_true (read : Nat → Code) : maskRead (fun _ => true) read = read := by
  funext i; simp [maskRead]

theorem extract_get! (m : Array Bool) (s e j : Nat) (hj : j < e - s) : (m.extract s e)[j]! = m[s + j]! := by
  simp only [getElem!_def, Array.getElem?_extract]
  by_cases h : j < min e m.size - s
  · rw [if_pos h]
  · rw [if_neg h]
    have : m.size ≤ s + j := by omega
    simp [this]

/-- the tail of the composition: size and pit conditions of the constructor, transported to the graph -/
theorem graph_result {nrow ncol : Nat} {rd : Nat → Code} {d : Dec}
    (h : d.ds = graph nrow ncol rd ∧ d.pits.toList = pitsOf (graph nrow ncol rd) ∧ d.n = nvalidOf (nrow * ncol) rd)
    (h2 : 2 ≤ d.ds.size) (h3 : d.pits.size ≠ 0) :
    d.ds = graph nrow ncol rd ∧ d.pits.toList = pitsOf (graph nrow ncol rd) ∧ d.n = nvalidOf (nrow * ncol) rd ∧
    2 ≤ nrow * ncol ∧ pitsOf (graph nrow ncol rd) ≠ [] := by
  obtain ⟨e1, e2, e3⟩ := h
  refine ⟨e1, e2, e3, ?_, ?_⟩
  · rw [e1, graph_size] at h2; exact h2
  · rw [← e2]
    intro hnil
    apply h3
    have : d.pits.toList.length = 0 := by rw [hnil]; rfl
    simpa using this

end Pf.Fd.Ext
