import PfVerif.Proofs.C06OncePin
/-! `max_depth >= 0`: every direction the depth-limited flood writes at a valid cell is `0` (pit) or the
code that points back to a valid cell of which it is a structure neighbour; hence the decoded
downstream cell is an allowed valid neighbour. Core Lean only. -/
namespace Pf.C06
open Pf

variable {G : Grid} {conn : Nat} {elev : Array Int} {nod : Array Bool} {md : Int}

def DirOk (G : Grid) (conn : Nat) (nod : Array Bool) (d8 : Array Nat) : Prop :=
  ∀ c, c < G.n → nod[c]! = false → d8[c]! = 0 ∨
    ∃ o, o ∈ offsets conn ∧ d8[c]! = usCode o.1 o.2 ∧
      ∃ i, i < G.n ∧ nod[i]! = false ∧ shift G i o.1 o.2 = some c

theorem dirOk_visit {z0 : Int} {i0 : Nat} (s : StD) (o : Int × Int) (hs : SizedD G s)
    (ho : o ∈ offsets conn) (hi0 : i0 < G.n) (hn0 : nod[i0]! = false) (h : DirOk G conn nod s.d8) :
    DirOk G conn nod (visitD G conn elev nod md z0 i0 s o).d8 := by
  rcases visitD_cases (G := G) (conn := conn) (elev := elev) (nod := nod) (md := md) z0 i0 s o with
    ⟨heq, _⟩ | ⟨j, _, _, _, heq⟩ | ⟨j, hsh, _, _, heq⟩
  · rw [heq]; exact h
  · rw [heq]; exact h
  · rw [heq]
    have hj : j < G.n := (shift_spec.1 hsh).1
    have hd : (fillStep elev z0 (resetStep elev s j) j (usCode o.1 o.2)).d8 =
        s.d8.setIfInBounds j (usCode o.1 o.2) := by
      unfold fillStep resetStep
      split <;> rfl
    rw [hd]
    intro c hc hn
    by_cases hcj : j = c
    · subst hcj
      rw [get_set_self _ _ _ (by rw [hs.2.2.2.1]; exact hj)]
      exact Or.inr ⟨o, ho, rfl, i0, hi0, hn0, hsh⟩
    · rw [get_set_ne _ _ _ _ hcj]; exact h c hc hn

theorem dirOk_fold {z0 : Int} {i0 : Nat} (l : List (Int × Int)) (hl : ∀ o, o ∈ l → o ∈ offsets conn)
    (s : StD) (hs : SizedD G s) (hi0 : i0 < G.n) (hn0 : nod[i0]! = false) (h : DirOk G conn nod s.d8) :
    DirOk G conn nod (l.foldl (visitD G conn elev nod md z0 i0) s).d8 := by
  induction l generalizing s with
  | nil => exact h
  | cons o l ih =>
    exact ih (fun o' ho' => hl o' (List.mem_cons_of_mem _ ho')) _ (sizedD_visit s o hs)
      (dirOk_visit s o hs (hl o List.mem_cons_self) hi0 hn0 h)

theorem dirOk_loop (fuel : Nat) (s : StD) (hs : SizedD G s) (hsafe : SafeD G elev nod md s)
    (B : OnceBase G conn elev nod md 0 [] s) (h : DirOk G conn nod s.d8) :
    DirOk G conn nod (fillLoopD G conn elev nod md fuel s).d8 := by
  induction fuel generalizing s with
  | zero => exact h
  | succ k ih =>
    unfold fillLoopD
    split
    · exact h
    · rename_i hd rest hq
      have hs0 : SizedD G { s with q := rest } := hs
      have hmem : hd ∈ s.q := by rw [hq]; exact List.mem_cons_self
      have h0 : SafeD G elev nod md { s with q := rest } :=
        ⟨fun e he => hsafe.1 e (by rw [hq]; exact List.mem_cons_of_mem _ he), hsafe.2⟩
      exact ih _ (sizedD_fold _ _ hs0) (safeD_fold _ _ hs0 h0)
        (onceBase_of_mid (onceMid_fold _ (offsets_nodup conn) _ hs0 (onceMid_pop B hq)))
        (dirOk_fold _ (fun _ ho => ho) _ hs0 (B.entry hd hmem).1 (hsafe.1 hd hmem) h)

theorem dirOk_init {seed : Array Bool} (hN : nod.size = G.n) :
    DirOk G conn nod (initStateD G elev nod seed).d8 := by
  intro c hc hn
  left
  have hc' : c < nod.size := by omega
  have : nod[c]! = nod[c] := by simp [hc']
  rw [this] at hn
  simp [initStateD, hc', hn]

theorem drdc_usCode8 : ∀ o ∈ offsets 8, drdc (usCode o.1 o.2) = (-o.1, -o.2) := by decide

theorem offsets_sub8 {conn : Nat} {o : Int × Int} (h : o ∈ offsets conn) : o ∈ offsets 8 := by
  obtain ⟨a, b⟩ := o
  have := (mem_offsets conn a b).1 h
  exact (mem_offsets 8 a b).2 ⟨this.1, this.2.1, this.2.2.1, this.2.2.2.1, fun h => by omega⟩

/-- a direction accepted by `DirOk` decodes to an allowed valid neighbour -/
theorem dirOk_nbr {d8 : Array Nat} (h : DirOk G conn nod d8)
    (h247 : ∀ c, c < G.n → nod[c]! = false → d8[c]! ≠ 247) (c : Nat) (hc : c < G.n)
    (hn : nod[c]! = false) (h0 : d8[c]! ≠ 0) : Nbr G conn nod c (dsOf G d8 c) := by
  rcases h c hc hn with h | ⟨⟨a, b⟩, ho, hcode, i, hi, hni, hsh⟩
  · exact absurd h h0
  · have hdr := drdc_usCode8 (a, b) (offsets_sub8 ho)
    simp only at hdr hcode hsh
    have hne : ¬ (a = 0 ∧ b = 0) := by
      rintro ⟨rfl, rfl⟩
      apply h0; rw [hcode]; rfl
    obtain ⟨_, s1, s2⟩ := shift_spec.1 hsh
    have hback : shift G c (-a) (-b) = some i := shift_spec.2 ⟨hi, by omega, by omega⟩
    have hmo := (mem_offsets conn a b).1 ho
    have hmo' : (-a, -b) ∈ offsets conn :=
      (mem_offsets conn (-a) (-b)).2 ⟨by omega, by omega, by omega, by omega, fun h4 => by
        rcases hmo.2.2.2.2 h4 with h | h
        · left; omega
        · right; omega⟩
    have hds : dsOf G d8 c = i := by
      unfold dsOf
      simp only [hcode, hdr]
      have : ¬ ((-a, -b) = ((0 : Int), (0 : Int))) := by
        intro h; injection h with h1 h2; exact hne ⟨by omega, by omega⟩
      rw [if_neg this, hback]
      simp only
      rw [if_neg (h247 i hi hni)]
    rw [hds]
    refine ⟨(adj_iff_shift hc).2 ⟨(-a, -b), hmo', ?_, hback⟩, ⟨hc, hn⟩, ⟨hi, hni⟩⟩
    intro h; injection h with h1 h2; exact hne ⟨by omega, by omega⟩

theorem fillModelDepth_step_nbr {pits : Option (List Nat)} {minMode : Bool} {elvMax : Option Int}
    {f : Array Int} {d8 : Array Nat} {fin : Bool} {ev : Nat} {evc : Array Nat}
    (hN : nod.size = G.n) (hE : elev.size = G.n)
    (hpits : ∀ l, pits = some l → ∀ p, p ∈ l → p < G.n → nod[p]! = false)
    (h : fillModelDepth G conn elev nod pits minMode elvMax md = .ok (f, d8, fin, ev, evc))
    (c : Nat) (hc : c < G.n) (hn : nod[c]! = false) (h0 : d8[c]! ≠ 0) :
    Nbr G conn nod c (dsOf G d8 c) := by
  unfold fillModelDepth at h
  split at h
  · cases h
  · rename_i seed hseed
    injection h with h
    simp only [Prod.mk.injEq] at h
    obtain ⟨_, h2, _⟩ := h
    have hs := sizedD_init (elev := elev) hN hE (seedsOfE_size hseed)
    have hsafe0 : SafeD G elev nod md (initStateD G elev nod seed) :=
      safeD_init hN (seedsOfE_valid hpits hseed)
    have hsafe := safeD_loop (conn := conn) (md := md) (fuelD G) _ hs hsafe0
    have hdir := dirOk_loop (conn := conn) (md := md) (fuelD G) _ hs hsafe0 onceBase_init (dirOk_init hN)
    rw [h2] at hdir
    exact dirOk_nbr hdir (fun c hc hn => by
      have := (hsafe.2 c hc).2.1 hn
      rw [h2] at this
      exact this) c hc hn h0

end Pf.C06
