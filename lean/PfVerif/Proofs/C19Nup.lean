import PfVerif.Model.C19
/-! `core.upstream_count` (model `upstreamCount`) equals the declarative inflow count `nupM` on valid
cells (C19). Core Lean only. -/
namespace Pf.C19
open Pf

/-- body of the loop of `upstream_count` -/
def nupStep (ds : Array Nat) (mask : Option (Array Bool)) (nup : Array Int) (idx0 : Nat) : Array Int :=
  let d := ds[idx0]!
  if d ≠ ds.size then
    let nup := nup.setIfInBounds idx0 (max nup[idx0]! 0)
    if idx0 ≠ d ∧ maskAt mask idx0 then nup.setIfInBounds d (max nup[d]! 0 + 1) else nup
  else nup

theorem upstreamCount_eq (ds : Array Nat) (mask : Option (Array Bool)) :
    upstreamCount ds mask = (List.range ds.size).foldl (nupStep ds mask) (Array.replicate ds.size (-9)) := rfl

def inflow (ds : Array Nat) (mask : Option (Array Bool)) (v j : Nat) : Bool :=
  ds[j]! != ds.size && j != ds[j]! && maskAt mask j && ds[j]! == v

theorem nupStep_size (ds : Array Nat) (mask : Option (Array Bool)) (nup : Array Int) (j : Nat) :
    (nupStep ds mask nup j).size = nup.size := by
  unfold nupStep
  simp only
  split
  · split <;> simp
  · rfl

theorem nupStep_get (ds : Array Nat) (mask : Option (Array Bool)) (nup : Array Int) (j v : Nat)
    (hsz : nup.size = ds.size) (hj : j < ds.size) (hv : v < ds.size) :
    (nupStep ds mask nup j)[v]! =
      if (j = v ∧ ds[j]! ≠ ds.size) ∨ inflow ds mask v j = true then
        max nup[v]! 0 + (if inflow ds mask v j = true then 1 else 0)
      else nup[v]! := by
  have hinf : inflow ds mask v j = true ↔
      (ds[j]! ≠ ds.size ∧ j ≠ ds[j]! ∧ maskAt mask j = true ∧ ds[j]! = v) := by
    simp [inflow, and_assoc]
  obtain ⟨d, hd⟩ : ∃ d, d = ds[j]! := ⟨_, rfl⟩
  obtain ⟨mk, hmk⟩ : ∃ b, b = maskAt mask j := ⟨_, rfl⟩
  obtain ⟨x, hx⟩ : ∃ x, x = nup[v]! := ⟨_, rfl⟩
  obtain ⟨y, hy⟩ : ∃ y, y = nup[j]! := ⟨_, rfl⟩
  obtain ⟨z, hz⟩ : ∃ z, z = nup[d]! := ⟨_, rfl⟩
  simp only [hinf]
  unfold nupStep
  simp only [← hd, ← hmk, ← hx]
  split
  · split
    · rw [get!_setIfInBounds, get!_setIfInBounds, get!_setIfInBounds]
      simp only [Array.size_setIfInBounds, hsz, ← hx, ← hy, ← hz]
      grind
    · rw [get!_setIfInBounds]
      simp only [hsz, ← hx, ← hy]
      grind
  · grind

theorem nup_fold (ds : Array Nat) (mask : Option (Array Bool)) (v : Nat) (hv : v < ds.size)
    (hvv : ds[v]! ≠ ds.size) :
    ∀ (l : List Nat) (nup0 : Array Int), nup0.size = ds.size → (∀ j ∈ l, j < ds.size) →
      (l.foldl (nupStep ds mask) nup0)[v]! =
        if v ∈ l ∨ 0 < (l.filter (inflow ds mask v)).length then
          max nup0[v]! 0 + ((l.filter (inflow ds mask v)).length : Int)
        else nup0[v]! := by
  intro l
  induction l with
  | nil => intro nup0 _ _; simp
  | cons j l ih =>
    intro nup0 hsz hb
    rw [List.foldl_cons, ih _ (by rw [nupStep_size, hsz]) (fun i hi => hb i (by simp [hi])),
      nupStep_get ds mask nup0 j v hsz (hb j (by simp)) hv]
    by_cases hi : inflow ds mask v j = true
    · simp only [hi, or_true, if_true, List.filter_cons, List.length_cons, List.mem_cons]
      have : (0 : Nat) < (List.filter (inflow ds mask v) l).length + 1 := by omega
      simp only [this, or_true, if_true]
      split <;> grind
    · have hi' : inflow ds mask v j = false := by simpa using hi
      simp only [hi', Bool.false_eq_true, or_false, if_false, List.filter_cons, List.mem_cons]
      by_cases hjv : j = v
      · subst hjv
        simp only [hvv, ne_eq, not_false_eq_true, and_self, if_true, true_or]
        split <;> grind
      · have hvj : ¬ v = j := fun h => hjv h.symm
        simp only [hjv, hvj, false_and, if_false, false_or]

/-- **`upstream_count` counts the inflowing stream cells** of every valid cell -/
theorem upstreamCount_spec (ds : Array Nat) (mask : Option (Array Bool)) (v : Nat)
    (hv : isValid ds v = true) : (upstreamCount ds mask)[v]! = (nupM ds mask v : Int) := by
  simp only [isValid, Bool.and_eq_true, decide_eq_true_eq, bne_iff_ne, ne_eq] at hv
  rw [upstreamCount_eq, nup_fold ds mask v hv.1 hv.2 _ _ (by simp) (fun j hj => List.mem_range.mp hj)]
  have hmem : v ∈ List.range ds.size := List.mem_range.mpr hv.1
  simp only [hmem, true_or, if_true]
  have h9 : (Array.replicate ds.size (-9 : Int))[v]! = -9 := by simp [hv.1]
  rw [h9]
  have hf : (List.range ds.size).filter (inflow ds mask v) =
      (List.range ds.size).filter (fun j => inStream ds mask j && ds[j]! == v && j != v) := by
    apply List.filter_congr
    intro j hj
    have hj' := List.mem_range.mp hj
    simp only [inflow, inStream, isValid, hj', decide_true, Bool.true_and]
    rw [Bool.eq_iff_iff]
    simp only [Bool.and_eq_true, bne_iff_ne, ne_eq, beq_iff_eq]
    constructor
    · rintro ⟨⟨⟨h1, h2⟩, h3⟩, h4⟩
      exact ⟨⟨⟨h1, h3⟩, h4⟩, fun h => h2 (by rw [h4, h])⟩
    · rintro ⟨⟨⟨h1, h3⟩, h4⟩, h2⟩
      exact ⟨⟨⟨h1, fun h => h2 (by rw [← h4, ← h])⟩, h3⟩, h4⟩
  rw [hf]
  unfold nupM
  omega

end Pf.C19
