import PfVerif.Proofs.C04
import PfVerif.Proofs.C14Up
/-! Frontier form of `fillnodata_downstream(how='sum')`: the filled value of an empty cell is the sum
of the field over the nearest valid cells upstream (reached through empty cells only), each once.
Route: the sum fill is the guarded accumulation sweep of C04 (`sweepUp_add_sum`) with the field
"value or 0" and the guard "the downstream cell is empty". Core Lean only. -/
namespace Pf

/-- the link `c → ds c` passes a value on iff the downstream cell is empty -/
def okEmpty (ds : Array Nat) (data : Array Int) (nd : Int) (c : Nat) : Bool := data[ds[c]!]! == nd

/-- the field with empty cells counted as 0 -/
def valOr0 (data : Array Int) (nd : Int) : Array Int := data.map fun v => if v = nd then 0 else v

theorem valOr0_get (data : Array Int) (nd : Int) (j : Nat) (hj : j < data.size) :
    (valOr0 data nd)[j]! = if data[j]! = nd then 0 else data[j]! := by
  simp [valOr0, hj]

/-- the accumulation sweep that mirrors the sum fill -/
def sumAcc (ds : Array Nat) (seq : List Nat) (data : Array Int) (nd : Int) : Array Int :=
  sweepUp ds (updAdd (okEmpty ds data nd)) seq (valOr0 data nd)

theorem foldl_updAdd_kids (ok : Nat → Bool) (A : Array Int) (b : Bool) :
    ∀ (l : List Nat) (acc : Int), (∀ c ∈ l, ok c = b) →
      l.foldl (fun acc c => updAdd ok c acc A[c]!) acc =
        acc + (if b then (l.map fun c => A[c]!).sum else 0) := by
  intro l
  induction l with
  | nil => intro acc _; cases b <;> simp
  | cons c l ih =>
    intro acc h
    rw [List.foldl_cons, ih _ (fun x hx => h x (by simp [hx]))]
    have hc := h c (by simp)
    cases b <;> simp [updAdd, hc, Int.add_assoc]

theorem somes_map_sum (O : Nat → Option Int) : ∀ (l : List Nat),
    (somes (l.map O)).sum = (l.map fun c => (O c).getD 0).sum := by
  intro l
  induction l with
  | nil => simp [somes]
  | cons c l ih =>
    simp [somes] at ih ⊢
    cases h : O c with
    | none => simp [ih]
    | some v => simp [ih]

theorem map_sum_congr (f g : Nat → Int) : ∀ (l : List Nat), (∀ c ∈ l, f c = g c) →
    (l.map f).sum = (l.map g).sum := by
  intro l
  induction l with
  | nil => intro _; rfl
  | cons c l ih =>
    intro h
    simp only [List.map_cons, List.sum_cons]
    rw [h c (by simp), ih (fun x hx => h x (by simp [hx]))]

/-- the optional value of every cell after the sum fill is the accumulation (0 when empty) -/
theorem fillOpt_sum_eq_acc (ds : Array Nat) (seq : List Nat) (data : Array Int) (nd : Int)
    (htopo : Topo ds seq) (hb : ∀ i ∈ seq, i < data.size) :
    ∀ j ∈ seq, (fillOpt ds seq data nd 2 j).getD 0 = (sumAcc ds seq data nd)[j]! := by
  have hb' : ∀ i ∈ seq, i < (valOr0 data nd).size := by
    intro i hi; simp [valOr0]; exact hb i hi
  refine htopo.induction_up_c14 _ (fun j hj ih => ?_)
  have hA := sweepUp_spec ds (updAdd (okEmpty ds data nd)) seq htopo (valOr0 data nd) hb' j
  have hO := (fillDown_rec ds seq data nd 2 htopo hb j (hb j hj)).1
  show (fillOpt ds seq data nd 2 j).getD 0 = (sweepUp ds (updAdd (okEmpty ds data nd)) seq (valOr0 data nd))[j]!
  rw [hA, foldl_updAdd_kids (okEmpty ds data nd) _ (data[j]! == nd) _ _
    (fun c hc => by simp [okEmpty, (mem_kids hc).2.1]), valOr0_get _ _ _ (hb j hj)]
  show (optOf (fillDownState ds seq data nd 2)[j]!).getD 0 = _
  rw [hO]
  by_cases hd : data[j]! = nd
  · simp only [hd, ne_eq, not_true_eq_false, if_false, if_true, beq_self_eq_true, Int.zero_add]
    have hm := mergeFold_sum ((kids ds seq j).map fun c => optOf (fillDownState ds seq data nd 2)[c]!) none
    have hs := somes_map_sum (fun c => optOf (fillDownState ds seq data nd 2)[c]!) (kids ds seq j)
    have hmb : mergeBranches 2 ((kids ds seq j).map fun c => optOf (fillDownState ds seq data nd 2)[c]!) =
        ((kids ds seq j).map fun c => optOf (fillDownState ds seq data nd 2)[c]!).foldl (mergeOpt 2) none := rfl
    rw [hmb, hm]
    simp only []
    have hsum : (somes ((kids ds seq j).map fun c => optOf (fillDownState ds seq data nd 2)[c]!)).sum =
        ((kids ds seq j).map fun c => (sumAcc ds seq data nd)[c]!).sum := by
      rw [hs]
      exact map_sum_congr _ _ _ (fun c hc => ih c hc)
    simp only [sumAcc] at hsum
    split
    · rename_i hall
      -- all branches empty: the list of present values is empty
      have : somes ((kids ds seq j).map fun c => optOf (fillDownState ds seq data nd 2)[c]!) = [] := by
        simp only [somes, List.filterMap_eq_nil_iff]
        intro x hx; rw [hall x hx]; rfl
      rw [← hsum, this]; rfl
    · simp only [Option.getD_some]; exact hsum
  · have hne : (data[j]! == nd) = false := by simpa using hd
    simp [hd, hne]

/-- `Feeds k j` (inductive, ≥ 1 step through empty cells) in terms of C04's guarded reachability -/
theorem Feeds.upG {ds : Array Nat} {data : Array Int} {nd : Int} {k j : Nat}
    (h : Feeds ds data nd k j) : UpG ds (okEmpty ds data nd) j k := by
  induction h with
  | step _ hd => exact UpG.snoc (by simp [okEmpty, hd]) (UpG.refl ds _ k)
  | next c _ _ hd ih => exact UpG.snoc (by simp [okEmpty, hd]) ih

theorem Feeds.of_upG {ds : Array Nat} {data : Array Int} {nd : Int} {k : Nat} :
    ∀ (m j : Nat), iterA ds m k = j → (∀ t, t < m → okEmpty ds data nd (iterA ds t k) = true) →
      k ≠ j → Feeds ds data nd k j := by
  intro m
  induction m with
  | zero => intro j h _ hne; exact absurd h hne
  | succ m ih =>
    intro j h hok hne
    rw [iterA_succ'] at h
    have hokm : data[ds[iterA ds m k]!]! = nd := by
      have := hok m (Nat.lt_succ_self m); simpa [okEmpty] using this
    have hok' : ∀ t, t < m → okEmpty ds data nd (iterA ds t k) = true :=
      fun t ht => hok t (Nat.lt_succ_of_lt ht)
    by_cases hp : ds[iterA ds m k]! = iterA ds m k
    · exact ih j (by rw [← h, hp]) hok' hne
    · subst h
      by_cases hk : k = iterA ds m k
      · have := Feeds.step (ds := ds) (data := data) (nd := nd) (k := k) (by rw [← hk] at hp; exact hp)
          (by rw [← hk] at hokm; exact hokm)
        rw [← hk]; exact this
      · exact Feeds.next _ (ih _ rfl hok' hk) hp hokm

/-- for a source `k` (holding a value) and an empty cell `j`: `k` feeds `j` iff `j` is reached from
`k` over links into empty cells -/
theorem feeds_iff_upG {ds : Array Nat} {data : Array Int} {nd : Int} {k j : Nat}
    (hk : data[k]! ≠ nd) (hj : data[j]! = nd) :
    Feeds ds data nd k j ↔ UpG ds (okEmpty ds data nd) j k :=
  ⟨Feeds.upG, fun ⟨m, hm, hok⟩ => Feeds.of_upG m j hm hok (fun h => hk (h ▸ hj))⟩

/-- the merge of optional branch values is empty iff every branch is (any merge rule) -/
theorem mergeFold_none (how : Nat) : ∀ (l : List (Option Int)) (acc : Option Int),
    l.foldl (mergeOpt how) acc = none ↔ acc = none ∧ ∀ x ∈ l, x = none := by
  intro l
  induction l with
  | nil => intro acc; simp
  | cons x l ih =>
    intro acc
    rw [List.foldl_cons, ih]
    cases x <;> cases acc <;> simp [mergeOpt]

/-- a cell ends up holding a value iff it held one or some source feeds it (any merge rule) -/
theorem fillOpt_isSome_iff (ds : Array Nat) (seq : List Nat) (data : Array Int) (nd : Int) (how : Nat)
    (htopo : Topo ds seq) (hb : ∀ i ∈ seq, i < data.size) :
    ∀ j ∈ seq, (fillOpt ds seq data nd how j ≠ none ↔
      data[j]! ≠ nd ∨ ∃ k ∈ seq, data[k]! ≠ nd ∧ Feeds ds data nd k j) := by
  have hrec : ∀ j ∈ seq, fillOpt ds seq data nd how j = if data[j]! ≠ nd then some data[j]!
      else mergeBranches how ((kids ds seq j).map fun c => fillOpt ds seq data nd how c) :=
    fun j hj => (fillDown_rec ds seq data nd how htopo hb j (hb j hj)).1
  have hnone : ∀ vals, mergeBranches how vals = none ↔ ∀ x ∈ vals, x = none := by
    intro vals; unfold mergeBranches; rw [mergeFold_none]; simp
  intro j hj
  constructor
  · -- upstream induction
    revert j
    refine htopo.induction_up_c14 _ (fun j hj ih hne => ?_)
    by_cases hd : data[j]! = nd
    · right
      rw [hrec j hj] at hne
      simp only [hd, ne_eq, not_true_eq_false, if_false] at hne
      have : ¬ ∀ x ∈ (kids ds seq j).map (fun c => fillOpt ds seq data nd how c), x = none :=
        fun h => hne ((hnone _).2 h)
      have : ∃ c ∈ kids ds seq j, fillOpt ds seq data nd how c ≠ none := by
        apply Classical.byContradiction
        intro hcon
        apply this
        intro x hx
        obtain ⟨c, hc, rfl⟩ := List.mem_map.1 hx
        apply Classical.byContradiction
        intro hx'; exact hcon ⟨c, hc, hx'⟩
      obtain ⟨c, hck, hcv⟩ := this
      obtain ⟨hcs, hcd, hcn⟩ := mem_kids hck
      have hpc : ds[c]! ≠ c := by rw [hcd]; exact fun h => hcn h.symm
      rcases ih c hck hcv with h1 | ⟨k, hk, h1, h2⟩
      · refine ⟨c, hcs, h1, ?_⟩
        have := Feeds.step (ds := ds) (data := data) (nd := nd) (k := c) hpc (by rw [hcd]; exact hd)
        rwa [hcd] at this
      · refine ⟨k, hk, h1, ?_⟩
        have := Feeds.next c h2 hpc (by rw [hcd]; exact hd)
        rwa [hcd] at this
    · exact Or.inl hd
  · rintro (hd | ⟨k, hk, hdk, hf⟩)
    · rw [hrec j hj]; simp [hd]
    · have hstep : ∀ c ∈ seq, fillOpt ds seq data nd how c ≠ none → ds[c]! ≠ c → data[ds[c]!]! = nd →
          fillOpt ds seq data nd how ds[c]! ≠ none := by
        intro c hc hv hp hd
        rw [hrec _ (Topo.ds_mem htopo c hc)]
        simp only [hd, ne_eq, not_true_eq_false, if_false]
        intro hn
        exact hv ((hnone _).1 hn _ (List.mem_map.2 ⟨c, kids_mem hc rfl (fun h => hp h.symm), rfl⟩))
      clear hj
      suffices h : j ∈ seq ∧ fillOpt ds seq data nd how j ≠ none from h.2
      have hOk : fillOpt ds seq data nd how k ≠ none := by rw [hrec k hk]; simp [hdk]
      induction hf with
      | step hp hd => exact ⟨Topo.ds_mem htopo k hk, hstep k hk hOk hp hd⟩
      | next c _ hp hd ih =>
        obtain ⟨ic, i1⟩ := ih
        exact ⟨Topo.ds_mem htopo c ic, hstep c ic i1 hp hd⟩

/-- **frontier form for `sum`**: the value of an empty cell `j` after the fill is the sum of the field
over the sources that feed it (each index counted once); it stays empty iff there is none -/
theorem fillDown_sum_frontier (ds : Array Nat) (seq : List Nat) (data : Array Int) (nd : Int)
    (htopo : Topo ds seq) (hb : ∀ i ∈ seq, i < data.size) (j : Nat) (hj : j ∈ seq) (hd : data[j]! = nd) :
    ((¬ ∃ k ∈ seq, data[k]! ≠ nd ∧ Feeds ds data nd k j) → fillOpt ds seq data nd 2 j = none) ∧
    ((∃ k ∈ seq, data[k]! ≠ nd ∧ Feeds ds data nd k j) →
      fillOpt ds seq data nd 2 j =
        some (sumOver data.size (fun k => k ∈ seq ∧ data[k]! ≠ nd ∧ Feeds ds data nd k j) (fun k => data[k]!))) := by
  have hiff := fillOpt_isSome_iff ds seq data nd 2 htopo hb j hj
  constructor
  · intro hno
    apply Classical.byContradiction
    intro hne
    rcases hiff.1 hne with h | h
    · exact h hd
    · exact hno h
  · intro hex
    have hne : fillOpt ds seq data nd 2 j ≠ none := hiff.2 (Or.inr hex)
    have hacc := fillOpt_sum_eq_acc ds seq data nd htopo hb j hj
    have hb' : ∀ i ∈ seq, i < (valOr0 data nd).size := by
      intro i hi; simp [valOr0]; exact hb i hi
    have hsum := sweepUp_add_sum ds (okEmpty ds data nd) seq htopo data.size hb (valOr0 data nd) hb' j hj
    have hconv : sumOver data.size (fun k => k ∈ seq ∧ UpG ds (okEmpty ds data nd) j k) (fun k => (valOr0 data nd)[k]!) =
        sumOver data.size (fun k => k ∈ seq ∧ data[k]! ≠ nd ∧ Feeds ds data nd k j) (fun k => data[k]!) := by
      unfold sumOver
      apply sumRange_congr
      intro k hk
      show ite0 (k ∈ seq ∧ UpG ds (okEmpty ds data nd) j k) (valOr0 data nd)[k]! =
        ite0 (k ∈ seq ∧ data[k]! ≠ nd ∧ Feeds ds data nd k j) data[k]!
      rw [valOr0_get _ _ _ hk]
      by_cases hdk : data[k]! = nd
      · rw [if_pos hdk, ite0_neg (p := k ∈ seq ∧ data[k]! ≠ nd ∧ Feeds ds data nd k j) (fun h => h.2.1 hdk)]
        by_cases hp : k ∈ seq ∧ UpG ds (okEmpty ds data nd) j k
        · rw [ite0_pos hp]
        · rw [ite0_neg hp]
      · rw [if_neg hdk]
        exact ite0_congr ⟨fun h => ⟨h.1, hdk, (feeds_iff_upG hdk hd).2 h.2⟩,
          fun h => ⟨h.1, (feeds_iff_upG hdk hd).1 h.2.2⟩⟩ (fun _ => rfl)
    cases hv : fillOpt ds seq data nd 2 j with
    | none => exact absurd hv hne
    | some r =>
      rw [hv] at hacc
      simp only [Option.getD_some] at hacc
      rw [hacc]
      show some (sumAcc ds seq data nd)[j]! = _
      unfold sumAcc
      rw [hsum, hconv]

end Pf
