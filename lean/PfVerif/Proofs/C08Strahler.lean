import PfVerif.Model.C08
import PfVerif.Proofs.C08Topo
/-! Lemmas for the Strahler sweep (C08). Core Lean only. -/
namespace Pf

/-- the order a cell hands to its downstream cell: its own order after the headwater rule -/
def headVal (so : Array Nat) (i : Nat) : Nat := if so[i]! = 0 then 1 else so[i]!

theorem size_strahlerStep (ds : Array Nat) (mask : Option (Array Bool)) (i : Nat)
    (st : Array Nat × Array Nat) :
    (strahlerStep ds mask i st).1.size = st.1.size ∧ (strahlerStep ds mask i st).2.size = st.2.size := by
  unfold strahlerStep
  constructor <;> grind

/-- pointwise effect of one loop iteration of `strahler_order` -/
theorem strahlerStep_get (ds : Array Nat) (mask : Option (Array Bool)) (i : Nat)
    (st : Array Nat × Array Nat) (hi1 : i < st.1.size) (hd1 : ds[i]! < st.1.size)
    (hd2 : ds[i]! < st.2.size) (j : Nat) :
    (strahlerStep ds mask i st).1[j]! =
      (if maskAt mask i = true then
        (if j = i then headVal st.1 i
         else if j = ds[i]! then (phi (st.1[j]!, st.2[j]!) (headVal st.1 i)).1 else st.1[j]!)
       else st.1[j]!) ∧
    (strahlerStep ds mask i st).2[j]! =
      (if maskAt mask i = true ∧ j = ds[i]! ∧ j ≠ i then (phi (st.1[j]!, st.2[j]!) (headVal st.1 i)).2
       else st.2[j]!) := by
  unfold strahlerStep headVal phi
  by_cases hm : maskAt mask i = true
  · simp only [hm, Bool.not_true, Bool.false_eq_true, if_false, if_true, true_and]
    by_cases hp : ds[i]! = i
    · simp only [hp, if_true]
      constructor <;> grind [get!_setIfInBounds]
    · simp only [hp, if_false]
      constructor <;> grind [get!_setIfInBounds]
  · simp [hm]

/-- the inflowing cells of `j` among `seq` that lie in the mask, in processing order -/
def kidsM (ds : Array Nat) (seq : List Nat) (mask : Option (Array Bool)) (j : Nat) : List Nat :=
  (kids ds seq j).filter (maskAt mask)

theorem kidsM_snoc (ds : Array Nat) (mask : Option (Array Bool)) (pre : List Nat) (i j : Nat) :
    kidsM ds (pre ++ [i]) mask j =
      (if ds[i]! = j ∧ i ≠ j ∧ maskAt mask i = true then [i] else []) ++ kidsM ds pre mask j := by
  simp only [kidsM, kids_snoc, List.filter_append]
  by_cases h1 : ds[i]! = j <;> by_cases h2 : i = j <;> by_cases h3 : maskAt mask i = true <;>
    simp [h1, h2, h3]

def strahlerFold (ds : Array Nat) (mask : Option (Array Bool)) (seq : List Nat)
    (st : Array Nat × Array Nat) : Array Nat × Array Nat :=
  seq.foldr (strahlerStep ds mask) st

/-- fold of the junction update over the (final) orders of the masked inflows of `j` -/
def foldKids (ds : Array Nat) (seq : List Nat) (mask : Option (Array Bool)) (F : Array Nat)
    (a : Nat × Nat) (j : Nat) : Nat × Nat :=
  ((kidsM ds seq mask j).map (F[·]!)).foldl phi a

/-- **Generic statement about the loop of `strahler_order`** started in an arbitrary state: every cell
ends with the junction update folded over the final orders of its masked inflows (in processing
order), followed by the headwater rule if the cell itself is processed. -/
theorem strahlerFold_spec (ds : Array Nat) (mask : Option (Array Bool)) (seq : List Nat)
    (htopo : Topo ds seq) :
    ∀ (st : Array Nat × Array Nat), (∀ i ∈ seq, i < st.1.size ∧ i < st.2.size) → ∀ j,
      (strahlerFold ds mask seq st).1[j]! =
        (if j ∈ seq ∧ maskAt mask j = true ∧
            (foldKids ds seq mask (strahlerFold ds mask seq st).1 (st.1[j]!, st.2[j]!) j).1 = 0 then 1
         else (foldKids ds seq mask (strahlerFold ds mask seq st).1 (st.1[j]!, st.2[j]!) j).1) ∧
      (strahlerFold ds mask seq st).2[j]! =
        (foldKids ds seq mask (strahlerFold ds mask seq st).1 (st.1[j]!, st.2[j]!) j).2 := by
  induction htopo with
  | nil => intro st _ j; simp [strahlerFold, foldKids, kidsM, kids]
  | @snoc pre i hpre hi hds ih =>
    intro st hb j
    have hdsmem := Topo.ds_mem hpre
    have hno : ∀ c ∈ pre, ds[c]! ≠ i := fun c hc h => hi (h ▸ hdsmem c hc)
    have hkids_i : kidsM ds pre mask i = [] := by
      simp only [kidsM, kids, List.filter_eq_nil_iff, List.mem_filter, List.mem_reverse]
      intro c hc; simp [hno c hc.1] at hc
    have hfold : strahlerFold ds mask (pre ++ [i]) st =
        strahlerFold ds mask pre (strahlerStep ds mask i st) := by
      simp [strahlerFold, List.foldr_append]
    obtain ⟨st', hst'⟩ : ∃ o, o = strahlerStep ds mask i st := ⟨_, rfl⟩
    have hsz := size_strahlerStep ds mask i st
    rw [← hst'] at hsz
    have hb' : ∀ k ∈ pre, k < st'.1.size ∧ k < st'.2.size := fun k hk => by
      rw [hsz.1, hsz.2]; exact hb k (by simp [hk])
    have ihj := ih st' hb'
    have hi1 := hb i (by simp)
    have hd : ds[i]! < st.1.size ∧ ds[i]! < st.2.size := by
      rcases hds with h | h
      · rw [h]; exact hi1
      · exact hb _ (by simp [h])
    have hget : ∀ j, st'.1[j]! = _ ∧ st'.2[j]! = _ := fun j => by
      rw [hst']; exact strahlerStep_get ds mask i st hi1.1 hd.1 hd.2 j
    -- the final value of `i` is its value right after its own iteration
    have hfin_i : (strahlerFold ds mask pre st').1[i]! = st'.1[i]! ∧
        (strahlerFold ds mask pre st').2[i]! = st'.2[i]! := by
      have := ihj i
      simp only [foldKids, hkids_i, List.map_nil, List.foldl_nil, hi, false_and, if_false] at this
      exact this
    rw [hfold, ← hst']
    obtain ⟨F, hF⟩ : ∃ o, o = strahlerFold ds mask pre st' := ⟨_, rfl⟩
    rw [← hF] at ihj hfin_i ⊢
    obtain ⟨h1, h2⟩ := ihj j
    simp only [foldKids, kidsM_snoc] at h1 h2 ⊢
    by_cases hji : j = i
    · subst hji
      have g1 := (hget j).1
      have g2 := (hget j).2
      simp only [hkids_i, List.append_nil, List.map_nil, List.foldl_nil] at h1 h2 ⊢
      have hnn : ¬ (ds[j]! = j ∧ j ≠ j ∧ maskAt mask j = true) := by simp
      simp only [hnn, if_false, List.map_nil, List.foldl_nil, List.mem_append, List.mem_singleton,
        or_true, true_and]
      rw [hfin_i.1, hfin_i.2, g1, g2]
      simp only [headVal]
      constructor
      · by_cases hm : maskAt mask j = true <;> simp [hm]
      · simp
    · have hmem : (j ∈ pre ++ [i]) ↔ j ∈ pre := by simp [hji]
      by_cases hc : ds[i]! = j ∧ i ≠ j ∧ maskAt mask i = true
      · have g1 := (hget j).1
        have g2 := (hget j).2
        have hv : F.1[i]! = headVal st.1 i := by
          rw [hfin_i.1, (hget i).1]; simp [hc.2.2]
        have e : (st'.1[j]!, st'.2[j]!) = phi (st.1[j]!, st.2[j]!) (F.1[i]!) := by
          rw [g1, g2, hv]
          simp [hc.2.2, hji, hc.1]
        rw [if_pos hc]
        simp only [List.singleton_append, List.map_cons, List.foldl_cons, hmem, ← e]
        exact ⟨h1, h2⟩
      · have e1 : st'.1[j]! = st.1[j]! := by
          rw [(hget j).1]
          by_cases hm : maskAt mask i = true
          · have : j ≠ ds[i]! := fun h => hc ⟨h.symm, fun h' => hji h'.symm, hm⟩
            simp [hm, hji, this]
          · simp [hm]
        have e2 : st'.2[j]! = st.2[j]! := by
          rw [(hget j).2]
          have : ¬ (maskAt mask i = true ∧ j = ds[i]! ∧ j ≠ i) :=
            fun h => hc ⟨h.2.1.symm, fun h' => hji h'.symm, h.1⟩
          simp [this]
        rw [if_neg hc]
        simp only [List.nil_append, hmem]
        rw [e1, e2] at h1 h2
        exact ⟨h1, h2⟩


theorem mem_kidsM (ds : Array Nat) (seq : List Nat) (mask : Option (Array Bool)) (j c : Nat) :
    c ∈ kidsM ds seq mask j ↔ c ∈ seq ∧ ds[c]! = j ∧ c ≠ j ∧ maskAt mask c = true := by
  simp only [kidsM, kids, List.mem_filter, List.mem_reverse, Bool.and_eq_true, beq_iff_eq,
    bne_iff_ne, ne_eq]
  constructor
  · rintro ⟨⟨h1, h2, h3⟩, h4⟩; exact ⟨h1, h2, h3, h4⟩
  · rintro ⟨h1, h2, h3, h4⟩; exact ⟨⟨h1, h2, h3⟩, h4⟩

theorem strahler_ge_mx (l : List Nat) (hne : l ≠ []) : mx l ≤ strahler l := by
  unfold strahler; simp only [hne, if_false]; split <;> omega

theorem strahler_pos_of (l : List Nat) (hne : l ≠ []) (hpos : ∀ x ∈ l, 0 < x) : 0 < strahler l := by
  cases l with
  | nil => exact absurd rfl hne
  | cons x r =>
    have h1 := le_mx (x :: r) x (by simp)
    have h2 := hpos x (by simp)
    have h3 := strahler_ge_mx (x :: r) hne
    omega

theorem replicate_zero_get! (n j : Nat) : (Array.replicate n (0 : Nat))[j]! = 0 := by
  by_cases h : j < n
  · simp [h]
  · simp [h]

/-- **recursive characterisation of the model's Strahler order** (any mask, any downstream-first order) -/
theorem strahlerOrder_rec (ds : Array Nat) (mask : Option (Array Bool)) (seq : List Nat)
    (htopo : Topo ds seq) (hb : ∀ i ∈ seq, i < ds.size) :
    (∀ j ∈ seq, maskAt mask j = true → 0 < (strahlerOrder ds seq mask)[j]!) ∧
    ∀ j, (strahlerOrder ds seq mask)[j]! =
      strahlerRule (decide (j ∈ seq) && maskAt mask j)
        ((kidsM ds seq mask j).map ((strahlerOrder ds seq mask)[·]!)) := by
  have hspec := strahlerFold_spec ds mask seq htopo
    (Array.replicate ds.size 0, Array.replicate ds.size 0)
    (fun i hi => by simpa using hb i hi)
  have hfold : strahlerFold ds mask seq (Array.replicate ds.size 0, Array.replicate ds.size 0) =
      strahlerState ds seq mask := rfl
  rw [hfold] at hspec
  simp only [replicate_zero_get!] at hspec
  have hpos : ∀ j ∈ seq, maskAt mask j = true → 0 < (strahlerOrder ds seq mask)[j]! := by
    intro j hj hm
    have := (hspec j).1
    show 0 < (strahlerState ds seq mask).1[j]!
    rw [this]
    split
    · omega
    · rename_i hn
      have : (foldKids ds seq mask (strahlerState ds seq mask).1 (0, 0) j).1 ≠ 0 :=
        fun h0 => hn ⟨hj, hm, h0⟩
      omega
  refine ⟨hpos, fun j => ?_⟩
  have hl : ∀ x ∈ (kidsM ds seq mask j).map ((strahlerState ds seq mask).1[·]!), 0 < x := by
    intro x hx
    obtain ⟨c, hc, rfl⟩ := List.mem_map.1 hx
    have hc' := (mem_kidsM ds seq mask j c).1 hc
    exact hpos c hc'.1 hc'.2.2.2
  have hphi := phi_fold _ hl
  have h1 := (hspec j).1
  simp only [foldKids, hphi] at h1
  show (strahlerState ds seq mask).1[j]! = strahlerRule _ ((kidsM ds seq mask j).map ((strahlerState ds seq mask).1[·]!))
  rw [h1]
  unfold strahlerRule
  by_cases hnil : (kidsM ds seq mask j).map ((strahlerState ds seq mask).1[·]!) = []
  · rw [hnil]
    simp only [strahler, if_true]
    by_cases hj : j ∈ seq <;> by_cases hm : maskAt mask j = true <;> simp [hj, hm]
  · have := strahler_pos_of _ hnil hl
    simp only [hnil, if_false]
    rw [if_neg (by omega)]

end Pf
