import PfVerif.Proofs.C18PfSim
import PfVerif.Proofs.C18PfLinkLoop
/-! Pfafstetter refinement across depths (stage 4): one pop of the worklist loop with all invariants
(`pfPop_link`), equality of the tributary selections of the two runs (`trib_filter_eq`), simulation of the
pit loop. Core Lean only. -/
namespace Pf.C18
open Pf

/-- all single-run invariants of a state of the worklist loop -/
structure PfAll (ds usMain : Array Nat) (so : Array Int) (depth : Nat) (br : Array Int) (idxs : List Nat)
    (labs : List (Int × Nat)) : Prop where
  g : PfG ds usMain so br idxs
  fr : PfFresh depth br labs
  lp : LabsPos labs
  h : PfH ds depth br idxs labs
  q : PfQ depth labs

variable {ds usMain : Array Nat} {seq : List Nat} {uparea so : Array Int}

theorem PfAll.tail {depth : Nat} {br : Array Int} {idxs : List Nat} {en : Int × Nat}
    {labs : List (Int × Nat)} (a : PfAll ds usMain so depth br idxs (en :: labs)) :
    PfAll ds usMain so depth br idxs labs :=
  ⟨a.g, a.fr.tail, fun p hp => a.lp p (List.mem_cons_of_mem _ hp), a.h.tail, a.q.tail⟩

/-- the selected tributaries `idxs_trib0s` of one pop -/
def pfSel (ds : Array Nat) (uparea br : Array Int) (trib : List Nat) (pfaf0 : Int) : List Nat :=
  sortDesc (fun i => uparea[ds[i]!]!)
    (List.take 4 (sortDesc (fun i => uparea[i]!)
      (List.filter (fun idx => br[idx]! == 0 && br[ds[idx]!]! == pfaf0) trib)))

theorem pfSel_props (ds : Array Nat) (uparea br : Array Int) (trib : List Nat) (pfaf0 : Int)
    (hnd : trib.Nodup) :
    (∀ y ∈ pfSel ds uparea br trib pfaf0, y ∈ trib ∧ br[y]! = 0 ∧ br[ds[y]!]! = pfaf0) ∧
    0 + (pfSel ds uparea br trib pfaf0).length ≤ 4 ∧
    (pfSel ds uparea br trib pfaf0).Pairwise (fun a b => uparea[ds[a]!]! ≥ uparea[ds[b]!]!) ∧
    (pfSel ds uparea br trib pfaf0).Nodup := by
  unfold pfSel
  refine ⟨fun y hy => ?_, ?_, sortDesc_sorted _ _, ?_⟩
  · have h1 := mem_sortDesc _ _ _ hy
    have h2 := mem_sortDesc _ _ _ (List.mem_of_mem_take h1)
    have h3 := List.mem_filter.1 h2
    simpa using h3
  · rw [sortDesc_length, List.length_take]; omega
  · apply sortDesc_nodup
    apply List.Nodup.sublist (List.take_sublist _ _)
    apply sortDesc_nodup
    exact hnd.sublist List.filter_sublist

/-- **one pop with tributaries**: all invariants are kept, the flag is kept, the codes evolve inside the
popped block -/
theorem pfPop_link (c : PfCtx ds usMain seq uparea) (trib : List Nat) (depth : Nat)
    (htrib : ∀ t ∈ trib, t ∈ seq ∧ ds[t]! ≠ t ∧ usMain[ds[t]!]! ≠ t) (hnd : trib.Nodup)
    (W : Prop) (soraw : Array Int)
    (hS : W → (∀ s : Nat, so[s]! ≠ 0 → soraw[s]! ≠ 0) ∧
      (∀ c, c < ds.size → usMain[c]! < ds.size →
        soraw[usMain[c]!]! = 0 ∨ soraw[usMain[c]!]! = soraw[c]!))
    (hstep : W → ∀ t ∈ seq, ds[t]! ≠ t → soraw[t]! ≤ soraw[ds[t]!]! + 1)
    {br : Array Int} {idxs : List Nat} {labs : List (Int × Nat)} {pfaf0 : Int} {d0 : Nat} {ok : Bool}
    (a : PfAll ds usMain so depth br idxs ((pfaf0, d0) :: labs))
    (ho : W → PfOrd soraw br ((pfaf0, d0) :: labs))
    {r : PfSt × Int × Bool}
    (hin : pfInner ds usMain so depth pfaf0 d0 (pfSel ds uparea br trib pfaf0) 0
      ((br, idxs, labs), pfaf0, ok) = some r) :
    PfAll ds usMain so depth r.1.1 r.1.2.1 r.1.2.2 ∧ r.2.2 = ok ∧ (W → PfOrd soraw r.1.1 r.1.2.2) ∧
      PfEvo ds br r.1.1 pfaf0 (pfaf0 + 9 * (10 : Int) ^ (depth - d0)) ∧ (∀ en ∈ r.1.2.2, d0 ≤ en.2) ∧
      1 ≤ d0 ∧ d0 ≤ depth ∧ pfaf0 % (10 : Int) ^ (depth - d0 + 1) = R1 (depth - d0 + 1) ∧ 0 < pfaf0 := by
  obtain ⟨hmem, hlen, hsorted, hnodup⟩ := pfSel_props ds uparea br trib pfaf0 hnd
  obtain ⟨g, fr, hl, hh, hq⟩ := a
  have hp0 : 0 < pfaf0 := hl (pfaf0, d0) (by simp)
  have hl' : LabsPos labs := fun p hp => hl p (by simp [hp])
  have hrem : PfRem ds usMain seq uparea br idxs pfaf0 (pfSel ds uparea br trib pfaf0) := by
    refine ⟨fun t ht => ?_, fun t ht => Or.inl (hmem t ht).2.2, hsorted, hnodup⟩
    obtain ⟨h1, h2, h3⟩ := hmem t ht
    obtain ⟨a1, a2, a3⟩ := htrib t h1
    exact ⟨a1, a2, h2, a3, by rw [h3]; omega⟩
  have hfr := fr.pop
  have hlo : pfaf0 + (10 : Int) ^ (depth - d0) =
      pfaf0 + (2 * ((0 : Nat) : Int) + 1) * (10 : Int) ^ (depth - d0) := by simp
  rw [hlo] at hfr
  obtain ⟨hlev1, hlev2, hbase⟩ := hq.lev (pfaf0, d0) (by simp)
  simp only at hlev1 hlev2 hbase
  have hqs := List.pairwise_cons.1 hq.sorted
  have hfb := List.pairwise_cons.1 fr.fb
  have hlk : PfLinkIn ds uparea depth br idxs labs pfaf0 d0 ((10 : Int) ^ (depth - d0))
      (pfaf0 + (2 * ((0 : Nat) : Int) + 1) * (10 : Int) ^ (depth - d0))
      (pfaf0 + 10 * (10 : Int) ^ (depth - d0)) 0 pfaf0 (pfSel ds uparea br trib pfaf0) := by
    refine ⟨?_, ⟨fun en hen => ?_, hqs.2, fun en hen => ?_⟩, ⟨0, by omega, by omega, by simp⟩,
      fun t ht => ⟨0, by omega, by omega, by rw [(hmem t ht).2.2]; simp⟩⟩
    · have := hh.pop (uparea := uparea) (pfSel ds uparea br trib pfaf0)
        (pfaf0 + (2 * ((0 : Nat) : Int) + 1) * (10 : Int) ^ (depth - d0))
      rw [Bsz_pop] at this
      exact this
    · have h1 := hqs.1 en hen
      have h2 := hq.span (pfaf0, d0) (by simp) en (List.mem_cons_of_mem _ hen)
      obtain ⟨_, h4, h5⟩ := hq.lev en (List.mem_cons_of_mem _ hen)
      exact ⟨h1, h2, h4, h5⟩
    · have := hfb.1 en hen
      simp only [Bsz_pop depth d0] at this
      rcases this with h1 | h1
      · exact Or.inr (Or.inl h1)
      · exact Or.inl h1
  have hod : W → PfOrdIn ds soraw br labs pfaf0 d0 (pfSel ds uparea br trib pfaf0) := by
    intro w
    have hhead : ∀ s : Nat, br[s]! = pfaf0 → soraw[s]! ≤ (d0 : Int) := fun s hs => ho w (pfaf0, d0) (by simp) s hs
    refine ⟨fun en hen => ho w en (List.mem_cons_of_mem _ hen), fun s hs => by have := hhead s hs; omega,
      fun t ht => ?_⟩
    obtain ⟨h1, _, h3⟩ := hmem t ht
    obtain ⟨a1, a2, _⟩ := htrib t h1
    have h4 := hhead _ h3
    have h5 := hstep w t a1 a2
    exact ⟨h4, by omega⟩
  obtain ⟨g', fr', hl'', hok, hh', hq', ho', hev, hlev⟩ := pfInner_link (so := so) c depth pfaf0 d0 hp0
    hlev1 hlev2 hbase W soraw hS br (pfSel ds uparea br trib pfaf0) 0 ((br, idxs, labs), pfaf0, ok) r hlen hin
    g hfr hrem (Int.ne_of_gt hp0) hl' hlk hod (PfEvo.refl _ _ _ _)
  exact ⟨⟨g', fr', hl'', hh', hq'⟩, hok, ho', hev, hlev, hlev1, hlev2, hbase, hp0⟩

/-! ### the two reduced stream orders -/

theorem so_agree (ds : Array Nat) (seq : List Nat) (usMain : Array Nat) (mask : Option (Array Bool))
    (D : Nat) (u : Nat) (hu : u < ds.size)
    (h : (streamOrderClassic ds seq usMain mask)[u]! ≤ (D : Int) + 1) :
    (pfStrord ds seq usMain mask D)[u]! = (pfStrord ds seq usMain mask (D + 1))[u]! := by
  rw [pfStrord_get ds seq usMain mask D hu, pfStrord_get ds seq usMain mask (D + 1) hu]
  have : (streamOrderClassic ds seq usMain mask)[u]! ≤ ((D + 1 : Nat) : Int) + 1 := by omega
  rw [if_pos h, if_pos this]

/-- a tributary of the shallower run has order `≤ depth + 1` -/
theorem trib_order (ds : Array Nat) (seq : List Nat) (usMain : Array Nat) (mask : Option (Array Bool))
    (D : Nat) (hb : ∀ i ∈ seq, i < ds.size) (t : Nat)
    (ht : t ∈ tributaries ds seq (pfStrord ds seq usMain mask D)) :
    t < ds.size ∧ (streamOrderClassic ds seq usMain mask)[t]! ≤ (D : Int) + 1 := by
  unfold tributaries at ht
  obtain ⟨hts, hcond⟩ := List.mem_filter.1 ht
  simp only [Bool.and_eq_true, decide_eq_true_eq] at hcond
  have hlt := hb t hts
  refine ⟨hlt, ?_⟩
  have h1 := hcond.1
  rw [pfStrord_get ds seq usMain mask D hlt] at h1
  split at h1
  · assumption
  · omega

/-- **the two runs select the same tributaries** for a code of level `≤ depth` whose cells have order `≤ depth` -/
theorem trib_filter_eq (c : PfCtx ds usMain seq uparea) (mask : Option (Array Bool)) (D : Nat)
    {brA brB : Array Int} (hsim : SimBr brA brB) {pfaf0 : Int}
    (hord : ∀ s : Nat, brA[s]! = pfaf0 → (streamOrderClassic ds seq usMain mask)[s]! ≤ (D : Int)) :
    (tributaries ds seq (pfStrord ds seq usMain mask (D + 1))).filter
        (fun idx => brB[idx]! == 0 && brB[ds[idx]!]! == phi pfaf0) =
    (tributaries ds seq (pfStrord ds seq usMain mask D)).filter
        (fun idx => brA[idx]! == 0 && brA[ds[idx]!]! == pfaf0) := by
  unfold tributaries
  rw [List.filter_filter, List.filter_filter]
  apply List.filter_congr
  intro t ht
  have hc : (brB[t]! == 0 && brB[ds[t]!]! == phi pfaf0) = (brA[t]! == 0 && brA[ds[t]!]! == pfaf0) := by
    rw [hsim.val, hsim.val]
    have h1 : (phi brA[t]! == 0) = (brA[t]! == 0) := by
      by_cases h : brA[t]! = 0
      · rw [h, phi_zero]
      · have : phi brA[t]! ≠ 0 := fun h' => h (phi_eq_zero.1 h')
        rw [beq_eq_false_iff_ne.2 h, beq_eq_false_iff_ne.2 this]
    have h2 : (phi brA[ds[t]!]! == phi pfaf0) = (brA[ds[t]!]! == pfaf0) := by
      by_cases h : brA[ds[t]!]! = pfaf0
      · rw [h, beq_self_eq_true, beq_self_eq_true]
      · have : phi brA[ds[t]!]! ≠ phi pfaf0 := fun h' => h (phi_inj.1 h')
        rw [beq_eq_false_iff_ne.2 h, beq_eq_false_iff_ne.2 this]
    rw [h1, h2]
  rw [hc]
  by_cases hcA : (brA[t]! == 0 && brA[ds[t]!]! == pfaf0) = true
  · rw [hcA]
    simp only [Bool.and_eq_true, beq_iff_eq] at hcA
    have hb := hord _ hcA.2
    have htlt := c.hb t ht
    have hdlt := c.hb _ (c.topo.ds_mem t ht)
    have hd := so_agree ds seq usMain mask D _ hdlt (by omega)
    by_cases hp : ds[t]! = t
    · rw [hp]; simp
    · have hst := soraw_step ds seq usMain mask c.topo c.hb t ht hp
      have ha : (streamOrderClassic ds seq usMain mask)[t]! ≤ (D : Int) + 1 := by
        rcases hst with h | h | h <;> omega
      rw [so_agree ds seq usMain mask D t htlt ha, hd]
  · simp only [Bool.not_eq_true] at hcA
    rw [hcA]; simp

/-! ### the pit loop -/

theorem R1_succ10 : ∀ k, R1 (k + 1) = 10 * R1 k + 1 := by
  intro k
  induction k with
  | zero => simp [R1]
  | succ k ih =>
    have : R1 (k + 1 + 1) = (10 : Int) ^ (k + 1) + R1 (k + 1) := rfl
    rw [this, ih, Int.pow_succ]
    simp only [R1] at ih ⊢
    omega

theorem pfBase_phi (D : Nat) (hD : 1 ≤ D) : pfBase (D + 1) = phi (pfBase D) := by
  rw [pfBase_R1 _ (by omega), pfBase_R1 _ hD, R1_succ10, phi_ne]
  have := pfBase_pos D
  rw [pfBase_R1 _ hD] at this
  omega

theorem pfPits_sim (usMain : Array Nat) (n : Nat) (soA soB soraw : Array Int) (D : Nat) (hD : 1 ≤ D)
    (hag : ∀ u, u < n → soraw[u]! ≤ (D : Int) + 1 → soA[u]! = soB[u]!)
    (hmainS : ∀ c, c < n → usMain[c]! < n → soraw[usMain[c]!]! = 0 ∨ soraw[usMain[c]!]! = soraw[c]!) :
    ∀ (l : List Nat) (i : Nat) (stA stB rA : PfSt),
      (∀ q ∈ l, q < n ∧ soraw[q]! ≤ (D : Int) + 1) →
      pfPits usMain n soA D l i stA = some rA →
      SimBr stA.1 stB.1 → stB.2.1 = stA.2.1 → stB.2.2 = stA.2.2.map (fun e => (phi e.1, e.2)) →
      ∃ rB, pfPits usMain n soB (D + 1) l i stB = some rB ∧
        SimBr rA.1 rB.1 ∧ rB.2.1 = rA.2.1 ∧ rB.2.2 = rA.2.2.map (fun e => (phi e.1, e.2)) := by
  intro l
  induction l with
  | nil =>
    intro i stA stB rA _ h s1 s2 s3
    simp only [pfPits, Option.some.injEq] at h ⊢
    subst h; exact ⟨stB, rfl, s1, s2, s3⟩
  | cons x rest ih =>
    intro i stA stB rA hl h s1 s2 s3
    obtain ⟨brA, idxsA, labsA⟩ := stA
    obtain ⟨brB, idxsB, labsB⟩ := stB
    simp only at s1 s2 s3
    subst s2 s3
    obtain ⟨hxlt, hxso⟩ := hl x (by simp)
    have hcode : pfBase (D + 1) + ((i : Int) + 1) * (10 : Int) ^ (D + 1) =
        phi (pfBase D + ((i : Int) + 1) * (10 : Int) ^ D) := by
      rw [pfBase_phi D hD, Int.pow_succ, Int.mul_comm ((10 : Int) ^ D) 10]
      exact phi_code (pfBase_pos D) (by omega) (pow10_pos D)
    simp only [pfPits] at h ⊢
    rw [hcode]
    split at h
    · cases h
    · rename_i br1A h1A
      obtain ⟨br1B, h1B, sim1⟩ := stemFill_sim_sub usMain n soA soB soraw D hag hmainS _ _ x _
        (brB.setIfInBounds x (phi (pfBase D + ((i : Int) + 1) * (10 : Int) ^ D))) br1A hxlt hxso h1A
        (s1.set x _)
      rw [h1B]
      simp only
      exact ih (i + 1) _ _ rA (fun q hq => hl q (List.mem_cons_of_mem _ hq)) h sim1 rfl (by simp)

end Pf.C18
