import PfVerif.Proofs.C18
/-! Conditional sums over a list of cells (`csum`), used by the algorithm-level proof of the size
clause of `subbasins_area` (Proofs/C18Area*.lean). Core Lean only. -/
namespace Pf.C18

theorem csum_congr {p q : Nat → Bool} {f g : Nat → Int} {l : List Nat}
    (h : ∀ x ∈ l, p x = q x ∧ (p x = true → f x = g x)) : csum p f l = csum q g l := by
  induction l with
  | nil => rfl
  | cons x l ih =>
    simp only [csum]
    rw [ih (fun y hy => h y (by simp [hy]))]
    obtain ⟨h1, h2⟩ := h x (by simp)
    by_cases hp : p x = true
    · rw [if_pos hp, if_pos (h1 ▸ hp), h2 hp]
    · rw [if_neg hp, if_neg (h1 ▸ hp)]

theorem csum_nonneg {p : Nat → Bool} {f : Nat → Int} {l : List Nat}
    (h : ∀ x ∈ l, p x = true → 0 ≤ f x) : 0 ≤ csum p f l := by
  induction l with
  | nil => simp [csum]
  | cons x l ih =>
    simp only [csum]
    have := ih (fun y hy => h y (by simp [hy]))
    by_cases hp : p x = true
    · rw [if_pos hp]; have := h x (by simp) hp; omega
    · rw [if_neg hp]; omega

theorem csum_zero {p : Nat → Bool} {f : Nat → Int} {l : List Nat}
    (h : ∀ x ∈ l, p x = false) : csum p f l = 0 := by
  induction l with
  | nil => rfl
  | cons x l ih =>
    simp only [csum]
    rw [ih (fun y hy => h y (by simp [hy])), h x (by simp)]
    simp

/-- taking one element out of the summation domain -/
theorem csum_remove {p q : Nat → Bool} {f : Nat → Int} {l : List Nat} {x : Nat}
    (hnd : l.Nodup) (hx : x ∈ l) (hp : p x = true) (hq : ∀ y ∈ l, q y = (p y && y != x)) :
    csum p f l = f x + csum q f l := by
  induction l with
  | nil => cases hx
  | cons y l ih =>
    have hnd' := List.nodup_cons.1 hnd
    simp only [csum]
    rcases List.mem_cons.1 hx with h | h
    · subst h
      have hq1 : q x = false := by rw [hq x (by simp)]; simp
      rw [if_pos hp, hq1]
      have : csum p f l = csum q f l := by
        apply csum_congr
        intro z hz
        refine ⟨?_, fun _ => rfl⟩
        rw [hq z (by simp [hz])]
        have : z ≠ x := fun hc => hnd'.1 (hc ▸ hz)
        simp [this]
      rw [this]; simp
    · have hne : y ≠ x := fun hc => hnd'.1 (hc ▸ h)
      have hqy : q y = p y := by rw [hq y (by simp)]; simp [hne]
      rw [ih hnd'.2 h (fun z hz => hq z (by simp [hz])), hqy]
      omega

theorem csum_ge_one {p : Nat → Bool} {f : Nat → Int} {l : List Nat} {x : Nat}
    (hnd : l.Nodup) (h0 : ∀ y ∈ l, 0 ≤ f y) (hx : x ∈ l) (hp : p x = true) : f x ≤ csum p f l := by
  rw [csum_remove (q := fun y => p y && y != x) hnd hx hp (fun _ _ => rfl)]
  have := csum_nonneg (p := fun y => p y && y != x) (f := f) (l := l) (fun y hy _ => h0 y hy)
  omega

theorem csum_ge_two {p : Nat → Bool} {f : Nat → Int} {l : List Nat} {x y : Nat}
    (hnd : l.Nodup) (h0 : ∀ z ∈ l, 0 ≤ f z) (hx : x ∈ l) (hy : y ∈ l) (hxy : x ≠ y)
    (hpx : p x = true) (hpy : p y = true) : f x + f y ≤ csum p f l := by
  rw [csum_remove (q := fun z => p z && z != x) hnd hx hpx (fun _ _ => rfl)]
  have := csum_ge_one (p := fun z => p z && z != x) hnd h0 hy
    (by simp [hpy]; exact fun h => hxy h.symm)
  omega

/-- weakening the predicate can only lower a sum of non-negative terms -/
theorem csum_mono {p q : Nat → Bool} {f : Nat → Int} {l : List Nat}
    (h0 : ∀ y ∈ l, 0 ≤ f y) (hpq : ∀ y ∈ l, p y = true → q y = true) : csum p f l ≤ csum q f l := by
  induction l with
  | nil => simp [csum]
  | cons x l ih =>
    simp only [csum]
    have := ih (fun y hy => h0 y (by simp [hy])) (fun y hy => hpq y (by simp [hy]))
    have hx0 := h0 x (by simp)
    by_cases hp : p x = true
    · rw [if_pos hp, if_pos (hpq x (by simp) hp)]; omega
    · rw [if_neg hp]
      by_cases hq : q x = true
      · rw [if_pos hq]; omega
      · rw [if_neg hq]; omega

theorem csum_add {p : Nat → Bool} {f g : Nat → Int} {l : List Nat} :
    csum p (fun x => f x + g x) l = csum p f l + csum p g l := by
  induction l with
  | nil => simp [csum]
  | cons x l ih =>
    simp only [csum, ih]
    by_cases hp : p x = true
    · simp only [if_pos hp]; omega
    · simp only [if_neg hp]; omega

theorem csum_sub {p : Nat → Bool} {f g : Nat → Int} {l : List Nat} :
    csum p (fun x => f x - g x) l = csum p f l - csum p g l := by
  induction l with
  | nil => simp [csum]
  | cons x l ih =>
    simp only [csum, ih]
    by_cases hp : p x = true
    · simp only [if_pos hp]; omega
    · simp only [if_neg hp]; omega

/-- splitting the domain by a second predicate -/
theorem csum_split (p r : Nat → Bool) (f : Nat → Int) (l : List Nat) :
    csum p f l = csum (fun x => p x && r x) f l + csum (fun x => p x && !r x) f l := by
  induction l with
  | nil => simp [csum]
  | cons x l ih =>
    simp only [csum, ih]
    by_cases hp : p x = true <;> by_cases hr : r x = true <;> simp [hp, hr] <;> omega

/-- a sum over a single element of a duplicate-free list -/
theorem csum_single {p : Nat → Bool} {f : Nat → Int} {l : List Nat} {x : Nat}
    (hnd : l.Nodup) (hx : x ∈ l) (hp : ∀ y ∈ l, p y = (y == x)) : csum p f l = f x := by
  rw [csum_remove (q := fun _ => false) hnd hx (by rw [hp x hx]; simp)
    (fun y hy => by rw [hp y hy]; by_cases h : y = x <;> simp [h])]
  rw [csum_zero (fun _ _ => rfl)]; simp

/-- exchanging a double sum over "cells and their inflowing cells":
`Σ_{x ∈ l1, p x} Σ_{c ∈ l2, D c = x, c ≠ x} f c = Σ_{c ∈ l2, D c ≠ c, D c ∈ l1, p (D c)} f c` -/
theorem csum_kids (D : Nat → Nat) (p : Nat → Bool) (f : Nat → Int) (l2 : List Nat) :
    ∀ l1 : List Nat, l1.Nodup →
    csum p (fun x => csum (fun c => decide (D c = x ∧ c ≠ x)) f l2) l1 =
      csum (fun c => decide (D c ≠ c) && l1.contains (D c) && p (D c)) f l2 := by
  intro l1
  induction l1 with
  | nil =>
    intro _
    simp only [csum]
    rw [csum_zero (fun c _ => by simp)]
  | cons x l1 ih =>
    intro hnd
    have hnd' := List.nodup_cons.1 hnd
    simp only [csum]
    rw [ih hnd'.2]
    rw [csum_split (fun c => decide (D c ≠ c) && (x :: l1).contains (D c) && p (D c))
      (fun c => D c == x) f l2]
    have h1 : csum (fun c => (decide (D c ≠ c) && (x :: l1).contains (D c) && p (D c)) && (D c == x)) f l2 =
        (if p x = true then csum (fun c => decide (D c = x ∧ c ≠ x)) f l2 else 0) := by
      by_cases hp : p x = true
      · rw [if_pos hp]
        apply csum_congr
        intro c _
        refine ⟨?_, fun _ => rfl⟩
        by_cases hc : D c = x
        · subst hc
          by_cases hcc : D c = c
          · simp [hcc]
          · have : c ≠ D c := fun h => hcc h.symm
            simp [hcc, hp, this]
        · simp [hc]
      · rw [if_neg hp]
        apply csum_zero
        intro c _
        by_cases hc : D c = x
        · subst hc; simp [hp]
        · simp [hc]
    have h2 : csum (fun c => (decide (D c ≠ c) && (x :: l1).contains (D c) && p (D c)) && !(D c == x)) f l2 =
        csum (fun c => decide (D c ≠ c) && l1.contains (D c) && p (D c)) f l2 := by
      apply csum_congr
      intro c _
      refine ⟨?_, fun _ => rfl⟩
      by_cases hc : D c = x
      · have : l1.contains (D c) = false := by
          rw [hc]; simpa using hnd'.1
        rw [hc] at this ⊢
        simp at this
        simp [this]
      · simp [hc]
    rw [h1, h2]

end Pf.C18
