import PfVerif.Model.C06Depth
import PfVerif.Proofs.C06Min
/-! `elv_max`: the restricted initial outlets, and the certificate theorem for the priority flood
started from ANY valid seed array (used for `elv_max` and for every outlet mode). Core Lean only. -/
namespace Pf.C06
open Pf

variable {G : Grid} {conn : Nat} {elev : Array Int} {nod : Array Bool}

theorem edgeBelow_get (m : Int) (c : Nat) (hc : c < G.n) :
    (edgeBelow G conn elev nod m)[c]! = ((getEdge G conn nod)[c]! && decide (elev[c]! ≤ m)) := by
  unfold edgeBelow
  rw [getElem!_map_range _ _ _ hc]

/-- **`elv_max`**: the initial outlets are the edge cells at or below `elv_max` -/
theorem edgeBelow_spec (m : Int) (c : Nat) (hc : c < G.n) :
    (edgeBelow G conn elev nod m)[c]! = true ↔ (IsEdge G conn nod c ∧ elev[c]! ≤ m) := by
  rw [edgeBelow_get m c hc, Bool.and_eq_true, getEdge_spec G conn nod c hc, decide_eq_true_eq]

theorem seeds0E_some {pits : Option (List Nat)} {elvMax : Option Int} {q : Array Bool}
    (h : seeds0E G conn elev nod pits elvMax = some q) :
    (∃ m, pits = none ∧ elvMax = some m ∧ q = edgeBelow G conn elev nod m ∧
        ∃ c, c < G.n ∧ q[c]! = true) ∨
    ((pits ≠ none ∨ elvMax = none) ∧ q = seeds0 G conn nod pits) := by
  unfold seeds0E at h
  split at h
  · rename_i m
    simp only at h
    split at h
    · rename_i hany
      injection h with h
      left
      refine ⟨m, rfl, rfl, h.symm, ?_⟩
      obtain ⟨c, hc, hq⟩ := List.any_eq_true.1 hany
      exact ⟨c, List.mem_range.1 hc, by rw [← h]; exact hq⟩
    · cases h
  · rename_i hne
    injection h with h
    right
    refine ⟨?_, h.symm⟩
    cases pits with
    | some l => exact Or.inl (by simp)
    | none =>
      cases elvMax with
      | none => exact Or.inr rfl
      | some m => exact absurd rfl (fun h => hne m rfl h)

/-- `ValueError("No initial outlet cells found.")` exactly when no edge cell lies at or below `elv_max` -/
theorem seeds0E_none {pits : Option (List Nat)} {elvMax : Option Int} :
    seeds0E G conn elev nod pits elvMax = none ↔
      ∃ m, pits = none ∧ elvMax = some m ∧ ¬ ∃ c, c < G.n ∧ IsEdge G conn nod c ∧ elev[c]! ≤ m := by
  unfold seeds0E
  split
  · rename_i m
    simp only
    split
    · rename_i hany
      simp only [reduceCtorEq, false_iff]
      rintro ⟨m', _, hm, hno⟩
      injection hm with hm
      subst hm
      obtain ⟨c, hc, hq⟩ := List.any_eq_true.1 hany
      have hc := List.mem_range.1 hc
      exact hno ⟨c, hc, (edgeBelow_spec m c hc).1 hq⟩
    · rename_i hany
      simp only [true_iff]
      refine ⟨m, by first | rfl | trivial, by first | rfl | trivial, ?_⟩
      rintro ⟨c, hc, he⟩
      apply hany
      exact List.any_eq_true.2 ⟨c, List.mem_range.2 hc, (edgeBelow_spec m c hc).2 he⟩
  · rename_i hne
    simp only [reduceCtorEq, false_iff]
    rintro ⟨m, hp, hm, _⟩
    exact hne m hp hm

theorem seeds0E_size {pits : Option (List Nat)} {elvMax : Option Int} {q : Array Bool}
    (h : seeds0E G conn elev nod pits elvMax = some q) : q.size = G.n := by
  rcases seeds0E_some h with ⟨m, _, _, hq, _⟩ | ⟨_, hq⟩
  · rw [hq]; simp [edgeBelow]
  · rw [hq]; exact seeds0_size pits

theorem seeds0E_valid {pits : Option (List Nat)} {elvMax : Option Int} {q : Array Bool}
    (hpits : ∀ l, pits = some l → ∀ p, p ∈ l → p < G.n → nod[p]! = false)
    (h : seeds0E G conn elev nod pits elvMax = some q) (c : Nat) (hc : c < G.n) (hq : q[c]! = true) :
    nod[c]! = false := by
  rcases seeds0E_some h with ⟨m, _, _, hqe, _⟩ | ⟨_, hqe⟩
  · rw [hqe] at hq
    exact ((edgeBelow_spec m c hc).1 hq).1.1.2
  · rw [hqe] at hq
    exact seeds0_valid pits hpits c hc hq

/-- what `seedsOfE` returns -/
theorem seedsOfE_ok {pits : Option (List Nat)} {minMode : Bool} {elvMax : Option Int} {s : Array Bool}
    (h : seedsOfE G conn elev nod pits minMode elvMax = .ok s) :
    ∃ q, seeds0E G conn elev nod pits elvMax = some q ∧
      ((minMode = false ∧ s = q) ∨
       (minMode = true ∧ ∃ hd tl, initHeap G elev q = hd :: tl ∧
          s = (Array.replicate G.n false).setIfInBounds hd.idx true)) := by
  unfold seedsOfE at h
  split at h
  · cases h
  · rename_i q hq
    refine ⟨q, hq, ?_⟩
    cases minMode with
    | false =>
      simp only [Bool.false_eq_true, if_false] at h
      injection h with h
      exact Or.inl ⟨rfl, h.symm⟩
    | true =>
      simp only [if_true] at h
      split at h
      · cases h
      · rename_i hd tl heq
        injection h with h
        exact Or.inr ⟨rfl, hd, tl, heq, h.symm⟩

theorem seedsOfE_size {pits : Option (List Nat)} {minMode : Bool} {elvMax : Option Int} {s : Array Bool}
    (h : seedsOfE G conn elev nod pits minMode elvMax = .ok s) : s.size = G.n := by
  obtain ⟨q, hq, h | h⟩ := seedsOfE_ok h
  · rw [h.2]; exact seeds0E_size hq
  · obtain ⟨_, hd, tl, _, hs⟩ := h
    rw [hs]; simp

theorem seedsOfE_valid {pits : Option (List Nat)} {minMode : Bool} {elvMax : Option Int} {s : Array Bool}
    (hpits : ∀ l, pits = some l → ∀ p, p ∈ l → p < G.n → nod[p]! = false)
    (h : seedsOfE G conn elev nod pits minMode elvMax = .ok s) (c : Nat) (hc : c < G.n)
    (hs : s[c]! = true) : nod[c]! = false := by
  obtain ⟨q, hq, h | h⟩ := seedsOfE_ok h
  · rw [h.2] at hs; exact seeds0E_valid hpits hq c hc hs
  · obtain ⟨_, hd, tl, heq, hse⟩ := h
    obtain ⟨a1, a2, _, _⟩ := initHeap_head heq
    rw [hse, get!_setIfInBounds] at hs
    by_cases hcm : hd.idx = c
    · subst hcm; exact seeds0E_valid hpits hq _ a1 a2
    · have : ¬ (hd.idx = c ∧ hd.idx < (Array.replicate G.n false).size) := fun h => hcm h.1
      rw [if_neg this] at hs
      simp [hc] at hs

/-- without `elv_max` the extended seed function is the old one -/
theorem seedsOfE_none (pits : Option (List Nat)) (minMode : Bool) :
    seedsOfE G conn elev nod pits minMode none =
      match seedsOf G conn elev nod pits minMode with
      | none => .error .indexError
      | some s => .ok s := by
  have h0 : seeds0E G conn elev nod pits none = some (seeds0 G conn nod pits) := by
    unfold seeds0E; cases pits <;> rfl
  unfold seedsOfE seedsOf
  rw [h0]
  cases minMode with
  | false => simp
  | true =>
    simp only [if_true]
    cases initHeap G elev (seeds0 G conn nod pits) <;> rfl


/-- the priority flood from an arbitrary array of valid seed cells empties its heap within `n + 1`
pops and its output is accepted by the certificate -/
theorem fillFrom_cert {seed : Array Bool} (hN : nod.size = G.n) (hE : elev.size = G.n)
    (hS : seed.size = G.n) (hSV : ∀ c : Nat, c < G.n → seed[c]! = true → nod[c]! = false) :
    (fillLoop G conn elev (G.n + 1) (initState G elev nod seed)).q = [] ∧
    ∃ rk, FillCert G conn elev nod seed (fillLoop G conn elev (G.n + 1) (initState G elev nod seed)).f
      (fillLoop G conn elev (G.n + 1) (initState G elev nod seed)).d8 rk := by
  have hq := loop_empties (conn := conn) (elev := elev) (G.n + 1) _
    (sized_init hN hE hS) (by rw [pot_init]; omega)
  obtain ⟨rk, I⟩ := inv_loop (conn := conn) (G.n + 1) _ _ (inv_init (conn := conn) hN hE hS hSV)
  exact ⟨hq, _, inv_final I hq hSV⟩

/-- **`fill_depressions` with `elv_max`, unlimited depth**: the model always ends with an empty heap
and its output is accepted by the certificate for the seed set it started from -/
theorem fillModelE_cert_aux {pits : Option (List Nat)} {minMode : Bool} {elvMax : Option Int}
    {f : Array Int} {d8 : Array Nat} {fin : Bool} (hN : nod.size = G.n) (hE : elev.size = G.n)
    (hpits : ∀ l, pits = some l → ∀ p, p ∈ l → p < G.n → nod[p]! = false)
    (h : fillModelE G conn elev nod pits minMode elvMax = .ok (f, d8, fin)) :
    fin = true ∧ ∃ seed rk, seedsOfE G conn elev nod pits minMode elvMax = .ok seed ∧
      FillCert G conn elev nod seed f d8 rk := by
  unfold fillModelE at h
  split at h
  · cases h
  · rename_i seed hseed
    injection h with h
    simp only [Prod.mk.injEq] at h
    obtain ⟨h1, h2, h3⟩ := h
    obtain ⟨hq, rk, hc⟩ := fillFrom_cert (conn := conn) hN hE (seedsOfE_size hseed) (seedsOfE_valid hpits hseed)
    subst h1 h2
    refine ⟨?_, seed, rk, hseed, hc⟩
    rw [← h3, hq]; rfl

/-- without `elv_max`, `fillModelE` is `fillModel` -/
theorem fillModelE_none (pits : Option (List Nat)) (minMode : Bool) :
    fillModelE G conn elev nod pits minMode none =
      match fillModel G conn elev nod pits minMode with
      | none => .error .indexError
      | some r => .ok r := by
  unfold fillModelE fillModel
  rw [seedsOfE_none]
  cases seedsOf G conn elev nod pits minMode <;> rfl

end Pf.C06
