import PfVerif.Model.C17_ext
/-! `get_edge` with an arbitrary structuring element: the loop body against the declarative edge (core Lean only). -/
namespace Pf.C17x
open Pf.C17

theorem selected_all (st : Array Bool) (p : Int × Int → Bool) :
    (selected st).all p = true ↔ ∀ k, k < 9 → st[k]! = true → p (win[k]!) = true := by
  simp only [selected, List.all_eq_true, List.mem_map, List.mem_filter, List.mem_range]
  constructor
  · intro h k hk hs; exact h _ ⟨k, ⟨hk, hs⟩, rfl⟩
  · rintro h _ ⟨k, ⟨hk, hs⟩, rfl⟩; exact h k hk hs

theorem edgeCell_spec (nrow ncol : Nat) (a st : Array Bool) (r c : Nat) (hr : r < nrow) (hc : c < ncol) :
    edgeCell nrow ncol a st r c = true ↔ IsEdgeS nrow ncol a st r c := by
  unfold edgeCell IsEdgeS
  by_cases ha : at2 ncol a r c = true
  · by_cases hbd : r = 0 ∨ r + 1 = nrow ∨ c = 0 ∨ c + 1 = ncol
    · have hcond : (!at2 ncol a r c || r == 0 || r == nrow - 1 || c == 0 || c == ncol - 1) = true := by
        simp only [Bool.or_eq_true, beq_iff_eq]
        rcases hbd with h | h | h | h
        · exact Or.inl (Or.inl (Or.inl (Or.inr h)))
        · exact Or.inl (Or.inl (Or.inr (by omega)))
        · exact Or.inl (Or.inr h)
        · exact Or.inr (by omega)
      rw [if_pos hcond]
      constructor
      · intro _; exact ⟨ha, by rcases hbd with h | h | h | h <;> simp [h]⟩
      · intro _; exact ha
    · have hcond : ¬ (!at2 ncol a r c || r == 0 || r == nrow - 1 || c == 0 || c == ncol - 1) = true := by
        simp only [Bool.or_eq_true, beq_iff_eq, ha, Bool.not_true]
        intro h
        apply hbd
        rcases h with (((h | h) | h) | h) | h
        · cases h
        · exact Or.inl h
        · exact Or.inr (Or.inl (by omega))
        · exact Or.inr (Or.inr (Or.inl h))
        · exact Or.inr (Or.inr (Or.inr (by omega)))
      rw [if_neg hcond]
      by_cases hall : ((selected st).all fun o => at2 ncol a ((r : Int) + o.1).toNat ((c : Int) + o.2).toNat) = true
      · rw [if_pos hall]
        rw [selected_all] at hall
        constructor
        · intro h; cases h
        · rintro ⟨_, h⟩
          rcases h with h | h | h | h | ⟨k, hk, hs, hf⟩
          · exact absurd (Or.inl h) hbd
          · exact absurd (Or.inr (Or.inl h)) hbd
          · exact absurd (Or.inr (Or.inr (Or.inl h))) hbd
          · exact absurd (Or.inr (Or.inr (Or.inr h))) hbd
          · have := hall k hk hs
            simp only [hf] at this
            cases this
      · rw [if_neg hall]
        rw [selected_all] at hall
        constructor
        · intro _
          refine ⟨ha, Or.inr (Or.inr (Or.inr (Or.inr ?_)))⟩
          apply Classical.byContradiction
          intro hno
          apply hall
          intro k hk hs
          apply Classical.byContradiction
          intro hne
          apply hno
          refine ⟨k, hk, hs, ?_⟩
          simpa using hne
        · intro _; exact ha
  · have ha' : at2 ncol a r c = false := by simpa using ha
    simp only [ha', Bool.not_false, Bool.true_or, if_true]
    constructor
    · intro h; cases h
    · rintro ⟨h, _⟩; cases h

theorem getEdgeS_spec (nrow ncol : Nat) (a st : Array Bool) (r c : Nat) (hr : r < nrow) (hc : c < ncol) :
    (getEdgeS nrow ncol a st)[r * ncol + c]? = some true ↔ IsEdgeS nrow ncol a st r c := by
  have hlt : r * ncol + c < nrow * ncol := by
    have : (r + 1) * ncol ≤ nrow * ncol := Nat.mul_le_mul_right _ hr
    rw [Nat.add_mul] at this; omega
  have hq : (r * ncol + c) / ncol = r := by
    rw [Nat.add_comm, Nat.add_mul_div_right _ _ (by omega), Nat.div_eq_of_lt hc]; omega
  have hm : (r * ncol + c) % ncol = c := by
    rw [Nat.add_comm, Nat.add_mul_mod_self_right, Nat.mod_eq_of_lt hc]
  simp only [getEdgeS, List.getElem?_map, List.getElem?_range hlt, Option.map_some, Option.some.injEq, hq, hm]
  exact edgeCell_spec nrow ncol a st r c hr hc

end Pf.C17x
