import PfVerif.Proofs.C14Up
/-! `fillnodata_downstream` is monotone in the field (all merge rules): two fields with the same
pattern of empty cells, one pointwise below the other, are filled to arrays in the same relation.
Used for the monotonicity of the river slope in the water-surface drop (`C14_riv`). Core Lean only. -/
namespace Pf

/-- both empty, or both hold a value and the first is at most the second -/
def OptLe_c14 (a b : Option Int) : Prop :=
  match a, b with
  | none, none => True
  | some x, some y => x ≤ y
  | _, _ => False

theorem mergeHow_mono_c14 (how : Nat) {x x' a a' : Int} (hx : x ≤ x') (ha : a ≤ a') :
    mergeHow how x a ≤ mergeHow how x' a' := by
  unfold mergeHow
  split
  · omega
  · split <;> omega

theorem mergeOpt_mono_c14 (how : Nat) {acc acc' v v' : Option Int} (ha : OptLe_c14 acc acc')
    (hv : OptLe_c14 v v') : OptLe_c14 (mergeOpt how acc v) (mergeOpt how acc' v') := by
  cases v <;> cases v' <;> cases acc <;> cases acc' <;>
    simp only [OptLe_c14, mergeOpt] at ha hv ⊢ <;>
    first | exact ha | exact hv | exact mergeHow_mono_c14 how hv ha | trivial

theorem mergeFold_mono_c14 (how : Nat) (f f' : Nat → Option Int) :
    ∀ (cs : List Nat) (acc acc' : Option Int), (∀ c ∈ cs, OptLe_c14 (f c) (f' c)) → OptLe_c14 acc acc' →
      OptLe_c14 ((cs.map f).foldl (mergeOpt how) acc) ((cs.map f').foldl (mergeOpt how) acc') := by
  intro cs
  induction cs with
  | nil => intro acc acc' _ h; exact h
  | cons c cs ih =>
    intro acc acc' h ha
    simp only [List.map_cons, List.foldl_cons]
    exact ih _ _ (fun x hx => h x (by simp [hx])) (mergeOpt_mono_c14 how ha (h c (by simp)))

/-- a cell the order does not hold has no inflow cell in the order -/
theorem kids_outside_c14 {ds : Array Nat} {seq : List Nat} (htopo : Topo ds seq) (j : Nat) (hj : j ∉ seq) :
    kids ds seq j = [] := by
  apply List.eq_nil_iff_forall_not_mem.2
  intro c hc
  obtain ⟨h1, h2, _⟩ := mem_kids hc
  exact hj (h2 ▸ Topo.ds_mem htopo c h1)

/-- **monotonicity of the fill (state level)**: same pattern of empty cells and `data ≤ data'` at every
cell give `fillOpt data j ≤ fillOpt data' j` (both empty or both values) at every index of the array -/
theorem fillOpt_mono_c14 (ds : Array Nat) (seq : List Nat) (data data' : Array Int) (nd nd' : Int) (how : Nat)
    (htopo : Topo ds seq) (hb : ∀ i ∈ seq, i < data.size) (hsz : data'.size = data.size)
    (hpat : ∀ j, j < data.size → (data[j]! = nd ↔ data'[j]! = nd'))
    (hle : ∀ j, j < data.size → data[j]! ≠ nd → data[j]! ≤ data'[j]!) :
    ∀ j, j < data.size → OptLe_c14 (fillOpt ds seq data nd how j) (fillOpt ds seq data' nd' how j) := by
  have hb' : ∀ i ∈ seq, i < data'.size := fun i hi => hsz ▸ hb i hi
  have key : ∀ j, j < data.size →
      (∀ c ∈ kids ds seq j, OptLe_c14 (fillOpt ds seq data nd how c) (fillOpt ds seq data' nd' how c)) →
      OptLe_c14 (fillOpt ds seq data nd how j) (fillOpt ds seq data' nd' how j) := by
    intro j hj hk
    have h1 := (fillDown_rec ds seq data nd how htopo hb j hj).1
    have h2 := (fillDown_rec ds seq data' nd' how htopo hb' j (hsz ▸ hj)).1
    unfold fillOpt
    rw [h1, h2]
    by_cases hd : data[j]! = nd
    · have hd' : data'[j]! = nd' := (hpat j hj).1 hd
      simp only [hd, hd', ne_eq, not_true_eq_false, if_false]
      exact mergeFold_mono_c14 how _ _ (kids ds seq j) none none hk trivial
    · have hd' : data'[j]! ≠ nd' := fun h => hd ((hpat j hj).2 h)
      simp only [hd, hd', ne_eq, not_false_eq_true, if_true]
      exact hle j hj hd
  have hin : ∀ j ∈ seq, OptLe_c14 (fillOpt ds seq data nd how j) (fillOpt ds seq data' nd' how j) :=
    htopo.induction_up_c14 _ (fun j hj hk => key j (hb j hj) hk)
  intro j hj
  by_cases hs : j ∈ seq
  · exact hin j hs
  · refine key j hj (fun c hc => ?_)
    rw [kids_outside_c14 htopo j hs] at hc
    cases hc

/-- the same on the returned arrays (empty cells show the nodata value) -/
theorem fillDownModel_mono_c14 (ds : Array Nat) (seq : List Nat) (data data' : Array Int) (nd : Int) (how : Nat)
    (htopo : Topo ds seq) (hb : ∀ i ∈ seq, i < data.size) (hsz : data'.size = data.size)
    (hpat : ∀ j, j < data.size → (data[j]! = nd ↔ data'[j]! = nd))
    (hle : ∀ j, j < data.size → data[j]! ≠ nd → data[j]! ≤ data'[j]!) (j : Nat) (hj : j < data.size) :
    (fillDownModel ds seq data nd how)[j]! ≤ (fillDownModel ds seq data' nd how)[j]! := by
  have hb' : ∀ i ∈ seq, i < data'.size := fun i hi => hsz ▸ hb i hi
  have h := fillOpt_mono_c14 ds seq data data' nd nd how htopo hb hsz hpat hle j hj
  rw [(fillDown_rec ds seq data nd how htopo hb j hj).2,
    (fillDown_rec ds seq data' nd how htopo hb' j (hsz ▸ hj)).2]
  unfold fillOpt at h
  revert h
  cases optOf (fillDownState ds seq data nd how)[j]! <;>
    cases optOf (fillDownState ds seq data' nd how)[j]! <;> simp [OptLe_c14]

end Pf
