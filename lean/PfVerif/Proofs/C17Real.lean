import Mathlib.Analysis.SpecialFunctions.Trigonometric.Basic
import PfVerif.Model.C17
/-! # C17 over ℝ (Mathlib): the real sine, π and `Real.sqrt`

The executable model (`Model/C17.lean`) is rational and treats sine, π, `degree_metres_x/y` and `math.hypot`
as parameters.  This file states the same formulas over ℝ with Mathlib's `Real.sin`, `Real.pi`, `Real.cos`,
`Real.sqrt`, proves the real-analysis halves of the property (sphere sum, hypotenuse, facts about the
degree-length series) and the casts that tie the rational model to the real formulas. -/
open Finset
namespace Pf.C17


/-- `np.radians` -/
noncomputable def radians (x : ℝ) : ℝ := x * (Real.pi / 180)

/-- `gis_utils.cellarea(lat, xres, yres)` over ℝ with the real sine; `R = _R` -/
noncomputable def cellareaR (R lat xres yres : ℝ) : ℝ :=
  R ^ 2 * radians |xres| * (Real.sin (radians (lat + |yres| / 2)) - Real.sin (radians (lat - |yres| / 2)))

/-- latitude of the cell centres of row `r` (`affine_to_coords`): `yoff + (r + ½)·yres` -/
noncomputable def rowLat (yoff yres : ℝ) (r : ℕ) : ℝ := yoff + ((r : ℝ) + 1 / 2) * yres

theorem sum_rows_neg (yoff yres : ℝ) (h : yres < 0) (n : ℕ) :
    ∑ r ∈ range n, (Real.sin (radians (rowLat yoff yres r + |yres| / 2)) -
        Real.sin (radians (rowLat yoff yres r - |yres| / 2))) =
      Real.sin (radians yoff) - Real.sin (radians (yoff + n * yres)) := by
  have habs : |yres| = -yres := abs_of_neg h
  have := Finset.sum_range_sub' (fun r : ℕ => Real.sin (radians (yoff + (r : ℝ) * yres))) n
  simp only [Nat.cast_zero, zero_mul, add_zero] at this
  rw [← this]
  apply Finset.sum_congr rfl
  intro r _
  simp only [rowLat, habs, Nat.cast_add, Nat.cast_one]
  congr 3 <;> ring

theorem sum_rows_pos (yoff yres : ℝ) (h : 0 ≤ yres) (n : ℕ) :
    ∑ r ∈ range n, (Real.sin (radians (rowLat yoff yres r + |yres| / 2)) -
        Real.sin (radians (rowLat yoff yres r - |yres| / 2))) =
      Real.sin (radians (yoff + n * yres)) - Real.sin (radians yoff) := by
  have habs : |yres| = yres := abs_of_nonneg h
  have := Finset.sum_range_sub (fun r : ℕ => Real.sin (radians (yoff + (r : ℝ) * yres))) n
  simp only [Nat.cast_zero, zero_mul, add_zero] at this
  rw [← this]
  apply Finset.sum_congr rfl
  intro r _
  simp only [rowLat, habs, Nat.cast_add, Nat.cast_one]
  congr 3 <;> ring

/-- telescoping over ℝ: all cells of any geographic raster -/
theorem sphere_sum_real_general (R xres yres yoff : ℝ) (nrow ncol : ℕ) :
    ∑ _r ∈ range nrow, ∑ _c ∈ range ncol, cellareaR R (rowLat yoff yres _r) xres yres =
      R ^ 2 * radians ((ncol : ℝ) * |xres|) *
        (if yres < 0 then Real.sin (radians yoff) - Real.sin (radians (yoff + nrow * yres))
         else Real.sin (radians (yoff + nrow * yres)) - Real.sin (radians yoff)) := by
  simp only [sum_const, card_range, nsmul_eq_mul, cellareaR]
  rw [← Finset.mul_sum, ← Finset.mul_sum]
  split
  · rename_i h; rw [sum_rows_neg yoff yres h]; simp only [radians]; ring
  · rename_i h; rw [sum_rows_pos yoff yres (not_lt.mp h)]; simp only [radians]; ring

theorem sin_radians_90 : Real.sin (radians 90) = 1 := by
  have : radians 90 = Real.pi / 2 := by simp only [radians]; ring
  rw [this, Real.sin_pi_div_two]

theorem sin_radians_neg90 : Real.sin (radians (-90)) = -1 := by
  have : radians (-90) = -(Real.pi / 2) := by simp only [radians]; ring
  rw [this, Real.sin_neg, Real.sin_pi_div_two]

/-- **global grid = the sphere** over ℝ -/
theorem sphere_sum_real (R xres yres yoff : ℝ) (nrow ncol : ℕ)
    (hcols : (ncol : ℝ) * |xres| = 360) (hrows : (nrow : ℝ) * |yres| = 180)
    (htop : (yres < 0 ∧ yoff = 90) ∨ (0 < yres ∧ yoff = -90)) :
    ∑ _r ∈ range nrow, ∑ _c ∈ range ncol, cellareaR R (rowLat yoff yres _r) xres yres =
      4 * Real.pi * R ^ 2 := by
  rw [sphere_sum_real_general, hcols]
  rcases htop with ⟨h, rfl⟩ | ⟨h, rfl⟩
  · have e : (90 : ℝ) + nrow * yres = -90 := by
      rw [abs_of_neg h] at hrows; linarith
    rw [if_pos h, e, sin_radians_90, sin_radians_neg90]; simp only [radians]; ring
  · have e : (-90 : ℝ) + nrow * yres = 90 := by
      rw [abs_of_pos h] at hrows; linarith
    rw [if_neg (not_lt.mpr h.le), e, sin_radians_90, sin_radians_neg90]; simp only [radians]; ring



/-! ### hypot -/
/-- the real value of `math.hypot(p, q)` -/
noncomputable def hypotR (p q : ℝ) : ℝ := Real.sqrt (p ^ 2 + q ^ 2)

/-- `IsHypot` over ℝ -/
def IsHypotR (d p q : ℝ) : Prop := 0 ≤ d ∧ d * d = p * p + q * q

theorem isHypotR_iff (d p q : ℝ) : IsHypotR d p q ↔ d = hypotR p q := by
  unfold IsHypotR hypotR
  constructor
  · rintro ⟨h0, h⟩
    rw [show p ^ 2 + q ^ 2 = d ^ 2 by rw [sq, sq, sq]; exact h.symm, Real.sqrt_sq h0]
  · rintro rfl
    refine ⟨Real.sqrt_nonneg _, ?_⟩
    rw [← sq, Real.sq_sqrt (by positivity)]; ring

theorem absQ_eq_abs (x : ℚ) : absQ x = |x| := by
  unfold absQ
  split
  · rename_i h; exact (abs_of_neg h).symm
  · rename_i h; exact (abs_of_nonneg (not_lt.mp h)).symm

/-- the rational `IsHypot` of the model is the real one: a rational `d` with `IsHypot d p q` is `math.hypot` -/
theorem isHypot_cast (d p q : ℚ) : IsHypot d p q ↔ (d : ℝ) = hypotR p q := by
  rw [← isHypotR_iff]
  unfold IsHypot IsHypotR
  constructor
  · rintro ⟨h0, h⟩
    exact ⟨by exact_mod_cast h0, by exact_mod_cast h⟩
  · rintro ⟨h0, h⟩
    exact ⟨by exact_mod_cast h0, by exact_mod_cast h⟩

theorem hypotR_zero_left (q : ℝ) : hypotR 0 q = |q| := by
  unfold hypotR; simp [Real.sqrt_sq_eq_abs]
theorem hypotR_zero_right (p : ℝ) : hypotR p 0 = |p| := by
  unfold hypotR; simp [Real.sqrt_sq_eq_abs]
theorem hypotR_congr {p q p' q' : ℝ} (h : p * p + q * q = p' * p' + q' * q') : hypotR p q = hypotR p' q' := by
  unfold hypotR; rw [sq, sq, sq, sq, h]

/-- real length computed by `distance` from the model's legs -/
noncomputable def distR (legs : ℚ × ℚ) : ℝ := hypotR legs.1 legs.2



/-! ### `degree_metres_y`, `degree_metres_x` as real functions -/
noncomputable def dmyR (lat : ℝ) : ℝ :=
  111132.92 + (-559.82) * Real.cos (2 * radians lat) + 1.175 * Real.cos (4 * radians lat)
    + (-0.0023) * Real.cos (6 * radians lat)

noncomputable def dmxR (lat : ℝ) : ℝ :=
  111412.84 * Real.cos (radians lat) + (-93.5) * Real.cos (3 * radians lat)
    + 0.118 * Real.cos (5 * radians lat)

theorem radians_neg (x : ℝ) : radians (-x) = -radians x := by simp only [radians]; ring

theorem dmyR_even (lat : ℝ) : dmyR (-lat) = dmyR lat := by
  simp only [dmyR, radians_neg, mul_neg, Real.cos_neg]

theorem dmxR_even (lat : ℝ) : dmxR (-lat) = dmxR lat := by
  simp only [dmxR, radians_neg, mul_neg, Real.cos_neg]

theorem dmyR_pos (lat : ℝ) : 0 < dmyR lat := by
  unfold dmyR
  have a1 := Real.cos_le_one (2 * radians lat)
  have a2 := Real.neg_one_le_cos (4 * radians lat)
  have a3 := Real.cos_le_one (6 * radians lat)
  nlinarith

theorem cos_five_mul (x : ℝ) :
    Real.cos (5 * x) = 16 * Real.cos x ^ 5 - 20 * Real.cos x ^ 3 + 5 * Real.cos x := by
  have h5 : 5 * x = 2 * x + 3 * x := by ring
  have hs : Real.sin x ^ 2 = 1 - Real.cos x ^ 2 := Real.sin_sq x
  rw [h5, Real.cos_add, Real.cos_two_mul, Real.cos_three_mul, Real.sin_two_mul, Real.sin_three_mul]
  have key : 2 * Real.sin x * Real.cos x * (3 * Real.sin x - 4 * Real.sin x ^ 3) =
      2 * Real.cos x * (3 * Real.sin x ^ 2 - 4 * (Real.sin x ^ 2) ^ 2) := by ring
  rw [key, hs]; ring

/-- `degree_metres_x = cos φ · (positive polynomial in cos² φ)` -/
theorem dmxR_factor (lat : ℝ) :
    dmxR lat = Real.cos (radians lat) *
      (111693.93 - 376.36 * Real.cos (radians lat) ^ 2 + 1.888 * Real.cos (radians lat) ^ 4) := by
  unfold dmxR
  rw [Real.cos_three_mul, cos_five_mul]; ring

theorem dmxR_nonneg (lat : ℝ) (h : |lat| ≤ 90) : 0 ≤ dmxR lat := by
  rw [dmxR_factor]
  have hc : 0 ≤ Real.cos (radians lat) := by
    apply Real.cos_nonneg_of_mem_Icc
    have := abs_le.mp h
    have hpi := Real.pi_pos
    constructor <;> simp only [radians] <;> nlinarith
  have h1 := Real.cos_le_one (radians lat)
  apply mul_nonneg hc
  have : Real.cos (radians lat) ^ 2 ≤ 1 := by nlinarith
  have : 0 ≤ Real.cos (radians lat) ^ 4 := by positivity
  nlinarith

theorem dmxR_pole : dmxR 90 = 0 ∧ dmxR (-90) = 0 := by
  have h : Real.cos (radians 90) = 0 := by
    have : radians 90 = Real.pi / 2 := by simp only [radians]; ring
    rw [this, Real.cos_pi_div_two]
  constructor
  · rw [dmxR_factor, h]; ring
  · rw [dmxR_even, dmxR_factor, h]; ring

/-- east–west / north–south geographic step lengths with the real `degree_metres` functions -/
theorem geo_step_ew (lat dx : ℝ) (h : |lat| ≤ 90) : hypotR (dmyR lat * 0) (dmxR lat * dx) = dmxR lat * |dx| := by
  rw [mul_zero, hypotR_zero_left, abs_mul, abs_of_nonneg (dmxR_nonneg lat h)]
theorem geo_step_ns (lat dy : ℝ) : hypotR (dmyR lat * dy) (dmxR lat * 0) = dmyR lat * |dy| := by
  rw [mul_zero, hypotR_zero_right, abs_mul, abs_of_pos (dmyR_pos lat)]



/-- the formula of `cellarea` over ℝ with an arbitrary sine-of-degrees `s` and constant `pi180` -/
noncomputable def cellareaG (R2 pi180 : ℝ) (s : ℝ → ℝ) (lat xres yres : ℝ) : ℝ :=
  R2 * (pi180 * |xres|) * (s (lat + |yres| / 2) - s (lat - |yres| / 2))

/-- the rational model `cellareaM` is this formula restricted to rationals -/
theorem cellareaM_cast (R2 pi180 : ℚ) (sinD : ℚ → ℚ) (s : ℝ → ℝ) (hs : ∀ q : ℚ, s q = sinD q)
    (lat xres yres : ℚ) :
    ((cellareaM R2 pi180 sinD lat xres yres : ℚ) : ℝ) = cellareaG R2 pi180 s lat xres yres := by
  simp only [cellareaM, cellareaG, absQ_eq_abs]
  have h1 := hs (lat + |yres| / 2)
  have h2 := hs (lat - |yres| / 2)
  push_cast at h1 h2 ⊢
  rw [h1, h2]

/-- ... and `cellareaR` (real sine, real π) is the same formula -/
theorem cellareaR_eq (R lat xres yres : ℝ) :
    cellareaR R lat xres yres =
      cellareaG (R ^ 2) (Real.pi / 180) (fun d => Real.sin (radians d)) lat xres yres := by
  simp only [cellareaR, cellareaG, radians]; ring

end Pf.C17
